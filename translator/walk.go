package main

import (
	"fmt"
	"go/ast"
	"go/token"
	"strings"
)

// ---------------------------------------------------------------------------------------------
// a very small type inference: enough to know, for a selector x.f, whether x is one of the
// structs declared in the analysed file (tracked), certainly something else, or not known.

type tkind int

const (
	tUnknown   tkind = iota // could not be determined (selectors on it are judged by name)
	tUntracked              // certainly not a tracked struct
	tExpr                   // described by a type expression
)

type typ struct {
	k tkind
	e ast.Expr
	// results of a call that returns several values
	multi []typ
}

var unknownT = typ{k: tUnknown}
var untrackedT = typ{k: tUntracked}

func texpr(e ast.Expr) typ {
	if e == nil {
		return unknownT
	}
	return typ{k: tExpr, e: e}
}

var builtinFuncs = map[string]bool{"append": true, "cap": true, "clear": true, "close": true, "complex": true,
	"copy": true, "delete": true, "imag": true, "len": true, "make": true, "max": true, "min": true, "new": true,
	"panic": true, "print": true, "println": true, "real": true, "recover": true}

var builtinTypes = map[string]bool{"bool": true, "byte": true, "complex64": true, "complex128": true, "error": true,
	"float32": true, "float64": true, "int": true, "int8": true, "int16": true, "int32": true, "int64": true,
	"rune": true, "string": true, "uint": true, "uint8": true, "uint16": true, "uint32": true, "uint64": true,
	"uintptr": true, "any": true}

type fctx struct {
	pi       *pkgInfo
	imps     map[string]bool
	file     string
	name     string // name of the function whose body is being translated (closure: Parent$k)
	root     *fctx  // the enclosing declared function (closure numbering)
	nclosure int
	env      map[string]typ
	defers   [][]S // pending deferred bodies (translator-expanded), in registration order
	depth    int   // nesting depth inside the current function body (0 = top level)
	inLoop   int
	inSwitch int
	foreign  bool
}

func (c *fctx) unknown(pos token.Pos, format string, args ...any) S {
	msg := fmt.Sprintf(format, args...)
	p := c.pi.fset.Position(pos)
	full := fmt.Sprintf("%s:%d %s: %s", c.file, p.Line, c.name, msg)
	if !c.foreign {
		c.pi.prog.unknowns = append(c.pi.prog.unknowns, full)
	}
	return S{kind: "Unknown", a: full}
}

// structOf: the tracked struct a value of type t denotes (through pointers), if any
func (c *fctx) structOf(t typ) (si *structInfo, known bool) {
	switch t.k {
	case tUnknown:
		return nil, false
	case tUntracked:
		return nil, true
	}
	e := t.e
	for {
		switch x := e.(type) {
		case *ast.StarExpr:
			e = x.X
			continue
		case *ast.ParenExpr:
			e = x.X
			continue
		case *ast.Ident:
			if s, ok := c.pi.structs[x.Name]; ok {
				return s, true
			}
			return nil, true // some other named or basic type
		}
		return nil, true // qualified, func, map, slice, interface, chan ...: not a tracked struct
	}
}

// namedOf: the type name a value of type t has (through pointers), "" if none
func namedOf(t typ) string {
	if t.k != tExpr {
		return ""
	}
	e := t.e
	for {
		switch x := e.(type) {
		case *ast.StarExpr:
			e = x.X
			continue
		case *ast.ParenExpr:
			e = x.X
			continue
		case *ast.Ident:
			return x.Name
		}
		return ""
	}
}

func isMutexType(e ast.Expr) bool {
	s, ok := e.(*ast.SelectorExpr)
	if !ok {
		return false
	}
	x, ok := s.X.(*ast.Ident)
	return ok && x.Name == "sync" && (s.Sel.Name == "Mutex" || s.Sel.Name == "RWMutex")
}

func (c *fctx) funcResults(ft *ast.FuncType) typ {
	if ft == nil || ft.Results == nil {
		return untrackedT
	}
	var rs []typ
	for _, f := range ft.Results.List {
		n := len(f.Names)
		if n == 0 {
			n = 1
		}
		for i := 0; i < n; i++ {
			rs = append(rs, texpr(f.Type))
		}
	}
	if len(rs) == 1 {
		return rs[0]
	}
	return typ{k: tUntracked, multi: rs}
}

// element types for range: key, value
func (c *fctx) rangeTypes(t typ) (typ, typ) {
	if t.k != tExpr {
		return t, t
	}
	e := c.underlying(t.e)
	if st, ok := e.(*ast.StarExpr); ok { // *[N]T, or a pointer to a named slice that is dereferenced
		e = c.underlying(st.X)
	}
	switch x := e.(type) {
	case *ast.ArrayType:
		return untrackedT, texpr(x.Elt)
	case *ast.Ellipsis:
		return untrackedT, texpr(x.Elt)
	case *ast.MapType:
		return texpr(x.Key), texpr(x.Value)
	case *ast.ChanType:
		return texpr(x.Value), untrackedT
	case *ast.Ident:
		if builtinTypes[x.Name] {
			return untrackedT, untrackedT
		}
	}
	return unknownT, unknownT
}

// underlying resolves names of types declared in the package (any file) to their definition
func (c *fctx) underlying(e ast.Expr) ast.Expr {
	for i := 0; i < 10; i++ {
		switch x := e.(type) {
		case *ast.ParenExpr:
			e = x.X
			continue
		case *ast.Ident:
			if d, ok := c.pi.typeDecls[x.Name]; ok {
				if _, isStruct := d.(*ast.StructType); isStruct {
					return e
				}
				e = d
				continue
			}
		}
		return e
	}
	return e
}

func (c *fctx) typeOf(e ast.Expr) typ {
	switch x := e.(type) {
	case *ast.Ident:
		if t, ok := c.env[x.Name]; ok {
			return t
		}
		if x.Name == "nil" || x.Name == "true" || x.Name == "false" || x.Name == "iota" {
			return untrackedT
		}
		if c.imps[x.Name] {
			return untrackedT
		}
		return unknownT
	case *ast.ParenExpr:
		return c.typeOf(x.X)
	case *ast.StarExpr:
		return c.typeOf(x.X) // structOf looks through pointers
	case *ast.UnaryExpr:
		if x.Op == token.AND {
			return c.typeOf(x.X)
		}
		if x.Op == token.ARROW {
			k, _ := c.rangeTypes(c.typeOf(x.X))
			return k
		}
		return untrackedT
	case *ast.BasicLit, *ast.BinaryExpr, *ast.FuncLit:
		return untrackedT
	case *ast.CompositeLit:
		if x.Type == nil {
			return unknownT
		}
		return texpr(x.Type)
	case *ast.TypeAssertExpr:
		if x.Type == nil {
			return unknownT
		}
		return texpr(x.Type)
	case *ast.IndexExpr:
		_, v := c.rangeTypes(c.typeOf(x.X))
		return v
	case *ast.SliceExpr:
		return c.typeOf(x.X)
	case *ast.SelectorExpr:
		if id, ok := x.X.(*ast.Ident); ok && c.imps[id.Name] {
			if _, shadow := c.env[id.Name]; !shadow {
				return untrackedT // pkg.Name: a value or type of another package
			}
		}
		t := c.typeOf(x.X)
		si, known := c.structOf(t)
		if si != nil {
			if fi, ok := si.byName[x.Sel.Name]; ok {
				return texpr(fi.texpr)
			}
			return untrackedT // method value or promoted member
		}
		if known {
			return untrackedT // field or method of a foreign type: cannot be a tracked struct?  see note
		}
		return unknownT
	case *ast.CallExpr:
		// conversion T(x)
		switch f := x.Fun.(type) {
		case *ast.Ident:
			if _, shadow := c.env[f.Name]; !shadow {
				if fd, ok := c.pi.funcs[f.Name]; ok {
					return c.funcResults(fd.Type)
				}
				if fd, ok := c.pi.allFuncs[f.Name]; ok {
					return c.funcResults(fd.Type)
				}
				if f.Name == "new" && len(x.Args) == 1 {
					return texpr(x.Args[0])
				}
				if f.Name == "make" && len(x.Args) >= 1 {
					return texpr(x.Args[0])
				}
				if builtinFuncs[f.Name] || builtinTypes[f.Name] {
					return untrackedT
				}
				if c.pi.named[f.Name] {
					return texpr(f) // conversion to a type declared in this file
				}
				return unknownT
			}
			if t := c.env[f.Name]; t.k == tExpr {
				if ft, ok := t.e.(*ast.FuncType); ok {
					return c.funcResults(ft)
				}
			}
			return unknownT
		case *ast.SelectorExpr:
			if id, ok := f.X.(*ast.Ident); ok && c.imps[id.Name] {
				if _, shadow := c.env[id.Name]; !shadow {
					return untrackedT // function of another package: cannot return one of our structs
				}
			}
			rt := c.typeOf(f.X)
			si, known := c.structOf(rt)
			if si != nil {
				if md, ok := c.pi.methods[si.name][f.Sel.Name]; ok {
					return c.funcResults(md.Type)
				}
				if fi, ok := si.byName[f.Sel.Name]; ok {
					if ft, ok := fi.texpr.(*ast.FuncType); ok {
						return c.funcResults(ft)
					}
					return unknownT
				}
				return untrackedT // promoted method of an embedded foreign type
			}
			if known {
				if n := namedOf(rt); n != "" {
					if md, ok := c.pi.allMethods[n][f.Sel.Name]; ok {
						return c.funcResults(md.Type) // method of another struct of the package
					}
				}
				return untrackedT // method of a foreign value
			}
			return unknownT
		case *ast.ParenExpr, *ast.ArrayType, *ast.MapType, *ast.StarExpr, *ast.FuncType, *ast.InterfaceType, *ast.ChanType:
			return texpr(x.Fun)
		case *ast.FuncLit:
			return c.funcResults(f.Type)
		}
		return unknownT
	}
	return unknownT
}

// note on "field or method of a foreign type": a value reached through a foreign type (net.Conn,
// context.Context, ...) can only be one of our structs through an interface, and then its fields
// are not accessible without a type assertion, which typeOf handles explicitly.

// ---------------------------------------------------------------------------------------------
// expressions

func (c *fctx) exprs(es []ast.Expr) []S {
	var out []S
	for _, e := range es {
		out = append(out, c.expr(e, "R")...)
	}
	return out
}

func (c *fctx) noteValue(name string) {
	if c.foreign {
		return
	}
	if !c.pi.valSet[name] {
		c.pi.valSet[name] = true
		c.pi.prog.values = append(c.pi.prog.values, name)
	}
}

// selector x.sel in value position (mode R or W)
func (c *fctx) selector(x *ast.SelectorExpr, mode string) []S {
	if id, ok := x.X.(*ast.Ident); ok && c.imps[id.Name] {
		if _, shadow := c.env[id.Name]; !shadow {
			return nil
		}
	}
	out := c.expr(x.X, "R")
	t := c.typeOf(x.X)
	si, known := c.structOf(t)
	if si != nil {
		if fi, ok := si.byName[x.Sel.Name]; ok {
			if isMutexType(fi.texpr) {
				return append(out, c.unknown(x.Pos(), "mutex %s.%s used other than by Lock/Unlock/RLock/RUnlock", si.name, fi.name))
			}
			if mode == "W" {
				c.addSite(si.name+"."+fi.name, "SAssign")
			}
			return append(out, S{kind: "Use", a: si.name + "." + fi.name, b: mode})
		}
		if _, ok := c.pi.methods[si.name][x.Sel.Name]; ok {
			c.noteValue(si.name + "." + x.Sel.Name) // method value: may be called from anywhere
			return out
		}
		emb := false
		for _, fi := range si.fields {
			if fi.embedded {
				out = append(out, S{kind: "Use", a: si.name + "." + fi.name, b: "R"})
				emb = true
			}
		}
		if emb {
			return out
		}
		return append(out, c.unknown(x.Pos(), "%s.%s is neither a field nor a method declared in this file", si.name, x.Sel.Name))
	}
	if !known && c.pi.member[x.Sel.Name] {
		return append(out, c.unknown(x.Pos(), "cannot resolve the type of the operand of .%s", x.Sel.Name))
	}
	return out
}

func (c *fctx) expr(e ast.Expr, mode string) []S {
	switch x := e.(type) {
	case nil:
		return nil
	case *ast.Ident:
		if _, shadow := c.env[x.Name]; !shadow {
			if _, ok := c.pi.funcs[x.Name]; ok {
				c.noteValue(x.Name) // function used as a value
			}
		}
		return nil
	case *ast.BasicLit:
		return nil
	case *ast.ParenExpr:
		return c.expr(x.X, mode)
	case *ast.StarExpr:
		return c.expr(x.X, mode)
	case *ast.UnaryExpr:
		if x.Op == token.AND {
			if _, ok := x.X.(*ast.CompositeLit); ok {
				return c.expr(x.X, "R")
			}
			return c.expr(x.X, "W") // address taken: may be written through the pointer
		}
		return c.expr(x.X, "R")
	case *ast.BinaryExpr:
		return append(c.expr(x.X, "R"), c.expr(x.Y, "R")...)
	case *ast.KeyValueExpr:
		return append(c.expr(x.Key, "R"), c.expr(x.Value, "R")...)
	case *ast.IndexExpr:
		return append(c.expr(x.X, mode), c.expr(x.Index, "R")...)
	case *ast.SliceExpr:
		out := c.expr(x.X, mode)
		out = append(out, c.expr(x.Low, "R")...)
		out = append(out, c.expr(x.High, "R")...)
		return append(out, c.expr(x.Max, "R")...)
	case *ast.TypeAssertExpr:
		return c.expr(x.X, "R")
	case *ast.SelectorExpr:
		return c.selector(x, mode)
	case *ast.CompositeLit:
		return c.composite(x)
	case *ast.FuncLit:
		c.closure(x)
		return nil
	case *ast.CallExpr:
		return c.call(x)
	case *ast.ArrayType, *ast.MapType, *ast.FuncType, *ast.InterfaceType, *ast.StructType, *ast.ChanType, *ast.Ellipsis:
		return nil
	}
	return []S{c.unknown(e.Pos(), "expression %T", e)}
}

func (c *fctx) composite(x *ast.CompositeLit) []S {
	var out []S
	var si *structInfo
	if x.Type != nil {
		si, _ = c.structOf(texpr(x.Type))
	}
	for i, el := range x.Elts {
		if kv, ok := el.(*ast.KeyValueExpr); ok {
			if si != nil {
				if k, ok := kv.Key.(*ast.Ident); ok {
					c.addSite(si.name+"."+k.Name, "SInit")
				}
			} else {
				out = append(out, c.expr(kv.Key, "R")...)
			}
			out = append(out, c.expr(kv.Value, "R")...)
			continue
		}
		if si != nil && i < len(si.fields) {
			c.addSite(si.name+"."+si.fields[i].name, "SInit")
		}
		out = append(out, c.expr(el, "R")...)
	}
	return out
}

func (c *fctx) addSite(field, kind string) {
	if c.foreign {
		return
	}
	ss := c.pi.prog.sites[field]
	for _, s := range ss {
		if s.fn == c.name && s.kind == kind {
			return
		}
	}
	c.pi.prog.sites[field] = append(ss, site{c.name, kind})
}

// a function literal that is not the operand of go/defer: separate entry point
func (c *fctx) closure(fl *ast.FuncLit) {
	root := c.root
	root.nclosure++
	name := fmt.Sprintf("%s$%d", root.name, root.nclosure)
	sub := c.child(name, fl.Type)
	body := sub.funcBody(fl.Body)
	if !c.foreign {
		p := c.pi.fset.Position(fl.Pos())
		c.pi.prog.funcs = append(c.pi.prog.funcs, &fnOut{name: name, kind: "KClosure", pos: fmt.Sprintf("%s:%d", c.file, p.Line), body: body})
		c.noteValue(name)
	} else {
		c.pi.prog.foreign = append(c.pi.prog.foreign, foreignRefs(c.file, name, body)...)
	}
}

func (c *fctx) child(name string, ft *ast.FuncType) *fctx {
	sub := &fctx{pi: c.pi, imps: c.imps, file: c.file, name: name, root: c.root, env: map[string]typ{}, foreign: c.foreign}
	for k, v := range c.env {
		sub.env[k] = v
	}
	sub.bindParams(ft)
	return sub
}

func (c *fctx) bindParams(ft *ast.FuncType) {
	if ft == nil {
		return
	}
	for _, fl := range []*ast.FieldList{ft.Params, ft.Results} {
		if fl == nil {
			continue
		}
		for _, f := range fl.List {
			for _, n := range f.Names {
				c.env[n.Name] = texpr(f.Type)
			}
		}
	}
}

func (c *fctx) call(x *ast.CallExpr) []S {
	fun := x.Fun
	for {
		p, ok := fun.(*ast.ParenExpr)
		if !ok {
			break
		}
		fun = p.X
	}
	switch f := fun.(type) {
	case *ast.Ident:
		if _, shadow := c.env[f.Name]; shadow {
			return c.exprs(x.Args) // call through a local function value: see `values`
		}
		if _, ok := c.pi.funcs[f.Name]; ok {
			return append(c.exprs(x.Args), S{kind: "Call", a: f.Name})
		}
		switch f.Name {
		case "delete":
			if len(x.Args) == 2 {
				return append(c.expr(x.Args[0], "W"), c.expr(x.Args[1], "R")...)
			}
		case "new", "make":
			if len(x.Args) >= 1 {
				return c.exprs(x.Args[1:])
			}
		case "clear", "close":
			if len(x.Args) == 1 {
				return c.expr(x.Args[0], "W")
			}
		}
		if builtinFuncs[f.Name] || builtinTypes[f.Name] || c.pi.named[f.Name] {
			return c.exprs(x.Args)
		}
		if c.foreign {
			return c.exprs(x.Args)
		}
		return append(c.exprs(x.Args), c.unknown(x.Pos(), "call of %s, which is not declared in this file", f.Name))
	case *ast.SelectorExpr:
		// recv.mu.Lock() and friends
		if inner, ok := f.X.(*ast.SelectorExpr); ok {
			si, _ := c.structOf(c.typeOf(inner.X))
			if si != nil {
				if fi, ok := si.byName[inner.Sel.Name]; ok && isMutexType(fi.texpr) {
					out := c.expr(inner.X, "R")
					m := si.name + "." + fi.name
					switch f.Sel.Name {
					case "Lock", "Unlock", "RLock", "RUnlock":
						return append(out, S{kind: f.Sel.Name, a: m})
					}
					return append(out, c.unknown(x.Pos(), "mutex method %s.%s", m, f.Sel.Name))
				}
			}
		}
		if id, ok := f.X.(*ast.Ident); ok && c.imps[id.Name] {
			if _, shadow := c.env[id.Name]; !shadow {
				return c.exprs(x.Args) // function of another package
			}
		}
		si, _ := c.structOf(c.typeOf(f.X))
		if si != nil {
			if _, ok := c.pi.methods[si.name][f.Sel.Name]; ok {
				out := c.expr(f.X, "R")
				out = append(out, c.exprs(x.Args)...)
				return append(out, S{kind: "Call", a: si.name + "." + f.Sel.Name})
			}
		}
		// field of function type, method of a foreign value, promoted method ...
		out := c.selector(f, "R")
		return append(out, c.exprs(x.Args)...)
	case *ast.FuncLit:
		return append(c.exprs(x.Args), c.unknown(x.Pos(), "function literal called in place"))
	case *ast.ArrayType, *ast.MapType, *ast.StarExpr, *ast.FuncType, *ast.InterfaceType, *ast.ChanType:
		return c.exprs(x.Args) // conversion
	}
	out := c.expr(fun, "R")
	return append(out, c.exprs(x.Args)...)
}

// references to tracked structs inside a foreign file's function
func foreignRefs(file, fn string, body []S) []string {
	var out []string
	var walk func(l []S)
	walk = func(l []S) {
		for _, s := range l {
			switch s.kind {
			case "Use":
				out = append(out, fmt.Sprintf("%s %s: Use %s %s", file, fn, s.a, s.b))
			case "Lock", "Unlock", "DeferUnlock", "RLock", "RUnlock", "DeferRUnlock":
				out = append(out, fmt.Sprintf("%s %s: %s %s", file, fn, s.kind, s.a))
			case "Call":
				name := s.a
				if i := strings.LastIndex(name, "."); i >= 0 {
					name = name[i+1:]
				}
				if !ast.IsExported(name) {
					out = append(out, fmt.Sprintf("%s %s: Call %s", file, fn, s.a))
				}
			case "Unknown":
				out = append(out, s.a)
			}
			for _, k := range s.kids {
				walk(k)
			}
		}
	}
	walk(body)
	return out
}
