package main

import (
	"fmt"
	"go/ast"
	"go/token"
	"strings"
)

func translateFunc(pi *pkgInfo, imps map[string]bool, file string, fd *ast.FuncDecl, foreign bool) {
	name := fd.Name.Name
	if r := recvTypeName(fd); r != "" {
		name = r + "." + name
	}
	c := &fctx{pi: pi, imps: imps, file: file, name: name, env: map[string]typ{}, foreign: foreign}
	c.root = c
	if fd.Recv != nil {
		for _, f := range fd.Recv.List {
			for _, n := range f.Names {
				c.env[n.Name] = texpr(f.Type)
			}
		}
	}
	c.bindParams(fd.Type)
	// the function's own slot comes before its closures (source order)
	var slot *fnOut
	if !foreign {
		p := pi.fset.Position(fd.Pos())
		slot = &fnOut{name: name, kind: "KFunc", exported: ast.IsExported(fd.Name.Name), pos: fmt.Sprintf("%s:%d", file, p.Line)}
		pi.prog.funcs = append(pi.prog.funcs, slot)
	}
	body := c.funcBody(fd.Body)
	if foreign {
		pi.prog.foreign = append(pi.prog.foreign, foreignRefs(file, name, body)...)
		return
	}
	slot.body = body
}

func (c *fctx) funcBody(b *ast.BlockStmt) []S {
	out := c.block(b.List)
	return append(out, c.runDefers()...)
}

// deferred bodies in LIFO order
func (c *fctx) runDefers() []S {
	var out []S
	for i := len(c.defers) - 1; i >= 0; i-- {
		out = append(out, c.defers[i]...)
	}
	return out
}

func (c *fctx) block(l []ast.Stmt) []S {
	var out []S
	for _, s := range l {
		out = append(out, c.stmt(s)...)
	}
	return out
}

func (c *fctx) nested(l []ast.Stmt) []S {
	c.depth++
	out := c.block(l)
	c.depth--
	return out
}

func containsKind(l []S, kind string, throughLoops bool) bool {
	for _, s := range l {
		if s.kind == kind {
			return true
		}
		if s.kind == "Go" || (s.kind == "Loop" && !throughLoops) {
			continue
		}
		for _, k := range s.kids {
			if containsKind(k, kind, throughLoops) {
				return true
			}
		}
	}
	return false
}

func (c *fctx) bind(lhs ast.Expr, t typ) {
	if id, ok := lhs.(*ast.Ident); ok && id.Name != "_" {
		c.env[id.Name] = t
	}
}

func (c *fctx) bindAll(lhs []ast.Expr, rhs []ast.Expr) {
	if len(lhs) == len(rhs) {
		for i := range lhs {
			c.bind(lhs[i], c.typeOf(rhs[i]))
		}
		return
	}
	if len(rhs) != 1 {
		for _, l := range lhs {
			c.bind(l, unknownT)
		}
		return
	}
	t := c.typeOf(rhs[0])
	if len(t.multi) == len(lhs) {
		for i := range lhs {
			c.bind(lhs[i], t.multi[i])
		}
		return
	}
	r := rhs[0]
	if p, ok := r.(*ast.ParenExpr); ok {
		r = p.X
	}
	switch r.(type) {
	case *ast.TypeAssertExpr, *ast.IndexExpr, *ast.UnaryExpr: // v, ok := ...
		c.bind(lhs[0], t)
		for _, l := range lhs[1:] {
			c.bind(l, untrackedT)
		}
		return
	}
	for _, l := range lhs {
		if t.k == tUntracked {
			c.bind(l, untrackedT)
		} else {
			c.bind(l, unknownT)
		}
	}
}

func (c *fctx) stmt(s ast.Stmt) []S {
	switch x := s.(type) {
	case nil, *ast.EmptyStmt:
		return nil
	case *ast.BlockStmt:
		return c.nested(x.List)
	case *ast.ExprStmt:
		return c.expr(x.X, "R")
	case *ast.SendStmt:
		return append(c.expr(x.Chan, "R"), c.expr(x.Value, "R")...)
	case *ast.IncDecStmt:
		return c.expr(x.X, "W")
	case *ast.AssignStmt:
		out := c.exprs(x.Rhs)
		if x.Tok == token.DEFINE || x.Tok == token.ASSIGN {
			c.bindAll(x.Lhs, x.Rhs)
		}
		for _, l := range x.Lhs {
			if _, ok := l.(*ast.Ident); ok {
				continue
			}
			ws := c.expr(l, "W")
			out = append(out, ws...)
			// c.conn, err = dial(): the field is overwritten before err (or ok) can be looked at, so a
			// failed call destroys the value other goroutines are working with
			if len(x.Lhs) > 1 && len(x.Rhs) == 1 {
				for _, w := range ws {
					if w.kind == "Use" && w.b == "W" {
						out = append(out, c.unknown(x.Pos(), "field %s assigned directly from a multi-value expression, before its error/ok value is checked", w.a))
					}
				}
			}
		}
		return out
	case *ast.DeclStmt:
		gd, ok := x.Decl.(*ast.GenDecl)
		if !ok {
			return []S{c.unknown(x.Pos(), "declaration")}
		}
		var out []S
		for _, sp := range gd.Specs {
			vs, ok := sp.(*ast.ValueSpec)
			if !ok {
				continue // local type declaration
			}
			out = append(out, c.exprs(vs.Values)...)
			for i, n := range vs.Names {
				switch {
				case vs.Type != nil:
					c.env[n.Name] = texpr(vs.Type)
				case i < len(vs.Values) && len(vs.Values) == len(vs.Names):
					c.env[n.Name] = c.typeOf(vs.Values[i])
				default:
					c.env[n.Name] = unknownT
				}
			}
		}
		return out
	case *ast.ReturnStmt:
		out := c.exprs(x.Results)
		out = append(out, c.runDefers()...)
		return append(out, S{kind: "Return"})
	case *ast.IfStmt:
		out := c.stmt(x.Init)
		out = append(out, c.expr(x.Cond, "R")...)
		thenB := c.nested(x.Body.List)
		var elseB []S
		if x.Else != nil {
			c.depth++
			elseB = c.stmt(x.Else)
			c.depth--
		}
		return append(out, S{kind: "Branch", kids: [][]S{thenB, elseB}})
	case *ast.SwitchStmt:
		out := c.stmt(x.Init)
		out = append(out, c.expr(x.Tag, "R")...)
		var alts [][]S
		hasDefault := false
		for _, cl := range x.Body.List {
			cc := cl.(*ast.CaseClause)
			if cc.List == nil {
				hasDefault = true
			}
			out = append(out, c.exprs(cc.List)...) // case expressions are evaluated before a body runs
		}
		c.inSwitch++
		for _, cl := range x.Body.List {
			alts = append(alts, c.nested(cl.(*ast.CaseClause).Body))
		}
		c.inSwitch--
		if !hasDefault {
			alts = append(alts, nil)
		}
		return append(out, S{kind: "Branch", kids: alts})
	case *ast.TypeSwitchStmt:
		out := c.stmt(x.Init)
		var bound string
		switch a := x.Assign.(type) {
		case *ast.AssignStmt:
			out = append(out, c.exprs(a.Rhs)...)
			if id, ok := a.Lhs[0].(*ast.Ident); ok {
				bound = id.Name
			}
		case *ast.ExprStmt:
			out = append(out, c.expr(a.X, "R")...)
		}
		var alts [][]S
		hasDefault := false
		c.inSwitch++
		for _, cl := range x.Body.List {
			cc := cl.(*ast.CaseClause)
			if cc.List == nil {
				hasDefault = true
			}
			if bound != "" {
				if len(cc.List) == 1 {
					c.env[bound] = texpr(cc.List[0])
				} else {
					c.env[bound] = unknownT
				}
			}
			alts = append(alts, c.nested(cc.Body))
		}
		c.inSwitch--
		if !hasDefault {
			alts = append(alts, nil)
		}
		return append(out, S{kind: "Branch", kids: alts})
	case *ast.SelectStmt:
		if len(x.Body.List) == 0 {
			return []S{c.unknown(x.Pos(), "empty select")}
		}
		var alts [][]S
		c.inSwitch++
		for _, cl := range x.Body.List {
			cc := cl.(*ast.CommClause)
			c.depth++
			alt := c.stmt(cc.Comm)
			c.depth--
			alt = append(alt, c.nested(cc.Body)...)
			alts = append(alts, alt)
		}
		c.inSwitch--
		return []S{{kind: "Branch", kids: alts}}
	case *ast.ForStmt:
		out := c.stmt(x.Init)
		saveSw := c.inSwitch
		c.inSwitch = 0
		c.inLoop++
		body := c.expr(x.Cond, "R")
		body = append(body, c.nested(x.Body.List)...)
		c.depth++
		post := c.stmt(x.Post)
		c.depth--
		c.inLoop--
		c.inSwitch = saveSw
		if len(post) > 0 && containsKind(body, "Continue", false) {
			body = append(body, c.unknown(x.Pos(), "continue in a loop whose post statement touches fields"))
		}
		body = append(body, post...)
		return append(out, S{kind: "Loop", kids: [][]S{body}})
	case *ast.RangeStmt:
		out := c.expr(x.X, "R")
		kt, vt := c.rangeTypes(c.typeOf(x.X))
		var body []S
		body = append(body, c.expr(x.X, "R")...) // the collection is read on every iteration
		for i, e := range []ast.Expr{x.Key, x.Value} {
			if e == nil {
				continue
			}
			if _, ok := e.(*ast.Ident); ok {
				if i == 0 {
					c.bind(e, kt)
				} else {
					c.bind(e, vt)
				}
				continue
			}
			body = append(body, c.expr(e, "W")...)
		}
		saveSw := c.inSwitch
		c.inSwitch = 0
		c.inLoop++
		body = append(body, c.nested(x.Body.List)...)
		c.inLoop--
		c.inSwitch = saveSw
		return append(out, S{kind: "Loop", kids: [][]S{body}})
	case *ast.BranchStmt:
		if x.Label != nil {
			return []S{c.unknown(x.Pos(), "%s with a label", x.Tok)}
		}
		switch x.Tok {
		case token.BREAK:
			if c.inSwitch > 0 {
				return []S{c.unknown(x.Pos(), "break inside switch/select")}
			}
			if c.inLoop > 0 {
				return []S{{kind: "Break"}}
			}
		case token.CONTINUE:
			if c.inLoop > 0 {
				return []S{{kind: "Continue"}}
			}
		}
		return []S{c.unknown(x.Pos(), "%s", x.Tok)}
	case *ast.GoStmt:
		return c.goStmt(x)
	case *ast.DeferStmt:
		return c.deferStmt(x)
	case *ast.LabeledStmt:
		return []S{c.unknown(x.Pos(), "labelled statement")}
	}
	return []S{c.unknown(s.Pos(), "statement %T", s)}
}

func (c *fctx) goStmt(x *ast.GoStmt) []S {
	if fl, ok := x.Call.Fun.(*ast.FuncLit); ok {
		out := c.exprs(x.Call.Args) // arguments are evaluated by the starting goroutine
		sub := c.child(c.name, fl.Type)
		body := sub.funcBody(fl.Body)
		return append(out, S{kind: "Go", kids: [][]S{body}})
	}
	// go f(args): the call, arguments included, is placed in the new thread (which holds no
	// lock: stricter than evaluating the arguments in the parent)
	return []S{{kind: "Go", kids: [][]S{c.call(x.Call)}}}
}

func (c *fctx) deferStmt(x *ast.DeferStmt) []S {
	if c.depth > 0 || c.inLoop > 0 {
		return []S{c.unknown(x.Pos(), "defer inside a nested block or loop")}
	}
	if fl, ok := x.Call.Fun.(*ast.FuncLit); ok {
		out := c.exprs(x.Call.Args)
		sub := c.child(c.name, fl.Type)
		body := sub.block(fl.Body.List)
		if len(sub.defers) > 0 || containsKind(body, "Return", true) || containsKind(body, "DeferUnlock", true) || containsKind(body, "DeferRUnlock", true) {
			return append(out, c.unknown(x.Pos(), "deferred function literal with return/defer inside"))
		}
		if len(body) > 0 {
			c.defers = append(c.defers, body)
		}
		return out
	}
	sts := c.call(x.Call)
	if n := len(sts); n > 0 && (sts[n-1].kind == "Unlock" || sts[n-1].kind == "RUnlock") {
		// defer recv.mu.Unlock(): kept as a statement, the semantics releases at return.  It must be
		// registered before every other deferred body with an effect (it then runs after them).
		if len(c.defers) > 0 {
			return append(sts[:n-1], c.unknown(x.Pos(), "deferred unlock registered after other deferred calls"))
		}
		return append(sts[:n-1], S{kind: "Defer" + sts[n-1].kind, a: sts[n-1].a})
	}
	for _, s := range sts {
		if s.kind == "Lock" || s.kind == "RLock" {
			return []S{c.unknown(x.Pos(), "deferred lock")}
		}
	}
	// operands are evaluated now, the call happens at return: emitted at both places (stricter)
	var now []S
	for _, s := range sts {
		if s.kind == "Use" {
			now = append(now, s)
		}
	}
	if len(sts) > 0 {
		c.defers = append(c.defers, sts)
	}
	return now
}

// ---------------------------------------------------------------------------------------------
// printing

func q(s string) string { return "\"" + strings.ReplaceAll(s, "\"", "'") + "\"" }

func leafText(s S) (string, bool) {
	switch s.kind {
	case "Lock", "Unlock", "DeferUnlock", "RLock", "RUnlock", "DeferRUnlock", "Call", "Unknown":
		return s.kind + " " + q(s.a), true
	case "Use":
		return "Use " + q(s.a) + " " + s.b, true
	case "Return", "Break", "Continue", "Other":
		return s.kind, true
	}
	return "", false
}

func printStmts(b *strings.Builder, l []S, ind string) {
	b.WriteString("[")
	if len(l) == 0 {
		b.WriteString("]")
		return
	}
	// short lists of simple statements on one line
	if len(l) <= 3 {
		var parts []string
		n := 0
		for _, s := range l {
			t, ok := leafText(s)
			if !ok {
				parts = nil
				break
			}
			parts = append(parts, t)
			n += len(t) + 2
		}
		if parts != nil && n <= 90 {
			b.WriteString(strings.Join(parts, "; ") + "]")
			return
		}
	}
	for i, s := range l {
		if i > 0 {
			b.WriteString(";")
		}
		b.WriteString("\n" + ind + "  ")
		switch s.kind {
		case "Lock", "Unlock", "DeferUnlock", "RLock", "RUnlock", "DeferRUnlock", "Call", "Unknown":
			b.WriteString(s.kind + " " + q(s.a))
		case "Use":
			b.WriteString("Use " + q(s.a) + " " + s.b)
		case "Return", "Break", "Continue", "Other":
			b.WriteString(s.kind)
		case "Go", "Loop":
			b.WriteString(s.kind + " ")
			printStmts(b, s.kids[0], ind+"  ")
		case "Branch":
			// all alternatives short: one line
			var one strings.Builder
			short := true
			for j, k := range s.kids {
				var t strings.Builder
				printStmts(&t, k, "")
				if strings.Contains(t.String(), "\n") {
					short = false
					break
				}
				if j > 0 {
					one.WriteString("; ")
				}
				one.WriteString(t.String())
			}
			if short && one.Len() <= 90 {
				b.WriteString("Branch [ " + one.String() + " ]")
				continue
			}
			b.WriteString("Branch [")
			for j, k := range s.kids {
				if j > 0 {
					b.WriteString(";")
				}
				b.WriteString("\n" + ind + "    ")
				printStmts(b, k, ind+"    ")
			}
			b.WriteString(" ]")
		}
	}
	b.WriteString(" ]")
}

func printProgram(b *strings.Builder, coqName, rel string, p *program) {
	fmt.Fprintf(b, "\n(* ===== %s ===== *)\nDefinition %s : program := {|\n  p_file := %s;\n  p_funcs := [", rel, coqName, q(rel))
	for i, f := range p.funcs {
		if i > 0 {
			b.WriteString(";")
		}
		exp := "false"
		if f.exported {
			exp = "true"
		}
		fmt.Fprintf(b, "\n    (* %s *)\n    {| fn_name := %s; fn_kind := %s; fn_exported := %s; fn_body := ", f.pos, q(f.name), f.kind, exp)
		printStmts(b, f.body, "      ")
		b.WriteString(" |}")
	}
	b.WriteString(" ];\n  p_values := [")
	for i, v := range p.values {
		if i > 0 {
			b.WriteString("; ")
		}
		b.WriteString(q(v))
	}
	b.WriteString("];\n  p_fields := [")
	first := true
	for _, si := range p.structs {
		for _, fi := range si.fields {
			if !first {
				b.WriteString(";")
			}
			first = false
			full := si.name + "." + fi.name
			fmt.Fprintf(b, "\n    {| fd_name := %s; fd_type := %s; fd_sites := [", q(full), q(fi.typ))
			for j, s := range p.sites[full] {
				if j > 0 {
					b.WriteString("; ")
				}
				fmt.Fprintf(b, "(%s, %s)", q(s.fn), s.kind)
			}
			b.WriteString("] |}")
		}
	}
	b.WriteString(" ];\n  p_foreign := [")
	for i, v := range p.foreign {
		if i > 0 {
			b.WriteString(";")
		}
		b.WriteString("\n    " + q(v))
	}
	b.WriteString("] |}.\n")
}
