module verif/gotrans

go 1.22
