package main

// Statements: a function body becomes one Gallina term.
//
//   x := e / x = e / x op= e / x++      let x' := e in ...          (a fresh name per assignment)
//   if c { ...return }  rest            if c then ... else rest
//   if c { assignments } [else {..}]    let* (x1',..) := (if c then ..Ok (x1,..) else Ok (x1,..)) in rest
//   v, err := F(a); if err != nil { return nil, err }          let* v := g_F a in ...
//   if err := F(a); err != nil { return nil, err }             let* o := g_F a in match o with Some e => Err e | None => ...
//   switch t { case A, B: return .. default: return .. }       if (t =? A) || (t =? B) then .. else ..
//   for _, b := range l { body }        fold_left (fun '(vars) b => body) l vars    (body without return)
//   for i := a; i < b; i++ { body }     iter (b-a) (fun '(vars) => body) vars        (a, b constants, i unused)
//   for _, c := range <package array of constants> { if .. { return .. } }    unrolled
//   return v, nil / return nil, e       Ok v / Err e

import (
	"fmt"
	"go/ast"
	"go/constant"
	"go/token"
	"strings"
)

// ---------- generated code tree ----------
type code interface{}
type cLeaf struct{ s string }
type cLet struct {
	pat, rhs string
	monadic  bool
	body     code
}
type cIf struct {
	cond     string
	thn, els code
}
type cMatchOpt struct {
	scrut, pat string
	some, none code
}

func render(c code, sb *strings.Builder, ind int) {
	pad := strings.Repeat(" ", ind)
	switch x := c.(type) {
	case cLeaf:
		sb.WriteString(pad + x.s)
	case cLet:
		kw := "let"
		if x.monadic {
			kw = "let*"
		}
		fmt.Fprintf(sb, "%s%s %s := %s in\n", pad, kw, letPat(x), x.rhs)
		render(x.body, sb, ind)
	case cIf:
		fmt.Fprintf(sb, "%sif %s then\n", pad, x.cond)
		render(x.thn, sb, ind+2)
		fmt.Fprintf(sb, "\n%selse\n", pad)
		render(x.els, sb, ind)
	case cMatchOpt:
		fmt.Fprintf(sb, "%smatch %s with\n%s| Some %s =>\n", pad, x.scrut, pad, x.pat)
		render(x.some, sb, ind+4)
		fmt.Fprintf(sb, "\n%s| None =>\n", pad)
		render(x.none, sb, ind+4)
		fmt.Fprintf(sb, "\n%send", pad)
	}
}

// letPat: a tuple pattern is written '(a, b) after let and (a, b) after let* (whose binder is a pattern)
func letPat(x cLet) string {
	if x.monadic {
		return strings.TrimPrefix(x.pat, "'")
	}
	return x.pat
}

func flat(c code) string {
	switch x := c.(type) {
	case cLeaf:
		return x.s
	case cLet:
		kw := "let"
		if x.monadic {
			kw = "let*"
		}
		return fmt.Sprintf("%s %s := %s in %s", kw, letPat(x), x.rhs, flat(x.body))
	case cIf:
		return fmt.Sprintf("(if %s then %s else %s)", x.cond, flat(x.thn), flat(x.els))
	case cMatchOpt:
		return fmt.Sprintf("match %s with Some %s => %s | None => %s end", x.scrut, x.pat, flat(x.some), flat(x.none))
	}
	return ""
}

// ---------- environments ----------
type env struct {
	vars   map[string]*val
	parent *env
}

func newEnv(parent *env) *env { return &env{vars: map[string]*val{}, parent: parent} }
func (e *env) lookup(n string) (*val, bool) {
	for s := e; s != nil; s = s.parent {
		if v, ok := s.vars[n]; ok {
			return v, true
		}
	}
	return nil, false
}
func (e *env) has(n string) bool { _, ok := e.lookup(n); return ok }

// set updates the binding where it lives (assignment), or defines it here.
func (e *env) set(n string, v *val) {
	for s := e; s != nil; s = s.parent {
		if _, ok := s.vars[n]; ok {
			s.vars[n] = v
			return
		}
	}
	e.vars[n] = v
}

// snapshot copies the whole chain (branches must not see each other's assignments).
func (e *env) snapshot() *env {
	if e == nil {
		return nil
	}
	c := &env{vars: map[string]*val{}, parent: e.parent.snapshot()}
	for k, v := range e.vars {
		c.vars[k] = v
	}
	return c
}

// ---------- per-function state ----------
type param struct {
	name    string
	coq     string
	t       *typ
	isSlice bool
	isBuf   bool // a []byte parameter the function writes: its content goes in, the new content comes out
}

type fsig struct {
	goName       string
	coqName      string
	params       []param // after the flattened receiver fields
	recvFields   []param
	results      []*typ
	shape        string // pure | resv | res | opt | pair | accepts
	coqResT      string
	recvName     string   // the receiver variable, when the receiver is a record
	expanded     []string // parameters of a flattened struct type (their fields are in recvFields)
	untranslated string
	text         string // the Definition
	file         int    // 1, 2, 3: which output file
}

type ftrans struct {
	tr      *translator
	p       *pkg
	fd      *funcDecl
	mode    string
	sig     *fsig
	env     *env
	binds   []bind
	monadic bool // monadic bindings are allowed here
	ntmp    int
	names   map[string]int
	condIds map[string]bool // identifiers used in if / switch conditions (accepts mode)
}

func (f *ftrans) needMonadic(at ast.Node, what string) {
	if !f.monadic {
		f.p.bad(at, "%s in a context that must be free of panics (pure function or loop body)", what)
	}
}

// bind hoists a computation that can panic: let* tN := rhs in
func (f *ftrans) bind(rhs string) string {
	f.ntmp++
	n := fmt.Sprintf("t%d", f.ntmp)
	f.binds = append(f.binds, bind{name: n, rhs: rhs})
	return n
}

func (f *ftrans) takeBinds() []bind { b := f.binds; f.binds = nil; return b }

func wrapBinds(bs []bind, c code) code {
	for i := len(bs) - 1; i >= 0; i-- {
		c = cLet{pat: bs[i].name, rhs: bs[i].rhs, monadic: !bs[i].pure, body: c}
	}
	return c
}

func (f *ftrans) fresh(goName string) string {
	f.names[goName]++
	if n := f.names[goName]; n > 1 {
		return fmt.Sprintf("v_%s_%d", goName, n)
	}
	return "v_" + goName
}

// ---------- blocks ----------
func terminates(list []ast.Stmt) bool {
	if len(list) == 0 {
		return false
	}
	switch s := list[len(list)-1].(type) {
	case *ast.ReturnStmt:
		return true
	case *ast.IfStmt:
		if s.Else == nil {
			return false
		}
		eb, ok := s.Else.(*ast.BlockStmt)
		if !ok {
			return terminates([]ast.Stmt{s.Else}) && terminates(s.Body.List)
		}
		return terminates(s.Body.List) && terminates(eb.List)
	case *ast.SwitchStmt:
		hasDefault := false
		for _, c := range s.Body.List {
			cc := c.(*ast.CaseClause)
			if cc.List == nil {
				hasDefault = true
			}
			if !terminates(cc.Body) {
				return false
			}
		}
		return hasDefault
	case *ast.BlockStmt:
		return terminates(s.List)
	}
	return false
}

// stmts translates a statement list; k builds the code that follows when control falls off the end.
func (f *ftrans) stmts(list []ast.Stmt, k func() code) code {
	if len(list) == 0 {
		return k()
	}
	s, rest := list[0], list[1:]
	next := func() code { return f.stmts(rest, k) }
	switch x := s.(type) {
	case *ast.ReturnStmt:
		return f.ret(x)
	case *ast.BlockStmt:
		return f.stmts(append(append([]ast.Stmt{}, x.List...), rest...), k)
	case *ast.EmptyStmt:
		return next()
	case *ast.DeclStmt:
		return f.declStmt(x, next)
	case *ast.AssignStmt:
		// v, err := F(args); if err != nil { return nil, err }
		if c := f.fprintfRune(x); c != nil {
			return c(next)
		}
		if len(x.Lhs) == 2 && len(x.Rhs) == 1 {
			return f.callWithErr(x, rest, k)
		}
		return f.assign(x, next)
	case *ast.IncDecStmt:
		op := token.ADD
		if x.Tok == token.DEC {
			op = token.SUB
		}
		one := &ast.BasicLit{Kind: token.INT, Value: "1", ValuePos: x.Pos()}
		return f.assignTo(x.X, &ast.BinaryExpr{X: x.X, Op: op, Y: one, OpPos: x.Pos()}, false, x, next)
	case *ast.ExprStmt:
		return f.exprStmt(x, next)
	case *ast.IfStmt:
		return f.ifStmt(x, rest, k)
	case *ast.SwitchStmt:
		return f.switchStmt(x, next)
	case *ast.RangeStmt:
		return f.rangeStmt(x, next)
	case *ast.ForStmt:
		return f.forStmt(x, next)
	}
	f.p.bad(s, "statement form %T", s)
	return nil
}

func (f *ftrans) declStmt(x *ast.DeclStmt, next func() code) code {
	gd := x.Decl.(*ast.GenDecl)
	switch gd.Tok {
	case token.CONST:
		return next() // evaluated by the loader
	case token.VAR:
		if len(gd.Specs) == 1 {
			if vs := gd.Specs[0].(*ast.ValueSpec); len(vs.Values) == 1 && len(vs.Names) == 1 && vs.Type == nil {
				// var x = e  is  x := e
				return f.assignTo(vs.Names[0], vs.Values[0], true, x, next)
			}
		}
		for _, s := range gd.Specs {
			vs := s.(*ast.ValueSpec)
			if len(vs.Values) != 0 || vs.Type == nil {
				f.p.bad(x, "var declaration with an initialiser")
			}
			t := f.p.typeOfExpr(vs.Type)
			for _, nm := range vs.Names {
				f.env.vars[nm.Name] = f.zeroR(t, x)
			}
		}
		return next()
	}
	f.p.bad(x, "declaration")
	return nil
}

func (f *ftrans) assign(x *ast.AssignStmt, next func() code) code {
	if len(x.Lhs) != 1 || len(x.Rhs) != 1 {
		f.p.bad(x, "parallel assignment")
	}
	rhs := x.Rhs[0]
	switch x.Tok {
	case token.DEFINE, token.ASSIGN:
	default:
		op, ok := map[token.Token]token.Token{token.ADD_ASSIGN: token.ADD, token.SUB_ASSIGN: token.SUB,
			token.MUL_ASSIGN: token.MUL, token.AND_ASSIGN: token.AND, token.OR_ASSIGN: token.OR,
			token.XOR_ASSIGN: token.XOR, token.SHL_ASSIGN: token.SHL, token.SHR_ASSIGN: token.SHR,
			token.QUO_ASSIGN: token.QUO, token.REM_ASSIGN: token.REM}[x.Tok]
		if !ok {
			f.p.bad(x, "assignment operator %s", x.Tok)
		}
		rhs = &ast.BinaryExpr{X: x.Lhs[0], Op: op, Y: rhs, OpPos: x.Pos()}
	}
	return f.assignTo(x.Lhs[0], rhs, x.Tok == token.DEFINE, x, next)
}

func (f *ftrans) assignTo(lhs ast.Expr, rhs ast.Expr, define bool, at ast.Stmt, next func() code) code {
	// accepts mode: a definition that cannot be translated and does not influence any branch is dropped
	if f.mode == "accepts" {
		if id, ok := lhs.(*ast.Ident); ok && !f.condIds[id.Name] {
			dropped := false
			mark := len(f.tr.order)
			func() {
				defer func() {
					if r := recover(); r != nil {
						if _, isU := r.(untranslatable); isU {
							dropped = true
							return
						}
						panic(r)
					}
				}()
				saved := f.binds
				f.expr(rhs)
				f.binds = saved
			}()
			if dropped {
				f.binds = nil
				f.tr.rollback(mark) // helpers that were tried only for this dropped statement
				return next()
			}
		}
	}
	switch l := lhs.(type) {
	case *ast.Ident:
		if l.Name == "_" {
			f.p.bad(at, "assignment to _")
		}
		v := f.expr(rhs)
		if !define {
			old, ok := f.env.lookup(l.Name)
			if !ok {
				f.p.bad(at, "assignment to unknown variable %s", l.Name)
			}
			if v.t.k == kUntypedInt {
				v = f.conv(v, old.t, rhs)
			} else if v.t.k == kNil {
				v = f.zero(old.t)
			} else if !sameType(v.t, old.t) {
				f.p.bad(at, "assignment of a %s to %s of type %s", v.t, l.Name, old.t)
			}
		} else {
			v = f.defaulted(v, rhs)
			if _, isId := rhs.(*ast.Ident); isId && v.isPtr {
				f.p.bad(at, "second name for a pointer (aliasing is outside the fragment)")
			}
		}
		bs := f.takeBinds()
		if v.fields != nil || v.elems != nil || v.term == "" {
			// symbolic value: lives in the translator's environment only
			if define {
				f.env.vars[l.Name] = v
			} else {
				f.env.set(l.Name, v)
			}
			return wrapBinds(bs, next())
		}
		name := f.fresh(l.Name)
		nv := &val{t: v.t, term: name, isSlice: v.isSlice, buf: v.buf}
		if v.t.k == kBytes && v.cv != nil {
			nv.cv = v.cv // known length
		}
		if define {
			f.env.vars[l.Name] = nv
		} else {
			f.env.set(l.Name, nv)
		}
		return wrapBinds(bs, cLet{pat: name, rhs: v.term, body: next()})
	case *ast.IndexExpr:
		if define {
			f.p.bad(at, "assignment target")
		}
		if se, ok := l.X.(*ast.SelectorExpr); ok {
			// x.F[i] = v for a record variable x: x.F = (x.F with element i replaced)
			cur := f.expr(se)
			if cur.t.k != kList || cur.term == "" {
				f.p.bad(at, "element assignment into a %s", cur.t)
			}
			f.needMonadic(at, "an element assignment")
			i := f.expr(l.Index)
			v := f.expr(rhs)
			if !sameType(v.t, cur.t.elem) || v.term == "" {
				f.p.bad(at, "element of type %s assigned a %s", cur.t.elem, v.t)
			}
			nl := &val{t: cur.t, term: f.bind(fmt.Sprintf("lset %s %s %s", atom(cur.term), atom(f.toZ(i, l.Index)), atom(v.term)))}
			return f.storeInto(se, nl, at, next)
		}
		return f.indexAssign(l, rhs, at, next)
	case *ast.SelectorExpr:
		if id, ok := l.X.(*ast.Ident); ok {
			if base, ok := f.env.lookup(id.Name); ok && base.fields == nil && base.term != "" {
				if _, isRec := recordOf(base.t); isRec {
					v := f.expr(rhs)
					return f.storeInto(l, v, at, next)
				}
			}
		}
		// tmpErr.Packet.UnitID = e : functional update of a symbolic struct
		var path []string
		cur := ast.Expr(l)
		for {
			se, ok := cur.(*ast.SelectorExpr)
			if !ok {
				break
			}
			path = append([]string{se.Sel.Name}, path...)
			cur = se.X
		}
		root, ok := cur.(*ast.Ident)
		if !ok {
			f.p.bad(at, "assignment target")
		}
		base, ok := f.env.lookup(root.Name)
		if !ok || base.fields == nil {
			f.p.bad(at, "field assignment on %s, which is not a struct built in this function", root.Name)
		}
		v := f.expr(rhs)
		bs := f.takeBinds()
		f.env.set(root.Name, f.updateField(base, path, v, at))
		return wrapBinds(bs, next())
	}
	f.p.bad(at, "assignment target %T", lhs)
	return nil
}

func (f *ftrans) updateField(s *val, path []string, v *val, at ast.Node) *val {
	c := *s
	c.fields = map[string]*val{}
	for k, w := range s.fields {
		c.fields[k] = w
	}
	sn := s.t.name
	if s.t.k == kPtr {
		sn = s.t.elem.name
	}
	var fl *field
	for _, d := range f.p.structs[sn].fields {
		if d.name == path[0] {
			fl = d
		}
	}
	if fl == nil {
		f.p.bad(at, "no field %s in %s (promoted fields are not assigned in the fragment)", path[0], sn)
	}
	if len(path) == 1 {
		if v.t.k == kUntypedInt {
			v = f.conv(v, fl.typ, at)
		} else if !sameType(v.t, fl.typ) {
			f.p.bad(at, "field %s.%s of type %s assigned a %s", sn, path[0], fl.typ, v.t)
		}
		c.fields[path[0]] = v
		return &c
	}
	sub, ok := s.fields[path[0]]
	if !ok {
		sub = f.zero(fl.typ)
	}
	if sub.fields == nil {
		f.p.bad(at, "field assignment below %s, which is not symbolic", path[0])
	}
	c.fields[path[0]] = f.updateField(sub, path[1:], v, at)
	return &c
}

func (f *ftrans) exprStmt(x *ast.ExprStmt, next func() code) code {
	call, ok := x.X.(*ast.CallExpr)
	if !ok {
		f.p.bad(x, "expression statement")
	}
	switch q := qualName(call.Fun); {
	case q == "copy" && len(call.Args) == 2:
		if f.mode == "accepts" {
			return next() // copy into the new packet: does not influence acceptance
		}
		return f.copyStmt(call, x, next)
	case q == "binary.BigEndian.PutUint16" && len(call.Args) == 2:
		return f.put16Stmt(call, x, next)
	}
	if qualName(call.Fun) == "sort.Sort" {
		return f.sortIdiom(call, x, next)
	}
	// builder.Grow(n): no effect on the content; panics on a negative n
	if sel, ok := call.Fun.(*ast.SelectorExpr); ok && sel.Sel.Name == "Grow" && len(call.Args) == 1 {
		if id, ok := sel.X.(*ast.Ident); ok {
			if bv, ok := f.env.lookup(id.Name); ok && bv.t.k == kBuilder {
				n := f.conv(f.defaulted(f.expr(call.Args[0]), call.Args[0]), tInt, call.Args[0])
				f.needMonadic(x, "strings.Builder.Grow")
				f.bind("zgrow " + atom(n.term))
				bs := f.takeBinds()
				return wrapBinds(bs, next())
			}
		}
	}
	// a call whose result is discarded: only functions that write into a slice argument
	v := f.call(call)
	if v.t.k != kVoid && v.alias == "" && !(v.t.k == kBytes) {
		f.p.bad(x, "call statement whose result is dropped")
	}
	bs := f.takeBinds()
	return wrapBinds(bs, next())
}

// ---------- if ----------
func isErrNotNil(e ast.Expr, name string) bool {
	b, ok := e.(*ast.BinaryExpr)
	if !ok || b.Op != token.NEQ {
		return false
	}
	x, ok1 := b.X.(*ast.Ident)
	y, ok2 := b.Y.(*ast.Ident)
	return ok1 && ok2 && x.Name == name && y.Name == "nil"
}

// isReturnErr: the block is exactly `return <zero values>..., name`
func (f *ftrans) isReturnErr(b *ast.BlockStmt, name string) bool {
	if len(b.List) != 1 {
		return false
	}
	r, ok := b.List[0].(*ast.ReturnStmt)
	if !ok || len(r.Results) != len(f.sig.results) {
		return false
	}
	last, ok := r.Results[len(r.Results)-1].(*ast.Ident)
	if !ok || last.Name != name {
		return false
	}
	for _, e := range r.Results[:len(r.Results)-1] {
		if !isZeroExpr(e) {
			return false
		}
	}
	return true
}

func isZeroExpr(e ast.Expr) bool {
	switch x := e.(type) {
	case *ast.Ident:
		return x.Name == "nil" || x.Name == "false"
	case *ast.BasicLit:
		return x.Value == "0" || x.Value == `""`
	case *ast.CompositeLit:
		return len(x.Elts) == 0
	}
	return false
}

// callWithErr: v, err := F(args) followed by if err != nil { return nil, err }
func (f *ftrans) callWithErr(x *ast.AssignStmt, rest []ast.Stmt, k func() code) code {
	call, ok := x.Rhs[0].(*ast.CallExpr)
	v, ok1 := x.Lhs[0].(*ast.Ident)
	e, ok2 := x.Lhs[1].(*ast.Ident)
	if !ok || !ok1 || !ok2 || x.Tok != token.DEFINE || len(rest) == 0 {
		f.p.bad(x, "two-valued assignment outside the idiom `v, err := F(..); if err != nil { return nil, err }`")
	}
	ifs, ok := rest[0].(*ast.IfStmt)
	if !ok || ifs.Init != nil || ifs.Else != nil || !isErrNotNil(ifs.Cond, e.Name) || !f.isReturnErr(ifs.Body, e.Name) {
		f.p.bad(x, "two-valued assignment outside the idiom `v, err := F(..); if err != nil { return nil, err }`")
	}
	if f.sig.shape != "res" {
		f.p.bad(x, "error propagation in a function of shape %s", f.sig.shape)
	}
	fd, recv := f.calleeOf(call)
	sig := f.tr.translate(fd, "full")
	if sig.untranslated != "" {
		f.p.bad(x, "calls %s, which is untranslated", fd.name)
	}
	if sig.shape != "res" {
		f.p.bad(x, "callee %s has shape %s", fd.name, sig.shape)
	}
	args := f.callArgs(call, sig, recv)
	bs := f.takeBinds()
	name := f.fresh(v.Name)
	f.env.vars[v.Name] = &val{t: sig.results[0], term: name}
	// `err` is nil from here on
	body := f.stmts(rest[1:], k)
	return wrapBinds(bs, cLet{pat: name, rhs: sig.coqName + " " + strings.Join(args, " "), monadic: true, body: body})
}

func (f *ftrans) ifStmt(x *ast.IfStmt, rest []ast.Stmt, k func() code) code {
	next := func() code { return f.stmts(rest, k) }
	// if err := F(args); err != nil { return nil, err }
	if x.Init != nil {
		as, ok := x.Init.(*ast.AssignStmt)
		if !ok || as.Tok != token.DEFINE || len(as.Lhs) != 1 || len(as.Rhs) != 1 || x.Else != nil {
			f.p.bad(x, "if with an init statement outside the idiom `if err := F(..); err != nil { return nil, err }`")
		}
		e, ok1 := as.Lhs[0].(*ast.Ident)
		call, ok2 := as.Rhs[0].(*ast.CallExpr)
		if !ok1 || !ok2 || !isErrNotNil(x.Cond, e.Name) || !f.isReturnErr(x.Body, e.Name) {
			f.p.bad(x, "if with an init statement outside the idiom `if err := F(..); err != nil { return nil, err }`")
		}
		if f.sig.shape != "res" {
			f.p.bad(x, "error propagation in a function of shape %s", f.sig.shape)
		}
		id, ok := call.Fun.(*ast.Ident)
		if !ok {
			f.p.bad(x, "callee")
		}
		fd, ok := f.p.funcs[id.Name]
		if !ok {
			f.p.bad(x, "callee %s is not a function of the package", id.Name)
		}
		sig := f.tr.translate(fd, "full")
		if sig.untranslated != "" {
			f.p.bad(x, "calls %s, which is untranslated", fd.name)
		}
		if sig.shape != "opt" {
			f.p.bad(x, "callee %s has shape %s", fd.name, sig.shape)
		}
		args := f.callArgs(call, sig, nil)
		bs := f.takeBinds()
		o := f.bindName()
		return wrapBinds(bs, cLet{pat: o, rhs: sig.coqName + " " + strings.Join(args, " "), monadic: true,
			body: cMatchOpt{scrut: o, pat: "e", some: cLeaf{"Err e"}, none: next()}})
	}
	c := f.expr(x.Cond)
	f.conv(c, tBool, x.Cond)
	bs := f.takeBinds()
	var elseList []ast.Stmt
	if x.Else != nil {
		if eb, ok := x.Else.(*ast.BlockStmt); ok {
			elseList = eb.List
		} else {
			elseList = []ast.Stmt{x.Else}
		}
	}
	thenT, elseT := terminates(x.Body.List), x.Else != nil && terminates(elseList)
	dead := func() code { f.p.bad(x, "internal: fell off a terminating block"); return nil }
	base := f.env
	switch {
	case thenT:
		f.env = newEnv(base.snapshot())
		thn := f.stmts(x.Body.List, dead)
		f.env = base
		els := f.stmts(append(append([]ast.Stmt{}, elseList...), rest...), k)
		return wrapBinds(bs, cIf{c.term, thn, els})
	case elseT:
		f.env = newEnv(base.snapshot())
		els := f.stmts(elseList, dead)
		f.env = base
		thn := f.stmts(append(append([]ast.Stmt{}, x.Body.List...), rest...), k)
		return wrapBinds(bs, cIf{c.term, thn, els})
	}
	// neither branch returns: join the variables they assign
	vars := f.assignedOuter(append(append([]ast.Stmt{}, x.Body.List...), elseList...))
	if len(vars) == 0 {
		f.p.bad(x, "if without effect on local variables")
	}
	leaf := func() code { return f.tupleLeaf(vars, x) }
	f.env = newEnv(base.snapshot())
	thn := f.stmts(x.Body.List, leaf)
	f.env = newEnv(base.snapshot())
	els := f.stmts(elseList, leaf)
	f.env = base
	pat := f.rebind(vars, x)
	return wrapBinds(bs, cLet{pat: pat, rhs: flat(cIf{c.term, thn, els}), monadic: f.monadic, body: next()})
}

func (f *ftrans) bindName() string {
	f.ntmp++
	return fmt.Sprintf("t%d", f.ntmp)
}

// assignedOuter: the variables of the enclosing scopes that the statements assign (in order of
// first assignment).
func (f *ftrans) assignedOuter(list []ast.Stmt) []string {
	var out []string
	seen := map[string]bool{}
	local := map[string]bool{}
	note := func(e ast.Expr) {
		if id, ok := e.(*ast.Ident); ok && !seen[id.Name] && !local[id.Name] && f.env.has(id.Name) {
			seen[id.Name] = true
			out = append(out, id.Name)
		}
	}
	for _, s := range list {
		ast.Inspect(s, func(n ast.Node) bool {
			switch a := n.(type) {
			case *ast.AssignStmt:
				if a.Tok == token.DEFINE {
					for _, l := range a.Lhs {
						if id, ok := l.(*ast.Ident); ok {
							local[id.Name] = true
						}
					}
				} else {
					for _, l := range a.Lhs {
						note(l)
						// x.F = e / x.F[i] = e for a record variable x
						tgt := l
						if ix, ok := tgt.(*ast.IndexExpr); ok {
							tgt = ix.X
						}
						if se, ok := tgt.(*ast.SelectorExpr); ok {
							if id, ok := se.X.(*ast.Ident); ok {
								if v, ok := f.env.lookup(id.Name); ok && v.fields == nil {
									note(id)
								}
							}
						}
					}
				}
			case *ast.IncDecStmt:
				note(a.X)
			case *ast.CallExpr:
				if qualName(a.Fun) == "fmt.Fprintf" && len(a.Args) >= 1 {
					note(a.Args[0])
				}
				if qualName(a.Fun) == "sort.Sort" && len(a.Args) == 1 {
					if c, ok := a.Args[0].(*ast.CallExpr); ok && len(c.Args) == 1 {
						tgt := c.Args[0]
						if se, ok := tgt.(*ast.SelectorExpr); ok {
							tgt = se.X
						}
						note(tgt)
					}
				}
			}
			return true
		})
	}
	// slices written (element assignment, copy, PutUint16, callees that write), through aliases
	for _, w := range f.tr.writes(f.fd, list, func(n string) bool { return !local[n] && f.env.has(n) }) {
		root, _ := f.resolveRoot(w)
		if root != "" && !seen[root] {
			seen[root] = true
			out = append(out, root)
		}
	}
	return out
}

func (f *ftrans) tupleLeaf(vars []string, at ast.Node) code {
	var ts []string
	for _, v := range vars {
		val, _ := f.env.lookup(v)
		if val == nil || val.term == "" {
			f.p.bad(at, "variable %s has no term at a join", v)
		}
		ts = append(ts, val.term)
	}
	s := ts[0]
	if len(ts) > 1 {
		s = "(" + strings.Join(ts, ", ") + ")"
	}
	if f.monadic {
		return cLeaf{"Ok " + atom(s)}
	}
	return cLeaf{s}
}

// rebind gives the joined variables fresh names and returns the binding pattern.
func (f *ftrans) rebind(vars []string, at ast.Node) string {
	var ns []string
	for _, v := range vars {
		old, _ := f.env.lookup(v)
		n := f.fresh(v)
		f.env.set(v, &val{t: old.t, term: n, buf: old.buf})
		ns = append(ns, n)
	}
	if len(ns) == 1 {
		return ns[0]
	}
	return "'(" + strings.Join(ns, ", ") + ")"
}

// ---------- switch ----------
func (f *ftrans) switchStmt(x *ast.SwitchStmt, next func() code) code {
	if x.Init != nil || x.Tag == nil {
		f.p.bad(x, "switch without a tag or with an init statement")
	}
	tag := f.expr(x.Tag)
	bs := f.takeBinds()
	tag = f.defaulted(tag, x.Tag)
	var deflt *ast.CaseClause
	var clauses []*ast.CaseClause
	for _, c := range x.Body.List {
		cc := c.(*ast.CaseClause)
		for _, s := range cc.Body {
			if br, ok := s.(*ast.BranchStmt); ok {
				f.p.bad(br, "%s in a switch", br.Tok)
			}
		}
		if !terminates(cc.Body) {
			f.p.bad(cc, "switch case that does not return")
		}
		if cc.List == nil {
			deflt = cc
		} else {
			clauses = append(clauses, cc)
		}
	}
	dead := func() code { f.p.bad(x, "internal: fell off a terminating block"); return nil }
	base := f.env
	var build func(i int) code
	build = func(i int) code {
		if i == len(clauses) {
			if deflt != nil {
				f.env = newEnv(base.snapshot())
				c := f.stmts(deflt.Body, dead)
				f.env = base
				return c
			}
			return next()
		}
		cc := clauses[i]
		var conds []string
		for _, e := range cc.List {
			v := f.expr(e)
			if len(f.binds) != 0 {
				f.p.bad(e, "case expression that can panic")
			}
			if v.t.k == kUntypedInt {
				v = f.conv(v, tag.t, e)
			} else if !sameType(v.t, tag.t) {
				f.p.bad(e, "case of type %s for a tag of type %s", v.t, tag.t)
			}
			if tag.t.k == kInt {
				conds = append(conds, fmt.Sprintf("(%s =? %s)%%Z", atom(tag.term), atom(v.term)))
			} else if tag.t.isUint() {
				conds = append(conds, fmt.Sprintf("(%s =? %s)", atom(tag.term), atom(v.term)))
			} else {
				f.p.bad(e, "switch on a %s", tag.t)
			}
		}
		f.env = newEnv(base.snapshot())
		body := f.stmts(cc.Body, dead)
		f.env = base
		return cIf{strings.Join(conds, " || "), body, build(i + 1)}
	}
	return wrapBinds(bs, build(0))
}

// ---------- loops ----------
func hasControl(list []ast.Stmt) (ret, brk bool) {
	for _, s := range list {
		ast.Inspect(s, func(n ast.Node) bool {
			switch n.(type) {
			case *ast.ReturnStmt:
				ret = true
			case *ast.BranchStmt:
				brk = true
			case *ast.FuncLit:
				return false
			}
			return true
		})
	}
	return
}

// loopBody translates a loop body without return/break/continue as a pure function of the
// variables it carries.
func (f *ftrans) loopBody(body []ast.Stmt, vars []string, extra map[string]*val, at ast.Node) (lam string, init string) {
	return f.loopBodyM(body, vars, extra, at, false)
}

func (f *ftrans) loopBodyM(body []ast.Stmt, vars []string, extra map[string]*val, at ast.Node, monadic bool) (lam string, init string) {
	var initTerms, pnames []string
	inner := newEnv(f.env.snapshot())
	for _, v := range vars {
		old, _ := f.env.lookup(v)
		if old.term == "" {
			f.p.bad(at, "loop-carried variable %s is symbolic", v)
		}
		initTerms = append(initTerms, old.term)
		n := f.fresh(v)
		pnames = append(pnames, n)
		inner.set(v, &val{t: old.t, term: n, buf: old.buf})
	}
	for k, v := range extra {
		inner.vars[k] = v
	}
	savedEnv, savedMon, savedBinds := f.env, f.monadic, f.binds
	f.env, f.monadic, f.binds = inner, monadic, nil
	c := f.stmts(body, func() code { return f.tupleLeaf(vars, at) })
	if len(f.binds) != 0 {
		f.p.bad(at, "loop body can panic")
	}
	f.env, f.monadic, f.binds = savedEnv, savedMon, savedBinds
	pat := pnames[0]
	init = initTerms[0]
	if len(pnames) > 1 {
		pat = "'(" + strings.Join(pnames, ", ") + ")"
		init = "(" + strings.Join(initTerms, ", ") + ")"
	}
	return pat + "|" + flat(c), init
}

func (f *ftrans) rangeStmt(x *ast.RangeStmt, next func() code) code {
	if ret, _ := hasControl(x.Body.List); ret && x.Tok == token.DEFINE {
		// for i, x := range l { if c { return v } }
		if id, ok := x.X.(*ast.Ident); !ok || f.env.has(id.Name) {
			return f.findFirst(x, next)
		}
	}
	if k, ok := x.Key.(*ast.Ident); !ok || k.Name != "_" || x.Tok != token.DEFINE {
		f.p.bad(x, "range with an index variable")
	}
	elem, ok := x.Value.(*ast.Ident)
	if !ok {
		f.p.bad(x, "range value")
	}
	// (a) over a package-level array of constants: unrolled
	if id, ok := x.X.(*ast.Ident); ok && !f.env.has(id.Name) {
		if vs, ok := f.p.vars[id.Name]; ok {
			return f.unrollRange(x, id.Name, vs, elem.Name, next)
		}
	}
	// (b) over a list value, body without return: fold_left
	body := x.Body.List
	var brkCond ast.Expr
	if ret, brk := hasControl(body); ret {
		f.p.bad(x, "return inside a range loop over a slice")
	} else if brk {
		// only `if cond { break }` as the first statement: a fold with a "stopped" flag
		first, ok := body[0].(*ast.IfStmt)
		if !ok || first.Init != nil || first.Else != nil || len(first.Body.List) != 1 {
			f.p.bad(x, "break/continue outside the form `for .. { if cond { break }; ... }`")
		}
		bs, ok := first.Body.List[0].(*ast.BranchStmt)
		if !ok || bs.Tok != token.BREAK || bs.Label != nil {
			f.p.bad(x, "break/continue outside the form `for .. { if cond { break }; ... }`")
		}
		if _, again := hasControl(body[1:]); again {
			f.p.bad(x, "more than one break/continue in a loop")
		}
		brkCond, body = first.Cond, body[1:]
	}
	if brkCond != nil {
		return f.rangeBreak(x, elem.Name, brkCond, body, next)
	}
	xs := f.expr(x.X)
	et := tU8
	if xs.t.k == kList && xs.term != "" {
		et = xs.t.elem
	} else if xs.t.k != kBytes {
		f.p.bad(x, "range over a %s", xs.t)
	}
	bs := f.takeBinds()
	l := xs.term
	if xs.isSlice {
		l = "(vis " + xs.term + ")"
	}
	vars := f.assignedOuter(x.Body.List)
	if len(vars) == 0 {
		f.p.bad(x, "loop without effect on local variables")
	}
	en := f.fresh(elem.Name)
	lam, init := f.loopBody(x.Body.List, vars, map[string]*val{elem.Name: {t: et, term: en}}, x)
	parts := strings.SplitN(lam, "|", 2)
	pat := f.rebind(vars, x)
	rhs := fmt.Sprintf("fold_left (fun %s %s => %s) %s %s", parts[0], en, parts[1], atom(l), init)
	return wrapBinds(bs, cLet{pat: pat, rhs: rhs, body: next()})
}

// rangeBreak: for _, b := range l { if cond { break }; body }  =
//
//	fold_left (fun '(stop, vars) b => if stop then (stop, vars) else if cond then (true, vars) else (false, body)) l (false, vars)
func (f *ftrans) rangeBreak(x *ast.RangeStmt, elem string, cond ast.Expr, body []ast.Stmt, next func() code) code {
	xs := f.expr(x.X)
	if xs.t.k != kBytes {
		f.p.bad(x, "range over a %s", xs.t)
	}
	bs := f.takeBinds()
	l := xs.term
	if xs.isSlice {
		l = "(vis " + xs.term + ")"
	}
	vars := f.assignedOuter(body)
	if len(vars) == 0 {
		f.p.bad(x, "loop without effect on local variables")
	}
	en := f.fresh(elem)
	// the condition, over the loop variable only
	savedEnv, savedMon, savedBinds := f.env, f.monadic, f.binds
	f.env = newEnv(f.env.snapshot())
	f.env.vars[elem] = &val{t: tU8, term: en}
	f.monadic, f.binds = false, nil
	for _, v := range vars {
		ast.Inspect(cond, func(n ast.Node) bool {
			if id, ok := n.(*ast.Ident); ok && id.Name == v {
				f.p.bad(x, "break condition that reads a variable the loop changes")
			}
			return true
		})
	}
	c := f.expr(cond)
	f.conv(c, tBool, cond)
	f.env, f.monadic, f.binds = savedEnv, savedMon, savedBinds
	lam, init := f.loopBody(body, vars, map[string]*val{elem: {t: tU8, term: en}}, x)
	parts := strings.SplitN(lam, "|", 2)
	st := parts[0]
	stTuple := strings.TrimPrefix(st, "'")
	pat := f.rebind(vars, x)
	patTuple := strings.TrimPrefix(pat, "'")
	rhs := fmt.Sprintf("fold_left (fun '(stop, %s) %s => if (stop : bool) then (stop, %s) else if %s then (true, %s) else (false, %s)) %s (false, %s)",
		stTuple, en, stTuple, c.term, stTuple, parts[1], atom(l), init)
	return wrapBinds(bs, cLet{pat: "'(_, " + patTuple + ")", rhs: rhs, body: next()})
}

func (f *ftrans) unrollRange(x *ast.RangeStmt, name string, vs *ast.ValueSpec, elem string, next func() code) code {
	if f.p.assigned[name] {
		f.p.bad(x, "package variable %s is assigned to somewhere in the package", name)
	}
	if len(vs.Values) != 1 {
		f.p.bad(x, "package variable %s has no literal value", name)
	}
	lit, ok := vs.Values[0].(*ast.CompositeLit)
	if !ok {
		f.p.bad(x, "package variable %s is not a composite literal", name)
	}
	t := f.p.typeOfExpr(lit.Type)
	if t.k != kArray || len(lit.Elts) != t.n {
		f.p.bad(x, "package variable %s is not a fully written [n]byte", name)
	}
	if _, brk := hasControl(x.Body.List); brk {
		f.p.bad(x, "break/continue inside an unrolled loop")
	}
	var elems []*val
	for _, e := range lit.Elts {
		_, v := f.p.constExpr(e, 0, "")
		elems = append(elems, &val{t: tU8, term: numeral(v, tU8, f.p, e), cv: v})
	}
	base := f.env
	var build func(i int) code
	build = func(i int) code {
		if i == len(elems) {
			f.env = base
			return next()
		}
		f.env = newEnv(base)
		f.env.vars[elem] = elems[i]
		return f.stmts(x.Body.List, func() code { return build(i + 1) })
	}
	if vars := f.assignedOuter(x.Body.List); len(vars) != 0 {
		f.p.bad(x, "unrolled loop that assigns outer variables")
	}
	return build(0)
}

func (f *ftrans) forStmt(x *ast.ForStmt, next func() code) code {
	// for i := a; i < b; i++ with constant a, b and i not used in the body
	init, ok := x.Init.(*ast.AssignStmt)
	if !ok || init.Tok != token.DEFINE || len(init.Lhs) != 1 || len(init.Rhs) != 1 {
		f.p.bad(x, "for loop outside the counted form")
	}
	iv, ok := init.Lhs[0].(*ast.Ident)
	if !ok {
		f.p.bad(x, "for loop outside the counted form")
	}
	lo := f.peekConst(init.Rhs[0])
	cond, ok := x.Cond.(*ast.BinaryExpr)
	if !ok || cond.Op != token.LSS {
		f.p.bad(x, "for loop outside the counted form")
	}
	ci, ok := cond.X.(*ast.Ident)
	hi := f.peekConst(cond.Y)
	post, ok2 := x.Post.(*ast.IncDecStmt)
	if !ok || !ok2 || ci.Name != iv.Name || post.Tok != token.INC {
		f.p.bad(x, "for loop outside the counted form (i := a; i < b; i++)")
	}
	if pi, ok := post.X.(*ast.Ident); !ok || pi.Name != iv.Name {
		f.p.bad(x, "for loop outside the counted form")
	}
	used := false
	for _, s := range x.Body.List {
		ast.Inspect(s, func(n ast.Node) bool {
			if id, ok := n.(*ast.Ident); ok && id.Name == iv.Name {
				used = true
			}
			return true
		})
	}
	if ret, brk := hasControl(x.Body.List); ret || brk {
		f.p.bad(x, "return/break/continue inside a counted loop")
	}
	if used || lo == nil || hi == nil {
		return f.zforStmt(x, iv.Name, init.Rhs[0], cond.Y, next)
	}
	n, ok := constant.Int64Val(constant.BinaryOp(hi, token.SUB, lo))
	if !ok || n < 0 || n > 64 {
		f.p.bad(x, "counted loop with more than 64 iterations")
	}
	vars := f.assignedOuter(x.Body.List)
	if len(vars) == 0 {
		f.p.bad(x, "loop without effect on local variables")
	}
	lam, initT := f.loopBody(x.Body.List, vars, nil, x)
	parts := strings.SplitN(lam, "|", 2)
	pat := f.rebind(vars, x)
	rhs := fmt.Sprintf("iter %d%%nat (fun %s => %s) %s", n, parts[0], parts[1], initT)
	return cLet{pat: pat, rhs: rhs, body: next()}
}

// zforStmt: for i := lo; i < hi; i++ { body } where the body may use i, read and write slices, and
// hi does not change in the body:  zfor (fun st i => body) lo hi st.
func (f *ftrans) zforStmt(x *ast.ForStmt, iv string, loE, hiE ast.Expr, next func() code) code {
	f.needMonadic(x, "a general counted loop")
	// the counter must not be assigned, the bound must be invariant
	assigned := map[string]bool{}
	for _, s := range x.Body.List {
		ast.Inspect(s, func(n ast.Node) bool {
			switch a := n.(type) {
			case *ast.AssignStmt:
				for _, l := range a.Lhs {
					if id, ok := l.(*ast.Ident); ok {
						assigned[id.Name] = true
					}
				}
			case *ast.IncDecStmt:
				if id, ok := a.X.(*ast.Ident); ok {
					assigned[id.Name] = true
				}
			}
			return true
		})
	}
	if assigned[iv] {
		f.p.bad(x, "loop counter assigned in the body")
	}
	invariant := true
	ast.Inspect(hiE, func(n ast.Node) bool {
		switch a := n.(type) {
		case *ast.Ident:
			if assigned[a.Name] {
				invariant = false
			}
		case *ast.CallExpr:
			if qualName(a.Fun) != "len" {
				invariant = false
			}
		case *ast.IndexExpr, *ast.SliceExpr, *ast.SelectorExpr:
			invariant = false
		}
		return true
	})
	if !invariant {
		f.p.bad(x, "loop bound that may change in the body")
	}
	lo := f.conv(f.defaulted(f.expr(loE), loE), tInt, loE)
	hi := f.conv(f.defaulted(f.expr(hiE), hiE), tInt, hiE)
	bs := f.takeBinds()
	vars := f.assignedOuter(x.Body.List)
	if len(vars) == 0 {
		f.p.bad(x, "loop without effect on local variables")
	}
	in := f.fresh(iv)
	lam, initT := f.loopBodyM(x.Body.List, vars, map[string]*val{iv: {t: tInt, term: in}}, x, true)
	parts := strings.SplitN(lam, "|", 2)
	pat := f.rebind(vars, x)
	rhs := fmt.Sprintf("zfor (fun %s %s => %s) %s %s %s", parts[0], in, parts[1], atom(lo.term), atom(hi.term), initT)
	return wrapBinds(bs, cLet{pat: pat, rhs: rhs, monadic: true, body: next()})
}

// fprintfRune: _, _ = fmt.Fprintf(builder, "%c", rune(b)) with b a byte: appends the UTF-8 encoding of
// the code point b to the builder (GenPrelude3.utf8_rune).
func (f *ftrans) fprintfRune(x *ast.AssignStmt) func(next func() code) code {
	if len(x.Rhs) != 1 {
		return nil
	}
	call, ok := x.Rhs[0].(*ast.CallExpr)
	if !ok || qualName(call.Fun) != "fmt.Fprintf" {
		return nil
	}
	for _, l := range x.Lhs {
		if id, ok := l.(*ast.Ident); !ok || id.Name != "_" {
			f.p.bad(x, "fmt.Fprintf whose results are used")
		}
	}
	if len(call.Args) != 3 {
		f.p.bad(x, `fmt.Fprintf outside the idiom Fprintf(builder, "%%c", rune(b))`)
	}
	dst, ok1 := call.Args[0].(*ast.Ident)
	format, ok2 := call.Args[1].(*ast.BasicLit)
	conv, ok3 := call.Args[2].(*ast.CallExpr)
	if !ok1 || !ok2 || !ok3 || format.Value != `"%c"` || qualName(conv.Fun) != "rune" || len(conv.Args) != 1 {
		f.p.bad(x, `fmt.Fprintf outside the idiom Fprintf(builder, "%%c", rune(b))`)
	}
	bv, ok := f.env.lookup(dst.Name)
	if !ok || bv.t.k != kBuilder {
		f.p.bad(x, "fmt.Fprintf into something that is not a local strings.Builder")
	}
	return func(next func() code) code {
		b := f.expr(conv.Args[0])
		if b.t.k != kU8 {
			f.p.bad(x, "rune(x) with x of type %s (only a byte is in the fragment)", b.t)
		}
		bs := f.takeBinds()
		cur, _ := f.env.lookup(dst.Name)
		name := f.fresh(dst.Name)
		f.env.set(dst.Name, &val{t: tBuilder, term: name})
		return wrapBinds(bs, cLet{pat: name, rhs: fmt.Sprintf("%s ++ utf8_rune %s", atom(cur.term), atom(b.term)), body: next()})
	}
}

// ---------- return ----------
func (f *ftrans) ret(x *ast.ReturnStmt) code {
	sh := f.sig.shape
	leaf := func(s string) code { bs := f.takeBinds(); return wrapBinds(bs, cLeaf{s}) }
	// tail call: return F(args)
	if len(x.Results) == 1 && len(f.sig.results) >= 1 && (sh == "res" || sh == "opt" || sh == "pair") {
		if call, ok := x.Results[0].(*ast.CallExpr); ok {
			if fd, recv := f.calleeOpt(call); fd != nil && simpleCtorBody(fd) == nil {
				sig := f.tr.translate(fd, "full")
				if sig.untranslated != "" {
					f.p.bad(x, "calls %s, which is untranslated", fd.name)
				}
				if sig.shape != sh {
					f.p.bad(x, "tail call of %s (shape %s) from a function of shape %s", fd.name, sig.shape, sh)
				}
				args := f.callArgs(call, sig, recv)
				app := sig.coqName + " " + strings.Join(args, " ")
				if sh == "res" && f.sig.results[0].k == kAny && sig.results[0].k != kAny {
					// the callee's value becomes an interface{}: tag it by its static type
					w := anyWrap(sig.results[0])
					if w == "" {
						f.p.bad(x, "a %s returned as interface{}", sig.results[0])
					}
					f.noteResType("aval", x)
					return leaf("map_ok " + w + " (" + app + ")")
				}
				if sh == "res" {
					f.noteResType(sig.coqResT, x)
				}
				return leaf(app)
			}
		}
	}
	if len(x.Results) != len(f.sig.results) {
		f.p.bad(x, "return with %d values in a function with %d results", len(x.Results), len(f.sig.results))
	}
	if sh == "mut" {
		return f.retMut(x)
	}
	if sh == "recv" {
		return f.retRecv()
	}
	// return F(make(..)) / return e.Packet.Bytes(): the result of a call that can panic
	switch sh {
	case "accepts":
		if id, ok := x.Results[len(x.Results)-1].(*ast.Ident); ok && id.Name == "nil" {
			return cLeaf{"true"}
		}
		// the error expression must be translatable (it is an error value), its content is dropped
		f.errValue(f.expr(x.Results[len(x.Results)-1]), x)
		f.binds = nil
		return cLeaf{"false"}
	case "pure", "resv":
		v := f.expr(x.Results[0])
		if v.fields != nil {
			term, ty := f.materialize(v, x)
			f.noteResType(ty, x)
			if sh == "pure" {
				return cLeaf{term}
			}
			return leaf("Ok " + atom(term))
		}
		if v.t.k == kUntypedInt {
			v = f.conv(v, f.sig.results[0], x)
		} else if !sameType(v.t, f.sig.results[0]) {
			f.p.bad(x, "return of a %s from a function returning %s", v.t, f.sig.results[0])
		}
		if sh == "pure" {
			return cLeaf{v.term}
		}
		return leaf("Ok " + atom(v.term))
	case "opt":
		v := f.expr(x.Results[0])
		if v.t.k == kNil {
			return leaf("Ok None")
		}
		return leaf("Ok (Some (" + f.errValue(v, x) + "))")
	case "res", "pair":
		ev := f.expr(x.Results[1])
		if sh == "res" && ev.t.k != kNil {
			if !isZeroExpr(x.Results[0]) {
				f.p.bad(x, "non-zero value returned together with an error")
			}
			return leaf("Err (" + f.errValue(ev, x) + ")")
		}
		v := f.expr(x.Results[0])
		var term string
		rt := f.sig.results[0]
		switch {
		case v.t.k == kUntypedInt:
			term = f.conv(v, rt, x).term
		case v.fields != nil || v.t.k == kStruct || v.t.k == kPtr:
			var ty string
			term, ty = f.materialize(v, x)
			f.noteResType(ty, x)
		default:
			if !sameType(v.t, rt) {
				f.p.bad(x, "return of a %s from a function returning %s", v.t, rt)
			}
			term = v.term
			if rt.k == kString && term == "" {
				if !isZeroExpr(x.Results[0]) {
					f.p.bad(x, "a string whose content is not tracked is returned")
				}
				term = "[]"
			}
		}
		if sh == "res" {
			return leaf("Ok " + atom(term))
		}
		if ev.t.k == kNil {
			return leaf("Ok (" + term + ", None)")
		}
		return leaf("Ok (" + term + ", Some (" + f.errValue(ev, x) + "))")
	}
	f.p.bad(x, "return in shape %s", sh)
	return nil
}

// retRecv: a method that changes its (record) receiver yields the receiver as it is now.
func (f *ftrans) retRecv() code {
	cur, _ := f.env.lookup(f.sig.recvName)
	bs := f.takeBinds()
	return wrapBinds(bs, cLeaf{"Ok " + atom(cur.term)})
}

// retMut: a function that writes into its slice parameter returns nothing or that parameter.
func (f *ftrans) retMut(at ast.Node) code {
	var bp *param
	for i := range f.sig.params {
		if f.sig.params[i].isBuf {
			bp = &f.sig.params[i]
		}
	}
	if r, ok := at.(*ast.ReturnStmt); ok && len(r.Results) == 1 {
		id, ok := r.Results[0].(*ast.Ident)
		if !ok {
			f.p.bad(at, "a function that writes into its slice parameter must return that parameter")
		}
		root, _ := f.resolveRoot(id.Name)
		if root != bp.name {
			f.p.bad(at, "a function that writes into its slice parameter must return that parameter")
		}
	}
	cur, _ := f.env.lookup(bp.name)
	bs := f.takeBinds()
	return wrapBinds(bs, cLeaf{"Ok " + atom(cur.term)})
}

// calleeOpt resolves F(..) to a function of the package and x.m(..) to a method of the symbolic
// struct x (with the part of x that is the method's receiver); nil if it is neither.
func (f *ftrans) calleeOpt(call *ast.CallExpr) (*funcDecl, *val) {
	switch fn := call.Fun.(type) {
	case *ast.Ident:
		if f.env.has(fn.Name) {
			return nil, nil
		}
		if fd, ok := f.p.funcs[fn.Name]; ok {
			return fd, nil
		}
	case *ast.SelectorExpr:
		if id, isId := fn.X.(*ast.Ident); isId && !f.env.has(id.Name) {
			return nil, nil // a package-qualified name
		}
		recv := f.expr(fn.X)
		if recv.fields == nil && recv.term != "" {
			// a record or a list of a named type: the receiver is one argument
			if sn := structName(recv.t); sn != "" {
				if _, isRec := recordTable[sn]; isRec {
					if fd := f.p.findMethod(sn, fn.Sel.Name); fd != nil {
						return fd, recv
					}
				}
			}
			if recv.t.k == kList && recv.t.name != "" {
				if fd, ok := f.p.funcs[recv.t.name+"."+fn.Sel.Name]; ok {
					return fd, recv
				}
			}
			return nil, nil
		}
		if recv.fields == nil {
			return nil, nil
		}
		rn := recv.t.name
		if recv.t.k == kPtr {
			rn = recv.t.elem.name
		}
		fd := f.p.findMethod(rn, fn.Sel.Name)
		if fd == nil {
			return nil, nil
		}
		target := f.embeddedOf(recv, rn, fd.recv)
		if target == nil {
			return nil, nil
		}
		return fd, target
	}
	return nil, nil
}

func (f *ftrans) calleeOf(call *ast.CallExpr) (*funcDecl, *val) {
	fd, recv := f.calleeOpt(call)
	if fd == nil {
		f.p.bad(call, "callee %s is not a function or method of the package", describe(call.Fun))
	}
	return fd, recv
}

// noteResType records / checks the Gallina type of the first result (all returns must agree).
func (f *ftrans) noteResType(ty string, at ast.Node) {
	if f.sig.coqResT == "" || f.sig.coqResT == "?" {
		f.sig.coqResT = ty
	} else if f.sig.coqResT != ty {
		f.p.bad(at, "returns of different model types: %s and %s", f.sig.coqResT, ty)
	}
}
