package main

// Expressions: a small type inference + translation to Gallina terms.
//
// Every Go expression is translated at its Go type; arithmetic on uint8 / uint16 wraps at that
// width (add8, sub16, u8 ...), conversions truncate where Go truncates, int is Z.  Operations
// that can panic (index, re-slice, make, Uint16 on a short slice) are not terms: they are hoisted,
// in evaluation order, into monadic bindings `let* tN := ... in` in front of the statement they
// occur in (see (*ftrans).bind).  The right operand of && / || is evaluated only when Go
// evaluates it.

import (
	"fmt"
	"go/ast"
	"go/constant"
	"go/token"
	"strings"
)

// val is the translation of an expression.
type val struct {
	t       *typ
	term    string          // Gallina term; "" for purely symbolic values
	cv      constant.Value  // value, if a constant
	fields  map[string]*val // symbolic struct value (embedded structs under their type name)
	elems   []*val          // symbolic array value
	isSlice bool            // term is a GoSem.slice (a []byte parameter that is indexed)
	isNil   bool            // the nil literal / a nil slice variable
	isPtr   bool            // pointer to the symbolic struct
	errTerm string          // kError: a PacketModel.perr term
	str     bool            // a string (dropped)
	buf     bool            // a byte slice this function creates or writes: term = its current content (list N)
	alias   string          // this Go variable denotes the same slice as the local variable `alias`
	nilTerm string          // []byte field of a receiver that is compared with nil somewhere: the bool "is nil"
	lazy    *lazyShift      // untyped constant << non-constant count: typed by the context (Go spec, "Operators")
}

type lazyShift struct {
	left  constant.Value
	count *val
	at    ast.Node
}

// bind is a hoisted binding: let* name := rhs in (monadic) or let name := rhs in (pure)
type bind struct {
	name, rhs string
	pure      bool
}

func numeral(v constant.Value, t *typ, p *pkg, at ast.Node) string {
	s := v.ExactString()
	neg := constant.Sign(v) < 0
	switch t.k {
	case kInt, kUntypedInt:
		if neg {
			return "(" + s + ")%Z"
		}
		return s + "%Z"
	case kU8, kU16, kU32, kU64:
		if neg {
			p.bad(at, "negative constant %s at type %s", s, t)
		}
		lim := constant.Shift(constant.MakeInt64(1), token.SHL, uint(t.bits()))
		if !constant.Compare(v, token.LSS, lim) {
			p.bad(at, "constant %s overflows %s", s, t)
		}
		return s
	case kI8, kI16, kI32, kI64:
		lim := constant.Shift(constant.MakeInt64(1), token.SHL, uint(t.bits()-1))
		if !constant.Compare(v, token.LSS, lim) || constant.Compare(v, token.LSS, constant.UnaryOp(token.SUB, lim, 0)) {
			p.bad(at, "constant %s overflows %s", s, t)
		}
		if neg {
			return "(" + s + ")%Z"
		}
		return s + "%Z"
	}
	p.bad(at, "constant at type %s", t)
	return ""
}

// conv gives v the type t if v is an untyped constant; otherwise the types must agree.
func (f *ftrans) conv(v *val, t *typ, at ast.Node) *val {
	if v.lazy != nil {
		return f.forceShift(v, t, at)
	}
	if v.t.k == kUntypedInt {
		if !t.isNum() {
			f.p.bad(at, "integer constant used at type %s", t)
		}
		if t.k == kUntypedInt {
			return v
		}
		return &val{t: t, term: numeral(v.cv, t, f.p, at), cv: v.cv}
	}
	if !sameType(v.t, t) {
		f.p.bad(at, "type mismatch: have %s, want %s", v.t, t)
	}
	return v
}

// forceShift: `c << n` with c an untyped constant and n not constant, now that the context type is known.
func (f *ftrans) forceShift(v *val, t *typ, at ast.Node) *val {
	if !t.isUint() {
		f.p.bad(at, "constant shifted by a non-constant count at type %s (only unsigned types are in the fragment)", t)
	}
	left := numeral(v.lazy.left, t, f.p, at)
	w := widthName(t)
	c := v.lazy.count
	switch {
	case c.t.isUint():
		return &val{t: t, term: fmt.Sprintf("(shl%s %s %s)", w, left, atom(c.term))}
	case c.t.k == kInt:
		f.needMonadic(at, "a shift by a signed count")
		return &val{t: t, term: f.bind(fmt.Sprintf("zshl%s %s %s", w, left, atom(c.term)))}
	}
	f.p.bad(at, "shift count of type %s", c.t)
	return nil
}

func widthName(t *typ) string {
	switch t.k {
	case kU8:
		return "8"
	case kU16:
		return "16"
	case kU32:
		return "32"
	case kU64:
		return "64"
	}
	return "?"
}

// defaulted gives an untyped constant its default type (int).
func (f *ftrans) defaulted(v *val, at ast.Node) *val {
	if v.lazy != nil {
		f.p.bad(at, "constant shifted by a non-constant count without a typed context")
	}
	if v.t.k == kUntypedInt {
		return f.conv(v, tInt, at)
	}
	return v
}

// toZ converts an integer value to a Z term (used for indices and lengths: any integer type may
// index a slice; the value is what Go uses).
func (f *ftrans) toZ(v *val, at ast.Node) string {
	switch v.t.k {
	case kUntypedInt:
		return numeral(v.cv, tInt, f.p, at)
	case kInt, kI8, kI16, kI32, kI64:
		return v.term
	case kU8, kU16, kU32, kU64:
		return "(Z.of_N " + v.term + ")"
	}
	f.p.bad(at, "integer expected, have %s", v.t)
	return ""
}

func (f *ftrans) expr(e ast.Expr) *val {
	switch x := e.(type) {
	case *ast.BasicLit:
		switch x.Kind {
		case token.INT:
			return &val{t: tUntyped, cv: constant.MakeFromLiteral(x.Value, x.Kind, 0)}
		case token.STRING:
			if x.Value == `""` {
				return &val{t: tString, term: "[]", cv: constant.MakeInt64(0)} // the empty string, as a byte list
			}
			return &val{t: tString, str: true}
		}
		f.p.bad(e, "literal %s", x.Value)
	case *ast.ParenExpr:
		return f.expr(x.X)
	case *ast.Ident:
		return f.ident(x)
	case *ast.UnaryExpr:
		return f.unary(x)
	case *ast.BinaryExpr:
		return f.binary(x)
	case *ast.CallExpr:
		return f.call(x)
	case *ast.IndexExpr:
		return f.index(x)
	case *ast.SliceExpr:
		return f.slice(x)
	case *ast.SelectorExpr:
		return f.selector(x)
	case *ast.CompositeLit:
		return f.composite(x)
	case *ast.StarExpr:
		v := f.expr(x.X)
		if v.fields == nil && !(v.term != "" && (v.t.k == kList || structName(v.t) != "")) {
			f.p.bad(e, "dereference of a non-struct pointer")
		}
		return v
	}
	f.p.bad(e, "expression form %T", e)
	return nil
}

func (f *ftrans) ident(x *ast.Ident) *val {
	switch x.Name {
	case "true":
		return &val{t: tBool, term: "true"}
	case "false":
		return &val{t: tBool, term: "false"}
	case "nil":
		return &val{t: tNil, isNil: true}
	case "_":
		f.p.bad(x, "blank identifier as a value")
	}
	if v, ok := f.env.lookup(x.Name); ok {
		if v.alias != "" {
			if r, ok := f.env.lookup(v.alias); ok {
				return r
			}
		}
		return v
	}
	if c, ok := f.p.consts[f.fd.name+"."+x.Name]; ok {
		return constVal(c)
	}
	if c, ok := f.p.consts[x.Name]; ok {
		return constVal(c)
	}
	if s, ok := sentinelTable[x.Name]; ok {
		if _, isVar := f.p.vars[x.Name]; isVar {
			if f.p.assigned[x.Name] {
				f.p.bad(x, "sentinel error %s is assigned to somewhere in the package", x.Name)
			}
			return &val{t: tError, errTerm: s}
		}
	}
	f.p.bad(x, "identifier %s (not a local, constant or mapped sentinel)", x.Name)
	return nil
}

func constVal(c *constDecl) *val {
	if c.typ.k == kUntypedInt {
		return &val{t: tUntyped, cv: c.val}
	}
	v := &val{t: c.typ, cv: c.val}
	v.term = c.val.ExactString()
	if c.typ.k == kInt {
		v.term += "%Z"
	}
	return v
}

func (f *ftrans) unary(x *ast.UnaryExpr) *val {
	switch x.Op {
	case token.NOT:
		v := f.expr(x.X)
		f.conv(v, tBool, x)
		return &val{t: tBool, term: "negb " + atom(v.term)}
	case token.SUB:
		v := f.expr(x.X)
		if v.t.k == kUntypedInt {
			return &val{t: tUntyped, cv: constant.UnaryOp(token.SUB, v.cv, 0)}
		}
		if v.t.k == kInt {
			return &val{t: tInt, term: "(- " + atom(v.term) + ")%Z"}
		}
		f.p.bad(x, "negation at type %s", v.t)
	case token.AND:
		v := f.expr(x.X)
		if v.fields == nil {
			f.p.bad(x, "address of a non-literal")
		}
		w := *v
		w.isPtr = true
		return &w
	}
	f.p.bad(x, "unary operator %s", x.Op)
	return nil
}

// atom parenthesises a term unless it is atomic.
func atom(s string) string {
	if s == "" {
		return s
	}
	if strings.ContainsAny(s, " ") && !(strings.HasPrefix(s, "(") && closesAtEnd(s)) {
		return "(" + s + ")"
	}
	return s
}

func closesAtEnd(s string) bool {
	depth := 0
	for i, c := range s {
		switch c {
		case '(':
			depth++
		case ')':
			depth--
			if depth == 0 {
				return i == len(s)-1
			}
		}
	}
	return false
}

func (f *ftrans) binary(x *ast.BinaryExpr) *val {
	if x.Op == token.LAND || x.Op == token.LOR {
		return f.shortCircuit(x)
	}
	a := f.expr(x.X)
	if x.Op == token.SHL || x.Op == token.SHR {
		return f.shift(x, a)
	}
	b := f.expr(x.Y)
	// s == "" / s != "" for a string carried as a byte list
	if (x.Op == token.EQL || x.Op == token.NEQ) && a.t.k == kString && b.t.k == kString {
		o := a
		if a.cv != nil && a.term == "[]" {
			o = b
		} else if !(b.cv != nil && b.term == "[]") {
			f.p.bad(x, "comparison of two strings (only comparison with \"\" is in the fragment)")
		}
		if o.term == "" {
			f.p.bad(x, "comparison of a string whose content is not tracked")
		}
		s := fmt.Sprintf("(llen %s =? 0%%Z)%%Z", atom(o.term))
		if x.Op == token.NEQ {
			s = "negb " + s
		}
		return &val{t: tBool, term: s}
	}
	// comparison of a []byte receiver field with nil
	if (x.Op == token.EQL || x.Op == token.NEQ) && (a.t.k == kNil || b.t.k == kNil) {
		o := a
		if a.t.k == kNil {
			o = b
		}
		if o.nilTerm != "" {
			if x.Op == token.EQL {
				return &val{t: tBool, term: o.nilTerm}
			}
			return &val{t: tBool, term: "negb " + o.nilTerm}
		}
	}
	if a.lazy != nil && b.lazy == nil && b.t.k != kUntypedInt {
		a = f.conv(a, b.t, x.X)
	} else if b.lazy != nil && a.lazy == nil && a.t.k != kUntypedInt {
		b = f.conv(b, a.t, x.Y)
	} else if a.lazy != nil || b.lazy != nil {
		f.p.bad(x, "constant shifted by a non-constant count without a typed context")
	}
	// constant folding of two untyped constants
	if a.t.k == kUntypedInt && b.t.k == kUntypedInt {
		switch x.Op {
		case token.ADD, token.SUB, token.MUL, token.AND, token.OR, token.XOR:
			return &val{t: tUntyped, cv: constant.BinaryOp(a.cv, x.Op, b.cv)}
		case token.QUO:
			if constant.Sign(b.cv) != 0 {
				return &val{t: tUntyped, cv: constant.BinaryOp(a.cv, token.QUO_ASSIGN, b.cv)}
			}
		case token.REM:
			if constant.Sign(b.cv) != 0 {
				return &val{t: tUntyped, cv: constant.BinaryOp(a.cv, token.REM, b.cv)}
			}
		case token.EQL, token.NEQ, token.LSS, token.LEQ, token.GTR, token.GEQ:
			if constant.Compare(a.cv, x.Op, b.cv) {
				return &val{t: tBool, term: "true"}
			}
			return &val{t: tBool, term: "false"}
		}
		f.p.bad(x, "constant operation %s", x.Op)
	}
	// one untyped constant takes the type of the other operand
	if a.t.k == kUntypedInt {
		a = f.conv(a, b.t, x.X)
	} else if b.t.k == kUntypedInt {
		b = f.conv(b, a.t, x.Y)
	}
	// nil comparisons are handled by the statement idioms only
	if a.t.k == kNil || b.t.k == kNil {
		f.p.bad(x, "comparison with nil outside the recognised error idioms")
	}
	if !sameType(a.t, b.t) {
		f.p.bad(x, "operands of %s have types %s and %s", x.Op, a.t, b.t)
	}
	t := a.t
	A, B := atom(a.term), atom(b.term)
	cmp := func(nop, zop string, swap bool) *val {
		l, r := A, B
		if swap {
			l, r = B, A
		}
		switch t.k {
		case kInt, kI8, kI16, kI32, kI64:
			return &val{t: tBool, term: fmt.Sprintf("(%s %s %s)%%Z", l, zop, r)}
		case kU8, kU16, kU32, kU64:
			return &val{t: tBool, term: fmt.Sprintf("(%s %s %s)", l, nop, r)}
		}
		f.p.bad(x, "ordering at type %s", t)
		return nil
	}
	switch x.Op {
	case token.EQL, token.NEQ:
		var s string
		switch t.k {
		case kInt, kI8, kI16, kI32, kI64:
			s = fmt.Sprintf("(%s =? %s)%%Z", A, B)
		case kU8, kU16, kU32, kU64:
			s = fmt.Sprintf("(%s =? %s)", A, B)
		case kBool:
			s = fmt.Sprintf("(Bool.eqb %s %s)", A, B)
		default:
			f.p.bad(x, "equality at type %s", t)
		}
		if x.Op == token.NEQ {
			s = "negb " + s
		}
		return &val{t: tBool, term: s}
	case token.LSS:
		return cmp("<?", "<?", false)
	case token.LEQ:
		return cmp("<=?", "<=?", false)
	case token.GTR:
		return cmp("<?", "<?", true)
	case token.GEQ:
		return cmp("<=?", "<=?", true)
	}
	// arithmetic
	switch t.k {
	case kInt:
		switch x.Op {
		case token.ADD:
			return &val{t: t, term: fmt.Sprintf("(%s + %s)%%Z", A, B)}
		case token.SUB:
			return &val{t: t, term: fmt.Sprintf("(%s - %s)%%Z", A, B)}
		case token.MUL:
			return &val{t: t, term: fmt.Sprintf("(%s * %s)%%Z", A, B)}
		case token.QUO, token.REM:
			// Go truncates towards zero: Z.quot / Z.rem; a zero divisor would panic
			if b.cv == nil || constant.Sign(b.cv) == 0 {
				f.p.bad(x, "division by a non-constant or zero divisor")
			}
			if x.Op == token.QUO {
				return &val{t: t, term: fmt.Sprintf("(Z.quot %s %s)", A, B)}
			}
			return &val{t: t, term: fmt.Sprintf("(Z.rem %s %s)", A, B)}
		}
	case kU8, kU16, kU32, kU64:
		w := widthName(t)
		switch x.Op {
		case token.ADD:
			return &val{t: t, term: fmt.Sprintf("(add%s %s %s)", w, A, B)}
		case token.SUB:
			return &val{t: t, term: fmt.Sprintf("(sub%s %s %s)", w, A, B)}
		case token.MUL:
			return &val{t: t, term: fmt.Sprintf("(mul%s %s %s)", w, A, B)}
		case token.QUO, token.REM:
			if b.cv == nil || constant.Sign(b.cv) == 0 {
				f.p.bad(x, "division by a non-constant or zero divisor")
			}
			if x.Op == token.QUO {
				return &val{t: t, term: fmt.Sprintf("(%s / %s)", A, B)}
			}
			return &val{t: t, term: fmt.Sprintf("(%s mod %s)", A, B)}
		case token.AND:
			return &val{t: t, term: fmt.Sprintf("(N.land %s %s)", A, B)}
		case token.OR:
			return &val{t: t, term: fmt.Sprintf("(N.lor %s %s)", A, B)}
		case token.XOR:
			return &val{t: t, term: fmt.Sprintf("(N.lxor %s %s)", A, B)}
		}
	}
	f.p.bad(x, "operator %s at type %s", x.Op, t)
	return nil
}

func (f *ftrans) shift(x *ast.BinaryExpr, a *val) *val {
	b := f.expr(x.Y)
	if a.t.k == kUntypedInt && b.t.k == kUntypedInt {
		if n, ok := constant.Uint64Val(b.cv); ok && n < 64 {
			return &val{t: tUntyped, cv: constant.Shift(a.cv, x.Op, uint(n))}
		}
	}
	if a.t.k == kUntypedInt && a.lazy == nil && x.Op == token.SHL && (b.t.isUint() || b.t.k == kInt) {
		return &val{t: tUntyped, lazy: &lazyShift{left: a.cv, count: b, at: x}}
	}
	if !a.t.isUint() {
		f.p.bad(x, "shift of a value of type %s (only unsigned types are in the fragment)", a.t)
	}
	var n string
	switch b.t.k {
	case kUntypedInt:
		if constant.Sign(b.cv) < 0 {
			f.p.bad(x, "negative shift count")
		}
		n = b.cv.ExactString()
	case kU8, kU16, kU32, kU64:
		n = atom(b.term)
	default:
		f.p.bad(x, "shift count of type %s", b.t)
	}
	A := atom(a.term)
	if x.Op == token.SHR {
		return &val{t: a.t, term: fmt.Sprintf("(N.shiftr %s %s)", A, n)}
	}
	return &val{t: a.t, term: fmt.Sprintf("(shl%s %s %s)", widthName(a.t), A, n)}
}

// shortCircuit: a && b / a || b.  If evaluating b needs monadic bindings (it can panic), they are
// kept inside the branch in which Go evaluates b.
func (f *ftrans) shortCircuit(x *ast.BinaryExpr) *val {
	a := f.expr(x.X)
	f.conv(a, tBool, x.X)
	saved := f.binds
	f.binds = nil
	b := f.expr(x.Y)
	f.conv(b, tBool, x.Y)
	inner := f.binds
	f.binds = saved
	op := "&&"
	if x.Op == token.LOR {
		op = "||"
	}
	if len(inner) == 0 {
		return &val{t: tBool, term: fmt.Sprintf("(%s %s %s)", atom(a.term), op, atom(b.term))}
	}
	f.needMonadic(x, "a panicking operand of "+op)
	var sb strings.Builder
	for _, bd := range inner {
		kw := "let*"
		if bd.pure {
			kw = "let"
		}
		fmt.Fprintf(&sb, "%s %s := %s in ", kw, bd.name, bd.rhs)
	}
	rhs := "(" + sb.String() + "Ok " + atom(b.term) + ")"
	var whole string
	if x.Op == token.LAND {
		whole = fmt.Sprintf("(if %s then %s else Ok false)", a.term, rhs)
	} else {
		whole = fmt.Sprintf("(if %s then Ok true else %s)", a.term, rhs)
	}
	return &val{t: tBool, term: f.bind(whole)}
}

func (f *ftrans) index(x *ast.IndexExpr) *val {
	base := f.expr(x.X)
	if base.elems != nil {
		i := f.expr(x.Index)
		if i.cv == nil {
			f.p.bad(x, "non-constant index into an array value")
		}
		n, _ := constant.Int64Val(i.cv)
		if n < 0 || int(n) >= len(base.elems) {
			f.p.bad(x, "array index out of range")
		}
		return base.elems[n]
	}
	if (base.t.k == kBytes || base.t.k == kBools || base.t.k == kArray) && !base.isSlice && base.term != "" {
		// a list value: a re-slice, a local buffer, a []bool / [n]byte parameter
		f.needMonadic(x, "an index expression")
		i := f.expr(x.Index)
		et := tU8
		if base.t.k == kBools {
			et = tBool
		}
		return &val{t: et, term: f.bind(fmt.Sprintf("lget %s %s", atom(base.term), atom(f.toZ(i, x.Index))))}
	}
	if base.t.k == kList && base.term != "" {
		f.needMonadic(x, "an index expression")
		i := f.expr(x.Index)
		return &val{t: base.t.elem, term: f.bind(fmt.Sprintf("lget %s %s", atom(base.term), atom(f.toZ(i, x.Index))))}
	}
	if base.t.k != kBytes || !base.isSlice {
		f.p.bad(x, "indexing a value of type %s", base.t)
	}
	f.needMonadic(x, "an index expression")
	i := f.expr(x.Index)
	return &val{t: tU8, term: f.bind(fmt.Sprintf("zidx %s %s", base.term, atom(f.toZ(i, x.Index))))}
}

func (f *ftrans) slice(x *ast.SliceExpr) *val {
	if x.Slice3 {
		f.p.bad(x, "3-index slice")
	}
	base := f.expr(x.X)
	if base.elems != nil && x.Low == nil && x.High == nil {
		// arr[:] -- the array as a slice value
		return base
	}
	if base.t.k == kArray && base.term != "" && x.Low == nil && x.High == nil {
		return &val{t: tBytes, term: base.term, cv: constant.MakeInt64(int64(base.t.n))}
	}
	if base.t.k == kBytes && !base.isSlice && base.term != "" {
		return f.sliceList(x, base)
	}
	if base.t.k != kBytes || !base.isSlice {
		f.p.bad(x, "re-slicing a value of type %s", base.t)
	}
	f.needMonadic(x, "a slice expression")
	var lo, hi string
	if x.Low != nil {
		lo = atom(f.toZ(f.expr(x.Low), x.Low))
	}
	if x.High != nil {
		hi = atom(f.toZ(f.expr(x.High), x.High))
	}
	var rhs string
	switch {
	case lo != "" && hi != "":
		rhs = fmt.Sprintf("zsub %s %s %s", base.term, lo, hi)
	case lo != "":
		rhs = fmt.Sprintf("zfrom %s %s", base.term, lo)
	case hi != "":
		rhs = fmt.Sprintf("zupto %s %s", base.term, hi)
	default:
		return &val{t: tBytes, term: "(vis " + base.term + ")"}
	}
	v := &val{t: tBytes, term: f.bind(rhs)}
	// remember a constant width: binary.*.Uint16 of a 2-byte re-slice cannot panic
	if x.High != nil {
		l, h := constant.MakeInt64(0), f.peekConst(x.High)
		if x.Low != nil {
			l = f.peekConst(x.Low)
		}
		if l != nil && h != nil {
			if d, ok := constant.Int64Val(constant.BinaryOp(h, token.SUB, l)); ok {
				v.cv = constant.MakeInt64(d) // for kBytes: the known length
			}
		}
	}
	return v
}

// sliceList: l[a:b] / l[a:] / l[:b] of a list value (read; the result is a copy, see GenPrelude2)
func (f *ftrans) sliceList(x *ast.SliceExpr, base *val) *val {
	if x.Low == nil && x.High == nil {
		return &val{t: tBytes, term: base.term, cv: base.cv}
	}
	f.needMonadic(x, "a slice expression")
	lo, hi := f.sliceBounds(x, base.term)
	v := &val{t: tBytes, term: f.bind(fmt.Sprintf("lsub %s %s %s", atom(base.term), lo, hi))}
	if x.High != nil {
		l, h := constant.MakeInt64(0), f.peekConst(x.High)
		if x.Low != nil {
			l = f.peekConst(x.Low)
		}
		if l != nil && h != nil {
			if d, ok := constant.Int64Val(constant.BinaryOp(h, token.SUB, l)); ok {
				v.cv = constant.MakeInt64(d)
			}
		}
	}
	return v
}

// sliceBounds gives the two bounds of l[a:b] as Z terms (missing ones filled in).
func (f *ftrans) sliceBounds(x *ast.SliceExpr, baseTerm string) (lo, hi string) {
	lo, hi = "0%Z", "(llen "+atom(baseTerm)+")"
	if x.Low != nil {
		lo = atom(f.toZ(f.expr(x.Low), x.Low))
	}
	if x.High != nil {
		hi = atom(f.toZ(f.expr(x.High), x.High))
	}
	return
}

// peekConst evaluates e if it is a constant expression (no side effects on the translation state).
func (f *ftrans) peekConst(e ast.Expr) (c constant.Value) {
	defer func() {
		if r := recover(); r != nil {
			if _, ok := r.(untranslatable); ok {
				c = nil
				return
			}
			panic(r)
		}
	}()
	saved := f.binds
	defer func() { f.binds = saved }()
	switch e.(type) {
	case *ast.BasicLit, *ast.Ident, *ast.BinaryExpr, *ast.ParenExpr:
		if _, v := f.p.constExpr(e, 0, f.fd.name); v != nil && v.Kind() == constant.Int {
			return v
		}
	}
	return nil
}

func (f *ftrans) selector(x *ast.SelectorExpr) *val {
	// alias.C : a constant of an imported package
	if id, ok := x.X.(*ast.Ident); ok && f.p.imported[id.Name] && !f.env.has(id.Name) {
		if c, ok := f.p.consts[id.Name+"."+x.Sel.Name]; ok {
			return constVal(c)
		}
		f.p.bad(x, "%s.%s is not a constant of the imported package", id.Name, x.Sel.Name)
	}
	base := f.expr(x.X)
	if _, isRec := recordOf(base.t); isRec && base.fields == nil && base.term != "" {
		return f.recProj(base, x.Sel.Name, x)
	}
	if base.fields != nil {
		if v := f.fieldOf(base, x.Sel.Name); v != nil {
			return v
		}
		f.p.bad(x, "no field %s in %s", x.Sel.Name, base.t)
	}
	if base.t.k == kStruct || (base.t.k == kPtr && base.t.elem.k == kStruct) {
		// a struct held as a model term: only single-argument mappings can be projected
		name := base.t.name
		if base.t.k == kPtr {
			name = base.t.elem.name
		}
		if c, ok := structTable[name]; ok && c.coq == "" && len(c.args) == 1 && c.args[0] == x.Sel.Name {
			ft := f.fieldType(name, x.Sel.Name)
			return &val{t: ft, term: base.term}
		}
	}
	f.p.bad(x, "selector .%s on a value of type %s", x.Sel.Name, base.t)
	return nil
}

func (f *ftrans) fieldType(structName, fname string) *typ {
	for _, fl := range f.p.flatFields(structName) {
		if fl.name == fname {
			return fl.typ
		}
	}
	f.p.bad(nil, "no field %s in %s", fname, structName)
	return nil
}

// fieldOf finds a (possibly promoted) field in a symbolic struct; a field the literal did not
// mention has the zero value of its type.
func (f *ftrans) fieldOf(s *val, name string) *val {
	sn := s.t.name
	if s.t.k == kPtr {
		sn = s.t.elem.name
	}
	sd := f.p.structs[sn]
	if sd == nil {
		return nil
	}
	for _, fl := range sd.fields {
		if fl.name == name {
			if v, ok := s.fields[name]; ok {
				return v
			}
			return f.zero(fl.typ)
		}
	}
	for _, fl := range sd.fields {
		if fl.embedded && fl.typ.k == kStruct {
			sub, ok := s.fields[fl.name]
			if !ok {
				sub = f.zero(fl.typ)
			}
			if sub.fields == nil {
				// embedded struct held as a model term
				if c, ok := structTable[fl.typ.name]; ok && c.coq == "" && len(c.args) == 1 && c.args[0] == name {
					return &val{t: f.fieldType(fl.typ.name, name), term: sub.term}
				}
				continue
			}
			if v := f.fieldOf(sub, name); v != nil {
				return v
			}
		}
	}
	return nil
}

func (f *ftrans) zero(t *typ) *val {
	switch t.k {
	case kInt:
		return &val{t: t, term: "0%Z", cv: constant.MakeInt64(0)}
	case kU8, kU16, kU32, kU64, kF32, kFloat:
		return &val{t: t, term: "0", cv: constant.MakeInt64(0)}
	case kI8, kI16, kI32, kI64:
		return &val{t: t, term: "0%Z", cv: constant.MakeInt64(0)}
	case kBool:
		return &val{t: t, term: "false"}
	case kBytes:
		return &val{t: t, term: "[]", isNil: true, cv: constant.MakeInt64(0), buf: true}
	case kString:
		return &val{t: t, str: true}
	case kArray:
		v := &val{t: t}
		for i := 0; i < t.n; i++ {
			v.elems = append(v.elems, f.zero(tU8))
		}
		return v
	case kStruct:
		return &val{t: t, fields: map[string]*val{}}
	}
	f.p.bad(nil, "zero value of type %s", t)
	return nil
}

func (f *ftrans) composite(x *ast.CompositeLit) *val {
	t := f.p.typeOfExpr(x.Type)
	if r, ok := recordOf(t); ok && t.k == kStruct {
		return f.recordLiteral(x, t, r)
	}
	if t.k == kList {
		return f.listLiteral(x, t)
	}
	switch t.k {
	case kBytes:
		// []byte{a, b, ...}: a fresh slice
		var els []string
		for _, el := range x.Elts {
			if _, isKV := el.(*ast.KeyValueExpr); isKV {
				f.p.bad(x, "keyed slice literal")
			}
			els = append(els, f.conv(f.expr(el), tU8, el).term)
		}
		return &val{t: tBytes, term: "[" + strings.Join(els, "; ") + "]", buf: true, cv: constant.MakeInt64(int64(len(els)))}
	case kArray:
		v := &val{t: t}
		for _, el := range x.Elts {
			if _, isKV := el.(*ast.KeyValueExpr); isKV {
				f.p.bad(x, "keyed array literal")
			}
			v.elems = append(v.elems, f.conv(f.expr(el), tU8, el))
		}
		for len(v.elems) < t.n {
			v.elems = append(v.elems, f.zero(tU8))
		}
		if len(v.elems) != t.n {
			f.p.bad(x, "array literal length")
		}
		return v
	case kStruct:
		sd := f.p.structs[t.name]
		v := &val{t: t, fields: map[string]*val{}}
		for _, el := range x.Elts {
			kv, ok := el.(*ast.KeyValueExpr)
			if !ok {
				f.p.bad(x, "positional struct literal")
			}
			key := kv.Key.(*ast.Ident).Name
			var fl *field
			for _, c := range sd.fields {
				if c.name == key {
					fl = c
				}
			}
			if fl == nil {
				f.p.bad(kv, "no field %s in %s", key, t.name)
			}
			fv := f.expr(kv.Value)
			switch {
			case fl.typ.k == kString:
				fv = &val{t: tString, str: true} // texts are dropped
			case fv.t.k == kUntypedInt:
				fv = f.conv(fv, fl.typ, kv.Value)
			case fv.isNil && fv.t.k == kNil:
				fv = f.zero(fl.typ)
			default:
				ft := fl.typ
				if !sameType(fv.t, ft) {
					f.p.bad(kv, "field %s.%s of type %s given a %s", t.name, key, ft, fv.t)
				}
			}
			v.fields[key] = fv
		}
		return v
	}
	f.p.bad(x, "composite literal of type %s", t)
	return nil
}

// materialize writes a struct value as a term of the model, using structTable.
func (f *ftrans) materialize(v *val, at ast.Node) (term string, coqType string) {
	name := v.t.name
	if v.t.k == kPtr {
		name = v.t.elem.name
	}
	if v.fields == nil {
		if v.term == "" {
			f.p.bad(at, "value of type %s has no model term", v.t)
		}
		return v.term, f.coqTypeOf(name, at)
	}
	if c, ok := structTable[name]; ok {
		var args []string
		for _, a := range c.args {
			fname, idx := a, -1
			if i := strings.Index(a, "["); i >= 0 {
				fname = a[:i]
				fmt.Sscanf(a[i:], "[%d]", &idx)
			}
			fv := f.fieldOf(v, fname)
			if fv == nil {
				f.p.bad(at, "mapping table: %s has no field %s", name, fname)
			}
			if idx >= 0 {
				if fv.elems == nil || idx >= len(fv.elems) {
					f.p.bad(at, "mapping table: %s.%s is not an array value", name, fname)
				}
				fv = fv.elems[idx]
			}
			if fv.fields != nil {
				s, _ := f.materialize(fv, at)
				args = append(args, atom(s))
				continue
			}
			if fv.term == "" {
				f.p.bad(at, "field %s.%s has no term", name, fname)
			}
			if fv.isSlice != f.p.sliceFields[name+"."+fname] {
				f.p.bad(at, "field %s.%s: slice representation mismatch (the model keeps it as %v)", name, fname, f.p.sliceFields[name+"."+fname])
			}
			args = append(args, atom(fv.term))
		}
		for _, z := range c.zero {
			fv := f.fieldOf(v, z)
			if fv == nil || fv.cv == nil || constant.Sign(fv.cv) != 0 {
				f.p.bad(at, "mapping table: field %s.%s must be the constant 0 (the model does not carry it)", name, z)
			}
		}
		// every field of the Go struct must be accounted for
		used := map[string]bool{}
		for _, a := range c.args {
			if i := strings.Index(a, "["); i >= 0 {
				a = a[:i]
			}
			used[a] = true
		}
		for _, z := range append(append([]string{}, c.zero...), c.ignore...) {
			used[z] = true
		}
		for _, fl := range f.p.flatFields(name) {
			if !used[fl.name] {
				f.p.bad(at, "mapping table: field %s.%s is not mapped", name, fl.name)
			}
		}
		if c.coq == "" {
			if len(args) == 1 {
				return args[0], c.typeName
			}
			return "(" + strings.Join(args, ", ") + ")", c.typeName
		}
		return c.coq + " " + strings.Join(args, " "), c.typeName
	}
	// a struct made of embedded structs only: the tuple of its parts
	parts := f.p.wrapperParts(name)
	if parts == nil {
		f.p.bad(at, "struct %s is not in the mapping table", name)
	}
	var terms, types []string
	for _, pt := range parts {
		sub, ok := v.fields[pt]
		if !ok {
			sub = f.zero(&typ{k: kStruct, name: pt})
		}
		s, ty := f.materialize(sub, at)
		terms = append(terms, s)
		types = append(types, ty)
	}
	if len(terms) == 1 {
		return terms[0], types[0]
	}
	return "(" + strings.Join(terms, ", ") + ")", "(" + strings.Join(types, " * ") + ")"
}

func (p *pkg) wrapperParts(name string) []string {
	sd := p.structs[name]
	if sd == nil || len(sd.fields) == 0 {
		return nil
	}
	var parts []string
	for _, fl := range sd.fields {
		if !fl.embedded || fl.typ.k != kStruct {
			return nil
		}
		parts = append(parts, fl.typ.name)
	}
	return parts
}

func (f *ftrans) coqTypeOf(structName string, at ast.Node) string {
	if c, ok := structTable[structName]; ok {
		return c.typeName
	}
	parts := f.p.wrapperParts(structName)
	if parts == nil {
		f.p.bad(at, "struct %s is not in the mapping table", structName)
	}
	var types []string
	for _, pt := range parts {
		types = append(types, f.coqTypeOf(pt, at))
	}
	if len(types) == 1 {
		return types[0]
	}
	return "(" + strings.Join(types, " * ") + ")"
}

// errValue writes a Go value used as an `error` as a PacketModel.perr term.
func (f *ftrans) errValue(v *val, at ast.Node) string {
	if v.errTerm != "" {
		return v.errTerm
	}
	if v.fields != nil {
		name := v.t.name
		if v.t.k == kPtr {
			name = v.t.elem.name
		}
		ec, ok := errTable[name]
		if !ok {
			f.p.bad(at, "struct %s used as an error is not in the error table", name)
		}
		payload := v
		if ec.payload != "" {
			payload = f.fieldOf(v, ec.payload)
			if payload == nil {
				f.p.bad(at, "error table: %s has no field %s", name, ec.payload)
			}
			// every other field must be a text
			for _, fl := range f.p.structs[name].fields {
				if fl.name != ec.payload && fl.typ.k != kString {
					f.p.bad(at, "error table: field %s.%s is not mapped", name, fl.name)
				}
			}
		}
		s, _ := f.materialize(payload, at)
		if ec.spread {
			s = strings.TrimSuffix(strings.TrimPrefix(s, "("), ")")
			parts := splitTop(s)
			for i := range parts {
				parts[i] = atom(strings.TrimSpace(parts[i]))
			}
			return ec.coq + " " + strings.Join(parts, " ")
		}
		return ec.coq + " " + atom(s)
	}
	f.p.bad(at, "value of type %s used as an error", v.t)
	return ""
}

// splitTop splits "a, b, c" at top-level commas.
func splitTop(s string) []string {
	var out []string
	depth, start := 0, 0
	for i, c := range s {
		switch c {
		case '(':
			depth++
		case ')':
			depth--
		case ',':
			if depth == 0 {
				out = append(out, s[start:i])
				start = i + 1
			}
		}
	}
	return append(out, s[start:])
}
