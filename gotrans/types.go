package main

// Package loading, the (small) type language and the constant environment.

import (
	"fmt"
	"go/ast"
	"go/constant"
	"go/parser"
	"go/token"
	"os"
	"path/filepath"
	"sort"
	"strings"
)

// untranslatable is the panic value raised anywhere below when a construct is outside the fragment;
// it is recovered per function and becomes `Untranslated "<reason>"` in the output.
type untranslatable struct{ reason string }

func (p *pkg) bad(n ast.Node, format string, a ...any) {
	pos := ""
	if n != nil {
		ps := p.fset.Position(n.Pos())
		pos = fmt.Sprintf("%s:%d: ", filepath.Base(ps.Filename), ps.Line)
	}
	panic(untranslatable{pos + fmt.Sprintf(format, a...)})
}

type kind int

const (
	kInt kind = iota // Go int            -> Z
	kU8              // uint8 / byte       -> N, wraps at 2^8
	kU16             // uint16             -> N, wraps at 2^16
	kU32             // uint32             -> N, wraps at 2^32
	kU64             // uint64             -> N, wraps at 2^64
	kI8              // int8 .. int64      -> Z, conversions wrap to the signed range
	kI16
	kI32
	kI64
	kF32        // float32: carried as its bit pattern (N)
	kBool       // bool               -> bool
	kUntypedInt // untyped integer constant
	kFloat      // float64: inside the ceil idiom; as a result: its bit pattern (N)
	kUntypedFlt // untyped float constant
	kBytes      // []byte value       -> list N   (or GoSem.slice when isSliceParam)
	kBools      // []bool             -> list bool
	kArray      // [n]byte            -> symbolic element list / list N
	kStruct     // named struct       -> symbolic field map / model constructor
	kPtr        // *T
	kError      // error
	kString     // string (never emitted)
	kIface      // Request / Response
	kBuilder    // *strings.Builder: the bytes written so far (list N)
	kList       // []T for a struct T held as a record of the model: list T
	kAny        // interface{} as a result: RegistersSpec.aval
	kNil        // the predeclared nil
	kVoid
)

type typ struct {
	k    kind
	name string // kStruct, kIface: the Go name
	elem *typ   // kPtr, kList
	n    int    // kArray
}

var (
	tInt     = &typ{k: kInt}
	tU8      = &typ{k: kU8}
	tU16     = &typ{k: kU16}
	tU32     = &typ{k: kU32}
	tU64     = &typ{k: kU64}
	tI8      = &typ{k: kI8}
	tI16     = &typ{k: kI16}
	tI32     = &typ{k: kI32}
	tI64     = &typ{k: kI64}
	tF32     = &typ{k: kF32}
	tBool    = &typ{k: kBool}
	tUntyped = &typ{k: kUntypedInt}
	tFloat   = &typ{k: kFloat}
	tUFloat  = &typ{k: kUntypedFlt}
	tBytes   = &typ{k: kBytes}
	tBools   = &typ{k: kBools}
	tError   = &typ{k: kError}
	tString  = &typ{k: kString}
	tNil     = &typ{k: kNil}
	tBuilder = &typ{k: kBuilder}
	tVoid    = &typ{k: kVoid}
)

func (t *typ) String() string {
	switch t.k {
	case kInt:
		return "int"
	case kU8:
		return "uint8"
	case kU16:
		return "uint16"
	case kU32:
		return "uint32"
	case kU64:
		return "uint64"
	case kI8:
		return "int8"
	case kI16:
		return "int16"
	case kI32:
		return "int32"
	case kI64:
		return "int64"
	case kF32:
		return "float32"
	case kBool:
		return "bool"
	case kUntypedInt:
		return "untyped int"
	case kFloat:
		return "float64"
	case kUntypedFlt:
		return "untyped float"
	case kBytes:
		return "[]byte"
	case kBools:
		return "[]bool"
	case kArray:
		return fmt.Sprintf("[%d]byte", t.n)
	case kStruct:
		return t.name
	case kPtr:
		return "*" + t.elem.String()
	case kError:
		return "error"
	case kString:
		return "string"
	case kBuilder:
		return "*strings.Builder"
	case kList:
		return "[]" + t.elem.String()
	case kAny:
		return "interface{}"
	case kIface:
		return t.name
	case kNil:
		return "nil"
	}
	return "void"
}

func (t *typ) isUint() bool { return t.k == kU8 || t.k == kU16 || t.k == kU32 || t.k == kU64 }
func (t *typ) isSint() bool { return t.k == kI8 || t.k == kI16 || t.k == kI32 || t.k == kI64 }

// bits gives the width of a sized integer type.
func (t *typ) bits() int {
	switch t.k {
	case kU8, kI8:
		return 8
	case kU16, kI16:
		return 16
	case kU32, kI32:
		return 32
	case kU64, kI64:
		return 64
	}
	return 0
}
func (t *typ) isNum() bool { return t.k == kInt || t.isUint() || t.isSint() || t.k == kUntypedInt }
func sameType(a, b *typ) bool {
	if a.k != b.k {
		return false
	}
	switch a.k {
	case kStruct, kIface:
		return a.name == b.name
	case kPtr, kList:
		return sameType(a.elem, b.elem)
	case kArray:
		return a.n == b.n
	}
	return true
}

type field struct {
	name     string
	typ      *typ
	embedded bool
}

type structDecl struct {
	name   string
	fields []*field
}

type constDecl struct {
	name  string
	typ   *typ // tUntyped for untyped constants
	val   constant.Value
	where string // "" = package level, else the enclosing function
	file  string
}

type funcDecl struct {
	pkgName string // the package clause of its file
	foreign *pkg   // the function belongs to an imported package (translated by that package's translator)
	name    string // "F" or "Recv.M"
	recv    string // receiver struct name ("" for functions)
	decl    *ast.FuncDecl
	file    string
}

type pkg struct {
	fset    *token.FileSet
	files   []*ast.File
	structs map[string]*structDecl
	named   map[string]*typ // named non-struct types (ErrCode, LooksLikeType) -> underlying
	ifaces  map[string]bool
	consts  map[string]*constDecl
	constL  []*constDecl // in source order
	vars    map[string]*ast.ValueSpec
	funcs   map[string]*funcDecl
	funcL   []*funcDecl
	// names assigned to anywhere in the package (to check that a package-level array that is
	// unrolled is never written)
	assigned map[string]bool
	// "S.F" for a []byte field F of struct S that some method of S compares with nil / indexes or
	// re-slices (through its receiver): such a field gets a companion bool "is nil" / is a GoSem.slice
	nilCompared map[string]bool
	sliceFields map[string]bool
	// names of imported packages whose declarations were merged into this one (importPkg)
	imported map[string]bool
}

func loadPkg(dir string) (*pkg, error) {
	p := &pkg{fset: token.NewFileSet(), structs: map[string]*structDecl{}, named: map[string]*typ{},
		ifaces: map[string]bool{}, consts: map[string]*constDecl{}, vars: map[string]*ast.ValueSpec{},
		funcs: map[string]*funcDecl{}, assigned: map[string]bool{}, nilCompared: map[string]bool{}, sliceFields: map[string]bool{}}
	ents, err := os.ReadDir(dir)
	if err != nil {
		return nil, err
	}
	var names []string
	for _, e := range ents {
		n := e.Name()
		if strings.HasSuffix(n, ".go") && !strings.HasSuffix(n, "_test.go") {
			names = append(names, n)
		}
	}
	sort.Strings(names)
	for _, n := range names {
		f, err := parser.ParseFile(p.fset, filepath.Join(dir, n), nil, parser.SkipObjectResolution)
		if err != nil {
			return nil, err
		}
		p.files = append(p.files, f)
	}
	// pass 1: types
	for _, f := range p.files {
		for _, d := range f.Decls {
			gd, ok := d.(*ast.GenDecl)
			if !ok || gd.Tok != token.TYPE {
				continue
			}
			for _, s := range gd.Specs {
				ts := s.(*ast.TypeSpec)
				switch tt := ts.Type.(type) {
				case *ast.StructType:
					p.structs[ts.Name.Name] = &structDecl{name: ts.Name.Name}
					_ = tt
				case *ast.InterfaceType:
					p.ifaces[ts.Name.Name] = true
				}
			}
		}
	}
	for _, f := range p.files {
		for _, d := range f.Decls {
			gd, ok := d.(*ast.GenDecl)
			if !ok || gd.Tok != token.TYPE {
				continue
			}
			for _, s := range gd.Specs {
				ts := s.(*ast.TypeSpec)
				switch tt := ts.Type.(type) {
				case *ast.StructType:
					sd := p.structs[ts.Name.Name]
					for _, fl := range tt.Fields.List {
						ft := p.typeOfExprSafe(fl.Type)
						if len(fl.Names) == 0 {
							sd.fields = append(sd.fields, &field{name: ft.name, typ: ft, embedded: true})
						}
						for _, nm := range fl.Names {
							sd.fields = append(sd.fields, &field{name: nm.Name, typ: ft})
						}
					}
				case *ast.InterfaceType:
				default:
					p.named[ts.Name.Name] = p.typeOfExprSafe(ts.Type)
				}
			}
		}
	}
	// pass 2: functions, vars, constants (constants in source order; they only refer backwards
	// or to other blocks, so iterate to a fixpoint)
	for _, f := range p.files {
		fname := filepath.Base(p.fset.Position(f.Pos()).Filename)
		for _, d := range f.Decls {
			switch dd := d.(type) {
			case *ast.FuncDecl:
				fd := &funcDecl{name: dd.Name.Name, decl: dd, file: fname, pkgName: f.Name.Name}
				if dd.Recv != nil && len(dd.Recv.List) == 1 {
					rt := dd.Recv.List[0].Type
					if st, ok := rt.(*ast.StarExpr); ok {
						rt = st.X
					}
					if id, ok := rt.(*ast.Ident); ok {
						fd.recv = id.Name
						fd.name = id.Name + "." + dd.Name.Name
					}
				}
				p.funcs[fd.name] = fd
				p.funcL = append(p.funcL, fd)
				ast.Inspect(dd, func(n ast.Node) bool {
					switch a := n.(type) {
					case *ast.AssignStmt:
						for _, l := range a.Lhs {
							p.noteAssigned(l)
						}
					case *ast.IncDecStmt:
						p.noteAssigned(a.X)
					case *ast.UnaryExpr:
						if a.Op == token.AND {
							p.noteAssigned(a.X)
						}
					}
					return true
				})
			case *ast.GenDecl:
				if dd.Tok == token.VAR {
					for _, s := range dd.Specs {
						vs := s.(*ast.ValueSpec)
						for _, nm := range vs.Names {
							p.vars[nm.Name] = vs
						}
					}
				}
			}
		}
	}
	p.scanReceiverFields()
	pending := true
	for round := 0; pending && round < 10; round++ {
		pending = false
		for _, f := range p.files {
			fname := filepath.Base(p.fset.Position(f.Pos()).Filename)
			for _, d := range f.Decls {
				if gd, ok := d.(*ast.GenDecl); ok && gd.Tok == token.CONST {
					if !p.constBlock(gd, "", fname) {
						pending = true
					}
				}
			}
		}
	}
	// function-local constants (named <func>.<const>)
	for _, fd := range p.funcL {
		if fd.decl.Body == nil {
			continue
		}
		ast.Inspect(fd.decl.Body, func(n ast.Node) bool {
			if ds, ok := n.(*ast.DeclStmt); ok {
				if gd, ok := ds.Decl.(*ast.GenDecl); ok && gd.Tok == token.CONST {
					p.constBlock(gd, fd.name, fd.file)
				}
			}
			return true
		})
	}
	return p, nil
}

// importPkg merges the declarations of an imported package q (under the import name alias) into p, so
// that alias.T, alias.C and methods of q's types resolve.  Name clashes are refused.
func (p *pkg) importPkg(alias string, q *pkg) error {
	if p.imported == nil {
		p.imported = map[string]bool{}
	}
	p.imported[alias] = true
	for n, s := range q.structs {
		if _, dup := p.structs[n]; dup {
			return fmt.Errorf("struct %s declared in both packages", n)
		}
		p.structs[n] = s
	}
	for n, t := range q.named {
		if _, dup := p.named[n]; dup {
			return fmt.Errorf("type %s declared in both packages", n)
		}
		p.named[n] = t
	}
	for n := range q.ifaces {
		p.ifaces[n] = true
	}
	for n, c := range q.consts {
		if c.where == "" {
			p.consts[alias+"."+n] = c
		}
	}
	for n, fd := range q.funcs {
		if _, dup := p.funcs[n]; dup {
			continue // a function of the same name here shadows nothing: calls are alias-qualified
		}
		c := *fd
		c.foreign = q
		p.funcs[n] = &c
	}
	for k, v := range q.sliceFields {
		p.sliceFields[k] = v
	}
	for k, v := range q.nilCompared {
		p.nilCompared[k] = v
	}
	// named types of p that refer to imported types were void on the first pass: resolve again
	for _, f := range p.files {
		for _, d := range f.Decls {
			gd, ok := d.(*ast.GenDecl)
			if !ok || gd.Tok != token.TYPE {
				continue
			}
			for _, s := range gd.Specs {
				ts := s.(*ast.TypeSpec)
				switch tt := ts.Type.(type) {
				case *ast.StructType:
					sd := p.structs[ts.Name.Name]
					sd.fields = nil
					for _, fl := range tt.Fields.List {
						ft := p.typeOfExprSafe(fl.Type)
						if len(fl.Names) == 0 {
							sd.fields = append(sd.fields, &field{name: ft.name, typ: ft, embedded: true})
						}
						for _, nm := range fl.Names {
							sd.fields = append(sd.fields, &field{name: nm.Name, typ: ft})
						}
					}
				case *ast.InterfaceType:
				default:
					p.named[ts.Name.Name] = p.typeOfExprSafe(ts.Type)
				}
			}
		}
	}
	return nil
}

// scanReceiverFields fills nilCompared and sliceFields.
func (p *pkg) scanReceiverFields() {
	for _, fd := range p.funcL {
		if fd.recv == "" || fd.decl.Body == nil || len(fd.decl.Recv.List[0].Names) != 1 {
			continue
		}
		rn := fd.decl.Recv.List[0].Names[0].Name
		// owner finds the struct that declares field fld, starting from the receiver type
		var owner func(sname, fld string) string
		owner = func(sname, fld string) string {
			sd := p.structs[sname]
			if sd == nil {
				return ""
			}
			for _, fl := range sd.fields {
				if fl.name == fld {
					return sname
				}
			}
			for _, fl := range sd.fields {
				if fl.embedded && fl.typ.k == kStruct {
					if o := owner(fl.typ.name, fld); o != "" {
						return o
					}
				}
			}
			return ""
		}
		recvField := func(e ast.Expr) string {
			se, ok := e.(*ast.SelectorExpr)
			if !ok {
				return ""
			}
			id, ok := se.X.(*ast.Ident)
			if !ok || id.Name != rn {
				return ""
			}
			if o := owner(fd.recv, se.Sel.Name); o != "" {
				return o + "." + se.Sel.Name
			}
			return ""
		}
		ast.Inspect(fd.decl.Body, func(n ast.Node) bool {
			switch x := n.(type) {
			case *ast.BinaryExpr:
				if x.Op == token.EQL || x.Op == token.NEQ {
					if id, ok := x.Y.(*ast.Ident); ok && id.Name == "nil" {
						if k := recvField(x.X); k != "" {
							p.nilCompared[k] = true
						}
					}
					if id, ok := x.X.(*ast.Ident); ok && id.Name == "nil" {
						if k := recvField(x.Y); k != "" {
							p.nilCompared[k] = true
						}
					}
				}
			case *ast.IndexExpr:
				if k := recvField(x.X); k != "" {
					p.sliceFields[k] = true
				}
			case *ast.SliceExpr:
				if k := recvField(x.X); k != "" && !(x.Low == nil && x.High == nil) {
					p.sliceFields[k] = true
				}
			}
			return true
		})
	}
}

func (p *pkg) noteAssigned(e ast.Expr) {
	for {
		switch x := e.(type) {
		case *ast.Ident:
			p.assigned[x.Name] = true
			return
		case *ast.IndexExpr:
			e = x.X
		case *ast.SliceExpr:
			e = x.X
		case *ast.SelectorExpr:
			e = x.X
		case *ast.ParenExpr:
			e = x.X
		case *ast.StarExpr:
			e = x.X
		default:
			return
		}
	}
}

// constBlock evaluates one const(...) block; false if something in it refers to a constant that is
// not known yet.
func (p *pkg) constBlock(gd *ast.GenDecl, where, file string) (ok bool) {
	ok = true
	var lastT ast.Expr
	var lastV []ast.Expr
	for i, s := range gd.Specs {
		vs := s.(*ast.ValueSpec)
		if len(vs.Values) > 0 {
			lastT, lastV = vs.Type, vs.Values
		}
		for j, nm := range vs.Names {
			key := nm.Name
			if where != "" {
				key = where + "." + nm.Name
			}
			if _, done := p.consts[key]; done {
				continue
			}
			if j >= len(lastV) {
				ok = false
				continue
			}
			func() {
				defer func() {
					if r := recover(); r != nil {
						if _, isU := r.(untranslatable); isU {
							ok = false
							return
						}
						panic(r)
					}
				}()
				t, v := p.constExpr(lastV[j], int64(i), where)
				if lastT != nil {
					t = p.typeOfExpr(lastT)
				}
				if v.Kind() != constant.Int {
					return // strings, floats: not mirrored
				}
				cd := &constDecl{name: nm.Name, typ: t, val: v, where: where, file: file}
				p.consts[key] = cd
				p.constL = append(p.constL, cd)
			}()
		}
	}
	return ok
}

// constExpr evaluates a constant expression (integers only).
func (p *pkg) constExpr(e ast.Expr, iota int64, where string) (*typ, constant.Value) {
	switch x := e.(type) {
	case *ast.BasicLit:
		switch x.Kind {
		case token.INT:
			return tUntyped, constant.MakeFromLiteral(x.Value, x.Kind, 0)
		case token.STRING, token.FLOAT, token.CHAR:
			return tString, constant.MakeFromLiteral(x.Value, x.Kind, 0)
		}
	case *ast.ParenExpr:
		return p.constExpr(x.X, iota, where)
	case *ast.Ident:
		if x.Name == "iota" {
			return tUntyped, constant.MakeInt64(iota)
		}
		if where != "" {
			if c, ok := p.consts[where+"."+x.Name]; ok {
				return c.typ, c.val
			}
		}
		if c, ok := p.consts[x.Name]; ok {
			return c.typ, c.val
		}
	case *ast.CallExpr:
		if len(x.Args) == 1 {
			if t := p.typeOfExprOpt(x.Fun); t != nil && t.isNum() {
				_, v := p.constExpr(x.Args[0], iota, where)
				return t, v
			}
		}
	case *ast.BinaryExpr:
		ta, a := p.constExpr(x.X, iota, where)
		tb, b := p.constExpr(x.Y, iota, where)
		t := ta
		if t.k == kUntypedInt {
			t = tb
		}
		if a.Kind() == constant.Int && b.Kind() == constant.Int {
			switch x.Op {
			case token.ADD, token.SUB, token.MUL, token.AND, token.OR, token.XOR:
				return t, constant.BinaryOp(a, x.Op, b)
			case token.QUO:
				if constant.Sign(b) != 0 {
					return t, constant.BinaryOp(a, token.QUO_ASSIGN, b)
				}
			case token.REM:
				if constant.Sign(b) != 0 {
					return t, constant.BinaryOp(a, token.REM, b)
				}
			case token.SHL, token.SHR:
				if n, ok := constant.Uint64Val(b); ok && n < 64 {
					return ta, constant.Shift(a, x.Op, uint(n))
				}
			}
		}
	}
	p.bad(e, "not a constant integer expression")
	return nil, nil
}

// typeOfExpr maps a Go type expression to the type language.
func (p *pkg) typeOfExpr(e ast.Expr) *typ {
	t := p.typeOfExprOpt(e)
	if t == nil {
		p.bad(e, "type outside the fragment")
	}
	return t
}

// typeOfExprSafe is used for struct fields: a field of a type outside the fragment is recorded as
// void and only matters if a translated function touches it.
func (p *pkg) typeOfExprSafe(e ast.Expr) *typ {
	if t := p.typeOfExprOpt(e); t != nil {
		return t
	}
	return tVoid
}

func (p *pkg) typeOfExprOpt(e ast.Expr) *typ {
	switch x := e.(type) {
	case *ast.Ident:
		switch x.Name {
		case "int":
			return tInt
		case "uint8", "byte":
			return tU8
		case "uint16":
			return tU16
		case "uint32":
			return tU32
		case "uint64":
			return tU64
		case "int8":
			return tI8
		case "int16":
			return tI16
		case "int32":
			return tI32
		case "int64":
			return tI64
		case "float32":
			return tF32
		case "bool":
			return tBool
		case "string":
			return tString
		case "error":
			return tError
		case "float64":
			return tFloat
		}
		if _, ok := p.structs[x.Name]; ok {
			return &typ{k: kStruct, name: x.Name}
		}
		if p.ifaces[x.Name] {
			return &typ{k: kIface, name: x.Name}
		}
		if t, ok := p.named[x.Name]; ok {
			if t.k == kList {
				c := *t
				c.name = x.Name // methods are found by the declared name
				return &c
			}
			return t
		}
	case *ast.StarExpr:
		if t := p.typeOfExprOpt(x.X); t != nil {
			return &typ{k: kPtr, elem: t}
		}
	case *ast.ArrayType:
		et := p.typeOfExprOpt(x.Elt)
		if et == nil {
			return nil
		}
		if x.Len == nil {
			if et.k == kU8 {
				return tBytes
			}
			if et.k == kBool {
				return tBools
			}
			if et.k == kStruct {
				return &typ{k: kList, elem: et}
			}
			return nil
		}
		if et.k == kU8 {
			_, v := p.constExpr(x.Len, 0, "")
			if n, ok := constant.Int64Val(v); ok {
				return &typ{k: kArray, n: int(n)}
			}
		}
	case *ast.ParenExpr:
		return p.typeOfExprOpt(x.X)
	case *ast.InterfaceType:
		if x.Methods == nil || len(x.Methods.List) == 0 {
			return &typ{k: kAny}
		}
	case *ast.SelectorExpr:
		// pkg.T for an imported package whose declarations were merged in (importPkg)
		if id, ok := x.X.(*ast.Ident); ok && p.imported[id.Name] {
			return p.typeOfExprOpt(x.Sel)
		}
	}
	return nil
}

// flatFields lists the fields of a struct with embedded structs expanded, in declaration order.
func (p *pkg) flatFields(name string) []*field {
	var out []*field
	sd := p.structs[name]
	if sd == nil {
		return nil
	}
	for _, f := range sd.fields {
		if f.embedded && f.typ.k == kStruct {
			out = append(out, p.flatFields(f.typ.name)...)
		} else {
			out = append(out, f)
		}
	}
	return out
}

// findMethod resolves a method on a struct, following embedded structs (depth first, as Go does
// for this code base: no ambiguity arises, which is checked).
func (p *pkg) findMethod(recv, m string) *funcDecl {
	if fd, ok := p.funcs[recv+"."+m]; ok {
		return fd
	}
	sd := p.structs[recv]
	if sd == nil {
		return nil
	}
	var found *funcDecl
	for _, f := range sd.fields {
		if f.embedded && f.typ.k == kStruct {
			if fd := p.findMethod(f.typ.name, m); fd != nil {
				if found != nil {
					return nil // ambiguous selector: does not compile in Go
				}
				found = fd
			}
		}
	}
	return found
}
