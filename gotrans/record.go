package main

// Structs held as records of the model (tables.go: recordTable), lists of them, strings as byte
// lists: the value-level fragment needed for builder.go / splitter.go (stage 6).
//
//   x.F                      (proj_F x)
//   T{F: a, G: b}            Build_T a b            (missing fields: zero values)
//   x.F = e  (x local)       let x' := Build_T (proj_1 x) .. e .. (proj_n x) in
//   []T{a, b} / Fields{f}    [a; b]
//   make([]T, 0)             []
//   append(l, x) / append(l, m...)     l ++ [x] / l ++ m      (the result is a new list: sharing of the
//                                       backing array between the old and the new slice is not represented)
//   l[i] / l[i] = v / len(l)           lget / lset / llen
//   min(a, b) on unsigned              N.min a b
//   s == "" for a string s             (llen s =? 0)

import (
	"fmt"
	"go/ast"
	"go/constant"
	"go/token"
	"strings"
)

func structName(t *typ) string {
	if t == nil {
		return ""
	}
	if t.k == kPtr && t.elem != nil {
		return structName(t.elem)
	}
	if t.k == kStruct {
		return t.name
	}
	return ""
}

func recordOf(t *typ) (record, bool) {
	r, ok := recordTable[structName(t)]
	return r, ok
}

func (f *ftrans) goFieldType(sname, fname string, at ast.Node) *typ {
	sd := f.p.structs[sname]
	if sd != nil {
		for _, fl := range sd.fields {
			if fl.name == fname {
				return fl.typ
			}
		}
	}
	f.p.bad(at, "no field %s in %s", fname, sname)
	return nil
}

// recCheck: every Go field of the struct is accounted for by the table.
func (f *ftrans) recCheck(sname string, r record, at ast.Node) {
	known := map[string]bool{}
	for _, rf := range r.fields {
		known[rf.goName] = true
	}
	for _, z := range r.zero {
		known[z] = true
	}
	for _, fl := range f.p.structs[sname].fields {
		if !known[fl.name] {
			f.p.bad(at, "record table: field %s.%s is not mapped", sname, fl.name)
		}
	}
}

func (f *ftrans) recProj(base *val, fname string, at ast.Node) *val {
	sname := structName(base.t)
	r := recordTable[sname]
	f.recCheck(sname, r, at)
	for _, o := range r.opaque {
		if o == fname {
			f.p.bad(at, "field %s.%s is carried in another form by the model (opaque)", sname, fname)
		}
	}
	for _, z := range r.zero {
		if z == fname {
			return f.zeroR(f.goFieldType(sname, fname, at), at)
		}
	}
	for _, rf := range r.fields {
		if rf.goName == fname {
			t := f.goFieldType(sname, fname, at)
			return &val{t: t, term: fmt.Sprintf("(%s %s)", rf.proj, atom(base.term))}
		}
	}
	f.p.bad(at, "no field %s in record %s", fname, sname)
	return nil
}

// zeroR: zero values in the record world (strings and lists have terms here).
func (f *ftrans) zeroR(t *typ, at ast.Node) *val {
	switch t.k {
	case kString:
		return &val{t: t, term: "[]", cv: constant.MakeInt64(0)}
	case kList:
		return &val{t: t, term: "[]"}
	case kStruct:
		if r, ok := recordOf(t); ok {
			return f.recBuild(t, r, map[string]*val{}, at)
		}
	}
	return f.zero(t)
}

func (f *ftrans) recBuild(t *typ, r record, given map[string]*val, at ast.Node) *val {
	sname := structName(t)
	f.recCheck(sname, r, at)
	var args []string
	for _, rf := range r.fields {
		v, ok := given[rf.goName]
		if !ok {
			opaque := false
			for _, o := range r.opaque {
				if o == rf.goName {
					opaque = true
				}
			}
			if opaque {
				f.p.bad(at, "a %s is built here but its field %s is carried in another form by the model", sname, rf.goName)
			}
			v = f.zeroR(f.goFieldType(sname, rf.goName, at), at)
		}
		if v.term == "" {
			f.p.bad(at, "field %s.%s has no term", sname, rf.goName)
		}
		args = append(args, atom(v.term))
	}
	for _, z := range r.zero {
		if v, ok := given[z]; ok {
			if v.cv == nil || constant.Sign(v.cv) != 0 {
				if v.term != "false" {
					f.p.bad(at, "record table: field %s.%s has no counterpart in the model and must keep its zero value", sname, z)
				}
			}
		}
	}
	for k := range given {
		found := false
		for _, rf := range r.fields {
			if rf.goName == k {
				found = true
			}
		}
		for _, z := range r.zero {
			if z == k {
				found = true
			}
		}
		if !found {
			f.p.bad(at, "no field %s in record %s", k, sname)
		}
	}
	st := t
	if st.k == kPtr {
		st = st.elem
	}
	return &val{t: st, term: r.ctor + " " + strings.Join(args, " ")}
}

// recUpdate: the record x with field fname replaced by v.
func (f *ftrans) recUpdate(base *val, fname string, v *val, at ast.Node) *val {
	sname := structName(base.t)
	r := recordTable[sname]
	for _, z := range r.zero {
		if z == fname {
			f.p.bad(at, "record table: field %s.%s has no counterpart in the model and must keep its zero value", sname, z)
		}
	}
	given := map[string]*val{}
	hit := false
	for _, rf := range r.fields {
		if rf.goName == fname {
			ft := f.goFieldType(sname, fname, at)
			if v.t.k == kUntypedInt {
				v = f.conv(v, ft, at)
			} else if !sameType(v.t, ft) {
				f.p.bad(at, "field %s.%s of type %s assigned a %s", sname, fname, ft, v.t)
			}
			given[fname] = v
			hit = true
			continue
		}
		opaque := false
		for _, o := range r.opaque {
			if o == rf.goName {
				opaque = true
			}
		}
		if opaque {
			// copied unchanged: the projection is fine, only uses of its content are excluded
			given[rf.goName] = &val{t: tVoid, term: fmt.Sprintf("(%s %s)", rf.proj, atom(base.term))}
			continue
		}
		given[rf.goName] = &val{t: f.goFieldType(sname, rf.goName, at), term: fmt.Sprintf("(%s %s)", rf.proj, atom(base.term))}
	}
	if !hit {
		f.p.bad(at, "no field %s in record %s", fname, sname)
	}
	return f.recBuild(base.t, r, given, at)
}

// recordLiteral: T{F: a, ...}
func (f *ftrans) recordLiteral(x *ast.CompositeLit, t *typ, r record) *val {
	given := map[string]*val{}
	sname := structName(t)
	for _, el := range x.Elts {
		kv, ok := el.(*ast.KeyValueExpr)
		if !ok {
			f.p.bad(x, "positional struct literal")
		}
		key := kv.Key.(*ast.Ident).Name
		ft := f.goFieldType(sname, key, kv)
		v := f.expr(kv.Value)
		switch {
		case v.t.k == kUntypedInt:
			v = f.conv(v, ft, kv.Value)
		case v.t.k == kNil:
			v = f.zeroR(ft, kv)
		case !sameType(v.t, ft):
			f.p.bad(kv, "field %s.%s of type %s given a %s", sname, key, ft, v.t)
		}
		given[key] = v
	}
	return f.recBuild(t, r, given, x)
}

// listLiteral: []T{a, b} / Fields{f}
func (f *ftrans) listLiteral(x *ast.CompositeLit, t *typ) *val {
	var els []string
	for _, el := range x.Elts {
		if _, isKV := el.(*ast.KeyValueExpr); isKV {
			f.p.bad(x, "keyed slice literal")
		}
		v := f.expr(el)
		if !sameType(v.t, t.elem) && !(v.t.k == kPtr && sameType(v.t.elem, t.elem)) {
			f.p.bad(el, "element of type %s in a %s", v.t, t)
		}
		if v.term == "" {
			f.p.bad(el, "element without a term")
		}
		els = append(els, v.term)
	}
	return &val{t: t, term: "[" + strings.Join(els, "; ") + "]"}
}

// appendCall: append(l, x, y) / append(l, m...)
func (f *ftrans) appendCall(x *ast.CallExpr) *val {
	if len(x.Args) < 1 {
		f.p.bad(x, "append")
	}
	l := f.expr(x.Args[0])
	if l.t.k != kList || l.term == "" {
		f.p.bad(x, "append to a %s (only lists of records are in the fragment)", l.t)
	}
	if x.Ellipsis != token.NoPos {
		if len(x.Args) != 2 {
			f.p.bad(x, "append with ...")
		}
		m := f.expr(x.Args[1])
		if m.t.k != kList || !sameType(m.t.elem, l.t.elem) || m.term == "" {
			f.p.bad(x, "append of a %s to a %s", m.t, l.t)
		}
		return &val{t: l.t, term: fmt.Sprintf("(%s ++ %s)", atom(l.term), atom(m.term))}
	}
	var els []string
	for _, a := range x.Args[1:] {
		v := f.expr(a)
		if !sameType(v.t, l.t.elem) || v.term == "" {
			f.p.bad(a, "append of a %s to a %s", v.t, l.t)
		}
		els = append(els, v.term)
	}
	return &val{t: l.t, term: fmt.Sprintf("(%s ++ [%s])", atom(l.term), strings.Join(els, "; "))}
}

// minMax: the builtins min / max on unsigned values
func (f *ftrans) minMax(x *ast.CallExpr, name string) *val {
	if len(x.Args) != 2 {
		f.p.bad(x, "%s with %d arguments", name, len(x.Args))
	}
	a, b := f.expr(x.Args[0]), f.expr(x.Args[1])
	if a.t.k == kUntypedInt && b.t.k != kUntypedInt {
		a = f.conv(a, b.t, x.Args[0])
	} else if b.t.k == kUntypedInt && a.t.k != kUntypedInt {
		b = f.conv(b, a.t, x.Args[1])
	}
	if !sameType(a.t, b.t) || !a.t.isUint() {
		f.p.bad(x, "%s of %s and %s (only unsigned values are in the fragment)", name, a.t, b.t)
	}
	return &val{t: a.t, term: fmt.Sprintf("(N.%s %s %s)", name, atom(a.term), atom(b.term))}
}

// sortIdiom: sort.Sort(S(x)) where S is a named slice type whose Less is `return a[i].F < a[j].F`:
// x becomes sort_by (fun a b => F a <? F b) x  (GenPrelude4; trusted: sort.Sort sorts by Less, and
// the keys are pairwise different so that the order is determined).
func (f *ftrans) sortIdiom(call *ast.CallExpr, at ast.Stmt, next func() code) code {
	if len(call.Args) != 1 {
		f.p.bad(at, "sort.Sort")
	}
	conv, ok := call.Args[0].(*ast.CallExpr)
	if !ok || len(conv.Args) != 1 {
		f.p.bad(at, "sort.Sort outside the idiom sort.Sort(S(x))")
	}
	sid, ok := conv.Fun.(*ast.Ident)
	if !ok {
		f.p.bad(at, "sort.Sort outside the idiom sort.Sort(S(x))")
	}
	st := f.p.typeOfExprOpt(sid)
	if st == nil || st.k != kList {
		f.p.bad(at, "sort.Sort of something that is not a list of records")
	}
	less := f.p.funcs[sid.Name+".Less"]
	if less == nil || less.decl.Body == nil || len(less.decl.Body.List) != 1 {
		f.p.bad(at, "%s.Less is not a single return", sid.Name)
	}
	ret, ok := less.decl.Body.List[0].(*ast.ReturnStmt)
	if !ok || len(ret.Results) != 1 {
		f.p.bad(at, "%s.Less is not a single return", sid.Name)
	}
	cmp, ok := ret.Results[0].(*ast.BinaryExpr)
	if !ok || cmp.Op != token.LSS {
		f.p.bad(at, "%s.Less is not of the form a[i].F < a[j].F", sid.Name)
	}
	// receiver and parameter names
	rn := less.decl.Recv.List[0].Names[0].Name
	var pn []string
	for _, fl := range less.decl.Type.Params.List {
		for _, nm := range fl.Names {
			pn = append(pn, nm.Name)
		}
	}
	if len(pn) != 2 {
		f.p.bad(at, "%s.Less parameters", sid.Name)
	}
	side := func(e ast.Expr, idx string) string {
		se, ok := e.(*ast.SelectorExpr)
		if !ok {
			f.p.bad(at, "%s.Less is not of the form a[i].F < a[j].F", sid.Name)
		}
		ix, ok := se.X.(*ast.IndexExpr)
		if !ok {
			f.p.bad(at, "%s.Less is not of the form a[i].F < a[j].F", sid.Name)
		}
		a, ok1 := ix.X.(*ast.Ident)
		i, ok2 := ix.Index.(*ast.Ident)
		if !ok1 || !ok2 || a.Name != rn || i.Name != idx {
			f.p.bad(at, "%s.Less is not of the form a[i].F < a[j].F", sid.Name)
		}
		return se.Sel.Name
	}
	f1, f2 := side(cmp.X, pn[0]), side(cmp.Y, pn[1])
	if f1 != f2 {
		f.p.bad(at, "%s.Less compares different fields", sid.Name)
	}
	pa := f.recProj(&val{t: st.elem, term: "a"}, f1, at)
	pb := f.recProj(&val{t: st.elem, term: "b"}, f1, at)
	if !pa.t.isUint() {
		f.p.bad(at, "%s.Less compares a field of type %s", sid.Name, pa.t)
	}
	cur := f.expr(conv.Args[0])
	if cur.t.k != kList || cur.term == "" {
		f.p.bad(at, "sort.Sort of a %s", cur.t)
	}
	sorted := &val{t: cur.t, term: fmt.Sprintf("sort_by (fun a b => %s <? %s) %s", pa.term, pb.term, atom(cur.term))}
	return f.storeInto(conv.Args[0], sorted, at, next)
}

// storeInto performs `target = v` for target = x or x.F (x a local record variable).
func (f *ftrans) storeInto(target ast.Expr, v *val, at ast.Stmt, next func() code) code {
	switch t := target.(type) {
	case *ast.Ident:
		old, ok := f.env.lookup(t.Name)
		if !ok {
			f.p.bad(at, "assignment to unknown variable %s", t.Name)
		}
		bs := f.takeBinds()
		name := f.fresh(t.Name)
		f.env.set(t.Name, &val{t: old.t, term: name})
		return wrapBinds(bs, cLet{pat: name, rhs: v.term, body: next()})
	case *ast.SelectorExpr:
		id, ok := t.X.(*ast.Ident)
		if !ok {
			f.p.bad(at, "assignment target")
		}
		base, ok := f.env.lookup(id.Name)
		if !ok {
			f.p.bad(at, "assignment to unknown variable %s", id.Name)
		}
		if _, isRec := recordOf(base.t); !isRec || base.term == "" {
			f.p.bad(at, "field assignment on %s, which is not a record variable", id.Name)
		}
		nv := f.recUpdate(base, t.Sel.Name, v, at)
		bs := f.takeBinds()
		name := f.fresh(id.Name)
		f.env.set(id.Name, &val{t: base.t, term: name})
		return wrapBinds(bs, cLet{pat: name, rhs: nv.term, body: next()})
	}
	f.p.bad(at, "assignment target %T", target)
	return nil
}

// findFirst: for i, x := range l { if cond { return v } }; rest    in a pure function:
//
//	match find_first (fun i x => if cond then Some v else None) l with Some r => r | None => rest end
func (f *ftrans) findFirst(x *ast.RangeStmt, next func() code) code {
	if f.sig.shape != "pure" {
		f.p.bad(x, "return inside a range loop in a function that is not pure")
	}
	if len(x.Body.List) != 1 {
		f.p.bad(x, "range loop with return outside the form `for i, x := range l { if c { return v } }`")
	}
	ifs, ok := x.Body.List[0].(*ast.IfStmt)
	if !ok || ifs.Init != nil || ifs.Else != nil || len(ifs.Body.List) != 1 {
		f.p.bad(x, "range loop with return outside the form `for i, x := range l { if c { return v } }`")
	}
	ret, ok := ifs.Body.List[0].(*ast.ReturnStmt)
	if !ok || len(ret.Results) != 1 {
		f.p.bad(x, "range loop with return outside the form `for i, x := range l { if c { return v } }`")
	}
	l := f.expr(x.X)
	if l.t.k != kList || l.term == "" {
		f.p.bad(x, "range over a %s", l.t)
	}
	if len(f.binds) != 0 {
		f.p.bad(x, "range expression that can panic")
	}
	in, en := "_", "_"
	inner := newEnv(f.env.snapshot())
	if k, ok := x.Key.(*ast.Ident); ok && k.Name != "_" {
		in = f.fresh(k.Name)
		inner.vars[k.Name] = &val{t: tInt, term: in}
	}
	if v, ok := x.Value.(*ast.Ident); ok && v.Name != "_" {
		en = f.fresh(v.Name)
		inner.vars[v.Name] = &val{t: l.t.elem, term: en}
	}
	saved := f.env
	f.env = inner
	c := f.expr(ifs.Cond)
	f.conv(c, tBool, ifs.Cond)
	rv := f.expr(ret.Results[0])
	if rv.t.k == kUntypedInt {
		rv = f.conv(rv, f.sig.results[0], ret)
	} else if !sameType(rv.t, f.sig.results[0]) {
		f.p.bad(ret, "return of a %s from a function returning %s", rv.t, f.sig.results[0])
	}
	if len(f.binds) != 0 {
		f.p.bad(x, "loop body that can panic")
	}
	f.env = saved
	rest := next()
	return cMatchOpt{scrut: fmt.Sprintf("find_first (fun %s %s => if %s then Some %s else None) %s", in, en, c.term, atom(rv.term), atom(l.term)),
		pat: "r", some: cLeaf{"r"}, none: rest}
}
