package main

// Calls: conversions, builtins, encoding/binary, the recognised library idioms, calls of other
// functions of the package.

import (
	"fmt"
	"go/ast"
	"go/constant"
	"go/token"
	"strings"
)

func qualName(e ast.Expr) string {
	switch x := e.(type) {
	case *ast.Ident:
		return x.Name
	case *ast.SelectorExpr:
		if q := qualName(x.X); q != "" {
			return q + "." + x.Sel.Name
		}
	}
	return ""
}

func (f *ftrans) call(x *ast.CallExpr) *val {
	qn := qualName(x.Fun)
	// shadowed names are not library calls
	if id, ok := x.Fun.(*ast.Ident); ok {
		if _, local := f.env.lookup(id.Name); local {
			f.p.bad(x, "call of a local function value")
		}
	}
	// ---- conversions T(x)
	if t := f.p.typeOfExprOpt(x.Fun); t != nil && len(x.Args) == 1 && (t.isNum() || t.k == kFloat) {
		return f.conversion(x, t)
	}
	if t := f.p.typeOfExprOpt(x.Fun); t != nil && len(x.Args) == 1 && t.k == kList {
		v := f.expr(x.Args[0])
		if !sameType(v.t, t) {
			f.p.bad(x, "conversion from %s to %s", v.t, t)
		}
		return &val{t: t, term: v.term}
	}
	switch qn {
	case "len":
		v := f.expr(x.Args[0])
		switch {
		case v.t.k == kBytes && v.isSlice:
			return &val{t: tInt, term: "(zlen " + v.term + ")"}
		case v.t.k == kBytes || v.t.k == kBools:
			if v.isNil && v.term == "[]" {
				return &val{t: tInt, term: "0%Z"}
			}
			return &val{t: tInt, term: "(llen " + atom(v.term) + ")"}
		case v.elems != nil:
			return &val{t: tInt, term: fmt.Sprintf("%d%%Z", len(v.elems)), cv: constant.MakeInt64(int64(len(v.elems)))}
		case (v.t.k == kList || v.t.k == kString) && v.term != "":
			return &val{t: tInt, term: "(llen " + atom(v.term) + ")"}
		}
		f.p.bad(x, "len of a %s", v.t)
	case "append":
		return f.appendCall(x)
	case "min", "max":
		return f.minMax(x, qn)
	case "make":
		if mt := f.p.typeOfExprOpt(x.Args[0]); mt != nil && mt.k == kList && len(x.Args) >= 2 {
			// make([]T, 0[, cap]) for a list of records: the empty list (capacity is not represented)
			if n := f.peekConst(x.Args[1]); n == nil || constant.Sign(n) != 0 {
				f.p.bad(x, "make of a list of records with a non-zero length")
			}
			for _, a := range x.Args[2:] {
				f.pureArg(a)
			}
			return &val{t: mt, term: "[]"}
		}
		if len(x.Args) != 2 || f.p.typeOfExprOpt(x.Args[0]) != tBytes {
			f.p.bad(x, "make of something else than []byte with a length")
		}
		f.needMonadic(x, "make")
		n := f.expr(x.Args[1])
		return &val{t: tBytes, term: f.bind("zmake " + atom(f.toZ(n, x.Args[1]))), buf: true}
	case "binary.BigEndian.Uint16", "binary.LittleEndian.Uint16":
		v := f.expr(x.Args[0])
		if v.t.k != kBytes {
			f.p.bad(x, "Uint16 of a %s", v.t)
		}
		fn := "be16"
		if qn == "binary.LittleEndian.Uint16" {
			fn = "le16"
		}
		arg := v.term
		if v.isSlice {
			arg = "(vis " + v.term + ")"
		}
		if v.cv != nil && !v.isSlice {
			if n, ok := constant.Int64Val(v.cv); ok && n == 2 {
				// a re-slice of constant width 2: cannot panic, and Uint16 reads exactly these bytes
				return &val{t: tU16, term: fmt.Sprintf("(%s %s)", fn, atom(arg))}
			}
		}
		f.needMonadic(x, "Uint16 of a slice of unknown length")
		return &val{t: tU16, term: f.bind(fmt.Sprintf("z%s %s", fn, atom(arg)))}
	case "binary.BigEndian.Uint32", "binary.LittleEndian.Uint32", "binary.BigEndian.Uint64", "binary.LittleEndian.Uint64":
		v := f.expr(x.Args[0])
		if v.t.k != kBytes || v.isSlice {
			f.p.bad(x, "%s of a %s", qn, v.t)
		}
		fn, rt := "zbe32", tU32
		switch qn {
		case "binary.LittleEndian.Uint32":
			fn = "zle32"
		case "binary.BigEndian.Uint64":
			fn, rt = "zbe64", tU64
		case "binary.LittleEndian.Uint64":
			fn, rt = "zle64", tU64
		}
		f.needMonadic(x, qn)
		return &val{t: rt, term: f.bind(fmt.Sprintf("%s %s", fn, atom(v.term)))}
	case "math.Float32frombits", "math.Float64frombits":
		// carried as the bit pattern
		v := f.expr(x.Args[0])
		want, rt := tU32, tF32
		if qn == "math.Float64frombits" {
			want, rt = tU64, tFloat
		}
		if !sameType(v.t, want) {
			f.p.bad(x, "%s of a %s", qn, v.t)
		}
		return &val{t: rt, term: v.term}
	case "new":
		if len(x.Args) == 1 && qualName(x.Args[0]) == "strings.Builder" {
			return &val{t: tBuilder, term: "[]"}
		}
		f.p.bad(x, "new of something else than strings.Builder")
	case "errors.New", "fmt.Errorf":
		for _, a := range x.Args[1:] {
			f.pureArg(a)
		}
		return &val{t: tError, errTerm: "EPlain"}
	case "fmt.Sprintf":
		for _, a := range x.Args[1:] {
			f.pureArg(a)
		}
		return &val{t: tString, str: true}
	}
	// ---- builder.String()
	if sel, ok := x.Fun.(*ast.SelectorExpr); ok && sel.Sel.Name == "String" && len(x.Args) == 0 {
		if id, ok := sel.X.(*ast.Ident); ok {
			if bv, ok := f.env.lookup(id.Name); ok && bv.t.k == kBuilder {
				return &val{t: tString, term: bv.term}
			}
		}
	}
	// ---- functions and methods of the package
	if id, ok := x.Fun.(*ast.Ident); ok {
		if fd, ok := f.p.funcs[id.Name]; ok {
			return f.callFunc(x, fd, nil)
		}
	}
	if _, isSel := x.Fun.(*ast.SelectorExpr); isSel {
		if fd, recv := f.calleeOpt(x); fd != nil {
			return f.callFunc(x, fd, recv)
		}
	}
	f.p.bad(x, "call of %s", describe(x.Fun))
	return nil
}

func describe(e ast.Expr) string {
	if q := qualName(e); q != "" {
		return q
	}
	return fmt.Sprintf("%T", e)
}

// pureArg: the arguments of a dropped text (fmt.Errorf("...", x)) are still evaluated by Go; they
// must be translatable and free of panics, then they can be dropped.
func (f *ftrans) pureArg(a ast.Expr) {
	saved := f.binds
	f.binds = nil
	f.expr(a)
	if len(f.binds) != 0 {
		f.p.bad(a, "argument of a dropped text can panic")
	}
	f.binds = saved
}

// embeddedOf walks from a symbolic struct of type `from` to its embedded part of type `to`.
func (f *ftrans) embeddedOf(v *val, from, to string) *val {
	if from == to {
		return v
	}
	sd := f.p.structs[from]
	for _, fl := range sd.fields {
		if fl.embedded && fl.typ.k == kStruct {
			sub, ok := v.fields[fl.name]
			if !ok {
				sub = f.zero(fl.typ)
			}
			if sub.fields == nil {
				continue
			}
			if r := f.embeddedOf(sub, fl.typ.name, to); r != nil {
				return r
			}
		}
	}
	return nil
}

func (f *ftrans) conversion(x *ast.CallExpr, t *typ) *val {
	// the idiom int(math.Ceil(float64(a) / c))
	if t.k == kInt {
		if v := f.ceilIdiom(x); v != nil {
			return v
		}
	}
	if t.k == kFloat {
		f.p.bad(x, "float64 outside the idiom int(math.Ceil(float64(a) / c))")
	}
	v := f.expr(x.Args[0])
	if v.t.k == kUntypedInt {
		return f.conv(v, t, x)
	}
	A := atom(v.term)
	switch {
	case t.k == kInt:
		switch {
		case v.t.k == kInt || v.t.isSint():
			return &val{t: tInt, term: v.term}
		case v.t.isUint():
			return &val{t: tInt, term: "(Z.of_N " + A + ")"}
		}
	case t.isUint():
		switch {
		case v.t.isUint() && v.t.bits() <= t.bits():
			return &val{t: t, term: v.term, cv: v.cv} // widening
		case v.t.isUint():
			return &val{t: t, term: fmt.Sprintf("(u%d %s)", t.bits(), A)} // truncation
		case v.t.k == kInt || v.t.isSint():
			return &val{t: t, term: fmt.Sprintf("(u%d_of_Z %s)", t.bits(), A)}
		}
	case t.isSint():
		switch {
		case v.t.isUint() && v.t.bits() < t.bits():
			return &val{t: t, term: "(Z.of_N " + A + ")"} // fits
		case v.t.isUint():
			return &val{t: t, term: fmt.Sprintf("(sint %d (Z.of_N %s))", t.bits(), A)}
		case v.t.isSint() && v.t.bits() <= t.bits():
			return &val{t: t, term: v.term}
		case v.t.k == kInt || v.t.isSint():
			return &val{t: t, term: fmt.Sprintf("(sint %d %s)", t.bits(), A)}
		}
	}
	f.p.bad(x, "conversion from %s to %s", v.t, t)
	return nil
}

// ceilIdiom recognises int(math.Ceil(float64(a) / c)) with a of an unsigned integer type and c a
// constant power of two (so that every step is exact in float64) and writes it as ceil_div a c.
func (f *ftrans) ceilIdiom(x *ast.CallExpr) *val {
	c1, ok := x.Args[0].(*ast.CallExpr)
	if !ok || qualName(c1.Fun) != "math.Ceil" || len(c1.Args) != 1 {
		return nil
	}
	div, ok := c1.Args[0].(*ast.BinaryExpr)
	if !ok || div.Op != token.QUO {
		f.p.bad(x, "math.Ceil outside the idiom int(math.Ceil(float64(a) / c))")
	}
	c2, ok := div.X.(*ast.CallExpr)
	if !ok || qualName(c2.Fun) != "float64" || len(c2.Args) != 1 {
		f.p.bad(x, "math.Ceil outside the idiom int(math.Ceil(float64(a) / c))")
	}
	a := f.expr(c2.Args[0])
	if !a.t.isUint() {
		f.p.bad(x, "ceil idiom: operand of type %s", a.t)
	}
	d := f.peekConst(div.Y)
	if d == nil {
		f.p.bad(x, "ceil idiom: divisor is not an integer constant")
	}
	n, ok := constant.Int64Val(d)
	if !ok || n <= 0 || n > 1024 || n&(n-1) != 0 {
		f.p.bad(x, "ceil idiom: divisor must be a power of two <= 1024")
	}
	return &val{t: tInt, term: fmt.Sprintf("(ceil_div (Z.of_N %s) %d%%Z)", atom(a.term), n)}
}

// callFunc: a call of a function / method of the package inside an expression.
func (f *ftrans) callFunc(x *ast.CallExpr, fd *funcDecl, recv *val) *val {
	// (1) constructor-like helpers are inlined symbolically: body = `return <composite literal>`
	if lit := simpleCtorBody(fd); lit != nil && recv == nil {
		return f.inlineCtor(x, fd, lit)
	}
	// (2) a translated function
	sig := f.tr.translate(fd, "full")
	if sig.untranslated != "" {
		f.p.bad(x, "calls %s, which is untranslated", fd.name)
	}
	if sig.shape == "mut" {
		return f.callMut(x, fd, sig, recv)
	}
	args := f.callArgs(x, sig, recv)
	app := sig.coqName
	if len(args) > 0 {
		app += " " + strings.Join(args, " ")
	}
	switch sig.shape {
	case "pure":
		return f.resultVal(sig, "("+app+")")
	case "resv":
		f.needMonadic(x, "a call that can panic")
		return f.resultVal(sig, f.bind(app))
	}
	f.p.bad(x, "call of %s (returns an error) outside the recognised idioms", fd.name)
	return nil
}

func (f *ftrans) resultVal(sig *fsig, term string) *val {
	t := sig.results[0]
	return &val{t: t, term: term}
}

func (f *ftrans) callArgs(x *ast.CallExpr, sig *fsig, recv *val) []string {
	var args []string
	if recv != nil {
		args = append(args, f.flatLeaves(recv, x)...)
	}
	if len(x.Args) != len(sig.params) {
		f.p.bad(x, "argument count")
	}
	for i, a := range x.Args {
		v := f.expr(a)
		pr := sig.params[i]
		if v.t.k == kUntypedInt {
			v = f.conv(v, pr.t, a)
		}
		if !sameType(v.t, pr.t) {
			f.p.bad(a, "argument %d: have %s, want %s", i, v.t, pr.t)
		}
		switch {
		case pr.isSlice && !v.isSlice:
			f.p.bad(a, "a re-slice is passed to a function that indexes its parameter (spare capacity would be lost)")
		case !pr.isSlice && v.isSlice:
			args = append(args, "(vis "+v.term+")")
		default:
			args = append(args, atom(v.term))
		}
	}
	return args
}

// flatLeaves lists the terms of the leaves of a symbolic struct value, in the order in which
// recvValue declares the parameters of a method of that struct.
func (f *ftrans) flatLeaves(v *val, at ast.Node) []string {
	if v.fields == nil && v.term != "" {
		return []string{atom(v.term)} // a record / a list: one argument
	}
	name := v.t.name
	if v.t.k == kPtr {
		name = v.t.elem.name
	}
	var out []string
	for _, fl := range f.p.structs[name].fields {
		fv, ok := v.fields[fl.name]
		if !ok {
			fv = f.zero(fl.typ)
		}
		switch {
		case fl.typ.k == kStruct:
			if fv.fields == nil {
				f.p.bad(at, "receiver part %s is held as a model term", fl.name)
			}
			out = append(out, f.flatLeaves(fv, at)...)
			continue
		case fl.typ.k == kString:
			continue
		}
		if fv.term == "" {
			f.p.bad(at, "receiver field %s has no term", fl.name)
		}
		if fl.typ.k == kBytes && f.p.sliceFields[name+"."+fl.name] != fv.isSlice {
			f.p.bad(at, "receiver field %s: slice representation mismatch", fl.name)
		}
		out = append(out, atom(fv.term))
		if f.p.nilCompared[name+"."+fl.name] {
			switch {
			case fv.nilTerm != "":
				out = append(out, fv.nilTerm)
			case fv.isNil:
				out = append(out, "true")
			default:
				f.p.bad(at, "whether field %s is nil is not known here", fl.name)
			}
		}
	}
	return out
}

// simpleCtorBody: func F(params) *T { return &T{...} }
func simpleCtorBody(fd *funcDecl) *ast.CompositeLit {
	if fd.decl.Body == nil || len(fd.decl.Body.List) != 1 || fd.recv != "" {
		return nil
	}
	rs, ok := fd.decl.Body.List[0].(*ast.ReturnStmt)
	if !ok || len(rs.Results) != 1 {
		return nil
	}
	e := rs.Results[0]
	if u, ok := e.(*ast.UnaryExpr); ok && u.Op == token.AND {
		e = u.X
	}
	lit, _ := e.(*ast.CompositeLit)
	return lit
}

func (f *ftrans) inlineCtor(x *ast.CallExpr, fd *funcDecl, lit *ast.CompositeLit) *val {
	var pnames []string
	var ptypes []*typ
	for _, fl := range fd.decl.Type.Params.List {
		for _, nm := range fl.Names {
			pnames = append(pnames, nm.Name)
			ptypes = append(ptypes, f.p.typeOfExpr(fl.Type))
		}
	}
	if len(pnames) != len(x.Args) {
		f.p.bad(x, "argument count")
	}
	inner := newEnv(nil)
	for i, a := range x.Args {
		v := f.expr(a)
		if ptypes[i].k == kString {
			v = &val{t: tString, str: true}
		} else if v.t.k == kUntypedInt {
			v = f.conv(v, ptypes[i], a)
		} else if !sameType(v.t, ptypes[i]) {
			f.p.bad(a, "argument %d of %s: have %s, want %s", i, fd.name, v.t, ptypes[i])
		}
		inner.vars[pnames[i]] = v
	}
	savedEnv, savedFd := f.env, f.fd
	f.env, f.fd = inner, fd
	v := f.composite(lit)
	f.env, f.fd = savedEnv, savedFd
	v.isPtr = true
	return v
}
