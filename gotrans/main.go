// gotrans regenerates Gallina definitions from the Go source of package packet (and the packet
// length limits of the clients), so that Coq can check -- for all inputs, on every run, against
// the code as it is now -- that the hand-written model coq/PacketModel.v says what the code says
// (coq/Properties/Gen_Packet.v).
//
//	gotrans -repo /repo -out /verif/coq/gen/PacketGen.v \
//	        [-out2 /verif/coq/gen/PacketGen2.v] [-out3 /verif/coq/gen/RegistersGen.v]
//
// -out  : constants, ExpectedResponseLength, constructor validation, CRC16, the parsers (stages 1-3)
// -out2 : the encoders (Bytes / bytes / len methods, MBAPHeader.bytes, putReadRequestBytes),
//
//	CoilsToBytes, isBitSet (stage 4)
//
// -out3 : registers.go (stage 5)
// -out4 : builder.go / splitter.go of package modbus (stage 6; needs the definitions of -out3)
// A stage whose flag is absent is not translated (and cannot make the exit status 3).
//
// Standard library only (go/parser, go/ast, go/token, go/constant).  Deterministic output.
// Exit status: 0 = everything in scope translated, 3 = some function is outside the fragment (the
// file is still written; the function is `Untranslated "<reason>"`, which makes its obligation fail
// to compile), 1 = cannot read / parse the source.
//
// What is translated (tables.go: isTarget):
//   - every numeric constant of package packet, and of package modbus (client.go, serialclient.go:
//     the packet length limits), as `Definition c_<name>`;
//   - supportedFunctionCodes as a list;
//   - every ExpectedResponseLength method (also the promoted ones), as a function of the flattened
//     fields of the receiver;
//   - every New<X>Request{TCP,RTU} as the boolean "accepts these arguments" (g_<name>_ok);
//   - CRC16, ParseMBAPHeader, LooksLikeModbusTCP, As{TCP,RTU}ErrorPacket, AsRTUErrorPacketWithCRC,
//     every Parse* function.
//
// TRUSTED ASSUMPTIONS of the translation are listed in the header of the generated file.
package main

import (
	"flag"
	"fmt"
	"go/ast"
	"go/token"
	"os"
	"path/filepath"
	"sort"
	"strings"
)

type translator struct {
	p     *pkg
	ext   *translator // the translator of the imported package (functions with funcDecl.foreign set)
	done  map[string]*fsig
	order []*fsig
	stack map[string]bool
}

// fileOf says which output file a function belongs to: 1 = PacketGen.v (constants, lengths,
// constructors, CRC16, parsers), 2 = PacketGen2.v (encoders, CoilsToBytes, isBitSet),
// 3 = RegistersGen.v (registers.go).
func fileOf(fd *funcDecl) int {
	if fd.pkgName == "modbus" {
		return 4
	}
	if fd.file == "registers.go" {
		return 3
	}
	n := fd.name
	if k := strings.LastIndex(n, "."); k >= 0 {
		n = n[k+1:]
	}
	if fd.recv != "" && (n == "Bytes" || n == "bytes" || n == "len") {
		return 2
	}
	if fd.recv == "" && (n == "putReadRequestBytes" || n == "CoilsToBytes" || n == "isBitSet") {
		return 2
	}
	return 1
}

func main() {
	repo := flag.String("repo", "/repo", "root of the go-modbus-client working tree")
	out := flag.String("out", "", "output .v file for stages 1-3 (default: stdout)")
	out2 := flag.String("out2", "", "output .v file for the encoders (stage 4); not translated if empty")
	out3 := flag.String("out3", "", "output .v file for registers.go (stage 5); not translated if empty")
	out4 := flag.String("out4", "", "output .v file for builder.go / splitter.go of package modbus (stage 6); not translated if empty")
	flag.Parse()

	p, err := loadPkg(filepath.Join(*repo, "packet"))
	if err != nil {
		fmt.Fprintln(os.Stderr, "gotrans:", err)
		os.Exit(1)
	}
	root, err := loadPkg(*repo)
	if err != nil {
		fmt.Fprintln(os.Stderr, "gotrans:", err)
		os.Exit(1)
	}
	tr := &translator{p: p, done: map[string]*fsig{}, stack: map[string]bool{}}

	var b strings.Builder
	b.WriteString(header)
	b.WriteString("\n(* ---------- constants of package packet ---------- *)\n")
	emitConsts(&b, p, "c_", func(c *constDecl) bool { return true })
	b.WriteString("\n(* ---------- packet length limits of package modbus (client.go, serialclient.go) ---------- *)\n")
	emitConsts(&b, root, "c_client_", func(c *constDecl) bool { return c.file == "client.go" || c.file == "serialclient.go" })
	b.WriteString("\n(* ---------- package-level tables ---------- *)\n")
	emitArrays(&b, p)

	// targets in file / source order
	want := map[int]bool{1: true, 2: *out2 != "", 3: *out3 != ""}
	for _, fd := range p.funcL {
		if mode, ok := isTarget(fd); ok && fileOf(fd) == 1 {
			tr.translate(fd, mode)
		}
	}
	// promoted ExpectedResponseLength methods: one definition per request type
	var snames []string
	for n := range p.structs {
		snames = append(snames, n)
	}
	sort.Strings(snames)
	for _, n := range snames {
		if !(hasSuffix(n, "RequestTCP") || hasSuffix(n, "RequestRTU")) {
			continue
		}
		if _, own := p.funcs[n+".ExpectedResponseLength"]; own {
			continue
		}
		if m := p.findMethod(n, "ExpectedResponseLength"); m != nil {
			tr.promoted(n, m)
		}
	}
	for _, file := range []int{2, 3} {
		if !want[file] {
			continue
		}
		for _, fd := range p.funcL {
			if mode, ok := isTarget(fd); ok && fileOf(fd) == file {
				tr.translate(fd, mode)
			}
		}
	}
	// stage 6: package modbus, with package packet merged in for its types, constants and methods
	var tr4 *translator
	if *out4 != "" {
		want[3] = true // its callees in registers.go are needed (their definitions are only WRITTEN with -out3)
		if err := root.importPkg("packet", p); err != nil {
			fmt.Fprintln(os.Stderr, "gotrans:", err)
			os.Exit(1)
		}
		tr4 = &translator{p: root, ext: tr, done: map[string]*fsig{}, stack: map[string]bool{}}
		for _, fd := range root.funcL {
			if fd.foreign == nil && rootTargets[fd.name] {
				tr4.translate(fd, "full")
			}
		}
		want[3] = *out3 != ""
	}
	failed := 0
	bodies := map[int]*strings.Builder{1: &b, 2: {}, 3: {}}
	bodies[2].WriteString(header2)
	bodies[3].WriteString(header3)
	counts := map[int]int{}
	b.WriteString("\n(* ---------- functions ---------- *)\n")
	for _, s := range tr.order {
		if !want[s.file] {
			continue // reached only while looking for callees that write; not part of this run
		}
		bodies[s.file].WriteString("\n" + s.text)
		counts[s.file]++
		if s.untranslated != "" {
			failed++
			fmt.Fprintf(os.Stderr, "gotrans: %s: UNTRANSLATED: %s\n", s.goName, s.untranslated)
		}
	}
	if tr4 != nil {
		var sb strings.Builder
		sb.WriteString(header4)
		n, bad := 0, 0
		for _, s := range tr4.order {
			sb.WriteString("\n" + s.text)
			n++
			if s.untranslated != "" {
				bad++
				failed++
				fmt.Fprintf(os.Stderr, "gotrans: %s: UNTRANSLATED: %s\n", s.goName, s.untranslated)
			}
		}
		fmt.Fprintf(&sb, "\n(* ---------- summary ---------- *)\n(* %d definitions, %d untranslated *)\n", n, bad)
		if err := os.MkdirAll(filepath.Dir(*out4), 0o755); err != nil {
			fmt.Fprintln(os.Stderr, "gotrans:", err)
			os.Exit(1)
		}
		if err := os.WriteFile(*out4, []byte(sb.String()), 0o644); err != nil {
			fmt.Fprintln(os.Stderr, "gotrans:", err)
			os.Exit(1)
		}
	}
	for file, path := range map[int]string{1: *out, 2: *out2, 3: *out3} {
		if !want[file] {
			continue
		}
		sb := bodies[file]
		sb.WriteString("\n(* ---------- summary ---------- *)\n")
		bad := 0
		for _, s := range tr.order {
			if s.file == file && s.untranslated != "" {
				bad++
			}
		}
		fmt.Fprintf(sb, "(* %d definitions, %d untranslated *)\n", counts[file], bad)
		if path == "" {
			fmt.Print(sb.String())
			continue
		}
		if err := os.MkdirAll(filepath.Dir(path), 0o755); err != nil {
			fmt.Fprintln(os.Stderr, "gotrans:", err)
			os.Exit(1)
		}
		if err := os.WriteFile(path, []byte(sb.String()), 0o644); err != nil {
			fmt.Fprintln(os.Stderr, "gotrans:", err)
			os.Exit(1)
		}
	}
	if failed > 0 {
		os.Exit(3)
	}
}

const header = `(* GENERATED by /verif/gotrans from /repo/packet/*.go, /repo/client.go, /repo/serialclient.go
   -- do not edit.  Regenerated on every check; coq/Properties/Gen_Packet.v proves, for all inputs,
   that every definition below equals the hand-written model (coq/PacketModel.v, CrcModel.v).

   How Go is read (the translator's trusted assumptions):
   * int is Z (unbounded; no int of this code comes near 2^63: all are slice lengths or 16-bit
     values times small constants).  uint8 / byte / uint16 are N; every +, -, *, << on them is
     wrapped at the width of the Go type of the expression (add8, sub16, shl16 ...), uint8(x) /
     uint16(x) truncate, int(x) / uint16(byte) widen.  Untyped constants take the type of the
     other operand (Go's rule), alone they are int.  / and % on int are Z.quot / Z.rem.
   * the []byte parameter a function indexes is a GoSem.slice (visible bytes + spare capacity):
     data[i] = zidx (panics unless 0 <= i < len), data[i:j] = zsub (panics unless 0 <= i <= j <= cap),
     data[i:] = zfrom (to len), data[:j] = zupto, len(data) = zlen.  A re-slice is a list of bytes
     (aliasing with the input is not represented: no translated function writes to a slice).
     make([]byte, n) = zmake (panics if n < 0), copy(dst, src) = gcopy.
   * every operation that can panic is bound with let* in Go's evaluation order; the right operand
     of && / || is evaluated only when Go evaluates it.  All panics are one outcome, Panic.
   * (v, err) results are PacketModel.pres: 'return v, nil' = Ok v, 'return nil, e' = Err e (the
     value returned beside a non-nil error is not represented); a function returning only 'error'
     yields Ok None / Ok (Some e); LooksLikeModbusTCP, which returns a length together with an
     error, yields Ok (n, None | Some e).
   * error values and packet structs are written with the constructors of PacketModel.perr /
     req / resp according to the tables in gotrans/tables.go; message texts are dropped (their
     arguments must be panic-free); errors.New / fmt.Errorf = EPlain; the sentinels
     ErrTCPDataTooShort / ErrIsNotTCPPacket / ErrInvalidCRC = ETooShortTCP / ENotTCP / EInvalidCRC
     (checked: never assigned to in the package).  One-line constructors (return &T{...}) such as
     NewErrorParseTCP are inlined from their source.
   * int(math.Ceil(float64(a) / c)) with a unsigned and c a power of two = ceil_div a c (exact in
     float64).
   * a range over the package-level array supportedFunctionCodes is unrolled with the constants of
     its initialiser (checked: never assigned to in the package).
   * New<X>Request*: g_<name>_ok says whether the constructor returns a nil error; statements
     that cannot influence a branch (building the packet, copy, the random transaction id) are
     dropped. *)
From Coq Require Import String.
Require Import MB.GoSem MB.CrcModel MB.PacketModel MB.GenPrelude.
Open Scope N_scope.
`

const header2 = `(* GENERATED by /verif/gotrans (-out2) from /repo/packet/*.go -- do not edit.
   The encoders: MBAPHeader.bytes, putReadRequestBytes, every Bytes() / bytes() / len() method of the
   request, response and exception types, CoilsToBytes, isBitSet.  Regenerated on every check;
   coq/Properties/Gen_Packet2.v proves that every encoder below produces exactly the bytes the
   hand-written model (PacketModel: req_bytes_tcp/rtu, resp_bytes_tcp/rtu, exc_bytes_tcp/rtu) says.

   In addition to the assumptions in the header of PacketGen.v:
   * a slice that a function creates (make, a nil var) or receives and writes into is a list N
     (GenPrelude2): x[i] = v is lset (Panic unless 0 <= i < len), x[i] is lget, a write through a
     window copy(x[a:b], s) / PutUint16(x[a:b], v) / f(x[a:b]) reads the window with lsub (Panic unless
     0 <= a <= b <= len -- the capacity of such a list is its length, which is what make gives; a
     window handed to a callee cannot be extended by the callee), computes the new content and puts
     it back with lsplice.  copy copies min(len dst, len src) bytes (gcopy).  binary.BigEndian.
     PutUint16(w, v) is lput16: Panic if len w < 2, else w[0], w[1] := byte(v >> 8), byte(v).
   * a function that writes into its []byte parameter takes the content and returns the new
     content; a Go variable assigned from such a call (bytes := r.X.bytes(result)) denotes the
     same slice and is resolved at translation time.  Writing through a re-slice of an input is
     outside the fragment.
   * for i := a; i < b; i++ with a bound that the body does not change is zfor (structural
     recursion on the iteration count).
   * c << n with c an untyped constant and n not constant has the type of its context (Go spec);
     a negative count of a signed type panics (zshl8).
   * whether a []byte field is nil (ReadServerIDResponse.AdditionalData != nil) is a separate
     boolean parameter r_<field>_isnil of the methods of that struct. *)
From Coq Require Import String.
Require Import MB.GoSem MB.CrcModel MB.PacketModel MB.GenPrelude MB.GenPrelude2 MB.gen.PacketGen.
Open Scope N_scope.
`

const header4 = `(* GENERATED by /verif/gotrans (-out4) from /repo/builder.go and /repo/splitter.go (package modbus)
   -- do not edit.  Regenerated on every check; coq/Properties/Gen_Builder.v proves that every
   definition below equals the hand-written model coq/BuilderModel.v.

   In addition to the assumptions in the headers of PacketGen.v / PacketGen2.v / RegistersGen.v:
   * the structs Field, builderSlot, builderSlotGroup, requestBatch are RECORDS of BuilderSpec /
     BuilderModel (gotrans/tables.go: recordTable): x.F is the projection, T{..} the constructor, an
     assignment to a field of a local variable rebuilds the record.  Field.Name is carried as a
     number by the model: no translated function looks at it.  requestBatch.IsForCoils has no
     counterpart and must keep its zero value.  A string is the list of its bytes; s == "" is
     length 0.
   * []T for such a struct is list T: l[i] / l[i] = v / len are lget / lset / llen, make([]T, 0) is [],
     append(l, x) is l ++ [x], append(l, m...) is l ++ m.  That append may write into spare capacity
     shared with another slice header is not represented (no translated function keeps the old
     header in use).  min(a, b) is N.min.
   * a method with a pointer receiver that assigns to the receiver (builderSlotGroup.AddField)
     yields the new receiver; g.slots[i] = slot is the list with element i replaced.
   * for i, x := range l { if c { return v } } is find_first (first index, in order).
     for _, x := range l { body } over a list of records is fold_left on the variables body assigns.
   * sort.Sort(slotsSorter(x)), where slotsSorter.Less is a[i].address < a[j].address, replaces x by
     sort_by (fun a b => s_addr a <? s_addr b) x (insertion sort).  TRUSTED: sort.Sort sorts by
     Less; for pairwise different keys (AddField merges equal addresses) the result does not
     depend on the algorithm.  That the slots of the caller's group are sorted in place is not
     represented.
   * a parameter of type *packet.Registers is its four fields (as in RegistersGen.v); a result of
     type interface{} is a RegistersSpec.aval according to the static Go type of the returned
     value: bool = VBool, integers and float bit patterns = VInt, string = VBytes.
   * packet.C is the constant C of package packet. *)
From Coq Require Import String.
Require Import MB.GoSem MB.CrcModel MB.PacketModel MB.RegistersSpec MB.RegistersModel MB.BuilderSpec MB.BuilderModel.
Require Import MB.GenPrelude MB.GenPrelude2 MB.GenPrelude3 MB.GenPrelude4 MB.gen.RegistersGen.
Open Scope N_scope.
`

const header3 = `(* GENERATED by /verif/gotrans (-out3) from /repo/packet/registers.go -- do not edit.
   Regenerated on every check; coq/Properties/Gen_Registers.v proves that every definition below
   equals the hand-written model coq/RegistersModel.v (errors compared as "some error").

   In addition to the assumptions in the headers of PacketGen.v / PacketGen2.v:
   * the receiver is its flattened fields; Registers.data, which the methods re-slice and index, is
     a GoSem.slice (visible bytes + spare capacity).
   * uint32 / uint64 are N wrapped at 2^32 / 2^64; int8 .. int64 are Z, a conversion to them wraps
     into the signed range (sint); float32 / float64 results are their bit patterns
     (math.Float32frombits / Float64frombits are the identity on patterns).
   * binary.{Big,Little}Endian.Uint16/32/64(b) on a list b: Panic if b is too short, else the
     combination of its first 2/4/8 bytes (zbe16 .. zle64).
   * []byte{a, b, ...} is the list [a; b; ...].
   * a method with a pointer receiver that assigns a field and returns the receiver (WithByteOrder)
     yields the updated struct value; that the caller's object is changed in place is not
     represented.
   * strings.Builder is the list of bytes written so far: new(strings.Builder) = [], Grow(n) only
     panics for n < 0 (zgrow), fmt.Fprintf(b, "%c", rune(x)) for a byte x appends the UTF-8 encoding
     of the code point x (utf8_rune), b.String() is the list; a string RESULT is its bytes.
   * for _, x := range l { if c { break }; body } is a fold_left with a "stopped" flag. *)
From Coq Require Import String.
Require Import MB.GoSem MB.CrcModel MB.PacketModel MB.RegistersSpec MB.RegistersModel.
Require Import MB.GenPrelude MB.GenPrelude2 MB.GenPrelude3.
Open Scope N_scope.
`

func coqIdent(s string) string {
	return strings.NewReplacer(".", "_", "$", "_").Replace(s)
}

func emitConsts(b *strings.Builder, p *pkg, prefix string, keep func(*constDecl) bool) {
	for _, c := range p.constL {
		if !keep(c) {
			continue
		}
		name := c.name
		if c.where != "" {
			name = c.where + "." + c.name
		}
		ty, lit := "Z", c.val.ExactString()+"%Z"
		if c.typ.isUint() {
			ty, lit = "N", c.val.ExactString()
		}
		if strings.HasPrefix(lit, "-") {
			lit = "(" + lit + ")"
			lit = strings.Replace(lit, "%Z)", ")%Z", 1)
		}
		fmt.Fprintf(b, "Definition %s%s : %s := %s.  (* %s, %s *)\n", prefix, coqIdent(name), ty, lit, c.typ, c.file)
	}
}

func emitArrays(b *strings.Builder, p *pkg) {
	var names []string
	for n := range p.vars {
		names = append(names, n)
	}
	sort.Strings(names)
	for _, n := range names {
		vs := p.vars[n]
		if len(vs.Values) != 1 {
			continue
		}
		lit, ok := vs.Values[0].(*ast.CompositeLit)
		if !ok {
			continue
		}
		t := p.typeOfExprOpt(lit.Type)
		if t == nil || t.k != kArray {
			continue
		}
		var elems []string
		good := true
		func() {
			defer func() {
				if r := recover(); r != nil {
					good = false
				}
			}()
			for _, e := range lit.Elts {
				_, v := p.constExpr(e, 0, "")
				elems = append(elems, v.ExactString())
			}
		}()
		if good && !p.assigned[n] {
			fmt.Fprintf(b, "Definition v_%s : list N := [%s].\n", n, strings.Join(elems, "; "))
		}
	}
}

// usesAsSlice: is the parameter indexed or re-sliced in the body?
func usesAsSlice(body *ast.BlockStmt, name string) bool {
	found := false
	ast.Inspect(body, func(n ast.Node) bool {
		switch x := n.(type) {
		case *ast.IndexExpr:
			if id, ok := x.X.(*ast.Ident); ok && id.Name == name {
				found = true
			}
		case *ast.SliceExpr:
			if id, ok := x.X.(*ast.Ident); ok && id.Name == name {
				found = true
			}
		}
		return true
	})
	return found
}

// passesOn: is the parameter handed unchanged to a function that takes a GoSem.slice?
func (tr *translator) passesOn(body *ast.BlockStmt, name string) bool {
	found := false
	ast.Inspect(body, func(n ast.Node) bool {
		call, ok := n.(*ast.CallExpr)
		if !ok {
			return true
		}
		id, ok := call.Fun.(*ast.Ident)
		if !ok {
			return true
		}
		fd, ok := tr.p.funcs[id.Name]
		if !ok || tr.stack[fd.name+"/full"] {
			return true
		}
		for i, a := range call.Args {
			if aid, ok := a.(*ast.Ident); ok && aid.Name == name {
				sig := tr.translate(fd, "full")
				if sig.untranslated == "" && i < len(sig.params) && sig.params[i].isSlice {
					found = true
				}
			}
		}
		return true
	})
	return found
}

func coqType(t *typ, isSlice bool) string {
	switch t.k {
	case kInt, kI8, kI16, kI32, kI64:
		return "Z"
	case kU8, kU16, kU32, kU64, kF32, kFloat:
		return "N"
	case kBool:
		return "bool"
	case kBytes:
		if isSlice {
			return "slice"
		}
		return "list N"
	case kBools:
		return "list bool"
	case kString:
		return "list N" // only as a RESULT: the bytes of the Go string
	case kArray:
		return "list N"
	case kAny:
		return "aval"
	case kStruct, kPtr:
		if r, ok := recordOf(t); ok {
			return r.coqType
		}
	case kList:
		if et := coqType(t.elem, false); et != "" {
			return "list " + et
		}
	}
	return ""
}

func canPanic(body *ast.BlockStmt) bool {
	found := false
	ast.Inspect(body, func(n ast.Node) bool {
		switch x := n.(type) {
		case *ast.IndexExpr, *ast.SliceExpr:
			found = true
		case *ast.CallExpr:
			if q := qualName(x.Fun); q == "make" || strings.HasSuffix(q, ".Uint16") {
				found = true
			}
		}
		return true
	})
	return found
}

func (tr *translator) translate(fd *funcDecl, mode string) *fsig {
	if fd.foreign != nil && tr.ext != nil {
		return tr.ext.translate(fd, mode)
	}
	key := fd.name + "/" + mode
	if s, ok := tr.done[key]; ok {
		return s
	}
	sig := &fsig{goName: fd.name, coqName: "g_" + coqIdent(fd.name)}
	if mode == "accepts" {
		sig.coqName += "_ok"
	}
	if tr.stack[key] {
		sig.untranslated = "recursion"
		return sig
	}
	tr.stack[key] = true
	defer delete(tr.stack, key)
	tr.done[key] = sig
	p := tr.p
	f := &ftrans{tr: tr, p: p, fd: fd, mode: mode, sig: sig, env: newEnv(nil), names: map[string]int{}, condIds: map[string]bool{}}
	var body code
	func() {
		defer func() {
			if r := recover(); r != nil {
				u, ok := r.(untranslatable)
				if !ok {
					// a construct the translator did not even anticipate: never guess, never crash
					u = untranslatable{fmt.Sprintf("internal error of the translator: %v", r)}
				}
				sig.untranslated = u.reason
			}
		}()
		if fd.decl.Body == nil {
			p.bad(fd.decl, "no body")
		}
		// receiver: a symbolic struct over the flattened fields
		if fd.recv != "" {
			rname := ""
			if len(fd.decl.Recv.List[0].Names) == 1 {
				rname = fd.decl.Recv.List[0].Names[0].Name
			}
			var rv *val
			if rec, isRec := recordTable[fd.recv]; isRec {
				// a struct held as a record: the receiver is one parameter
				_ = rec
				rt := &typ{k: kStruct, name: fd.recv}
				pr := param{name: rname, coq: f.fresh(rname), t: rt}
				sig.recvFields = append(sig.recvFields, pr)
				rv = &val{t: rt, term: pr.coq}
				sig.recvName = rname
			} else if nt, isNamed := p.named[fd.recv]; isNamed && nt.k == kList {
				lt := *nt
				lt.name = fd.recv
				pr := param{name: rname, coq: f.fresh(rname), t: &lt}
				sig.recvFields = append(sig.recvFields, pr)
				rv = &val{t: &lt, term: pr.coq}
			} else {
				rv = tr.recvValue(f, fd.recv, sig)
			}
			if rname != "" && rname != "_" {
				f.env.vars[rname] = rv
			}
		}
		byteParams := map[string]bool{}
		for _, fl := range fd.decl.Type.Params.List {
			if t := p.typeOfExprOpt(fl.Type); t != nil && t.k == kBytes {
				for _, nm := range fl.Names {
					byteParams[nm.Name] = true
				}
			}
		}
		written := map[string]bool{}
		if mode != "accepts" && len(byteParams) > 0 {
			for _, w := range tr.writes(fd, fd.decl.Body.List, func(n string) bool { return byteParams[n] }) {
				written[w] = true
			}
		}
		for _, fl := range fd.decl.Type.Params.List {
			t := p.typeOfExpr(fl.Type)
			if sn := structName(t); sn != "" {
				if _, isRec := recordTable[sn]; !isRec {
					// a struct of the flattened kind (packet.Registers): its fields become parameters
					for _, nm := range fl.Names {
						sub := &fsig{}
						sv := tr.recvValue(f, sn, sub)
						for i := range sub.recvFields {
							sub.recvFields[i].coq = "v_" + nm.Name + "_" + sub.recvFields[i].name
						}
						tr.renameLeaves(sv, "v_"+nm.Name+"_")
						sig.recvFields = append(sig.recvFields, sub.recvFields...)
						sig.expanded = append(sig.expanded, nm.Name)
						f.env.vars[nm.Name] = sv
					}
					continue
				}
			}
			for _, nm := range fl.Names {
				pr := param{name: nm.Name, coq: f.fresh(nm.Name), t: t}
				if written[nm.Name] {
					pr.isBuf = true
				} else if t.k == kBytes && mode != "accepts" {
					pr.isSlice = usesAsSlice(fd.decl.Body, nm.Name) || tr.passesOn(fd.decl.Body, nm.Name) ||
						tr.storedInSliceField(fd.decl.Body, nm.Name)
				}
				if coqType(t, pr.isSlice) == "" {
					p.bad(fl, "parameter of type %s", t)
				}
				sig.params = append(sig.params, pr)
				f.env.vars[nm.Name] = &val{t: t, term: pr.coq, isSlice: pr.isSlice, buf: pr.isBuf}
			}
		}
		if fd.decl.Type.Results != nil {
			for _, fl := range fd.decl.Type.Results.List {
				t := p.typeOfExpr(fl.Type)
				n := len(fl.Names)
				if n == 0 {
					n = 1
				}
				for i := 0; i < n; i++ {
					sig.results = append(sig.results, t)
				}
				// named results are locals with the zero value
				for _, nm := range fl.Names {
					if t.k != kError {
						f.env.vars[nm.Name] = f.zero(t)
					}
				}
			}
		}
		// shape
		nres := len(sig.results)
		lastErr := nres > 0 && sig.results[nres-1].k == kError
		switch {
		case sig.recvName != "" && nres == 0 && mutatesReceiver(fd, sig.recvName):
			// a method with a pointer receiver that changes the receiver: it yields the new receiver
			sig.shape, sig.coqResT = "recv", recordTable[fd.recv].coqType
		case len(written) > 0:
			if len(written) != 1 || !(nres == 0 || (nres == 1 && sig.results[0].k == kBytes)) {
				p.bad(fd.decl, "a function that writes into a slice parameter must have one such parameter and return nothing or that slice")
			}
			sig.shape, sig.coqResT = "mut", "list N"
		case mode == "accepts":
			if !(nres == 2 && lastErr) {
				p.bad(fd.decl, "constructor does not return (value, error)")
			}
			sig.shape, sig.coqResT = "accepts", "bool"
			ast.Inspect(fd.decl.Body, func(n ast.Node) bool {
				var conds []ast.Expr
				switch x := n.(type) {
				case *ast.IfStmt:
					conds = append(conds, x.Cond)
				case *ast.SwitchStmt:
					if x.Tag != nil {
						conds = append(conds, x.Tag)
					}
				case *ast.ForStmt:
					p.bad(x, "loop in a constructor")
				case *ast.RangeStmt:
					p.bad(x, "loop in a constructor")
				}
				for _, c := range conds {
					ast.Inspect(c, func(m ast.Node) bool {
						if id, ok := m.(*ast.Ident); ok {
							f.condIds[id.Name] = true
						}
						return true
					})
				}
				return true
			})
		case nres == 1 && lastErr:
			sig.shape, sig.coqResT = "opt", "option perr"
		case nres == 2 && lastErr:
			sig.shape = "res"
			if tr.returnsValueWithError(fd) {
				sig.shape = "pair"
			}
			if ct := coqType(sig.results[0], false); ct != "" {
				sig.coqResT = ct
			}
		case nres == 1:
			sig.shape = "pure"
			if canPanic(fd.decl.Body) || tr.callsMonadic(fd) {
				sig.shape = "resv"
			}
			sig.coqResT = coqType(sig.results[0], false)
			if rt := sig.results[0]; sig.coqResT == "" && (rt.k == kStruct || (rt.k == kPtr && rt.elem.k == kStruct)) {
				sig.coqResT = "?" // a struct: its model type is noted at the first return
			}
			if sig.coqResT == "" {
				p.bad(fd.decl, "result of type %s", sig.results[0])
			}
		default:
			p.bad(fd.decl, "result list")
		}
		if sig.shape == "pair" {
			sig.coqResT = coqType(sig.results[0], false)
			if sig.coqResT == "" {
				p.bad(fd.decl, "result of type %s returned together with an error", sig.results[0])
			}
		}
		f.monadic = sig.shape != "pure" && sig.shape != "accepts"
		body = f.stmts(fd.decl.Body.List, func() code {
			if sig.shape == "mut" && len(sig.results) == 0 {
				return f.retMut(fd.decl)
			}
			if sig.shape == "recv" {
				return f.retRecv()
			}
			p.bad(fd.decl, "control reaches the end of the function")
			return nil
		})
		if sig.shape == "res" && sig.coqResT == "" {
			p.bad(fd.decl, "cannot determine the model type of the result")
		}
	}()
	tr.finish(sig, fd, body)
	return sig
}

// renameLeaves gives the leaves of a symbolic struct the parameter names prefix+field.
func (tr *translator) renameLeaves(v *val, prefix string) {
	for k, fv := range v.fields {
		if fv.fields != nil {
			tr.renameLeaves(fv, prefix)
			continue
		}
		if fv.term != "" {
			fv.term = prefix + k
		}
		if fv.nilTerm != "" {
			fv.nilTerm = prefix + k + "_isnil"
		}
	}
}

// mutatesReceiver: does the body assign to (a field / an element of a field of) the receiver?
func mutatesReceiver(fd *funcDecl, rname string) bool {
	found := false
	ast.Inspect(fd.decl.Body, func(n ast.Node) bool {
		a, ok := n.(*ast.AssignStmt)
		if !ok || a.Tok == token.DEFINE {
			return true
		}
		for _, l := range a.Lhs {
			e := l
			for {
				switch x := e.(type) {
				case *ast.SelectorExpr:
					e = x.X
					continue
				case *ast.IndexExpr:
					e = x.X
					continue
				}
				break
			}
			if id, ok := e.(*ast.Ident); ok && id.Name == rname {
				if _, plain := l.(*ast.Ident); !plain {
					found = true
				}
			}
		}
		return true
	})
	return found
}

// storedInSliceField: is the parameter the value of a struct field that the model keeps as a slice?
func (tr *translator) storedInSliceField(body *ast.BlockStmt, name string) bool {
	found := false
	ast.Inspect(body, func(n ast.Node) bool {
		lit, ok := n.(*ast.CompositeLit)
		if !ok {
			return true
		}
		t := tr.p.typeOfExprOpt(lit.Type)
		if t == nil || t.k != kStruct {
			return true
		}
		for _, el := range lit.Elts {
			if kv, ok := el.(*ast.KeyValueExpr); ok {
				k, ok1 := kv.Key.(*ast.Ident)
				v, ok2 := kv.Value.(*ast.Ident)
				if ok1 && ok2 && v.Name == name && tr.p.sliceFields[t.name+"."+k.Name] {
					found = true
				}
			}
		}
		return true
	})
	return found
}

// rollback forgets the untranslated definitions added since mark (they were only probed for a
// statement that accepts mode drops).
func (tr *translator) rollback(mark int) {
	keep := tr.order[:mark:mark]
	for _, s := range tr.order[mark:] {
		if s.untranslated == "" {
			keep = append(keep, s)
			continue
		}
		for k, v := range tr.done {
			if v == s {
				delete(tr.done, k)
			}
		}
	}
	tr.order = keep
}

// returnsValueWithError: some return carries a non-zero value together with a non-nil error.
func (tr *translator) returnsValueWithError(fd *funcDecl) bool {
	found := false
	ast.Inspect(fd.decl.Body, func(n ast.Node) bool {
		if _, ok := n.(*ast.FuncLit); ok {
			return false
		}
		r, ok := n.(*ast.ReturnStmt)
		if !ok || len(r.Results) != 2 {
			return true
		}
		if id, ok := r.Results[1].(*ast.Ident); ok && id.Name == "nil" {
			return true
		}
		if !isZeroExpr(r.Results[0]) {
			found = true
		}
		return true
	})
	return found
}

// recvValue builds the receiver as a symbolic struct whose leaves are parameters named after the
// flattened fields.
func (tr *translator) recvValue(f *ftrans, sname string, sig *fsig) *val {
	var build func(name string) *val
	build = func(name string) *val {
		v := &val{t: &typ{k: kStruct, name: name}, fields: map[string]*val{}}
		for _, fl := range tr.p.structs[name].fields {
			if fl.typ.k == kStruct {
				v.fields[fl.name] = build(fl.typ.name) // embedded or not: its fields are leaves too
				continue
			}
			if fl.typ.k == kString {
				v.fields[fl.name] = &val{t: tString, str: true} // texts are dropped
				continue
			}
			isSlice := fl.typ.k == kBytes && tr.p.sliceFields[name+"."+fl.name]
			ct := coqType(fl.typ, isSlice)
			if ct == "" {
				tr.p.bad(nil, "receiver field %s.%s of type %s", name, fl.name, fl.typ)
			}
			pr := param{name: fl.name, coq: "r_" + fl.name, t: fl.typ, isSlice: isSlice}
			for _, e := range sig.recvFields {
				if e.coq == pr.coq {
					tr.p.bad(nil, "receiver has two fields named %s", fl.name)
				}
			}
			sig.recvFields = append(sig.recvFields, pr)
			fv := &val{t: fl.typ, term: pr.coq, isSlice: isSlice}
			if tr.p.nilCompared[name+"."+fl.name] {
				np := param{name: fl.name + "_isnil", coq: "r_" + fl.name + "_isnil", t: tBool}
				sig.recvFields = append(sig.recvFields, np)
				fv.nilTerm = np.coq
			}
			v.fields[fl.name] = fv
		}
		return v
	}
	return build(sname)
}

// promoted emits g_<S>_ExpectedResponseLength for a request type that gets the method from an
// embedded struct.
func (tr *translator) promoted(sname string, m *funcDecl) {
	sig := &fsig{goName: sname + ".ExpectedResponseLength (promoted from " + m.recv + ")",
		coqName: "g_" + sname + "_ExpectedResponseLength", shape: "pure", coqResT: "Z", results: []*typ{tInt}}
	tr.done[sname+".ExpectedResponseLength/full"] = sig
	var body code
	func() {
		defer func() {
			if r := recover(); r != nil {
				u, ok := r.(untranslatable)
				if !ok {
					panic(r)
				}
				sig.untranslated = u.reason
			}
		}()
		f := &ftrans{tr: tr, p: tr.p, fd: m, mode: "full", sig: sig, env: newEnv(nil), names: map[string]int{}}
		rv := tr.recvValue(f, sname, sig)
		inner := tr.translate(m, "full")
		if inner.untranslated != "" {
			tr.p.bad(m.decl, "promoted method is untranslated")
		}
		target := f.embeddedOf(rv, sname, m.recv)
		if target == nil {
			tr.p.bad(m.decl, "embedded part %s not found in %s", m.recv, sname)
		}
		body = cLeaf{inner.coqName + " " + strings.Join(f.flatLeaves(target, m.decl), " ")}
	}()
	tr.finish(sig, &funcDecl{name: sig.goName, file: m.file}, body)
}

func (tr *translator) finish(sig *fsig, fd *funcDecl, body code) {
	sig.file = 1
	if fd.decl != nil {
		sig.file = fileOf(fd)
	}
	var sb strings.Builder
	fmt.Fprintf(&sb, "(* %s  (%s) *)\n", sig.goName, fd.file)
	if sig.untranslated != "" {
		fmt.Fprintf(&sb, "Definition %s : untranslated := Untranslated %q.\n", sig.coqName, sig.untranslated)
	} else {
		fmt.Fprintf(&sb, "Definition %s", sig.coqName)
		for _, pr := range append(append([]param{}, sig.recvFields...), sig.params...) {
			fmt.Fprintf(&sb, " (%s : %s)", pr.coq, coqType(pr.t, pr.isSlice))
		}
		var rt string
		switch sig.shape {
		case "pure", "accepts":
			rt = sig.coqResT
		case "pair":
			rt = "pres (" + sig.coqResT + " * option perr)"
		default:
			rt = "pres " + atom(sig.coqResT)
		}
		fmt.Fprintf(&sb, " : %s :=\n", rt)
		render(body, &sb, 2)
		sb.WriteString(".\n")
	}
	sig.text = sb.String()
	tr.order = append(tr.order, sig)
}
