package main

// The functional store model for byte slices that the translated code creates or writes
// (coq/GenPrelude2.v).
//
// A buffer is a Go variable holding a slice that is FRESH in this function: the result of make, a
// nil `var x []byte`, or a []byte parameter that the function writes (then the Gallina function
// takes its content and returns the new content: shape "mut").  Its value in the environment is
// the name of the Gallina variable holding the current content; every write rebinds it.  Another
// Go variable may denote the same slice (bytes := r.X.bytes(result)): it is an alias, resolved at
// translation time.  A value that is a re-slice of an INPUT (data[a:b]) is never a buffer: writing
// through it would change the caller's data, which the model does not represent => Untranslated.
//
// A write goes to a target: the whole buffer `x` or a window `x[a:b]` / `x[a:]` / `x[:b]`
// (copy(x[a:b], src), binary.BigEndian.PutUint16(x[a:b], v), f(x[a:b])).  For a window the generated
// code reads it with lsub (Panic unless 0 <= a <= b <= len), computes its new content and puts it
// back with lsplice.

import (
	"fmt"
	"go/ast"
	"go/token"
	"strings"
)

type wtarget struct {
	root  string // Go variable that owns the buffer ("" for a fresh make passed directly)
	cur   *val   // current value of the root
	lo    string // Z term of the window start ("" = whole buffer)
	win   string // Gallina term of the window's current content
	fresh bool
}

func (f *ftrans) bindPure(name, rhs string) string {
	f.binds = append(f.binds, bind{name: name, rhs: rhs, pure: true})
	return name
}

func (f *ftrans) bindAs(name, rhs string) string {
	f.binds = append(f.binds, bind{name: name, rhs: rhs})
	return name
}

// rootOf finds the Go variable at the bottom of x, x[a:b], (x) ...; "" if there is none.
func rootOf(e ast.Expr) string {
	for {
		switch x := e.(type) {
		case *ast.Ident:
			return x.Name
		case *ast.SliceExpr:
			e = x.X
		case *ast.ParenExpr:
			e = x.X
		default:
			return ""
		}
	}
}

// resolveRoot follows aliases.
func (f *ftrans) resolveRoot(name string) (string, *val) {
	v, ok := f.env.lookup(name)
	if !ok {
		return "", nil
	}
	if v.alias != "" {
		if r, ok := f.env.lookup(v.alias); ok {
			return v.alias, r
		}
	}
	return name, v
}

// openTarget evaluates the destination of a write.
func (f *ftrans) openTarget(e ast.Expr) *wtarget {
	f.needMonadic(e, "a write into a slice")
	switch x := e.(type) {
	case *ast.ParenExpr:
		return f.openTarget(x.X)
	case *ast.CallExpr:
		if qualName(x.Fun) == "make" {
			v := f.expr(x)
			return &wtarget{fresh: true, win: v.term}
		}
	case *ast.Ident:
		root, cur := f.resolveRoot(x.Name)
		if cur == nil || cur.t.k != kBytes || !cur.buf || cur.term == "" {
			f.p.bad(e, "write into %s, which is not a slice created (or received for writing) by this function", x.Name)
		}
		return &wtarget{root: root, cur: cur, win: cur.term}
	case *ast.SliceExpr:
		id, ok := x.X.(*ast.Ident)
		if !ok || x.Slice3 {
			f.p.bad(e, "write target")
		}
		root, cur := f.resolveRoot(id.Name)
		if cur == nil || cur.t.k != kBytes || !cur.buf || cur.term == "" {
			f.p.bad(e, "write into a window of %s, which is not a slice created (or received for writing) by this function", id.Name)
		}
		if x.Low == nil && x.High == nil {
			return &wtarget{root: root, cur: cur, win: cur.term}
		}
		lo, hi := f.sliceBounds(x, cur.term)
		w := f.bind(fmt.Sprintf("lsub %s %s %s", atom(cur.term), lo, hi))
		return &wtarget{root: root, cur: cur, lo: lo, win: w}
	}
	f.p.bad(e, "write target %T", e)
	return nil
}

// closeTarget records the new content of the window.
func (f *ftrans) closeTarget(t *wtarget, newWin string) {
	if t.fresh {
		return
	}
	name := f.fresh(t.root)
	if t.lo == "" {
		f.bindPure(name, newWin)
	} else {
		f.bindPure(name, fmt.Sprintf("lsplice %s %s %s", atom(t.cur.term), t.lo, atom(newWin)))
	}
	f.env.set(t.root, &val{t: tBytes, term: name, buf: true})
}

// closeTargetM: the new content comes from a computation that can panic (let* name := rhs).
func (f *ftrans) closeTargetM(t *wtarget, rhs string) string {
	if t.fresh {
		return f.bind(rhs)
	}
	if t.lo == "" {
		name := f.fresh(t.root)
		f.bindAs(name, rhs)
		f.env.set(t.root, &val{t: tBytes, term: name, buf: true})
		return name
	}
	w := f.bind(rhs)
	f.closeTarget(t, w)
	return w
}

// ---------- statements that write ----------

// x[i] = v
func (f *ftrans) indexAssign(l *ast.IndexExpr, rhs ast.Expr, at ast.Stmt, next func() code) code {
	id, ok := l.X.(*ast.Ident)
	if !ok {
		f.p.bad(at, "assignment to an element of something that is not a local slice variable")
	}
	t := f.openTarget(id)
	i := f.expr(l.Index)
	v := f.expr(rhs)
	v = f.conv(v, tU8, rhs)
	// the root may have been rebound while evaluating the right-hand side (it cannot: expressions do not write)
	f.closeTargetM(t, fmt.Sprintf("lset %s %s %s", atom(t.win), atom(f.toZ(i, l.Index)), atom(v.term)))
	bs := f.takeBinds()
	return wrapBinds(bs, next())
}

// copy(dst, src)
func (f *ftrans) copyStmt(call *ast.CallExpr, at ast.Stmt, next func() code) code {
	t := f.openTarget(call.Args[0])
	sv := f.expr(call.Args[1])
	if sv.t.k != kBytes && sv.t.k != kArray {
		f.p.bad(at, "copy from a %s", sv.t)
	}
	if sv.term == "" {
		f.p.bad(at, "copy from a symbolic value")
	}
	src := sv.term
	if sv.isSlice {
		src = "(vis " + sv.term + ")"
	}
	rhs := fmt.Sprintf("gcopy %s %s", atom(t.win), atom(src))
	if t.lo == "" {
		f.closeTarget(t, rhs) // let x' := gcopy x src
	} else {
		f.ntmp++
		w := fmt.Sprintf("t%d", f.ntmp)
		f.bindPure(w, rhs)
		f.closeTarget(t, w)
	}
	bs := f.takeBinds()
	return wrapBinds(bs, next())
}

// binary.BigEndian.PutUint16(dst, v)
func (f *ftrans) put16Stmt(call *ast.CallExpr, at ast.Stmt, next func() code) code {
	t := f.openTarget(call.Args[0])
	v := f.conv(f.expr(call.Args[1]), tU16, call.Args[1])
	f.closeTargetM(t, fmt.Sprintf("lput16 %s %s", atom(t.win), atom(v.term)))
	bs := f.takeBinds()
	return wrapBinds(bs, next())
}

// ---------- calls of functions that write into a slice parameter ----------
func (f *ftrans) callMut(x *ast.CallExpr, fd *funcDecl, sig *fsig, recv *val) *val {
	f.needMonadic(x, "a call that writes into a slice")
	var args []string
	if recv != nil {
		args = append(args, f.flatLeaves(recv, x)...)
	}
	if len(x.Args) != len(sig.params) {
		f.p.bad(x, "argument count")
	}
	var tgt *wtarget
	var whole *ast.Ident
	for i, a := range x.Args {
		pr := sig.params[i]
		if pr.isBuf {
			tgt = f.openTarget(a)
			if id, ok := a.(*ast.Ident); ok {
				whole = id
			}
			args = append(args, atom(tgt.win))
			continue
		}
		v := f.expr(a)
		if v.t.k == kUntypedInt {
			v = f.conv(v, pr.t, a)
		}
		if !sameType(v.t, pr.t) {
			f.p.bad(a, "argument %d: have %s, want %s", i, v.t, pr.t)
		}
		if pr.isSlice != v.isSlice {
			f.p.bad(a, "argument %d: slice representation mismatch", i)
		}
		args = append(args, atom(v.term))
	}
	if tgt == nil {
		f.p.bad(x, "internal: no slice argument")
	}
	w := f.closeTargetM(tgt, sig.coqName+" "+strings.Join(args, " "))
	switch {
	case len(sig.results) == 0:
		return &val{t: tVoid}
	case tgt.fresh:
		return &val{t: tBytes, term: w, buf: true}
	case whole != nil:
		root, _ := f.resolveRoot(whole.Name)
		return &val{t: tBytes, alias: root}
	}
	// the callee returned the window it was given: usable as a value, not as a variable
	return &val{t: tBytes, term: w}
}

// ---------- which parameters does a function write? ----------

// staticCallee resolves the function a call statically denotes: F(..), r.m(..), r.Field.m(..).
func (tr *translator) staticCallee(call *ast.CallExpr, fd *funcDecl) *funcDecl {
	switch fn := call.Fun.(type) {
	case *ast.Ident:
		return tr.p.funcs[fn.Name]
	case *ast.SelectorExpr:
		var path []string
		cur := fn.X
		for {
			if se, ok := cur.(*ast.SelectorExpr); ok {
				path = append([]string{se.Sel.Name}, path...)
				cur = se.X
				continue
			}
			break
		}
		base, ok := cur.(*ast.Ident)
		if !ok || fd.recv == "" || fd.decl.Recv == nil || len(fd.decl.Recv.List[0].Names) != 1 ||
			fd.decl.Recv.List[0].Names[0].Name != base.Name {
			return nil
		}
		sname := fd.recv
		for _, fld := range path {
			next := ""
			for _, fl := range tr.p.flatFieldsDeep(sname) {
				if fl.name == fld && fl.typ.k == kStruct {
					next = fl.typ.name
				}
			}
			if next == "" {
				return nil
			}
			sname = next
		}
		return tr.p.findMethod(sname, fn.Sel.Name)
	}
	return nil
}

// flatFieldsDeep: the fields reachable by name from a struct, embedded structs themselves included.
func (p *pkg) flatFieldsDeep(name string) []*field {
	var out []*field
	sd := p.structs[name]
	if sd == nil {
		return nil
	}
	for _, f := range sd.fields {
		out = append(out, f)
		if f.embedded && f.typ.k == kStruct {
			out = append(out, p.flatFieldsDeep(f.typ.name)...)
		}
	}
	return out
}

// writes lists, in order of first occurrence, the variables among cands whose slice the statements
// write (element assignment, copy, PutUint16, a callee that writes its parameter).
func (tr *translator) writes(fd *funcDecl, nodes []ast.Stmt, cands func(string) bool) []string {
	var out []string
	seen := map[string]bool{}
	note := func(e ast.Expr) {
		if r := rootOf(e); r != "" && !seen[r] && cands(r) {
			seen[r] = true
			out = append(out, r)
		}
	}
	for _, s := range nodes {
		ast.Inspect(s, func(n ast.Node) bool {
			switch a := n.(type) {
			case *ast.FuncLit:
				return false
			case *ast.AssignStmt:
				if a.Tok != token.DEFINE {
					for _, l := range a.Lhs {
						if ix, ok := l.(*ast.IndexExpr); ok {
							note(ix.X)
						}
					}
				}
			case *ast.CallExpr:
				switch q := qualName(a.Fun); {
				case q == "copy" && len(a.Args) == 2:
					note(a.Args[0])
				case q == "binary.BigEndian.PutUint16" || q == "binary.LittleEndian.PutUint16":
					if len(a.Args) == 2 {
						note(a.Args[0])
					}
				default:
					any := false
					for _, arg := range a.Args {
						if r := rootOf(arg); r != "" && cands(r) {
							any = true
						}
					}
					if !any {
						return true
					}
					callee := tr.staticCallee(a, fd)
					if callee == nil || callee == fd || simpleCtorBody(callee) != nil {
						return true
					}
					sig := tr.translate(callee, "full")
					if sig.untranslated != "" {
						return true
					}
					for i, arg := range a.Args {
						if i < len(sig.params) && sig.params[i].isBuf {
							note(arg)
						}
					}
				}
			}
			return true
		})
	}
	return out
}

// callsMonadic: does the body call a function of the package that can panic?
func (tr *translator) callsMonadic(fd *funcDecl) bool {
	found := false
	ast.Inspect(fd.decl.Body, func(n ast.Node) bool {
		call, ok := n.(*ast.CallExpr)
		if !ok || found {
			return true
		}
		callee := tr.staticCallee(call, fd)
		if callee == nil || callee == fd || simpleCtorBody(callee) != nil {
			return true
		}
		sig := tr.translate(callee, "full")
		if sig.untranslated == "" && (sig.shape == "resv" || sig.shape == "mut") {
			found = true
		}
		return true
	})
	return found
}
