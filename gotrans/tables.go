package main

// THE MAPPING TABLES (trusted, meant to be read).
//
// The generated code speaks the vocabulary of coq/PacketModel.v: a Go packet struct becomes a
// constructor of PacketModel.req / PacketModel.resp, a Go error value becomes a constructor of
// PacketModel.perr (message texts dropped).

// ctor says how a composite literal of a Go struct is written in the model.
//
//	coq      the constructor, possibly already applied to the function code
//	args     the Go fields that become its arguments, in order; "F[i]" = element i of array field F
//	zero     Go fields that carry no information in the model and must be 0 in every literal
//	ignore   Go fields that the model does not have (texts)
//	typeName the Gallina type of the result
type ctor struct {
	coq      string
	args     []string
	zero     []string
	ignore   []string
	typeName string
}

var structTable = map[string]ctor{
	// header: only the transaction id is information; ProtocolID is 0 in every literal
	"MBAPHeader": {coq: "", args: []string{"TransactionID"}, zero: []string{"ProtocolID"}, typeName: "N"},

	// requests                                   PacketModel.req
	"ReadCoilsRequest":                  {coq: "RRead 1", args: []string{"UnitID", "StartAddress", "Quantity"}, typeName: "req"},
	"ReadDiscreteInputsRequest":         {coq: "RRead 2", args: []string{"UnitID", "StartAddress", "Quantity"}, typeName: "req"},
	"ReadHoldingRegistersRequest":       {coq: "RRead 3", args: []string{"UnitID", "StartAddress", "Quantity"}, typeName: "req"},
	"ReadInputRegistersRequest":         {coq: "RRead 4", args: []string{"UnitID", "StartAddress", "Quantity"}, typeName: "req"},
	"WriteSingleCoilRequest":            {coq: "RWCoil", args: []string{"UnitID", "Address", "CoilState"}, typeName: "req"},
	"WriteSingleRegisterRequest":        {coq: "RWReg", args: []string{"UnitID", "Address", "Data[0]", "Data[1]"}, typeName: "req"},
	"WriteMultipleCoilsRequest":         {coq: "RWCoils", args: []string{"UnitID", "StartAddress", "CoilCount", "Data"}, typeName: "req"},
	"WriteMultipleRegistersRequest":     {coq: "RWRegs", args: []string{"UnitID", "StartAddress", "RegisterCount", "Data"}, typeName: "req"},
	"ReadServerIDRequest":               {coq: "RSrvId", args: []string{"UnitID"}, typeName: "req"},
	"ReadWriteMultipleRegistersRequest": {coq: "RRW", args: []string{"UnitID", "ReadStartAddress", "ReadQuantity", "WriteStartAddress", "WriteQuantity", "WriteData"}, typeName: "req"},

	// responses                                  PacketModel.resp
	"ReadCoilsResponse":                  {coq: "PBytes 1", args: []string{"UnitID", "CoilsByteLength", "Data"}, typeName: "resp"},
	"ReadDiscreteInputsResponse":         {coq: "PBytes 2", args: []string{"UnitID", "InputsByteLength", "Data"}, typeName: "resp"},
	"ReadHoldingRegistersResponse":       {coq: "PBytes 3", args: []string{"UnitID", "RegisterByteLen", "Data"}, typeName: "resp"},
	"ReadInputRegistersResponse":         {coq: "PBytes 4", args: []string{"UnitID", "RegisterByteLen", "Data"}, typeName: "resp"},
	"ReadWriteMultipleRegistersResponse": {coq: "PBytes 23", args: []string{"UnitID", "RegisterByteLen", "Data"}, typeName: "resp"},
	"WriteSingleCoilResponse":            {coq: "PWCoil", args: []string{"UnitID", "StartAddress", "CoilState"}, typeName: "resp"},
	"WriteSingleRegisterResponse":        {coq: "PWReg", args: []string{"UnitID", "Address", "Data[0]", "Data[1]"}, typeName: "resp"},
	"WriteMultipleCoilsResponse":         {coq: "PWMulti 15", args: []string{"UnitID", "StartAddress", "CoilCount"}, typeName: "resp"},
	"WriteMultipleRegistersResponse":     {coq: "PWMulti 16", args: []string{"UnitID", "StartAddress", "RegisterCount"}, typeName: "resp"},
	"ReadServerIDResponse":               {coq: "PSrvId", args: []string{"UnitID", "Status", "ServerID", "AdditionalData"}, typeName: "resp"},

	// registers.go                                RegistersModel.registers (data is a GoSem.slice)
	"Registers": {coq: "Build_registers", args: []string{"defaultByteOrder", "startAddress", "endAddress", "data"}, typeName: "registers"},

	// error payloads                              PacketModel.exc / perr
	"ErrorResponseTCP": {coq: "mk_exc", args: []string{"TransactionID", "UnitID", "Function", "Code"}, typeName: "exc"},
	"ErrorResponseRTU": {coq: "", args: []string{"UnitID", "Function", "Code"}, typeName: "(N * N * N)"},
}

// A struct that consists of embedded structs only is a tuple of its parts:
//   XRequestTCP{MBAPHeader, XRequest}  ->  (tid, req)        XRequestRTU{XRequest}  ->  req
// (derived from the declaration, see (*pkg).wrapperParts).

// recordTable: structs of package modbus (builder.go, splitter.go) that the generated code holds as
// RECORDS of coq/BuilderSpec.v / coq/BuilderModel.v: a value is a term of the record type, a field
// read is the projection, a composite literal is the constructor, an assignment to a field of a
// local variable rebuilds the record.
//
//	fields  Go field -> projection, in the order of the constructor's arguments
//	opaque  Go fields whose content the model carries in another form: any use is outside the fragment
//	zero    Go fields without counterpart: they must keep their zero value
type recField struct{ goName, proj string }
type record struct {
	coqType string
	ctor    string
	fields  []recField
	opaque  []string
	zero    []string
}

var recordTable = map[string]record{
	"Field": {coqType: "field", ctor: "Build_field",
		fields: []recField{{"Name", "f_name"}, {"ServerAddress", "f_server"}, {"UnitID", "f_unit"}, {"Address", "f_addr"},
			{"Type", "f_type"}, {"Bit", "f_bit"}, {"FromHighByte", "f_high"}, {"Length", "f_len"}, {"ByteOrder", "f_order"}},
		opaque: []string{"Name"}}, // the model numbers the definitions instead of naming them
	"builderSlot": {coqType: "slot", ctor: "Build_slot",
		fields: []recField{{"address", "s_addr"}, {"size", "s_size"}, {"fields", "s_fields"}}},
	"builderSlotGroup": {coqType: "sgroup", ctor: "Build_sgroup",
		fields: []recField{{"serverAddress", "g_server"}, {"unitID", "g_unit"}, {"isForCoils", "g_coils"}, {"slots", "g_slots"}}},
	"requestBatch": {coqType: "batch", ctor: "Build_batch",
		fields: []recField{{"Address", "b_server"}, {"UnitID", "b_unit"}, {"StartAddress", "b_start"}, {"Quantity", "b_qty"}, {"fields", "b_fields"}},
		zero:   []string{"IsForCoils"}},
}

// how a value returned as interface{} is written as a RegistersSpec.aval, by its static Go type
func anyWrap(t *typ) string {
	switch {
	case t.k == kBool:
		return "VBool"
	case t.isUint() || t.k == kF32 || t.k == kFloat:
		return "(fun v => VInt (Z.of_N v))"
	case t.isSint() || t.k == kInt:
		return "VInt"
	case t.k == kString || t.k == kBytes:
		return "VBytes"
	}
	return ""
}

// errCtor says how a Go struct used AS AN ERROR VALUE is written as a PacketModel.perr.
//
//	payload  the field holding the exception record
var errTable = map[string]struct {
	coq     string
	payload string // "" = the struct itself is the payload
	spread  bool   // constructor takes the payload's fields as separate arguments
}{
	"ErrorParseTCP":    {coq: "EParseTCP", payload: "Packet"},
	"ErrorParseRTU":    {coq: "EParseRTU", payload: "Packet", spread: true},
	"ErrorResponseTCP": {coq: "ERespTCP"},
	"ErrorResponseRTU": {coq: "ERespRTU", spread: true},
}

// package-level error variables (sentinels) -> perr
var sentinelTable = map[string]string{
	"ErrTCPDataTooShort": "ETooShortTCP",
	"ErrIsNotTCPPacket":  "ENotTCP",
	"ErrInvalidCRC":      "EInvalidCRC",
}

// calls that build an error whose only content is a text -> EPlain
var plainErrorCalls = map[string]bool{"errors.New": true, "fmt.Errorf": true}

// which functions are translated (by name); everything they call is translated on demand
// targets of package modbus (stage 6)
var rootTargets = map[string]bool{
	"Field.registerSize": true, "Field.Validate": true, "builderSlots.IndexOf": true, "slotsSorter.Less": true,
	"builderSlotGroup.AddField": true, "batchToRequests": true, "Field.ExtractFrom": true,
	// NOT translated (outside the fragment; see the report in DESIGN.md / the stage-6 notes):
	//   groupForSingleConnection            a Go map keyed by fmt.Sprintf strings, iterated in random order
	//   BuilderRequest.extractRegisterFields / extractCoilFields / ExtractFields
	//                                       dynamic dispatch through interface values (response.AsRegisters,
	//                                       type switch), error values stored as data in FieldValue
	//   split                               calls the two above and the packet constructors through an interface
}

func isTarget(fd *funcDecl) (mode string, ok bool) {
	n := fd.decl.Name.Name
	switch {
	case fd.file == "registers.go":
		// stage 5: everything in registers.go
		return "full", true
	case fd.recv != "" && n == "ExpectedResponseLength":
		return "full", true
	case fd.recv != "" && (n == "Bytes" || n == "bytes"):
		// stage 4: the encoders
		return "full", true
	case fd.recv != "":
		return "", false
	case n == "putReadRequestBytes", n == "CoilsToBytes", n == "isBitSet":
		return "full", true
	case n == "CRC16", n == "ParseMBAPHeader", n == "LooksLikeModbusTCP",
		n == "AsTCPErrorPacket", n == "AsRTUErrorPacket", n == "AsRTUErrorPacketWithCRC":
		return "full", true
	case hasPrefix(n, "Parse") && (hasSuffix(n, "TCP") || hasSuffix(n, "RTU") || hasSuffix(n, "Request") ||
		hasSuffix(n, "Response") || hasSuffix(n, "WithCRC")):
		return "full", true
	case hasPrefix(n, "New") && (hasSuffix(n, "RequestTCP") || hasSuffix(n, "RequestRTU")):
		return "accepts", true
	}
	return "", false
}

func hasPrefix(s, p string) bool { return len(s) >= len(p) && s[:len(p)] == p }
func hasSuffix(s, p string) bool { return len(s) >= len(p) && s[len(s)-len(p):] == p }
