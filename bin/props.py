"""Per-property configuration of bin/check: Coq cone, harness streams, evidence texts."""

TRUSTED_BASE = [
    "Coq 8.16.1 kernel (coqc full .vo build) and its vm_compute; native_compute is not used",
    "axioms: none declared; Print Assumptions output of every property theorem is recorded in print_assumptions",
    "hand-written Coq models of the Go code, tied to /repo by the differential correspondence run of this check (evaluations / mismatches) and by a kernel-evaluated golden sample",
    "extraction: ExtrOcamlBasic only (bool, option, unit, list, prod, sumbool, sumor; inlined andb/orb/negb/fst/snd); no Extract Constant/Inductive of our own; N/Z/nat/positive/string stay extracted Coq inductives; OCaml 4.13.1",
    "Go harness (harness/, built against /repo's working tree) and ocaml/driver.ml value parser/printer and bookkeeping",
    "Spec.v / CrcSpec.v as the reading of the Modbus specifications",
]

BASE = ["GoSem.v", "Val.v", "Dispatch.v"]

NOT_YET = {}

PROPS = {
    "C03": {
        "level_text": "Theorems: the model of CRC16 equals the bit-vector CRC of the serial-line specification for every byte string (induction; 2^16-state bit step by a kernel sweep), every RTU encoder of the model ends in that CRC low byte first, the CRC-checking dispatchers accept iff the trailer equals the CRC. The model is tied to the Go code by running both on the same inputs on every run.",
        "level_note": "Trusted: Coq kernel + vm_compute, the hand-written model (checked against the code only on the generated cases of each run), CrcSpec.v as the reading of the serial-line specification, extraction (ExtrOcamlBasic only), harness and driver glue.",
        "streams": ["crc"],
        "coq_deps": BASE + ["CrcModel.v", "CrcSpec.v", "proofs/CrcProofs.v"],
        "rule": "CRC16 on every byte string of length <= 2 (65 793, exhaustive) and random strings of 0..300 bytes; "
                "distinct = distinct (entry, input) pairs; every case is non-trivial (each is judged against the "
                "bit-vector CRC of the serial-line specification)",
        "assumptions": ["Go's uint16 arithmetic is modelled as N with explicit masks"],
    },
}
