(* PacketModel.v -- hand-written, executable transcription of package packet (the repaired tree):
   MBAP header, LooksLikeModbusTCP, the 20 request constructors, Bytes() and
   ExpectedResponseLength(), the 20 request parsers, the 20 response encoders/parsers, the exception
   packets and recognisers, the six dispatchers, CoilsToBytes and isBitSet.

   Functions that are copy-pasted in Go (FC1/FC2, FC3/FC4/FC23 responses, ...) share a parametrised
   definition here; the harness still exercises every Go copy separately.  Written in the order of
   the Go source, quirks included (e.g. the FC1/FC2 parsers' limit of 125, the wrong-function
   exception of the FC6 TCP parser naming function 5, the ExpectedResponseLength formulas).

   Domain: Bytes() of the variable-length packets is modelled for payloads whose length fits the
   count byte the way the constructors and parsers guarantee (<= 255); beyond that Go's uint8/uint16
   index arithmetic wraps (see DESIGN.md, trusted base). *)
Require Import MB.GoSem MB.CrcModel.
Open Scope N_scope.

(* ---------- errors ---------- *)
Record exc := { x_tid : N; x_unit : N; x_fc : N; x_code : N }.

Inductive perr :=
| ETooShortTCP                 (* the sentinel packet.ErrTCPDataTooShort (an *ErrorParseTCP, code 0) *)
| ENotTCP                      (* the sentinel packet.ErrIsNotTCPPacket   (an *ErrorParseTCP, code 0) *)
| EParseTCP (e : exc)          (* *ErrorParseTCP  *)
| EParseRTU (u f c : N)        (* *ErrorParseRTU  *)
| ERespTCP (e : exc)           (* *ErrorResponseTCP: a device exception *)
| ERespRTU (u f c : N)         (* *ErrorResponseRTU *)
| EInvalidCRC                  (* packet.ErrInvalidCRC *)
| EPlain.                      (* errors.New / fmt.Errorf: message not modelled *)

Definition pres := res perr.

Definition mk_exc (tid u fc code : N) : exc := {| x_tid := tid; x_unit := u; x_fc := fc; x_code := code |}.
(* NewErrorParseTCP(code, _) *)
Definition new_err_tcp (code : N) : perr := EParseTCP (mk_exc 0 0 0 code).
Definition new_err_rtu (code : N) : perr := EParseRTU 0 0 code.
(* tmpErr := NewErrorParseTCP(code, _); tmpErr.Packet.TransactionID = ...; ... *)
Definition err_tcp (tid u fc code : N) : perr := EParseTCP (mk_exc tid u fc code).

(* ---------- exception packets ---------- *)
(* ErrorResponseTCP.Bytes *)
Definition exc_bytes_tcp (e : exc) : list N :=
  put16 (x_tid e) ++ [0; 0] ++ [0; 3] ++ [x_unit e; add8 (x_fc e) 128; x_code e].
(* ErrorResponseRTU.Bytes *)
Definition exc_bytes_rtu (u f c : N) : list N := with_crc [u; add8 f 128; c].

(* the bytes an error puts on the wire when the server sends err.Bytes() after the type assertion to ErrorParseTCP *)
Definition err_wire_tcp (e : perr) : option (list N) :=
  match e with
  | ETooShortTCP | ENotTCP => Some (exc_bytes_tcp (mk_exc 0 0 0 0))
  | EParseTCP x => Some (exc_bytes_tcp x)
  | _ => None      (* not an *ErrorParseTCP: the type assertion in ReceiveRead would panic *)
  end.

(* AsTCPErrorPacket *)
Definition as_tcp_error (d : slice) : pres (option exc) :=
  if negb (slen d =? 9)%nat then Ok None else
  let* f := idx d 7 in
  if negb (N.land f 128 =? 0) then
    let* t := sub d 0 2 in
    let* u := idx d 6 in
    let* c := idx d 8 in
    Ok (Some (mk_exc (be16 t) u (sub8 f 128) c))
  else Ok None.

(* AsRTUErrorPacket *)
Definition as_rtu_error (d : slice) : pres (option (N * N * N)) :=
  if negb (slen d =? 5)%nat then Ok None else
  let* f := idx d 1 in
  if negb (N.land f 128 =? 0) then
    let* u := idx d 0 in
    let* c := idx d 2 in
    Ok (Some (u, sub8 f 128, c))
  else Ok None.

(* AsRTUErrorPacketWithCRC *)
Definition as_rtu_error_crc (d : slice) : pres (option (N * N * N)) :=
  if negb (slen d =? 5)%nat then Ok None else
  let* t := sub d 3 5 in
  let* b := sub d 0 3 in
  if negb (le16 t =? crc16 b) then Ok None else as_rtu_error d.

(* ---------- MBAP header ---------- *)
(* MBAPHeader.bytes *)
Definition mbap_bytes (tid len : N) : list N := put16 tid ++ [0; 0] ++ put16 len.

(* ParseMBAPHeader: returns the transaction id *)
Definition parse_mbap (d : slice) : pres N :=
  if (slen d <? 6)%nat then Err (new_err_tcp 4) else
  let* b2 := idx d 2 in
  let* b3 := idx d 3 in
  if negb (b2 =? 0) || negb (b3 =? 0) then Err (new_err_tcp 4) else
  let* l := sub d 4 6 in
  let pdu := be16 l in
  if pdu =? 0 then Err (new_err_tcp 4) else
  if negb (N.of_nat (slen d) =? 6 + pdu) then Err (new_err_tcp 4) else
  let* t := sub d 0 2 in
  Ok (be16 t).

Definition supported_fcs : list N := [1; 2; 3; 4; 5; 6; 15; 16; 17; 23].
Definition is_supported (fc : N) : bool := existsb (N.eqb fc) supported_fcs.

(* LooksLikeModbusTCP: Go returns (expectedLen, error), both may be set *)
Definition looks_like (d : slice) (allow_unsupported : bool) : pres (N * option perr) :=
  if (slen d <? 8)%nat then Ok (0, Some ETooShortTCP) else
  let* b2 := idx d 2 in
  let* b3 := idx d 3 in
  if negb ((b2 =? 0) && (b3 =? 0)) then Ok (0, Some ENotTCP) else
  let* l := sub d 4 6 in
  let pdu := be16 l in
  let* fc := idx d 7 in
  if (pdu <? 3) && negb ((pdu =? 2) && (fc =? 17)) then Ok (0, Some ENotTCP) else
  if fc =? 0 then Ok (0, Some ENotTCP) else
  let n := pdu + 6 in
  if allow_unsupported then Ok (n, None) else
  if is_supported fc then Ok (n, None) else
  let* t := sub d 0 2 in
  let* u := idx d 6 in
  Ok (n, Some (err_tcp (be16 t) u fc 1)).

(* ---------- requests ---------- *)
Inductive req :=
| RRead (fc u start qty : N)                       (* FC1..FC4 *)
| RWCoil (u addr : N) (state : bool)               (* FC5 *)
| RWReg (u addr d0 d1 : N)                         (* FC6 *)
| RWCoils (u start count : N) (data : list N)      (* FC15 *)
| RWRegs (u start count : N) (data : list N)       (* FC16 *)
| RSrvId (u : N)                                   (* FC17 *)
| RRW (u rstart rqty wstart wqty : N) (data : list N). (* FC23 *)

Definition req_fc (r : req) : N :=
  match r with
  | RRead fc _ _ _ => fc | RWCoil _ _ _ => 5 | RWReg _ _ _ _ => 6 | RWCoils _ _ _ _ => 15
  | RWRegs _ _ _ _ => 16 | RSrvId _ => 17 | RRW _ _ _ _ _ _ => 23
  end.
Definition req_unit (r : req) : N :=
  match r with
  | RRead _ u _ _ => u | RWCoil u _ _ => u | RWReg u _ _ _ => u | RWCoils u _ _ _ => u
  | RWRegs u _ _ _ => u | RSrvId u => u | RRW u _ _ _ _ _ => u
  end.

(* CoilsToBytes *)
Fixpoint update (l : list N) (k : nat) (v : N) : list N :=
  match l, k with
  | [], _ => []
  | _ :: r, O => v :: r
  | x :: r, S k' => x :: update r k' v
  end.
Fixpoint set_bits (coils : list bool) (i : nat) (acc : list N) : list N :=
  match coils with
  | [] => acc
  | c :: r =>
      let acc' := if c then update acc (i / 8) (N.lor (nth (i / 8) acc 0) (N.shiftl 1 (N.of_nat (i mod 8)))) else acc in
      set_bits r (S i) acc'
  end.
Definition byte_count (n : nat) : nat := (n / 8 + (if (n mod 8 =? 0)%nat then 0 else 1))%nat.
Definition coils_to_bytes (coils : list bool) : list N :=
  set_bits coils 0 (repeat 0 (byte_count (length coils))).

(* constructors: New...Request{TCP,RTU}.  The transaction id (random in Go) is not part of [req];
   the TCP packet is a pair (tid, req). *)
Definition max_read (fc : N) : N := if (fc =? 1) || (fc =? 2) then 2000 else 125.
Definition new_read (fc u start qty : N) : pres req :=
  if (qty =? 0) || (max_read fc <? qty) then Err EPlain else Ok (RRead fc u start qty).
Definition new_wcoil (u addr : N) (st : bool) : pres req := Ok (RWCoil u addr st).
(* copy(w.Data[:], data): shorter is zero padded, longer is cut *)
Definition new_wreg (u addr : N) (data : list N) : pres req :=
  Ok (RWReg u addr (nth 0 data 0) (nth 1 data 0)).
Definition new_wcoils (u start : N) (coils : list bool) : pres req :=
  let n := length coils in
  if (n =? 0)%nat || (1968 <? n)%nat then Err EPlain
  else Ok (RWCoils u start (u16 (N.of_nat n)) (coils_to_bytes coils)).
Definition new_wregs (u start : N) (data : list N) : pres req :=
  let n := length data in
  if negb (n mod 2 =? 0)%nat then Err EPlain else
  if (n =? 0)%nat || (248 <? n)%nat then Err EPlain
  else Ok (RWRegs u start (u16 (N.of_nat (n / 2))) data).
Definition new_srvid (u : N) : pres req := Ok (RSrvId u).
Definition new_rw (u rstart rqty wstart : N) (data : list N) : pres req :=
  if (rqty =? 0) || (124 <? rqty) then Err EPlain else
  let n := length data in
  if negb (n mod 2 =? 0)%nat then Err EPlain else
  if (n =? 0)%nat || (248 <? n)%nat then Err EPlain
  else Ok (RRW u rstart rqty wstart (u16 (N.of_nat (n / 2))) data).

(* the PDU with the unit id in front: <X>Request.bytes / Bytes() *)
Definition req_body (r : req) : list N :=
  match r with
  | RRead fc u start qty => [u; fc] ++ put16 start ++ put16 qty
  | RWCoil u addr st => [u; 5] ++ put16 addr ++ put16 (if st then 0xFF00 else 0)
  | RWReg u addr d0 d1 => [u; 6] ++ put16 addr ++ [d0; d1]
  | RWCoils u start count data => [u; 15] ++ put16 start ++ put16 count ++ [u8 (N.of_nat (length data))] ++ data
  | RWRegs u start count data => [u; 16] ++ put16 start ++ put16 count ++ [u8 (N.of_nat (length data))] ++ data
  | RSrvId u => [u; 17]
  | RRW u rs rq ws wq data =>
      [u; 23] ++ put16 rs ++ put16 rq ++ put16 ws ++ put16 wq ++ [u8 (N.of_nat (length data))] ++ data
  end.
(* the uint16 "length" that goes into the MBAP header *)
Definition req_len16 (r : req) : N :=
  match r with
  | RWCoils _ _ _ data | RWRegs _ _ _ data => u16 (7 + u16 (N.of_nat (length data)))
  | RRW _ _ _ _ _ data => u16 (11 + u16 (N.of_nat (length data)))
  | RSrvId _ => 2
  | _ => 6
  end.
Definition req_bytes_tcp (tid : N) (r : req) : list N := mbap_bytes tid (req_len16 r) ++ req_body r.
Definition req_bytes_rtu (r : req) : list N := with_crc (req_body r).

(* ExpectedResponseLength *)
Definition coil_byte_len (q : N) : N := (q + 7) / 8.
Definition expected_len_tcp (r : req) : N :=
  match r with
  | RRead fc _ _ q => if (fc =? 1) || (fc =? 2) then 6 + 3 + coil_byte_len q else 6 + 3 + 2 * q
  | RWCoil _ _ _ => 6 + 3 + 2
  | RWReg _ _ _ _ => 6 + 6
  | RWCoils _ _ _ _ => 6 + 6
  | RWRegs _ _ _ _ => 6 + 6
  | RSrvId _ => 6 + 2
  | RRW _ _ rq _ _ _ => 6 + 11 + rq * 2
  end.
Definition expected_len_rtu (r : req) : N :=
  match r with
  | RRead fc _ _ q => if (fc =? 1) || (fc =? 2) then 4 + coil_byte_len q else 4 + 2 * q
  | RWCoil _ _ _ => 6
  | RWReg _ _ _ _ => 6
  | RWCoils _ _ _ _ => 6 + 2
  | RWRegs _ _ _ _ => 6 + 2
  | RSrvId _ => 2
  | RRW _ _ rq _ _ _ => 4 + 2 * rq + 2
  end.

(* ---------- request parsers, TCP ---------- *)
Definition in_range (lo hi x : N) : bool := (lo <=? x) && (x <=? hi).

(* Parse{ReadCoils,ReadDiscreteInputs,ReadHoldingRegisters,ReadInputRegisters}RequestTCP *)
Definition parse_read_req_tcp (fc : N) (d : slice) : pres (N * req) :=
  let* tid := parse_mbap d in
  if (slen d <? 12)%nat then let* u := idx d 6 in Err (err_tcp tid u fc 3) else
  let* u := idx d 6 in
  let* f := idx d 7 in
  if negb (f =? fc) then Err (err_tcp tid u fc 1) else
  let* ql := sub d 10 12 in
  let q := be16 ql in
  if negb (in_range 1 125 q) then Err (err_tcp tid u fc 3) else
  let* sl := sub d 8 10 in
  Ok (tid, RRead fc u (be16 sl) q).

(* ParseWriteSingleCoilRequestTCP *)
Definition parse_wcoil_req_tcp (d : slice) : pres (N * req) :=
  let* tid := parse_mbap d in
  if (slen d <? 12)%nat then let* u := idx d 6 in Err (err_tcp tid u 5 3) else
  let* u := idx d 6 in
  let* f := idx d 7 in
  if negb (f =? 5) then Err (err_tcp tid u 5 1) else
  let* cl := sub d 10 12 in
  let raw := be16 cl in
  if negb (raw =? 0xFF00) && negb (raw =? 0) then Err (err_tcp tid u 5 3) else
  let* al := sub d 8 10 in
  Ok (tid, RWCoil u (be16 al) (raw =? 0xFF00)).

(* ParseWriteSingleRegisterRequestTCP -- the wrong-function exception names function 5 (as in Go) *)
Definition parse_wreg_req_tcp (d : slice) : pres (N * req) :=
  let* tid := parse_mbap d in
  if (slen d <? 12)%nat then let* u := idx d 6 in Err (err_tcp tid u 6 3) else
  let* u := idx d 6 in
  let* f := idx d 7 in
  if negb (f =? 6) then Err (err_tcp tid u 5 1) else
  let* al := sub d 8 10 in
  let* d0 := idx d 10 in
  let* d1 := idx d 11 in
  Ok (tid, RWReg u (be16 al) d0 d1).

(* ParseWriteMultipleCoilsRequestTCP *)
Definition parse_wcoils_req_tcp (d : slice) : pres (N * req) :=
  let* tid := parse_mbap d in
  if (slen d <? 13)%nat then let* u := idx d 6 in Err (err_tcp tid u 15 3) else
  let* u := idx d 6 in
  let* f := idx d 7 in
  if negb (f =? 15) then Err (err_tcp tid u 15 1) else
  let* cl := sub d 10 12 in
  let cnt := be16 cl in
  if negb (in_range 1 1968 cnt) then Err (err_tcp tid u 15 3) else
  let* bc := idx d 12 in
  if (slen d <? 13 + N.to_nat bc)%nat then Err (err_tcp tid u 15 3) else
  let* data := (if 0 <? bc then sub d 13 (13 + N.to_nat bc) else Ok []) in
  let* sl := sub d 8 10 in
  Ok (tid, RWCoils u (be16 sl) cnt data).

(* ParseWriteMultipleRegistersRequestTCP *)
Definition parse_wregs_req_tcp (d : slice) : pres (N * req) :=
  let* tid := parse_mbap d in
  if (slen d <? 13)%nat then let* u := idx d 6 in Err (err_tcp tid u 16 3) else
  let* u := idx d 6 in
  let* f := idx d 7 in
  if negb (f =? 16) then Err (err_tcp tid u 16 1) else
  let* cl := sub d 10 12 in
  let cnt := be16 cl in
  if negb (in_range 1 123 cnt) then Err (err_tcp tid u 16 3) else
  let* bc := idx d 12 in
  if negb (slen d =? 13 + N.to_nat bc)%nat then Err (err_tcp tid u 16 3) else
  let* data := (if 0 <? bc then sub d 13 (13 + N.to_nat bc) else Ok []) in
  let* sl := sub d 8 10 in
  Ok (tid, RWRegs u (be16 sl) cnt data).

(* ParseReadServerIDRequestTCP *)
Definition parse_srvid_req_tcp (d : slice) : pres (N * req) :=
  let* tid := parse_mbap d in
  if (slen d <? 8)%nat then let* u := idx d 6 in Err (err_tcp tid u 17 3) else
  let* u := idx d 6 in
  let* f := idx d 7 in
  if negb (f =? 17) then Err (err_tcp tid u 17 1) else
  Ok (tid, RSrvId u).

(* ParseReadWriteMultipleRegistersRequestTCP *)
Definition parse_rw_req_tcp (d : slice) : pres (N * req) :=
  let* tid := parse_mbap d in
  if (slen d <? 17)%nat then let* u := idx d 6 in Err (err_tcp tid u 23 3) else
  let* u := idx d 6 in
  let* f := idx d 7 in
  if negb (f =? 23) then Err (err_tcp tid u 23 1) else
  let* rql := sub d 10 12 in
  let rq := be16 rql in
  if negb (in_range 1 125 rq) then Err (err_tcp tid u 23 3) else
  let* wql := sub d 14 16 in
  let wq := be16 wql in
  if negb (in_range 1 121 wq) then Err (err_tcp tid u 23 3) else
  let* bc := idx d 16 in
  if (slen d <? 17 + N.to_nat bc)%nat then Err (err_tcp tid u 23 3) else
  let* data := (if 0 <? bc then sub d 17 (17 + N.to_nat bc) else Ok []) in
  let* rsl := sub d 8 10 in
  let* wsl := sub d 12 14 in
  Ok (tid, RRW u (be16 rsl) rq (be16 wsl) wq data).

(* ParseTCPRequest *)
Definition parse_tcp_request (d : slice) : pres (N * req) :=
  if (slen d <? 8)%nat then Err ETooShortTCP else
  let* fc := idx d 7 in
  if (fc =? 1) || (fc =? 2) || (fc =? 3) || (fc =? 4) then parse_read_req_tcp fc d else
  if fc =? 5 then parse_wcoil_req_tcp d else
  if fc =? 6 then parse_wreg_req_tcp d else
  if fc =? 15 then parse_wcoils_req_tcp d else
  if fc =? 16 then parse_wregs_req_tcp d else
  if fc =? 17 then parse_srvid_req_tcp d else
  if fc =? 23 then parse_rw_req_tcp d else
  Err (new_err_tcp 1).

(* ---------- request parsers, RTU (with or without the CRC trailer; CRC not checked) ---------- *)
Definition parse_read_req_rtu (fc : N) (d : slice) : pres req :=
  if negb (slen d =? 8)%nat && negb (slen d =? 6)%nat then Err (new_err_rtu 4) else
  let* u := idx d 0 in
  let* f := idx d 1 in
  if negb (f =? fc) then Err (EParseRTU u fc 1) else
  let* ql := sub d 4 6 in
  let q := be16 ql in
  if negb (in_range 1 125 q) then Err (EParseRTU u fc 3) else
  let* sl := sub d 2 4 in
  Ok (RRead fc u (be16 sl) q).

Definition parse_wcoil_req_rtu (d : slice) : pres req :=
  if negb (slen d =? 8)%nat && negb (slen d =? 6)%nat then Err (new_err_rtu 4) else
  let* u := idx d 0 in
  let* f := idx d 1 in
  if negb (f =? 5) then Err (EParseRTU u 5 1) else
  let* cl := sub d 4 6 in
  let raw := be16 cl in
  if negb (raw =? 0xFF00) && negb (raw =? 0) then Err (EParseRTU u 5 3) else
  let* al := sub d 2 4 in
  Ok (RWCoil u (be16 al) (raw =? 0xFF00)).

Definition parse_wreg_req_rtu (d : slice) : pres req :=
  if negb (slen d =? 8)%nat && negb (slen d =? 6)%nat then Err (new_err_rtu 4) else
  let* u := idx d 0 in
  let* f := idx d 1 in
  if negb (f =? 6) then Err (EParseRTU u 6 1) else
  let* al := sub d 2 4 in
  let* d0 := idx d 4 in
  let* d1 := idx d 5 in
  Ok (RWReg u (be16 al) d0 d1).

Definition parse_wcoils_req_rtu (d : slice) : pres req :=
  if (slen d <? 7)%nat then Err (new_err_rtu 4) else
  let* u := idx d 0 in
  let* f := idx d 1 in
  if negb (f =? 15) then Err (EParseRTU u 15 1) else
  let* cl := sub d 4 6 in
  let cnt := be16 cl in
  if negb (in_range 1 1968 cnt) then Err (EParseRTU u 15 3) else
  let* bc := idx d 6 in
  let expected := (7 + N.to_nat bc)%nat in
  if negb (slen d =? expected)%nat && negb (slen d =? expected + 2)%nat then Err (EParseRTU u 15 3) else
  let* data := (if 0 <? bc then sub d 7 (7 + N.to_nat bc) else Ok []) in
  let* sl := sub d 2 4 in
  Ok (RWCoils u (be16 sl) cnt data).

Definition parse_wregs_req_rtu (d : slice) : pres req :=
  if (slen d <? 8)%nat then Err (new_err_rtu 4) else
  let* u := idx d 0 in
  let* f := idx d 1 in
  if negb (f =? 16) then Err (EParseRTU u 16 1) else
  let* cl := sub d 4 6 in
  let cnt := be16 cl in
  if negb (in_range 1 123 cnt) then Err (EParseRTU u 16 3) else
  let* bc := idx d 6 in
  let expected := (7 + N.to_nat bc)%nat in
  if negb (slen d =? expected)%nat && negb (slen d =? expected + 2)%nat then Err (EParseRTU u 16 3) else
  let* data := (if 0 <? bc then sub d 7 (7 + N.to_nat bc) else Ok []) in
  let* sl := sub d 2 4 in
  Ok (RWRegs u (be16 sl) cnt data).

Definition parse_srvid_req_rtu (d : slice) : pres req :=
  if negb (slen d =? 4)%nat && negb (slen d =? 2)%nat then Err (new_err_rtu 4) else
  let* u := idx d 0 in
  let* f := idx d 1 in
  if negb (f =? 17) then Err (EParseRTU u 17 1) else
  Ok (RSrvId u).

Definition parse_rw_req_rtu (d : slice) : pres req :=
  if (slen d <? 12)%nat then Err (new_err_rtu 4) else
  let* u := idx d 0 in
  let* f := idx d 1 in
  if negb (f =? 23) then Err (EParseRTU u 23 1) else
  let* rql := sub d 4 6 in
  let rq := be16 rql in
  if negb (in_range 1 125 rq) then Err (EParseRTU u 23 3) else
  let* wql := sub d 8 10 in
  let wq := be16 wql in
  if negb (in_range 1 121 wq) then Err (EParseRTU u 23 3) else
  let* bc := idx d 10 in
  let expected := (11 + N.to_nat bc)%nat in
  if negb (slen d =? expected)%nat && negb (slen d =? expected + 2)%nat then Err (EParseRTU u 23 3) else
  let* data := (if 0 <? bc then sub d 11 (11 + N.to_nat bc) else Ok []) in
  let* rsl := sub d 2 4 in
  let* wsl := sub d 6 8 in
  Ok (RRW u (be16 rsl) rq (be16 wsl) wq data).

(* ParseRTURequest *)
Definition parse_rtu_request (d : slice) : pres req :=
  if (slen d <? 4)%nat then Err EPlain else
  let* fc := idx d 1 in
  if (fc =? 1) || (fc =? 2) || (fc =? 3) || (fc =? 4) then parse_read_req_rtu fc d else
  if fc =? 5 then parse_wcoil_req_rtu d else
  if fc =? 6 then parse_wreg_req_rtu d else
  if fc =? 15 then parse_wcoils_req_rtu d else
  if fc =? 16 then parse_wregs_req_rtu d else
  if fc =? 17 then parse_srvid_req_rtu d else
  if fc =? 23 then parse_rw_req_rtu d else
  Err EPlain.

(* the CRC gate shared by ParseRTURequestWithCRC / ParseRTUResponseWithCRC *)
Definition crc_gate {A} (d : slice) (k : slice -> pres A) : pres A :=
  if (slen d <? 4)%nat then Err EPlain else
  let n := slen d in
  let* t := sub d (n - 2) n in
  let* b := sub d 0 (n - 2) in
  if negb (le16 t =? crc16 b) then Err EInvalidCRC else k d.

Definition parse_rtu_request_crc (d : slice) : pres req := crc_gate d parse_rtu_request.

(* ---------- responses ---------- *)
Inductive resp :=
| PBytes (fc u blen : N) (data : list N)   (* FC1,2,3,4,23: UnitID, byte-length field, Data *)
| PWCoil (u addr : N) (state : bool)       (* FC5 *)
| PWReg (u addr d0 d1 : N)                 (* FC6 *)
| PWMulti (fc u start count : N)           (* FC15, FC16 *)
| PSrvId (u status : N) (id add : list N). (* FC17 *)

Definition resp_fc (p : resp) : N :=
  match p with
  | PBytes fc _ _ _ => fc | PWCoil _ _ _ => 5 | PWReg _ _ _ _ => 6 | PWMulti fc _ _ _ => fc | PSrvId _ _ _ _ => 17
  end.
Definition resp_unit (p : resp) : N :=
  match p with
  | PBytes _ u _ _ => u | PWCoil u _ _ => u | PWReg u _ _ _ => u | PWMulti _ u _ _ => u | PSrvId u _ _ _ => u
  end.

Definition is_coil_fc (fc : N) : bool := (fc =? 1) || (fc =? 2).

(* <X>Response.bytes.  FC1/FC2 derive the count byte from len(Data); FC3/FC4/FC23 use the
   RegisterByteLen field and copy Data into a buffer of that size. *)
Definition resp_body (p : resp) : list N :=
  match p with
  | PBytes fc u blen data =>
      if is_coil_fc fc
      then [u; fc; u8 (N.of_nat (length data))] ++ data
      else [u; fc; blen] ++ firstn (N.to_nat blen) (data ++ repeat 0 (N.to_nat blen))
  | PWCoil u addr st => [u; 5] ++ put16 addr ++ put16 (if st then 0xFF00 else 0)
  | PWReg u addr d0 d1 => [u; 6] ++ put16 addr ++ [d0; d1]
  | PWMulti fc u start count => [u; fc] ++ put16 start ++ put16 count
  | PSrvId u status id add => [u; 17; u8 (N.of_nat (length id))] ++ id ++ [status] ++ add
  end.
Definition resp_len16 (p : resp) : N := u16 (N.of_nat (length (resp_body p))).
Definition resp_bytes_tcp (tid : N) (p : resp) : list N := mbap_bytes tid (resp_len16 p) ++ resp_body p.
Definition resp_bytes_rtu (p : resp) : list N := with_crc (resp_body p).

(* Parse{ReadCoils,ReadDiscreteInputs}ResponseTCP (min 10), Parse{ReadHolding,ReadInput,ReadWrite}...TCP (min 11) *)
Definition parse_bytes_resp_tcp (fc : N) (d : slice) : pres (N * resp) :=
  if (slen d <? (if is_coil_fc fc then 10 else 11))%nat then Err EPlain else
  let* bl := idx d 8 in
  if negb (slen d =? 9 + N.to_nat bl)%nat then Err EPlain else
  let* t := sub d 0 2 in
  let* u := idx d 6 in
  let* data := sub d 9 (9 + N.to_nat bl) in
  Ok (be16 t, PBytes fc u bl data).
Definition parse_bytes_resp_rtu (fc : N) (d : slice) : pres resp :=
  if (slen d <? (if is_coil_fc fc then 6 else 7))%nat then Err EPlain else
  let* bl := idx d 2 in
  if negb (slen d =? 3 + N.to_nat bl + 2)%nat then Err EPlain else
  let* u := idx d 0 in
  let* data := sub d 3 (3 + N.to_nat bl) in
  Ok (PBytes fc u bl data).

(* the four fixed 12-byte TCP responses check the MBAP length field *)
Definition fixed_resp_guard_tcp (d : slice) : pres N :=
  if (slen d <? 12)%nat then Err EPlain else
  let* l := sub d 4 6 in
  if negb (N.of_nat (slen d) =? 6 + be16 l) then Err EPlain else
  let* t := sub d 0 2 in
  Ok (be16 t).
Definition fixed_resp_guard_rtu (d : slice) : pres unit :=
  if (slen d <? 8)%nat then Err EPlain else
  if (8 <? slen d)%nat then Err EPlain else Ok tt.

Definition parse_wcoil_resp_tcp (d : slice) : pres (N * resp) :=
  let* tid := fixed_resp_guard_tcp d in
  let* u := idx d 6 in
  let* al := sub d 8 10 in
  let* cl := sub d 10 12 in
  Ok (tid, PWCoil u (be16 al) (be16 cl =? 0xFF00)).
Definition parse_wcoil_resp_rtu (d : slice) : pres resp :=
  let* _ := fixed_resp_guard_rtu d in
  let* u := idx d 0 in
  let* al := sub d 2 4 in
  let* cl := sub d 4 6 in
  Ok (PWCoil u (be16 al) (be16 cl =? 0xFF00)).

Definition parse_wreg_resp_tcp (d : slice) : pres (N * resp) :=
  let* tid := fixed_resp_guard_tcp d in
  let* u := idx d 6 in
  let* al := sub d 8 10 in
  let* d0 := idx d 10 in
  let* d1 := idx d 11 in
  Ok (tid, PWReg u (be16 al) d0 d1).
Definition parse_wreg_resp_rtu (d : slice) : pres resp :=
  let* _ := fixed_resp_guard_rtu d in
  let* u := idx d 0 in
  let* al := sub d 2 4 in
  let* d0 := idx d 4 in
  let* d1 := idx d 5 in
  Ok (PWReg u (be16 al) d0 d1).

Definition parse_wmulti_resp_tcp (fc : N) (d : slice) : pres (N * resp) :=
  let* tid := fixed_resp_guard_tcp d in
  let* u := idx d 6 in
  let* sl := sub d 8 10 in
  let* cl := sub d 10 12 in
  Ok (tid, PWMulti fc u (be16 sl) (be16 cl)).
Definition parse_wmulti_resp_rtu (fc : N) (d : slice) : pres resp :=
  let* _ := fixed_resp_guard_rtu d in
  let* u := idx d 0 in
  let* sl := sub d 2 4 in
  let* cl := sub d 4 6 in
  Ok (PWMulti fc u (be16 sl) (be16 cl)).

(* ParseReadServerIDResponseTCP: the count byte is read as the server-id length; status and
   additional data follow it (the library's own layout) *)
Definition parse_srvid_resp_tcp (d : slice) : pres (N * resp) :=
  if (slen d <? 11)%nat then Err EPlain else
  let* il := idx d 8 in
  if il =? 0 then Err EPlain else
  let sidx := (8 + N.to_nat il + 1)%nat in
  if (slen d <=? sidx)%nat then Err EPlain else
  let* id := sub d 9 (9 + N.to_nat il) in
  let* st := idx d sidx in
  let* add := (if (sidx + 1 <? slen d)%nat then from d (sidx + 1) else Ok []) in
  let* t := sub d 0 2 in
  let* u := idx d 6 in
  Ok (be16 t, PSrvId u st id add).
Definition parse_srvid_resp_rtu (d : slice) : pres resp :=
  if (slen d <? 7)%nat then Err EPlain else
  let* il := idx d 2 in
  if il =? 0 then Err EPlain else
  let sidx := (2 + N.to_nat il + 1)%nat in
  if (slen d - 2 <=? sidx)%nat then Err EPlain else
  let* id := sub d 3 (3 + N.to_nat il) in
  let* st := idx d sidx in
  let* add := (if (sidx + 1 <? slen d)%nat then sub d (sidx + 1) (slen d - 2) else Ok []) in
  let* u := idx d 0 in
  Ok (PSrvId u st id add).

(* ParseTCPResponse *)
Definition parse_tcp_response (d : slice) : pres (N * resp) :=
  if (slen d <? 8)%nat then Err EPlain else
  let* e := as_tcp_error d in
  match e with
  | Some x => Err (ERespTCP x)
  | None =>
      let* fc := idx d 7 in
      if (fc =? 1) || (fc =? 2) || (fc =? 3) || (fc =? 4) || (fc =? 23) then parse_bytes_resp_tcp fc d else
      if fc =? 5 then parse_wcoil_resp_tcp d else
      if fc =? 6 then parse_wreg_resp_tcp d else
      if (fc =? 15) || (fc =? 16) then parse_wmulti_resp_tcp fc d else
      if fc =? 17 then parse_srvid_resp_tcp d else
      Err EPlain
  end.

(* ParseRTUResponse *)
Definition parse_rtu_response (d : slice) : pres resp :=
  if (slen d <? 4)%nat then Err EPlain else
  let* e := as_rtu_error d in
  match e with
  | Some (u, f, c) => Err (ERespRTU u f c)
  | None =>
      let* fc := idx d 1 in
      if (fc =? 1) || (fc =? 2) || (fc =? 3) || (fc =? 4) || (fc =? 23) then parse_bytes_resp_rtu fc d else
      if fc =? 5 then parse_wcoil_resp_rtu d else
      if fc =? 6 then parse_wreg_resp_rtu d else
      if (fc =? 15) || (fc =? 16) then parse_wmulti_resp_rtu fc d else
      if fc =? 17 then parse_srvid_resp_rtu d else
      Err EPlain
  end.

Definition parse_rtu_response_crc (d : slice) : pres resp := crc_gate d parse_rtu_response.

(* ---------- coil lookup ---------- *)
(* isBitSet: bytes are indexed from the END of the payload (as in Go) *)
Definition is_bit_set (data : list N) (start bit : N) : option bool :=   (* None = error *)
  let target := sub16 bit start in
  if bit <? start then None else
  if (N.of_nat (length data) * 8 <=? target) then None else
  let nth_byte := (length data - 1 - N.to_nat (target / 8))%nat in
  Some (N.testbit (nth nth_byte data 0) (target mod 8)).
