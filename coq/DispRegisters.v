(* DispRegisters.v -- correspondence entries of the Registers layer (properties C04 and C13):
   how the model (RegistersModel.v) computes each projected outcome, and how the executable
   statements of the properties (from RegistersSpec.v) judge an implementation outcome.

   Entries (harness/cmd/observe/registers.go):
     reg_new      [vis; spare; start]                        NewRegisters only
     reg_access3  [vis; s1; s2; start; dflt; code; addr; p1; p2]
                  one accessor call on a fresh Registers over the payload [vis] handed over with no
                  spare capacity, with spare bytes s1 and with spare bytes s2:
                  [[outcome; buffer after]; [..]; [..]]
     reg_access3r [vis; s1; s2; start; dflt; code; addr; p1; p2; route; blmode]
                  the same, but the Registers object is obtained from AsRegisters(start) of a response
                  VALUE {UnitID; RegisterByteLen; Data} of type ReadHoldingRegistersResponse (route 1),
                  ReadInputRegistersResponse (2), ReadWriteMultipleRegistersResponse (3) whose
                  RegisterByteLen is consistent with len(Data) (blmode 0), zero (1), len/2 (2), len+2 (3).
                  The field is redundant: the payload is Data, so model, specification and verdict are
                  those of reg_access3 -- an implementation that goes by the field reads bytes beyond
                  the payload, refuses a valid payload or panics, and is judged accordingly.
     reg_seq      [vis; spare; start; dflt; [[code; addr; p1; p2]; ...]]   (code 24 = WithByteOrder(p1))
                  the calls in order on ONE Registers, then each call on a fresh copy:
                  [[outcomes shared]; [outcomes fresh]; buffer after]
   dflt = -1: default order untouched, otherwise WithByteOrder(dflt) is called first.
   code: 1 Bit(p1) 2 Byte(p1) 3 Uint8(p1) 4 Int8(p1) 5 Uint16 6 Int16 7 Uint32 8 Uint32WithByteOrder(p1)
     9 Int32 10 Int32WithByteOrder(p1) 11 Uint64 12 Uint64WithByteOrder(p1) 13 Int64
     14 Int64WithByteOrder(p1) 15 Float32 16 Float32WithByteOrder(p1) 17 Float64
     18 Float64WithByteOrder(p1) 19 String(len p1) 20 StringWithByteOrder(len p1, order p2)
     21 Register 22 DoubleRegister(p1) 23 QuadRegister(p1).
   outcome: [0; value] ok, [1; 0; 1] NewRegisters refused (and returned nil), [1; 1; z] the accessor
   returned an error (z = 1: together with the zero value), [2] panic. *)
Require Import MB.GoSem MB.Val MB.Entry MB.RegistersSpec MB.RegistersModel.
From Coq Require Import String.
Notation length := List.length (only parsing).
Open Scope N_scope.

Definition accessor_of_code (code p1 p2 : N) : option accessor :=
  if code =? 1 then Some (ABit p1) else
  if code =? 2 then Some (AByte (negb (p1 =? 0))) else
  if code =? 3 then Some (AUint8 (negb (p1 =? 0))) else
  if code =? 4 then Some (AInt8 (negb (p1 =? 0))) else
  if code =? 5 then Some AUint16 else
  if code =? 6 then Some AInt16 else
  if code =? 7 then Some AUint32 else
  if code =? 8 then Some (AUint32BO p1) else
  if code =? 9 then Some AInt32 else
  if code =? 10 then Some (AInt32BO p1) else
  if code =? 11 then Some AUint64 else
  if code =? 12 then Some (AUint64BO p1) else
  if code =? 13 then Some AInt64 else
  if code =? 14 then Some (AInt64BO p1) else
  if code =? 15 then Some AFloat32 else
  if code =? 16 then Some (AFloat32BO p1) else
  if code =? 17 then Some AFloat64 else
  if code =? 18 then Some (AFloat64BO p1) else
  if code =? 19 then Some (AString p1) else
  if code =? 20 then Some (AStringBO p1 p2) else
  if code =? 21 then Some ARegister else
  if code =? 22 then Some (ADoubleRegister p1) else
  if code =? 23 then Some (AQuadRegister p1) else None.

Definition proj_aval (v : aval) : val :=
  match v with VBool b => vbool b | VInt z => VI z | VBytes l => VB l end.

Definition out_new_refused : val := v_err [VI 0%Z; VI 1%Z].
Definition out_access_err : val := v_err [VI 1%Z; VI 1%Z].
Definition proj_outcome (x : rres aval) : val :=
  match x with Ok v => v_ok [proj_aval v] | Err _ => out_access_err | Panic => v_panic end.

Definition buffer (d : slice) : list N := vis d ++ spare d.

(* NewRegisters, then WithByteOrder when dflt >= 0 *)
Definition make_registers (v s : list N) (start : N) (dflt : Z) : rres registers :=
  let* r := new_registers {| vis := v; spare := s |} start in
  Ok (if (dflt <? 0)%Z then r else with_byte_order r (zN dflt)).

(* ---------- reg_new ---------- *)
Definition run_reg_new (a : list val) : val :=
  match a with
  | [VB v; VB s; VI start] =>
      match new_registers {| vis := v; spare := s |} (zN start) with
      | Ok _ => v_ok [] | Err _ => v_err [VI 1%Z] | Panic => v_panic end
  | _ => v_bad
  end.

(* ---------- reg_access3 ---------- *)
Definition run_access1 (v s : list N) (start : N) (dflt : Z) (a : accessor) (addr : N) : val :=
  match make_registers v s start dflt with
  | Ok r => let '(x, d) := access r a addr in VL [proj_outcome x; VB (buffer d)]
  | Err _ => VL [out_new_refused; VB (v ++ s)]
  | Panic => VL [v_panic; VB (v ++ s)]
  end.
Definition run_reg_access3 (a : list val) : val :=
  match a with
  | [VB v; VB s1; VB s2; VI start; VI dflt; VI code; VI addr; VI p1; VI p2] =>
      match accessor_of_code (zN code) (zN p1) (zN p2) with
      | Some acc =>
          VL [run_access1 v [] (zN start) dflt acc (zN addr);
              run_access1 v s1 (zN start) dflt acc (zN addr);
              run_access1 v s2 (zN start) dflt acc (zN addr)]
      | None => v_bad
      end
  | _ => v_bad
  end.

(* ---------- reg_access3r: through AsRegisters of a response value ---------- *)
Definition byte_len_of_mode (blmode : N) (v : list N) : N :=
  let n := N.of_nat (length v) in
  u8 (if blmode =? 1 then 0 else if blmode =? 2 then n / 2 else if blmode =? 3 then n + 2 else n).
Definition make_registers_via (blmode : N) (v s : list N) (start : N) (dflt : Z) : rres registers :=
  let* r := as_registers (byte_len_of_mode blmode v) {| vis := v; spare := s |} start in
  Ok (if (dflt <? 0)%Z then r else with_byte_order r (zN dflt)).
Definition run_access1_via (blmode : N) (v s : list N) (start : N) (dflt : Z) (a : accessor) (addr : N) : val :=
  match make_registers_via blmode v s start dflt with
  | Ok r => let '(x, d) := access r a addr in VL [proj_outcome x; VB (buffer d)]
  | Err _ => VL [out_new_refused; VB (v ++ s)]
  | Panic => VL [v_panic; VB (v ++ s)]
  end.
Definition run_reg_access3r (a : list val) : val :=
  match a with
  | [VB v; VB s1; VB s2; VI start; VI dflt; VI code; VI addr; VI p1; VI p2; VI route; VI blmode] =>
      if (1 <=? zN route) && (zN route <=? 3) && (zN blmode <=? 3) then
        match accessor_of_code (zN code) (zN p1) (zN p2) with
        | Some acc =>
            VL [run_access1_via (zN blmode) v [] (zN start) dflt acc (zN addr);
                run_access1_via (zN blmode) v s1 (zN start) dflt acc (zN addr);
                run_access1_via (zN blmode) v s2 (zN start) dflt acc (zN addr)]
        | None => v_bad
        end
      else v_bad
  | _ => v_bad
  end.

(* ---------- reg_seq ---------- *)
(* an element of the sequence is a read [code; addr; p1; p2] (codes 1..23) or the re-configuration
   WithByteOrder(bo), written [24; 0; bo; 0]; the outcome of the latter is [0] (it returned the
   object it was called on) *)
Fixpoint ops_of (l : list val) : option (list op) :=
  match l with
  | [] => Some []
  | VL [VI code; VI addr; VI p1; VI p2] :: t =>
      match ops_of t with
      | Some os =>
          if zN code =? 24 then Some (OpOrder (zN p1) :: os) else
          match accessor_of_code (zN code) (zN p1) (zN p2) with
          | Some a => Some (OpRead a (zN addr) :: os)
          | None => None
          end
      | None => None
      end
  | _ => None
  end.
(* the outcomes of the reads put back at their places in the sequence *)
Fixpoint weave (os : list op) (xs : list val) : list val :=
  match os with
  | [] => []
  | OpOrder _ :: rest => v_ok [] :: weave rest xs
  | OpRead _ _ :: rest => match xs with x :: xs' => x :: weave rest xs' | [] => [v_bad] end
  end.
(* each element on a fresh copy [r0] of the object as constructed: WithByteOrder(the last order set
   before it in the sequence, if any), then the read *)
Fixpoint fresh_vals (r0 : registers) (cur : option N) (os : list op) : list val :=
  match os with
  | [] => []
  | OpOrder bo :: rest => v_ok [] :: fresh_vals r0 (Some bo) rest
  | OpRead a addr :: rest =>
      let r := match cur with Some bo => with_byte_order r0 bo | None => r0 end in
      proj_outcome (fst (access r a addr)) :: fresh_vals r0 cur rest
  end.
Definition run_reg_seq (a : list val) : val :=
  match a with
  | [VB v; VB s; VI start; VI dflt; VL cl] =>
      match ops_of cl with
      | Some os =>
          match make_registers v s (zN start) dflt with
          | Ok r =>
              let '(xs, r') := run_ops r os in
              VL [VL (weave os (map proj_outcome xs));
                  VL (fresh_vals r None os);
                  VB (buffer (r_data r'))]
          | Err _ => VL [out_new_refused]
          | Panic => VL [v_panic]
          end
      | None => v_bad
      end
  | _ => v_bad
  end.

(* ---------- the properties' executable statements ---------- *)
(* the default order of a Registers object the library documents: BigEndianHighWordFirst *)
Definition library_default : N := 9.
Definition dflt_order (dflt : Z) : N := if (dflt <? 0)%Z then library_default else zN dflt.

(* C04: what the specification prescribes as outcome, for an object whose default order is [o] *)
Definition spec_outcome_order (v : list N) (start : N) (o : N) (a : accessor) (addr : N) : val :=
  if spec_payload_ok v then
    match spec_access v start o a addr with
    | Some x => v_ok [proj_aval x]
    | None => out_access_err
    end
  else out_new_refused.
Definition spec_outcome (v : list N) (start : N) (dflt : Z) (a : accessor) (addr : N) : val :=
  spec_outcome_order v start (dflt_order dflt) a addr.

Definition verdict_reg_new (p : N) (a : list val) (out : val) : N :=
  if p =? 4 then
    match a with
    | [VB v; VB _; VI _] =>
        if val_eqb out (if spec_payload_ok v then v_ok [] else v_err [VI 1%Z]) then HOLDS else VIOLATES
    | _ => NOT_JUDGED
    end
  else NOT_JUDGED.

Definition fst_is (o expected : val) : bool :=
  match o with VL [x; VB _] => val_eqb x expected | _ => false end.
Definition snd_is (o : val) (expected : list N) : bool :=
  match o with VL [_; VB b] => list_eqb b expected | _ => false end.

Definition verdict_reg_access3 (p : N) (a : list val) (out : val) : N :=
  match a, out with
  | [VB v; VB s1; VB s2; VI start; VI dflt; VI code; VI addr; VI p1; VI p2], VL [o0; o1; o2] =>
      if p =? 4 then
        (* the specified value or an error; never a panic; whatever the spare capacity holds *)
        match accessor_of_code (zN code) (zN p1) (zN p2) with
        | Some acc =>
            let e := spec_outcome v (zN start) dflt acc (zN addr) in
            if fst_is o0 e && fst_is o1 e && fst_is o2 e then HOLDS else VIOLATES
        | None => NOT_JUDGED
        end
      else if p =? 13 then
        (* the response buffer is what it was *)
        if snd_is o0 v && snd_is o1 (v ++ s1) && snd_is o2 (v ++ s2) then HOLDS else VIOLATES
      else NOT_JUDGED
  | _, _ => if (p =? 4) || (p =? 13) then VIOLATES else NOT_JUDGED
  end.

(* the payload of a response value is its Data: the verdict does not look at route / blmode *)
Definition verdict_reg_access3r (p : N) (a : list val) (out : val) : N :=
  match a with
  | [v; s1; s2; start; dflt; code; addr; p1; p2; VI _; VI _] =>
      verdict_reg_access3 p [v; s1; s2; start; dflt; code; addr; p1; p2] out
  | _ => if (p =? 4) || (p =? 13) then VIOLATES else NOT_JUDGED
  end.

(* every read of the sequence returns what the specification prescribes under the order in force:
   the one set by the last WithByteOrder before it (any value, 0 included: the value is stored as
   it is), else the one the object was constructed with *)
Fixpoint all_spec (v : list N) (start : N) (o : N) (os : list op) (outs : list val) : bool :=
  match os, outs with
  | [], [] => true
  | OpOrder bo :: os', out :: outs' => val_eqb out (v_ok []) && all_spec v start bo os' outs'
  | OpRead a addr :: os', out :: outs' =>
      val_eqb out (spec_outcome_order v start o a addr) && all_spec v start o os' outs'
  | _, _ => false
  end.

Definition verdict_reg_seq (p : N) (a : list val) (out : val) : N :=
  match a, out with
  | [VB v; VB s; VI start; VI dflt; VL cl], VL [VL shared; VL fresh; VB after] =>
      if p =? 13 then
        (* every call on the shared object returns what it returns on a fresh copy (configured with
           the last order set before the call), and the buffer is unchanged at the end *)
        if val_eqb (VL shared) (VL fresh) && list_eqb after (v ++ s) && (length shared =? length cl)%nat
        then HOLDS else VIOLATES
      else if p =? 4 then
        match ops_of cl with
        | Some os => if all_spec v (zN start) (dflt_order dflt) os shared then HOLDS else VIOLATES
        | None => NOT_JUDGED
        end
      else NOT_JUDGED
  | [VB v; VB _; VI _; VI _; VL _], VL [o] =>
      if p =? 4 then (if negb (spec_payload_ok v) && val_eqb o out_new_refused then HOLDS else VIOLATES)
      else if p =? 13 then VIOLATES else NOT_JUDGED
  | _, _ => if (p =? 4) || (p =? 13) then VIOLATES else NOT_JUDGED
  end.

Definition table_registers : list entry :=
  [ {| e_name := "reg_new"; e_run := run_reg_new; e_verdict := verdict_reg_new |};
    {| e_name := "reg_access3"; e_run := run_reg_access3; e_verdict := verdict_reg_access3 |};
    {| e_name := "reg_access3r"; e_run := run_reg_access3r; e_verdict := verdict_reg_access3r |};
    {| e_name := "reg_seq"; e_run := run_reg_seq; e_verdict := verdict_reg_seq |} ].
