(* GenPrelude5.v -- vocabulary of Properties/Gen_Server.v: the request path of coq/ServerModel.v
   ([handle], [drain]) rewritten so that every packet-level computation is a definition that gotrans
   regenerates from /repo/packet (gen/PacketGen.v, gen/PacketGen2.v).  Nothing here is generated:
   server/modbus.go has no pure function of its own (see proofs/GenEquiv5.v). *)
Require Import MB.GoSem MB.CrcModel MB.PacketModel MB.ServerModel.
Require Import MB.GenPrelude MB.GenPrelude2 MB.gen.PacketGen MB.gen.PacketGen2.
Open Scope N_scope.

(* err.( *packet.ErrorParseTCP): the payload of the errors that ARE an *ErrorParseTCP (the two
   sentinels included), None for every other error type (the assertion panics) *)
Definition as_error_parse_tcp (e : perr) : option exc :=
  match e with
  | ETooShortTCP | ENotTCP => Some (mk_exc 0 0 0 0)
  | EParseTCP x => Some x
  | _ => None
  end.

(* every byte of the frame (visible and spare) is a byte *)
Definition byte_frame (d : slice) : Prop := bytes_ok (vis d) /\ bytes_ok (spare d).

(* handle, with every packet-level step replaced by the generated definition *)
Section Handle.
Variable handler : N * req -> handler_result.

Definition handle_gen (frame : slice) : pres (list N) :=
  match g_ParseTCPRequest frame with
  | Panic => Panic
  | Err e =>
      match as_error_parse_tcp e with
      | Some x => g_ErrorParseTCP_Bytes (x_tid x) (x_unit x) (x_fc x) (x_code x)
      | None => Panic
      end
  | Ok p =>
      match handler p with
      | HResp w => Ok w
      | HPanic => Panic
      | HErrTyped code =>
          let* t := sub frame 0 2 in let* u := idx frame 6 in let* f := idx frame 7 in
          g_ErrorResponseTCP_Bytes (be16 t) u f code
      | HErrGeneric =>
          let* t := sub frame 0 2 in let* u := idx frame 6 in let* f := idx frame 7 in
          g_ErrorResponseTCP_Bytes (be16 t) u f (Z.to_N c_ErrUnknown)
      end
  end.
End Handle.

(* the loop of ReceiveRead, with the classifier and the replies replaced by the generated definitions *)
Section Drain.
Variable handler : N * req -> handler_result.

Definition wire_gen (e : perr) : pres (list N) :=
  match as_error_parse_tcp e with
  | Some x => g_ErrorParseTCP_Bytes (x_tid x) (x_unit x) (x_fc x) (x_code x)
  | None => Panic
  end.
Definition answer_gen (frame : slice) (err : option perr) : pres (list N) :=
  match err with Some e => wire_gen e | None => handle_gen handler frame end.

Fixpoint drain_gen (fuel : nat) (b : list N) (response : list N) : rr :=
  match fuel with
  | O => {| r_buf := b; r_out := response; r_status := OutOfFuel |}
  | S fuel' =>
    match g_LooksLikeModbusTCP (exact b) false with
    | Panic | Err _ => panicked b
    | Ok (n, err) =>
      match err with
      | Some ETooShortTCP => {| r_buf := b; r_out := response; r_status := Open |}
      | _ =>
        if (n =? 0)%Z then
          match err with
          | Some e => match wire_gen e with
                      | Ok w => {| r_buf := []; r_out := response ++ w; r_status := Closed |}
                      | _ => panicked []
                      end
          | None => panicked []
          end
        else if (Z.of_nat (length b) <? n)%Z then {| r_buf := b; r_out := response; r_status := Open |}
        else
          let k := Z.to_nat n in
          let frame := {| vis := firstn k b; spare := skipn k b |} in
          let b' := skipn k b in
          match answer_gen frame err with
          | Ok w => drain_gen fuel' b' (response ++ w)
          | _ => panicked b'
          end
      end
    end
  end.
End Drain.
