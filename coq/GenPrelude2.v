(* GenPrelude2.v -- vocabulary of gen/PacketGen2.v: the functional store model for byte slices that
   the translated code CREATES and WRITES (encoders, CoilsToBytes, ...), on top of GenPrelude.

   A slice that a function creates with make (or receives and writes into) is a Gallina [list N]:
   its visible bytes.  Every write yields a new list; the translator threads the current list
   through the statements (a fresh name per write) and keeps track, at translation time, of Go
   variables that denote the same slice (bytes := r.X.bytes(result)).  A write through a re-slice
   (copy(dst[a:b], src), PutUint16(dst[a:b], v), f(dst[a:b])) reads the window with [lsub], computes
   its new content and puts it back with [lsplice].

   Capacity is NOT represented for these lists: a re-slice beyond the length (legal in Go up to the
   capacity) is Panic here.  make([]byte, n) has capacity n, so this only matters for windows
   handed to a callee; the obligations all state `= Ok ...`, and a run of the generated code that
   is Ok never met that case, so it coincides with Go's. *)
From Coq Require Import ZifyBool ZifyN ZifyNat.
Require Import MB.GoSem MB.CrcModel MB.PacketModel MB.GenPrelude.
Open Scope N_scope.
Ltac Zify.zify_post_hook ::= Z.to_euclidean_division_equations.

(* ---------- lists addressed by a Go int ---------- *)
Fixpoint upd {A} (l : list A) (k : nat) (v : A) : list A :=
  match l, k with
  | [], _ => []
  | _ :: r, O => v :: r
  | x :: r, S k' => x :: upd r k' v
  end.

(* l[i] *)
Definition lget {E A} (l : list A) (i : Z) : res E A :=
  if (i <? 0)%Z then Panic else
  match nth_error l (Z.to_nat i) with Some x => Ok x | None => Panic end.
(* l[i] = v *)
Definition lset {E A} (l : list A) (i : Z) (v : A) : res E (list A) :=
  if ((i <? 0) || (llen l <=? i))%Z then Panic else Ok (upd l (Z.to_nat i) v).
(* l[a:b] (read, or the window of a write); l[a:] = lsub l a (llen l); l[:b] = lsub l 0 b *)
Definition lsub {E A} (l : list A) (a b : Z) : res E (list A) :=
  if ((a <? 0) || (b <? a) || (llen l <? b))%Z then Panic
  else Ok (firstn (Z.to_nat (b - a)) (skipn (Z.to_nat a) l)).
(* put the new content w of the window starting at a back into l *)
Definition lsplice {A} (l : list A) (a : Z) (w : list A) : list A :=
  firstn (Z.to_nat a) l ++ w ++ skipn (Z.to_nat a + length w) l.
(* binary.BigEndian.PutUint16(w, v):  _ = w[1]; w[0] = byte(v >> 8); w[1] = byte(v) *)
Definition lput16 {E} (w : list N) (v : N) : res E (list N) :=
  if (length w <? 2)%nat then Panic else Ok (u8 (N.shiftr v 8) :: u8 v :: skipn 2 w).
(* x << n for a uint8 x and a count of type int: a negative count panics *)
Definition zshl8 {E} (a : N) (n : Z) : res E N :=
  if (n <? 0)%Z then Panic else Ok (shl8 a (Z.to_N n)).
Definition zshl16 {E} (a : N) (n : Z) : res E N :=
  if (n <? 0)%Z then Panic else Ok (shl16 a (Z.to_N n)).

(* for i := lo; i < hi; i++ { st = f st i }  (hi not changed by the body, no break) *)
Fixpoint mfold {E S} (f : S -> Z -> res E S) (i : Z) (count : nat) (st : S) : res E S :=
  match count with
  | O => Ok st
  | S k => let* st' := f st i in mfold f (i + 1)%Z k st'
  end.
Definition zfor {E S} (f : S -> Z -> res E S) (lo hi : Z) (st : S) : res E S :=
  mfold f lo (Z.to_nat (hi - lo)) st.

(* ---------- lengths and elements (the theory the encoder proofs rewrite with) ---------- *)
Lemma upd_length {A} (l : list A) k v : length (upd l k v) = length l.
Proof. revert k. induction l as [|x l IH]; intros [|k]; cbn; try reflexivity. f_equal. apply IH. Qed.

Lemma nth_upd (l : list N) k v j :
  nth j (upd l k v) 0 = if ((j =? k) && (k <? length l))%nat then v else nth j l 0.
Proof.
  revert k j. induction l as [|x l IH]; intros k j.
  - cbn. destruct k, j; cbn; rewrite ?andb_false_r; reflexivity.
  - destruct k as [|k], j as [|j]; cbn [upd nth length]; try reflexivity.
    rewrite IH. cbn. reflexivity.
Qed.

Lemma nth_firstn0 (l : list N) n j : nth j (firstn n l) 0 = if (j <? n)%nat then nth j l 0 else 0.
Proof.
  revert n j. induction l as [|x l IH]; intros n j.
  - rewrite firstn_nil. destruct j; cbn [nth]; destruct (Nat.ltb _ n); reflexivity.
  - destruct n as [|n]; [destruct j; reflexivity|]. destruct j as [|j]; [reflexivity|].
    cbn [firstn nth]. rewrite IH. reflexivity.
Qed.

Lemma nth_skipn0 (l : list N) n j : nth j (skipn n l) 0 = nth (n + j) l 0.
Proof.
  revert l. induction n as [|n IH]; intros l; [reflexivity|].
  destruct l as [|x l]; [destruct j; reflexivity|]. cbn [skipn Nat.add nth]. apply IH.
Qed.

Lemma nth_app0 (a b : list N) j :
  nth j (a ++ b) 0 = if (j <? length a)%nat then nth j a 0 else nth (j - length a) b 0.
Proof.
  destruct (j <? length a)%nat eqn:E.
  - apply app_nth1. lia.
  - apply app_nth2. lia.
Qed.

Lemma nth_cons0 (x : N) l j : nth j (x :: l) 0 = if (j =? 0)%nat then x else nth (j - 1) l 0.
Proof. destruct j as [|j]; [reflexivity|]. cbn [nth Nat.eqb]. rewrite Nat.sub_succ, Nat.sub_0_r. reflexivity. Qed.

Lemma nth_nil0 j : nth j (@nil N) 0 = 0.
Proof. destruct j; reflexivity. Qed.

Lemma nth_repeat0 n j : nth j (repeat 0 n) 0 = 0.
Proof. revert j. induction n as [|n IH]; intros [|j]; cbn; auto. Qed.

(* ---------- vocabulary of the encoder obligations ---------- *)
(* [wat l a w]: l with w written at position a (cut off at the end of l) *)
Fixpoint wat (l : list N) (a : nat) (w : list N) : list N :=
  match l with
  | [] => []
  | x :: r =>
      match a with
      | S a' => x :: wat r a' w
      | O => match w with [] => x :: r | y :: w' => y :: wat r 0 w' end
      end
  end.

Lemma wat_length l : forall a w, length (wat l a w) = length l.
Proof. induction l as [|x l IH]; intros [|a] [|y w]; cbn; auto. Qed.

Lemma nth_wat l : forall a w j,
  nth j (wat l a w) 0 =
  if ((a <=? j) && (j <? a + length w) && (j <? length l))%nat then nth (j - a) w 0 else nth j l 0.
Proof.
  induction l as [|x l IH]; intros a w j.
  - cbn [wat length]. rewrite nth_nil0. replace (j <? 0)%nat with false by lia. rewrite andb_false_r. reflexivity.
  - destruct a as [|a].
    + destruct w as [|y w].
      * cbn [wat length]. replace (j <? 0 + 0)%nat with false by lia. rewrite andb_false_r. reflexivity.
      * cbn [wat]. destruct j as [|j]; [reflexivity|]. cbn [nth]. rewrite IH. cbn [length].
        replace (S j - 0)%nat with (S (j - 0)) by lia. cbn [nth].
        replace ((0 <=? S j) && (S j <? 0 + S (length w)) && (S j <? S (length l)))%nat
          with ((0 <=? j) && (j <? 0 + length w) && (j <? length l))%nat by lia. reflexivity.
    + cbn [wat]. destruct j as [|j]; [reflexivity|]. cbn [nth]. rewrite IH. cbn [length].
      replace (S j - S a)%nat with (j - a)%nat by lia.
      replace ((S a <=? S j) && (S j <? S a + length w) && (S j <? S (length l)))%nat
        with ((a <=? j) && (j <? a + length w) && (j <? length l))%nat by lia. reflexivity.
Qed.


(* isBitSet returns (bool, error); the model an option *)
Definition bit_res (o : option bool) : pres bool := match o with Some x => Ok x | None => Err EPlain end.
