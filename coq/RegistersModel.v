(* RegistersModel.v -- hand-written, executable transcription of /repo/packet/registers.go (the
   repaired tree: bounds in uint32/int arithmetic, String works on a copy), function by function in
   the order of the Go source.

   * The payload is a [GoSem.slice] (visible bytes + spare capacity): [r.data[i:j]] is [sub] (legal
     up to the capacity, reads stale bytes beyond the length), [r.data[i]] is [idx] (panics beyond
     the length).  A sub-slice handed on ([b := r.data[i:i+2]]) is carried as the list of its
     bytes; indexing it ([b[0]], [binary.BigEndian.Uint32(b)]) is [lidx]/[bin_*] and panics when
     the list is too short.
   * address / startAddress are uint16 ([sub16] where Go subtracts in uint16), endAddress is
     uint32 ([u32]), indices are int (unbounded, see DESIGN.md trusted base), bit/length/ByteOrder
     are uint8 values.
   * Every accessor returns its outcome AND the payload afterwards ([access]), so that a write
     into the shared payload would be visible.  No function of the repaired file writes to
     [r.data]: StringWithByteOrder swaps bytes in [rawBytes], a fresh copy.
   * Floats are carried as bit patterns (math.Float32frombits is the identity on patterns),
     signed integers as Z, strings as the bytes of the Go string.
   Functions that are copy-pasted in Go (Uint32/Int32/Float32..., with and without byte order)
   share a parametrised definition here; the harness exercises every Go copy separately. *)
Require Import MB.GoSem MB.RegistersSpec.
Open Scope N_scope.

Inductive rerr :=
| ETooShort | EOddLength          (* NewRegisters *)
| EUnder | EOver                  (* address under startAddress / over startAddress+quantity *)
| EBit                            (* bit value more than register contains *)
| EDataBounds.                    (* StringWithByteOrder: address over data bounds *)

Definition rres := res rerr.

(* const ( BigEndian = 1; LittleEndian = 2; LowWordFirst = 4; HighWordFirst = 8 ) *)
Definition BigEndian : N := 1.
Definition LittleEndian : N := 2.
Definition LowWordFirst : N := 4.
Definition HighWordFirst : N := 8.
(* byteOrder&flag != 0 *)
Definition has (bo flag : N) : bool := negb (N.land bo flag =? 0).

(* type Registers struct *)
Record registers := { r_order : N; r_start : N; r_end : N; r_data : slice }.

(* NewRegisters *)
Definition new_registers (data : slice) (startAddress : N) : rres registers :=
  let dataLen := N.of_nat (slen data) in
  if dataLen <? 2 then Err ETooShort else
  if negb (dataLen mod 2 =? 0) then Err EOddLength else
  Ok {| r_order := N.lor BigEndian HighWordFirst;
        r_start := startAddress;
        r_end := u32 (u32 startAddress + u32 (dataLen / 2));
        r_data := data |}.

(* ReadHoldingRegistersResponse.AsRegisters, ReadInputRegistersResponse.AsRegisters and
   ReadWriteMultipleRegistersResponse.AsRegisters (three copies of the same line in package packet):
   NewRegisters(r.Data, requestStartAddress).  The response's RegisterByteLen field is redundant with
   len(r.Data) (the parsers set it to len(Data); the fields are exported, so a response value can
   also carry 0 or any other number there) and is NOT consulted: the window is the Data slice. *)
Definition as_registers (registerByteLen : N) (data : slice) (requestStartAddress : N) : rres registers :=
  new_registers data requestStartAddress.

(* WithByteOrder *)
Definition with_byte_order (r : registers) (bo : N) : registers :=
  {| r_order := bo; r_start := r_start r; r_end := r_end r; r_data := r_data r |}.

(* b[i] on a sub-slice carried as a list *)
Definition lidx {E} (b : list N) (i : nat) : res E N :=
  match nth_error b i with Some x => Ok x | None => Panic end.

(* register *)
Definition register (r : registers) (address : N) : rres (list N) :=
  if address <? r_start r then Err EUnder else
  if r_end r <=? u32 address then Err EOver else
  let startIndex := (N.to_nat (sub16 address (r_start r)) * 2)%nat in
  sub (r_data r) startIndex (startIndex + 2).

(* Register *)
Definition Register (r : registers) (address : N) : rres (list N) :=
  let* b := register r address in
  let* b0 := lidx b 0 in let* b1 := lidx b 1 in
  Ok [b0; b1].

(* doubleRegister *)
Definition double_register (r : registers) (address byteOrder : N) : rres (list N) :=
  if address <? r_start r then Err EUnder else
  if r_end r <? u32 (u32 address + 2) then Err EOver else
  let startIndex := (N.to_nat (sub16 address (r_start r)) * 2)%nat in
  if has byteOrder LowWordFirst then
    let* x0 := idx (r_data r) (startIndex + 2) in
    let* x1 := idx (r_data r) (startIndex + 3) in
    let* x2 := idx (r_data r) startIndex in
    let* x3 := idx (r_data r) (startIndex + 1) in
    Ok [x0; x1; x2; x3]
  else sub (r_data r) startIndex (startIndex + 4).

(* DoubleRegister *)
Definition DoubleRegister (r : registers) (address byteOrder : N) : rres (list N) :=
  let* b := double_register r address byteOrder in
  let* b0 := lidx b 0 in let* b1 := lidx b 1 in let* b2 := lidx b 2 in let* b3 := lidx b 3 in
  Ok [b0; b1; b2; b3].

(* quadRegister *)
Definition quad_register (r : registers) (address byteOrder : N) : rres (list N) :=
  if address <? r_start r then Err EUnder else
  if r_end r <? u32 (u32 address + 4) then Err EOver else
  let startIndex := (N.to_nat (sub16 address (r_start r)) * 2)%nat in
  if has byteOrder LowWordFirst then
    let* x0 := idx (r_data r) (startIndex + 6) in
    let* x1 := idx (r_data r) (startIndex + 7) in
    let* x2 := idx (r_data r) (startIndex + 4) in
    let* x3 := idx (r_data r) (startIndex + 5) in
    let* x4 := idx (r_data r) (startIndex + 2) in
    let* x5 := idx (r_data r) (startIndex + 3) in
    let* x6 := idx (r_data r) startIndex in
    let* x7 := idx (r_data r) (startIndex + 1) in
    Ok [x0; x1; x2; x3; x4; x5; x6; x7]
  else sub (r_data r) startIndex (startIndex + 8).

(* QuadRegister *)
Definition QuadRegister (r : registers) (address byteOrder : N) : rres (list N) :=
  let* b := quad_register r address byteOrder in
  let* b0 := lidx b 0 in let* b1 := lidx b 1 in let* b2 := lidx b 2 in let* b3 := lidx b 3 in
  let* b4 := lidx b 4 in let* b5 := lidx b 5 in let* b6 := lidx b 6 in let* b7 := lidx b 7 in
  Ok [b0; b1; b2; b3; b4; b5; b6; b7].

(* Bit *)
Definition Bit (r : registers) (address bit : N) : rres bool :=
  if 15 <? bit then Err EBit else
  let* reg := register r address in
  let '(bit, nThByte) := if 7 <? bit then (sub8 bit 8, 0%nat) else (bit, 1%nat) in
  let* b := lidx reg nThByte in
  Ok (negb (N.land b (u8 (N.shiftl 1 bit)) =? 0)).

(* Uint8 (Byte calls Uint8) *)
Definition Uint8 (r : registers) (address : N) (fromHighByte : bool) : rres N :=
  let* b := register r address in
  if fromHighByte then lidx b 0 else lidx b 1.
Definition Byte := Uint8.

(* intN(x) for an N-bit pattern x *)
Definition to_signed (bits : N) (x : N) : Z :=
  if x <? 2 ^ (bits - 1) then Z.of_N x else (Z.of_N x - Z.of_N (2 ^ bits))%Z.

(* Int8 *)
Definition Int8 (r : registers) (address : N) (fromHighByte : bool) : rres Z :=
  let* b := register r address in
  let* x := (if fromHighByte then lidx b 0 else lidx b 1) in
  Ok (to_signed 8 x).

(* encoding/binary: each function first touches the last byte it needs (bounds check), then
   combines the bytes; for bytes (< 256) the shifts and ors are the sums below *)
Definition bin_be16 {E} (b : list N) : res E N :=
  match b with b0 :: b1 :: _ => Ok (b0 * 256 + b1) | _ => Panic end.
Definition bin_le16 {E} (b : list N) : res E N :=
  match b with b0 :: b1 :: _ => Ok (b1 * 256 + b0) | _ => Panic end.
Definition bin_be32 {E} (b : list N) : res E N :=
  match b with b0 :: b1 :: b2 :: b3 :: _ => Ok (((b0 * 256 + b1) * 256 + b2) * 256 + b3) | _ => Panic end.
Definition bin_le32 {E} (b : list N) : res E N :=
  match b with b0 :: b1 :: b2 :: b3 :: _ => Ok (((b3 * 256 + b2) * 256 + b1) * 256 + b0) | _ => Panic end.
Definition bin_be64 {E} (b : list N) : res E N :=
  match b with
  | b0 :: b1 :: b2 :: b3 :: b4 :: b5 :: b6 :: b7 :: _ =>
      Ok (((((((b0 * 256 + b1) * 256 + b2) * 256 + b3) * 256 + b4) * 256 + b5) * 256 + b6) * 256 + b7)
  | _ => Panic end.
Definition bin_le64 {E} (b : list N) : res E N :=
  match b with
  | b0 :: b1 :: b2 :: b3 :: b4 :: b5 :: b6 :: b7 :: _ =>
      Ok (((((((b7 * 256 + b6) * 256 + b5) * 256 + b4) * 256 + b3) * 256 + b2) * 256 + b1) * 256 + b0)
  | _ => Panic end.

(* Uint16 *)
Definition Uint16 (r : registers) (address : N) : rres N :=
  let* b := register r address in
  if has (r_order r) LittleEndian then bin_le16 b else bin_be16 b.
(* Int16 *)
Definition Int16 (r : registers) (address : N) : rres Z :=
  let* b := register r address in
  let* x := (if has (r_order r) LittleEndian then bin_le16 b else bin_be16 b) in
  Ok (to_signed 16 x).

(* Uint32 *)
Definition Uint32 (r : registers) (address : N) : rres N :=
  let* b := double_register r address (r_order r) in
  if has (r_order r) LittleEndian then bin_le32 b else bin_be32 b.
(* Uint32WithByteOrder *)
Definition Uint32WithByteOrder (r : registers) (address byteOrder : N) : rres N :=
  let byteOrder := if byteOrder =? 0 then r_order r else byteOrder in
  let* b := double_register r address byteOrder in
  if has byteOrder LittleEndian then bin_le32 b else bin_be32 b.
(* Int32 *)
Definition Int32 (r : registers) (address : N) : rres Z :=
  let* x := Uint32 r address in Ok (to_signed 32 x).
(* Int32WithByteOrder *)
Definition Int32WithByteOrder (r : registers) (address byteOrder : N) : rres Z :=
  let* x := Uint32WithByteOrder r address byteOrder in Ok (to_signed 32 x).

(* Uint64 *)
Definition Uint64 (r : registers) (address : N) : rres N :=
  let* b := quad_register r address (r_order r) in
  if has (r_order r) LittleEndian then bin_le64 b else bin_be64 b.
(* Uint64WithByteOrder *)
Definition Uint64WithByteOrder (r : registers) (address byteOrder : N) : rres N :=
  let byteOrder := if byteOrder =? 0 then r_order r else byteOrder in
  let* b := quad_register r address byteOrder in
  if has byteOrder LittleEndian then bin_le64 b else bin_be64 b.
(* Int64 *)
Definition Int64 (r : registers) (address : N) : rres Z :=
  let* x := Uint64 r address in Ok (to_signed 64 x).
(* Int64WithByteOrder *)
Definition Int64WithByteOrder (r : registers) (address byteOrder : N) : rres Z :=
  let* x := Uint64WithByteOrder r address byteOrder in Ok (to_signed 64 x).

(* Float32 / Float32WithByteOrder / Float64 / Float64WithByteOrder: the same reads followed by
   math.Float32frombits / Float64frombits; carried as the bit pattern *)
Definition Float32 := Uint32.
Definition Float32WithByteOrder := Uint32WithByteOrder.
Definition Float64 := Uint64.
Definition Float64WithByteOrder := Uint64WithByteOrder.

(* ----- StringWithByteOrder ----- *)
(* rawBytes[i-1], rawBytes[i] = rawBytes[i], rawBytes[i-1] *)
Fixpoint set_nth (l : list N) (i : nat) (x : N) : list N :=
  match l, i with
  | [], _ => []
  | _ :: t, O => x :: t
  | y :: t, S k => y :: set_nth t k x
  end.
(* for i := 1; i < len(rawBytes); i++ { if i%2 != 0 { swap i-1, i } }   -- fuel = iterations left *)
Fixpoint swap_loop (fuel : nat) (i : nat) (rawBytes : list N) : list N :=
  match fuel with
  | O => rawBytes
  | S fuel' =>
      if (i <? length rawBytes)%nat then
        let rawBytes' :=
          if Nat.odd i then
            let previous := nth (i - 1) rawBytes 0 in
            set_nth (set_nth rawBytes (i - 1) (nth i rawBytes 0)) i previous
          else rawBytes in
        swap_loop fuel' (S i) rawBytes'
      else rawBytes
  end.
(* fmt.Fprintf(builder, "%c", rune(b)): the UTF-8 encoding of the code point b (b <= 255) *)
Definition append_rune (b : N) : list N :=
  if b <? 128 then [b] else [N.lor 192 (N.shiftr b 6); N.lor 128 (N.land b 63)].
(* for _, b := range rawBytes[0:length] { if b == 0 { break }; append } *)
Fixpoint build_string (bs : list N) : list N :=
  match bs with
  | [] => []
  | b :: rest => if b =? 0 then [] else append_rune b ++ build_string rest
  end.

(* returns the outcome and r.data afterwards *)
Definition StringWithByteOrder (r : registers) (address length byteOrder : N) : rres (list N) * slice :=
  let data := r_data r in
  let byteOrder := if byteOrder =? 0 then r_order r else byteOrder in
  if address <? r_start r then (Err EUnder, data) else
  (* int arithmetic; converted to list positions only where the slice is touched *)
  let startIndex := sub16 address (r_start r) * 2 in
  let endIndex := startIndex + length in
  let endIndex := if negb (length mod 2 =? 0) then endIndex + 1 else endIndex in
  if N.of_nat (slen data) <? endIndex then (Err EDataBounds, data) else
  (* rawBytes := make([]byte, endIndex-startIndex); copy(rawBytes, r.data[startIndex:endIndex]) *)
  match @sub rerr data (N.to_nat startIndex) (N.to_nat endIndex) with
  | Panic => (Panic, data)
  | Err e => (Err e, data)
  | Ok rawBytes =>
      let rawBytes :=
        if has byteOrder BigEndian then swap_loop (List.length rawBytes) 1 rawBytes else rawBytes in
      (* rawBytes[0:length]: cap(rawBytes) = len(rawBytes) *)
      if (List.length rawBytes <? N.to_nat length)%nat then (Panic, data) else
      (Ok (build_string (firstn (N.to_nat length) rawBytes)), data)   (* data never written *)
  end.

(* String *)
Definition String_ (r : registers) (address length : N) : rres (list N) * slice :=
  StringWithByteOrder r address length 0.

(* ----- one call of any accessor: outcome and payload afterwards ----- *)
Definition vint (x : rres N) : rres aval := map_ok (fun v => VInt (Z.of_N v)) x.
Definition vz (x : rres Z) : rres aval := map_ok VInt x.
Definition vbytes (x : rres (list N)) : rres aval := map_ok VBytes x.

Definition access (r : registers) (a : accessor) (address : N) : rres aval * slice :=
  let ro x := (x, r_data r) in       (* accessors that only read *)
  match a with
  | ABit bit => ro (map_ok VBool (Bit r address bit))
  | AByte hi => ro (vint (Byte r address hi))
  | AUint8 hi => ro (vint (Uint8 r address hi))
  | AInt8 hi => ro (vz (Int8 r address hi))
  | AUint16 => ro (vint (Uint16 r address))
  | AInt16 => ro (vz (Int16 r address))
  | AUint32 => ro (vint (Uint32 r address))
  | AUint32BO bo => ro (vint (Uint32WithByteOrder r address bo))
  | AInt32 => ro (vz (Int32 r address))
  | AInt32BO bo => ro (vz (Int32WithByteOrder r address bo))
  | AUint64 => ro (vint (Uint64 r address))
  | AUint64BO bo => ro (vint (Uint64WithByteOrder r address bo))
  | AInt64 => ro (vz (Int64 r address))
  | AInt64BO bo => ro (vz (Int64WithByteOrder r address bo))
  | AFloat32 => ro (vint (Float32 r address))
  | AFloat32BO bo => ro (vint (Float32WithByteOrder r address bo))
  | AFloat64 => ro (vint (Float64 r address))
  | AFloat64BO bo => ro (vint (Float64WithByteOrder r address bo))
  | AString len => let '(x, d) := String_ r address len in (vbytes x, d)
  | AStringBO len bo => let '(x, d) := StringWithByteOrder r address len bo in (vbytes x, d)
  | ARegister => ro (vbytes (Register r address))
  | ADoubleRegister bo => ro (vbytes (DoubleRegister r address bo))
  | AQuadRegister bo => ro (vbytes (QuadRegister r address bo))
  end.

(* a sequence of calls on ONE Registers object: the shared payload is threaded through *)
Definition call := (accessor * N)%type.
Definition set_data (r : registers) (d : slice) : registers :=
  {| r_order := r_order r; r_start := r_start r; r_end := r_end r; r_data := d |}.
Fixpoint run_calls (r : registers) (cs : list call) : list (rres aval) * registers :=
  match cs with
  | [] => ([], r)
  | (a, addr) :: rest =>
      let '(x, d) := access r a addr in
      let '(xs, r') := run_calls (set_data r d) rest in
      (x :: xs, r')
  end.

(* a history on ONE Registers object that also re-configures it: reads interleaved with
   WithByteOrder(bo).  WithByteOrder stores the value it is given -- 0 included: 0 is then the
   object's default order (no flag: big endian, high word first, characters in wire order), it does
   NOT mean "keep / restore the library default" -- and the last call wins.  Only reads produce a
   result. *)
Inductive op := OpRead (a : accessor) (address : N) | OpOrder (byteOrder : N).
Fixpoint run_ops (r : registers) (os : list op) : list (rres aval) * registers :=
  match os with
  | [] => ([], r)
  | OpOrder bo :: rest => run_ops (with_byte_order r bo) rest
  | OpRead a addr :: rest =>
      let '(x, d) := access r a addr in
      let '(xs, r') := run_ops (set_data r d) rest in
      (x :: xs, r')
  end.
