(* DispServer.v -- correspondence entries of the server request/reply layer (C15, C16): how the
   model (ServerModel.v) computes each projected outcome, and how the properties' executable
   statements, written from ServerSpec.v / Spec.v, judge an implementation outcome.

   Entries (harness/cmd/observe/server*.go)
     srv_asm   [mode; [chunk...]]                  the real ModbusTCPAssembler.ReceiveRead, called once
               per chunk on one assembler, and once with all bytes on a fresh one
               outcome [[ [cumulative bytes returned; response==nil; status] per call ]; [bytes; nil; status]]
               (the nil flag is 2 when the returned slice was found changed after the later calls)
     srv_conn  [mode; client; [read...]; stream]   the real server.Server via Serve over an in-memory
               listener; [read...] are the non-empty reads the connection goroutine made
               outcome [[cumulative bytes written after each read]; status; number of Write calls;
                        [bytes; nil; status] of one direct ReceiveRead of the whole stream]
     srv_two   [mode; [readsA]; streamA; [readsB]; streamB]  two connections of one server, B's
               traffic interleaved with A's; then a third connection is served
               outcome [outA; outB; alive]  (outX as srv_conn without the last component)
   status: 0 open (for srv_conn: until the client closed), 1 closed by the server, 2 handler panic
   (srv_conn: closed by the server after the recovered panic was reported to OnErrorFunc).

   The scripted handler (the same function here and in serverproj.go) chooses its behaviour from
   the transaction id: tid mod 8 = 0..3 the correct response for the request (it echoes
   transaction id and unit id -- the handler's contract, a premise of C16), 4 / 7 an
   *ErrorParseTCP (bare / wrapped) with code (tid/8) mod 256, 5 a generic error, 6 a panic.
   In every class the Go handler, having computed its answer, overwrites the scalar fields of the
   request it was handed in place (gateway style); replies are addressed from the frame, so the
   model's handler does not need to know.
   Mode 1 is a handler that always returns a packet with an empty Bytes().  Mode 2 is the handler
   of mode 0 sleeping longer than the server's WriteTimeout before it returns (time is not part of
   the model: same function).
   A read in [read...] is its bytes, or [bytes; 1] when the scripted connection (client kind 3)
   returned them together with os.ErrDeadlineExceeded; ([]; 1) is a scripted (0, deadline) read.
   Client kinds: 0 lock-step, 1 back to back (net.Pipe), 2 everything buffered beforehand,
   3 scripted reads with deadline errors and an enforced write deadline, 4 a pipe client that pauses
   1.3 s between the fragments of a request.
   A srv_conn case may carry a write script [j; k] as its fifth argument: the j-th Write call of the
   connection accepts only k bytes (k < 0: all but one) and fails with a timeout; status 3 = the
   connection goroutine ended after a failed write.  What is recorded as written is what the
   connection accepted, i.e. what the client end receives.
   Status 95: the harness process died while the case ran (the case was run in a child process;
   the model never says 95, C16 judges it a violation). *)
Require Import MB.GoSem MB.Val MB.Entry MB.Spec MB.PacketModel MB.ServerModel MB.ServerSpec.
From Coq Require Import String.
Notation length := List.length (only parsing).
Notation concat := List.concat (only parsing).
Open Scope N_scope.

(* ---------- the scripted handler ---------- *)
Definition pattern (start : N) (n : N) : list N := map (fun i => u8 (start + i)) (seqN n).
Definition echo_resp (r : req) : resp :=
  match r with
  | RRead fc u s q =>
      if (fc =? 1) || (fc =? 2) then PBytes fc u (u8 ((q + 7) / 8)) (pattern s ((q + 7) / 8))
      else PBytes fc u (u8 (2 * q)) (pattern s (2 * q))
  | RWCoil u a st => PWCoil u a st
  | RWReg u a d0 d1 => PWReg u a d0 d1
  | RWCoils u s c _ => PWMulti 15 u s c
  | RWRegs u s c _ => PWMulti 16 u s c
  | RSrvId u => PSrvId u 255 [0x56; 0x46] [u]
  | RRW u rs rq _ _ _ => PBytes 23 u (u8 (2 * rq)) (pattern rs (2 * rq))
  end.
Definition script_handler (mode : N) (p : N * req) : handler_result :=
  if mode =? 1 then HResp [] else
  let (tid, r) := p in
  let cls := tid mod 8 in
  let k := (tid / 8) mod 256 in
  if cls <? 4 then HResp (resp_bytes_tcp tid (echo_resp r)) else
  if (cls =? 4) || (cls =? 7) then HErrTyped k else
  if cls =? 5 then HErrGeneric else HPanic.

(* ---------- projections ---------- *)
Definition status_code (s : status) : Z :=
  match s with Open => 0 | Closed => 1 | Panicked => 2 | OutOfFuel => 3 end%Z.
Definition is_nil {A} (l : list A) : bool := match l with [] => true | _ => false end.
(* a read is either its bytes, or [bytes; flag] when the scripted connection returned them together
   with os.ErrDeadlineExceeded (flag 1) -- ([]; 1) is a scripted (0, deadline) read *)
Definition events_of (v : val) : option (list (list N * bool)) :=
  match v with
  | VL vs => fold_right (fun x acc => match x, acc with
                                      | VB b, Some l => Some ((b, false) :: l)
                                      | VL [VB b; VI f], Some l => Some ((b, zbool f) :: l)
                                      | _, _ => None end) (Some []) vs
  | _ => None
  end.
Definition chunks_of (v : val) : option (list (list N)) :=
  match events_of v with Some evs => Some (map fst evs) | None => None end.
(* modes whose outcome the properties judge: 0 the scripted handler, 2 the same handler running
   longer than the server's write timeout (time is not part of the model) *)
Definition judged_mode (m : Z) : bool := Z.eqb m 0 || Z.eqb m 2.

(* states after each call until the first one that is not Open any more (the harness stops there) *)
Fixpoint until_end (cs : list conn) : list conn :=
  match cs with
  | [] => []
  | c :: rest => match c_status c with Open => c :: until_end rest | _ => [c] end
  end.

(* one direct ReceiveRead of all bytes on a fresh assembler *)
Definition proj_whole (mode : N) (bytes : list N) : val :=
  let r := receive_read (script_handler mode) [] bytes in
  match r_status r with
  | Panicked => VL [VB []; vbool true; VI 2%Z]
  | st => VL [VB (r_out r); vbool (is_nil (r_out r)); VI (status_code st)]
  end.

Definition run_asm (a : list val) : val :=
  match a with
  | [VI mode; cv] =>
      match chunks_of cv with
      | Some chunks =>
          let h := script_handler (zN mode) in
          let states := until_end (asm_trace h conn_init chunks) in
          let step (prev : list N) (c : conn) : val :=
            VL [VB (c_written c);
                vbool (match c_status c with Panicked => true | _ => (length (c_written c) =? length prev)%nat end);
                VI (status_code (c_status c))] in
          let fix go (prev : list N) (cs : list conn) : list val :=
            match cs with [] => [] | c :: rest => step prev c :: go (c_written c) rest end in
          VL [VL (go [] states); proj_whole (zN mode) (concat chunks)]
      | None => v_bad
      end
  | _ => v_bad
  end.

Fixpoint count_growth (prev : nat) (cs : list conn) : nat :=
  match cs with
  | [] => 0%nat
  | c :: rest => ((if (prev <? length (c_written c))%nat then 1 else 0) + count_growth (length (c_written c)) rest)%nat
  end.
Definition last_status (cs : list conn) : status :=
  match rev cs with c :: _ => c_status c | [] => Open end.

(* the observable part of one connection: reads are never empty here *)
Fixpoint conn_trace_ev (h : N * req -> handler_result) (c : conn) (evs : list (list N * bool)) : list conn :=
  match evs with
  | [] => []
  | ev :: rest => let c' := conn_read_ev h c ev in c' :: conn_trace_ev h c' rest
  end.
(* the write script of a case: the j-th Write call (from 0) of the connection accepts only k bytes
   and fails (k < 0: all but the last byte) *)
Definition fail_len (ks : Z) (sent : nat) : nat := if (ks <? 0)%Z then (sent - 1)%nat else Z.to_nat ks.
(* the states after each read and whether the loop ended by a failed write; stops there *)
Fixpoint conn_trace_w (h : N * req -> handler_result) (c : conn) (nw : nat) (wf : option (nat * Z))
    (evs : list (list N * bool)) : list conn * bool :=
  match evs with
  | [] => ([], false)
  | ev :: rest =>
      let c0 := conn_read_ev h c ev in
      let sent := (length (c_written c0) - length (c_written c))%nat in
      let wrote := (0 <? sent)%nat in
      let fail := match wf with
                  | Some (j, ks) => if wrote && (nw =? j)%nat then Some (fail_len ks sent) else None
                  | None => None
                  end in
      let (c', failed) := conn_read_w h c ev fail in
      if failed then ([c'], true) else
      let (cs, f) := conn_trace_w h c' (if wrote then S nw else nw) wf rest in (c' :: cs, f)
  end.
Definition proj_conn_w (mode : N) (reads : list (list N * bool)) (wf : option (nat * Z)) : list val :=
  let (trace, failed) := conn_trace_w (script_handler mode) conn_init 0 wf reads in
  let states := until_end trace in
  (* a read after the connection ended cannot have been observed: such a case is malformed *)
  if negb (length states =? length reads)%nat then [VI 97%Z] else
  [VL (map (fun c => VB (c_written c)) states);
   VI (if failed then 3%Z else status_code (last_status states));
   vnat (count_growth 0 states)].
Definition proj_conn (mode : N) (reads : list (list N * bool)) : list val := proj_conn_w mode reads None.
Definition wfail_of (v : val) : option (nat * Z) :=
  match v with VL [VI j; VI ks] => Some (Z.to_nat j, ks) | _ => None end.

Definition run_conn (a : list val) : val :=
  match a with
  | [VI mode; VI _; rv; VB stream] =>
      match events_of rv with
      | Some reads => VL (proj_conn (zN mode) reads ++ [proj_whole (zN mode) stream])
      | None => v_bad
      end
  | [VI mode; VI _; rv; VB stream; wv] =>
      match events_of rv, wfail_of wv with
      | Some reads, Some wf => VL (proj_conn_w (zN mode) reads (Some wf) ++ [proj_whole (zN mode) stream])
      | _, _ => v_bad
      end
  | _ => v_bad
  end.

Definition run_two (a : list val) : val :=
  match a with
  | [VI mode; ra; VB _; rb; VB _] =>
      match events_of ra, events_of rb with
      | Some readsA, Some readsB =>
          VL [VL (proj_conn (zN mode) readsA); VL (proj_conn (zN mode) readsB); VI 1%Z]
      | _, _ => v_bad
      end
  | _ => v_bad
  end.

(* ---------- C15: each request answered once, in order, whatever the segmentation ----------
   Judged from the outcome alone.  [whole] is what the implementation answers when all bytes arrive
   in one read.  (a) that answer consists of exactly one ADU per complete request ADU of the
   stream (cut by the MBAP length fields), in order, each carrying its request's transaction id
   and unit id; (b) after every read k the bytes written so far are exactly the replies of [whole]
   to the request ADUs that are complete within the first k chunks -- nothing early, nothing late,
   nothing twice -- and the connection is open unless non-Modbus bytes have arrived.
   Not judged: cases with a frame whose handler call may panic (C15 assumes a total handler),
   with a 1-byte-PDU request of a function other than 17 (see C16, finding 150), and mode 1. *)
Definition class_of (f : list N) : N := a_tid f mod 8.
Definition one_byte_pdu (f : list N) : bool := (a_len f =? 2) && negb (a_fc f =? 17).
Definition may_panic (f : list N) : bool := supported (a_fc f) && (class_of f =? 6) && negb (must_refuse f).

Fixpoint all_addressed (fs rs : list (list N)) : bool :=
  match fs, rs with
  | [], [] => true
  | f :: fs', r :: rs' => addressed_to f r && all_addressed fs' rs'
  | _, _ => false
  end.

(* the outcome's steps as (cumulative bytes, status) *)
Definition steps_of (v : val) : option (list (list N * Z)) :=
  match v with
  | VL vs => fold_right (fun x acc => match x, acc with
                                      | VL [VB b; VI _; VI st], Some l => Some ((b, st) :: l)
                                      | _, _ => None end) (Some []) vs
  | _ => None
  end.
(* the harness looks at every returned response again after the later calls: flag 2 (in place of the
   nil flag) = its bytes have changed since it was returned *)
Definition steps_altered (v : val) : bool :=
  match v with
  | VL vs => existsb (fun x => match x with VL [_; VI 2%Z; _] => true | _ => false end) vs
  | _ => false
  end.
Definition whole_of (v : val) : option (list N * Z) :=
  match v with VL [VB b; VI _; VI st] => Some (b, st) | _ => None end.

(* [all]: the bytes whose delivery in one read gave [wb] (for a connection the whole stream the client
   sent or meant to send; the reads may stop earlier when the connection was closed) *)
Definition check_C15_w (wf : option (nat * Z)) (all : list N) (chunks : list (list N)) (steps : list (list N * Z)) (wb : list N) (wst : Z) : N :=
  let s := all in
  let (frames, tl) := frames_of s in
  if existsb may_panic frames || existsb one_byte_pdu frames then NOT_JUDGED else
  match adus_of wb with
  | None => VIOLATES
  | Some rs =>
      let m := length frames in
      let replies := firstn m rs in
      let farewell := concat (skipn m rs) in
      if negb (all_addressed frames replies) then VIOLATES else
      if negb (is_garbage tl) && negb (is_nil farewell) then VIOLATES else
      if (1 <? length rs - m)%nat then VIOLATES else
      if negb (Z.eqb wst (if is_garbage tl then 1 else 0)) then VIOLATES else
      (* every read *)
      (* [nw] Write calls so far, [prev] the bytes that should be on the wire so far.  When the
         case's write script makes the transport accept only part of a Write and fail it, exactly
         that part is on the wire, nothing more is ever sent and the connection is closed: what
         the client has received is a prefix of the correct replies *)
      let fix go (k : nat) (todo : list (list N * Z)) (ended : bool) (nw : nat) (prev : list N) : bool :=
        match todo with
        | [] => true
        | (cum, st) :: rest =>
            if ended then false else
            let (fk, tk) := frames_of (concat (firstn k chunks)) in
            let expect := (concat (firstn (length fk) replies) ++ (if is_garbage tk then farewell else []))%list in
            let sent := skipn (length prev) expect in
            let wrote := negb (is_nil sent) in
            match (match wf with
                   | Some (j, ks) => if wrote && (nw =? j)%nat then Some (fail_len ks (length sent)) else None
                   | None => None end) with
            | Some kk => list_eqb cum (prev ++ firstn kk sent)%list && negb (Z.eqb st 0) && is_nil rest
            | None =>
                list_eqb cum expect && Z.eqb st (if is_garbage tk then 1 else 0) &&
                go (S k) rest (is_garbage tk) (if wrote then S nw else nw) expect
            end
        end in
      if negb (go 1%nat steps false 0%nat []) then VIOLATES else
      (* all chunks were consumed unless the connection was closed *)
      let closed_at_end := match rev steps with (_, st) :: _ => negb (Z.eqb st 0) | [] => false end in
      if negb closed_at_end && negb (length steps =? length chunks)%nat then VIOLATES else HOLDS
  end.

Definition check_C15 (chunks : list (list N)) := check_C15_w None (concat chunks) chunks.

Definition verdict_asm_C15 (a : list val) (out : val) : N :=
  match a, out with
  | [VI m; cv], VL [sv; wv] =>
      if negb (judged_mode m) then NOT_JUDGED else
      (* what is returned for a read is what gets sent: it must not change afterwards *)
      if steps_altered sv then VIOLATES else
      match chunks_of cv, steps_of sv, whole_of wv with
      | Some chunks, Some steps, Some (wb, wst) => check_C15 chunks steps wb wst
      | _, _, _ => VIOLATES
      end
  | _, _ => NOT_JUDGED
  end.

Definition conn_steps (cums : val) (st : Z) : option (list (list N * Z)) :=
  match chunks_of cums with
  | Some l =>
      let n := length l in
      Some (map (fun p => (snd p, if (S (fst p) =? n)%nat then st else 0%Z)) (combine (seq 0 n) l))
  | None => None
  end.
(* a handler panic and a deliberate close look the same from outside: both are "closed" for C15 *)
Definition closed_code (st : Z) : Z := if Z.eqb st 0 then 0%Z else 1%Z.

Definition verdict_conn_C15 (a : list val) (out : val) : N :=
  match a, out with
  | [VI m; VI _; rv; VB stream], VL [cums; VI st; VI _; wv] =>
      if negb (judged_mode m) then NOT_JUDGED else
      match chunks_of rv, conn_steps cums (closed_code st), whole_of wv with
      | Some reads, Some steps, Some (wb, wst) =>
          (* the server must have read the whole stream unless it closed the connection *)
          if Z.eqb st 0 && negb (list_eqb (concat reads) stream) then VIOLATES else
          check_C15_w None stream reads steps wb wst
      | _, _, _ => VIOLATES
      end
  | [VI m; VI _; rv; VB stream; wv], VL [cums; VI st; VI _; wo] =>
      if negb (judged_mode m) then NOT_JUDGED else
      match chunks_of rv, conn_steps cums (closed_code st), whole_of wo, wfail_of wv with
      | Some reads, Some steps, Some (wb, wst), Some wf =>
          if Z.eqb st 0 && negb (list_eqb (concat reads) stream) then VIOLATES else
          check_C15_w (Some wf) stream reads steps wb wst
      | _, _, _, _ => VIOLATES
      end
  | _, _ => NOT_JUDGED
  end.

(* ---------- C16: every reply is a well-formed ADU addressed to its request ----------
   The final output is cut into ADUs by its own length fields (so "length field = bytes that
   follow" and "protocol id 0" hold iff the cut succeeds) and matched, in order, against the
   complete request ADUs of the bytes the server has read:
     function code >= 128 (not a request code): a 9-byte ADU with the request's ids;
     unsupported function 1..127: exactly the exception 01 for the request;
     supported function that must be refused (ServerSpec.must_refuse): exactly the exception 03;
     otherwise by the handler's scripted behaviour: a non-exception ADU with the request's ids and
       function (responses echo ids: premise), the exception carrying the handler's code, some
       exception for a generic error; exception 03 instead is accepted where refusing is not
       excluded by C16 (layouts that are not exactly MAP's, and the FC1/FC2 quantities 126..2000
       which the library refuses: that is C09's known finding, not judged here).
   A frame whose handler call certainly panics gets no reply: the replies stop before it (those of
   the same read are lost with it) and the status is "panic"; a status "panic" needs such a frame.
   Non-Modbus bytes: the connection is closed; one 9-byte farewell ADU is tolerated (it answers
   no request).  Known finding 150: a request with a 1-byte PDU (length field 2) of a function
   other than 17 is treated as non-Modbus -- zero-addressed exception, connection closed --
   instead of being answered with exception 01 / 03 addressed to it. *)
Definition KF_ONE_BYTE_PDU : N := 150.

Definition may_refuse (f : list N) : bool :=
  negb (clean_legal f) || (((a_fc f =? 1) || (a_fc f =? 2)) && between 126 (fld16 f 10) 2000).

Definition judge_reply (f r : list N) : bool :=
  let fc := a_fc f in
  if 128 <=? fc then wf_adu r && (length r =? 9)%nat && addressed_to f r else
  if negb (supported fc) then is_exception_for f r ILLEGAL_FUNCTION else
  if must_refuse f then is_exception_for f r ILLEGAL_DATA_VALUE else
  let refused := may_refuse f && is_exception_for f r ILLEGAL_DATA_VALUE in
  let cls := class_of f in
  let k := (a_tid f / 8) mod 256 in
  if cls <? 4 then refused || is_response_for f r else
  if (cls =? 4) || (cls =? 7) then refused || is_exception_for f r k else
  if cls =? 5 then refused || is_some_exception_for f r else
  refused.

Definition zero_farewell : list N := [0; 0; 0; 0; 0; 3; 0; 128; 0].

Fixpoint walk_C16 (frames replies : list (list N)) (garbage : bool) (st : Z) : N :=
  match frames with
  | [] =>
      if garbage then
        match replies with
        | [] => if Z.eqb st 1 then HOLDS else VIOLATES
        | [r] => if Z.eqb st 1 && wf_adu r && (length r =? 9)%nat then HOLDS else VIOLATES
        | _ => VIOLATES
        end
      else match replies with [] => if Z.eqb st 0 then HOLDS else VIOLATES | _ => VIOLATES end
  | f :: fs =>
      match replies with
      | [] => if Z.eqb st 2 && existsb may_panic frames then HOLDS else VIOLATES
      | r :: rs =>
          if judge_reply f r then walk_C16 fs rs garbage st else
          if one_byte_pdu f && (a_fc f <? 128) && list_eqb r zero_farewell && is_nil rs && Z.eqb st 1
          then KF_ONE_BYTE_PDU else VIOLATES
      end
  end.

Definition check_C16 (read : list N) (final : list N) (st : Z) : N :=
  let (frames, tl) := frames_of read in
  match adus_of final with
  | None => VIOLATES
  | Some rs => walk_C16 frames rs (is_garbage tl) st
  end.

Definition last_cum (steps : list (list N * Z)) : list N * Z :=
  match rev steps with p :: _ => p | [] => ([], 0%Z) end.

Definition verdict_asm_C16 (a : list val) (out : val) : N :=
  match a, out with
  | [VI m; cv], VL [sv; _] =>
      if negb (judged_mode m) then NOT_JUDGED else
      match chunks_of cv, steps_of sv with
      | Some chunks, Some steps =>
          let (final, st) := last_cum steps in
          check_C16 (concat (firstn (length steps) chunks)) final st
      | _, _ => VIOLATES
      end
  | _, _ => NOT_JUDGED
  end.

Definition judge_conn_C16 (rv cums : val) (st : Z) : N :=
  match chunks_of rv, chunks_of cums with
  | Some reads, Some cl =>
      if negb (length reads =? length cl)%nat then VIOLATES else
      check_C16 (concat reads) (last cl []) st
  | _, _ => VIOLATES
  end.
Definition verdict_conn_C16 (a : list val) (out : val) : N :=
  match a, out with
  | [VI m; VI _; rv; VB _], VL [cums; VI st; VI _; _] =>
      if negb (judged_mode m) then NOT_JUDGED else judge_conn_C16 rv cums st
  | [VI m; VI _; rv; VB _; _], VL [cums; VI st; VI _; _] =>
      (* a case with a failing Write: when the connection ended by the failed write (status 3) the
         reply cut by the transport is not judged, everything before it is; otherwise as usual *)
      if negb (judged_mode m) then NOT_JUDGED else
      if Z.eqb st 3 then
        match rv, cums with
        | VL rl, VL cl => judge_conn_C16 (VL (removelast rl)) (VL (removelast cl)) 0
        | _, _ => VIOLATES
        end
      else judge_conn_C16 rv cums st
  | _, _ => NOT_JUDGED
  end.
(* two connections of one server: each judged as if it were alone, and the server must still
   serve a new connection afterwards ("a panicking handler never terminates the process or
   disturbs other connections") *)
Definition worst (x y : N) : N :=
  if (x =? VIOLATES) || (y =? VIOLATES) then VIOLATES else
  if 100 <=? x then x else if 100 <=? y then y else
  if (x =? NOT_JUDGED) || (y =? NOT_JUDGED) then NOT_JUDGED else HOLDS.
Definition verdict_two_C16 (a : list val) (out : val) : N :=
  match a, out with
  | [VI m; ra; VB sa; rb; VB sb], VL [VL [ca; VI sta; VI _]; VL [cb; VI stb; VI _]; VI alive] =>
      if negb (judged_mode m) then NOT_JUDGED else
      if negb (Z.eqb alive 1) then VIOLATES else
      worst (judge_conn_C16 ra ca sta) (judge_conn_C16 rb cb stb)
  | _, _ => VIOLATES
  end.

(* ---------- the table of this layer ---------- *)
(* srv_conn and srv_two cases may carry one more argument: the configuration of the server they ran
   on, as a bit mask of the callbacks that were set (1 OnErrorFunc, 2 OnCloseConnFunc,
   4 OnAcceptConnFunc, 8 OnServeFunc; without it: OnErrorFunc only).  It identifies the case for a
   replay; neither the model nor the properties depend on it. *)
Definition drop_cfg (n : nat) (a : list val) : list val :=
  match skipn n a with [VI _] => firstn n a | _ => a end.

Open Scope string_scope.
Definition table_server : list entry :=
  [ {| e_name := "srv_asm"; e_run := run_asm;
       e_verdict := fun p a o => if (p =? 15)%N then verdict_asm_C15 a o
                                 else if (p =? 16)%N then verdict_asm_C16 a o else NOT_JUDGED |};
    {| e_name := "srv_conn"; e_run := fun a => run_conn (drop_cfg 4 a);
       e_verdict := fun p a o => if (p =? 15)%N then verdict_conn_C15 (drop_cfg 4 a) o
                                 else if (p =? 16)%N then verdict_conn_C16 (drop_cfg 4 a) o else NOT_JUDGED |};
    {| e_name := "srv_two"; e_run := fun a => run_two (drop_cfg 5 a);
       e_verdict := fun p a o => if (p =? 16)%N then verdict_two_C16 (drop_cfg 5 a) o else NOT_JUDGED |}
  ].
