(* GenEquiv.v -- the definitions that /verif/gotrans regenerates from the Go source
   (gen/PacketGen.v) EQUAL the hand-written model (PacketModel.v, CrcModel.v), for all inputs.

   Together with the theorems about the model this makes them theorems about the translated code;
   what remains trusted is the translator (its assumptions are in the header of gen/PacketGen.v)
   instead of the sampling of the correspondence check.

   One tactic, [gen_eq], proves the parsers: symbolic execution of BOTH sides over the same slice
   (every index / re-slice resolved from the length tests met on the way by [lia], one case split per
   [if] that [lia] cannot decide), then the leaves are compared up to arithmetic.  It does not look
   at the order of independent reads, at how a comparison is spelled, or at named intermediates. *)
From Coq Require Import ZifyBool ZifyN ZifyNat.
Require Import MB.GoSem MB.CrcModel MB.PacketModel MB.ClientModel MB.GenPrelude MB.gen.PacketGen.
Require Import MB.proofs.PacketSafety.
Open Scope N_scope.
Ltac Zify.zify_post_hook ::= Z.to_euclidean_division_equations.

(* ====================================================================================== *)
(* Stage 1: constants, ExpectedResponseLength, constructor validation                      *)
(* ====================================================================================== *)

Lemma constants_eq :
  (* function codes: the numerals the model uses in req_fc / resp_fc / the dispatchers *)
  [c_FunctionReadCoils; c_FunctionReadDiscreteInputs; c_FunctionReadHoldingRegisters;
   c_FunctionReadInputRegisters; c_FunctionWriteSingleCoil; c_FunctionWriteSingleRegister;
   c_FunctionWriteMultipleCoils; c_FunctionWriteMultipleRegisters; c_FunctionReadServerID;
   c_FunctionReadWriteMultipleRegisters] = supported_fcs
  /\ v_supportedFunctionCodes = supported_fcs
  /\ [c_FunctionReadCoils; c_FunctionReadDiscreteInputs; c_FunctionReadHoldingRegisters;
      c_FunctionReadInputRegisters; c_FunctionWriteSingleCoil; c_FunctionWriteSingleRegister;
      c_FunctionWriteMultipleCoils; c_FunctionWriteMultipleRegisters; c_FunctionReadServerID;
      c_FunctionReadWriteMultipleRegisters]
     = [req_fc (RRead 1 0 0 0); req_fc (RRead 2 0 0 0); req_fc (RRead 3 0 0 0); req_fc (RRead 4 0 0 0);
        req_fc (RWCoil 0 0 false); req_fc (RWReg 0 0 0 0); req_fc (RWCoils 0 0 0 []);
        req_fc (RWRegs 0 0 0 []); req_fc (RSrvId 0); req_fc (RRW 0 0 0 0 0 [])]
  (* limits *)
  /\ c_MaxCoilsInReadResponse = max_read 1 /\ c_MaxCoilsInReadResponse = max_read 2
  /\ c_MaxRegistersInReadResponse = max_read 3 /\ c_MaxRegistersInReadResponse = max_read 4
  (* exception bit, header length, coil states *)
  /\ (forall f, add8 f c_functionCodeErrorBitmask = add8 f 128)
  /\ c_tcpMBAPHeaderLen = Z.of_nat (length (mbap_bytes 0 0))
  /\ c_writeCoilOn = 0xFF00 /\ c_writeCoilOff = 0
  (* exception codes used by the parsers (new_err_tcp 4, err_tcp .. 1 / 3) *)
  /\ (c_ErrIllegalFunction, c_ErrIllegalDataValue, c_ErrServerFailure) = (1, 3, 4)%Z
  (* packet length limits of the clients *)
  /\ c_client_tcpPacketMaxLen = Z.of_nat (max_len KTcp)
  /\ c_client_tcpPacketMaxLen = Z.of_nat (max_len KRtuNet)
  /\ c_client_rtuPacketMaxLen = Z.of_nat (max_len KSerial)
  /\ c_client_Client_do_maxBytes = Z.of_nat (buf_size KTcp)
  /\ c_client_Client_do_maxBytes = Z.of_nat (buf_size KRtuNet)
  /\ c_client_SerialClient_do_maxBytes = Z.of_nat (buf_size KSerial).
Proof. repeat split. Qed.

(* ---------- ExpectedResponseLength ---------- *)
Ltac erl :=
  intros;
  cbv [g_ReadCoilsRequestTCP_ExpectedResponseLength g_ReadCoilsRequestRTU_ExpectedResponseLength
       g_ReadCoilsRequest_coilByteLength
       g_ReadDiscreteInputsRequestTCP_ExpectedResponseLength g_ReadDiscreteInputsRequestRTU_ExpectedResponseLength
       g_ReadDiscreteInputsRequest_coilByteLength
       g_ReadHoldingRegistersRequestTCP_ExpectedResponseLength g_ReadHoldingRegistersRequestRTU_ExpectedResponseLength
       g_ReadHoldingRegistersRequest_ExpectedResponseLength
       g_ReadInputRegistersRequestTCP_ExpectedResponseLength g_ReadInputRegistersRequestRTU_ExpectedResponseLength
       g_ReadInputRegistersRequest_ExpectedResponseLength
       g_WriteSingleCoilRequestTCP_ExpectedResponseLength g_WriteSingleCoilRequestRTU_ExpectedResponseLength
       g_WriteSingleRegisterRequestTCP_ExpectedResponseLength g_WriteSingleRegisterRequestRTU_ExpectedResponseLength
       g_WriteMultipleCoilsRequestTCP_ExpectedResponseLength g_WriteMultipleCoilsRequestRTU_ExpectedResponseLength
       g_WriteMultipleRegistersRequestTCP_ExpectedResponseLength g_WriteMultipleRegistersRequestRTU_ExpectedResponseLength
       g_ReadServerIDRequestTCP_ExpectedResponseLength g_ReadServerIDRequestRTU_ExpectedResponseLength
       g_ReadWriteMultipleRegistersRequestTCP_ExpectedResponseLength g_ReadWriteMultipleRegistersRequestRTU_ExpectedResponseLength
       ceil_div expected_len_tcp expected_len_rtu coil_byte_len];
  cbn [N.eqb Pos.eqb orb]; lia.

Lemma erl_ReadCoilsTCP tid pid u s q :
  g_ReadCoilsRequestTCP_ExpectedResponseLength tid pid u s q = Z.of_N (expected_len_tcp (RRead 1 u s q)).
Proof. erl. Qed.
Lemma erl_ReadCoilsRTU u s q :
  g_ReadCoilsRequestRTU_ExpectedResponseLength u s q = Z.of_N (expected_len_rtu (RRead 1 u s q)).
Proof. erl. Qed.
Lemma erl_ReadDiscreteInputsTCP tid pid u s q :
  g_ReadDiscreteInputsRequestTCP_ExpectedResponseLength tid pid u s q = Z.of_N (expected_len_tcp (RRead 2 u s q)).
Proof. erl. Qed.
Lemma erl_ReadDiscreteInputsRTU u s q :
  g_ReadDiscreteInputsRequestRTU_ExpectedResponseLength u s q = Z.of_N (expected_len_rtu (RRead 2 u s q)).
Proof. erl. Qed.
Lemma erl_ReadHoldingRegistersTCP tid pid u s q :
  g_ReadHoldingRegistersRequestTCP_ExpectedResponseLength tid pid u s q = Z.of_N (expected_len_tcp (RRead 3 u s q)).
Proof. erl. Qed.
Lemma erl_ReadHoldingRegistersRTU u s q :
  g_ReadHoldingRegistersRequestRTU_ExpectedResponseLength u s q = Z.of_N (expected_len_rtu (RRead 3 u s q)).
Proof. erl. Qed.
Lemma erl_ReadInputRegistersTCP tid pid u s q :
  g_ReadInputRegistersRequestTCP_ExpectedResponseLength tid pid u s q = Z.of_N (expected_len_tcp (RRead 4 u s q)).
Proof. erl. Qed.
Lemma erl_ReadInputRegistersRTU u s q :
  g_ReadInputRegistersRequestRTU_ExpectedResponseLength u s q = Z.of_N (expected_len_rtu (RRead 4 u s q)).
Proof. erl. Qed.
Lemma erl_WriteSingleCoilTCP tid pid u a st :
  g_WriteSingleCoilRequestTCP_ExpectedResponseLength tid pid u a st = Z.of_N (expected_len_tcp (RWCoil u a st)).
Proof. erl. Qed.
Lemma erl_WriteSingleCoilRTU u a st :
  g_WriteSingleCoilRequestRTU_ExpectedResponseLength u a st = Z.of_N (expected_len_rtu (RWCoil u a st)).
Proof. erl. Qed.
(* WriteSingleRegisterRequest.Data is a [2]byte: the translator passes it as one list argument *)
Lemma erl_WriteSingleRegisterTCP tid pid u a dat d0 d1 :
  g_WriteSingleRegisterRequestTCP_ExpectedResponseLength tid pid u a dat = Z.of_N (expected_len_tcp (RWReg u a d0 d1)).
Proof. erl. Qed.
Lemma erl_WriteSingleRegisterRTU u a dat d0 d1 :
  g_WriteSingleRegisterRequestRTU_ExpectedResponseLength u a dat = Z.of_N (expected_len_rtu (RWReg u a d0 d1)).
Proof. erl. Qed.
Lemma erl_WriteMultipleCoilsTCP tid pid u s c dat :
  g_WriteMultipleCoilsRequestTCP_ExpectedResponseLength tid pid u s c dat = Z.of_N (expected_len_tcp (RWCoils u s c dat)).
Proof. erl. Qed.
Lemma erl_WriteMultipleCoilsRTU u s c dat :
  g_WriteMultipleCoilsRequestRTU_ExpectedResponseLength u s c dat = Z.of_N (expected_len_rtu (RWCoils u s c dat)).
Proof. erl. Qed.
Lemma erl_WriteMultipleRegistersTCP tid pid u s c dat :
  g_WriteMultipleRegistersRequestTCP_ExpectedResponseLength tid pid u s c dat = Z.of_N (expected_len_tcp (RWRegs u s c dat)).
Proof. erl. Qed.
Lemma erl_WriteMultipleRegistersRTU u s c dat :
  g_WriteMultipleRegistersRequestRTU_ExpectedResponseLength u s c dat = Z.of_N (expected_len_rtu (RWRegs u s c dat)).
Proof. erl. Qed.
Lemma erl_ReadServerIDTCP tid pid u :
  g_ReadServerIDRequestTCP_ExpectedResponseLength tid pid u = Z.of_N (expected_len_tcp (RSrvId u)).
Proof. erl. Qed.
Lemma erl_ReadServerIDRTU u :
  g_ReadServerIDRequestRTU_ExpectedResponseLength u = Z.of_N (expected_len_rtu (RSrvId u)).
Proof. erl. Qed.
Lemma erl_ReadWriteMultipleRegistersTCP tid pid u rs rq ws wq dat :
  g_ReadWriteMultipleRegistersRequestTCP_ExpectedResponseLength tid pid u rs rq ws wq dat
  = Z.of_N (expected_len_tcp (RRW u rs rq ws wq dat)).
Proof. erl. Qed.
Lemma erl_ReadWriteMultipleRegistersRTU u rs rq ws wq dat :
  g_ReadWriteMultipleRegistersRequestRTU_ExpectedResponseLength u rs rq ws wq dat
  = Z.of_N (expected_len_rtu (RRW u rs rq ws wq dat)).
Proof. erl. Qed.

(* ---------- constructors: which arguments are refused ---------- *)
Ltac split_ifs :=
  repeat match goal with
  | |- context [if ?c then _ else _] => destruct c eqn:?
  end.
Ltac ctor_ok :=
  intros; unfold accepts, is_ok, llen; cbv zeta;
  split_ifs; cbn [is_ok]; first [ reflexivity | exfalso; lia ].

Lemma new_ReadCoilsTCP u s q : g_NewReadCoilsRequestTCP_ok u s q = accepts (new_read 1 u s q).
Proof. unfold g_NewReadCoilsRequestTCP_ok, new_read, max_read. cbn [N.eqb Pos.eqb orb]. ctor_ok. Qed.
Lemma new_ReadCoilsRTU u s q : g_NewReadCoilsRequestRTU_ok u s q = accepts (new_read 1 u s q).
Proof. unfold g_NewReadCoilsRequestRTU_ok, new_read, max_read. cbn [N.eqb Pos.eqb orb]. ctor_ok. Qed.
Lemma new_ReadDiscreteInputsTCP u s q : g_NewReadDiscreteInputsRequestTCP_ok u s q = accepts (new_read 2 u s q).
Proof. unfold g_NewReadDiscreteInputsRequestTCP_ok, new_read, max_read. cbn [N.eqb Pos.eqb orb]. ctor_ok. Qed.
Lemma new_ReadDiscreteInputsRTU u s q : g_NewReadDiscreteInputsRequestRTU_ok u s q = accepts (new_read 2 u s q).
Proof. unfold g_NewReadDiscreteInputsRequestRTU_ok, new_read, max_read. cbn [N.eqb Pos.eqb orb]. ctor_ok. Qed.
Lemma new_ReadHoldingRegistersTCP u s q : g_NewReadHoldingRegistersRequestTCP_ok u s q = accepts (new_read 3 u s q).
Proof. unfold g_NewReadHoldingRegistersRequestTCP_ok, new_read, max_read. cbn [N.eqb Pos.eqb orb]. ctor_ok. Qed.
Lemma new_ReadHoldingRegistersRTU u s q : g_NewReadHoldingRegistersRequestRTU_ok u s q = accepts (new_read 3 u s q).
Proof. unfold g_NewReadHoldingRegistersRequestRTU_ok, new_read, max_read. cbn [N.eqb Pos.eqb orb]. ctor_ok. Qed.
Lemma new_ReadInputRegistersTCP u s q : g_NewReadInputRegistersRequestTCP_ok u s q = accepts (new_read 4 u s q).
Proof. unfold g_NewReadInputRegistersRequestTCP_ok, new_read, max_read. cbn [N.eqb Pos.eqb orb]. ctor_ok. Qed.
Lemma new_ReadInputRegistersRTU u s q : g_NewReadInputRegistersRequestRTU_ok u s q = accepts (new_read 4 u s q).
Proof. unfold g_NewReadInputRegistersRequestRTU_ok, new_read, max_read. cbn [N.eqb Pos.eqb orb]. ctor_ok. Qed.
Lemma new_WriteSingleCoilTCP u a st : g_NewWriteSingleCoilRequestTCP_ok u a st = accepts (new_wcoil u a st).
Proof. reflexivity. Qed.
Lemma new_WriteSingleCoilRTU u a st : g_NewWriteSingleCoilRequestRTU_ok u a st = accepts (new_wcoil u a st).
Proof. reflexivity. Qed.
Lemma new_WriteSingleRegisterTCP u a dat : g_NewWriteSingleRegisterRequestTCP_ok u a dat = accepts (new_wreg u a dat).
Proof. reflexivity. Qed.
Lemma new_WriteSingleRegisterRTU u a dat : g_NewWriteSingleRegisterRequestRTU_ok u a dat = accepts (new_wreg u a dat).
Proof. reflexivity. Qed.
Lemma new_WriteMultipleCoilsTCP u s coils : g_NewWriteMultipleCoilsRequestTCP_ok u s coils = accepts (new_wcoils u s coils).
Proof. unfold g_NewWriteMultipleCoilsRequestTCP_ok, new_wcoils. ctor_ok. Qed.
Lemma new_WriteMultipleCoilsRTU u s coils : g_NewWriteMultipleCoilsRequestRTU_ok u s coils = accepts (new_wcoils u s coils).
Proof. unfold g_NewWriteMultipleCoilsRequestRTU_ok, new_wcoils. ctor_ok. Qed.
Lemma new_WriteMultipleRegistersTCP u s dat : g_NewWriteMultipleRegistersRequestTCP_ok u s dat = accepts (new_wregs u s dat).
Proof. unfold g_NewWriteMultipleRegistersRequestTCP_ok, new_wregs. ctor_ok. Qed.
Lemma new_WriteMultipleRegistersRTU u s dat : g_NewWriteMultipleRegistersRequestRTU_ok u s dat = accepts (new_wregs u s dat).
Proof. unfold g_NewWriteMultipleRegistersRequestRTU_ok, new_wregs. ctor_ok. Qed.
Lemma new_ReadServerIDTCP u : g_NewReadServerIDRequestTCP_ok u = accepts (new_srvid u).
Proof. reflexivity. Qed.
Lemma new_ReadServerIDRTU u : g_NewReadServerIDRequestRTU_ok u = accepts (new_srvid u).
Proof. reflexivity. Qed.
Lemma new_ReadWriteMultipleRegistersTCP u rs rq ws dat :
  g_NewReadWriteMultipleRegistersRequestTCP_ok u rs rq ws dat = accepts (new_rw u rs rq ws dat).
Proof. unfold g_NewReadWriteMultipleRegistersRequestTCP_ok, new_rw. ctor_ok. Qed.
Lemma new_ReadWriteMultipleRegistersRTU u rs rq ws dat :
  g_NewReadWriteMultipleRegistersRequestRTU_ok u rs rq ws dat = accepts (new_rw u rs rq ws dat).
Proof. unfold g_NewReadWriteMultipleRegistersRequestRTU_ok, new_rw. ctor_ok. Qed.

(* ====================================================================================== *)
(* Stage 2: CRC16 (by induction over the byte list, inside [fold_left_ext])                *)
(* ====================================================================================== *)
Lemma fold_left_ext {A B} (f g : A -> B -> A) (l : list B) :
  (forall a b, f a b = g a b) -> forall a, fold_left f l a = fold_left g l a.
Proof.
  intros H. induction l as [|x l IH]; intros a; cbn [fold_left]; [reflexivity|].
  rewrite H. apply IH.
Qed.
Lemma iter_ext {A} (n : nat) (f g : A -> A) :
  (forall x, f x = g x) -> forall x, iter n f x = iter n g x.
Proof.
  intros H. induction n as [|n IH]; intros x; cbn [iter]; [reflexivity|].
  rewrite H. apply IH.
Qed.

Lemma crc16_eq l : g_CRC16 l = crc16 l.
Proof.
  unfold g_CRC16, crc16. cbv zeta.
  apply fold_left_ext. intros c b. unfold byte_step.
  apply iter_ext. intros x. unfold bit_step.
  destruct (N.land x 1 =? 1); reflexivity.
Qed.

(* ====================================================================================== *)
(* Stage 3: the parsers                                                                     *)
(* ====================================================================================== *)

(* [gen_body] -- after unfolding the generated definition and the model definition:
     1. the Go-int addressed operations zidx / zsub / zfrom / zupto / zmake become the nat addressed
        ones of GoSem once [lia] shows the index non-negative (it is a literal, a length, or a byte
        plus a literal);
     2. every idx / sub / from, on either side, is resolved to its bytes once [lia] shows it in range
        from the length tests met so far; a read that cannot be shown in range stays, and the
        proof fails: the generated code would panic where the model does not (or the reverse);
     3. an [if] whose condition [lia] decides from the context is taken, otherwise both branches are
        explored (so `a < b` against `!(a >= b)`, Z against nat against N, named intermediates and
        the order of reads make no difference);
     4. make + copy of a re-slice of known length is the re-slice; re-slices whose bounds are
        provably equal are identified; calls of already proved functions are rewritten to the model;
     5. leaves are compared up to arithmetic ([f_equal] + [lia]) after identifying bytes read at
        provably equal positions. *)
(* literal indices: Z.to_nat 7%Z -> 7%nat *)
Ltac lit_nat :=
  repeat match goal with
  | |- context [Z.to_nat (Zpos ?p)] =>
      let n := eval vm_compute in (Z.to_nat (Zpos p)) in change (Z.to_nat (Zpos p)) with n
  | |- context [Z.to_nat 0%Z] => change (Z.to_nat 0%Z) with 0%nat
  end.

Lemma gcopy_fill_sub n k i (l : list N) :
  (i + k <= length l)%nat -> n = k -> gcopy (repeat 0 n) (firstn k (skipn i l)) = firstn k (skipn i l).
Proof. intros H ->. apply gcopy_fill. apply firstn_skipn_length. exact H. Qed.
Lemma gcopy_fill_skipn n i (l : list N) :
  (n = length l - i)%nat -> gcopy (repeat 0 n) (skipn i l) = skipn i l.
Proof. intros ->. apply gcopy_fill. apply skipn_length. Qed.

Lemma firstn_skipn_cong {A} a a' b b' (l : list A) :
  a = a' -> b = b' -> firstn a (skipn b l) = firstn a' (skipn b' l).
Proof. intros -> ->. reflexivity. Qed.
Lemma zle16_ge {E} l : (2 <= length l)%nat -> @zle16 E l = Ok (le16 (firstn 2 l)).
Proof. intros H. unfold zle16. replace (length l <? 2)%nat with false by lia. reflexivity. Qed.
Lemma zbe16_ge {E} l : (2 <= length l)%nat -> @zbe16 E l = Ok (be16 (firstn 2 l)).
Proof. intros H. unfold zbe16. replace (length l <? 2)%nat with false by lia. reflexivity. Qed.

Ltac len_side := rewrite ?skipn_length, ?firstn_length; unfold slen in *; lia.

Ltac decide_if c :=
  first [ replace c with true by lia | replace c with false by lia | destruct c eqn:? ].

Ltac gstep :=
  match goal with
  | |- context [@zidx ?E ?s ?i] => rewrite (@zidx_nat E s i) by lia; lit_nat
  | |- context [@zsub ?E ?s ?i ?j] => rewrite (@zsub_nat E s i j) by lia; lit_nat
  | |- context [@zfrom ?E ?s ?i] => rewrite (@zfrom_nat E s i) by lia; lit_nat
  | |- context [@zupto ?E ?s ?j] => rewrite (@zupto_nat E s j) by lia; lit_nat
  | |- context [@zmake ?E ?n] => rewrite (@zmake_nat E n) by lia; cbn [bind]
  | |- context [@idx ?E ?d ?i] =>
      let b := fresh "b" in let Hb := fresh "Hb" in let Hn := fresh "Hn" in
      destruct (@idx_lt E d i) as [b [Hb Hn]]; [lia|]; rewrite !Hb; cbn [bind]
  | |- context [@sub ?E ?d ?i ?j] => rewrite (@sub_in E d i j) by lia; cbn [bind]
  | |- context [@from ?E ?d ?i] => rewrite (@from_in E d i) by lia; cbn [bind]
  | |- context [gcopy (repeat 0 ?n) (firstn ?k (skipn ?i ?l))] =>
      rewrite (gcopy_fill_sub n k i l) by (unfold slen in *; lia)
  | |- context [gcopy (repeat 0 ?n) (skipn ?i ?l)] =>
      rewrite (gcopy_fill_skipn n i l) by (unfold slen in *; lia)
  | |- context [@zle16 ?E ?l] => rewrite (@zle16_ge E l) by len_side; cbn [bind]
  | |- context [@zbe16 ?E ?l] => rewrite (@zbe16_ge E l) by len_side; cbn [bind]
  | |- context [g_CRC16 ?l] => rewrite (crc16_eq l)
  | |- context [as_tcp_error ?d] =>
      destruct (as_tcp_error d) as [[?|]| |] eqn:?; unfold exc_err_tcp; cbn [bind map_ok option_map]
  | |- context [as_rtu_error ?d] =>
      destruct (as_rtu_error d) as [[[[? ?] ?]|]| |] eqn:?; unfold exc_err_rtu; cbn [bind map_ok option_map]
  | |- context [firstn ?a (skipn ?b ?l)] =>
      lazymatch constr:((a, b)) with context [Z.to_nat] => idtac end;
      match goal with
      | |- context [firstn ?a' (skipn ?b' l)] =>
          lazymatch constr:((a', b')) with context [Z.to_nat] => fail | _ => idtac end;
          rewrite (firstn_skipn_cong a a' b b' l) by lia
      end
  | |- context [firstn ?a (firstn ?b ?l)] => rewrite (firstn_firstn l a b)
  | |- context [parse_mbap ?d] =>
      let Emb := fresh "Emb" in let tid := fresh "tid" in
      destruct (parse_mbap d) as [tid| |] eqn:Emb; cbn [bind];
      [ pose proof (mbap_ok_len _ _ Emb) | reflexivity | reflexivity ]
  | |- context [if ?c then _ else _] => decide_if c; cbn [bind]
  end.

(* identify bytes read at provably equal positions *)
Ltac same_bytes :=
  repeat match goal with
  | H1 : nth_error ?l ?i = Some ?a, H2 : nth_error ?l ?j = Some ?b |- _ =>
      lazymatch a with b => fail | _ => idtac end;
      assert (a = b) by (assert (i = j) as Hij by lia; rewrite Hij in H1; congruence);
      subst a
  end.

Ltac eq_close := first [ reflexivity | lia | progress f_equal; eq_close ].
Ltac leaf :=
  unfold looks_like_z, exc_err_tcp, exc_err_rtu; cbn [bind map_ok option_map fst snd];
  first [ reflexivity | exfalso; lia | same_bytes; eq_close ].

Ltac gen_body := unfold zlen, llen; cbv zeta; lit_nat; repeat gstep; leaf.



(* ---------- straight-line functions ---------- *)
Lemma as_tcp_error_eq d : g_AsTCPErrorPacket d = map_ok exc_err_tcp (as_tcp_error d).
Proof. unfold g_AsTCPErrorPacket, as_tcp_error. gen_body. Qed.
Lemma as_rtu_error_eq d : g_AsRTUErrorPacket d = map_ok exc_err_rtu (as_rtu_error d).
Proof. unfold g_AsRTUErrorPacket, as_rtu_error. gen_body. Qed.
Lemma as_rtu_error_crc_eq d : g_AsRTUErrorPacketWithCRC d = map_ok exc_err_rtu (as_rtu_error_crc d).
Proof. unfold g_AsRTUErrorPacketWithCRC, as_rtu_error_crc. rewrite as_rtu_error_eq. gen_body. Qed.
Lemma mbap_eq d : g_ParseMBAPHeader d = parse_mbap d.
Proof. unfold g_ParseMBAPHeader, parse_mbap. gen_body. Qed.
Lemma looks_like_eq d a : g_LooksLikeModbusTCP d a = map_ok looks_like_z (looks_like d a).
Proof. unfold g_LooksLikeModbusTCP, looks_like, is_supported, supported_fcs. cbn [existsb]. gen_body. Qed.

(* ---------- the 20 request parsers ---------- *)
Lemma ParseReadCoilsRequestTCP_eq d : g_ParseReadCoilsRequestTCP d = parse_read_req_tcp 1 d.
Proof. unfold g_ParseReadCoilsRequestTCP, parse_read_req_tcp, in_range. rewrite mbap_eq. gen_body. Qed.
Lemma ParseReadDiscreteInputsRequestTCP_eq d : g_ParseReadDiscreteInputsRequestTCP d = parse_read_req_tcp 2 d.
Proof. unfold g_ParseReadDiscreteInputsRequestTCP, parse_read_req_tcp, in_range. rewrite mbap_eq. gen_body. Qed.
Lemma ParseReadHoldingRegistersRequestTCP_eq d : g_ParseReadHoldingRegistersRequestTCP d = parse_read_req_tcp 3 d.
Proof. unfold g_ParseReadHoldingRegistersRequestTCP, parse_read_req_tcp, in_range. rewrite mbap_eq. gen_body. Qed.
Lemma ParseReadInputRegistersRequestTCP_eq d : g_ParseReadInputRegistersRequestTCP d = parse_read_req_tcp 4 d.
Proof. unfold g_ParseReadInputRegistersRequestTCP, parse_read_req_tcp, in_range. rewrite mbap_eq. gen_body. Qed.
Lemma ParseWriteSingleCoilRequestTCP_eq d : g_ParseWriteSingleCoilRequestTCP d = parse_wcoil_req_tcp d.
Proof. unfold g_ParseWriteSingleCoilRequestTCP, parse_wcoil_req_tcp, in_range. rewrite mbap_eq. gen_body. Qed.
Lemma ParseWriteSingleRegisterRequestTCP_eq d : g_ParseWriteSingleRegisterRequestTCP d = parse_wreg_req_tcp d.
Proof. unfold g_ParseWriteSingleRegisterRequestTCP, parse_wreg_req_tcp, in_range. rewrite mbap_eq. gen_body. Qed.
Lemma ParseWriteMultipleCoilsRequestTCP_eq d : g_ParseWriteMultipleCoilsRequestTCP d = parse_wcoils_req_tcp d.
Proof. unfold g_ParseWriteMultipleCoilsRequestTCP, parse_wcoils_req_tcp, in_range. rewrite mbap_eq. gen_body. Qed.
Lemma ParseWriteMultipleRegistersRequestTCP_eq d : g_ParseWriteMultipleRegistersRequestTCP d = parse_wregs_req_tcp d.
Proof. unfold g_ParseWriteMultipleRegistersRequestTCP, parse_wregs_req_tcp, in_range. rewrite mbap_eq. gen_body. Qed.
Lemma ParseReadServerIDRequestTCP_eq d : g_ParseReadServerIDRequestTCP d = parse_srvid_req_tcp d.
Proof. unfold g_ParseReadServerIDRequestTCP, parse_srvid_req_tcp, in_range. rewrite mbap_eq. gen_body. Qed.
Lemma ParseReadWriteMultipleRegistersRequestTCP_eq d : g_ParseReadWriteMultipleRegistersRequestTCP d = parse_rw_req_tcp d.
Proof. unfold g_ParseReadWriteMultipleRegistersRequestTCP, parse_rw_req_tcp, in_range. rewrite mbap_eq. gen_body. Qed.
Lemma ParseReadCoilsRequestRTU_eq d : g_ParseReadCoilsRequestRTU d = parse_read_req_rtu 1 d.
Proof. unfold g_ParseReadCoilsRequestRTU, parse_read_req_rtu, in_range. gen_body. Qed.
Lemma ParseReadDiscreteInputsRequestRTU_eq d : g_ParseReadDiscreteInputsRequestRTU d = parse_read_req_rtu 2 d.
Proof. unfold g_ParseReadDiscreteInputsRequestRTU, parse_read_req_rtu, in_range. gen_body. Qed.
Lemma ParseReadHoldingRegistersRequestRTU_eq d : g_ParseReadHoldingRegistersRequestRTU d = parse_read_req_rtu 3 d.
Proof. unfold g_ParseReadHoldingRegistersRequestRTU, parse_read_req_rtu, in_range. gen_body. Qed.
Lemma ParseReadInputRegistersRequestRTU_eq d : g_ParseReadInputRegistersRequestRTU d = parse_read_req_rtu 4 d.
Proof. unfold g_ParseReadInputRegistersRequestRTU, parse_read_req_rtu, in_range. gen_body. Qed.
Lemma ParseWriteSingleCoilRequestRTU_eq d : g_ParseWriteSingleCoilRequestRTU d = parse_wcoil_req_rtu d.
Proof. unfold g_ParseWriteSingleCoilRequestRTU, parse_wcoil_req_rtu, in_range. gen_body. Qed.
Lemma ParseWriteSingleRegisterRequestRTU_eq d : g_ParseWriteSingleRegisterRequestRTU d = parse_wreg_req_rtu d.
Proof. unfold g_ParseWriteSingleRegisterRequestRTU, parse_wreg_req_rtu, in_range. gen_body. Qed.
Lemma ParseWriteMultipleCoilsRequestRTU_eq d : g_ParseWriteMultipleCoilsRequestRTU d = parse_wcoils_req_rtu d.
Proof. unfold g_ParseWriteMultipleCoilsRequestRTU, parse_wcoils_req_rtu, in_range. gen_body. Qed.
Lemma ParseWriteMultipleRegistersRequestRTU_eq d : g_ParseWriteMultipleRegistersRequestRTU d = parse_wregs_req_rtu d.
Proof. unfold g_ParseWriteMultipleRegistersRequestRTU, parse_wregs_req_rtu, in_range. gen_body. Qed.
Lemma ParseReadServerIDRequestRTU_eq d : g_ParseReadServerIDRequestRTU d = parse_srvid_req_rtu d.
Proof. unfold g_ParseReadServerIDRequestRTU, parse_srvid_req_rtu, in_range. gen_body. Qed.
Lemma ParseReadWriteMultipleRegistersRequestRTU_eq d : g_ParseReadWriteMultipleRegistersRequestRTU d = parse_rw_req_rtu d.
Proof. unfold g_ParseReadWriteMultipleRegistersRequestRTU, parse_rw_req_rtu, in_range. gen_body. Qed.

(* ---------- the 20 response parsers ---------- *)
Lemma ParseReadCoilsResponseTCP_eq d : g_ParseReadCoilsResponseTCP d = parse_bytes_resp_tcp 1 d.
Proof. unfold g_ParseReadCoilsResponseTCP, parse_bytes_resp_tcp, fixed_resp_guard_tcp. cbn [is_coil_fc N.eqb Pos.eqb orb]. gen_body. Qed.
Lemma ParseReadDiscreteInputsResponseTCP_eq d : g_ParseReadDiscreteInputsResponseTCP d = parse_bytes_resp_tcp 2 d.
Proof. unfold g_ParseReadDiscreteInputsResponseTCP, parse_bytes_resp_tcp, fixed_resp_guard_tcp. cbn [is_coil_fc N.eqb Pos.eqb orb]. gen_body. Qed.
Lemma ParseReadHoldingRegistersResponseTCP_eq d : g_ParseReadHoldingRegistersResponseTCP d = parse_bytes_resp_tcp 3 d.
Proof. unfold g_ParseReadHoldingRegistersResponseTCP, parse_bytes_resp_tcp, fixed_resp_guard_tcp. cbn [is_coil_fc N.eqb Pos.eqb orb]. gen_body. Qed.
Lemma ParseReadInputRegistersResponseTCP_eq d : g_ParseReadInputRegistersResponseTCP d = parse_bytes_resp_tcp 4 d.
Proof. unfold g_ParseReadInputRegistersResponseTCP, parse_bytes_resp_tcp, fixed_resp_guard_tcp. cbn [is_coil_fc N.eqb Pos.eqb orb]. gen_body. Qed.
Lemma ParseReadWriteMultipleRegistersResponseTCP_eq d : g_ParseReadWriteMultipleRegistersResponseTCP d = parse_bytes_resp_tcp 23 d.
Proof. unfold g_ParseReadWriteMultipleRegistersResponseTCP, parse_bytes_resp_tcp, fixed_resp_guard_tcp. cbn [is_coil_fc N.eqb Pos.eqb orb]. gen_body. Qed.
Lemma ParseWriteSingleCoilResponseTCP_eq d : g_ParseWriteSingleCoilResponseTCP d = parse_wcoil_resp_tcp d.
Proof. unfold g_ParseWriteSingleCoilResponseTCP, parse_wcoil_resp_tcp, fixed_resp_guard_tcp. cbn [is_coil_fc N.eqb Pos.eqb orb]. gen_body. Qed.
Lemma ParseWriteSingleRegisterResponseTCP_eq d : g_ParseWriteSingleRegisterResponseTCP d = parse_wreg_resp_tcp d.
Proof. unfold g_ParseWriteSingleRegisterResponseTCP, parse_wreg_resp_tcp, fixed_resp_guard_tcp. cbn [is_coil_fc N.eqb Pos.eqb orb]. gen_body. Qed.
Lemma ParseWriteMultipleCoilsResponseTCP_eq d : g_ParseWriteMultipleCoilsResponseTCP d = parse_wmulti_resp_tcp 15 d.
Proof. unfold g_ParseWriteMultipleCoilsResponseTCP, parse_wmulti_resp_tcp, fixed_resp_guard_tcp. cbn [is_coil_fc N.eqb Pos.eqb orb]. gen_body. Qed.
Lemma ParseWriteMultipleRegistersResponseTCP_eq d : g_ParseWriteMultipleRegistersResponseTCP d = parse_wmulti_resp_tcp 16 d.
Proof. unfold g_ParseWriteMultipleRegistersResponseTCP, parse_wmulti_resp_tcp, fixed_resp_guard_tcp. cbn [is_coil_fc N.eqb Pos.eqb orb]. gen_body. Qed.
Lemma ParseReadServerIDResponseTCP_eq d : g_ParseReadServerIDResponseTCP d = parse_srvid_resp_tcp d.
Proof. unfold g_ParseReadServerIDResponseTCP, parse_srvid_resp_tcp, fixed_resp_guard_tcp. cbn [is_coil_fc N.eqb Pos.eqb orb]. gen_body. Qed.
Lemma ParseReadCoilsResponseRTU_eq d : g_ParseReadCoilsResponseRTU d = parse_bytes_resp_rtu 1 d.
Proof. unfold g_ParseReadCoilsResponseRTU, parse_bytes_resp_rtu, fixed_resp_guard_rtu. cbn [is_coil_fc N.eqb Pos.eqb orb]. gen_body. Qed.
Lemma ParseReadDiscreteInputsResponseRTU_eq d : g_ParseReadDiscreteInputsResponseRTU d = parse_bytes_resp_rtu 2 d.
Proof. unfold g_ParseReadDiscreteInputsResponseRTU, parse_bytes_resp_rtu, fixed_resp_guard_rtu. cbn [is_coil_fc N.eqb Pos.eqb orb]. gen_body. Qed.
Lemma ParseReadHoldingRegistersResponseRTU_eq d : g_ParseReadHoldingRegistersResponseRTU d = parse_bytes_resp_rtu 3 d.
Proof. unfold g_ParseReadHoldingRegistersResponseRTU, parse_bytes_resp_rtu, fixed_resp_guard_rtu. cbn [is_coil_fc N.eqb Pos.eqb orb]. gen_body. Qed.
Lemma ParseReadInputRegistersResponseRTU_eq d : g_ParseReadInputRegistersResponseRTU d = parse_bytes_resp_rtu 4 d.
Proof. unfold g_ParseReadInputRegistersResponseRTU, parse_bytes_resp_rtu, fixed_resp_guard_rtu. cbn [is_coil_fc N.eqb Pos.eqb orb]. gen_body. Qed.
Lemma ParseReadWriteMultipleRegistersResponseRTU_eq d : g_ParseReadWriteMultipleRegistersResponseRTU d = parse_bytes_resp_rtu 23 d.
Proof. unfold g_ParseReadWriteMultipleRegistersResponseRTU, parse_bytes_resp_rtu, fixed_resp_guard_rtu. cbn [is_coil_fc N.eqb Pos.eqb orb]. gen_body. Qed.
Lemma ParseWriteSingleCoilResponseRTU_eq d : g_ParseWriteSingleCoilResponseRTU d = parse_wcoil_resp_rtu d.
Proof. unfold g_ParseWriteSingleCoilResponseRTU, parse_wcoil_resp_rtu, fixed_resp_guard_rtu. cbn [is_coil_fc N.eqb Pos.eqb orb]. gen_body. Qed.
Lemma ParseWriteSingleRegisterResponseRTU_eq d : g_ParseWriteSingleRegisterResponseRTU d = parse_wreg_resp_rtu d.
Proof. unfold g_ParseWriteSingleRegisterResponseRTU, parse_wreg_resp_rtu, fixed_resp_guard_rtu. cbn [is_coil_fc N.eqb Pos.eqb orb]. gen_body. Qed.
Lemma ParseWriteMultipleCoilsResponseRTU_eq d : g_ParseWriteMultipleCoilsResponseRTU d = parse_wmulti_resp_rtu 15 d.
Proof. unfold g_ParseWriteMultipleCoilsResponseRTU, parse_wmulti_resp_rtu, fixed_resp_guard_rtu. cbn [is_coil_fc N.eqb Pos.eqb orb]. gen_body. Qed.
Lemma ParseWriteMultipleRegistersResponseRTU_eq d : g_ParseWriteMultipleRegistersResponseRTU d = parse_wmulti_resp_rtu 16 d.
Proof. unfold g_ParseWriteMultipleRegistersResponseRTU, parse_wmulti_resp_rtu, fixed_resp_guard_rtu. cbn [is_coil_fc N.eqb Pos.eqb orb]. gen_body. Qed.
Lemma ParseReadServerIDResponseRTU_eq d : g_ParseReadServerIDResponseRTU d = parse_srvid_resp_rtu d.
Proof. unfold g_ParseReadServerIDResponseRTU, parse_srvid_resp_rtu, fixed_resp_guard_rtu. cbn [is_coil_fc N.eqb Pos.eqb orb]. gen_body. Qed.

(* ---------- the six dispatchers (callees first rewritten to the model with the lemmas above) ---------- *)
Lemma ParseTCPRequest_eq d : g_ParseTCPRequest d = parse_tcp_request d.
Proof. unfold g_ParseTCPRequest, parse_tcp_request. rewrite ?ParseReadCoilsRequestTCP_eq, ?ParseReadDiscreteInputsRequestTCP_eq, ?ParseReadHoldingRegistersRequestTCP_eq, ?ParseReadInputRegistersRequestTCP_eq, ?ParseWriteSingleCoilRequestTCP_eq, ?ParseWriteSingleRegisterRequestTCP_eq, ?ParseWriteMultipleCoilsRequestTCP_eq, ?ParseWriteMultipleRegistersRequestTCP_eq, ?ParseReadServerIDRequestTCP_eq, ?ParseReadWriteMultipleRegistersRequestTCP_eq. gen_body. Qed.
Lemma ParseRTURequest_eq d : g_ParseRTURequest d = parse_rtu_request d.
Proof. unfold g_ParseRTURequest, parse_rtu_request. rewrite ?ParseReadCoilsRequestRTU_eq, ?ParseReadDiscreteInputsRequestRTU_eq, ?ParseReadHoldingRegistersRequestRTU_eq, ?ParseReadInputRegistersRequestRTU_eq, ?ParseWriteSingleCoilRequestRTU_eq, ?ParseWriteSingleRegisterRequestRTU_eq, ?ParseWriteMultipleCoilsRequestRTU_eq, ?ParseWriteMultipleRegistersRequestRTU_eq, ?ParseReadServerIDRequestRTU_eq, ?ParseReadWriteMultipleRegistersRequestRTU_eq. gen_body. Qed.
Lemma ParseRTURequestWithCRC_eq d : g_ParseRTURequestWithCRC d = parse_rtu_request_crc d.
Proof. unfold g_ParseRTURequestWithCRC, parse_rtu_request_crc, crc_gate. rewrite ?ParseRTURequest_eq. gen_body. Qed.
Lemma ParseTCPResponse_eq d : g_ParseTCPResponse d = parse_tcp_response d.
Proof. unfold g_ParseTCPResponse, parse_tcp_response. rewrite ?ParseReadCoilsResponseTCP_eq, ?ParseReadDiscreteInputsResponseTCP_eq, ?ParseReadHoldingRegistersResponseTCP_eq, ?ParseReadInputRegistersResponseTCP_eq, ?ParseReadWriteMultipleRegistersResponseTCP_eq, ?ParseWriteSingleCoilResponseTCP_eq, ?ParseWriteSingleRegisterResponseTCP_eq, ?ParseWriteMultipleCoilsResponseTCP_eq, ?ParseWriteMultipleRegistersResponseTCP_eq, ?ParseReadServerIDResponseTCP_eq. rewrite as_tcp_error_eq. gen_body. Qed.
Lemma ParseRTUResponse_eq d : g_ParseRTUResponse d = parse_rtu_response d.
Proof. unfold g_ParseRTUResponse, parse_rtu_response. rewrite ?ParseReadCoilsResponseRTU_eq, ?ParseReadDiscreteInputsResponseRTU_eq, ?ParseReadHoldingRegistersResponseRTU_eq, ?ParseReadInputRegistersResponseRTU_eq, ?ParseReadWriteMultipleRegistersResponseRTU_eq, ?ParseWriteSingleCoilResponseRTU_eq, ?ParseWriteSingleRegisterResponseRTU_eq, ?ParseWriteMultipleCoilsResponseRTU_eq, ?ParseWriteMultipleRegistersResponseRTU_eq, ?ParseReadServerIDResponseRTU_eq. rewrite as_rtu_error_eq. gen_body. Qed.
Lemma ParseRTUResponseWithCRC_eq d : g_ParseRTUResponseWithCRC d = parse_rtu_response_crc d.
Proof. unfold g_ParseRTUResponseWithCRC, parse_rtu_response_crc, crc_gate. rewrite ?ParseRTUResponse_eq. gen_body. Qed.
