(* ClientInv.v -- facts about Client.Do / SerialClient.Do that hold for EVERY script:

     loop_inv / do_inv      the bytes handed to the parser, and the bytes taken for an exception
                            frame, are exactly the concatenation of what the transport reads returned
     client_crc             C12: over RTU a success or a device exception implies a consistent CRC
     client_hooks           C19: the trace with hooks is the trace without, with the hook calls
                            inserted at their places; the outcome is the same
     loop_bounded           C08: a timer (or cancellation) at iteration T ends the loop there *)
From Coq Require Import ZifyBool ZifyN ZifyNat.
Require Import MB.GoSem MB.CrcModel MB.PacketModel MB.ClientModel MB.proofs.CrcProofs MB.proofs.ClientProofs MB.proofs.ClientC07.
Open Scope N_scope.
Ltac Zify.zify_post_hook ::= Z.div_mod_to_equations.

(* ---------- what the transport reads returned, from the trace ---------- *)
Fixpoint read_events (t : list ev) : list (list N * N) :=
  match t with
  | [] => []
  | TRead c cls :: r => (c, cls) :: read_events r
  | _ :: r => read_events r
  end.
Definition reads (t : list ev) : list N := concat (map fst (read_events t)).

Lemma read_events_app a b : read_events (a ++ b) = read_events a ++ read_events b.
Proof.
  induction a as [|x a IH]; [reflexivity|]. cbn [app read_events]. destruct x; rewrite ?IH; reflexivity.
Qed.
Lemma reads_app a b : reads (a ++ b) = reads a ++ reads b.
Proof. unfold reads. rewrite read_events_app, map_app, concat_app. reflexivity. Qed.
Lemma reads_hk cfg x : (match x with TRead _ _ => False | _ => True end) -> reads (hk cfg x) = [].
Proof. unfold hk. destruct (c_hooks cfg); [|reflexivity]. destruct x; intros H; try reflexivity. destruct H. Qed.
Lemma reads_read_ev cfg c cls : reads (read_ev cfg c cls) = c.
Proof.
  unfold read_ev. change (TRead c cls :: ?l) with ([TRead c cls] ++ l).
  rewrite reads_app, reads_hk by exact I. unfold reads. cbn. rewrite !app_nil_r. reflexivity.
Qed.

Lemma flush_then_cases cfg sc r :
  (fst (flush_then cfg sc r) = r \/ fst (flush_then cfg sc r) = DFail (CIo SiteFlush)) /\
  reads (snd (flush_then cfg sc r)) = [].
Proof.
  unfold flush_then. destruct (c_kind cfg); try (split; [left; reflexivity|reflexivity]).
  destruct (c_flusher cfg); [|split; [left; reflexivity|reflexivity]].
  destruct (sc_flush_err sc); (split; [|reflexivity]); [right|left]; reflexivity.
Qed.

(* what the loop promises about its result *)
Definition promise (k : kind) (all : list N) (d : dores) : Prop :=
  match d with
  | DBytes b => b = all
  | DFail (CExc x) => recognise k (window k all) = RExc x
  | DFail (CParse _) => False      (* do() never produces the parser's errors *)
  | _ => True
  end.

Lemma promise_flush cfg sc all r :
  promise (c_kind cfg) all r -> promise (c_kind cfg) all (fst (flush_then cfg sc r)).
Proof.
  intros H. destruct (flush_then_cases cfg sc r) as [[E|E] _]; rewrite E; [exact H|exact I].
Qed.
Lemma promise_finish k all : promise k all (finish all).
Proof. unfold finish. destruct all; [exact I|reflexivity]. Qed.

Lemma loop_inv cfg sc e : forall steps acc,
  promise (c_kind cfg) (acc ++ reads (snd (loop cfg sc e steps acc))) (fst (loop cfg sc e steps acc)).
Proof.
  induction steps as [|st rest IH]; intros acc; [exact I|].
  cbn [loop].
  destruct (s_ctx st && (s_pick st || negb (s_timer st))); [exact I|].
  destruct (s_timer st); [exact I|].
  set (chunk := fst (delivered (c_kind cfg) acc (s_rd st))).
  set (cls := snd (delivered (c_kind cfg) acc (s_rd st))).
  rewrite with_trace_fst, with_trace_snd.
  change (TRead chunk cls :: hk cfg (HAfterRead chunk (length chunk) cls)) with (read_ev cfg chunk cls).
  rewrite reads_app, reads_read_ev.
  destruct (cls =? 3).
  { destruct (flush_then_cases cfg sc (DFail (CIo SiteRead))) as [[E|E] _]; rewrite E; exact I. }
  destruct (max_len (c_kind cfg) <? length (acc ++ chunk))%nat.
  { destruct (flush_then_cases cfg sc (DFail CTooLong)) as [[E|E] _]; rewrite E; exact I. }
  destruct (recognise (c_kind cfg) (window (c_kind cfg) (acc ++ chunk))) eqn:Er.
  - destruct (e <=? length (acc ++ chunk))%nat.
    + destruct (flush_then_cases cfg sc (finish (acc ++ chunk))) as [_ R]. rewrite R, app_nil_r.
      apply promise_flush, promise_finish.
    + destruct ((cls =? 2) && eof_breaks (c_kind cfg)).
      * cbn [fst snd]. change (reads []) with (@nil N). rewrite app_nil_r.
        apply promise_finish.
      * rewrite app_assoc. apply IH.
  - destruct (flush_then_cases cfg sc (DFail (CExc e0))) as [_ R]. rewrite R, app_nil_r.
    apply promise_flush. exact Er.
  - exact I.
Qed.

Lemma do_inv cfg sc data e :
  promise (c_kind cfg) (reads (snd (do_ cfg sc data e))) (fst (do_ cfg sc data e)).
Proof.
  unfold do_. destruct (c_kind cfg) eqn:Ek.
  - rewrite with_trace_fst, with_trace_snd. destruct (sc_swd_err sc); [exact I|].
    rewrite with_trace_fst, with_trace_snd. destruct (sc_write_err sc); [exact I|].
    rewrite !reads_app, reads_hk by exact I. cbn [app].
    change (reads [TSetWriteDeadline]) with (@nil N). change (reads [TWrite data]) with (@nil N). cbn [app].
    rewrite <- Ek. apply (loop_inv cfg sc e (sc_steps sc) []).
  - rewrite with_trace_fst, with_trace_snd. destruct (sc_swd_err sc); [exact I|].
    rewrite with_trace_fst, with_trace_snd. destruct (sc_write_err sc); [exact I|].
    rewrite !reads_app, reads_hk by exact I. cbn [app].
    change (reads [TSetWriteDeadline]) with (@nil N). change (reads [TWrite data]) with (@nil N). cbn [app].
    rewrite <- Ek. apply (loop_inv cfg sc e (sc_steps sc) []).
  - rewrite with_trace_fst, with_trace_snd. destruct (sc_write_err sc).
    + destruct (flush_then_cases cfg sc (DFail (CIo SiteWrite))) as [[E|E] _]; rewrite E; exact I.
    + rewrite !reads_app, reads_hk by exact I. cbn [app].
      change (reads [TWrite data]) with (@nil N). cbn [app].
      rewrite <- Ek. apply (loop_inv cfg sc e (sc_steps sc) []).
Qed.

(* Do as a whole: the reply handed to the parser is what was read *)
Theorem client_consumed cfg sc r :
  let x := client_do cfg sc r in
  match fst x with
  | OResp tid p => parse_resp (c_kind cfg) (exact (reads (snd x))) = Ok (tid, p)
  | OFail (CParse er) => parse_resp (c_kind cfg) (exact (reads (snd x))) = Err er
  | OFail (CExc er) => recognise (c_kind cfg) (window (c_kind cfg) (reads (snd x))) = RExc er
  | _ => True
  end.
Proof.
  cbn zeta. unfold client_do. destruct r as [q|]; [|exact I].
  destruct (negb (c_connected cfg)); [destruct (c_kind cfg); exact I|].
  pose proof (do_inv cfg sc (q_bytes q) (q_expected q)) as H.
  destruct (fst (do_ cfg sc (q_bytes q) (q_expected q))) as [b|er| |] eqn:Ed; cbn [fst snd]; try exact I.
  - cbn [promise] in H. rewrite reads_app, reads_hk by exact I. rewrite app_nil_r, <- H.
    destruct (parse_resp (c_kind cfg) (exact b)) as [[tid p]|er|]; [reflexivity|reflexivity|exact I].
  - destruct er; try exact I; [exact H|destruct H].
Qed.

(* ---------- C12 ---------- *)
(* the last two bytes, read low byte first, are the CRC of the bytes before them *)
Definition crc_consistent (l : list N) : Prop :=
  exists body t, l = body ++ t /\ length t = 2%nat /\ le16 t = crc16 body.

Lemma crc_gate_passed {A} (l : list N) (f : slice -> pres A) :
  (crc_gate (exact l) f = f (exact l) /\ crc_consistent l) \/
  crc_gate (exact l) f = Err EPlain \/ crc_gate (exact l) f = Err EInvalidCRC.
Proof.
  unfold crc_gate. change (slen (exact l)) with (length l).
  destruct (length l <? 4)%nat eqn:E4; [right; left; reflexivity|].
  rewrite !sub_in by (change (slen (exact l)) with (length l); lia). cbn [bind vis exact].
  destruct (le16 _ =? crc16 _) eqn:Ec; cbn [negb]; [left|right; right; reflexivity].
  split; [reflexivity|].
  exists (firstn (length l - 2) l), (skipn (length l - 2) l).
  cbn [skipn] in Ec. replace (length l - (length l - 2))%nat with 2%nat in Ec by lia.
  assert (Hl : length (skipn (length l - 2) l) = 2%nat) by (rewrite skipn_length; lia).
  rewrite (firstn_all2 (n := 2)) in Ec by lia.
  replace (length l - 2 - 0)%nat with (length l - 2)%nat in Ec by lia.
  split; [symmetry; apply firstn_skipn|split; [exact Hl|]]. lia.
Qed.

Lemma rtu_recognised_crc k acc u f c : is_tcp k = false ->
  recognise k (window k acc) = RExc (ERespRTU u f c) -> crc_consistent acc.
Proof.
  intros Hk H.
  assert (A : exists r, as_rtu_error_crc (window k acc) = Ok (Some r)).
  { destruct k; [discriminate| |]; unfold recognise in H;
    destruct (as_rtu_error_crc _) as [[[[u' f'] c']|]| |]; try discriminate; eauto. }
  destruct A as [r A]. unfold as_rtu_error_crc in A. rewrite slen_window in A.
  destruct (length acc =? 5)%nat eqn:E5; cbn [negb] in A; [|discriminate].
  rewrite !sub_in in A by (rewrite ?slen_window; lia). cbn [bind vis window] in A.
  destruct (le16 _ =? crc16 _) eqn:Ec; cbn [negb] in A; [|discriminate].
  exists (firstn 3 acc), (skipn 3 acc).
  assert (Hl : length (skipn 3 acc) = 2%nat) by (rewrite skipn_length; lia).
  rewrite skipn_O in Ec. cbn [Nat.sub] in Ec. rewrite (firstn_all2 (n := 2)) in Ec by lia.
  split; [symmetry; apply firstn_skipn|split; [exact Hl|lia]].
Qed.

Theorem client_crc cfg sc r :
  is_tcp (c_kind cfg) = false ->
  let x := client_do cfg sc r in
  (exists tid p, fst x = OResp tid p) \/
  (exists u f c, fst x = OFail (CExc (ERespRTU u f c))) \/
  (exists u f c, fst x = OFail (CParse (ERespRTU u f c))) ->
  crc_consistent (reads (snd x)).
Proof.
  intros Hk x H. pose proof (client_consumed cfg sc r) as C. cbn zeta in C. fold x in C.
  assert (Hp : forall l, parse_resp (c_kind cfg) (exact l) =
                         let* p := parse_rtu_response_crc (exact l) in Ok (0, p)).
  { intros l. destruct (c_kind cfg); [discriminate|reflexivity|reflexivity]. }
  destruct H as [(tid & p & E)|[(u & f & c & E)|(u & f & c & E)]]; rewrite E in C.
  - rewrite Hp in C. unfold parse_rtu_response_crc in C.
    destruct (crc_gate_passed (reads (snd x)) parse_rtu_response) as [[_ G]|[G|G]]; [exact G| |];
      rewrite G in C; discriminate.
  - exact (rtu_recognised_crc _ _ _ _ _ Hk C).
  - rewrite Hp in C. unfold parse_rtu_response_crc in C.
    destruct (crc_gate_passed (reads (snd x)) parse_rtu_response) as [[_ G]|[G|G]]; [exact G| |];
      rewrite G in C; discriminate.
Qed.

(* for byte strings this is the frame layout: the bytes end in the CRC trailer of the rest *)
Lemma crc_consistent_with_crc l : bytes_ok l -> crc_consistent l -> exists body, l = with_crc body.
Proof.
  intros Hb (body & t & El & Hl & Hc). exists body. subst l.
  apply bytes_ok_app in Hb. destruct Hb as [Hbody Ht].
  destruct t as [|a [|b [|? ?]]]; try discriminate.
  apply bytes_ok_cons in Ht. destruct Ht as [Ha Ht]. apply bytes_ok_cons in Ht. destruct Ht as [Hb' _].
  pose proof (crc16_lt body Hbody) as Hlt.
  unfold with_crc, crc_trailer, crc_lo, crc_hi. unfold le16 in Hc.
  f_equal. f_equal; [lia|f_equal; lia].
Qed.

(* ---------- C19 ---------- *)
Definition set_hooks (cfg : config) (h : bool) : config :=
  {| c_kind := c_kind cfg; c_connected := c_connected cfg; c_hooks := h; c_flusher := c_flusher cfg |}.

(* where the hook calls belong, given the transport calls *)
Fixpoint add_hooks (t : list ev) : list ev :=
  match t with
  | [] => []
  | TWrite b :: r => HBeforeWrite b :: TWrite b :: add_hooks r
  | TRead c cls :: r => TRead c cls :: HAfterRead c (length c) cls :: add_hooks r
  | x :: r => x :: add_hooks r
  end.
Lemma add_hooks_app a b : add_hooks (a ++ b) = add_hooks a ++ add_hooks b.
Proof.
  induction a as [|x a IH]; [reflexivity|]. cbn [app add_hooks]. destruct x; rewrite IH; reflexivity.
Qed.

Lemma flush_then_hooks cfg sc r :
  flush_then (set_hooks cfg true) sc r = flush_then (set_hooks cfg false) sc r /\
  add_hooks (snd (flush_then (set_hooks cfg false) sc r)) = snd (flush_then (set_hooks cfg false) sc r).
Proof.
  unfold flush_then, set_hooks. cbn [c_kind c_flusher].
  destruct (c_kind cfg); try (split; reflexivity). destruct (c_flusher cfg); split; reflexivity.
Qed.

Lemma loop_hooks cfg sc e : forall steps acc,
  fst (loop (set_hooks cfg true) sc e steps acc) = fst (loop (set_hooks cfg false) sc e steps acc) /\
  snd (loop (set_hooks cfg true) sc e steps acc) = add_hooks (snd (loop (set_hooks cfg false) sc e steps acc)).
Proof.
  induction steps as [|st rest IH]; intros acc; [split; reflexivity|].
  cbn [loop]. change (c_kind (set_hooks cfg true)) with (c_kind cfg).
  change (c_kind (set_hooks cfg false)) with (c_kind cfg).
  destruct (s_ctx st && (s_pick st || negb (s_timer st))); [split; reflexivity|].
  destruct (s_timer st); [split; reflexivity|].
  set (chunk := fst (delivered (c_kind cfg) acc (s_rd st))).
  set (cls := snd (delivered (c_kind cfg) acc (s_rd st))).
  rewrite !with_trace_fst, !with_trace_snd.
  unfold hk. cbn [c_hooks set_hooks]. cbn [app add_hooks].
  assert (G : forall y1 y0 : dores * list ev,
             fst y1 = fst y0 /\ snd y1 = add_hooks (snd y0) ->
             fst y1 = fst y0 /\
             TRead chunk cls :: HAfterRead chunk (length chunk) cls :: snd y1
             = TRead chunk cls :: HAfterRead chunk (length chunk) cls :: add_hooks (snd y0)).
  { intros y1 y0 [A B]. split; [exact A|rewrite B; reflexivity]. }
  apply G.
  assert (F : forall r, fst (flush_then (set_hooks cfg true) sc r) = fst (flush_then (set_hooks cfg false) sc r) /\
                        snd (flush_then (set_hooks cfg true) sc r) = add_hooks (snd (flush_then (set_hooks cfg false) sc r))).
  { intros r. destruct (flush_then_hooks cfg sc r) as [A B]. rewrite A, B. split; reflexivity. }
  destruct (cls =? 3); [apply F|].
  destruct (max_len (c_kind cfg) <? length (acc ++ chunk))%nat; [apply F|].
  destruct (recognise (c_kind cfg) (window (c_kind cfg) (acc ++ chunk))); [|apply F|split; reflexivity].
  destruct (e <=? length (acc ++ chunk))%nat; [apply F|].
  destruct ((cls =? 2) && eof_breaks (c_kind cfg)); [split; reflexivity|].
  apply IH.
Qed.

Lemma do_hooks cfg sc data e :
  fst (do_ (set_hooks cfg true) sc data e) = fst (do_ (set_hooks cfg false) sc data e) /\
  snd (do_ (set_hooks cfg true) sc data e) = add_hooks (snd (do_ (set_hooks cfg false) sc data e)).
Proof.
  destruct (loop_hooks cfg sc e (sc_steps sc) []) as [L1 L2].
  destruct (flush_then_hooks cfg sc (DFail (CIo SiteWrite))) as [F1 F2].
  unfold do_. change (c_kind (set_hooks cfg true)) with (c_kind cfg).
  change (c_kind (set_hooks cfg false)) with (c_kind cfg).
  unfold hk. cbn [c_hooks set_hooks].
  destruct (c_kind cfg); rewrite ?with_trace_fst, ?with_trace_snd.
  - destruct (sc_swd_err sc); [split; reflexivity|].
    rewrite ?with_trace_fst, ?with_trace_snd. destruct (sc_write_err sc); [split; reflexivity|].
    cbn [app add_hooks]. rewrite L1, L2. split; reflexivity.
  - destruct (sc_swd_err sc); [split; reflexivity|].
    rewrite ?with_trace_fst, ?with_trace_snd. destruct (sc_write_err sc); [split; reflexivity|].
    cbn [app add_hooks]. rewrite L1, L2. split; reflexivity.
  - destruct (sc_write_err sc).
    + rewrite F1. cbn [app add_hooks]. rewrite F2. split; reflexivity.
    + cbn [app add_hooks]. rewrite L1, L2. split; reflexivity.
Qed.

(* the frame handed to the parser, if the call gets that far *)
Definition parser_input (cfg : config) (sc : script) (r : option creq) : option (list N) :=
  match r with
  | Some q =>
      if c_connected cfg then
        match fst (do_ cfg sc (q_bytes q) (q_expected q)) with DBytes b => Some b | _ => None end
      else None
  | None => None
  end.

Theorem client_hooks cfg sc r :
  fst (client_do (set_hooks cfg true) sc r) = fst (client_do (set_hooks cfg false) sc r) /\
  snd (client_do (set_hooks cfg true) sc r) =
    add_hooks (snd (client_do (set_hooks cfg false) sc r)) ++
    match parser_input (set_hooks cfg false) sc r with Some b => [HBeforeParse b] | None => [] end.
Proof.
  unfold client_do, parser_input. destruct r as [q|]; [|split; reflexivity].
  change (c_connected (set_hooks cfg true)) with (c_connected cfg).
  change (c_connected (set_hooks cfg false)) with (c_connected cfg).
  change (c_kind (set_hooks cfg true)) with (c_kind cfg).
  change (c_kind (set_hooks cfg false)) with (c_kind cfg).
  destruct (c_connected cfg); cbn [negb]; [|split; reflexivity].
  destruct (do_hooks cfg sc (q_bytes q) (q_expected q)) as [D1 D2]. rewrite D1, D2.
  destruct (fst (do_ (set_hooks cfg false) sc (q_bytes q) (q_expected q))); cbn [fst snd];
    rewrite ?app_nil_r; split; reflexivity.
Qed.

(* the frame shown to BeforeParse is the concatenation of the chunks read *)
Theorem parser_input_reads cfg sc r b :
  parser_input cfg sc r = Some b ->
  b = reads (snd (client_do cfg sc r)) /\ fst (client_do cfg sc r) = outcome_of_parse (c_kind cfg) b.
Proof.
  unfold parser_input, client_do. destruct r as [q|]; [|discriminate].
  destruct (c_connected cfg); cbn [negb]; [|discriminate].
  pose proof (do_inv cfg sc (q_bytes q) (q_expected q)) as H.
  destruct (fst (do_ cfg sc (q_bytes q) (q_expected q))) as [b'| | |]; try discriminate.
  intros E. injection E as ->. cbn [promise] in H. cbn [fst snd].
  rewrite reads_app, reads_hk by exact I. rewrite app_nil_r. split; [exact H|reflexivity].
Qed.

(* the hook calls alone *)
Definition is_hook (x : ev) : bool :=
  match x with HBeforeWrite _ | HAfterRead _ _ _ | HBeforeParse _ => true | _ => false end.
Definition hook_of (x : ev) : list ev :=
  match x with
  | TWrite b => [HBeforeWrite b]
  | TRead c cls => [HAfterRead c (length c) cls]
  | _ => []
  end.
Lemma hooks_of_add_hooks t : forallb (fun x => negb (is_hook x)) t = true ->
  filter is_hook (add_hooks t) = flat_map hook_of t.
Proof.
  induction t as [|x t IH]; [reflexivity|]. cbn [forallb]. intros H.
  apply andb_prop in H. destruct H as [Hx Ht]. specialize (IH Ht).
  destruct x; cbn [add_hooks filter is_hook flat_map hook_of app] in *; try discriminate; rewrite IH; reflexivity.
Qed.

(* without hooks installed no hook is called, and the request is written at most once *)
Definition writes (t : list ev) : list (list N) :=
  flat_map (fun x => match x with TWrite b => [b] | _ => [] end) t.

Lemma forallb_app {A} (f : A -> bool) a b : forallb f (a ++ b) = forallb f a && forallb f b.
Proof. induction a as [|x a IH]; [reflexivity|]. cbn. rewrite IH, andb_assoc. reflexivity. Qed.
Lemma writes_app a b : writes (a ++ b) = writes a ++ writes b.
Proof. unfold writes. apply flat_map_app. Qed.

Definition quiet_trace_ok (t : list ev) : Prop :=
  forallb (fun x => negb (is_hook x)) t = true /\ writes t = [].

Lemma flush_then_quiet cfg sc r : quiet_trace_ok (snd (flush_then cfg sc r)).
Proof.
  unfold flush_then. destruct (c_kind cfg); try (split; reflexivity).
  destruct (c_flusher cfg); split; reflexivity.
Qed.

Lemma loop_quiet_trace cfg sc e : c_hooks cfg = false -> forall steps acc,
  quiet_trace_ok (snd (loop cfg sc e steps acc)).
Proof.
  intros Hh. induction steps as [|st rest IH]; intros acc; [split; reflexivity|].
  cbn [loop].
  destruct (s_ctx st && (s_pick st || negb (s_timer st))); [split; reflexivity|].
  destruct (s_timer st); [split; reflexivity|].
  rewrite with_trace_snd. unfold hk. rewrite Hh. cbn [app].
  assert (G : forall t, quiet_trace_ok t ->
              quiet_trace_ok (TRead (fst (delivered (c_kind cfg) acc (s_rd st))) (snd (delivered (c_kind cfg) acc (s_rd st))) :: t)).
  { intros t [A B]. split; [cbn [forallb is_hook negb andb]; exact A|exact B]. }
  apply G.
  destruct (_ =? 3); [apply flush_then_quiet|].
  destruct (_ <? _)%nat; [apply flush_then_quiet|].
  destruct (recognise _ _); [|apply flush_then_quiet|split; reflexivity].
  destruct (_ <=? _)%nat; [apply flush_then_quiet|].
  destruct (_ && _); [split; reflexivity|]. apply IH.
Qed.

Theorem no_hooks_no_calls cfg sc q :
  c_hooks cfg = false ->
  forallb (fun x => negb (is_hook x)) (snd (client_do cfg sc (Some q))) = true /\
  (writes (snd (client_do cfg sc (Some q))) = [] \/ writes (snd (client_do cfg sc (Some q))) = [q_bytes q]).
Proof.
  intros Hh.
  assert (D : forallb (fun x => negb (is_hook x)) (snd (do_ cfg sc (q_bytes q) (q_expected q))) = true /\
              (writes (snd (do_ cfg sc (q_bytes q) (q_expected q))) = [] \/
               writes (snd (do_ cfg sc (q_bytes q) (q_expected q))) = [q_bytes q])).
  { destruct (loop_quiet_trace cfg sc (q_expected q) Hh (sc_steps sc) []) as [L1 L2].
    destruct (flush_then_quiet cfg sc (DFail (CIo SiteWrite))) as [F1 F2].
    unfold do_, hk. rewrite Hh. cbn [app].
    destruct (c_kind cfg); rewrite ?with_trace_snd.
    - destruct (sc_swd_err sc); [split; [reflexivity|left; reflexivity]|].
      rewrite ?with_trace_snd. destruct (sc_write_err sc); [split; [reflexivity|right; reflexivity]|].
      cbn [app forallb is_hook negb andb]. split; [exact L1|right]. cbn [writes flat_map app].
      fold (writes (snd (loop cfg sc (q_expected q) (sc_steps sc) []))). rewrite L2. reflexivity.
    - destruct (sc_swd_err sc); [split; [reflexivity|left; reflexivity]|].
      rewrite ?with_trace_snd. destruct (sc_write_err sc); [split; [reflexivity|right; reflexivity]|].
      cbn [app forallb is_hook negb andb]. split; [exact L1|right]. cbn [writes flat_map app].
      fold (writes (snd (loop cfg sc (q_expected q) (sc_steps sc) []))). rewrite L2. reflexivity.
    - destruct (sc_write_err sc).
      + cbn [app forallb is_hook negb andb]. split; [exact F1|right]. cbn [writes flat_map app].
        fold (writes (snd (flush_then cfg sc (DFail (CIo SiteWrite))))). rewrite F2. reflexivity.
      + cbn [app forallb is_hook negb andb]. split; [exact L1|right]. cbn [writes flat_map app].
        fold (writes (snd (loop cfg sc (q_expected q) (sc_steps sc) []))). rewrite L2. reflexivity. }
  unfold client_do. destruct (negb (c_connected cfg)); [destruct (c_kind cfg); (split; [reflexivity|left; reflexivity])|].
  destruct D as [D1 D2].
  destruct (fst (do_ cfg sc (q_bytes q) (q_expected q))); cbn [fst snd]; try (split; assumption).
  unfold hk. rewrite Hh, app_nil_r. split; assumption.
Qed.

(* ---------- C08: the loop is bounded by the timer ---------- *)
Definition read_count (t : list ev) : nat := length (read_events t).

Lemma read_count_flush cfg sc r : read_count (snd (flush_then cfg sc r)) = 0%nat.
Proof.
  unfold flush_then. destruct (c_kind cfg); try reflexivity. destruct (c_flusher cfg); reflexivity.
Qed.

(* a step at which the select leaves the loop *)
Definition ends_call (st : step) : bool := s_timer st || s_ctx st.

Lemma loop_bounded cfg sc e : forall T steps acc st,
  nth_error steps T = Some st -> ends_call st = true ->
  loop cfg sc e (firstn (S T) steps) acc = loop cfg sc e steps acc /\
  fst (loop cfg sc e steps acc) <> DOutOfScript /\
  (read_count (snd (loop cfg sc e steps acc)) <= T)%nat.
Proof.
  induction T as [|T IH]; intros steps acc st Hn He.
  - destruct steps as [|s0 rest]; [discriminate|]. cbn [nth_error] in Hn. injection Hn as ->.
    cbn [firstn loop]. unfold ends_call in He.
    destruct (s_ctx st) eqn:Ec, (s_timer st) eqn:Et, (s_pick st); cbn [andb orb negb] in *;
      try discriminate; (split; [reflexivity|split; [discriminate|cbn; lia]]).
  - destruct steps as [|s0 rest]; [discriminate|]. cbn [nth_error] in Hn.
    change (firstn (S (S T)) (s0 :: rest)) with (s0 :: firstn (S T) rest).
    cbn [loop].
    destruct (s_ctx s0 && (s_pick s0 || negb (s_timer s0))); [split; [reflexivity|split; [discriminate|cbn; lia]]|].
    destruct (s_timer s0); [split; [reflexivity|split; [discriminate|cbn; lia]]|].
    rewrite !with_trace_fst, !with_trace_snd.
    assert (F : forall r, fst (flush_then cfg sc r) <> DOutOfScript \/ r = DOutOfScript).
    { intros r. destruct (flush_then_cases cfg sc r) as [[E|E] _]; rewrite E.
      - destruct r; try (left; discriminate). right; reflexivity.
      - left; discriminate. }
    assert (RC : forall t, read_count ((TRead (fst (delivered (c_kind cfg) acc (s_rd s0)))
                                            (snd (delivered (c_kind cfg) acc (s_rd s0)))
                                       :: hk cfg (HAfterRead (fst (delivered (c_kind cfg) acc (s_rd s0)))
                                                   (length (fst (delivered (c_kind cfg) acc (s_rd s0))))
                                                   (snd (delivered (c_kind cfg) acc (s_rd s0))))) ++ t)
                         = S (read_count t)).
    { intros t. unfold read_count, hk. destruct (c_hooks cfg); reflexivity. }
    rewrite RC.
    destruct (_ =? 3).
    { split; [reflexivity|]. rewrite read_count_flush. split; [|lia].
      destruct (F (DFail (CIo SiteRead))) as [G|G]; [exact G|discriminate]. }
    destruct (_ <? _)%nat.
    { split; [reflexivity|]. rewrite read_count_flush. split; [|lia].
      destruct (F (DFail CTooLong)) as [G|G]; [exact G|discriminate]. }
    destruct (recognise _ _).
    + destruct (_ <=? _)%nat.
      { split; [reflexivity|]. rewrite read_count_flush. split; [|lia].
        destruct (F (finish (acc ++ fst (delivered (c_kind cfg) acc (s_rd s0))))) as [G|G]; [exact G|].
        unfold finish in G. destruct (acc ++ _); discriminate. }
      destruct (_ && _).
      { split; [reflexivity|]. split; [unfold finish; destruct (acc ++ _); discriminate|cbn; lia]. }
      destruct (IH rest (acc ++ fst (delivered (c_kind cfg) acc (s_rd s0))) st Hn He) as (A & B & C).
      rewrite A. split; [reflexivity|split; [exact B|lia]].
    + split; [reflexivity|]. rewrite read_count_flush. split; [|lia].
      destruct (F (DFail (CExc e0))) as [G|G]; [exact G|discriminate].
    + split; [reflexivity|split; [discriminate|cbn; lia]].
Qed.
