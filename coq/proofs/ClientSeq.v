(* ClientSeq.v -- several calls on one client object ([run_ops] of ClientModel.v).

   What a call leaves behind is only what Connect and Close did: the state after a list of calls is
   the state after its Connect / Close calls alone, a Do never changes it -- whatever its outcome --
   and therefore the results of later calls do not depend on how earlier calls ended.  Every Do in
   a sequence is [client_do] for the state it starts in, so all single-call theorems apply to it. *)
From Coq Require Import ZifyBool ZifyN ZifyNat.
Require Import MB.GoSem MB.CrcModel MB.PacketModel MB.ClientModel.
Open Scope N_scope.

Fixpoint state_after (cfg0 : config) (s : cstate) (ops : list op) : cstate :=
  match ops with
  | [] => s
  | o :: rest => state_after cfg0 (fst (step_op cfg0 s o)) rest
  end.

Definition is_do (o : op) : bool := match o with OpDo _ _ => true | _ => false end.
(* the Connect and Close calls of a sequence *)
Definition lifecycle (ops : list op) : list op := filter (fun o => negb (is_do o)) ops.

(* the single call *)
Definition call (cfg0 : config) (s : cstate) (o : op) : opres := snd (step_op cfg0 s o).

Lemma do_keeps_state cfg0 s r sc : fst (step_op cfg0 s (OpDo r sc)) = s.
Proof. reflexivity. Qed.

Lemma do_is_client_do cfg0 s r sc :
  call cfg0 s (OpDo r sc) =
  RDo (client_do (cfg_in cfg0 s) (if st_closed s then on_closed (c_kind cfg0) sc else sc) r).
Proof. reflexivity. Qed.

Lemma state_after_app cfg0 s a b : state_after cfg0 s (a ++ b) = state_after cfg0 (state_after cfg0 s a) b.
Proof. revert s. induction a as [|o a IH]; intros s; [reflexivity|]. cbn [app state_after]. apply IH. Qed.

Lemma run_ops_app cfg0 s a b :
  run_ops cfg0 s (a ++ b) = run_ops cfg0 s a ++ run_ops cfg0 (state_after cfg0 s a) b.
Proof.
  revert s. induction a as [|o a IH]; intros s; [reflexivity|].
  cbn [app run_ops state_after]. rewrite IH. reflexivity.
Qed.

Lemma run_ops_length cfg0 s ops : length (run_ops cfg0 s ops) = length ops.
Proof. revert s. induction ops as [|o ops IH]; intros s; [reflexivity|]. cbn [run_ops length]. rewrite IH. reflexivity. Qed.

(* the state depends on the Connect / Close calls only *)
Lemma state_after_lifecycle cfg0 ops : forall s,
  state_after cfg0 s ops = state_after cfg0 s (lifecycle ops).
Proof.
  induction ops as [|o ops IH]; intros s; [reflexivity|].
  unfold lifecycle. cbn [filter state_after]. destruct o; cbn [is_do negb state_after]; apply IH.
Qed.

(* the i-th result is the single call in the state left by the Connect / Close calls before it *)
Theorem run_ops_is_map cfg0 : forall ops s i,
  nth_error (run_ops cfg0 s ops) i =
  option_map (call cfg0 (state_after cfg0 s (lifecycle (firstn i ops)))) (nth_error ops i).
Proof.
  induction ops as [|o ops IH]; intros s i.
  - destruct i; reflexivity.
  - destruct i as [|i]; [reflexivity|].
    cbn [run_ops nth_error]. rewrite IH. f_equal. f_equal.
    rewrite <- !state_after_lifecycle. reflexivity.
Qed.

(* how the earlier calls ended does not matter: replace the earlier calls by any others with the
   same Connect / Close calls (other requests, other scripts, other faults): the later results
   are the same *)
Theorem later_calls_independent cfg0 s before before' after :
  lifecycle before = lifecycle before' ->
  skipn (length before) (run_ops cfg0 s (before ++ after)) =
  skipn (length before') (run_ops cfg0 s (before' ++ after)).
Proof.
  intros H. rewrite !run_ops_app.
  rewrite !skipn_app, !run_ops_length, !Nat.sub_diag.
  rewrite (skipn_all2 (run_ops cfg0 s before)) by (rewrite run_ops_length; lia).
  rewrite (skipn_all2 (run_ops cfg0 s before')) by (rewrite run_ops_length; lia). cbn [skipn app].
  rewrite (state_after_lifecycle cfg0 before), (state_after_lifecycle cfg0 before'), H. reflexivity.
Qed.

(* the connection state in closed form *)
Lemma closed_only_after_connect cfg0 s o :
  st_closed s = true -> st_conn s = true -> st_conn (fst (step_op cfg0 s o)) = true.
Proof.
  intros Hc Hn. destruct o; cbn [step_op].
  - destruct (c_kind cfg0); [destruct dial_fails| destruct dial_fails|]; cbn [fst st_conn]; auto.
  - rewrite Hn. reflexivity.
  - exact Hn.
Qed.
