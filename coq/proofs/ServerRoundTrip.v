(* ServerRoundTrip.v -- with the request round trip of the packet layer (proofs/ReqRoundTrip.v,
   C09): the reply the server emits for the library's encoding of a legal request is the handler's
   answer to exactly that request. *)
Require Import MB.GoSem MB.CrcModel MB.PacketModel MB.Spec MB.ServerModel MB.ServerSpec.
Require Import MB.proofs.ReqRoundTrip MB.proofs.ServerAbstract MB.proofs.ServerPacketFacts MB.proofs.ServerProofs.
From Coq Require Import ZifyBool ZifyN ZifyNat.
Open Scope N_scope.

Lemma rt_ok_encodable r : req_rt_ok r -> encodable r.
Proof.
  destruct r; cbn [req_rt_ok encodable]; intros H;
    repeat match goal with H : _ /\ _ |- _ => destruct H end; try exact I; try lia.
Qed.

(* what the handler's result becomes on the wire for request [r] with transaction id [tid] *)
Definition wire_reply (tid : N) (r : req) (h : handler_result) : list N :=
  match h with
  | HResp w => w
  | HErrTyped c => exception_adu_tcp tid (req_unit r) (req_fc r) c
  | HErrGeneric => exception_adu_tcp tid (req_unit r) (req_fc r) 0
  | HPanic => []
  end.

Theorem reply_of_legal handler tid r :
  tid < 65536 -> req_rt_ok r ->
  reply_of handler (frame_of (tid, r)) = wire_reply tid r (handler (tid, r)).
Proof.
  intros Ht Hr. unfold reply_of, frame_of. cbn [fst snd].
  pose proof (rt_all tid r Ht Hr []) as (_ & Hp & _). change {| vis := req_bytes_tcp tid r; spare := [] |} with (exact (req_bytes_tcp tid r)) in Hp.
  pose proof (rt_ok_encodable r Hr) as He.
  destruct (req_frame_looks tid r [] He) as [Hl H8]. rewrite app_nil_r in Hl.
  set (f := req_bytes_tcp tid r) in *.
  (* the frame is delimited, so the shape lemma applies *)
  assert (Hd : delimited_frame f /\ is_supported (fc_of f) = true).
  { destruct (looks_exact_cases f H8) as [E|[(m & E & Hh & Hs)|(m & E & Hh & Hs)]]; rewrite E in Hl; try discriminate.
    assert (Hm : m = N.of_nat (length f)) by congruence. split; [|exact Hs].
    destruct (header_ok_frame f m H8 Hh) as (Hd & _); [lia|].
    rewrite Hm, Nat2N.id, firstn_all in Hd. exact Hd. }
  destruct Hd as [Hd Hs].
  pose proof (parse_delimited f [] Hd Hs) as Hsh. change {| vis := f; spare := [] |} with (exact f) in Hsh.
  rewrite Hp in Hsh. cbn [parse_shape] in Hsh. destruct Hsh as (Etid & Eunit & Efc).
  pose proof (handle_delimited handler f Hd Hs) as Hh.
  pose proof Hd as (Hlen8 & _).
  pose proof (supported_lt_128 _ Hs) as Hlt.
  assert (Hx : forall c, exc_for f c = exception_adu_tcp tid (req_unit r) (req_fc r) c).
  { intros c. unfold exc_for. rewrite <- Etid, <- Eunit, <- Efc. apply exc_bytes_spec. rewrite Efc. exact Hlt. }
  destruct (handle handler (exact f)) as [w| |] eqn:Eh.
  - apply handled_ok_inv in Hh. destruct Hh as [[Ee _]|(t & r' & Ep & Hm)]; [congruence|].
    rewrite Hp in Ep. injection Ep as <- <-.
    destruct (handler (tid, r)); cbn [wire_reply]; try (rewrite <- Hx); try exact Hm. contradiction.
  - remember (Err e) as x eqn:Ex. destruct Hh; discriminate Ex.
  - remember Panic as x eqn:Ex.
    destruct Hh as [Ep|t r' w' Ep _ _ _ Ehh|t r' c Ep Ehh|t r' Ep Ehh|t r' Ep Ehh]; try discriminate Ex.
    rewrite Hp in Ep. injection Ep as <- <-. rewrite Ehh. reflexivity.
Qed.
