(* EncodeProofs.v -- proofs for C01: every request the model constructors agree to build serialises
   to exactly the ADU that Spec.v prescribes for the same arguments.

   Contents:
     1. CoilsToBytes = Spec.pack_coils for every coil list (accumulator invariant of the loop);
     2. byte-level well-formedness of request bodies ([bytes_ok]);
     3. MBAP header / length field / CRC trailer lemmas;
     4. per constructor: bytes = specified ADU, legality, frame length, converse;
     5. the two refutations (FC16: 124 registers, FC23: 122..124 write registers). *)
From Coq Require Import ZifyBool ZifyN ZifyNat.
Require Import MB.GoSem MB.CrcModel MB.CrcSpec MB.Spec MB.PacketModel MB.proofs.CrcProofs.
Open Scope N_scope.
Ltac Zify.zify_post_hook ::= Z.div_mod_to_equations.

(* ====================================================================================== *)
(* 1. coil packing                                                                         *)
(* ====================================================================================== *)

Lemma nth_update_same l k v : (k < length l)%nat -> nth k (update l k v) 0 = v.
Proof. revert k. induction l as [|x l IH]; intros [|k] H; cbn in *; try lia; auto. apply IH. lia. Qed.
Lemma nth_update_other l k v k' : k' <> k -> nth k' (update l k v) 0 = nth k' l 0.
Proof.
  revert k k'. induction l as [|x l IH]; intros [|k] [|k'] H; cbn in *; try reflexivity; try lia.
  apply IH. lia.
Qed.
Lemma update_length l k v : length (update l k v) = length l.
Proof. revert k. induction l as [|x l IH]; intros [|k]; cbn; auto. Qed.

Lemma set_bits_length coils : forall i acc, length (set_bits coils i acc) = length acc.
Proof.
  induction coils as [|c r IH]; intros i acc; cbn [set_bits]; [reflexivity|].
  rewrite IH. destruct c; [apply update_length|reflexivity].
Qed.

(* invariant of the loop of CoilsToBytes: after processing the coils numbered i.., bit j of byte k
   is what was there before, or the coil at 8k+j if that index is among the processed ones *)
Lemma set_bits_spec coils : forall i acc k j,
  (i + length coils <= 8 * length acc)%nat ->
  j < 8 ->
  N.testbit (nth k (set_bits coils i acc) 0) j =
    N.testbit (nth k acc 0) j ||
    ((i <=? 8 * k + N.to_nat j)%nat && nth (8 * k + N.to_nat j - i) coils false).
Proof.
  induction coils as [|c r IH]; intros i acc k j Hlen Hj; cbn [set_bits].
  - destruct (8 * k + N.to_nat j - i)%nat; cbn; rewrite andb_false_r, orb_false_r; reflexivity.
  - cbn [length] in Hlen.
    rewrite IH; [| (destruct c; rewrite ?update_length; lia) | exact Hj].
    set (ix := (8 * k + N.to_nat j)%nat).
    assert (Hdm : (i = 8 * (i / 8) + i mod 8)%nat) by (apply Nat.div_mod; lia).
    assert (Hm : (i mod 8 < 8)%nat) by (apply Nat.mod_upper_bound; lia).
    destruct (Nat.eq_dec ix i) as [Heq|Hne].
    + assert (Hk : k = (i / 8)%nat) by (unfold ix in Heq; lia).
      assert (Hjj : N.to_nat j = (i mod 8)%nat) by (unfold ix in Heq; lia).
      replace (S i <=? ix)%nat with false by lia.
      replace (i <=? ix)%nat with true by lia.
      replace (ix - i)%nat with 0%nat by lia. cbn [nth andb]. rewrite orb_false_r.
      destruct c; [|rewrite orb_false_r; reflexivity].
      subst k. rewrite nth_update_same by lia.
      rewrite N.lor_spec, N.shiftl_1_l, N.pow2_bits_eqb.
      replace (N.of_nat (i mod 8) =? j) with true by lia. rewrite orb_true_r. reflexivity.
    + assert (Hsame : N.testbit (nth k (if c then update acc (i / 8) (N.lor (nth (i / 8) acc 0) (N.shiftl 1 (N.of_nat (i mod 8)))) else acc) 0) j
                      = N.testbit (nth k acc 0) j).
      { destruct c; [|reflexivity].
        destruct (Nat.eq_dec k (i / 8)) as [->|Hk]; [|rewrite nth_update_other by exact Hk; reflexivity].
        rewrite nth_update_same by lia.
        rewrite N.lor_spec, N.shiftl_1_l, N.pow2_bits_eqb.
        replace (N.of_nat (i mod 8) =? j) with false by (unfold ix in Hne; lia).
        rewrite orb_false_r. reflexivity. }
      rewrite Hsame. f_equal.
      destruct (i <=? ix)%nat eqn:E1.
      * replace (S i <=? ix)%nat with true by lia. cbn [andb].
        replace (ix - i)%nat with (S (ix - S i)) by lia. reflexivity.
      * replace (S i <=? ix)%nat with false by lia. reflexivity.
Qed.

Lemma nth_repeat_0 n k : nth k (repeat 0 n) 0 = 0.
Proof. revert k. induction n as [|n IH]; intros [|k]; cbn; auto. Qed.

Lemma byte_count_enough n : (n <= 8 * byte_count n)%nat.
Proof.
  unfold byte_count. destruct (n mod 8 =? 0)%nat eqn:E; lia.
Qed.

Lemma coils_to_bytes_length coils : length (coils_to_bytes coils) = byte_count (length coils).
Proof. unfold coils_to_bytes. rewrite set_bits_length, repeat_length. reflexivity. Qed.

Lemma coils_to_bytes_bit coils k j : j < 8 ->
  N.testbit (nth k (coils_to_bytes coils) 0) j = nth (8 * k + N.to_nat j) coils false.
Proof.
  intros Hj. unfold coils_to_bytes.
  rewrite set_bits_spec; [|rewrite repeat_length; pose proof (byte_count_enough (length coils)); lia|exact Hj].
  rewrite nth_repeat_0, N.bits_0. cbn [orb]. rewrite Nat.sub_0_r. reflexivity.
Qed.

(* every byte of the result fits eight bits: the loop only ever ORs in 1 << (i%8) *)
Lemma lt256_bits a : a < 256 <-> (forall j, 8 <= j -> N.testbit a j = false).
Proof.
  split.
  - intros H j Hj. destruct (N.eq_dec a 0) as [->|Hz]; [apply N.bits_0|].
    apply N.bits_above_log2. assert (N.log2 a < 8); [|lia].
    apply (N.log2_lt_pow2 a 8); [lia|exact H].
  - intros H. destruct (N.eq_dec a 0) as [->|Hz]; [lia|].
    change 256 with (2 ^ 8). apply N.log2_lt_pow2; [lia|].
    destruct (N.lt_ge_cases (N.log2 a) 8) as [L|L]; [exact L|].
    pose proof (N.bit_log2 a Hz) as B. rewrite (H (N.log2 a) L) in B. discriminate B.
Qed.

Lemma lor_bit_lt256 a m : a < 256 -> m < 8 -> N.lor a (N.shiftl 1 m) < 256.
Proof.
  intros Ha Hm. apply lt256_bits. intros j Hj.
  rewrite N.lor_spec, N.shiftl_1_l, N.pow2_bits_eqb.
  rewrite (proj1 (lt256_bits a) Ha j Hj). replace (m =? j) with false by lia. reflexivity.
Qed.

Lemma update_ok l k v : bytes_ok l -> v < 256 -> bytes_ok (update l k v).
Proof.
  revert k. induction l as [|x l IH]; intros k Hl Hv; [exact Hl|].
  apply bytes_ok_cons in Hl. destruct Hl as [Hx Hl].
  destruct k as [|k]; cbn [update]; apply bytes_ok_cons; split; auto.
Qed.

Lemma nth_ok l k : bytes_ok l -> nth k l 0 < 256.
Proof.
  revert k. induction l as [|x l IH]; intros k Hl; [destruct k; cbn; lia|].
  apply bytes_ok_cons in Hl. destruct Hl as [Hx Hl]. destruct k as [|k]; cbn [nth]; auto.
Qed.

Lemma set_bits_ok coils : forall i acc, bytes_ok acc -> bytes_ok (set_bits coils i acc).
Proof.
  induction coils as [|c r IH]; intros i acc Ha; cbn [set_bits]; [exact Ha|].
  apply IH. destruct c; [|exact Ha].
  apply update_ok; [exact Ha|].
  apply lor_bit_lt256; [apply nth_ok; exact Ha|].
  assert ((i mod 8 < 8)%nat) by (apply Nat.mod_upper_bound; lia). lia.
Qed.

Lemma repeat0_ok n : bytes_ok (repeat 0 n).
Proof. induction n as [|n IH]; cbn [repeat]; [constructor|apply bytes_ok_cons; split; [lia|exact IH]]. Qed.

Lemma coils_to_bytes_ok coils : bytes_ok (coils_to_bytes coils).
Proof. unfold coils_to_bytes. apply set_bits_ok, repeat0_ok. Qed.

(* the specification side: bit j of [byte_of_bits bs] is the j-th element of bs *)
Lemma byte_of_bits_bit : forall bs j, N.testbit (byte_of_bits bs) j = nth (N.to_nat j) bs false.
Proof.
  induction bs as [|b r IH]; intros j; cbn [byte_of_bits].
  - rewrite N.bits_0. destruct (N.to_nat j); reflexivity.
  - destruct (N.eq_dec j 0) as [->|Hj].
    + rewrite N.bit0_odd, N.odd_add_mul_2. cbn [N.to_nat nth]. destruct b; reflexivity.
    + replace j with (N.succ (N.pred j)) at 1 by lia.
      assert (T : N.testbit ((if b then 1 else 0) + 2 * byte_of_bits r) (N.succ (N.pred j))
                  = N.testbit (byte_of_bits r) (N.pred j)).
      { destruct b.
        - rewrite N.add_comm. apply (N.testbit_succ_r (byte_of_bits r) true).
        - rewrite N.add_0_l. apply N.double_bits_succ. }
      rewrite T, IH. replace (N.to_nat j) with (S (N.to_nat (N.pred j))) by lia. reflexivity.
Qed.

Lemma nth_firstn_skipn {A} (l : list A) (d : A) a n i :
  nth i (firstn n (skipn a l)) d = if (i <? n)%nat then nth (a + i) l d else d.
Proof.
  revert a l i. induction n as [|n IH]; intros a l i.
  - rewrite firstn_O. destruct i; reflexivity.
  - destruct (skipn a l) as [|x r] eqn:E.
    + cbn [firstn]. assert (L : (length l <= a)%nat).
      { pose proof (skipn_length a l) as S1. rewrite E in S1. cbn in S1. lia. }
      rewrite (nth_overflow l) by lia. destruct i; destruct (_ <? _)%nat; reflexivity.
    + cbn [firstn]. assert (Hx : nth a l d = x /\ skipn (S a) l = r).
      { clear IH. revert l E. induction a as [|a IHa]; intros l E.
        - cbn in E. subst l. split; reflexivity.
        - destruct l as [|y l]; [discriminate E|]. cbn [skipn] in E. cbn [nth]. apply IHa in E.
          exact E. }
      destruct Hx as [Hx Hr]. destruct i as [|i].
      * cbn [nth]. rewrite Nat.add_0_r. symmetry. exact Hx.
      * cbn [nth]. rewrite <- Hr, IH. replace (S a + i)%nat with (a + S i)%nat by lia.
        destruct (i <? n)%nat eqn:E1; [replace (S i <? S n)%nat with true by lia|replace (S i <? S n)%nat with false by lia]; reflexivity.
Qed.

Lemma byte_of_bits_lt256 bs : (length bs <= 8)%nat -> byte_of_bits bs < 256.
Proof.
  intros H. apply lt256_bits. intros j Hj. rewrite byte_of_bits_bit.
  apply nth_overflow. lia.
Qed.

Lemma pack_coils_length coils : length (pack_coils coils) = coil_bytes (length coils).
Proof. unfold pack_coils. rewrite map_length, seq_length. reflexivity. Qed.

Lemma coil_bytes_byte_count n : coil_bytes n = byte_count n.
Proof. unfold coil_bytes, byte_count. destruct (n mod 8 =? 0)%nat eqn:E; lia. Qed.

Lemma nth_pack_coils coils k : (k < coil_bytes (length coils))%nat ->
  nth k (pack_coils coils) 0 = byte_of_bits (firstn 8 (skipn (8 * k) coils)).
Proof.
  intros H. unfold pack_coils.
  set (f := fun k => byte_of_bits (firstn 8 (skipn (8 * k) coils))).
  rewrite (nth_indep _ 0 (f 0%nat)) by (rewrite map_length, seq_length; exact H).
  rewrite map_nth. rewrite seq_nth by exact H. reflexivity.
Qed.

(* CoilsToBytes packs the coils exactly as MAP 6.11 prescribes, for every coil list *)
Theorem coils_to_bytes_is_pack_coils : forall coils, coils_to_bytes coils = pack_coils coils.
Proof.
  intros coils.
  assert (L : length (coils_to_bytes coils) = length (pack_coils coils)).
  { rewrite coils_to_bytes_length, pack_coils_length, coil_bytes_byte_count. reflexivity. }
  apply (nth_ext _ _ 0 0 L). intros k Hk.
  rewrite L, pack_coils_length in Hk.
  rewrite nth_pack_coils by exact Hk.
  apply N.bits_inj. intros j.
  destruct (N.lt_ge_cases j 8) as [Hj|Hj].
  - rewrite coils_to_bytes_bit by exact Hj. rewrite byte_of_bits_bit, nth_firstn_skipn.
    replace (N.to_nat j <? 8)%nat with true by lia. reflexivity.
  - assert (A : nth k (coils_to_bytes coils) 0 < 256) by (apply nth_ok, coils_to_bytes_ok).
    rewrite (proj1 (lt256_bits _) A j Hj).
    symmetry. apply (proj1 (lt256_bits _)); [|exact Hj].
    apply byte_of_bits_lt256. rewrite firstn_length. lia.
Qed.

(* ====================================================================================== *)
(* 2. frames: MBAP header, length field, CRC trailer                                       *)
(* ====================================================================================== *)

Lemma put16_w16 x : put16 x = w16 x. Proof. reflexivity. Qed.

Lemma u16_small x : x < 65536 -> u16 x = x. Proof. unfold u16. lia. Qed.
Lemma u8_small x : x < 256 -> u8 x = x. Proof. unfold u8. lia. Qed.

(* MBAP: the length field is the number of bytes that follow it (unit id + PDU) *)
Lemma tcp_frame_eq tid r u pdu :
  req_body r = u :: pdu -> req_len16 r = 1 + N.of_nat (length pdu) ->
  req_bytes_tcp tid r = adu_tcp tid u pdu.
Proof.
  intros Hb Hl. unfold req_bytes_tcp, adu_tcp, mbap_bytes. rewrite Hb, Hl. reflexivity.
Qed.

Lemma mbap_length_field tid r :
  firstn 2 (skipn 4 (req_bytes_tcp tid r)) = put16 (req_len16 r).
Proof. reflexivity. Qed.

(* RTU: unit id first, then the PDU, then the specified CRC, low byte first *)
Lemma rtu_frame_eq r u pdu :
  req_body r = u :: pdu -> bytes_ok (u :: pdu) -> req_bytes_rtu r = adu_rtu u pdu.
Proof.
  intros Hb Hok. unfold req_bytes_rtu, adu_rtu, with_crc. rewrite Hb.
  rewrite (trailer_is_spec _ Hok). reflexivity.
Qed.

Lemma adu_tcp_length tid u pdu : length (adu_tcp tid u pdu) = (7 + length pdu)%nat.
Proof. reflexivity. Qed.
Lemma adu_rtu_length u pdu : length (adu_rtu u pdu) = (3 + length pdu)%nat.
Proof. unfold adu_rtu. rewrite app_length. cbn [length spec_trailer]. lia. Qed.

Ltac ok_bytes :=
  unfold w16, hi, lo, put16, u8;
  repeat first
    [ apply bytes_ok_nil
    | apply coils_to_bytes_ok
    | assumption
    | apply bytes_ok_cons; split; [try lia|]
    | apply bytes_ok_app; split ].

(* ====================================================================================== *)
(* 3. what the constructors accept                                                         *)
(* ====================================================================================== *)

Lemma Ok_inj {E A} (a b : A) : @Ok E A a = Ok b -> a = b.
Proof. intros H. injection H. auto. Qed.

Lemma new_read_inv fc u s q r : new_read fc u s q = Ok r ->
  1 <= q <= max_read fc /\ r = RRead fc u s q.
Proof.
  unfold new_read. destruct ((q =? 0) || (max_read fc <? q)) eqn:E; [discriminate|].
  intros H. injection H as <-. split; [lia|reflexivity].
Qed.

Lemma new_wcoils_inv u s coils r : new_wcoils u s coils = Ok r ->
  (1 <= length coils <= 1968)%nat /\
  r = RWCoils u s (N.of_nat (length coils)) (coils_to_bytes coils).
Proof.
  unfold new_wcoils. destruct ((length coils =? 0)%nat || (1968 <? length coils)%nat) eqn:E; [discriminate|].
  intros H. apply Ok_inj in H. subst r. split; [lia|]. rewrite u16_small by lia. reflexivity.
Qed.

Lemma new_wregs_inv u s data r : new_wregs u s data = Ok r ->
  (length data mod 2 = 0 /\ 1 <= length data <= 248)%nat /\
  r = RWRegs u s (N.of_nat (length data / 2)) data.
Proof.
  unfold new_wregs. destruct (negb (length data mod 2 =? 0)%nat) eqn:E0; [discriminate|].
  destruct ((length data =? 0)%nat || (248 <? length data)%nat) eqn:E; [discriminate|].
  intros H. apply Ok_inj in H. subst r. split; [lia|]. rewrite u16_small by lia. reflexivity.
Qed.

Lemma new_rw_inv u rs rq ws data r : new_rw u rs rq ws data = Ok r ->
  1 <= rq <= 124 /\ (length data mod 2 = 0 /\ 1 <= length data <= 248)%nat /\
  r = RRW u rs rq ws (N.of_nat (length data / 2)) data.
Proof.
  unfold new_rw. destruct ((rq =? 0) || (124 <? rq)) eqn:Er; [discriminate|].
  destruct (negb (length data mod 2 =? 0)%nat) eqn:E0; [discriminate|].
  destruct ((length data =? 0)%nat || (248 <? length data)%nat) eqn:E; [discriminate|].
  intros H. apply Ok_inj in H. subst r. split; [lia|]. split; [lia|]. rewrite u16_small by lia. reflexivity.
Qed.

(* ====================================================================================== *)
(* 4. per constructor: bytes = specified ADU; legality and size; converse                  *)
(* ====================================================================================== *)

(* ---- FC1..FC4 ---- *)
Theorem enc_read fc u s q tid r :
  1 <= fc <= 4 -> u < 256 -> s < 65536 ->
  new_read fc u s q = Ok r ->
  (req_bytes_tcp tid r = request_adu_tcp tid (SRead fc u s q) /\
   req_bytes_rtu r = request_adu_rtu (SRead fc u s q)) /\
  (legal (SRead fc u s q) = true /\
   (length (req_bytes_tcp tid r) <= max_adu_tcp)%nat /\ (length (req_bytes_rtu r) <= max_adu_rtu)%nat).
Proof.
  intros Hfc Hu Hs H. apply new_read_inv in H. destruct H as [Hq ->].
  assert (Hq' : q <= 2000) by (unfold max_read in Hq; destruct ((fc =? 1) || (fc =? 2)); lia).
  assert (T : req_bytes_tcp tid (RRead fc u s q) = request_adu_tcp tid (SRead fc u s q)).
  { apply tcp_frame_eq; reflexivity. }
  assert (R : req_bytes_rtu (RRead fc u s q) = request_adu_rtu (SRead fc u s q)).
  { apply rtu_frame_eq; [reflexivity|]. cbn [pdu app w16 hi lo]. ok_bytes. }
  split; [split; assumption|]. rewrite T, R. unfold request_adu_tcp, request_adu_rtu.
  rewrite adu_tcp_length, adu_rtu_length. cbn [pdu app w16 length].
  split; [|unfold max_adu_tcp, max_adu_rtu; lia].
  cbn [legal]. unfold read_limit. unfold max_read in Hq.
  destruct ((fc =? 1) || (fc =? 2)) eqn:E; lia.
Qed.

Theorem enc_read_converse fc u s q :
  legal (SRead fc u s q) = true -> exists r, new_read fc u s q = Ok r.
Proof.
  cbn [legal]. unfold read_limit, new_read, max_read. intros H.
  destruct ((fc =? 1) || (fc =? 2)) eqn:E;
  (destruct ((q =? 0) || (_ <? q)) eqn:E2; [lia|eexists; reflexivity]).
Qed.

(* ---- FC5 ---- *)
Theorem enc_wcoil u a st tid r :
  u < 256 -> a < 65536 ->
  new_wcoil u a st = Ok r ->
  (req_bytes_tcp tid r = request_adu_tcp tid (SWCoil u a st) /\
   req_bytes_rtu r = request_adu_rtu (SWCoil u a st)) /\
  (legal (SWCoil u a st) = true /\
   (length (req_bytes_tcp tid r) <= max_adu_tcp)%nat /\ (length (req_bytes_rtu r) <= max_adu_rtu)%nat).
Proof.
  intros Hu Ha H. unfold new_wcoil in H. injection H as <-.
  assert (T : req_bytes_tcp tid (RWCoil u a st) = request_adu_tcp tid (SWCoil u a st)).
  { apply tcp_frame_eq; destruct st; reflexivity. }
  assert (R : req_bytes_rtu (RWCoil u a st) = request_adu_rtu (SWCoil u a st)).
  { apply rtu_frame_eq; [destruct st; reflexivity|]. destruct st; cbn [pdu app w16 hi lo]; ok_bytes. }
  split; [split; assumption|]. rewrite T, R. unfold request_adu_tcp, request_adu_rtu.
  rewrite adu_tcp_length, adu_rtu_length.
  split; [reflexivity|]. destruct st; cbn [pdu app w16 length]; unfold max_adu_tcp, max_adu_rtu; lia.
Qed.

Theorem enc_wcoil_converse u a st : exists r, new_wcoil u a st = Ok r.
Proof. eexists; reflexivity. Qed.

(* ---- FC6: the register value is the first two bytes of [data], zero padded ---- *)
Theorem enc_wreg u a data tid r :
  u < 256 -> a < 65536 -> bytes_ok data ->
  new_wreg u a data = Ok r ->
  (req_bytes_tcp tid r = request_adu_tcp tid (SWReg u a (nth 0 data 0) (nth 1 data 0)) /\
   req_bytes_rtu r = request_adu_rtu (SWReg u a (nth 0 data 0) (nth 1 data 0))) /\
  (legal (SWReg u a (nth 0 data 0) (nth 1 data 0)) = true /\
   (length (req_bytes_tcp tid r) <= max_adu_tcp)%nat /\ (length (req_bytes_rtu r) <= max_adu_rtu)%nat).
Proof.
  intros Hu Ha Hd H. unfold new_wreg in H. injection H as <-.
  pose proof (nth_ok data 0 Hd) as H0. pose proof (nth_ok data 1 Hd) as H1.
  set (v0 := nth 0 data 0) in *. set (v1 := nth 1 data 0) in *.
  assert (T : req_bytes_tcp tid (RWReg u a v0 v1) = request_adu_tcp tid (SWReg u a v0 v1)).
  { apply tcp_frame_eq; reflexivity. }
  assert (R : req_bytes_rtu (RWReg u a v0 v1) = request_adu_rtu (SWReg u a v0 v1)).
  { apply rtu_frame_eq; [reflexivity|]. cbn [pdu app w16 hi lo]. ok_bytes. }
  split; [split; assumption|]. rewrite T, R. unfold request_adu_tcp, request_adu_rtu.
  rewrite adu_tcp_length, adu_rtu_length.
  split; [reflexivity|]. cbn [pdu app w16 length]; unfold max_adu_tcp, max_adu_rtu; lia.
Qed.

Theorem enc_wreg_converse u a data : exists r, new_wreg u a data = Ok r.
Proof. eexists; reflexivity. Qed.

(* ---- FC15 ---- *)
Lemma byte_count_bound n : (n <= 1968)%nat -> (byte_count n <= 246)%nat.
Proof. unfold byte_count. intros H. destruct (n mod 8 =? 0)%nat eqn:E; lia. Qed.

Theorem enc_wcoils u s coils tid r :
  u < 256 -> s < 65536 ->
  new_wcoils u s coils = Ok r ->
  (req_bytes_tcp tid r = request_adu_tcp tid (SWCoils u s coils) /\
   req_bytes_rtu r = request_adu_rtu (SWCoils u s coils)) /\
  (legal (SWCoils u s coils) = true /\
   (length (req_bytes_tcp tid r) <= max_adu_tcp)%nat /\ (length (req_bytes_rtu r) <= max_adu_rtu)%nat).
Proof.
  intros Hu Hs H. apply new_wcoils_inv in H. destruct H as [Hn ->].
  pose proof (byte_count_bound (length coils) ltac:(lia)) as Hbc.
  pose proof (coils_to_bytes_length coils) as Hl.
  assert (B : req_body (RWCoils u s (N.of_nat (length coils)) (coils_to_bytes coils))
              = u :: pdu (SWCoils u s coils)).
  { cbn [req_body pdu app]. rewrite Hl, coil_bytes_byte_count, u8_small by lia.
    rewrite coils_to_bytes_is_pack_coils. reflexivity. }
  assert (PL : length (pdu (SWCoils u s coils)) = (6 + byte_count (length coils))%nat).
  { cbn [pdu app w16 length]. rewrite pack_coils_length, coil_bytes_byte_count. reflexivity. }
  assert (T : req_bytes_tcp tid (RWCoils u s (N.of_nat (length coils)) (coils_to_bytes coils))
              = request_adu_tcp tid (SWCoils u s coils)).
  { apply tcp_frame_eq; [exact B|]. rewrite PL. cbn [req_len16]. rewrite Hl.
    rewrite (u16_small (N.of_nat _)) by lia. rewrite u16_small by lia. lia. }
  assert (R : req_bytes_rtu (RWCoils u s (N.of_nat (length coils)) (coils_to_bytes coils))
              = request_adu_rtu (SWCoils u s coils)).
  { apply (rtu_frame_eq _ u (pdu (SWCoils u s coils))); [exact B|]. rewrite <- B. cbn [req_body]. rewrite Hl. ok_bytes. }
  split; [split; assumption|]. rewrite T, R. unfold request_adu_tcp, request_adu_rtu.
  rewrite adu_tcp_length, adu_rtu_length, PL.
  split; [cbn [legal]; lia|]. unfold max_adu_tcp, max_adu_rtu; lia.
Qed.

Theorem enc_wcoils_converse u s coils :
  legal (SWCoils u s coils) = true -> exists r, new_wcoils u s coils = Ok r.
Proof.
  cbn [legal]. unfold new_wcoils. intros H.
  destruct ((length coils =? 0)%nat || (1968 <? length coils)%nat) eqn:E; [lia|eexists; reflexivity].
Qed.

(* ---- FC16 ---- *)
(* the bytes are the specified ADU for everything the constructor accepts, 124 registers included *)
Lemma enc_wregs_bytes u s data tid r :
  u < 256 -> s < 65536 -> bytes_ok data ->
  new_wregs u s data = Ok r ->
  req_bytes_tcp tid r = request_adu_tcp tid (SWRegs u s data) /\
  req_bytes_rtu r = request_adu_rtu (SWRegs u s data).
Proof.
  intros Hu Hs Hd H. apply new_wregs_inv in H. destruct H as [Hn ->].
  assert (B : req_body (RWRegs u s (N.of_nat (length data / 2)) data) = u :: pdu (SWRegs u s data)).
  { cbn [req_body pdu app]. rewrite u8_small by lia. reflexivity. }
  split.
  - apply tcp_frame_eq; [exact B|]. cbn [req_len16 pdu app w16 length].
    rewrite (u16_small (N.of_nat _)) by lia. rewrite u16_small by lia. lia.
  - apply (rtu_frame_eq _ u (pdu (SWRegs u s data))); [exact B|]. rewrite <- B. cbn [req_body]. ok_bytes.
Qed.

Lemma wregs_frame_lengths u s data tid :
  length (request_adu_tcp tid (SWRegs u s data)) = (13 + length data)%nat /\
  length (request_adu_rtu (SWRegs u s data)) = (9 + length data)%nat.
Proof.
  unfold request_adu_tcp, request_adu_rtu. rewrite adu_tcp_length, adu_rtu_length.
  cbn [pdu app w16 length]. lia.
Qed.

Theorem enc_wregs_partial u s data tid r :
  u < 256 -> s < 65536 -> bytes_ok data ->
  length data <> 248%nat ->
  new_wregs u s data = Ok r ->
  (req_bytes_tcp tid r = request_adu_tcp tid (SWRegs u s data) /\
   req_bytes_rtu r = request_adu_rtu (SWRegs u s data)) /\
  (legal (SWRegs u s data) = true /\
   (length (req_bytes_tcp tid r) <= max_adu_tcp)%nat /\ (length (req_bytes_rtu r) <= max_adu_rtu)%nat).
Proof.
  intros Hu Hs Hd Hne H. pose proof (enc_wregs_bytes u s data tid r Hu Hs Hd H) as [T R].
  apply new_wregs_inv in H. destruct H as [Hn _].
  split; [split; assumption|]. rewrite T, R.
  destruct (wregs_frame_lengths u s data tid) as [L1 L2]. rewrite L1, L2.
  split; [cbn [legal]; unfold even; lia|]. unfold max_adu_tcp, max_adu_rtu; lia.
Qed.

(* exactly the payloads of 248 bytes (124 registers) are accepted although illegal and too long *)
Theorem enc_wregs_248 u s data tid r :
  length data = 248%nat -> new_wregs u s data = Ok r ->
  legal (SWRegs u s data) = false /\
  length (req_bytes_tcp tid r) = 261%nat /\ length (req_bytes_rtu r) = 257%nat.
Proof.
  intros Hl H. apply new_wregs_inv in H. destruct H as [_ ->].
  split; [cbn [legal]; rewrite Hl; reflexivity|].
  unfold req_bytes_tcp, req_bytes_rtu, with_crc. rewrite !app_length.
  cbn [req_body mbap_bytes put16 app length crc_trailer]. rewrite Hl. split; reflexivity.
Qed.

Theorem enc_wregs_converse u s data :
  legal (SWRegs u s data) = true -> exists r, new_wregs u s data = Ok r.
Proof.
  cbn [legal]. unfold even, new_wregs. intros H.
  destruct (negb (length data mod 2 =? 0)%nat) eqn:E0; [lia|].
  destruct ((length data =? 0)%nat || (248 <? length data)%nat) eqn:E; [lia|eexists; reflexivity].
Qed.

(* ---- FC17 ---- *)
Theorem enc_srvid u tid r :
  u < 256 ->
  new_srvid u = Ok r ->
  (req_bytes_tcp tid r = request_adu_tcp tid (SSrvId u) /\
   req_bytes_rtu r = request_adu_rtu (SSrvId u)) /\
  (legal (SSrvId u) = true /\
   (length (req_bytes_tcp tid r) <= max_adu_tcp)%nat /\ (length (req_bytes_rtu r) <= max_adu_rtu)%nat).
Proof.
  intros Hu H. unfold new_srvid in H. injection H as <-.
  assert (T : req_bytes_tcp tid (RSrvId u) = request_adu_tcp tid (SSrvId u)).
  { apply tcp_frame_eq; reflexivity. }
  assert (R : req_bytes_rtu (RSrvId u) = request_adu_rtu (SSrvId u)).
  { apply rtu_frame_eq; [reflexivity|]. cbn [pdu]. ok_bytes. }
  split; [split; assumption|]. rewrite T, R. unfold request_adu_tcp, request_adu_rtu.
  rewrite adu_tcp_length, adu_rtu_length.
  split; [reflexivity|]. cbn [pdu length]; unfold max_adu_tcp, max_adu_rtu; lia.
Qed.

Theorem enc_srvid_converse u : exists r, new_srvid u = Ok r.
Proof. eexists; reflexivity. Qed.

(* ---- FC23 ---- *)
Lemma enc_rw_bytes u rs rq ws data tid r :
  u < 256 -> rs < 65536 -> ws < 65536 -> bytes_ok data ->
  new_rw u rs rq ws data = Ok r ->
  req_bytes_tcp tid r = request_adu_tcp tid (SRW u rs rq ws data) /\
  req_bytes_rtu r = request_adu_rtu (SRW u rs rq ws data).
Proof.
  intros Hu Hrs Hws Hd H. apply new_rw_inv in H. destruct H as [Hq [Hn ->]].
  assert (B : req_body (RRW u rs rq ws (N.of_nat (length data / 2)) data) = u :: pdu (SRW u rs rq ws data)).
  { cbn [req_body pdu app]. rewrite u8_small by lia. reflexivity. }
  split.
  - apply tcp_frame_eq; [exact B|]. cbn [req_len16 pdu app w16 length].
    rewrite (u16_small (N.of_nat _)) by lia. rewrite u16_small by lia. lia.
  - apply (rtu_frame_eq _ u (pdu (SRW u rs rq ws data))); [exact B|]. rewrite <- B. cbn [req_body]. ok_bytes.
Qed.

Lemma rw_frame_lengths u rs rq ws data tid :
  length (request_adu_tcp tid (SRW u rs rq ws data)) = (17 + length data)%nat /\
  length (request_adu_rtu (SRW u rs rq ws data)) = (13 + length data)%nat.
Proof.
  unfold request_adu_tcp, request_adu_rtu. rewrite adu_tcp_length, adu_rtu_length.
  cbn [pdu app w16 length]. lia.
Qed.

Theorem enc_rw_partial u rs rq ws data tid r :
  u < 256 -> rs < 65536 -> ws < 65536 -> bytes_ok data ->
  (length data <= 242)%nat ->
  new_rw u rs rq ws data = Ok r ->
  (req_bytes_tcp tid r = request_adu_tcp tid (SRW u rs rq ws data) /\
   req_bytes_rtu r = request_adu_rtu (SRW u rs rq ws data)) /\
  (legal (SRW u rs rq ws data) = true /\
   (length (req_bytes_tcp tid r) <= max_adu_tcp)%nat /\ (length (req_bytes_rtu r) <= max_adu_rtu)%nat).
Proof.
  intros Hu Hrs Hws Hd Hle H. pose proof (enc_rw_bytes u rs rq ws data tid r Hu Hrs Hws Hd H) as [T R].
  apply new_rw_inv in H. destruct H as [Hq [Hn _]].
  split; [split; assumption|]. rewrite T, R.
  destruct (rw_frame_lengths u rs rq ws data tid) as [L1 L2]. rewrite L1, L2.
  split; [cbn [legal]; unfold even; lia|]. unfold max_adu_tcp, max_adu_rtu; lia.
Qed.

(* every accepted payload of more than 242 bytes (122..124 registers) is illegal and its TCP frame
   exceeds 260 bytes *)
Theorem enc_rw_over u rs rq ws data tid r :
  (242 < length data)%nat -> new_rw u rs rq ws data = Ok r ->
  legal (SRW u rs rq ws data) = false /\ (max_adu_tcp < length (req_bytes_tcp tid r))%nat.
Proof.
  intros Hl H. apply new_rw_inv in H. destruct H as [Hq [Hn ->]].
  split; [cbn [legal]; unfold even; lia|].
  unfold req_bytes_tcp. rewrite !app_length.
  cbn [req_body mbap_bytes put16 app length]. rewrite ?app_length. cbn [length]. unfold max_adu_tcp. lia.
Qed.

(* converse: the constructor accepts every legal request except a read quantity of 125 (the
   specification's maximum), which it refuses for every payload: strictness, not a wrong frame *)
Theorem enc_rw_converse u rs rq ws data :
  legal (SRW u rs rq ws data) = true -> rq <> 125 -> exists r, new_rw u rs rq ws data = Ok r.
Proof.
  cbn [legal]. unfold even, new_rw. intros H Hne.
  destruct ((rq =? 0) || (124 <? rq)) eqn:Er; [lia|].
  destruct (negb (length data mod 2 =? 0)%nat) eqn:E0; [lia|].
  destruct ((length data =? 0)%nat || (248 <? length data)%nat) eqn:E; [lia|eexists; reflexivity].
Qed.

Theorem enc_rw_read125_refused u rs ws data : new_rw u rs 125 ws data = Err EPlain.
Proof. reflexivity. Qed.

(* ====================================================================================== *)
(* 5. refutations                                                                          *)
(* ====================================================================================== *)
Theorem fc16_limit_refuted : exists u s data tid r,
  u < 256 /\ s < 65536 /\ bytes_ok data /\
  new_wregs u s data = Ok r /\ legal (SWRegs u s data) = false /\
  (max_adu_tcp < length (req_bytes_tcp tid r))%nat /\ (max_adu_rtu < length (req_bytes_rtu r))%nat.
Proof.
  exists 1, 0, (repeat 0 248), 1. eexists.
  split; [lia|]. split; [lia|]. split; [apply repeat0_ok|].
  split; [vm_compute; reflexivity|]. split; [vm_compute; reflexivity|].
  split; vm_compute; lia.
Qed.

Theorem fc23_limit_refuted : exists u rs rq ws data tid r,
  u < 256 /\ rs < 65536 /\ ws < 65536 /\ bytes_ok data /\
  new_rw u rs rq ws data = Ok r /\ legal (SRW u rs rq ws data) = false /\
  (max_adu_tcp < length (req_bytes_tcp tid r))%nat /\ (max_adu_rtu < length (req_bytes_rtu r))%nat.
Proof.
  exists 1, 0, 1, 0, (repeat 0 244), 1. eexists.
  split; [lia|]. split; [lia|]. split; [lia|]. split; [apply repeat0_ok|].
  split; [vm_compute; reflexivity|]. split; [vm_compute; reflexivity|].
  split; vm_compute; lia.
Qed.

(* ====================================================================================== *)
(* 6. the MBAP header of every encoded request, stated on its own                          *)
(* ====================================================================================== *)
Definition req_payload (r : req) : list N :=
  match r with
  | RWCoils _ _ _ d | RWRegs _ _ _ d | RRW _ _ _ _ _ d => d
  | _ => []
  end.

(* transaction id, protocol id 0, length = number of bytes that follow the length field *)
Theorem mbap_header_of_request tid r :
  N.of_nat (length (req_payload r)) <= 65000 ->
  req_bytes_tcp tid r =
    put16 tid ++ [0; 0] ++ put16 (N.of_nat (length (req_body r))) ++ req_body r.
Proof.
  intros H. unfold req_bytes_tcp, mbap_bytes. rewrite <- !app_assoc. do 3 f_equal.
  destruct r; cbn [req_payload] in H; cbn [req_len16 req_body app length]; try reflexivity.
  - rewrite ?app_length. cbn [length put16]. rewrite ?app_length. cbn [length].
    rewrite (u16_small (N.of_nat _)) by lia. rewrite u16_small by lia. f_equal. lia.
  - rewrite ?app_length. cbn [length put16]. rewrite ?app_length. cbn [length].
    rewrite (u16_small (N.of_nat _)) by lia. rewrite u16_small by lia. f_equal. lia.
  - rewrite ?app_length. cbn [length put16]. rewrite ?app_length. cbn [length].
    rewrite (u16_small (N.of_nat _)) by lia. rewrite u16_small by lia. f_equal. lia.
Qed.
