(* GenEquiv2.v -- the ENCODERS that /verif/gotrans regenerates from the Go source (gen/PacketGen2.v)
   produce exactly the bytes of the hand-written model (PacketModel.req_bytes_tcp/rtu,
   resp_bytes_tcp/rtu, exc_bytes_tcp/rtu), for all field values in the domain of the model
   (16-bit fields below 65536, byte-count fields below 256, payloads of at most 255 bytes);
   CoilsToBytes = coils_to_bytes and isBitSet = is_bit_set for all inputs.

   Method.  A buffer that the Go code fills is, after every write, [wat l a w] ("l with w written at
   a"): element assignment, PutUint16 and copy through a window, and a callee that fills a window
   are all rewritten to that form ([estep], side conditions = the writes are in range, by [lia] after
   computing lengths).  A leaf encoder (X.bytes) is then compared with the model element by element
   ([list_eq]: nth_ext + case analysis on the index).  A frame encoder (X.Bytes, XTCP.Bytes,
   XRTU.Bytes) is the zero buffer of make filled completely by its callees: closed by the lemmas
   [wat_fill] / [tcp_frame] / [rtu_frame]. *)
From Coq Require Import ZifyBool ZifyN ZifyNat.
Require Import MB.GoSem MB.CrcModel MB.PacketModel MB.GenPrelude MB.GenPrelude2 MB.gen.PacketGen MB.gen.PacketGen2.
Require Import MB.proofs.GenEquiv.
Open Scope N_scope.
Ltac Zify.zify_post_hook ::= Z.to_euclidean_division_equations.

Global Hint Rewrite @upd_length @app_length @firstn_length @skipn_length @repeat_length wat_length put16_length : glen.
Global Hint Rewrite nth_wat nth_upd nth_firstn0 nth_skipn0 nth_app0 nth_cons0 nth_nil0 nth_repeat0 : gnth.

Lemma u16_small x : x < 65536 -> u16 x = x. Proof. unfold u16. lia. Qed.
Lemma add16_small a b : a + b < 65536 -> add16 a b = a + b. Proof. unfold add16, u16. lia. Qed.
Lemma sub16_small a b : b <= a -> a < 65536 -> sub16 a b = a - b. Proof. unfold sub16, u16. lia. Qed.
Lemma u16_of_Z_small z : (0 <= z < 65536)%Z -> u16_of_Z z = Z.to_N z. Proof. unfold u16_of_Z. lia. Qed.
(* wrap-around arithmetic in lengths and indices: remove it where the value provably fits *)
Ltac wrap_norm :=
  repeat match goal with
  | |- context [u16 ?x] => rewrite (u16_small x) by (unfold llen in *; lia)
  | |- context [add16 ?a ?b] => rewrite (add16_small a b) by (unfold llen in *; lia)
  | |- context [sub16 ?a ?b] => rewrite (sub16_small a b) by (unfold llen in *; lia)
  | |- context [u16_of_Z ?z] => rewrite (u16_of_Z_small z) by (unfold llen in *; lia)
  end.
Definition nsplice (l : list N) (k : nat) (w : list N) : list N := firstn k l ++ w ++ skipn (k + length w) l.
Ltac len_side := unfold resp_len16 in *; cbn [req_body resp_body req_len16 is_coil_fc N.eqb Pos.eqb orb] in *; unfold mbap_bytes, exc_bytes_tcp, exc_bytes_rtu, lsplice, nsplice, put16, with_crc, crc_trailer in *; autorewrite with glen; cbn [length]; wrap_norm; unfold llen in *; autorewrite with glen; cbn [length]; lia.

Ltac split_if :=
  match goal with
  | |- context [if ?c then _ else _] =>
      first [ replace c with true by lia | replace c with false by lia | destruct c eqn:? ]
  end.

Ltac arith_leaf :=
  unfold u8, u16, u8_of_Z, u16_of_Z, put16, crc_lo, crc_hi, llen, add8, add16, sub8, sub16 in *;
  rewrite ?N.shiftr_div_pow2; change (2 ^ 8) with 256;
  first [ reflexivity | lia | f_equal; lia ].

(* two lists are equal: same length, same element everywhere *)
Ltac prep :=
  cbn [req_body resp_body req_len16 is_coil_fc N.eqb Pos.eqb orb];
  unfold resp_len16, lsplice, nsplice, with_crc, crc_trailer, mbap_bytes, exc_bytes_tcp, exc_bytes_rtu, put16;
  cbn [req_body resp_body req_len16 is_coil_fc N.eqb Pos.eqb orb x_tid x_unit x_fc x_code mk_exc];
  autorewrite with glen; cbn [length]; wrap_norm; unfold llen; autorewrite with glen; cbn [length].
Ltac list_eq :=
  apply (nth_ext _ _ 0 0);
  [ len_side
  | prep; let j := fresh "j" in let Hj := fresh "Hj" in intros j Hj;
    autorewrite with gnth glen; cbn [length];
    repeat split_if; arith_leaf ].

(* ---------- the Go operations in terms of wat ---------- *)
Lemma lset_wat {E} (l : list N) i v : (0 <= i < llen l)%Z -> @lset E N l i v = Ok (wat l (Z.to_nat i) [v]).
Proof.
  intros H. unfold lset. replace ((i <? 0) || (llen l <=? i))%Z with false by lia. f_equal.
  list_eq.
Qed.
Lemma lput16_wat {E} w v : (2 <= length w)%nat -> @lput16 E w v = Ok (wat w 0 [u8 (N.shiftr v 8); u8 v]).
Proof.
  intros H. unfold lput16. replace (length w <? 2)%nat with false by lia. f_equal.
  destruct w as [|a [|b w]]; cbn in H; try lia. cbn. destruct w; reflexivity.
Qed.
Lemma gcopy_wat dst src : gcopy dst src = wat dst 0 src.
Proof. unfold gcopy. list_eq. Qed.

(* put a rewritten window back *)
Lemma lsplice_n (l : list N) a w : lsplice l a w = nsplice l (Z.to_nat a) w.
Proof. reflexivity. Qed.
Lemma splice_window (l : list N) k n : (k + n <= length l)%nat -> nsplice l k (firstn n (skipn k l)) = l.
Proof. intros H. unfold nsplice. list_eq. Qed.
Lemma splice_wat (l : list N) k n c w : (k + n <= length l)%nat ->
  nsplice l k (wat (firstn n (skipn k l)) c w) = wat l (k + c) (firstn (n - c) w).
Proof. intros H. unfold nsplice. list_eq. Qed.
Lemma lsub_ok {E A} (l : list A) a b : (0 <= a <= b)%Z -> (b <= llen l)%Z ->
  @lsub E A l a b = Ok (firstn (Z.to_nat b - Z.to_nat a) (skipn (Z.to_nat a) l)).
Proof.
  intros H1 H2. unfold lsub. replace ((a <? 0) || (b <? a) || (llen l <? b))%Z with false by lia.
  replace (Z.to_nat (b - a)) with (Z.to_nat b - Z.to_nat a)%nat by lia. reflexivity.
Qed.

Lemma llen_wat l a w : llen (wat l a w) = llen l.
Proof. unfold llen. rewrite wat_length. reflexivity. Qed.
Lemma wat_all (l w : list N) : length w = length l -> wat l 0 w = w.
Proof. intros H. list_eq. Qed.

(* closed index arithmetic -> numerals *)
Ltac nat_lit n := lazymatch n with O => idtac | S ?m => nat_lit m end.
(* syntactic closedness (numerals and arithmetic on them): vm_compute is only run on such terms *)
Ltac closedN n :=
  lazymatch n with
  | N0 => idtac | Npos _ => idtac
  | (?a + ?b)%N => closedN a; closedN b
  | (?a - ?b)%N => closedN a; closedN b
  | add16 ?a ?b => closedN a; closedN b
  | sub16 ?a ?b => closedN a; closedN b
  | add8 ?a ?b => closedN a; closedN b
  | N.of_nat ?a => nat_lit a
  end.
Ltac closedZ z :=
  lazymatch z with
  | Z0 => idtac | Zpos _ => idtac | Zneg _ => idtac
  | (?a + ?b)%Z => closedZ a; closedZ b
  | (?a - ?b)%Z => closedZ a; closedZ b
  | (?a * ?b)%Z => closedZ a; closedZ b
  | Z.of_N ?n => closedN n
  | Z.of_nat ?n => nat_lit n
  end.
Ltac eval_nat t := let v := eval vm_compute in t in nat_lit v; change t with v.
Ltac norm :=
  repeat match goal with
  | |- context [Z.to_nat ?z] => closedZ z; eval_nat (Z.to_nat z)
  | |- context [(?a + ?b)%nat] => nat_lit a; nat_lit b; eval_nat (a + b)%nat
  | |- context [(?a - ?b)%nat] => nat_lit a; nat_lit b; eval_nat (a - b)%nat
  | |- context [firstn (S ?n) (?x :: ?l)] => rewrite (firstn_cons n x l)
  | |- context [firstn O ?l] => change (firstn O l) with (@nil N)
  | |- context [firstn ?n (@nil N)] => rewrite (@firstn_nil N n)
  end.

Create HintDb genc discriminated.
Ltac side := first [ assumption | len_side ].

Ltac estep :=
  match goal with
  | |- context [@zmake ?E ?n] => rewrite (@zmake_nat E n) by lia
  | |- context [@lset ?E N ?l ?i ?v] => rewrite (@lset_wat E l i v) by len_side
  | |- context [@lput16 ?E ?w ?v] => rewrite (@lput16_wat E w v) by len_side
  | |- context [gcopy ?d ?s] => rewrite (gcopy_wat d s)
  | |- context [lsplice ?l ?a ?w] => rewrite (lsplice_n l a w)
  | |- context [nsplice ?l ?k (wat (firstn ?n (skipn ?k ?l)) ?c ?w)] =>
      rewrite (splice_wat l k n c w) by len_side
  | |- context [nsplice ?l ?k (firstn ?n (skipn ?k ?l))] =>
      rewrite (splice_window l k n) by len_side
  | |- context [g_CRC16 ?l] => rewrite (crc16_eq l)
  | _ => progress autorewrite with genc
  | |- context [if ?c then _ else _] => is_var c; destruct c
  | |- context [@lsub ?E ?A ?l ?a ?b] => rewrite (@lsub_ok E A l a b) by len_side
  end; cbn [bind negb]; rewrite ?llen_wat; norm; wrap_norm.

Ltac crc_norm :=
  repeat match goal with
  | |- context [crc16 (firstn ?k (skipn ?m ?L))] =>
      match goal with
      | |- context [with_crc ?B] => replace (firstn k (skipn m L)) with B by (symmetry; list_eq)
      end
  end.
Ltac enc := cbv zeta; cbn [negb]; repeat estep; crc_norm; try (f_equal; list_eq).

(* ---------- whole frames: a zero buffer filled completely ---------- *)
Lemma firstn_fit (l : list N) n : (length l <= n)%nat -> firstn n l = l.
Proof. apply firstn_all2. Qed.
Lemma wat_fill n B : length B = n -> wat (repeat 0 n) 0 B = B.
Proof. intros H. list_eq. Qed.
Lemma wat_fill2 n a A B : length A = a -> (a + length B = n)%nat -> wat (wat (repeat 0 n) 0 A) a B = A ++ B.
Proof. intros H1 H2. list_eq. Qed.
Lemma wat_prefix n B k : k = length B -> (k <= n)%nat -> firstn k (skipn 0 (wat (repeat 0 n) 0 B)) = B.
Proof. intros H1 H2. list_eq. Qed.
Lemma wat_rtu n B k1 k2 c : (length B + 2 = n)%nat -> k1 = length B -> k2 = S (length B) ->
  wat (wat (wat (repeat 0 n) 0 B) k1 [u8 c]) k2 [u8 (N.shiftr c 8)] = B ++ [crc_lo c; crc_hi c].
Proof. intros H1 H2 H3. list_eq. Qed.
(* FC3 / FC4 / FC23 responses: byte-length field, then the data cut or zero-padded to that length *)
Lemma wat_regresp n u fc bl dat : (3 + N.to_nat bl <= n)%nat ->
  wat (wat (repeat 0 n) 0 [u; fc; bl]) 3 dat
  = wat (repeat 0 n) 0 ([u; fc; bl] ++ firstn (n - 3) dat).
Proof. intros H. list_eq. Qed.

Lemma tcp_frame N M MB BODY : length MB = 6%nat -> (6 + length BODY = N)%nat -> (length BODY <= M)%nat ->
  wat (wat (repeat 0 N) 0 (firstn 6 MB)) 6 (firstn M BODY) = MB ++ BODY.
Proof. intros H1 H2 H3. rewrite !firstn_fit by lia. apply wat_fill2; lia. Qed.
Lemma rtu_frame N B k0 k1 k2 : (length B + 2 = N)%nat -> k0 = length B -> k1 = length B -> k2 = S (length B) ->
  wat (wat (wat (repeat 0 N) 0 B) k1 [u8 (crc16 (firstn k0 (skipn 0 (wat (repeat 0 N) 0 B))))]) k2
      [u8 (N.shiftr (crc16 (firstn k0 (skipn 0 (wat (repeat 0 N) 0 B)))) 8)]
  = with_crc B.
Proof.
  intros H1 H2 H3 H4. rewrite (wat_prefix N B k0) by lia. unfold with_crc, crc_trailer.
  apply wat_rtu; assumption.
Qed.
Ltac top_close :=
  first [ f_equal; first [ apply tcp_frame; len_side | apply rtu_frame; len_side | apply wat_fill; len_side ]
        | crc_norm; f_equal; list_eq ].
Ltac enc_top := cbv zeta; cbn [negb]; repeat estep; top_close.


(* ---------- header, shared helper, exceptions ---------- *)
Lemma MBAPHeader_bytes_eq tid pid dst len : tid < 65536 -> len < 65536 -> (6 <= length dst)%nat ->
  g_MBAPHeader_bytes tid pid dst len = Ok (wat dst 0 (mbap_bytes tid len)).
Proof. intros. unfold g_MBAPHeader_bytes, mbap_bytes. enc. Qed.
Global Hint Rewrite MBAPHeader_bytes_eq using side : genc.

Lemma putReadRequestBytes_eq dst u fc s q : s < 65536 -> q < 65536 -> (6 <= length dst)%nat ->
  g_putReadRequestBytes dst u fc s q = Ok (wat dst 0 (req_body (RRead fc u s q))).
Proof. intros. unfold g_putReadRequestBytes, req_body. enc. Qed.
Global Hint Rewrite putReadRequestBytes_eq using side : genc.

Lemma ErrorResponseTCP_Bytes_eq tid u f c : tid < 65536 ->
  g_ErrorResponseTCP_Bytes tid u f c = Ok (exc_bytes_tcp (mk_exc tid u f c)).
Proof. intros. unfold g_ErrorResponseTCP_Bytes, exc_bytes_tcp. cbn [x_tid x_unit x_fc x_code mk_exc]. enc. Qed.
Global Hint Rewrite ErrorResponseTCP_Bytes_eq using side : genc.
Lemma ErrorParseTCP_Bytes_eq tid u f c : tid < 65536 ->
  g_ErrorParseTCP_Bytes tid u f c = Ok (exc_bytes_tcp (mk_exc tid u f c)).
Proof. intros. unfold g_ErrorParseTCP_Bytes. enc_top. Qed.
Lemma ErrorResponseRTU_Bytes_eq u f c : g_ErrorResponseRTU_Bytes u f c = Ok (exc_bytes_rtu u f c).
Proof. intros. unfold g_ErrorResponseRTU_Bytes, exc_bytes_rtu. enc_top. Qed.
Global Hint Rewrite ErrorResponseRTU_Bytes_eq using side : genc.
Lemma ErrorParseRTU_Bytes_eq u f c : g_ErrorParseRTU_Bytes u f c = Ok (exc_bytes_rtu u f c).
Proof. intros. unfold g_ErrorParseRTU_Bytes. enc_top. Qed.

(* ---------- ReadCoilsRequest ---------- *)
Lemma ReadCoilsRequest_len16 u s q : req_len16 (RRead 1 u s q) = 6.
Proof. intros. len_side. Qed.
Lemma ReadCoilsRequest_bytes_eq u s q buf : s < 65536 -> q < 65536 -> (6 <= length buf)%nat ->
  g_ReadCoilsRequest_bytes u s q buf = Ok (wat buf 0 (req_body (RRead 1 u s q))).
Proof. intros. unfold g_ReadCoilsRequest_bytes. enc. Qed.
Global Hint Rewrite ReadCoilsRequest_bytes_eq using side : genc.
Lemma ReadCoilsRequest_Bytes_eq u s q : s < 65536 -> q < 65536 -> g_ReadCoilsRequest_Bytes u s q = Ok (req_body (RRead 1 u s q)).
Proof. intros. unfold g_ReadCoilsRequest_Bytes. enc_top. Qed.
Lemma ReadCoilsRequestTCP_Bytes_eq tid pid u s q : tid < 65536 -> s < 65536 -> q < 65536 -> g_ReadCoilsRequestTCP_Bytes tid pid u s q = Ok (req_bytes_tcp tid (RRead 1 u s q)).
Proof. intros. unfold g_ReadCoilsRequestTCP_Bytes, req_bytes_tcp; rewrite ReadCoilsRequest_len16 by side. enc_top. Qed.
Lemma ReadCoilsRequestRTU_Bytes_eq u s q : s < 65536 -> q < 65536 -> g_ReadCoilsRequestRTU_Bytes u s q = Ok (req_bytes_rtu (RRead 1 u s q)).
Proof. intros. unfold g_ReadCoilsRequestRTU_Bytes, req_bytes_rtu. enc_top. Qed.

(* ---------- ReadDiscreteInputsRequest ---------- *)
Lemma ReadDiscreteInputsRequest_len16 u s q : req_len16 (RRead 2 u s q) = 6.
Proof. intros. len_side. Qed.
Lemma ReadDiscreteInputsRequest_bytes_eq u s q buf : s < 65536 -> q < 65536 -> (6 <= length buf)%nat ->
  g_ReadDiscreteInputsRequest_bytes u s q buf = Ok (wat buf 0 (req_body (RRead 2 u s q))).
Proof. intros. unfold g_ReadDiscreteInputsRequest_bytes. enc. Qed.
Global Hint Rewrite ReadDiscreteInputsRequest_bytes_eq using side : genc.
Lemma ReadDiscreteInputsRequest_Bytes_eq u s q : s < 65536 -> q < 65536 -> g_ReadDiscreteInputsRequest_Bytes u s q = Ok (req_body (RRead 2 u s q)).
Proof. intros. unfold g_ReadDiscreteInputsRequest_Bytes. enc_top. Qed.
Lemma ReadDiscreteInputsRequestTCP_Bytes_eq tid pid u s q : tid < 65536 -> s < 65536 -> q < 65536 -> g_ReadDiscreteInputsRequestTCP_Bytes tid pid u s q = Ok (req_bytes_tcp tid (RRead 2 u s q)).
Proof. intros. unfold g_ReadDiscreteInputsRequestTCP_Bytes, req_bytes_tcp; rewrite ReadDiscreteInputsRequest_len16 by side. enc_top. Qed.
Lemma ReadDiscreteInputsRequestRTU_Bytes_eq u s q : s < 65536 -> q < 65536 -> g_ReadDiscreteInputsRequestRTU_Bytes u s q = Ok (req_bytes_rtu (RRead 2 u s q)).
Proof. intros. unfold g_ReadDiscreteInputsRequestRTU_Bytes, req_bytes_rtu. enc_top. Qed.

(* ---------- ReadHoldingRegistersRequest ---------- *)
Lemma ReadHoldingRegistersRequest_len16 u s q : req_len16 (RRead 3 u s q) = 6.
Proof. intros. len_side. Qed.
Lemma ReadHoldingRegistersRequest_bytes_eq u s q buf : s < 65536 -> q < 65536 -> (6 <= length buf)%nat ->
  g_ReadHoldingRegistersRequest_bytes u s q buf = Ok (wat buf 0 (req_body (RRead 3 u s q))).
Proof. intros. unfold g_ReadHoldingRegistersRequest_bytes. enc. Qed.
Global Hint Rewrite ReadHoldingRegistersRequest_bytes_eq using side : genc.
Lemma ReadHoldingRegistersRequest_Bytes_eq u s q : s < 65536 -> q < 65536 -> g_ReadHoldingRegistersRequest_Bytes u s q = Ok (req_body (RRead 3 u s q)).
Proof. intros. unfold g_ReadHoldingRegistersRequest_Bytes. enc_top. Qed.
Lemma ReadHoldingRegistersRequestTCP_Bytes_eq tid pid u s q : tid < 65536 -> s < 65536 -> q < 65536 -> g_ReadHoldingRegistersRequestTCP_Bytes tid pid u s q = Ok (req_bytes_tcp tid (RRead 3 u s q)).
Proof. intros. unfold g_ReadHoldingRegistersRequestTCP_Bytes, req_bytes_tcp; rewrite ReadHoldingRegistersRequest_len16 by side. enc_top. Qed.
Lemma ReadHoldingRegistersRequestRTU_Bytes_eq u s q : s < 65536 -> q < 65536 -> g_ReadHoldingRegistersRequestRTU_Bytes u s q = Ok (req_bytes_rtu (RRead 3 u s q)).
Proof. intros. unfold g_ReadHoldingRegistersRequestRTU_Bytes, req_bytes_rtu. enc_top. Qed.

(* ---------- ReadInputRegistersRequest ---------- *)
Lemma ReadInputRegistersRequest_len16 u s q : req_len16 (RRead 4 u s q) = 6.
Proof. intros. len_side. Qed.
Lemma ReadInputRegistersRequest_bytes_eq u s q buf : s < 65536 -> q < 65536 -> (6 <= length buf)%nat ->
  g_ReadInputRegistersRequest_bytes u s q buf = Ok (wat buf 0 (req_body (RRead 4 u s q))).
Proof. intros. unfold g_ReadInputRegistersRequest_bytes. enc. Qed.
Global Hint Rewrite ReadInputRegistersRequest_bytes_eq using side : genc.
Lemma ReadInputRegistersRequest_Bytes_eq u s q : s < 65536 -> q < 65536 -> g_ReadInputRegistersRequest_Bytes u s q = Ok (req_body (RRead 4 u s q)).
Proof. intros. unfold g_ReadInputRegistersRequest_Bytes. enc_top. Qed.
Lemma ReadInputRegistersRequestTCP_Bytes_eq tid pid u s q : tid < 65536 -> s < 65536 -> q < 65536 -> g_ReadInputRegistersRequestTCP_Bytes tid pid u s q = Ok (req_bytes_tcp tid (RRead 4 u s q)).
Proof. intros. unfold g_ReadInputRegistersRequestTCP_Bytes, req_bytes_tcp; rewrite ReadInputRegistersRequest_len16 by side. enc_top. Qed.
Lemma ReadInputRegistersRequestRTU_Bytes_eq u s q : s < 65536 -> q < 65536 -> g_ReadInputRegistersRequestRTU_Bytes u s q = Ok (req_bytes_rtu (RRead 4 u s q)).
Proof. intros. unfold g_ReadInputRegistersRequestRTU_Bytes, req_bytes_rtu. enc_top. Qed.

(* ---------- WriteSingleCoilRequest ---------- *)
Lemma WriteSingleCoilRequest_len16 u a st : req_len16 (RWCoil u a st) = 6.
Proof. intros. len_side. Qed.
Lemma WriteSingleCoilRequest_bytes_eq u a st buf : a < 65536 -> (6 <= length buf)%nat ->
  g_WriteSingleCoilRequest_bytes u a st buf = Ok (wat buf 0 (req_body (RWCoil u a st))).
Proof. intros. unfold g_WriteSingleCoilRequest_bytes. enc. Qed.
Global Hint Rewrite WriteSingleCoilRequest_bytes_eq using side : genc.
Lemma WriteSingleCoilRequest_Bytes_eq u a st : a < 65536 -> g_WriteSingleCoilRequest_Bytes u a st = Ok (req_body (RWCoil u a st)).
Proof. intros. unfold g_WriteSingleCoilRequest_Bytes. enc_top. Qed.
Lemma WriteSingleCoilRequestTCP_Bytes_eq tid pid u a st : tid < 65536 -> a < 65536 -> g_WriteSingleCoilRequestTCP_Bytes tid pid u a st = Ok (req_bytes_tcp tid (RWCoil u a st)).
Proof. intros. unfold g_WriteSingleCoilRequestTCP_Bytes, req_bytes_tcp; rewrite WriteSingleCoilRequest_len16 by side. enc_top. Qed.
Lemma WriteSingleCoilRequestRTU_Bytes_eq u a st : a < 65536 -> g_WriteSingleCoilRequestRTU_Bytes u a st = Ok (req_bytes_rtu (RWCoil u a st)).
Proof. intros. unfold g_WriteSingleCoilRequestRTU_Bytes, req_bytes_rtu. enc_top. Qed.

(* ---------- WriteSingleRegisterRequest ---------- *)
Lemma WriteSingleRegisterRequest_len16 u a d0 d1 : req_len16 (RWReg u a d0 d1) = 6.
Proof. intros. len_side. Qed.
Lemma WriteSingleRegisterRequest_bytes_eq u a d0 d1 buf : a < 65536 -> (6 <= length buf)%nat ->
  g_WriteSingleRegisterRequest_bytes u a [d0; d1] buf = Ok (wat buf 0 (req_body (RWReg u a d0 d1))).
Proof. intros. unfold g_WriteSingleRegisterRequest_bytes. enc. Qed.
Global Hint Rewrite WriteSingleRegisterRequest_bytes_eq using side : genc.
Lemma WriteSingleRegisterRequest_Bytes_eq u a d0 d1 : a < 65536 -> g_WriteSingleRegisterRequest_Bytes u a [d0; d1] = Ok (req_body (RWReg u a d0 d1)).
Proof. intros. unfold g_WriteSingleRegisterRequest_Bytes. enc_top. Qed.
Lemma WriteSingleRegisterRequestTCP_Bytes_eq tid pid u a d0 d1 : tid < 65536 -> a < 65536 -> g_WriteSingleRegisterRequestTCP_Bytes tid pid u a [d0; d1] = Ok (req_bytes_tcp tid (RWReg u a d0 d1)).
Proof. intros. unfold g_WriteSingleRegisterRequestTCP_Bytes, req_bytes_tcp; rewrite WriteSingleRegisterRequest_len16 by side. enc_top. Qed.
Lemma WriteSingleRegisterRequestRTU_Bytes_eq u a d0 d1 : a < 65536 -> g_WriteSingleRegisterRequestRTU_Bytes u a [d0; d1] = Ok (req_bytes_rtu (RWReg u a d0 d1)).
Proof. intros. unfold g_WriteSingleRegisterRequestRTU_Bytes, req_bytes_rtu. enc_top. Qed.

(* ---------- WriteMultipleCoilsRequest ---------- *)
Lemma WriteMultipleCoilsRequest_len16 u s c dat : (length dat <= 255)%nat -> req_len16 (RWCoils u s c dat) = 7 + N.of_nat (length dat).
Proof. intros. len_side. Qed.
Lemma WriteMultipleCoilsRequest_len_eq u s c dat : s < 65536 -> c < 65536 -> (length dat <= 255)%nat -> g_WriteMultipleCoilsRequest_len u s c dat = 7 + N.of_nat (length dat).
Proof. intros. unfold g_WriteMultipleCoilsRequest_len. len_side. Qed.
Global Hint Rewrite WriteMultipleCoilsRequest_len_eq using side : genc.
Lemma WriteMultipleCoilsRequest_bytes_eq u s c dat buf : s < 65536 -> c < 65536 -> (length dat <= 255)%nat -> (7 + length dat <= length buf)%nat ->
  g_WriteMultipleCoilsRequest_bytes u s c dat buf = Ok (wat buf 0 (req_body (RWCoils u s c dat))).
Proof. intros. unfold g_WriteMultipleCoilsRequest_bytes. enc. Qed.
Global Hint Rewrite WriteMultipleCoilsRequest_bytes_eq using side : genc.
Lemma WriteMultipleCoilsRequest_Bytes_eq u s c dat : s < 65536 -> c < 65536 -> (length dat <= 255)%nat -> g_WriteMultipleCoilsRequest_Bytes u s c dat = Ok (req_body (RWCoils u s c dat)).
Proof. intros. unfold g_WriteMultipleCoilsRequest_Bytes. enc_top. Qed.
Lemma WriteMultipleCoilsRequestTCP_Bytes_eq tid pid u s c dat : tid < 65536 -> s < 65536 -> c < 65536 -> (length dat <= 255)%nat -> g_WriteMultipleCoilsRequestTCP_Bytes tid pid u s c dat = Ok (req_bytes_tcp tid (RWCoils u s c dat)).
Proof. intros. unfold g_WriteMultipleCoilsRequestTCP_Bytes, req_bytes_tcp; rewrite WriteMultipleCoilsRequest_len16 by side. enc_top. Qed.
Lemma WriteMultipleCoilsRequestRTU_Bytes_eq u s c dat : s < 65536 -> c < 65536 -> (length dat <= 255)%nat -> g_WriteMultipleCoilsRequestRTU_Bytes u s c dat = Ok (req_bytes_rtu (RWCoils u s c dat)).
Proof. intros. unfold g_WriteMultipleCoilsRequestRTU_Bytes, req_bytes_rtu. enc_top. Qed.

(* ---------- WriteMultipleRegistersRequest ---------- *)
Lemma WriteMultipleRegistersRequest_len16 u s c dat : (length dat <= 255)%nat -> req_len16 (RWRegs u s c dat) = 7 + N.of_nat (length dat).
Proof. intros. len_side. Qed.
Lemma WriteMultipleRegistersRequest_len_eq u s c dat : s < 65536 -> c < 65536 -> (length dat <= 255)%nat -> g_WriteMultipleRegistersRequest_len u s c dat = 7 + N.of_nat (length dat).
Proof. intros. unfold g_WriteMultipleRegistersRequest_len. len_side. Qed.
Global Hint Rewrite WriteMultipleRegistersRequest_len_eq using side : genc.
Lemma WriteMultipleRegistersRequest_bytes_eq u s c dat buf : s < 65536 -> c < 65536 -> (length dat <= 255)%nat -> (7 + length dat <= length buf)%nat ->
  g_WriteMultipleRegistersRequest_bytes u s c dat buf = Ok (wat buf 0 (req_body (RWRegs u s c dat))).
Proof. intros. unfold g_WriteMultipleRegistersRequest_bytes. enc. Qed.
Global Hint Rewrite WriteMultipleRegistersRequest_bytes_eq using side : genc.
Lemma WriteMultipleRegistersRequest_Bytes_eq u s c dat : s < 65536 -> c < 65536 -> (length dat <= 255)%nat -> g_WriteMultipleRegistersRequest_Bytes u s c dat = Ok (req_body (RWRegs u s c dat)).
Proof. intros. unfold g_WriteMultipleRegistersRequest_Bytes. enc_top. Qed.
Lemma WriteMultipleRegistersRequestTCP_Bytes_eq tid pid u s c dat : tid < 65536 -> s < 65536 -> c < 65536 -> (length dat <= 255)%nat -> g_WriteMultipleRegistersRequestTCP_Bytes tid pid u s c dat = Ok (req_bytes_tcp tid (RWRegs u s c dat)).
Proof. intros. unfold g_WriteMultipleRegistersRequestTCP_Bytes, req_bytes_tcp; rewrite WriteMultipleRegistersRequest_len16 by side. enc_top. Qed.
Lemma WriteMultipleRegistersRequestRTU_Bytes_eq u s c dat : s < 65536 -> c < 65536 -> (length dat <= 255)%nat -> g_WriteMultipleRegistersRequestRTU_Bytes u s c dat = Ok (req_bytes_rtu (RWRegs u s c dat)).
Proof. intros. unfold g_WriteMultipleRegistersRequestRTU_Bytes, req_bytes_rtu. enc_top. Qed.

(* ---------- ReadServerIDRequest ---------- *)
Lemma ReadServerIDRequest_len16 u : req_len16 (RSrvId u) = 2.
Proof. intros. len_side. Qed.
Lemma ReadServerIDRequest_bytes_eq u buf : (2 <= length buf)%nat ->
  g_ReadServerIDRequest_bytes u buf = Ok (wat buf 0 (req_body (RSrvId u))).
Proof. intros. unfold g_ReadServerIDRequest_bytes. enc. Qed.
Global Hint Rewrite ReadServerIDRequest_bytes_eq using side : genc.
Lemma ReadServerIDRequest_Bytes_eq u : g_ReadServerIDRequest_Bytes u = Ok (req_body (RSrvId u)).
Proof. intros. unfold g_ReadServerIDRequest_Bytes. enc_top. Qed.
Lemma ReadServerIDRequestTCP_Bytes_eq tid pid u : tid < 65536 -> g_ReadServerIDRequestTCP_Bytes tid pid u = Ok (req_bytes_tcp tid (RSrvId u)).
Proof. intros. unfold g_ReadServerIDRequestTCP_Bytes, req_bytes_tcp; rewrite ReadServerIDRequest_len16 by side. enc_top. Qed.
Lemma ReadServerIDRequestRTU_Bytes_eq u : g_ReadServerIDRequestRTU_Bytes u = Ok (req_bytes_rtu (RSrvId u)).
Proof. intros. unfold g_ReadServerIDRequestRTU_Bytes, req_bytes_rtu. enc_top. Qed.

(* ---------- ReadWriteMultipleRegistersRequest ---------- *)
Lemma ReadWriteMultipleRegistersRequest_len16 u rs rq ws wq dat : (length dat <= 255)%nat -> req_len16 (RRW u rs rq ws wq dat) = 11 + N.of_nat (length dat).
Proof. intros. len_side. Qed.
Lemma ReadWriteMultipleRegistersRequest_len_eq u rs rq ws wq dat : rs < 65536 -> rq < 65536 -> ws < 65536 -> wq < 65536 -> (length dat <= 255)%nat -> g_ReadWriteMultipleRegistersRequest_len u rs rq ws wq dat = 11 + N.of_nat (length dat).
Proof. intros. unfold g_ReadWriteMultipleRegistersRequest_len. len_side. Qed.
Global Hint Rewrite ReadWriteMultipleRegistersRequest_len_eq using side : genc.
Lemma ReadWriteMultipleRegistersRequest_bytes_eq u rs rq ws wq dat buf : rs < 65536 -> rq < 65536 -> ws < 65536 -> wq < 65536 -> (length dat <= 255)%nat -> (11 + length dat <= length buf)%nat ->
  g_ReadWriteMultipleRegistersRequest_bytes u rs rq ws wq dat buf = Ok (wat buf 0 (req_body (RRW u rs rq ws wq dat))).
Proof. intros. unfold g_ReadWriteMultipleRegistersRequest_bytes. enc. Qed.
Global Hint Rewrite ReadWriteMultipleRegistersRequest_bytes_eq using side : genc.
Lemma ReadWriteMultipleRegistersRequest_Bytes_eq u rs rq ws wq dat : rs < 65536 -> rq < 65536 -> ws < 65536 -> wq < 65536 -> (length dat <= 255)%nat -> g_ReadWriteMultipleRegistersRequest_Bytes u rs rq ws wq dat = Ok (req_body (RRW u rs rq ws wq dat)).
Proof. intros. unfold g_ReadWriteMultipleRegistersRequest_Bytes. enc_top. Qed.
Lemma ReadWriteMultipleRegistersRequestTCP_Bytes_eq tid pid u rs rq ws wq dat : tid < 65536 -> rs < 65536 -> rq < 65536 -> ws < 65536 -> wq < 65536 -> (length dat <= 255)%nat -> g_ReadWriteMultipleRegistersRequestTCP_Bytes tid pid u rs rq ws wq dat = Ok (req_bytes_tcp tid (RRW u rs rq ws wq dat)).
Proof. intros. unfold g_ReadWriteMultipleRegistersRequestTCP_Bytes, req_bytes_tcp; rewrite ReadWriteMultipleRegistersRequest_len16 by side. enc_top. Qed.
Lemma ReadWriteMultipleRegistersRequestRTU_Bytes_eq u rs rq ws wq dat : rs < 65536 -> rq < 65536 -> ws < 65536 -> wq < 65536 -> (length dat <= 255)%nat -> g_ReadWriteMultipleRegistersRequestRTU_Bytes u rs rq ws wq dat = Ok (req_bytes_rtu (RRW u rs rq ws wq dat)).
Proof. intros. unfold g_ReadWriteMultipleRegistersRequestRTU_Bytes, req_bytes_rtu. enc_top. Qed.

(* ---------- ReadCoilsResponse ---------- *)
Lemma ReadCoilsResponse_len16 u bl dat : (length dat <= 255)%nat -> resp_len16 (PBytes 1 u bl dat) = 3 + N.of_nat (length dat).
Proof. intros. len_side. Qed.
Lemma ReadCoilsResponse_len_eq u bl dat : (length dat <= 255)%nat -> g_ReadCoilsResponse_len u bl dat = 3 + N.of_nat (length dat).
Proof. intros. unfold g_ReadCoilsResponse_len. len_side. Qed.
Global Hint Rewrite ReadCoilsResponse_len_eq using side : genc.
Lemma ReadCoilsResponse_bytes_eq u bl dat buf : (length dat <= 255)%nat -> (3 + length dat <= length buf)%nat ->
  g_ReadCoilsResponse_bytes u bl dat buf = Ok (wat buf 0 (resp_body (PBytes 1 u bl dat))).
Proof. intros. unfold g_ReadCoilsResponse_bytes. enc. Qed.
Global Hint Rewrite ReadCoilsResponse_bytes_eq using side : genc.
Lemma ReadCoilsResponse_Bytes_eq u bl dat : (length dat <= 255)%nat -> g_ReadCoilsResponse_Bytes u bl dat = Ok (resp_body (PBytes 1 u bl dat)).
Proof. intros. unfold g_ReadCoilsResponse_Bytes. enc_top. Qed.
Lemma ReadCoilsResponseTCP_Bytes_eq tid pid u bl dat : tid < 65536 -> (length dat <= 255)%nat -> g_ReadCoilsResponseTCP_Bytes tid pid u bl dat = Ok (resp_bytes_tcp tid (PBytes 1 u bl dat)).
Proof. intros. unfold g_ReadCoilsResponseTCP_Bytes, resp_bytes_tcp; rewrite ReadCoilsResponse_len16 by side. enc_top. Qed.
Lemma ReadCoilsResponseRTU_Bytes_eq u bl dat : (length dat <= 255)%nat -> g_ReadCoilsResponseRTU_Bytes u bl dat = Ok (resp_bytes_rtu (PBytes 1 u bl dat)).
Proof. intros. unfold g_ReadCoilsResponseRTU_Bytes, resp_bytes_rtu. enc_top. Qed.

(* ---------- ReadDiscreteInputsResponse ---------- *)
Lemma ReadDiscreteInputsResponse_len16 u bl dat : (length dat <= 255)%nat -> resp_len16 (PBytes 2 u bl dat) = 3 + N.of_nat (length dat).
Proof. intros. len_side. Qed.
Lemma ReadDiscreteInputsResponse_len_eq u bl dat : (length dat <= 255)%nat -> g_ReadDiscreteInputsResponse_len u bl dat = 3 + N.of_nat (length dat).
Proof. intros. unfold g_ReadDiscreteInputsResponse_len. len_side. Qed.
Global Hint Rewrite ReadDiscreteInputsResponse_len_eq using side : genc.
Lemma ReadDiscreteInputsResponse_bytes_eq u bl dat buf : (length dat <= 255)%nat -> (3 + length dat <= length buf)%nat ->
  g_ReadDiscreteInputsResponse_bytes u bl dat buf = Ok (wat buf 0 (resp_body (PBytes 2 u bl dat))).
Proof. intros. unfold g_ReadDiscreteInputsResponse_bytes. enc. Qed.
Global Hint Rewrite ReadDiscreteInputsResponse_bytes_eq using side : genc.
Lemma ReadDiscreteInputsResponse_Bytes_eq u bl dat : (length dat <= 255)%nat -> g_ReadDiscreteInputsResponse_Bytes u bl dat = Ok (resp_body (PBytes 2 u bl dat)).
Proof. intros. unfold g_ReadDiscreteInputsResponse_Bytes. enc_top. Qed.
Lemma ReadDiscreteInputsResponseTCP_Bytes_eq tid pid u bl dat : tid < 65536 -> (length dat <= 255)%nat -> g_ReadDiscreteInputsResponseTCP_Bytes tid pid u bl dat = Ok (resp_bytes_tcp tid (PBytes 2 u bl dat)).
Proof. intros. unfold g_ReadDiscreteInputsResponseTCP_Bytes, resp_bytes_tcp; rewrite ReadDiscreteInputsResponse_len16 by side. enc_top. Qed.
Lemma ReadDiscreteInputsResponseRTU_Bytes_eq u bl dat : (length dat <= 255)%nat -> g_ReadDiscreteInputsResponseRTU_Bytes u bl dat = Ok (resp_bytes_rtu (PBytes 2 u bl dat)).
Proof. intros. unfold g_ReadDiscreteInputsResponseRTU_Bytes, resp_bytes_rtu. enc_top. Qed.

(* ---------- ReadHoldingRegistersResponse ---------- *)
Lemma ReadHoldingRegistersResponse_len16 u bl dat : bl < 256 -> resp_len16 (PBytes 3 u bl dat) = 3 + bl.
Proof. intros. len_side. Qed.
Lemma ReadHoldingRegistersResponse_len_eq u bl dat : bl < 256 -> g_ReadHoldingRegistersResponse_len u bl dat = 3 + bl.
Proof. intros. unfold g_ReadHoldingRegistersResponse_len. len_side. Qed.
Global Hint Rewrite ReadHoldingRegistersResponse_len_eq using side : genc.
Lemma ReadHoldingRegistersResponse_bytes_eq u bl dat buf : (3 <= length buf)%nat ->
  g_ReadHoldingRegistersResponse_bytes u bl dat buf = Ok (wat (wat buf 0 [u; 3; bl]) 3 dat).
Proof. intros. unfold g_ReadHoldingRegistersResponse_bytes. enc. Qed.
Global Hint Rewrite ReadHoldingRegistersResponse_bytes_eq using side : genc.
Lemma ReadHoldingRegistersResponse_Bytes_eq u bl dat : bl < 256 -> g_ReadHoldingRegistersResponse_Bytes u bl dat = Ok (resp_body (PBytes 3 u bl dat)).
Proof. intros. unfold g_ReadHoldingRegistersResponse_Bytes. enc_top. Qed.
Lemma ReadHoldingRegistersResponseTCP_Bytes_eq tid pid u bl dat : tid < 65536 -> bl < 256 -> g_ReadHoldingRegistersResponseTCP_Bytes tid pid u bl dat = Ok (resp_bytes_tcp tid (PBytes 3 u bl dat)).
Proof. intros. unfold g_ReadHoldingRegistersResponseTCP_Bytes, resp_bytes_tcp; rewrite ReadHoldingRegistersResponse_len16 by side. enc_top. Qed.
Lemma ReadHoldingRegistersResponseRTU_Bytes_eq u bl dat : bl < 256 -> g_ReadHoldingRegistersResponseRTU_Bytes u bl dat = Ok (resp_bytes_rtu (PBytes 3 u bl dat)).
Proof. intros. unfold g_ReadHoldingRegistersResponseRTU_Bytes, resp_bytes_rtu. enc_top. Qed.

(* ---------- ReadInputRegistersResponse ---------- *)
Lemma ReadInputRegistersResponse_len16 u bl dat : bl < 256 -> resp_len16 (PBytes 4 u bl dat) = 3 + bl.
Proof. intros. len_side. Qed.
Lemma ReadInputRegistersResponse_len_eq u bl dat : bl < 256 -> g_ReadInputRegistersResponse_len u bl dat = 3 + bl.
Proof. intros. unfold g_ReadInputRegistersResponse_len. len_side. Qed.
Global Hint Rewrite ReadInputRegistersResponse_len_eq using side : genc.
Lemma ReadInputRegistersResponse_bytes_eq u bl dat buf : (3 <= length buf)%nat ->
  g_ReadInputRegistersResponse_bytes u bl dat buf = Ok (wat (wat buf 0 [u; 4; bl]) 3 dat).
Proof. intros. unfold g_ReadInputRegistersResponse_bytes. enc. Qed.
Global Hint Rewrite ReadInputRegistersResponse_bytes_eq using side : genc.
Lemma ReadInputRegistersResponse_Bytes_eq u bl dat : bl < 256 -> g_ReadInputRegistersResponse_Bytes u bl dat = Ok (resp_body (PBytes 4 u bl dat)).
Proof. intros. unfold g_ReadInputRegistersResponse_Bytes. enc_top. Qed.
Lemma ReadInputRegistersResponseTCP_Bytes_eq tid pid u bl dat : tid < 65536 -> bl < 256 -> g_ReadInputRegistersResponseTCP_Bytes tid pid u bl dat = Ok (resp_bytes_tcp tid (PBytes 4 u bl dat)).
Proof. intros. unfold g_ReadInputRegistersResponseTCP_Bytes, resp_bytes_tcp; rewrite ReadInputRegistersResponse_len16 by side. enc_top. Qed.
Lemma ReadInputRegistersResponseRTU_Bytes_eq u bl dat : bl < 256 -> g_ReadInputRegistersResponseRTU_Bytes u bl dat = Ok (resp_bytes_rtu (PBytes 4 u bl dat)).
Proof. intros. unfold g_ReadInputRegistersResponseRTU_Bytes, resp_bytes_rtu. enc_top. Qed.

(* ---------- ReadWriteMultipleRegistersResponse ---------- *)
Lemma ReadWriteMultipleRegistersResponse_len16 u bl dat : bl < 256 -> resp_len16 (PBytes 23 u bl dat) = 3 + bl.
Proof. intros. len_side. Qed.
Lemma ReadWriteMultipleRegistersResponse_len_eq u bl dat : bl < 256 -> g_ReadWriteMultipleRegistersResponse_len u bl dat = 3 + bl.
Proof. intros. unfold g_ReadWriteMultipleRegistersResponse_len. len_side. Qed.
Global Hint Rewrite ReadWriteMultipleRegistersResponse_len_eq using side : genc.
Lemma ReadWriteMultipleRegistersResponse_bytes_eq u bl dat buf : (3 <= length buf)%nat ->
  g_ReadWriteMultipleRegistersResponse_bytes u bl dat buf = Ok (wat (wat buf 0 [u; 23; bl]) 3 dat).
Proof. intros. unfold g_ReadWriteMultipleRegistersResponse_bytes. enc. Qed.
Global Hint Rewrite ReadWriteMultipleRegistersResponse_bytes_eq using side : genc.
Lemma ReadWriteMultipleRegistersResponse_Bytes_eq u bl dat : bl < 256 -> g_ReadWriteMultipleRegistersResponse_Bytes u bl dat = Ok (resp_body (PBytes 23 u bl dat)).
Proof. intros. unfold g_ReadWriteMultipleRegistersResponse_Bytes. enc_top. Qed.
Lemma ReadWriteMultipleRegistersResponseTCP_Bytes_eq tid pid u bl dat : tid < 65536 -> bl < 256 -> g_ReadWriteMultipleRegistersResponseTCP_Bytes tid pid u bl dat = Ok (resp_bytes_tcp tid (PBytes 23 u bl dat)).
Proof. intros. unfold g_ReadWriteMultipleRegistersResponseTCP_Bytes, resp_bytes_tcp; rewrite ReadWriteMultipleRegistersResponse_len16 by side. enc_top. Qed.
Lemma ReadWriteMultipleRegistersResponseRTU_Bytes_eq u bl dat : bl < 256 -> g_ReadWriteMultipleRegistersResponseRTU_Bytes u bl dat = Ok (resp_bytes_rtu (PBytes 23 u bl dat)).
Proof. intros. unfold g_ReadWriteMultipleRegistersResponseRTU_Bytes, resp_bytes_rtu. enc_top. Qed.

(* ---------- WriteSingleCoilResponse ---------- *)
Lemma WriteSingleCoilResponse_len16 u a st : resp_len16 (PWCoil u a st) = 6.
Proof. intros. len_side. Qed.
Lemma WriteSingleCoilResponse_bytes_eq u a st buf : a < 65536 -> (6 <= length buf)%nat ->
  g_WriteSingleCoilResponse_bytes u a st buf = Ok (wat buf 0 (resp_body (PWCoil u a st))).
Proof. intros. unfold g_WriteSingleCoilResponse_bytes. enc. Qed.
Global Hint Rewrite WriteSingleCoilResponse_bytes_eq using side : genc.
Lemma WriteSingleCoilResponse_Bytes_eq u a st : a < 65536 -> g_WriteSingleCoilResponse_Bytes u a st = Ok (resp_body (PWCoil u a st)).
Proof. intros. unfold g_WriteSingleCoilResponse_Bytes. enc_top. Qed.
Lemma WriteSingleCoilResponseTCP_Bytes_eq tid pid u a st : tid < 65536 -> a < 65536 -> g_WriteSingleCoilResponseTCP_Bytes tid pid u a st = Ok (resp_bytes_tcp tid (PWCoil u a st)).
Proof. intros. unfold g_WriteSingleCoilResponseTCP_Bytes, resp_bytes_tcp; rewrite WriteSingleCoilResponse_len16 by side. enc_top. Qed.
Lemma WriteSingleCoilResponseRTU_Bytes_eq u a st : a < 65536 -> g_WriteSingleCoilResponseRTU_Bytes u a st = Ok (resp_bytes_rtu (PWCoil u a st)).
Proof. intros. unfold g_WriteSingleCoilResponseRTU_Bytes, resp_bytes_rtu. enc_top. Qed.

(* ---------- WriteSingleRegisterResponse ---------- *)
Lemma WriteSingleRegisterResponse_len16 u a d0 d1 : resp_len16 (PWReg u a d0 d1) = 6.
Proof. intros. len_side. Qed.
Lemma WriteSingleRegisterResponse_bytes_eq u a d0 d1 buf : a < 65536 -> (6 <= length buf)%nat ->
  g_WriteSingleRegisterResponse_bytes u a [d0; d1] buf = Ok (wat buf 0 (resp_body (PWReg u a d0 d1))).
Proof. intros. unfold g_WriteSingleRegisterResponse_bytes. enc. Qed.
Global Hint Rewrite WriteSingleRegisterResponse_bytes_eq using side : genc.
Lemma WriteSingleRegisterResponse_Bytes_eq u a d0 d1 : a < 65536 -> g_WriteSingleRegisterResponse_Bytes u a [d0; d1] = Ok (resp_body (PWReg u a d0 d1)).
Proof. intros. unfold g_WriteSingleRegisterResponse_Bytes. enc_top. Qed.
Lemma WriteSingleRegisterResponseTCP_Bytes_eq tid pid u a d0 d1 : tid < 65536 -> a < 65536 -> g_WriteSingleRegisterResponseTCP_Bytes tid pid u a [d0; d1] = Ok (resp_bytes_tcp tid (PWReg u a d0 d1)).
Proof. intros. unfold g_WriteSingleRegisterResponseTCP_Bytes, resp_bytes_tcp; rewrite WriteSingleRegisterResponse_len16 by side. enc_top. Qed.
Lemma WriteSingleRegisterResponseRTU_Bytes_eq u a d0 d1 : a < 65536 -> g_WriteSingleRegisterResponseRTU_Bytes u a [d0; d1] = Ok (resp_bytes_rtu (PWReg u a d0 d1)).
Proof. intros. unfold g_WriteSingleRegisterResponseRTU_Bytes, resp_bytes_rtu. enc_top. Qed.

(* ---------- WriteMultipleCoilsResponse ---------- *)
Lemma WriteMultipleCoilsResponse_len16 u s c : resp_len16 (PWMulti 15 u s c) = 6.
Proof. intros. len_side. Qed.
Lemma WriteMultipleCoilsResponse_bytes_eq u s c buf : s < 65536 -> c < 65536 -> (6 <= length buf)%nat ->
  g_WriteMultipleCoilsResponse_bytes u s c buf = Ok (wat buf 0 (resp_body (PWMulti 15 u s c))).
Proof. intros. unfold g_WriteMultipleCoilsResponse_bytes. enc. Qed.
Global Hint Rewrite WriteMultipleCoilsResponse_bytes_eq using side : genc.
Lemma WriteMultipleCoilsResponse_Bytes_eq u s c : s < 65536 -> c < 65536 -> g_WriteMultipleCoilsResponse_Bytes u s c = Ok (resp_body (PWMulti 15 u s c)).
Proof. intros. unfold g_WriteMultipleCoilsResponse_Bytes. enc_top. Qed.
Lemma WriteMultipleCoilsResponseTCP_Bytes_eq tid pid u s c : tid < 65536 -> s < 65536 -> c < 65536 -> g_WriteMultipleCoilsResponseTCP_Bytes tid pid u s c = Ok (resp_bytes_tcp tid (PWMulti 15 u s c)).
Proof. intros. unfold g_WriteMultipleCoilsResponseTCP_Bytes, resp_bytes_tcp; rewrite WriteMultipleCoilsResponse_len16 by side. enc_top. Qed.
Lemma WriteMultipleCoilsResponseRTU_Bytes_eq u s c : s < 65536 -> c < 65536 -> g_WriteMultipleCoilsResponseRTU_Bytes u s c = Ok (resp_bytes_rtu (PWMulti 15 u s c)).
Proof. intros. unfold g_WriteMultipleCoilsResponseRTU_Bytes, resp_bytes_rtu. enc_top. Qed.

(* ---------- WriteMultipleRegistersResponse ---------- *)
Lemma WriteMultipleRegistersResponse_len16 u s c : resp_len16 (PWMulti 16 u s c) = 6.
Proof. intros. len_side. Qed.
Lemma WriteMultipleRegistersResponse_bytes_eq u s c buf : s < 65536 -> c < 65536 -> (6 <= length buf)%nat ->
  g_WriteMultipleRegistersResponse_bytes u s c buf = Ok (wat buf 0 (resp_body (PWMulti 16 u s c))).
Proof. intros. unfold g_WriteMultipleRegistersResponse_bytes. enc. Qed.
Global Hint Rewrite WriteMultipleRegistersResponse_bytes_eq using side : genc.
Lemma WriteMultipleRegistersResponse_Bytes_eq u s c : s < 65536 -> c < 65536 -> g_WriteMultipleRegistersResponse_Bytes u s c = Ok (resp_body (PWMulti 16 u s c)).
Proof. intros. unfold g_WriteMultipleRegistersResponse_Bytes. enc_top. Qed.
Lemma WriteMultipleRegistersResponseTCP_Bytes_eq tid pid u s c : tid < 65536 -> s < 65536 -> c < 65536 -> g_WriteMultipleRegistersResponseTCP_Bytes tid pid u s c = Ok (resp_bytes_tcp tid (PWMulti 16 u s c)).
Proof. intros. unfold g_WriteMultipleRegistersResponseTCP_Bytes, resp_bytes_tcp; rewrite WriteMultipleRegistersResponse_len16 by side. enc_top. Qed.
Lemma WriteMultipleRegistersResponseRTU_Bytes_eq u s c : s < 65536 -> c < 65536 -> g_WriteMultipleRegistersResponseRTU_Bytes u s c = Ok (resp_bytes_rtu (PWMulti 16 u s c)).
Proof. intros. unfold g_WriteMultipleRegistersResponseRTU_Bytes, resp_bytes_rtu. enc_top. Qed.

(* ---------- ReadServerIDResponse ---------- *)
Lemma ReadServerIDResponse_len16 u st id add : (length id <= 255)%nat -> (length add <= 255)%nat -> resp_len16 (PSrvId u st id add) = 4 + N.of_nat (length id) + N.of_nat (length add).
Proof. intros. len_side. Qed.
Lemma ReadServerIDResponse_len_eq u st id add isnil : (length id <= 255)%nat -> (length add <= 255)%nat -> (isnil = true -> add = []) -> g_ReadServerIDResponse_len u st id add isnil = 4 + N.of_nat (length id) + N.of_nat (length add).
Proof. intros. destruct isnil; [assert (add = []) by auto; subst add|]; unfold g_ReadServerIDResponse_len. all: len_side. Qed.
Global Hint Rewrite ReadServerIDResponse_len_eq using side : genc.
Lemma ReadServerIDResponse_bytes_eq u st id add isnil buf : (length id <= 255)%nat -> (length add <= 255)%nat -> (isnil = true -> add = []) -> (4 + length id + length add <= length buf)%nat ->
  g_ReadServerIDResponse_bytes u st id add isnil buf = Ok (wat buf 0 (resp_body (PSrvId u st id add))).
Proof. intros. destruct isnil; [assert (add = []) by auto; subst add|]; unfold g_ReadServerIDResponse_bytes. all: enc. Qed.
Global Hint Rewrite ReadServerIDResponse_bytes_eq using side : genc.
Lemma ReadServerIDResponse_Bytes_eq u st id add isnil : (length id <= 255)%nat -> (length add <= 255)%nat -> (isnil = true -> add = []) -> g_ReadServerIDResponse_Bytes u st id add isnil = Ok (resp_body (PSrvId u st id add)).
Proof. intros. destruct isnil; [assert (add = []) by auto; subst add|]; unfold g_ReadServerIDResponse_Bytes. all: enc_top. Qed.
Lemma ReadServerIDResponseTCP_Bytes_eq tid pid u st id add isnil : tid < 65536 -> (length id <= 255)%nat -> (length add <= 255)%nat -> (isnil = true -> add = []) -> g_ReadServerIDResponseTCP_Bytes tid pid u st id add isnil = Ok (resp_bytes_tcp tid (PSrvId u st id add)).
Proof. intros. destruct isnil; [assert (add = []) by auto; subst add|]; unfold g_ReadServerIDResponseTCP_Bytes, resp_bytes_tcp; rewrite ReadServerIDResponse_len16 by side. all: enc_top. Qed.
Lemma ReadServerIDResponseRTU_Bytes_eq u st id add isnil : (length id <= 255)%nat -> (length add <= 255)%nat -> (isnil = true -> add = []) -> g_ReadServerIDResponseRTU_Bytes u st id add isnil = Ok (resp_bytes_rtu (PSrvId u st id add)).
Proof. intros. destruct isnil; [assert (add = []) by auto; subst add|]; unfold g_ReadServerIDResponseRTU_Bytes, resp_bytes_rtu. all: enc_top. Qed.

(* ---------- the len() methods, against the length field of the model ---------- *)
Lemma WriteMultipleCoilsRequest_len_model u s c dat : s < 65536 -> c < 65536 -> (length dat <= 255)%nat -> g_WriteMultipleCoilsRequest_len u s c dat = req_len16 (RWCoils u s c dat).
Proof. intros. rewrite WriteMultipleCoilsRequest_len_eq, WriteMultipleCoilsRequest_len16 by side. reflexivity. Qed.
Lemma WriteMultipleRegistersRequest_len_model u s c dat : s < 65536 -> c < 65536 -> (length dat <= 255)%nat -> g_WriteMultipleRegistersRequest_len u s c dat = req_len16 (RWRegs u s c dat).
Proof. intros. rewrite WriteMultipleRegistersRequest_len_eq, WriteMultipleRegistersRequest_len16 by side. reflexivity. Qed.
Lemma ReadWriteMultipleRegistersRequest_len_model u rs rq ws wq dat : rs < 65536 -> rq < 65536 -> ws < 65536 -> wq < 65536 -> (length dat <= 255)%nat -> g_ReadWriteMultipleRegistersRequest_len u rs rq ws wq dat = req_len16 (RRW u rs rq ws wq dat).
Proof. intros. rewrite ReadWriteMultipleRegistersRequest_len_eq, ReadWriteMultipleRegistersRequest_len16 by side. reflexivity. Qed.
Lemma ReadCoilsResponse_len_model u bl dat : (length dat <= 255)%nat -> g_ReadCoilsResponse_len u bl dat = resp_len16 (PBytes 1 u bl dat).
Proof. intros. rewrite ReadCoilsResponse_len_eq, ReadCoilsResponse_len16 by side. reflexivity. Qed.
Lemma ReadDiscreteInputsResponse_len_model u bl dat : (length dat <= 255)%nat -> g_ReadDiscreteInputsResponse_len u bl dat = resp_len16 (PBytes 2 u bl dat).
Proof. intros. rewrite ReadDiscreteInputsResponse_len_eq, ReadDiscreteInputsResponse_len16 by side. reflexivity. Qed.
Lemma ReadHoldingRegistersResponse_len_model u bl dat : bl < 256 -> g_ReadHoldingRegistersResponse_len u bl dat = resp_len16 (PBytes 3 u bl dat).
Proof. intros. rewrite ReadHoldingRegistersResponse_len_eq, ReadHoldingRegistersResponse_len16 by side. reflexivity. Qed.
Lemma ReadInputRegistersResponse_len_model u bl dat : bl < 256 -> g_ReadInputRegistersResponse_len u bl dat = resp_len16 (PBytes 4 u bl dat).
Proof. intros. rewrite ReadInputRegistersResponse_len_eq, ReadInputRegistersResponse_len16 by side. reflexivity. Qed.
Lemma ReadWriteMultipleRegistersResponse_len_model u bl dat : bl < 256 -> g_ReadWriteMultipleRegistersResponse_len u bl dat = resp_len16 (PBytes 23 u bl dat).
Proof. intros. rewrite ReadWriteMultipleRegistersResponse_len_eq, ReadWriteMultipleRegistersResponse_len16 by side. reflexivity. Qed.
Lemma ReadServerIDResponse_len_model u st id add isnil : (length id <= 255)%nat -> (length add <= 255)%nat -> (isnil = true -> add = []) -> g_ReadServerIDResponse_len u st id add isnil = resp_len16 (PSrvId u st id add).
Proof. intros. rewrite ReadServerIDResponse_len_eq, ReadServerIDResponse_len16 by side. reflexivity. Qed.

(* ====================================================================================== *)
(* coil helpers                                                                             *)
(* ====================================================================================== *)
(* ---------- isBitSet ---------- *)
Lemma land_pow2 b m : N.land b (2 ^ m) = if N.testbit b m then 2 ^ m else 0.
Proof.
  apply N.bits_inj. intros k. rewrite N.land_spec, N.pow2_bits_eqb.
  destruct (N.eqb_spec m k) as [->|Hne].
  - rewrite andb_true_r. destruct (N.testbit b k) eqn:E.
    + rewrite N.pow2_bits_true. reflexivity.
    + rewrite N.bits_0. reflexivity.
  - rewrite andb_false_r. destruct (N.testbit b m).
    + rewrite N.pow2_bits_false by congruence. reflexivity.
    + rewrite N.bits_0. reflexivity.
Qed.
Lemma bit_test b m : m < 8 -> negb (N.land b (shl8 1 m) =? 0) = N.testbit b m.
Proof.
  intros H. unfold shl8, u8. rewrite N.shiftl_1_l.
  assert (H2 : 2 ^ m < 256). { change 256 with (2 ^ 8). apply N.pow_lt_mono_r; lia. }
  rewrite N.mod_small by exact H2. rewrite land_pow2.
  assert (H3 : 2 ^ m <> 0) by (apply N.pow_nonzero; lia).
  destruct (N.testbit b m); [|reflexivity].
  destruct (N.eqb_spec (2 ^ m) 0); [contradiction|reflexivity].
Qed.


Lemma isBitSet_eq d s b : g_isBitSet d s b = bit_res (is_bit_set (vis d) s b).
Proof.
  unfold g_isBitSet, is_bit_set, bit_res, zlen. fold (slen d). cbv zeta.
  repeat gstep; try reflexivity.
  f_equal. rewrite bit_test by lia. f_equal.
  match goal with Hn : nth_error _ ?i = Some ?x |- _ =>
    rewrite <- (nth_error_nth (vis d) i 0 Hn); f_equal; lia end.
Qed.

(* ---------- CoilsToBytes ---------- *)
Lemma upd_update (l : list N) k v : upd l k v = update l k v.
Proof. revert k. induction l as [|x l IH]; intros [|k]; cbn; try reflexivity. f_equal. apply IH. Qed.

Lemma lget_ok {E A} (l : list A) i x : (0 <= i)%Z -> nth_error l (Z.to_nat i) = Some x -> @lget E A l i = Ok x.
Proof. intros H Hn. unfold lget. replace (i <? 0)%Z with false by lia. rewrite Hn. reflexivity. Qed.

Lemma nth_error_nth0 (l : list N) k : (k < length l)%nat -> nth_error l k = Some (nth k l 0).
Proof. revert k. induction l as [|x l IH]; intros [|k] H; cbn in *; try lia; [reflexivity|]. apply IH. lia. Qed.

(* the loop: after the first [length done] coils, the remaining ones are folded exactly as set_bits does *)
Lemma coils_loop (coils : list bool) :
  forall rest done acc,
    coils = done ++ rest ->
    (length done + length rest <= 8 * length acc)%nat ->
    mfold (E := perr)
      (fun v_result_2 v_i =>
         let v_bit := Z.rem v_i 8 in
         let v_nthByte := Z.quot v_i 8 in
         let* t2 := lget coils v_i in
         let* v_result_4 :=
           (if t2 : bool
            then let* t3 := lget v_result_2 v_nthByte in
                 let* t4 := zshl8 1 v_bit in
                 let v_v := N.lor t3 t4 in
                 let* v_result_3 := lset v_result_2 v_nthByte v_v in Ok v_result_3
            else Ok v_result_2) in
         Ok v_result_4)
      (Z.of_nat (length done)) (length rest) acc
    = Ok (set_bits rest (length done) acc).
Proof.
  induction rest as [|c r IH]; intros done acc Hc Hlen; [reflexivity|].
  cbn [mfold set_bits length] in *. cbv zeta.
  rewrite (lget_ok coils (Z.of_nat (length done)) c) by
    (try lia; rewrite Nat2Z.id, Hc, nth_error_app2, Nat.sub_diag by lia; reflexivity).
  cbn [bind].
  assert (Hq : Z.quot (Z.of_nat (length done)) 8 = Z.of_nat (length done / 8)) by lia.
  assert (Hr : Z.rem (Z.of_nat (length done)) 8 = Z.of_nat (length done mod 8)) by lia.
  assert (Hin : (length done / 8 < length acc)%nat) by lia.
  rewrite Hq, Hr.
  replace (Z.of_nat (length done) + 1)%Z with (Z.of_nat (length (done ++ [c]))) by (rewrite app_length; cbn; lia).
  replace (S (length done)) with (length (done ++ [c])) by (rewrite app_length; cbn; lia).
  destruct c.
  - rewrite (lget_ok acc (Z.of_nat (length done / 8)) (nth (length done / 8) acc 0)) by
      (try lia; rewrite Nat2Z.id; apply nth_error_nth0; exact Hin).
    cbn [bind]. unfold zshl8. replace (Z.of_nat (length done mod 8) <? 0)%Z with false by lia. cbn [bind].
    unfold lset, llen. replace ((Z.of_nat (length done / 8) <? 0) || (Z.of_nat (length acc) <=? Z.of_nat (length done / 8)))%Z with false by lia.
    cbn [bind]. rewrite Nat2Z.id, upd_update.
    replace (shl8 1 (Z.to_N (Z.of_nat (length done mod 8)))) with (N.shiftl 1 (N.of_nat (length done mod 8))).
    + apply IH.
      * rewrite <- app_assoc. exact Hc.
      * rewrite app_length, <- upd_update, upd_length. cbn [length] in *. lia.
    + unfold shl8, u8. replace (Z.to_N (Z.of_nat (length done mod 8))) with (N.of_nat (length done mod 8)) by lia.
      rewrite N.shiftl_1_l. symmetry. apply N.mod_small. change 256 with (2 ^ 8). apply N.pow_lt_mono_r; lia.
  - cbn [bind]. apply IH.
    + rewrite <- app_assoc. exact Hc.
    + rewrite app_length. cbn [length] in *. lia.
Qed.

Lemma CoilsToBytes_eq coils : g_CoilsToBytes coils = Ok (coils_to_bytes coils).
Proof.
  unfold g_CoilsToBytes, coils_to_bytes, byte_count, llen. cbv zeta.
  set (n := length coils).
  assert (Hcnt : forall b : bool, b = negb (Z.rem (Z.of_nat n) 8 =? 0)%Z ->
     (if b then Ok (Z.quot (Z.of_nat n) 8 + 1)%Z else @Ok perr Z (Z.quot (Z.of_nat n) 8))
     = Ok (Z.of_nat (n / 8 + (if (n mod 8 =? 0)%nat then 0 else 1)))).
  { intros b ->. destruct (Z.rem (Z.of_nat n) 8 =? 0)%Z eqn:E1; destruct (n mod 8 =? 0)%nat eqn:E2; cbn [negb]; f_equal; lia. }
  rewrite (Hcnt _ eq_refl). cbn [bind].
  rewrite zmake_nat by lia. cbn [bind]. rewrite Nat2Z.id.
  unfold zfor. replace (Z.to_nat (Z.of_nat n - 0)) with (length coils) by (unfold n; lia).
  pose proof (coils_loop coils coils [] (repeat 0 (n / 8 + (if (n mod 8 =? 0)%nat then 0 else 1))) eq_refl) as L.
  cbn [length Z.of_nat] in L. rewrite L; [reflexivity|].
  rewrite repeat_length. fold n. destruct (n mod 8 =? 0)%nat eqn:E; lia.
Qed.
