(* ClientProofs.v -- the read loop of ClientModel.v, one iteration at a time, and the two lemmas every
   client property is built from:

     loop_continue   while the bytes received stay below the stop threshold, are not recognised as an
                     exception frame and fit the frame limit, a script of data reads with any number
                     of empty timed-out reads in between only accumulates;
     loop_stop       ... and the read that reaches the threshold ends the loop with exactly the bytes
                     received so far.

   Nothing here depends on a particular request type: the threshold [e] is a variable. *)
From Coq Require Import ZifyBool ZifyN ZifyNat.
Require Import MB.GoSem MB.CrcModel MB.PacketModel MB.ClientModel.
Open Scope N_scope.
Ltac Zify.zify_post_hook ::= Z.div_mod_to_equations.

(* ---------- scripts that deliver chunks ---------- *)
Definition quiet : step :=
  {| s_ctx := false; s_deadline := false; s_timer := false; s_pick := false; s_rd := RTimeout [] |}.
(* a read that returns the chunk [b]: with a nil error, or ([late]) together with
   os.ErrDeadlineExceeded -- both are allowed by io.Reader *)
Definition rd_of (late : bool) (b : list N) : rd := if late then RTimeout b else RData b.
Definition cls_of (late : bool) : N := if late then 1 else 0.
Definition deliver (late : bool) (b : list N) : step :=
  {| s_ctx := false; s_deadline := false; s_timer := false; s_pick := false; s_rd := rd_of late b |}.
(* a segmentation: each chunk (w, late, b) is preceded by [w] empty reads that end with the read
   deadline, and is itself returned with a nil error or with the deadline error *)
Definition chunk := (nat * bool * list N)%type.
Fixpoint script_of (chunks : list chunk) : list step :=
  match chunks with
  | [] => []
  | (w, late, b) :: r => repeat quiet w ++ deliver late b :: script_of r
  end.
Definition payload (chunks : list chunk) : list N := concat (map snd chunks).

(* what one transport read leaves in the trace *)
Definition read_ev (cfg : config) (chunk : list N) (cls : N) : list ev :=
  TRead chunk cls :: hk cfg (HAfterRead chunk (length chunk) cls).
Fixpoint quiet_trace (cfg : config) (w : nat) : list ev :=
  match w with O => [] | S n => read_ev cfg [] 1 ++ quiet_trace cfg n end.
Fixpoint reads_trace (cfg : config) (chunks : list chunk) : list ev :=
  match chunks with
  | [] => []
  | (w, late, b) :: r => quiet_trace cfg w ++ read_ev cfg b (cls_of late) ++ reads_trace cfg r
  end.

Lemma payload_cons w d b r : payload ((w, d, b) :: r) = b ++ payload r.
Proof. reflexivity. Qed.
Lemma payload_app a b : payload (a ++ b) = payload a ++ payload b.
Proof. unfold payload. rewrite map_app, concat_app. reflexivity. Qed.
Lemma script_of_app a b : script_of (a ++ b) = script_of a ++ script_of b.
Proof.
  induction a as [|[[w d] c] a IH]; [reflexivity|]. cbn [app script_of]. rewrite IH, <- app_assoc. reflexivity.
Qed.
Lemma reads_trace_app cfg a b : reads_trace cfg (a ++ b) = reads_trace cfg a ++ reads_trace cfg b.
Proof.
  induction a as [|[[w d] c] a IH]; [reflexivity|]. cbn [app reads_trace]. rewrite IH, <- !app_assoc. reflexivity.
Qed.

(* ---------- with_trace ---------- *)
Lemma with_trace_fst {A} t (x : A * list ev) : fst (with_trace t x) = fst x.
Proof. reflexivity. Qed.
Lemma with_trace_snd {A} t (x : A * list ev) : snd (with_trace t x) = t ++ snd x.
Proof. reflexivity. Qed.
Lemma with_trace_nil {A} (x : A * list ev) : with_trace [] x = x.
Proof. destruct x. reflexivity. Qed.
Lemma with_trace_app {A} t1 t2 (x : A * list ev) : with_trace t1 (with_trace t2 x) = with_trace (t1 ++ t2) x.
Proof. unfold with_trace. cbn [fst snd]. rewrite app_assoc. reflexivity. Qed.
Lemma with_trace_pair {A} t (a : A) u : with_trace t (a, u) = (a, t ++ u).
Proof. reflexivity. Qed.

Section LoopFacts.
Variable cfg : config.
Variable sc : script.
Variable e : nat.
Let k := c_kind cfg.

(* the state in which the loop goes round once more: below the threshold, within the frame limit,
   not an exception frame *)
Definition alive (acc : list N) : Prop :=
  (length acc < e)%nat /\ (length acc <= max_len k)%nat /\ recognise k (window k acc) = RNone.

Lemma loop_nil acc : loop cfg sc e [] acc = (DOutOfScript, []).
Proof. reflexivity. Qed.

Lemma max_le_buf : (max_len k <= buf_size k)%nat.
Proof. unfold buf_size. lia. Qed.

Lemma delivered_data acc d b : (length (acc ++ b) <= max_len k)%nat ->
  delivered k acc (rd_of d b) = (b, cls_of d).
Proof.
  intros H. unfold delivered, rd_of, cls_of.
  assert (X : (length b <= buf_size k - length acc)%nat).
  { rewrite app_length in H. pose proof max_le_buf. lia. }
  destruct d; rewrite (firstn_all2 _ X); reflexivity.
Qed.
Lemma cls_of_3 d : (cls_of d =? 3) = false. Proof. destruct d; reflexivity. Qed.
Lemma cls_of_2 d : (cls_of d =? 2) = false. Proof. destruct d; reflexivity. Qed.

(* one empty timed-out read *)
Lemma loop_quiet rest acc : alive acc ->
  loop cfg sc e (quiet :: rest) acc = with_trace (read_ev cfg [] 1) (loop cfg sc e rest acc).
Proof.
  intros (He & Hm & Hr). cbn [loop quiet s_ctx s_timer s_pick s_rd andb orb negb delivered fst snd].
  fold k. rewrite firstn_nil. unfold read_ev. f_equal.
  change (1 =? 3) with false. cbn iota.
  rewrite app_nil_r.
  replace (max_len k <? length acc)%nat with false by lia.
  rewrite Hr.
  replace (e <=? length acc)%nat with false by lia.
  change (1 =? 2) with false. reflexivity.
Qed.

Lemma loop_quiets w : forall rest acc, alive acc ->
  loop cfg sc e (repeat quiet w ++ rest) acc = with_trace (quiet_trace cfg w) (loop cfg sc e rest acc).
Proof.
  induction w as [|w IH]; intros rest acc H.
  - cbn [repeat app quiet_trace]. rewrite with_trace_nil. reflexivity.
  - cbn [repeat app quiet_trace]. rewrite loop_quiet by exact H. rewrite IH by exact H.
    rewrite with_trace_app. reflexivity.
Qed.

(* a data read after which the loop goes on *)
Lemma loop_data_continue d b rest acc : alive (acc ++ b) ->
  loop cfg sc e (deliver d b :: rest) acc = with_trace (read_ev cfg b (cls_of d)) (loop cfg sc e rest (acc ++ b)).
Proof.
  intros (He & Hm & Hr). cbn [loop deliver s_ctx s_timer s_pick s_rd andb orb negb]. fold k.
  rewrite delivered_data by exact Hm. cbn [fst snd]. unfold read_ev. f_equal.
  rewrite cls_of_3.
  replace (max_len k <? length (acc ++ b))%nat with false by lia.
  rewrite Hr.
  replace (e <=? length (acc ++ b))%nat with false by lia.
  rewrite cls_of_2. reflexivity.
Qed.

(* the data read that reaches the threshold *)
Lemma loop_data_stop d b rest acc :
  (e <= length (acc ++ b))%nat -> (length (acc ++ b) <= max_len k)%nat ->
  recognise k (window k (acc ++ b)) = RNone ->
  loop cfg sc e (deliver d b :: rest) acc = with_trace (read_ev cfg b (cls_of d)) (flush_then cfg sc (finish (acc ++ b))).
Proof.
  intros He Hm Hr. cbn [loop deliver s_ctx s_timer s_pick s_rd andb orb negb]. fold k.
  rewrite delivered_data by exact Hm. cbn [fst snd]. unfold read_ev. f_equal.
  rewrite cls_of_3.
  replace (max_len k <? length (acc ++ b))%nat with false by lia.
  rewrite Hr.
  replace (e <=? length (acc ++ b))%nat with true by lia. reflexivity.
Qed.

(* the data read that completes an exception frame *)
Lemma loop_data_exc d b rest acc x :
  (length (acc ++ b) <= max_len k)%nat ->
  recognise k (window k (acc ++ b)) = RExc x ->
  loop cfg sc e (deliver d b :: rest) acc = with_trace (read_ev cfg b (cls_of d)) (flush_then cfg sc (DFail (CExc x))).
Proof.
  intros Hm Hr. cbn [loop deliver s_ctx s_timer s_pick s_rd andb orb negb]. fold k.
  rewrite delivered_data by exact Hm. cbn [fst snd]. unfold read_ev. f_equal.
  rewrite cls_of_3.
  replace (max_len k <? length (acc ++ b))%nat with false by lia.
  rewrite Hr. reflexivity.
Qed.

(* every boundary strictly inside [chunks] (and the start) is a state in which the loop goes on *)
Definition alive_inside (acc : list N) (chunks : list chunk) : Prop :=
  forall pre post, chunks = pre ++ post -> post <> [] -> alive (acc ++ payload pre).
Definition alive_through (acc : list N) (chunks : list chunk) : Prop :=
  forall pre post, chunks = pre ++ post -> alive (acc ++ payload pre).

Lemma alive_inside_tail acc w d b r :
  alive_inside acc ((w, d, b) :: r) -> alive_inside (acc ++ b) r.
Proof.
  intros H pre post Hs Hp. specialize (H ((w, d, b) :: pre) post).
  rewrite payload_cons, app_assoc in H. apply H; [rewrite Hs; reflexivity|exact Hp].
Qed.
Lemma alive_through_tail acc w d b r :
  alive_through acc ((w, d, b) :: r) -> alive_through (acc ++ b) r.
Proof.
  intros H pre post Hs. specialize (H ((w, d, b) :: pre) post).
  rewrite payload_cons, app_assoc in H. apply H. rewrite Hs. reflexivity.
Qed.
Lemma alive_inside_head acc c r : alive_inside acc (c :: r) -> alive acc.
Proof.
  intros H. specialize (H [] (c :: r) eq_refl). cbn in H. rewrite app_nil_r in H. apply H. discriminate.
Qed.
Lemma alive_through_head acc chunks : alive_through acc chunks -> alive acc.
Proof.
  intros H. specialize (H [] chunks eq_refl). cbn in H. rewrite app_nil_r in H. exact H.
Qed.
Lemma alive_through_inside acc chunks : alive_through acc chunks -> alive_inside acc chunks.
Proof. intros H pre post Hs _. exact (H pre post Hs). Qed.

(* CONTINUE: the script only accumulates *)
Lemma loop_continue : forall chunks rest acc,
  alive_through acc chunks ->
  loop cfg sc e (script_of chunks ++ rest) acc
  = with_trace (reads_trace cfg chunks) (loop cfg sc e rest (acc ++ payload chunks)).
Proof.
  induction chunks as [|[[w d] b] chunks IH]; intros rest acc H.
  - cbn [script_of app reads_trace payload map concat]. rewrite app_nil_r, with_trace_nil. reflexivity.
  - cbn [script_of reads_trace]. rewrite <- app_assoc. cbn [app].
    rewrite loop_quiets by (apply (alive_through_head _ _ H)).
    pose proof (alive_through_tail _ _ _ _ _ H) as Ht.
    rewrite loop_data_continue by (apply (alive_through_head _ _ Ht)).
    rewrite IH by exact Ht.
    rewrite !with_trace_app, payload_cons, <- !app_assoc. reflexivity.
Qed.

(* STOP: the last chunk reaches the threshold *)
Lemma loop_stop : forall chunks rest acc,
  chunks <> [] ->
  alive_inside acc chunks ->
  (e <= length (acc ++ payload chunks))%nat -> (length (acc ++ payload chunks) <= max_len k)%nat ->
  recognise k (window k (acc ++ payload chunks)) = RNone ->
  loop cfg sc e (script_of chunks ++ rest) acc
  = with_trace (reads_trace cfg chunks) (flush_then cfg sc (finish (acc ++ payload chunks))).
Proof.
  induction chunks as [|[[w d] b] chunks IH]; intros rest acc Hne H He Hm Hr; [congruence|].
  cbn [script_of reads_trace]. rewrite <- app_assoc. cbn [app].
  rewrite loop_quiets by (apply (alive_inside_head _ _ _ H)).
  destruct chunks as [|c chunks].
  - cbn [script_of app reads_trace]. rewrite payload_cons in *. cbn [payload map concat] in *.
    rewrite app_nil_r in *.
    rewrite loop_data_stop by assumption.
    rewrite with_trace_app, ?app_nil_r. reflexivity.
  - pose proof (alive_inside_tail _ _ _ _ _ H) as Ht.
    rewrite loop_data_continue by (apply (alive_inside_head _ _ _ Ht)).
    rewrite payload_cons, app_assoc in He, Hm, Hr.
    rewrite IH; [|discriminate|exact Ht|exact He|exact Hm|exact Hr].
    rewrite !with_trace_app, payload_cons, <- !app_assoc. reflexivity.
Qed.

(* EXCEPTION: the last chunk completes an exception frame *)
Lemma loop_exception : forall chunks rest acc x,
  chunks <> [] ->
  alive_inside acc chunks ->
  (length (acc ++ payload chunks) <= max_len k)%nat ->
  recognise k (window k (acc ++ payload chunks)) = RExc x ->
  loop cfg sc e (script_of chunks ++ rest) acc
  = with_trace (reads_trace cfg chunks) (flush_then cfg sc (DFail (CExc x))).
Proof.
  induction chunks as [|[[w d] b] chunks IH]; intros rest acc x Hne H Hm Hr; [congruence|].
  cbn [script_of reads_trace]. rewrite <- app_assoc. cbn [app].
  rewrite loop_quiets by (apply (alive_inside_head _ _ _ H)).
  destruct chunks as [|c chunks].
  - cbn [script_of app reads_trace]. rewrite payload_cons in *. cbn [payload map concat] in *.
    rewrite app_nil_r in *.
    rewrite (loop_data_exc _ _ _ _ x) by assumption.
    rewrite with_trace_app, ?app_nil_r. reflexivity.
  - pose proof (alive_inside_tail _ _ _ _ _ H) as Ht.
    rewrite loop_data_continue by (apply (alive_inside_head _ _ _ Ht)).
    rewrite payload_cons, app_assoc in Hm, Hr.
    rewrite (IH _ _ x); [|discriminate|exact Ht|exact Hm|exact Hr].
    rewrite !with_trace_app, <- !app_assoc. reflexivity.
Qed.
End LoopFacts.
