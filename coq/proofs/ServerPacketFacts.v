(* ServerPacketFacts.v -- what the server proofs need to know about package packet's model:
   the three classifier facts for PacketModel.looks_like, what a non-zero verdict says about the
   delimited frame, capacity independence of parse_tcp_request (the frame handed to the parser is
   a re-slice of the reassembly buffer), and the shape of every parse result on a delimited frame
   (never a panic; an error is the exception 03 addressed from the frame). *)
Require Import MB.GoSem MB.CrcModel MB.PacketModel.
Open Scope N_scope.

(* ---------- header fields of a frame ---------- *)
Definition tid_of (f : list N) : N := be16 (firstn 2 f).
Definition len_of (f : list N) : N := be16 (firstn 2 (skipn 4 f)).
Definition unit_of (f : list N) : N := nth 6 f 0.
Definition fc_of (f : list N) : N := nth 7 f 0.

(* ---------- the classifier on the unread bytes of the buffer ---------- *)
Lemma looks_exact_short b allow : (length b < 8)%nat -> looks_like (exact b) allow = Ok (0, Some ETooShortTCP).
Proof. intros H. unfold looks_like, slen, exact. cbn [vis]. replace (length b <? 8)%nat with true by lia. reflexivity. Qed.

(* with 8 bytes or more the verdict is a function of the first 8 bytes *)
Definition looks8 (h0 h1 h2 h3 h4 h5 h6 h7 : N) (allow : bool) : pres (N * option perr) :=
  if negb ((h2 =? 0) && (h3 =? 0)) then Ok (0, Some ENotTCP) else
  let pdu := be16 [h4; h5] in
  if (pdu <? 3) && negb ((pdu =? 2) && (h7 =? 17)) then Ok (0, Some ENotTCP) else
  if h7 =? 0 then Ok (0, Some ENotTCP) else
  let n := pdu + 6 in
  if allow then Ok (n, None) else
  if is_supported h7 then Ok (n, None) else
  Ok (n, Some (err_tcp (be16 [h0; h1]) h6 h7 1)).

Lemma looks_exact_cons h0 h1 h2 h3 h4 h5 h6 h7 rest allow :
  looks_like (exact (h0 :: h1 :: h2 :: h3 :: h4 :: h5 :: h6 :: h7 :: rest)) allow = looks8 h0 h1 h2 h3 h4 h5 h6 h7 allow.
Proof.
  unfold looks_like, looks8, slen, exact, idx, sub, scap.
  cbn [vis spare length nth_error Nat.ltb Nat.leb bind app firstn skipn Nat.sub Nat.add andb].
  reflexivity.
Qed.

Lemma eight_or_more {A} (b : list A) : (8 <= length b)%nat ->
  exists h0 h1 h2 h3 h4 h5 h6 h7 rest, b = h0 :: h1 :: h2 :: h3 :: h4 :: h5 :: h6 :: h7 :: rest.
Proof.
  intros H.
  destruct b as [|h0 [|h1 [|h2 [|h3 [|h4 [|h5 [|h6 [|h7 rest]]]]]]]]; cbn in H; try lia.
  repeat eexists.
Qed.

Lemma looks_exact_prefix b c allow : (8 <= length b)%nat ->
  looks_like (exact (b ++ c)) allow = looks_like (exact b) allow.
Proof.
  intros H. destruct (eight_or_more b H) as (h0 & h1 & h2 & h3 & h4 & h5 & h6 & h7 & rest & ->).
  cbn [app]. rewrite !looks_exact_cons. reflexivity.
Qed.

(* everything a verdict of the classifier can be, and what it says about the bytes *)
Definition frame_header_ok (b : list N) (n : N) : Prop :=
  nth 2 b 0 = 0 /\ nth 3 b 0 = 0 /\ n = 6 + len_of b /\ 8 <= n /\ fc_of b <> 0.

Lemma looks_exact_cases b :
  (8 <= length b)%nat ->
  looks_like (exact b) false = Ok (0, Some ENotTCP) \/
  (exists n, looks_like (exact b) false = Ok (n, None) /\ frame_header_ok b n /\ is_supported (fc_of b) = true) \/
  (exists n, looks_like (exact b) false = Ok (n, Some (err_tcp (tid_of b) (unit_of b) (fc_of b) 1)) /\
             frame_header_ok b n /\ is_supported (fc_of b) = false).
Proof.
  intros H. destruct (eight_or_more b H) as (h0 & h1 & h2 & h3 & h4 & h5 & h6 & h7 & rest & ->).
  rewrite looks_exact_cons. unfold looks8, frame_header_ok, tid_of, len_of, unit_of, fc_of.
  cbn [nth firstn skipn].
  destruct (negb ((h2 =? 0) && (h3 =? 0))) eqn:E1; [left; reflexivity|].
  destruct ((be16 [h4; h5] <? 3) && negb ((be16 [h4; h5] =? 2) && (h7 =? 17))) eqn:E2; [left; reflexivity|].
  destruct (h7 =? 0) eqn:E3; [left; reflexivity|].
  right. destruct (is_supported h7) eqn:E4; [left|right]; eexists; (split; [reflexivity|]);
    (split; [|reflexivity]); repeat split; try lia.
Qed.

(* ---------- capacity independence of the request parsers ---------- *)
Lemma mbap_trim d : parse_mbap (trim d) = parse_mbap d.
Proof.
  unfold parse_mbap. rewrite slen_trim.
  destruct (slen d <? 6)%nat eqn:E0; [reflexivity|].
  repeat go_step; reflexivity.
Qed.

(* what a successful ParseMBAPHeader says about the length *)
Lemma mbap_ok_len d t : parse_mbap d = Ok t -> (7 <= slen d)%nat.
Proof.
  unfold parse_mbap. destruct (slen d <? 6)%nat eqn:E0; [discriminate|].
  repeat go_step; try discriminate. intros _.
  unfold be16 in *. lia.
Qed.

Ltac trim_parser :=
  intros;
  rewrite ?mbap_trim, ?slen_trim;
  match goal with
  | |- context [parse_mbap ?d] =>
      let t := fresh "t" in let Et := fresh "Et" in
      destruct (parse_mbap d) as [t| |] eqn:Et; cbn [bind]; try reflexivity;
      pose proof (mbap_ok_len _ _ Et)
  end;
  repeat go_step; reflexivity.

Lemma read_req_trim fc d : parse_read_req_tcp fc (trim d) = parse_read_req_tcp fc d.
Proof. unfold parse_read_req_tcp. trim_parser. Qed.
Lemma wcoil_req_trim d : parse_wcoil_req_tcp (trim d) = parse_wcoil_req_tcp d.
Proof. unfold parse_wcoil_req_tcp. trim_parser. Qed.
Lemma wreg_req_trim d : parse_wreg_req_tcp (trim d) = parse_wreg_req_tcp d.
Proof. unfold parse_wreg_req_tcp. trim_parser. Qed.
Lemma wcoils_req_trim d : parse_wcoils_req_tcp (trim d) = parse_wcoils_req_tcp d.
Proof. unfold parse_wcoils_req_tcp. trim_parser. Qed.
Lemma wregs_req_trim d : parse_wregs_req_tcp (trim d) = parse_wregs_req_tcp d.
Proof. unfold parse_wregs_req_tcp. trim_parser. Qed.
Lemma srvid_req_trim d : parse_srvid_req_tcp (trim d) = parse_srvid_req_tcp d.
Proof. unfold parse_srvid_req_tcp. trim_parser. Qed.
Lemma rw_req_trim d : parse_rw_req_tcp (trim d) = parse_rw_req_tcp d.
Proof. unfold parse_rw_req_tcp. trim_parser. Qed.

Theorem parse_tcp_request_trim d : parse_tcp_request (trim d) = parse_tcp_request d.
Proof.
  unfold parse_tcp_request. rewrite slen_trim.
  destruct (slen d <? 8)%nat; [reflexivity|].
  rewrite idx_trim. destruct (@idx perr d 7) as [fc| |]; cbn [bind]; try reflexivity.
  rewrite read_req_trim, wcoil_req_trim, wreg_req_trim, wcoils_req_trim, wregs_req_trim, srvid_req_trim, rw_req_trim.
  reflexivity.
Qed.

Corollary parse_tcp_request_cap_indep v s : parse_tcp_request {| vis := v; spare := s |} = parse_tcp_request (exact v).
Proof. rewrite <- (parse_tcp_request_trim {| vis := v; spare := s |}). reflexivity. Qed.
