(* ServerPacketFacts.v -- what the server proofs need to know about package packet's model:
   the three classifier facts for PacketModel.looks_like, what a non-zero verdict says about the
   delimited frame, capacity independence of parse_tcp_request (the frame handed to the parser is
   a re-slice of the reassembly buffer), and the shape of every parse result on a delimited frame
   (never a panic; an error is the exception 03 addressed from the frame). *)
Require Import MB.GoSem MB.CrcModel MB.PacketModel.
Open Scope N_scope.

(* ---------- header fields of a frame ---------- *)
Definition tid_of (f : list N) : N := be16 (firstn 2 f).
Definition len_of (f : list N) : N := be16 (firstn 2 (skipn 4 f)).
Definition unit_of (f : list N) : N := nth 6 f 0.
Definition fc_of (f : list N) : N := nth 7 f 0.

(* ---------- the classifier on the unread bytes of the buffer ---------- *)
Lemma looks_exact_short b allow : (length b < 8)%nat -> looks_like (exact b) allow = Ok (0, Some ETooShortTCP).
Proof. intros H. unfold looks_like, slen, exact. cbn [vis]. replace (length b <? 8)%nat with true by lia. reflexivity. Qed.

(* with 8 bytes or more the verdict is a function of the first 8 bytes *)
Definition looks8 (h0 h1 h2 h3 h4 h5 h6 h7 : N) (allow : bool) : pres (N * option perr) :=
  if negb ((h2 =? 0) && (h3 =? 0)) then Ok (0, Some ENotTCP) else
  let pdu := be16 [h4; h5] in
  if (pdu <? 3) && negb ((pdu =? 2) && (h7 =? 17)) then Ok (0, Some ENotTCP) else
  if h7 =? 0 then Ok (0, Some ENotTCP) else
  let n := pdu + 6 in
  if allow then Ok (n, None) else
  if is_supported h7 then Ok (n, None) else
  Ok (n, Some (err_tcp (be16 [h0; h1]) h6 h7 1)).

Lemma looks_exact_cons h0 h1 h2 h3 h4 h5 h6 h7 rest allow :
  looks_like (exact (h0 :: h1 :: h2 :: h3 :: h4 :: h5 :: h6 :: h7 :: rest)) allow = looks8 h0 h1 h2 h3 h4 h5 h6 h7 allow.
Proof.
  unfold looks_like, looks8, slen, exact, idx, sub, scap.
  cbn [vis spare length nth_error Nat.ltb Nat.leb bind app firstn skipn Nat.sub Nat.add andb].
  reflexivity.
Qed.

Lemma eight_or_more {A} (b : list A) : (8 <= length b)%nat ->
  exists h0 h1 h2 h3 h4 h5 h6 h7 rest, b = h0 :: h1 :: h2 :: h3 :: h4 :: h5 :: h6 :: h7 :: rest.
Proof.
  intros H.
  destruct b as [|h0 [|h1 [|h2 [|h3 [|h4 [|h5 [|h6 [|h7 rest]]]]]]]]; cbn in H; try lia.
  repeat eexists.
Qed.

Lemma looks_exact_prefix b c allow : (8 <= length b)%nat ->
  looks_like (exact (b ++ c)) allow = looks_like (exact b) allow.
Proof.
  intros H. destruct (eight_or_more b H) as (h0 & h1 & h2 & h3 & h4 & h5 & h6 & h7 & rest & ->).
  cbn [app]. rewrite !looks_exact_cons. reflexivity.
Qed.

(* everything a verdict of the classifier can be, and what it says about the bytes *)
Definition frame_header_ok (b : list N) (n : N) : Prop :=
  nth 2 b 0 = 0 /\ nth 3 b 0 = 0 /\ n = 6 + len_of b /\ 8 <= n /\ fc_of b <> 0.

Lemma looks_exact_cases b :
  (8 <= length b)%nat ->
  looks_like (exact b) false = Ok (0, Some ENotTCP) \/
  (exists n, looks_like (exact b) false = Ok (n, None) /\ frame_header_ok b n /\ is_supported (fc_of b) = true) \/
  (exists n, looks_like (exact b) false = Ok (n, Some (err_tcp (tid_of b) (unit_of b) (fc_of b) 1)) /\
             frame_header_ok b n /\ is_supported (fc_of b) = false).
Proof.
  intros H. destruct (eight_or_more b H) as (h0 & h1 & h2 & h3 & h4 & h5 & h6 & h7 & rest & ->).
  rewrite looks_exact_cons. unfold looks8, frame_header_ok, tid_of, len_of, unit_of, fc_of.
  cbn [nth firstn skipn].
  destruct (negb ((h2 =? 0) && (h3 =? 0))) eqn:E1; [left; reflexivity|].
  destruct ((be16 [h4; h5] <? 3) && negb ((be16 [h4; h5] =? 2) && (h7 =? 17))) eqn:E2; [left; reflexivity|].
  destruct (h7 =? 0) eqn:E3; [left; reflexivity|].
  right. destruct (is_supported h7) eqn:E4; [left|right]; eexists; (split; [reflexivity|]);
    (split; [|reflexivity]); repeat split; try lia.
Qed.

(* ---------- capacity independence of the request parsers ---------- *)
Lemma mbap_trim d : parse_mbap (trim d) = parse_mbap d.
Proof.
  unfold parse_mbap. rewrite slen_trim.
  destruct (slen d <? 6)%nat eqn:E0; [reflexivity|].
  repeat go_step; reflexivity.
Qed.

(* what a successful ParseMBAPHeader says about the length *)
Lemma mbap_ok_len d t : parse_mbap d = Ok t -> (7 <= slen d)%nat.
Proof.
  unfold parse_mbap. destruct (slen d <? 6)%nat eqn:E0; [discriminate|].
  repeat go_step; try discriminate. intros _.
  unfold be16 in *. lia.
Qed.

Ltac trim_parser :=
  intros;
  rewrite ?mbap_trim, ?slen_trim;
  match goal with
  | |- context [parse_mbap ?d] =>
      let t := fresh "t" in let Et := fresh "Et" in
      destruct (parse_mbap d) as [t| |] eqn:Et; cbn [bind]; try reflexivity;
      pose proof (mbap_ok_len _ _ Et)
  end;
  repeat go_step; reflexivity.

Lemma read_req_trim fc d : parse_read_req_tcp fc (trim d) = parse_read_req_tcp fc d.
Proof. unfold parse_read_req_tcp. trim_parser. Qed.
Lemma wcoil_req_trim d : parse_wcoil_req_tcp (trim d) = parse_wcoil_req_tcp d.
Proof. unfold parse_wcoil_req_tcp. trim_parser. Qed.
Lemma wreg_req_trim d : parse_wreg_req_tcp (trim d) = parse_wreg_req_tcp d.
Proof. unfold parse_wreg_req_tcp. trim_parser. Qed.
Lemma wcoils_req_trim d : parse_wcoils_req_tcp (trim d) = parse_wcoils_req_tcp d.
Proof. unfold parse_wcoils_req_tcp. trim_parser. Qed.
Lemma wregs_req_trim d : parse_wregs_req_tcp (trim d) = parse_wregs_req_tcp d.
Proof. unfold parse_wregs_req_tcp. trim_parser. Qed.
Lemma srvid_req_trim d : parse_srvid_req_tcp (trim d) = parse_srvid_req_tcp d.
Proof. unfold parse_srvid_req_tcp. trim_parser. Qed.
Lemma rw_req_trim d : parse_rw_req_tcp (trim d) = parse_rw_req_tcp d.
Proof. unfold parse_rw_req_tcp. trim_parser. Qed.

Theorem parse_tcp_request_trim d : parse_tcp_request (trim d) = parse_tcp_request d.
Proof.
  unfold parse_tcp_request. rewrite slen_trim.
  destruct (slen d <? 8)%nat; [reflexivity|].
  rewrite idx_trim. destruct (@idx perr d 7) as [fc| |]; cbn [bind]; [|reflexivity|reflexivity].
  rewrite read_req_trim, wcoil_req_trim, wreg_req_trim, wcoils_req_trim, wregs_req_trim, srvid_req_trim, rw_req_trim.
  reflexivity.
Qed.

Corollary parse_tcp_request_cap_indep v s : parse_tcp_request {| vis := v; spare := s |} = parse_tcp_request (exact v).
Proof. rewrite <- (parse_tcp_request_trim {| vis := v; spare := s |}). reflexivity. Qed.

(* ---------- a frame delimited by the classifier ---------- *)
Definition delimited_frame (f : list N) : Prop :=
  (8 <= length f)%nat /\ nth 2 f 0 = 0 /\ nth 3 f 0 = 0 /\ N.of_nat (length f) = 6 + len_of f /\ fc_of f <> 0.

(* the frame m.received.Next(n) cuts off when the classifier said (n, _), n <> 0 *)
Lemma header_ok_frame b n :
  (8 <= length b)%nat -> frame_header_ok b n -> n <= N.of_nat (length b) ->
  let f := firstn (N.to_nat n) b in
  delimited_frame f /\ tid_of f = tid_of b /\ unit_of f = unit_of b /\ fc_of f = fc_of b /\
  looks_like (exact f) false = looks_like (exact b) false.
Proof.
  intros H8 (H2 & H3 & Hn & Hn8 & Hfc) Hle f.
  assert (Hlen : length f = N.to_nat n) by (unfold f; rewrite firstn_length; lia).
  assert (Hb : b = f ++ skipn (N.to_nat n) b) by (unfold f; rewrite firstn_skipn; reflexivity).
  assert (Hf8 : (8 <= length f)%nat) by lia.
  assert (Hlk : looks_like (exact f) false = looks_like (exact b) false).
  { transitivity (looks_like (exact (f ++ skipn (N.to_nat n) b)) false).
    - symmetry. apply looks_exact_prefix. exact Hf8.
    - f_equal. f_equal. symmetry. exact Hb. }
  destruct (eight_or_more f Hf8) as (h0 & h1 & h2 & h3 & h4 & h5 & h6 & h7 & rest & Ef).
  rewrite Ef in Hb. rewrite Hb in H2, H3, Hn, Hfc |- *.
  unfold delimited_frame, tid_of, len_of, unit_of, fc_of in *. rewrite Ef in *.
  cbn [app nth firstn skipn] in *.
  repeat split; try assumption; try reflexivity. lia.
Qed.

Lemma mbap_delimited f sp : delimited_frame f -> parse_mbap {| vis := f; spare := sp |} = Ok (tid_of f).
Proof.
  intros (H8 & H2 & H3 & Hl & _).
  destruct (eight_or_more f H8) as (h0 & h1 & h2 & h3 & h4 & h5 & h6 & h7 & rest & ->).
  unfold len_of, tid_of in *. cbn [nth firstn skipn length] in *. subst h2 h3.
  unfold parse_mbap, slen, idx, sub, scap.
  cbn [vis spare length nth_error Nat.ltb Nat.leb bind app firstn skipn Nat.sub Nat.add andb negb orb N.eqb].
  destruct (be16 [h4; h5] =? 0) eqn:E1; [unfold be16 in *; lia|].
  match goal with |- context [if negb ?c then _ else _] => destruct c eqn:E2 end; cbn [negb]; [reflexivity|].
  exfalso. unfold be16 in *. lia.
Qed.

(* every result of the request dispatcher on a delimited frame of a supported function: never a
   panic; a request carries the frame's transaction id, unit id and function; an error is the
   exception 03 addressed from the frame *)
Definition parse_shape (f : list N) (x : pres (N * req)) : Prop :=
  match x with
  | Ok (t, r) => t = tid_of f /\ req_unit r = unit_of f /\ req_fc r = fc_of f
  | Err e => e = err_tcp (tid_of f) (unit_of f) (fc_of f) 3
  | Panic => False
  end.

Ltac nth_facts :=
  repeat match goal with
  | H : nth_error (vis _) _ = Some _ |- _ => apply (fun l n x => nth_error_nth l n (x:=x) 0) in H; cbn [vis] in H
  end.
Ltac shape_fin dd :=
  subst dd; nth_facts; unfold parse_shape, unit_of, fc_of in *; cbn [bind]; cbn [req_unit req_fc];
  first [ exfalso; lia
        | repeat split; first [congruence | lia]
        | f_equal; first [congruence | lia] ].
Ltac shape_parser f sp :=
  rewrite mbap_delimited by assumption; cbn [bind];
  match goal with Hd : delimited_frame f |- _ => pose proof Hd as (?H8 & _) end;
  set (d := {| vis := f; spare := sp |});
  assert (Hs : slen d = length f) by reflexivity;
  repeat go_step; shape_fin d.

Lemma read_shape f sp fc : delimited_frame f -> fc_of f = fc -> parse_shape f (parse_read_req_tcp fc {| vis := f; spare := sp |}).
Proof. intros Hd Hfc. unfold parse_read_req_tcp. shape_parser f sp. Qed.
Lemma wcoil_shape f sp : delimited_frame f -> fc_of f = 5 -> parse_shape f (parse_wcoil_req_tcp {| vis := f; spare := sp |}).
Proof. intros Hd Hfc. unfold parse_wcoil_req_tcp. shape_parser f sp. Qed.
Lemma wreg_shape f sp : delimited_frame f -> fc_of f = 6 -> parse_shape f (parse_wreg_req_tcp {| vis := f; spare := sp |}).
Proof. intros Hd Hfc. unfold parse_wreg_req_tcp. shape_parser f sp. Qed.
Lemma wcoils_shape f sp : delimited_frame f -> fc_of f = 15 -> parse_shape f (parse_wcoils_req_tcp {| vis := f; spare := sp |}).
Proof. intros Hd Hfc. unfold parse_wcoils_req_tcp. shape_parser f sp. Qed.
Lemma wregs_shape f sp : delimited_frame f -> fc_of f = 16 -> parse_shape f (parse_wregs_req_tcp {| vis := f; spare := sp |}).
Proof. intros Hd Hfc. unfold parse_wregs_req_tcp. shape_parser f sp. Qed.
Lemma srvid_shape f sp : delimited_frame f -> fc_of f = 17 -> parse_shape f (parse_srvid_req_tcp {| vis := f; spare := sp |}).
Proof. intros Hd Hfc. unfold parse_srvid_req_tcp. shape_parser f sp. Qed.
Lemma rw_shape f sp : delimited_frame f -> fc_of f = 23 -> parse_shape f (parse_rw_req_tcp {| vis := f; spare := sp |}).
Proof. intros Hd Hfc. unfold parse_rw_req_tcp. shape_parser f sp. Qed.

Theorem parse_delimited f sp :
  delimited_frame f -> is_supported (fc_of f) = true ->
  parse_shape f (parse_tcp_request {| vis := f; spare := sp |}).
Proof.
  intros Hd Hsup. pose proof Hd as (H8 & _).
  unfold parse_tcp_request.
  set (d := {| vis := f; spare := sp |}).
  assert (Hs : slen d = length f) by reflexivity.
  replace (slen d <? 8)%nat with false by lia.
  destruct (@idx_lt perr d 7) as [b7 [Hb Hn]]; [lia|]. rewrite Hb. cbn [bind].
  apply (fun l n x => nth_error_nth l n (x:=x) 0) in Hn. cbn [vis d] in Hn. fold (fc_of f) in Hn. subst b7.
  unfold d.
  destruct ((fc_of f =? 1) || (fc_of f =? 2) || (fc_of f =? 3) || (fc_of f =? 4)) eqn:E1; [apply read_shape; auto|].
  destruct (fc_of f =? 5) eqn:E5; [apply wcoil_shape; auto; lia|].
  destruct (fc_of f =? 6) eqn:E6; [apply wreg_shape; auto; lia|].
  destruct (fc_of f =? 15) eqn:E15; [apply wcoils_shape; auto; lia|].
  destruct (fc_of f =? 16) eqn:E16; [apply wregs_shape; auto; lia|].
  destruct (fc_of f =? 17) eqn:E17; [apply srvid_shape; auto; lia|].
  destruct (fc_of f =? 23) eqn:E23; [apply rw_shape; auto; lia|].
  exfalso. unfold is_supported, supported_fcs in Hsup. cbn [existsb] in Hsup. lia.
Qed.

Lemma parse_ok_len d p : parse_tcp_request d = Ok p -> (8 <= slen d)%nat.
Proof. unfold parse_tcp_request. destruct (slen d <? 8)%nat eqn:E; [discriminate|]. intros _. lia. Qed.

(* ---------- the classifier on the library's own request frames ---------- *)
Lemma looks_mbap_frame tid len u fc body rest :
  len < 65536 -> (3 <= len \/ (len = 2 /\ fc = 17)) -> fc <> 0 -> is_supported fc = true ->
  looks_like (exact (mbap_bytes tid len ++ (u :: fc :: body) ++ rest)) false = Ok (len + 6, None).
Proof.
  intros Hl Hp Hf Hs. unfold mbap_bytes, put16. cbn [app]. rewrite looks_exact_cons. unfold looks8.
  cbn [N.eqb andb negb].
  replace (be16 [len / 256; len mod 256]) with len by (unfold be16; lia).
  destruct ((len <? 3) && negb ((len =? 2) && (fc =? 17))) eqn:E1; [exfalso; lia|].
  destruct (fc =? 0) eqn:E2; [lia|]. rewrite Hs. reflexivity.
Qed.

(* requests whose Bytes() the model covers: a read function code for the read requests and a
   payload that fits its count byte (every request a constructor returns satisfies this) *)
Definition encodable (r : req) : Prop :=
  match r with
  | RRead fc _ _ _ => fc = 1 \/ fc = 2 \/ fc = 3 \/ fc = 4
  | RWCoils _ _ _ data | RWRegs _ _ _ data | RRW _ _ _ _ _ data => (length data <= 255)%nat
  | _ => True
  end.

Lemma req_frame_shape r : encodable r ->
  exists u body, req_body r = u :: req_fc r :: body /\
    N.of_nat (length (req_body r)) = req_len16 r /\ req_len16 r < 65536 /\
    (3 <= req_len16 r \/ (req_len16 r = 2 /\ req_fc r = 17)) /\
    is_supported (req_fc r) = true /\ req_fc r <> 0.
Proof.
  intros He. destruct r as [fc u s q|u a st|u a d0 d1|u s c data|u s c data|u|u rs rq ws wq data];
    cbn [req_body req_fc req_len16 app put16 encodable] in *; eexists; eexists; (split; [reflexivity|]);
    cbn [length]; rewrite ?app_length; cbn [length]; unfold u16.
  - destruct He as [-> | [-> | [-> | ->]]]; repeat split; try lia; try reflexivity.
  - repeat split; try lia; try reflexivity.
  - repeat split; try lia; try reflexivity.
  - repeat split; try lia; try reflexivity.
  - repeat split; try lia; try reflexivity.
  - repeat split; try lia; try reflexivity.
  - repeat split; try lia; try reflexivity.
Qed.

Theorem req_frame_looks tid r rest : encodable r ->
  looks_like (exact (req_bytes_tcp tid r ++ rest)) false = Ok (N.of_nat (length (req_bytes_tcp tid r)), None) /\
  (8 <= length (req_bytes_tcp tid r))%nat.
Proof.
  intros He. destruct (req_frame_shape r He) as (u & body & Hb & Hlen & Hlt & Hp & Hs & Hf).
  unfold req_bytes_tcp. rewrite <- app_assoc, app_length.
  assert (Hm : length (mbap_bytes tid (req_len16 r)) = 6%nat) by reflexivity.
  rewrite Hm. split.
  - rewrite Hb at 1. rewrite looks_mbap_frame by assumption. f_equal. f_equal. lia.
  - rewrite Hb. cbn [length]. lia.
Qed.

(* the third classifier fact in the classifier's own terms: an accepted length is at least 8 *)
Lemma looks_exact_min b n e : looks_like (exact b) false = Ok (n, e) -> n <> 0 -> 8 <= n.
Proof.
  intros H Hn. destruct (Nat.lt_ge_cases (length b) 8) as [Hs|Hs].
  - rewrite looks_exact_short in H by exact Hs. injection H as <- _. congruence.
  - destruct (looks_exact_cases b Hs) as [E|[(m & E & (_ & _ & _ & Hm & _) & _)|(m & E & (_ & _ & _ & Hm & _) & _)]];
      rewrite E in H; injection H as <- _; [congruence|exact Hm|exact Hm].
Qed.
Lemma looks_exact_total b : exists n e, looks_like (exact b) false = Ok (n, e).
Proof.
  destruct (Nat.lt_ge_cases (length b) 8) as [Hs|Hs].
  - rewrite looks_exact_short by exact Hs. eauto.
  - destruct (looks_exact_cases b Hs) as [E|[(m & E & _)|(m & E & _)]]; rewrite E; eauto.
Qed.

(* a header announcing a 1-byte PDU of a function other than 17 is "not Modbus TCP" for the
   classifier, whatever the function code *)
Lemma looks_one_byte_pdu h0 h1 u fc rest :
  fc <> 17 -> looks_like (exact (h0 :: h1 :: 0 :: 0 :: 0 :: 2 :: u :: fc :: rest)) false = Ok (0, Some ENotTCP).
Proof.
  intros H. rewrite looks_exact_cons. unfold looks8. cbn [N.eqb andb negb be16].
  replace (0 * 256 + 2 <? 3) with true by lia.
  replace ((0 * 256 + 2 =? 2) && (fc =? 17)) with false by lia. reflexivity.
Qed.
