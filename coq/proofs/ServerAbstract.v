(* ServerAbstract.v -- the reassembly loop of ModbusTCPAssembler.ReceiveRead over an ABSTRACT stream
   classifier and frame handler.  Everything here is proved from three facts about the classifier
   only:
     looks_short   fewer than 8 bytes are "too short";
     looks_prefix  the verdict depends on the first 8 bytes only (appending bytes to a string of
                   at least 8 bytes does not change it);
     looks_min     a delimited frame has at least 8 bytes.
   Results: more fuel never changes the drain loop; it never runs out of the fuel |buffer|+1;
   draining s and later s' ++ c (s' what was left) is draining s ++ c (adrain_incr); hence the
   state of a connection after ANY chunk sequence is the state after one read of the concatenation
   (the segmentation_independent theorems), and one read of frames ++ partial answers every frame in order and
   keeps the partial one (awhole_frames); combined: run_prefix_replies.
   ServerProofs.v instantiates the section with PacketModel.looks_like and ServerModel.handle. *)
Require Import MB.GoSem MB.ServerModel.
Open Scope nat_scope.

Inductive averdict :=
| AShort                          (* wait for more bytes *)
| ABroken                         (* the classifier itself failed: the call panics *)
| AStop (e : option (list N))     (* not Modbus: reply e and close (None: the error is not a pointer to ErrorParseTCP, panic) *)
| AFrame (n : nat).               (* a frame of n bytes starts here *)

(* the connection-level wrapper of ServerModel.asm_read / conn_read over any ReceiveRead *)
Definition gen_read (recv : list N -> list N -> rr) (c : conn) (chunk : list N) : conn :=
  match c_status c with
  | Open =>
      let r := recv (c_buf c) chunk in
      match r_status r with
      | Panicked => {| c_buf := r_buf r; c_written := c_written c; c_status := Panicked |}
      | st =>
          {| c_buf := r_buf r;
             c_written := match r_out r with [] => c_written c | o => c_written c ++ o end;
             c_status := st |}
      end
  | _ => c
  end.

Lemma written_app (w o : list N) : match o with [] => w | x :: l => w ++ x :: l end = w ++ o.
Proof. destruct o; [rewrite app_nil_r|]; reflexivity. Qed.

Lemma app_eq_split {A} (a b c d : list A) :
  a ++ b = c ++ d -> length c <= length a -> exists e, a = c ++ e /\ d = e ++ b.
Proof.
  revert c. induction a as [|x a IH]; intros c H Hl.
  - destruct c; [|cbn in Hl; lia]. exists []. cbn in *. auto.
  - destruct c as [|y c].
    + exists (x :: a). cbn in *. auto.
    + cbn in H. injection H as Hxy H. cbn in Hl. destruct (IH c H) as [e [E1 E2]]; [lia|].
      exists e. subst. auto.
Qed.

Section Asm.
Variable looks : list N -> averdict.
Variable ahandle : list N -> option (list N).   (* the reply to one delimited frame; None = panic *)

Hypothesis looks_short : forall b, length b < 8 -> looks b = AShort.
Hypothesis looks_prefix : forall b c, 8 <= length b -> looks (b ++ c) = looks b.
Hypothesis looks_min : forall b n, looks b = AFrame n -> 8 <= n.

Fixpoint adrain (fuel : nat) (b out : list N) : rr :=
  match fuel with
  | O => {| r_buf := b; r_out := out; r_status := OutOfFuel |}
  | S f =>
    match looks b with
    | AShort => {| r_buf := b; r_out := out; r_status := Open |}
    | ABroken => panicked b
    | AStop (Some e) => {| r_buf := []; r_out := out ++ e; r_status := Closed |}
    | AStop None => panicked []
    | AFrame n =>
        if length b <? n then {| r_buf := b; r_out := out; r_status := Open |}
        else match ahandle (firstn n b) with
             | Some w => adrain f (skipn n b) (out ++ w)
             | None => panicked (skipn n b)
             end
    end
  end.

Lemma adrain_S f b out : adrain (S f) b out =
    match looks b with
    | AShort => {| r_buf := b; r_out := out; r_status := Open |}
    | ABroken => panicked b
    | AStop (Some e) => {| r_buf := []; r_out := out ++ e; r_status := Closed |}
    | AStop None => panicked []
    | AFrame n =>
        if length b <? n then {| r_buf := b; r_out := out; r_status := Open |}
        else match ahandle (firstn n b) with
             | Some w => adrain f (skipn n b) (out ++ w)
             | None => panicked (skipn n b)
             end
    end.
Proof. reflexivity. Qed.

(* more fuel than |b| changes nothing *)
Lemma adrain_fuel : forall f1 f2 b out, length b < f1 -> length b < f2 -> adrain f1 b out = adrain f2 b out.
Proof.
  induction f1 as [|f1 IH]; intros f2 b out H1 H2; [lia|].
  destruct f2 as [|f2]; [lia|]. rewrite !adrain_S.
  destruct (looks b) as [| |e|n] eqn:E; try reflexivity.
  destruct (length b <? n) eqn:En; [reflexivity|].
  destruct (ahandle (firstn n b)); [|reflexivity].
  pose proof (looks_min _ _ E). apply IH; rewrite skipn_length; lia.
Qed.

(* the fuel |b|+1 is never exhausted *)
Lemma adrain_enough : forall f b out, length b < f -> r_status (adrain f b out) <> OutOfFuel.
Proof.
  induction f as [|f IH]; intros b out H; [lia|]. rewrite adrain_S.
  destruct (looks b) as [| |[e|]|n] eqn:E; unfold panicked; cbn [r_status]; try discriminate.
  destruct (length b <? n) eqn:En; [cbn [r_status]; discriminate|].
  destruct (ahandle (firstn n b)); [|cbn [r_status]; discriminate].
  pose proof (looks_min _ _ E). apply IH. rewrite skipn_length. lia.
Qed.

Lemma adrain_buf_le : forall f b o, length (r_buf (adrain f b o)) <= length b.
Proof.
  induction f as [|f IH]; intros b o; [cbn; lia|]. rewrite adrain_S.
  destruct (looks b) as [| |[e|]|n] eqn:E; unfold panicked; cbn [r_buf length]; try lia.
  destruct (length b <? n); [cbn [r_buf]; lia|].
  destruct (ahandle (firstn n b)) as [w|]; [|cbn [r_buf]; rewrite skipn_length; lia].
  specialize (IH (skipn n b) (o ++ w)). rewrite skipn_length in IH. lia.
Qed.

(* the accumulated response is only a prefix of the result (and dropped by a panic) *)
Lemma adrain_acc : forall f b out,
  r_buf (adrain f b out) = r_buf (adrain f b []) /\
  r_status (adrain f b out) = r_status (adrain f b []) /\
  r_out (adrain f b out) = match r_status (adrain f b []) with Panicked => [] | _ => out ++ r_out (adrain f b []) end.
Proof.
  induction f as [|f IH]; intros b out.
  - cbn. rewrite app_nil_r. auto.
  - rewrite !adrain_S.
    destruct (looks b) as [| |[e|]|n]; unfold panicked; cbn [r_buf r_out r_status app];
      rewrite ?app_nil_r; try (repeat split; reflexivity).
    destruct (length b <? n); [cbn [r_buf r_out r_status]; rewrite app_nil_r; repeat split; reflexivity|].
    destruct (ahandle (firstn n b)) as [w|]; [|cbn [r_buf r_out r_status]; repeat split; reflexivity].
    destruct (IH (skipn n b) (out ++ w)) as [A [B C]].
    destruct (IH (skipn n b) w) as [A' [B' C']].
    rewrite A, B, C, A', B', C'. repeat split; try reflexivity.
    destruct (r_status (adrain f (skipn n b) [])); try reflexivity; cbn [app]; rewrite app_assoc; reflexivity.
Qed.

(* the crux: draining s, and then what is left of it together with new bytes c, is draining
   s ++ c in one go; a close or a panic met while draining s is met while draining s ++ c *)
Lemma adrain_incr : forall f s c out,
  length (s ++ c) < f ->
  (r_status (adrain f s out) = Open ->
     adrain f (s ++ c) out = adrain f (r_buf (adrain f s out) ++ c) (r_out (adrain f s out))) /\
  (r_status (adrain f s out) = Closed -> adrain f (s ++ c) out = adrain f s out) /\
  (r_status (adrain f s out) = Panicked -> r_status (adrain f (s ++ c) out) = Panicked).
Proof.
  induction f as [|f IH]; intros s c out Hf; [lia|].
  destruct (Nat.lt_ge_cases (length s) 8) as [Hs|Hs].
  - rewrite (adrain_S f s), (looks_short s Hs). cbn [r_buf r_out r_status].
    repeat split; intros; try discriminate; try reflexivity.
  - rewrite (adrain_S f s), (adrain_S f (s ++ c)), (looks_prefix s c Hs).
    destruct (looks s) as [| |[e|]|n] eqn:E.
    + cbn [r_buf r_out r_status]. repeat split; intros H; try discriminate H.
      rewrite (adrain_S f (s ++ c)), (looks_prefix s c Hs), E. reflexivity.
    + unfold panicked. cbn [r_status]. repeat split; intros H; try discriminate H; reflexivity.
    + cbn [r_status]. repeat split; intros H; try discriminate H; reflexivity.
    + unfold panicked. cbn [r_status]. repeat split; intros H; try discriminate H; reflexivity.
    + destruct (length s <? n) eqn:En.
      * cbn [r_buf r_out r_status]. repeat split; intros H; try discriminate H.
        rewrite (adrain_S f (s ++ c)), (looks_prefix s c Hs), E.
        replace (length (s ++ c) <? n) with (length (s ++ c) <? n) by reflexivity. reflexivity.
      * pose proof (looks_min _ _ E) as Hn.
        replace (length (s ++ c) <? n) with false by (rewrite app_length; lia).
        rewrite firstn_app, skipn_app.
        replace (n - length s) with 0 by lia. cbn [firstn skipn]. rewrite app_nil_r.
        destruct (ahandle (firstn n s)) as [w|].
        -- rewrite app_length in Hf.
           destruct (IH (skipn n s) c (out ++ w)) as [IO [IC IP]]; [rewrite app_length, skipn_length; lia|].
           split; [|split]; intros H.
           ++ rewrite (IO H). apply adrain_fuel; rewrite app_length;
                pose proof (adrain_buf_le f (skipn n s) (out ++ w)) as Hle; rewrite skipn_length in Hle; lia.
           ++ exact (IC H).
           ++ exact (IP H).
        -- unfold panicked. cbn [r_status]. repeat split; intros H; try discriminate H; reflexivity.
Qed.

(* ---------- ReceiveRead and the connection ---------- *)
Definition areceive (buf chunk : list N) : rr :=
  let b := buf ++ chunk in adrain (S (length b)) b [].
Definition aasm_read := gen_read areceive.
Definition aconn_read (c : conn) (chunk : list N) : conn :=
  match chunk with [] => c | _ => aasm_read c chunk end.
Definition aconn_run (chunks : list (list N)) : conn := fold_left aconn_read chunks conn_init.
(* a fresh connection whose first read delivers [bytes] *)
Definition awhole (bytes : list N) : conn := aasm_read conn_init bytes.

Lemma gen_read_status recv c chunk :
  c_status c = Open -> c_status (gen_read recv c chunk) = r_status (recv (c_buf c) chunk).
Proof. intros H. unfold gen_read. rewrite H. cbn. destruct (r_status (recv (c_buf c) chunk)); reflexivity. Qed.

Lemma awhole_eq bytes : awhole bytes =
  let r := adrain (S (length bytes)) bytes [] in
  {| c_buf := r_buf r;
     c_written := match r_status r with Panicked => [] | _ => r_out r end;
     c_status := r_status r |}.
Proof.
  unfold awhole, aasm_read, gen_read, areceive. cbn [c_status conn_init c_buf c_written app].
  destruct (r_status (adrain (S (length bytes)) bytes [])); cbn zeta; try reflexivity;
    destruct (r_out (adrain (S (length bytes)) bytes [])); reflexivity.
Qed.

Lemma awhole_nil : awhole [] = conn_init.
Proof. rewrite awhole_eq. cbn [length]. rewrite adrain_S, looks_short by (cbn; lia). reflexivity. Qed.

Lemma awhole_not_oof bytes : c_status (awhole bytes) <> OutOfFuel.
Proof. rewrite awhole_eq. cbn zeta. cbn [c_status]. apply adrain_enough. lia. Qed.

(* a closed or panicked connection stays what it is *)
Lemma aconn_read_done c chunk : c_status c <> Open -> aconn_read c chunk = c.
Proof.
  intros H. unfold aconn_read, aasm_read, gen_read. destruct chunk; [reflexivity|].
  destruct (c_status c); try reflexivity. congruence.
Qed.
Lemma aconn_fold_done chunks : forall c, c_status c <> Open -> fold_left aconn_read chunks c = c.
Proof.
  induction chunks as [|ch chunks IH]; intros c H; cbn [fold_left]; [reflexivity|].
  rewrite aconn_read_done by exact H. apply IH. exact H.
Qed.

Lemma awhole_closed_app s c : c_status (awhole s) = Closed -> awhole (s ++ c) = awhole s.
Proof.
  rewrite !awhole_eq. cbn zeta. cbn [c_status]. intros H.
  set (F := S (length (s ++ c))).
  assert (HF : length (s ++ c) < F) by (unfold F; lia).
  assert (Hs : adrain (S (length s)) s [] = adrain F s []).
  { apply adrain_fuel; [lia|]. unfold F. rewrite app_length. lia. }
  rewrite Hs in *. destruct (adrain_incr F s c [] HF) as [_ [IC _]]. rewrite (IC H). reflexivity.
Qed.
Lemma awhole_panicked_app s c : c_status (awhole s) = Panicked -> c_status (awhole (s ++ c)) = Panicked.
Proof.
  rewrite !awhole_eq. cbn zeta. cbn [c_status]. intros H.
  set (F := S (length (s ++ c))).
  assert (HF : length (s ++ c) < F) by (unfold F; lia).
  assert (Hs : adrain (S (length s)) s [] = adrain F s []).
  { apply adrain_fuel; [lia|]. unfold F. rewrite app_length. lia. }
  rewrite Hs in *. destruct (adrain_incr F s c [] HF) as [_ [_ IP]]. exact (IP H).
Qed.

(* feeding one more chunk to an open connection that has seen [seen] gives the state of a
   single read of seen ++ chunk (unless the handler panics on the way) *)
Lemma receive_whole seen chunk :
  c_status (awhole seen) = Open ->
  (c_status (aasm_read (awhole seen) chunk) <> Panicked \/ c_status (awhole (seen ++ chunk)) <> Panicked) ->
  aasm_read (awhole seen) chunk = awhole (seen ++ chunk).
Proof.
  intros Ho Hp.
  assert (Hst : c_status (aasm_read (awhole seen) chunk) = r_status (areceive (c_buf (awhole seen)) chunk)).
  { unfold aasm_read. apply gen_read_status. exact Ho. }
  rewrite Hst in Hp. clear Hst.
  unfold aasm_read at 1. unfold gen_read. rewrite Ho.
  revert Ho Hp. rewrite !awhole_eq. cbn zeta. cbn [c_status c_buf c_written]. intros Ho Hp.
  rewrite Ho in *. unfold areceive in *. cbn zeta in *.
  set (F := S (length (seen ++ chunk))) in *.
  assert (HF : length (seen ++ chunk) < F) by (unfold F; lia).
  assert (Hs : adrain (S (length seen)) seen [] = adrain F seen []).
  { apply adrain_fuel; [lia|]. unfold F. rewrite app_length. lia. }
  rewrite Hs in *. clear Hs.
  destruct (adrain_incr F seen chunk [] HF) as [IO _]. rewrite (IO Ho) in *. clear IO.
  pose proof (adrain_buf_le F seen []) as Hle.
  assert (HFv : F = S (length seen + length chunk)) by (unfold F; rewrite app_length; reflexivity).
  rewrite (adrain_fuel (S (length (r_buf (adrain F seen []) ++ chunk))) F) in * by (rewrite ?app_length; lia).
  destruct (adrain_acc F (r_buf (adrain F seen []) ++ chunk) (r_out (adrain F seen []))) as [A [B C]].
  rewrite A, B, C in *.
  destruct (r_status (adrain F (r_buf (adrain F seen []) ++ chunk) [])) eqn:Est;
    rewrite ?written_app; try reflexivity.
  destruct Hp as [Hp|Hp]; congruence.
Qed.

Lemma aconn_read_whole seen chunk :
  c_status (awhole seen) = Open ->
  (c_status (aconn_read (awhole seen) chunk) <> Panicked \/ c_status (awhole (seen ++ chunk)) <> Panicked) ->
  aconn_read (awhole seen) chunk = awhole (seen ++ chunk).
Proof.
  intros Ho Hp. destruct chunk as [|x chunk].
  - rewrite app_nil_r. reflexivity.
  - apply receive_whole; assumption.
Qed.

(* C15 (i), hypothesis on the single read: if one read of all the bytes does not end in a handler
   panic, every segmentation of the bytes ends in exactly the same state *)
Theorem segmentation_independent_from : forall chunks seen,
  c_status (awhole (seen ++ concat chunks)) <> Panicked ->
  fold_left aconn_read chunks (awhole seen) = awhole (seen ++ concat chunks).
Proof.
  induction chunks as [|c chunks IH]; intros seen Hp; cbn [fold_left concat] in *.
  - rewrite app_nil_r. reflexivity.
  - rewrite app_assoc in Hp |- *.
    destruct (c_status (awhole seen)) eqn:Ew.
    + assert (Hc : c_status (awhole (seen ++ c)) <> Panicked).
      { intros Hx. apply Hp. apply awhole_panicked_app. exact Hx. }
      rewrite aconn_read_whole by (auto). apply IH. exact Hp.
    + rewrite aconn_read_done, aconn_fold_done by congruence.
      rewrite <- app_assoc. symmetry. apply awhole_closed_app. exact Ew.
    + exfalso. apply Hp. rewrite <- app_assoc. apply awhole_panicked_app. exact Ew.
    + exfalso. exact (awhole_not_oof seen Ew).
Qed.

Theorem segmentation_independent chunks :
  c_status (awhole (concat chunks)) <> Panicked -> aconn_run chunks = awhole (concat chunks).
Proof.
  intros H. unfold aconn_run. rewrite <- awhole_nil. apply (segmentation_independent_from chunks []). exact H.
Qed.

(* the same with the hypothesis on the segmented run *)
Theorem segmentation_independent_run_from : forall chunks seen,
  c_status (fold_left aconn_read chunks (awhole seen)) <> Panicked ->
  fold_left aconn_read chunks (awhole seen) = awhole (seen ++ concat chunks).
Proof.
  induction chunks as [|c chunks IH]; intros seen Hp; cbn [fold_left concat] in *.
  - rewrite app_nil_r. reflexivity.
  - rewrite app_assoc.
    destruct (c_status (awhole seen)) eqn:Ew.
    + assert (Hc : c_status (aconn_read (awhole seen) c) <> Panicked).
      { intros Hx. apply Hp. rewrite aconn_fold_done; [exact Hx|congruence]. }
      rewrite aconn_read_whole in Hp |- * by (auto). apply IH. exact Hp.
    + rewrite aconn_read_done, aconn_fold_done by congruence.
      rewrite <- app_assoc. symmetry. apply awhole_closed_app. exact Ew.
    + exfalso. apply Hp. rewrite aconn_read_done, aconn_fold_done by congruence. exact Ew.
    + exfalso. exact (awhole_not_oof seen Ew).
Qed.
Theorem segmentation_independent_run chunks :
  c_status (aconn_run chunks) <> Panicked -> aconn_run chunks = awhole (concat chunks).
Proof.
  unfold aconn_run. rewrite <- awhole_nil. intros H. apply (segmentation_independent_run_from chunks []). exact H.
Qed.

(* ---------- C15 (ii): one read of complete frames followed by an incomplete one ---------- *)
Definition delimited (f : list N) : Prop := looks f = AFrame (length f).
Definition incomplete (p : list N) : Prop := looks p = AShort \/ exists n, looks p = AFrame n /\ length p < n.
Definition areply (f : list N) : list N := match ahandle f with Some w => w | None => [] end.

Lemma delimited_app f rest : delimited f -> looks (f ++ rest) = AFrame (length f).
Proof. intros H. pose proof (looks_min _ _ H). rewrite looks_prefix by lia. exact H. Qed.

Lemma adrain_frames : forall frames partial fuel out,
  Forall (fun f => delimited f /\ ahandle f <> None) frames ->
  incomplete partial ->
  length (concat frames ++ partial) < fuel ->
  adrain fuel (concat frames ++ partial) out =
    {| r_buf := partial; r_out := out ++ concat (map areply frames); r_status := Open |}.
Proof.
  induction frames as [|f frames IH]; intros partial fuel out HF Hi Hl; cbn [concat map app] in *.
  - destruct fuel as [|fuel]; [lia|]. rewrite adrain_S, app_nil_r.
    destruct Hi as [Hi|[n [Hi Hn]]]; rewrite Hi; [reflexivity|].
    replace (length partial <? n) with true by lia. reflexivity.
  - destruct fuel as [|fuel]; [lia|]. rewrite adrain_S, <- app_assoc.
    pose proof (Forall_inv HF) as [Hd Hh]. pose proof (Forall_inv_tail HF) as HF'.
    rewrite (delimited_app _ _ Hd).
    replace (length (f ++ concat frames ++ partial) <? length f) with false by (rewrite app_length; lia).
    rewrite firstn_app, skipn_app, firstn_all, skipn_all, Nat.sub_diag. cbn [firstn skipn app]. rewrite app_nil_r.
    unfold areply at 1. destruct (ahandle f) as [w|]; [|congruence].
    rewrite IH; [rewrite app_assoc; reflexivity|exact HF'|exact Hi|].
    rewrite <- app_assoc, app_length in Hl. pose proof (looks_min _ _ Hd). lia.
Qed.

Theorem awhole_frames frames partial :
  Forall (fun f => delimited f /\ ahandle f <> None) frames ->
  incomplete partial ->
  awhole (concat frames ++ partial) =
    {| c_buf := partial; c_written := concat (map areply frames); c_status := Open |}.
Proof.
  intros HF Hi. rewrite awhole_eq. cbn zeta.
  rewrite (adrain_frames frames partial _ [] HF Hi) by lia. reflexivity.
Qed.

Lemma proper_prefix_incomplete f p q : delimited f -> p ++ q = f -> q <> [] -> incomplete p.
Proof.
  intros Hd He Hq. destruct (Nat.lt_ge_cases (length p) 8) as [Hs|Hs].
  - left. apply looks_short. exact Hs.
  - right. exists (length f). split.
    + rewrite <- (looks_prefix p q Hs), He. exact Hd.
    + subst f. rewrite app_length. destruct q; [congruence|cbn; lia].
Qed.
Lemma nil_incomplete : incomplete [].
Proof. left. apply looks_short. cbn. lia. Qed.

(* how many of the frames are complete within the first n bytes of their concatenation *)
Fixpoint count_complete (frames : list (list N)) (n : nat) : nat :=
  match frames with
  | [] => 0
  | f :: fs => if length f <=? n then S (count_complete fs (n - length f)) else 0
  end.

Lemma split_prefix : forall frames p q,
  p ++ q = concat frames ->
  exists partial, p = concat (firstn (count_complete frames (length p)) frames) ++ partial /\
    (partial = [] \/ exists f r, In f frames /\ partial ++ r = f /\ r <> []).
Proof.
  induction frames as [|f frames IH]; intros p q H; cbn [concat count_complete] in *.
  - destruct p; [|discriminate]. exists []. cbn. auto.
  - destruct (length f <=? length p) eqn:El.
    + apply Nat.leb_le in El. destruct (app_eq_split p q f (concat frames) H El) as [e [E1 E2]].
      destruct (IH e q (eq_sym E2)) as [partial [P1 P2]].
      exists partial. subst p. rewrite app_length. replace (length f + length e - length f) with (length e) by lia.
      cbn [firstn concat]. rewrite <- app_assoc. split; [f_equal; exact P1|].
      destruct P2 as [P2|[g [r [Hin Hr]]]]; [left; exact P2|right]. exists g, r. split; [right; exact Hin|exact Hr].
    + apply Nat.leb_gt in El. exists p. cbn [firstn concat app]. split; [reflexivity|].
      destruct p as [|x p]; [left; reflexivity|right].
      symmetry in H. destruct (app_eq_split f (concat frames) (x :: p) q H) as [e [E1 E2]]; [lia|].
      exists f, e. split; [left; reflexivity|]. split; [symmetry; exact E1|].
      intros ->. rewrite app_nil_r in E1. subst f. lia.
Qed.

(* C15 combined: whatever the segmentation, after every read exactly the frames that are
   complete so far have been answered, in order, and the connection is open *)
Theorem run_prefix_replies frames chunks k :
  Forall (fun f => delimited f /\ ahandle f <> None) frames ->
  concat chunks = concat frames ->
  let seen := concat (firstn k chunks) in
  let j := count_complete frames (length seen) in
  exists partial,
    seen = concat (firstn j frames) ++ partial /\
    aconn_run (firstn k chunks) =
      {| c_buf := partial; c_written := concat (map areply (firstn j frames)); c_status := Open |}.
Proof.
  intros HF Hc seen j.
  assert (Hs : seen ++ concat (skipn k chunks) = concat frames).
  { unfold seen. rewrite <- concat_app, firstn_skipn. exact Hc. }
  destruct (split_prefix frames seen _ Hs) as [partial [P1 P2]].
  exists partial. split; [exact P1|].
  assert (HF' : Forall (fun f => delimited f /\ ahandle f <> None) (firstn j frames)).
  { apply Forall_forall. intros f Hin. rewrite Forall_forall in HF. apply HF.
    rewrite <- (firstn_skipn j frames). apply in_or_app. left. exact Hin. }
  assert (Hi : incomplete partial).
  { destruct P2 as [->|[f [r [Hin [Hr Hne]]]]]; [apply nil_incomplete|].
    rewrite Forall_forall in HF. destruct (HF f Hin) as [Hd _].
    exact (proper_prefix_incomplete f partial r Hd Hr Hne). }
  pose proof (awhole_frames (firstn j frames) partial HF' Hi) as Hw.
  fold j in P1. rewrite <- P1 in Hw.
  rewrite segmentation_independent; fold seen; rewrite Hw; [reflexivity|cbn; discriminate].
Qed.


(* ---------- no panic without a panicking handler ---------- *)
Lemma adrain_no_panic : forall f b out,
  (forall x, looks x <> ABroken) -> (forall x, looks x <> AStop None) ->
  (forall x n, looks x = AFrame n -> n <= length x -> ahandle (firstn n x) <> None) ->
  r_status (adrain f b out) <> Panicked.
Proof.
  induction f as [|f IH]; intros b out H1 H2 H3; [cbn; discriminate|]. rewrite adrain_S.
  destruct (looks b) as [| |[e|]|n] eqn:E; cbn [r_status]; try discriminate.
  - exfalso. exact (H1 b E).
  - exfalso. exact (H2 b E).
  - destruct (length b <? n) eqn:En; [cbn [r_status]; discriminate|].
    destruct (ahandle (firstn n b)) as [w|] eqn:Eh; [apply IH; assumption|].
    exfalso. apply (H3 b n E); [lia|exact Eh].
Qed.
Lemma awhole_no_panic bytes :
  (forall x, looks x <> ABroken) -> (forall x, looks x <> AStop None) ->
  (forall x n, looks x = AFrame n -> n <= length x -> ahandle (firstn n x) <> None) ->
  c_status (awhole bytes) <> Panicked.
Proof. intros H1 H2 H3. rewrite awhole_eq. cbn zeta. cbn [c_status]. apply adrain_no_panic; assumption. Qed.

End Asm.
