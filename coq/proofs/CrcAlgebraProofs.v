(* CrcAlgebraProofs.v -- algebraic characterisation of packet.CRC16 (C03, stretch goal):
   1 linearity over GF(2); 2 GF(2)[x] (product, degree, unique remainder, pmod); 3 the register is
   the remainder modulo x^16+x^15+x^2+1; 4 residue 0 of a frame with its trailer and the receiver's
   check; 5 detection of single-bit / single-byte / burst<=16 errors.
   Everything is by induction / bitwise reasoning for all byte strings and all register values.
   Finite sweeps: the 16 coefficient positions of the constant generator ([G16_reflected]) and the
   256 byte values of [low_kernel] (bound in the statement); no sweep over register values. *)
From Coq Require Import ZifyBool ZifyN ZifyNat.
Require Import MB.GoSem MB.CrcModel MB.CrcSpec MB.proofs.CrcProofs MB.CrcAlgebra.
Open Scope N_scope.
Ltac Zify.zify_post_hook ::= Z.div_mod_to_equations.

(* ============================================================================================== *)
(* 0. xor toolkit                                                                                  *)
(* ============================================================================================== *)
(* equalities in the group (N, lxor): compare bit by bit *)
Ltac xor_solve :=
  apply N.bits_inj; intros ?k; rewrite ?N.lxor_spec, ?N.bits_0;
  repeat match goal with |- context [N.testbit ?x ?k] => destruct (N.testbit x k) end; reflexivity.

Lemma lxor_cancel_l a b c : N.lxor a b = c -> b = N.lxor a c.
Proof. intros <-. xor_solve. Qed.

Lemma odd_lxor a b : N.odd (N.lxor a b) = xorb (N.odd a) (N.odd b).
Proof. rewrite <- !N.bit0_odd. apply N.lxor_spec. Qed.

Lemma double_lxor a b : N.double (N.lxor a b) = N.lxor (N.double a) (N.double b).
Proof. destruct a as [|p], b as [|q]; reflexivity. Qed.

Lemma odd_div2_lxor v : v = N.lxor (N.b2n (N.odd v)) (N.double (N.div2 v)).
Proof. destruct v as [|[p|p|]]; reflexivity. Qed.

(* x < 2^n  iff  no bit at or above n *)
Lemma lt_pow2_bits x n : (forall k, n <= k -> N.testbit x k = false) -> x < 2 ^ n.
Proof.
  intros H. destruct (N.eq_dec x 0) as [->|Hx]; [apply N.neq_0_lt_0, N.pow_nonzero; lia|].
  apply N.log2_lt_pow2; [lia|].
  destruct (N.lt_ge_cases (N.log2 x) n) as [L|L]; [exact L|].
  pose proof (N.bit_log2 x Hx) as T. rewrite (H _ L) in T. discriminate.
Qed.
Lemma bits_above_pow2 x n k : x < 2 ^ n -> n <= k -> N.testbit x k = false.
Proof.
  intros H L. destruct (N.eq_dec x 0) as [->|Hx]; [apply N.bits_0|].
  apply N.bits_above_log2. apply N.log2_lt_pow2 in H; lia.
Qed.
Lemma lxor_lt_pow2 a b n : a < 2 ^ n -> b < 2 ^ n -> N.lxor a b < 2 ^ n.
Proof.
  intros A B. apply lt_pow2_bits. intros k L.
  rewrite N.lxor_spec, (bits_above_pow2 a n k A L), (bits_above_pow2 b n k B L). reflexivity.
Qed.

(* ============================================================================================== *)
(* 1. Linearity                                                                                    *)
(* ============================================================================================== *)
(* the bit step without the conditional: shift, then add the polynomial times the bit shifted out *)
Lemma bit_step_alt c : bit_step c = N.lxor (N.shiftr c 1) (if N.odd c then 0xA001 else 0).
Proof. destruct c as [|[p|p|]]; try reflexivity; cbn; rewrite ?N.lxor_0_r; reflexivity. Qed.

Lemma bit_step_lxor a b : bit_step (N.lxor a b) = N.lxor (bit_step a) (bit_step b).
Proof.
  rewrite !bit_step_alt, N.shiftr_lxor, odd_lxor.
  destruct (N.odd a), (N.odd b); cbn [xorb]; xor_solve.
Qed.
Lemma bit_step_0 : bit_step 0 = 0. Proof. reflexivity. Qed.
Lemma bit_step_lt c : c < 65536 -> bit_step c < 65536.
Proof.
  intros H. rewrite bit_step_alt. apply (lxor_lt_pow2 _ _ 16).
  - rewrite N.shiftr_div_pow2. change (2 ^ 16) with 65536. change (2 ^ 1) with 2. lia.
  - destruct (N.odd c); reflexivity.
Qed.

Lemma iter_bit_step_lxor n : forall a b,
  iter n bit_step (N.lxor a b) = N.lxor (iter n bit_step a) (iter n bit_step b).
Proof. induction n as [|n IH]; intros a b; cbn [iter]; [reflexivity|]. rewrite bit_step_lxor. apply IH. Qed.
Lemma iter_bit_step_0 n : iter n bit_step 0 = 0.
Proof. induction n as [|n IH]; cbn [iter]; [reflexivity|]. rewrite bit_step_0. exact IH. Qed.

Lemma byte_step_lxor s t x y :
  byte_step (N.lxor s t) (N.lxor x y) = N.lxor (byte_step s x) (byte_step t y).
Proof.
  unfold byte_step. rewrite <- iter_bit_step_lxor. f_equal. xor_solve.
Qed.

(* the register is a linear function of (initial value, message): no hypothesis on the bytes *)
Lemma crc_from_lxor : forall a b s t, length a = length b ->
  crc_from (N.lxor s t) (xorl a b) = N.lxor (crc_from s a) (crc_from t b).
Proof.
  unfold crc_from.
  induction a as [|x a IH]; intros [|y b] s t Hl; try discriminate; cbn [xorl fold_left]; [reflexivity|].
  rewrite byte_step_lxor. apply IH. cbn in Hl. lia.
Qed.

Lemma xorl_zeros_r : forall a, xorl a (zeros (length a)) = a.
Proof.
  induction a as [|x a IH]; [reflexivity|]. cbn [length zeros repeat xorl]. fold (zeros (length a)).
  rewrite N.lxor_0_r, IH. reflexivity.
Qed.
Lemma zeros_length n : length (zeros n) = n. Proof. apply repeat_length. Qed.
Lemma xorl_length : forall a b, length a = length b -> length (xorl a b) = length a.
Proof. induction a as [|x a IH]; intros [|y b] H; try discriminate; cbn; [reflexivity|]. rewrite IH; [reflexivity|]. cbn in H; lia. Qed.

Lemma crc16_is_crc_from m : crc16 m = crc_from 0xFFFF m. Proof. reflexivity. Qed.

Theorem crc0_linear a b : length a = length b -> crc0 (xorl a b) = N.lxor (crc0 a) (crc0 b).
Proof. intros H. unfold crc0. rewrite <- crc_from_lxor by exact H. reflexivity. Qed.

(* separation of the preset from the message: valid for every initial value *)
Theorem crc_from_split init m : crc_from init m = N.lxor (crc0 m) (crc_from init (zeros (length m))).
Proof.
  unfold crc0. rewrite <- crc_from_lxor by (rewrite zeros_length; reflexivity).
  rewrite xorl_zeros_r, N.lxor_0_l. reflexivity.
Qed.
Theorem crc16_crc0 m : crc16 m = N.lxor (crc0 m) (crc16 (zeros (length m))).
Proof. exact (crc_from_split 0xFFFF m). Qed.

Theorem crc16_affine a b : length a = length b ->
  crc16 (xorl a b) = N.lxor (N.lxor (crc16 a) (crc16 b)) (crc16 (zeros (length a))).
Proof.
  intros H. rewrite (crc16_crc0 (xorl a b)), (crc16_crc0 a), (crc16_crc0 b), crc0_linear by exact H.
  rewrite xorl_length by exact H. rewrite <- H. xor_solve.
Qed.

(* the form used for error detection: an error pattern e added to a frame changes the register by
   the zero-preset CRC of the pattern alone *)
Theorem crc16_error a e : length a = length e -> crc16 (xorl a e) = N.lxor (crc16 a) (crc0 e).
Proof.
  intros H. change (crc_from 0xFFFF (xorl a e) = N.lxor (crc_from 0xFFFF a) (crc_from 0 e)).
  rewrite <- crc_from_lxor by exact H.
  rewrite N.lxor_0_r. reflexivity.
Qed.

(* ============================================================================================== *)
(* 2. GF(2)[x]: multiplication, degree, division with remainder                                    *)
(* ============================================================================================== *)
Lemma pmul_0_l b : pmul 0 b = 0. Proof. reflexivity. Qed.
Lemma pmul_1_l b : pmul 1 b = b. Proof. reflexivity. Qed.
Lemma pmul_0_r a : pmul a 0 = 0.
Proof.
  destruct a as [|p]; [reflexivity|]. cbn [pmul].
  induction p as [p IH|p IH|]; cbn [pmul_pos]; rewrite ?IH; reflexivity.
Qed.
Lemma pmul_1_r a : pmul a 1 = a.
Proof.
  destruct a as [|p]; [reflexivity|]. cbn [pmul].
  induction p as [p IH|p IH|]; cbn [pmul_pos]; rewrite ?IH; reflexivity.
Qed.
Lemma pmul_double_l a b : pmul (N.double a) b = N.double (pmul a b).
Proof. destruct a; reflexivity. Qed.
Lemma pmul_succ_double_l a b : pmul (N.succ_double a) b = N.lxor b (N.double (pmul a b)).
Proof. destruct a; [cbn; rewrite N.lxor_0_r|]; reflexivity. Qed.

(* distributivity *)
Lemma pmul_lxor_r a b c : pmul a (N.lxor b c) = N.lxor (pmul a b) (pmul a c).
Proof.
  destruct a as [|p]; [reflexivity|]. cbn [pmul].
  induction p as [p IH|p IH|]; cbn [pmul_pos]; rewrite ?IH, ?double_lxor; [xor_solve|reflexivity|reflexivity].
Qed.
Lemma pmul_double_r a b : pmul a (N.double b) = N.double (pmul a b).
Proof.
  destruct a as [|p]; [reflexivity|]. cbn [pmul].
  induction p as [p IH|p IH|]; cbn [pmul_pos]; rewrite ?IH, ?double_lxor; reflexivity.
Qed.
Lemma succ_double_lxor a : N.succ_double a = N.lxor 1 (N.double a).
Proof. destruct a; reflexivity. Qed.

Lemma pmul_comm a : forall b, pmul a b = pmul b a.
Proof.
  induction a as [|a IH|a IH] using N.binary_ind; intros b.
  - rewrite pmul_0_r. reflexivity.
  - rewrite pmul_double_l, pmul_double_r, IH. reflexivity.
  - rewrite pmul_succ_double_l, succ_double_lxor, pmul_lxor_r, pmul_1_r, pmul_double_r, IH. reflexivity.
Qed.
Lemma pmul_lxor_l a b c : pmul (N.lxor a b) c = N.lxor (pmul a c) (pmul b c).
Proof. rewrite !(pmul_comm _ c). apply pmul_lxor_r. Qed.

Lemma pmul_assoc a : forall b c, pmul (pmul a b) c = pmul a (pmul b c).
Proof.
  induction a as [|a IH|a IH] using N.binary_ind; intros b c.
  - reflexivity.
  - rewrite !pmul_double_l, IH. reflexivity.
  - rewrite !pmul_succ_double_l, pmul_lxor_l, pmul_double_l, IH. reflexivity.
Qed.

(* multiplication by x^k *)
Lemma shiftl_double a k : N.shiftl (N.double a) k = N.double (N.shiftl a k).
Proof.
  induction k as [|k IH] using N.peano_ind; [rewrite !N.shiftl_0_r; reflexivity|].
  rewrite !N.shiftl_succ_r, IH. reflexivity.
Qed.
Lemma shiftl_succ_l a k : N.shiftl a (N.succ k) = N.shiftl (N.double a) k.
Proof. rewrite N.shiftl_succ_r, shiftl_double. reflexivity. Qed.
Lemma pmul_shiftl_r a b k : pmul a (N.shiftl b k) = N.shiftl (pmul a b) k.
Proof.
  induction k as [|k IH] using N.peano_ind; [rewrite !N.shiftl_0_r; reflexivity|].
  rewrite !N.shiftl_succ_r, pmul_double_r, IH. reflexivity.
Qed.
Lemma pshift_is_pmul a k : pshift a k = pmul a (2 ^ k).
Proof.
  unfold pshift. rewrite <- (N.shiftl_1_l k), pmul_shiftl_r, pmul_1_r. reflexivity.
Qed.

(* degree *)
Lemma log2_lxor_lt a b : N.log2 b < N.log2 a -> N.log2 (N.lxor a b) = N.log2 a.
Proof.
  intros H. assert (Ha : a <> 0) by (intros ->; cbn in H; lia).
  apply N.log2_bits_unique.
  - rewrite N.lxor_spec, (N.bit_log2 a Ha), (N.bits_above_log2 b _ H). reflexivity.
  - intros m Hm. rewrite N.lxor_spec, !N.bits_above_log2 by lia. reflexivity.
Qed.
Lemma double_neq_0 a : a <> 0 -> N.double a <> 0.
Proof. destruct a; [congruence|discriminate]. Qed.
Lemma log2_double' a : a <> 0 -> N.log2 (N.double a) = N.succ (N.log2 a).
Proof. intros H. rewrite N.double_spec. apply N.log2_double. lia. Qed.

(* deg (a b) = deg a + deg b, and GF(2)[x] has no zero divisors *)
Lemma pmul_deg a : forall b, a <> 0 -> b <> 0 ->
  pmul a b <> 0 /\ pdeg (pmul a b) = pdeg a + pdeg b.
Proof.
  unfold pdeg.
  induction a as [|a IH|a IH] using N.binary_ind; intros b Ha Hb.
  - congruence.
  - assert (Ha' : a <> 0) by (intros ->; apply Ha; reflexivity).
    destruct (IH b Ha' Hb) as [N0 D]. rewrite pmul_double_l. split; [apply double_neq_0, N0|].
    rewrite !log2_double' by assumption. lia.
  - rewrite pmul_succ_double_l.
    destruct (N.eq_dec a 0) as [->|Ha'].
    + cbn [pmul N.double]. rewrite N.lxor_0_r. split; [exact Hb|]. cbn. lia.
    + destruct (IH b Ha' Hb) as [N0 D].
      assert (L : N.log2 b < N.log2 (N.double (pmul a b))) by (rewrite log2_double' by exact N0; lia).
      assert (E : N.log2 (N.lxor b (N.double (pmul a b))) = N.log2 (N.double (pmul a b))).
      { rewrite N.lxor_comm. apply log2_lxor_lt, L. }
      split.
      * intros Z. rewrite Z in E. cbn in E. lia.
      * rewrite E, log2_double' by exact N0. rewrite N.succ_double_spec, N.log2_succ_double by lia. lia.
Qed.

Lemma pmul_ge g q : g <> 0 -> q <> 0 -> 2 ^ pdeg g <= pmul g q.
Proof.
  intros Hg Hq. destruct (pmul_deg g q Hg Hq) as [N0 D].
  pose proof (N.log2_spec (pmul g q)) as S. unfold pdeg in *.
  assert (2 ^ N.log2 g <= 2 ^ N.log2 (pmul g q)) by (apply N.pow_le_mono_r; lia). lia.
Qed.

(* the remainder is unique ... *)
Theorem is_rem_unique a g r r' : g <> 0 -> is_rem a g r -> is_rem a g r' -> r = r'.
Proof.
  unfold is_rem, deg_lt, padd. intros Hg [B [q E]] [B' [q' E']].
  assert (X : N.lxor r r' = pmul g (N.lxor q q')).
  { rewrite pmul_lxor_r. rewrite E in E'. clear - E'.
    apply lxor_cancel_l in E'. rewrite E'. xor_solve. }
  destruct (N.eq_dec (N.lxor q q') 0) as [Z|NZ].
  - rewrite Z, pmul_0_r in X. apply N.lxor_eq in X. exact X.
  - pose proof (pmul_ge g _ Hg NZ) as Hge. rewrite <- X in Hge.
    pose proof (lxor_lt_pow2 r r' _ B B'). lia.
Qed.

(* ... and [pmod] computes it *)
Lemma reduce1_spec g t : g <> 0 -> t < 2 ^ N.succ (pdeg g) ->
  reduce1 g t < 2 ^ pdeg g /\ exists e, t = N.lxor (pmul g e) (reduce1 g t).
Proof.
  intros Hg Ht. unfold reduce1. destruct (N.testbit t (pdeg g)) eqn:Tb.
  - split.
    + apply lt_pow2_bits. intros k Hk. rewrite N.lxor_spec.
      destruct (N.eq_dec k (pdeg g)) as [->|Hne].
      * unfold pdeg. rewrite (N.bit_log2 g Hg). unfold pdeg in Tb. rewrite Tb. reflexivity.
      * rewrite (bits_above_pow2 t _ k Ht) by lia.
        unfold pdeg in *. rewrite N.bits_above_log2 by lia. reflexivity.
    + exists 1. rewrite pmul_1_r. xor_solve.
  - split.
    + apply lt_pow2_bits. intros k Hk.
      destruct (N.eq_dec k (pdeg g)) as [->|Hne]; [exact Tb|].
      apply (bits_above_pow2 t _ k Ht). lia.
    + exists 0. rewrite pmul_0_r, N.lxor_0_l. reflexivity.
Qed.

Theorem pmod_is_rem a g : g <> 0 -> is_rem a g (pmod a g).
Proof.
  intros Hg. unfold is_rem, deg_lt, padd.
  induction a as [|a IH|a IH] using N.binary_ind.
  - cbn [pmod]. split; [apply N.neq_0_lt_0, N.pow_nonzero; lia|]. exists 0. rewrite pmul_0_r. reflexivity.
  - destruct IH as [B [q E]].
    assert (P : pmod (N.double a) g = reduce1 g (N.double (pmod a g)) \/ (a = 0)).
    { destruct a; [right; reflexivity|left; reflexivity]. }
    destruct P as [P| ->].
    2:{ cbn [N.double pmod]. split; [apply N.neq_0_lt_0, N.pow_nonzero; lia|]. exists 0. rewrite pmul_0_r. reflexivity. }
    rewrite P.
    destruct (reduce1_spec g (N.double (pmod a g)) Hg) as [B2 [e E2]].
    { rewrite N.pow_succ_r', N.double_spec. lia. }
    split; [exact B2|]. exists (N.lxor (N.double q) e).
    rewrite pmul_lxor_r, pmul_double_r.
    remember (pmod a g) as X eqn:HX. clear HX P. remember (reduce1 g (N.double X)) as R eqn:HR. clear HR.
    subst a. rewrite double_lxor, E2. xor_solve.
  - destruct IH as [B [q E]].
    assert (P : pmod (N.succ_double a) g = reduce1 g (N.succ_double (pmod a g))).
    { destruct a; reflexivity. }
    rewrite P.
    destruct (reduce1_spec g (N.succ_double (pmod a g)) Hg) as [B2 [e E2]].
    { rewrite N.pow_succ_r', N.succ_double_spec. lia. }
    split; [exact B2|]. exists (N.lxor (N.double q) e).
    rewrite pmul_lxor_r, pmul_double_r.
    remember (pmod a g) as X eqn:HX. clear HX P. remember (reduce1 g (N.succ_double X)) as R eqn:HR. clear HR.
    subst a. rewrite succ_double_lxor in E2. apply lxor_cancel_l in E2.
    rewrite succ_double_lxor, double_lxor, E2. xor_solve.
Qed.

Corollary pmod_unique a g r : g <> 0 -> is_rem a g r -> r = pmod a g.
Proof. intros Hg H. exact (is_rem_unique a g r _ Hg H (pmod_is_rem a g Hg)). Qed.

(* consequences used below: multiples of g have remainder 0; remainder is additive *)
Lemma pmod_multiple g q : g <> 0 -> pmod (pmul g q) g = 0.
Proof.
  intros Hg. symmetry. apply pmod_unique; [exact Hg|]. split.
  - unfold deg_lt. apply N.neq_0_lt_0, N.pow_nonzero; lia.
  - exists q. unfold padd. rewrite N.lxor_0_r. reflexivity.
Qed.
Lemma pmod_lxor a b g : g <> 0 -> pmod (N.lxor a b) g = N.lxor (pmod a g) (pmod b g).
Proof.
  intros Hg. symmetry. apply pmod_unique; [exact Hg|].
  destruct (pmod_is_rem a g Hg) as [Ba [qa Ea]]. destruct (pmod_is_rem b g Hg) as [Bb [qb Eb]].
  split; [apply lxor_lt_pow2; assumption|]. exists (N.lxor qa qb). unfold padd in *.
  rewrite pmul_lxor_r. rewrite Ea at 1. rewrite Eb at 1. xor_solve.
Qed.
Lemma pmod_small a g : a < 2 ^ pdeg g -> pmod a g = a.
Proof.
  intros H. destruct (N.eq_dec g 0) as [->|Hg].
  - cbn in H. assert (a = 0) by lia. subst. reflexivity.
  - symmetry. apply pmod_unique; [exact Hg|]. split; [exact H|]. exists 0. unfold padd. rewrite pmul_0_r. reflexivity.
Qed.

(* ============================================================================================== *)
(* 3. The register is a polynomial remainder                                                       *)
(* ============================================================================================== *)
(* --- 3a. bytes -> bits: the byte-at-a-time update is eight bit-serial updates, LSB first ------- *)
Lemma bit_step_double v : bit_step (N.double v) = v.
Proof. destruct v; reflexivity. Qed.

Lemma iter_feed n : forall c v, v < 2 ^ N.of_nat n ->
  iter n bit_step (N.lxor c v) = crc_bits c (bv_of_N n v).
Proof.
  unfold crc_bits.
  induction n as [|n IH]; intros c v Hv.
  - cbn in Hv. assert (v = 0) by lia. subst v. cbn. apply N.lxor_0_r.
  - cbn [iter bv_of_N fold_left].
    rewrite Nat2N.inj_succ, N.pow_succ_r' in Hv.
    rewrite <- IH by (rewrite N.div2_div; lia). f_equal. unfold feed.
    rewrite (odd_div2_lxor v) at 1.
    rewrite <- N.lxor_assoc, bit_step_lxor, bit_step_double. reflexivity.
Qed.

Lemma byte_step_bits c b : b < 256 -> byte_step c b = crc_bits c (bits8 b).
Proof. intros H. unfold byte_step, bits8. apply iter_feed. exact H. Qed.

Lemma crc_bits_app c x y : crc_bits c (x ++ y) = crc_bits (crc_bits c x) y.
Proof. unfold crc_bits. apply fold_left_app. Qed.

Lemma crc_from_bits : forall m init, bytes_ok m -> crc_from init m = crc_bits init (msg_bits m).
Proof.
  induction m as [|b m IH]; intros init H; [reflexivity|].
  apply bytes_ok_cons in H. destruct H as [Hb Hm].
  change (msg_bits (b :: m)) with (bits8 b ++ msg_bits m).
  rewrite crc_bits_app, <- byte_step_bits by exact Hb. apply IH. exact Hm.
Qed.

Lemma msg_bits_length : forall m, length (msg_bits m) = (8 * length m)%nat.
Proof.
  induction m as [|b m IH]; [reflexivity|].
  change (msg_bits (b :: m)) with (bits8 b ++ msg_bits m).
  rewrite app_length, IH. unfold bits8. rewrite bv_of_N_length. cbn [length]. lia.
Qed.

(* --- 3b. bit reversal -------------------------------------------------------------------------- *)
Lemma N_of_bv_of_N w : forall n, n < 2 ^ N.of_nat w -> N_of_bv (bv_of_N w n) = n.
Proof.
  induction w as [|w IH]; intros n H.
  - cbn in H. cbn. lia.
  - rewrite Nat2N.inj_succ, N.pow_succ_r' in H. cbn [bv_of_N N_of_bv].
    rewrite IH by (rewrite N.div2_div; lia).
    pose proof (N.div2_odd n) as D. destruct (N.odd n); cbn [N.b2n] in D; lia.
Qed.

Lemma revw_lt w c : revw w c < 2 ^ N.of_nat w.
Proof.
  unfold revw. pose proof (N_of_bv_bound (rev (bv_of_N w c))) as H.
  rewrite rev_length, bv_of_N_length in H. exact H.
Qed.
Lemma revw_involutive w c : c < 2 ^ N.of_nat w -> revw w (revw w c) = c.
Proof.
  intros H. unfold revw.
  assert (L : length (rev (bv_of_N w c)) = w) by (rewrite rev_length, bv_of_N_length; reflexivity).
  rewrite <- L at 1. rewrite bv_canonical, rev_involutive. apply N_of_bv_of_N, H.
Qed.
Lemma rev16_lt c : rev16 c < 65536. Proof. exact (revw_lt 16 c). Qed.
Lemma rev16_involutive c : c < 65536 -> rev16 (rev16 c) = c. Proof. exact (revw_involutive 16 c). Qed.

(* --- 3c. the reflected bit step is the unreflected "times x, plus bit at x^16, reduce" ---------
   bit by bit: bit k of [rev16 c] is bit 15-k of c; no enumeration of register values *)
Lemma testbit_cons_0 (b : bool) r : N.testbit ((if b then 1 else 0) + 2 * r) 0 = b.
Proof. rewrite N.bit0_odd, N.odd_add_mul_2. destruct b; reflexivity. Qed.
Lemma testbit_cons_succ (b : bool) r k : N.testbit ((if b then 1 else 0) + 2 * r) (N.succ k) = N.testbit r k.
Proof.
  destruct b; [rewrite N.add_comm; apply (N.testbit_succ_r r true)|rewrite N.add_0_l; apply N.double_bits_succ].
Qed.

Lemma N_of_bv_testbit : forall v k, N.testbit (N_of_bv v) k = nth (N.to_nat k) v false.
Proof.
  induction v as [|b v IH]; intros k.
  - cbn [N_of_bv]. rewrite N.bits_0. destruct (N.to_nat k); reflexivity.
  - cbn [N_of_bv]. destruct (N.eq_dec k 0) as [->|Hk].
    + rewrite testbit_cons_0. reflexivity.
    + replace k with (N.succ (N.pred k)) by lia. rewrite testbit_cons_succ, N2Nat.inj_succ. cbn [nth]. apply IH.
Qed.

Lemma nth_bv_of_N w : forall n i,
  nth i (bv_of_N w n) false = if (i <? w)%nat then N.testbit n (N.of_nat i) else false.
Proof.
  induction w as [|w IH]; intros n i.
  - cbn [bv_of_N]. destruct i; reflexivity.
  - cbn [bv_of_N]. destruct i as [|i].
    + cbn [nth]. rewrite <- N.bit0_odd. reflexivity.
    + cbn [nth]. rewrite IH. change (S i <? S w)%nat with (i <? w)%nat.
      destruct (i <? w)%nat; [|reflexivity]. rewrite Nat2N.inj_succ, N.div2_div. apply N.div2_bits.
Qed.

Lemma revw_bits w c k :
  N.testbit (revw w c) k = if k <? N.of_nat w then N.testbit c (N.of_nat w - 1 - k) else false.
Proof.
  unfold revw. rewrite N_of_bv_testbit.
  destruct (k <? N.of_nat w) eqn:L.
  - apply N.ltb_lt in L. rewrite rev_nth by (rewrite bv_of_N_length; lia).
    rewrite bv_of_N_length, nth_bv_of_N.
    replace (w - S (N.to_nat k) <? w)%nat with true by (symmetry; apply Nat.ltb_lt; lia).
    f_equal. lia.
  - apply N.ltb_ge in L. apply nth_overflow. rewrite rev_length, bv_of_N_length. lia.
Qed.
Lemma rev16_bits_low c k : k < 16 -> N.testbit (rev16 c) k = N.testbit c (15 - k).
Proof.
  intros H. unfold rev16. rewrite revw_bits. replace (k <? N.of_nat 16) with true by (symmetry; apply N.ltb_lt; lia).
  f_equal.
Qed.
Lemma rev16_bits_high c k : 16 <= k -> N.testbit (rev16 c) k = false.
Proof.
  intros H. unfold rev16. rewrite revw_bits. replace (k <? N.of_nat 16) with false by (symmetry; apply N.ltb_ge; lia).
  reflexivity.
Qed.

(* the two forms of the generator: bit k of x^16+x^15+x^2+1 is bit 15-k of 0xA001 (k < 16) *)
Lemma G16_reflected k : k < 16 -> N.testbit 0xA001 (15 - k) = N.testbit G16 k.
Proof.
  intros H.
  assert (C : forallb (fun k => Bool.eqb (N.testbit 0xA001 (15 - k)) (N.testbit G16 k)) (seqN 16) = true) by (vm_compute; reflexivity).
  apply Bool.eqb_prop. exact (proj1 (forallb_forall _ _) C k (in_seqN _ _ H)).
Qed.

Lemma feed_alt c b :
  feed c b = N.lxor (N.shiftr c 1) (if xorb (N.odd c) b then 0xA001 else 0).
Proof.
  unfold feed. rewrite bit_step_alt, N.shiftr_lxor, odd_lxor. f_equal; destruct b; cbn; rewrite ?N.lxor_0_r; reflexivity.
Qed.

Lemma double_bits_0 a : N.testbit (N.double a) 0 = false.
Proof. rewrite N.double_spec. apply N.testbit_even_0. Qed.
Lemma double_bits_succ' a k : N.testbit (N.double a) (N.succ k) = N.testbit a k.
Proof. rewrite N.double_spec. apply N.double_bits_succ. Qed.

Lemma nfeed_alt r b : r < 65536 ->
  nfeed r b = N.lxor (N.lxor (N.double r) (if b then 65536 else 0)) (if xorb (N.testbit r 15) b then G16 else 0).
Proof.
  intros H. unfold nfeed, reduce1. change (pdeg G16) with 16.
  rewrite N.lxor_spec. change 16 with (N.succ 15) at 1. rewrite double_bits_succ'.
  replace (N.testbit (if b then 65536 else 0) 16) with b by (destruct b; reflexivity).
  destruct (xorb (N.testbit r 15) b); [reflexivity|rewrite N.lxor_0_r; reflexivity].
Qed.

Lemma bit16_const (b : bool) k : k <> 16 -> N.testbit (if b then 65536 else 0) k = false.
Proof. intros H. destruct b; [change 65536 with (2 ^ 16); apply N.pow2_bits_false; lia|apply N.bits_0]. Qed.

Lemma feed_reflect_eq c b : c < 65536 -> rev16 (feed c b) = nfeed (rev16 c) b.
Proof.
  intros H. rewrite nfeed_alt by apply rev16_lt. rewrite feed_alt.
  rewrite (rev16_bits_low c 15) by lia. change (15 - 15) with 0. rewrite N.bit0_odd.
  set (o := xorb (N.odd c) b).
  apply N.bits_inj. intros k. rewrite !N.lxor_spec.
  destruct (N.lt_ge_cases k 16) as [L|L].
  - rewrite rev16_bits_low by exact L. rewrite N.lxor_spec, N.shiftr_spec', bit16_const, xorb_false_r by lia.
    assert (Gk : N.testbit (if o then 40961 else 0) (15 - k) = N.testbit (if o then G16 else 0) k).
    { destruct o; [apply G16_reflected, L|rewrite !N.bits_0; reflexivity]. }
    rewrite Gk. f_equal.
    destruct (N.eq_dec k 0) as [->|Hk].
    + rewrite double_bits_0. apply (bits_above_pow2 c 16); [exact H|lia].
    + replace k with (N.succ (N.pred k)) at 2 by lia. rewrite double_bits_succ', rev16_bits_low by lia.
      f_equal. lia.
  - rewrite rev16_bits_high by exact L.
    destruct (N.eq_dec k 16) as [->|Hk].
    + change 16 with (N.succ 15) at 1. rewrite double_bits_succ', rev16_bits_low by lia.
      change (15 - 15) with 0. rewrite N.bit0_odd.
      replace (N.testbit (if b then 65536 else 0) 16) with b by (destruct b; reflexivity).
      replace (N.testbit (if o then G16 else 0) 16) with o by (destruct o; reflexivity).
      unfold o. destruct (N.odd c), b; reflexivity.
    + replace k with (N.succ (N.pred k)) at 1 by lia.
      rewrite double_bits_succ', rev16_bits_high, bit16_const by lia.
      destruct o; [|rewrite N.bits_0; reflexivity].
      rewrite (N.bits_above_log2 G16 k) by (change (N.log2 G16) with 16; lia). reflexivity.
Qed.

Lemma feed_lt c b : c < 65536 -> feed c b < 65536.
Proof.
  intros H. unfold feed. apply bit_step_lt. apply (lxor_lt_pow2 _ _ 16); [exact H|destruct b; reflexivity].
Qed.
Lemma feed_reflect c b : c < 65536 -> rev16 (feed c b) = nfeed (rev16 c) b /\ feed c b < 65536.
Proof. intros H. split; [apply feed_reflect_eq, H|apply feed_lt, H]. Qed.

Lemma crc_bits_reflect : forall bs c, c < 65536 ->
  rev16 (crc_bits c bs) = fold_left nfeed bs (rev16 c) /\ crc_bits c bs < 65536.
Proof.
  unfold crc_bits. induction bs as [|b bs IH]; intros c H; cbn [fold_left]; [auto|].
  destruct (feed_reflect c b H) as [A B]. rewrite <- A. apply IH, B.
Qed.

(* --- 3d. the unreflected register is the remainder of the accumulated polynomial --------------- *)
Definition astep (a : N) (b : bool) : N := N.lxor (N.double a) (if b then 65536 else 0).

Lemma G16_deg : pdeg G16 = 16. Proof. reflexivity. Qed.
Lemma G16_neq_0 : G16 <> 0. Proof. discriminate. Qed.

Lemma nfeed_invariant : forall bs A R, R < 65536 -> (exists q, A = N.lxor (pmul G16 q) R) ->
  fold_left nfeed bs R < 65536 /\
  exists q', fold_left astep bs A = N.lxor (pmul G16 q') (fold_left nfeed bs R).
Proof.
  induction bs as [|b bs IH]; intros A R HR [q E]; cbn [fold_left]; [split; [exact HR|exists q; exact E]|].
  apply IH; unfold nfeed.
  - destruct (reduce1_spec G16 (N.lxor (N.double R) (if b then 65536 else 0)) G16_neq_0) as [B _].
    + rewrite G16_deg. apply lxor_lt_pow2; [rewrite N.double_spec; change (2 ^ N.succ 16) with 131072; lia|].
      destruct b; reflexivity.
    + exact B.
  - destruct (reduce1_spec G16 (N.lxor (N.double R) (if b then 65536 else 0)) G16_neq_0) as [_ [e E2]].
    + rewrite G16_deg. apply lxor_lt_pow2; [rewrite N.double_spec; change (2 ^ N.succ 16) with 131072; lia|].
      destruct b; reflexivity.
    + exists (N.lxor (N.double q) e). unfold astep. rewrite pmul_lxor_r, pmul_double_r.
      remember (reduce1 G16 (N.lxor (N.double R) (if b then 65536 else 0))) as R' eqn:HR'. clear HR'.
      subst A. rewrite double_lxor. apply lxor_cancel_l in E2. rewrite E2. xor_solve.
Qed.

(* closed form of the accumulated polynomial: X x^n + M(x) x^16 *)
Lemma astep_closed : forall bs X M0,
  fold_left astep bs (N.lxor X (N.shiftl M0 16)) =
  N.lxor (N.shiftl X (N.of_nat (length bs))) (N.shiftl (fold_left hstep bs M0) 16).
Proof.
  induction bs as [|b bs IH]; intros X M0; cbn [fold_left length].
  - rewrite N.shiftl_0_r. reflexivity.
  - assert (S1 : astep (N.lxor X (N.shiftl M0 16)) b = N.lxor (N.double X) (N.shiftl (hstep M0 b) 16)).
    { unfold astep, hstep. rewrite N.shiftl_lxor, shiftl_double, double_lxor.
      replace (N.shiftl (N.b2n b) 16) with (if b then 65536 else 0) by (destruct b; reflexivity).
      xor_solve. }
    rewrite S1, IH, Nat2N.inj_succ, shiftl_succ_l. reflexivity.
Qed.

(* --- 3e. the theorem --------------------------------------------------------------------------- *)
Theorem crc_from_is_rem init m : init < 65536 -> bytes_ok m ->
  is_rem (padd (pshift (rev16 init) (N.of_nat (8 * length m))) (pshift (msg_poly m) 16))
         G16 (rev16 (crc_from init m)).
Proof.
  intros Hi Hm. rewrite crc_from_bits by exact Hm.
  destruct (crc_bits_reflect (msg_bits m) init Hi) as [A _]. rewrite A.
  destruct (nfeed_invariant (msg_bits m) (N.lxor (rev16 init) (N.shiftl 0 16)) (rev16 init) (rev16_lt init)) as [B [q E]].
  { exists 0. rewrite pmul_0_r, N.shiftl_0_l, N.lxor_0_r, N.lxor_0_l. reflexivity. }
  rewrite astep_closed, msg_bits_length in E.
  split; [exact B|]. exists q. exact E.
Qed.

Theorem crc_from_is_pmod init m : init < 65536 -> bytes_ok m ->
  rev16 (crc_from init m) =
  pmod (padd (pshift (rev16 init) (N.of_nat (8 * length m))) (pshift (msg_poly m) 16)) G16.
Proof. intros Hi Hm. apply pmod_unique; [exact G16_neq_0|]. apply crc_from_is_rem; assumption. Qed.

Lemma crc_from_lt init m : init < 65536 -> bytes_ok m -> crc_from init m < 65536.
Proof.
  intros Hi Hm. rewrite crc_from_bits by exact Hm. exact (proj2 (crc_bits_reflect _ _ Hi)).
Qed.

(* zero preset: the plain remainder of M(x) x^16 *)
Corollary crc0_is_pmod m : bytes_ok m -> rev16 (crc0 m) = pmod (pshift (msg_poly m) 16) G16.
Proof.
  intros Hm. unfold crc0. rewrite crc_from_is_pmod by (try exact Hm; reflexivity).
  change (rev16 0) with 0. unfold pshift at 1. rewrite N.shiftl_0_l. unfold padd. rewrite N.lxor_0_l. reflexivity.
Qed.

(* packet.CRC16 itself: preset 0xFFFF = x^15 + ... + 1 rides in front of the message *)
Corollary crc16_is_pmod m : bytes_ok m ->
  rev16 (crc16 m) = pmod (padd (pshift 0xFFFF (N.of_nat (8 * length m))) (pshift (msg_poly m) 16)) G16.
Proof. intros Hm. exact (crc_from_is_pmod 0xFFFF m eq_refl Hm). Qed.

Corollary crc16_is_rev_pmod m : bytes_ok m ->
  crc16 m = rev16 (pmod (padd (pshift 0xFFFF (N.of_nat (8 * length m))) (pshift (msg_poly m) 16)) G16).
Proof.
  intros Hm. rewrite <- crc16_is_pmod by exact Hm. symmetry. apply rev16_involutive. exact (crc_from_lt 0xFFFF m eq_refl Hm).
Qed.

(* the same as a sum of two remainders: message part + preset part *)
Corollary crc16_is_sum_of_pmods m : bytes_ok m ->
  rev16 (crc16 m) = padd (pmod (pshift (msg_poly m) 16) G16)
                         (pmod (pshift 0xFFFF (N.of_nat (8 * length m))) G16).
Proof.
  intros Hm. rewrite crc16_is_pmod by exact Hm. unfold padd.
  rewrite pmod_lxor by exact G16_neq_0. apply N.lxor_comm.
Qed.

(* the preset's contribution alone, and the split of section 1 in polynomial form *)
Corollary crc16_preset_part n :
  rev16 (crc16 (zeros n)) = pmod (pshift 0xFFFF (N.of_nat (8 * n))) G16.
Proof.
  assert (Hz : bytes_ok (zeros n)) by (apply Forall_forall; intros x Hx; apply repeat_spec in Hx; subst; reflexivity).
  rewrite crc16_is_pmod by exact Hz. rewrite zeros_length.
  assert (Z : msg_poly (zeros n) = 0).
  { unfold msg_poly, poly_of_bits. clear Hz. induction n as [|n IH]; [reflexivity|].
    change (msg_bits (zeros (S n))) with (bits8 0 ++ msg_bits (zeros n)). rewrite fold_left_app. exact IH. }
  rewrite Z. unfold pshift at 2. rewrite N.shiftl_0_l. unfold padd. rewrite N.lxor_0_r. reflexivity.
Qed.

(* the message polynomial, explicitly: the transmitted bit stream reversed is its coefficient
   vector (first transmitted bit = highest degree) *)
Lemma hstep_arith p b : hstep p b = 2 * p + N.b2n b.
Proof. destruct p, b; reflexivity. Qed.
Lemma poly_of_bits_fold : forall bs M0,
  fold_left hstep bs M0 = N_of_bv (rev bs) + 2 ^ N.of_nat (length bs) * M0.
Proof.
  induction bs as [|b bs IH]; intros M0; cbn [fold_left rev length].
  - change (2 ^ N.of_nat 0) with 1. cbn [N_of_bv]. lia.
  - rewrite IH, hstep_arith, N_of_bv_app, rev_length, Nat2N.inj_succ, N.pow_succ_r'.
    cbn [N_of_bv]. destruct b; cbn [N.b2n]; lia.
Qed.
Theorem msg_poly_coefficients m : msg_poly m = N_of_bv (rev (msg_bits m)).
Proof. unfold msg_poly, poly_of_bits. rewrite poly_of_bits_fold. lia. Qed.

(* ============================================================================================== *)
(* 4. Residue of a frame with its trailer; the receiver's check                                    *)
(* ============================================================================================== *)
Lemma iter_bit_step_lt n : forall c, c < 65536 -> iter n bit_step c < 65536.
Proof. induction n as [|n IH]; intros c H; cbn [iter]; [exact H|]. apply IH, bit_step_lt, H. Qed.
Lemma byte_step_lt c b : c < 65536 -> b < 256 -> byte_step c b < 65536.
Proof.
  intros Hc Hb. unfold byte_step. apply iter_bit_step_lt. apply (lxor_lt_pow2 _ _ 16); [exact Hc|].
  change (2 ^ 16) with 65536. lia.
Qed.

(* the bit step has trivial kernel on 16-bit registers (the generator has a non-zero constant
   term: 0xA001 has bit 15 set, and a shifted register has not) *)
Lemma bit_step_kernel c : c < 65536 -> bit_step c = 0 -> c = 0.
Proof.
  intros H E. rewrite bit_step_alt in E. apply N.lxor_eq in E.
  rewrite <- N.div2_spec in E. pose proof (N.div2_odd c) as D. rewrite E in D.
  destruct (N.odd c); cbn [N.b2n] in D; lia.
Qed.
Lemma iter_bit_step_kernel n : forall c, c < 65536 -> iter n bit_step c = 0 -> c = 0.
Proof.
  induction n as [|n IH]; intros c H E; cbn [iter] in E; [exact E|].
  apply bit_step_kernel; [exact H|]. apply IH; [apply bit_step_lt, H|exact E].
Qed.

Lemma iter_bit_step_shiftl n : forall w, iter n bit_step (N.shiftl w (N.of_nat n)) = w.
Proof.
  induction n as [|n IH]; intros w; [cbn [iter]; apply N.shiftl_0_r|].
  rewrite Nat2N.inj_succ, N.shiftl_succ_r. cbn [iter]. rewrite bit_step_double. apply IH.
Qed.

Lemma lxor_low_byte c : N.lxor c (c mod 256) = N.shiftl (c / 256) 8.
Proof.
  change 256 with (2 ^ 8). rewrite <- N.shiftr_div_pow2.
  apply N.bits_inj. intros k. rewrite N.lxor_spec.
  destruct (N.lt_ge_cases k 8) as [L|L].
  - rewrite N.mod_pow2_bits_low, N.shiftl_spec_low by exact L. apply xorb_nilpotent.
  - rewrite N.mod_pow2_bits_high, N.shiftl_spec_high', N.shiftr_spec' by exact L.
    rewrite xorb_false_r. f_equal. lia.
Qed.

(* xor-ing the low CRC byte into the register and shifting eight times leaves the high byte *)
Lemma byte_step_lo c : byte_step c (crc_lo c) = c / 256.
Proof. unfold byte_step, crc_lo. rewrite lxor_low_byte. exact (iter_bit_step_shiftl 8 (c / 256)). Qed.
Lemma byte_step_self h : byte_step h h = 0.
Proof. unfold byte_step. rewrite N.lxor_nilpotent. apply iter_bit_step_0. Qed.

Lemma crc_from_app init a b : crc_from init (a ++ b) = crc_from (crc_from init a) b.
Proof. unfold crc_from. apply fold_left_app. Qed.

(* the residue property, for every preset *)
Theorem crc_from_residue init m : init < 65536 -> bytes_ok m ->
  crc_from init (m ++ [crc_lo (crc_from init m); crc_hi (crc_from init m)]) = 0.
Proof.
  intros Hi Hm. rewrite crc_from_app. pose proof (crc_from_lt init m Hi Hm) as Hc.
  set (c := crc_from init m) in *. unfold crc_from. cbn [fold_left].
  rewrite byte_step_lo. unfold crc_hi. rewrite N.mod_small by lia. apply byte_step_self.
Qed.
Theorem crc16_residue m : bytes_ok m -> crc16 (with_crc m) = 0.
Proof. intros Hm. exact (crc_from_residue 0xFFFF m eq_refl Hm). Qed.

(* conversely, only the right trailer gives residue 0 *)
Definition low_kernel_pred (d : N) : bool := (d =? 0) || negb (iter 8 bit_step d <? 256).
Lemma low_kernel_sweep : forallb low_kernel_pred (seqN 256) = true. Proof. vm_compute. reflexivity. Qed.
Lemma low_kernel d : d < 256 -> iter 8 bit_step d < 256 -> d = 0.
Proof.
  intros H L. pose proof (proj1 (forallb_forall _ _) low_kernel_sweep d (in_seqN _ _ H)) as S.
  unfold low_kernel_pred in S. apply orb_prop in S. destruct S as [S|S]; [apply N.eqb_eq, S|].
  apply negb_true_iff, N.ltb_ge in S. lia.
Qed.

Lemma byte_step_eq c b : byte_step c b = iter 8 bit_step (N.lxor c b).
Proof. reflexivity. Qed.
Lemma byte_step_kernel s h : s < 65536 -> h < 256 -> byte_step s h = 0 -> s = h.
Proof.
  intros Hs Hh E. rewrite byte_step_eq in E. apply iter_bit_step_kernel in E.
  - apply N.lxor_eq in E. exact E.
  - apply (lxor_lt_pow2 _ _ 16); [exact Hs|change (2 ^ 16) with 65536; lia].
Qed.
(* split off the correct low byte by linearity *)
Lemma byte_step_split c lo :
  byte_step c lo = N.lxor (c / 256) (iter 8 bit_step (N.lxor (crc_lo c) lo)).
Proof.
  rewrite <- byte_step_lo. rewrite !byte_step_eq. rewrite <- iter_bit_step_lxor. f_equal. xor_solve.
Qed.
Lemma two_bytes_kernel c lo hi : c < 65536 -> lo < 256 -> hi < 256 ->
  byte_step (byte_step c lo) hi = 0 -> lo = crc_lo c /\ hi = crc_hi c.
Proof.
  intros Hc Hlo Hhi E.
  apply byte_step_kernel in E; [|apply byte_step_lt; assumption|exact Hhi].
  rewrite byte_step_split in E.
  assert (Hd : N.lxor (crc_lo c) lo < 256).
  { apply (lxor_lt_pow2 _ _ 8); [unfold crc_lo; change (2 ^ 8) with 256; lia|exact Hlo]. }
  assert (Z : N.lxor (crc_lo c) lo = 0).
  { apply low_kernel; [exact Hd|].
    apply lxor_cancel_l in E. rewrite E.
    apply (lxor_lt_pow2 _ _ 8); change (2 ^ 8) with 256; lia. }
  rewrite Z, iter_bit_step_0, N.lxor_0_r in E. apply N.lxor_eq in Z.
  split; [symmetry; exact Z|]. unfold crc_hi. rewrite N.mod_small by lia. symmetry. exact E.
Qed.

Theorem crc_from_check_iff init front lo hi : init < 65536 -> bytes_ok front -> lo < 256 -> hi < 256 ->
  (crc_from init (front ++ [lo; hi]) = 0 <->
   [lo; hi] = [crc_lo (crc_from init front); crc_hi (crc_from init front)]).
Proof.
  intros Hi Hf Hlo Hhi. split.
  2:{ intros E. inversion E. subst lo hi. apply crc_from_residue; assumption. }
  rewrite crc_from_app. pose proof (crc_from_lt init front Hi Hf) as Hc.
  remember (crc_from init front) as c eqn:Hcdef. clear Hcdef.
  change (crc_from c [lo; hi]) with (byte_step (byte_step c lo) hi). intros E.
  destruct (two_bytes_kernel c lo hi Hc Hlo Hhi E) as [A B]. rewrite <- A, <- B. reflexivity.
Qed.
Theorem crc16_check_iff front lo hi : bytes_ok front -> lo < 256 -> hi < 256 ->
  (crc16 (front ++ [lo; hi]) = 0 <-> [lo; hi] = crc_trailer front).
Proof. intros Hf Hlo Hhi. exact (crc_from_check_iff 0xFFFF front lo hi eq_refl Hf Hlo Hhi). Qed.

(* the receiver's comparison is "the register over the whole frame is 0" *)
Lemma split_last2 (f : list N) : (2 <= length f)%nat ->
  exists lo hi, f = firstn (length f - 2) f ++ [lo; hi].
Proof.
  intros H. pose proof (firstn_skipn (length f - 2) f) as E.
  pose proof (skipn_length (length f - 2) f) as L.
  destruct (skipn (length f - 2) f) as [|lo [|hi [|x t]]]; cbn [length] in L; try lia.
  exists lo, hi. symmetry. exact E.
Qed.

Theorem frame_check_iff f : bytes_ok f ->
  (frame_check f = true <-> (2 <= length f)%nat /\ crc16 f = 0).
Proof.
  intros Hf. unfold frame_check. rewrite andb_true_iff, Nat.leb_le, list_eqb_eq.
  split; intros [H2 H]; (split; [exact H2|]);
    destruct (split_last2 f H2) as [lo [hi E]];
    set (front := firstn (length f - 2) f) in *;
    assert (Hs : skipn (length f - 2) f = [lo; hi])
      by (rewrite E at 2; rewrite skipn_app;
          replace (length f - 2 - length front)%nat with 0%nat
            by (unfold front; rewrite firstn_length; lia);
          rewrite skipn_all2 by (unfold front; rewrite firstn_length; lia); reflexivity);
    rewrite E in Hf; apply bytes_ok_app in Hf; destruct Hf as [Hfr Ht];
    apply bytes_ok_cons in Ht; destruct Ht as [Hlo Ht]; apply bytes_ok_cons in Ht; destruct Ht as [Hhi _].
  - rewrite E. apply crc16_check_iff; try assumption. rewrite <- Hs. exact H.
  - rewrite Hs. apply crc16_check_iff; try assumption. rewrite <- E. exact H.
Qed.

Corollary frame_check_with_crc m : bytes_ok m -> frame_check (with_crc m) = true.
Proof.
  intros Hm. apply frame_check_iff.
  - unfold with_crc. apply bytes_ok_app. split; [exact Hm|apply crc_trailer_ok, Hm].
  - split; [unfold with_crc; rewrite app_length; cbn; lia|apply crc16_residue, Hm].
Qed.

(* ============================================================================================== *)
(* 5. Error detection                                                                              *)
(* ============================================================================================== *)
Lemma with_crc_length m : length (with_crc m) = (length m + 2)%nat.
Proof. unfold with_crc. rewrite app_length. reflexivity. Qed.
Lemma with_crc_ok m : bytes_ok m -> bytes_ok (with_crc m).
Proof. intros H. unfold with_crc. apply bytes_ok_app. split; [exact H|apply crc_trailer_ok, H]. Qed.

Lemma xorl_ok : forall a b, bytes_ok a -> bytes_ok b -> bytes_ok (xorl a b).
Proof.
  induction a as [|x a IH]; intros [|y b] Ha Hb; cbn [xorl]; try apply bytes_ok_nil.
  apply bytes_ok_cons in Ha. apply bytes_ok_cons in Hb. destruct Ha as [Hx Ha], Hb as [Hy Hb].
  apply bytes_ok_cons. split; [apply (lxor_lt_pow2 _ _ 8); assumption|apply IH; assumption].
Qed.

(* a corrupted frame is accepted iff the zero-preset CRC of the error pattern is 0 *)
Theorem corrupted_frame_register m e : bytes_ok m -> length e = (length m + 2)%nat ->
  crc16 (xorl (with_crc m) e) = crc0 e.
Proof.
  intros Hm He. rewrite crc16_error by (rewrite with_crc_length; lia).
  rewrite crc16_residue by exact Hm. apply N.lxor_0_l.
Qed.
Theorem corrupted_frame_check m e : bytes_ok m -> bytes_ok e -> length e = (length m + 2)%nat ->
  (frame_check (xorl (with_crc m) e) = true <-> crc0 e = 0).
Proof.
  intros Hm Hok He.
  rewrite frame_check_iff by (apply xorl_ok; [apply with_crc_ok, Hm|exact Hok]).
  rewrite corrupted_frame_register by assumption.
  rewrite xorl_length, with_crc_length by (rewrite with_crc_length; lia).
  split; [intros [_ H]; exact H|intros H; split; [lia|exact H]].
Qed.

(* --- 5a. errors confined to one byte (in particular every single-bit flip) --------------------- *)
Lemma crc_from_zeros_0 n : crc_from 0 (zeros n) = 0.
Proof.
  induction n as [|n IH]; [reflexivity|]. unfold crc_from in *. cbn [zeros repeat fold_left].
  unfold byte_step at 2. rewrite N.lxor_0_l, (iter_bit_step_0 8). exact IH.
Qed.
Lemma crc_from_zeros_kernel n : forall s, s < 65536 -> crc_from s (zeros n) = 0 -> s = 0.
Proof.
  induction n as [|n IH]; intros s Hs E; [exact E|].
  unfold crc_from in *. cbn [zeros repeat fold_left] in E.
  apply IH in E; [|apply byte_step_lt; [exact Hs|lia]].
  unfold byte_step in E. rewrite N.lxor_0_r in E. apply iter_bit_step_kernel in E; assumption.
Qed.

Theorem crc0_unit_err n i d : (i < n)%nat -> 0 < d < 256 -> crc0 (unit_err n i d) <> 0.
Proof.
  intros Hi Hd E. unfold crc0, unit_err in E.
  rewrite crc_from_app, crc_from_zeros_0 in E.
  change (crc_from 0 (d :: zeros (n - S i))) with (crc_from (byte_step 0 d) (zeros (n - S i))) in E.
  apply crc_from_zeros_kernel in E; [|apply byte_step_lt; lia].
  unfold byte_step in E. rewrite N.lxor_0_l in E. apply iter_bit_step_kernel in E; lia.
Qed.

Lemma flip_at_xorl : forall f i d, (i < length f)%nat -> flip_at i d f = xorl f (unit_err (length f) i d).
Proof.
  unfold unit_err.
  induction f as [|x f IH]; intros i d Hi; [cbn in Hi; lia|].
  destruct i as [|i]; cbn [flip_at length].
  - replace (S (length f) - 1)%nat with (length f) by lia.
    cbn [zeros repeat app xorl]. fold (zeros (length f)). rewrite xorl_zeros_r. reflexivity.
  - cbn [zeros repeat app xorl]. fold (zeros i). rewrite N.lxor_0_r. f_equal.
    replace (S (length f) - S (S i))%nat with (length f - S i)%nat by lia. apply IH. cbn in Hi. lia.
Qed.
Lemma unit_err_length n i d : (i < n)%nat -> length (unit_err n i d) = n.
Proof. intros H. unfold unit_err. rewrite app_length. cbn [length]. rewrite !zeros_length. lia. Qed.
Lemma zeros_ok n : bytes_ok (zeros n).
Proof. apply Forall_forall. intros x Hx. apply repeat_spec in Hx. subst. reflexivity. Qed.
Lemma unit_err_ok n i d : d < 256 -> bytes_ok (unit_err n i d).
Proof.
  intros H. unfold unit_err. apply bytes_ok_app. split; [apply zeros_ok|].
  apply bytes_ok_cons. split; [exact H|apply zeros_ok].
Qed.

(* any change confined to one byte of a frame -- body or trailer, any frame length -- leaves a
   non-zero register and is refused by the receiver's check *)
Theorem single_byte_error_detected m i d :
  bytes_ok m -> (i < length m + 2)%nat -> 0 < d < 256 ->
  crc16 (flip_at i d (with_crc m)) <> 0 /\ frame_check (flip_at i d (with_crc m)) = false.
Proof.
  intros Hm Hi Hd.
  rewrite flip_at_xorl by (rewrite with_crc_length; exact Hi). rewrite with_crc_length.
  pose proof (crc0_unit_err (length m + 2) i d Hi Hd) as NZ.
  split.
  - rewrite corrupted_frame_register; [exact NZ|exact Hm|apply unit_err_length, Hi].
  - destruct (frame_check _) eqn:F; [|reflexivity]. exfalso. apply NZ.
    apply (corrupted_frame_check m); [exact Hm|apply unit_err_ok; lia|apply unit_err_length, Hi|exact F].
Qed.

Corollary single_bit_error_detected m i j :
  bytes_ok m -> (i < length m + 2)%nat -> j < 8 ->
  crc16 (flip_at i (2 ^ j) (with_crc m)) <> 0 /\ frame_check (flip_at i (2 ^ j) (with_crc m)) = false.
Proof.
  intros Hm Hi Hj. apply single_byte_error_detected; [exact Hm|exact Hi|].
  split; [apply N.neq_0_lt_0, N.pow_nonzero; lia|].
  change 256 with (2 ^ 8). apply N.pow_lt_mono_r; lia.
Qed.

(* --- 5b. bursts of length <= 16 ---------------------------------------------------------------- *)
Lemma feed_false c : feed c false = bit_step c.
Proof. unfold feed. cbn [N.b2n]. rewrite N.lxor_0_r. reflexivity. Qed.
Lemma crc_bits_false n : forall c, crc_bits c (repeat false n) = iter n bit_step c.
Proof.
  unfold crc_bits. induction n as [|n IH]; intros c; [reflexivity|].
  cbn [repeat fold_left iter]. rewrite feed_false. apply IH.
Qed.
Lemma crc_bits_lt bs c : c < 65536 -> crc_bits c bs < 65536.
Proof. intros H. exact (proj2 (crc_bits_reflect bs c H)). Qed.

Lemma N_of_bv_0 : forall v, N_of_bv v = 0 -> ~ In true v.
Proof.
  induction v as [|b v IH]; intros E; [intros []|]. cbn [N_of_bv] in E.
  intros [->|H]; [lia|]. apply IH; [destruct b; lia|exact H].
Qed.

(* a window of at most 16 bits that contains a 1, fed into the zero register, leaves it non-zero:
   16 bits v fed serially are 16 bit steps of v (linearity), and the bit step has trivial kernel *)
Lemma window_nonzero w : (length w <= 16)%nat -> In true w -> crc_bits 0 w <> 0.
Proof.
  intros L T E.
  set (w' := w ++ repeat false (16 - length w)).
  assert (L' : length w' = 16%nat) by (unfold w'; rewrite app_length, repeat_length; lia).
  assert (E' : crc_bits 0 w' = 0).
  { unfold w'. rewrite crc_bits_app, E, crc_bits_false. apply iter_bit_step_0. }
  pose proof (N_of_bv_bound w') as B. rewrite L' in B.
  pose proof (iter_feed 16 0 (N_of_bv w') B) as F.
  rewrite <- L' in F at 2. rewrite bv_canonical, E', N.lxor_0_l in F.
  apply iter_bit_step_kernel in F; [|exact B].
  apply (N_of_bv_0 w' F). unfold w'. apply in_or_app. left. exact T.
Qed.

Theorem crc0_burst16 e : bytes_ok e -> burst16 e -> crc0 e <> 0.
Proof.
  intros Hok [k [w [j [Hb [L T]]]]] E. unfold crc0 in E.
  rewrite crc_from_bits, Hb, !crc_bits_app in E by exact Hok.
  rewrite (crc_bits_false k 0), iter_bit_step_0 in E. rewrite crc_bits_false in E.
  apply iter_bit_step_kernel in E; [|apply crc_bits_lt; reflexivity].
  exact (window_nonzero w L T E).
Qed.

Theorem burst16_error_detected m e :
  bytes_ok m -> bytes_ok e -> length e = (length m + 2)%nat -> burst16 e ->
  crc16 (xorl (with_crc m) e) <> 0 /\ frame_check (xorl (with_crc m) e) = false.
Proof.
  intros Hm Hok He Hb. pose proof (crc0_burst16 e Hok Hb) as NZ. split.
  - rewrite corrupted_frame_register by assumption. exact NZ.
  - destruct (frame_check _) eqn:F; [|reflexivity]. exfalso. apply NZ.
    apply (corrupted_frame_check m); assumption.
Qed.

(* single-byte errors are bursts (so 5a is an instance of 5b; kept separately because its statement
   needs no bit-stream vocabulary) *)
Lemma msg_bits_app a b : msg_bits (a ++ b) = msg_bits a ++ msg_bits b.
Proof. unfold msg_bits. apply flat_map_app. Qed.
Lemma msg_bits_zeros n : msg_bits (zeros n) = repeat false (8 * n).
Proof.
  induction n as [|n IH]; [reflexivity|].
  change (msg_bits (zeros (S n))) with (bits8 0 ++ msg_bits (zeros n)). rewrite IH.
  replace (8 * S n)%nat with (8 + 8 * n)%nat by lia. rewrite repeat_app. reflexivity.
Qed.
Lemma unit_err_burst16 n i d : 0 < d < 256 -> burst16 (unit_err n i d).
Proof.
  intros Hd. exists (8 * i)%nat, (bits8 d), (8 * (n - S i))%nat. split; [|split].
  - unfold unit_err. change (d :: zeros (n - S i)) with ([d] ++ zeros (n - S i)).
    rewrite !msg_bits_app, !msg_bits_zeros. cbn [msg_bits flat_map]. rewrite app_nil_r. reflexivity.
  - unfold bits8. rewrite bv_of_N_length. lia.
  - destruct (in_dec Bool.bool_dec true (bits8 d)) as [I|NI]; [exact I|exfalso].
    assert (Z : N_of_bv (bits8 d) = 0).
    { clear - NI. induction (bits8 d) as [|b v IH]; [reflexivity|]. cbn [N_of_bv].
      destruct b; [exfalso; apply NI; left; reflexivity|]. rewrite IH; [reflexivity|].
      intros H. apply NI. right. exact H. }
    rewrite N_of_bits8 in Z by lia. lia.
Qed.
