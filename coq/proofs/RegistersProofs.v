(* RegistersProofs.v -- proofs for C04 (typed register access = the addressed wire bytes or an
   error) and C13 (reading never changes the response) over RegistersModel.v / RegistersSpec.v. *)
From Coq Require Import ZifyBool ZifyN ZifyNat Permutation.
Require Import MB.GoSem MB.RegistersSpec MB.RegistersModel.
Open Scope N_scope.
Ltac Zify.zify_post_hook ::= Z.div_mod_to_equations.

(* ---------- how the theorems are phrased ---------- *)
(* which error it is does not matter (texts are not modelled) *)
Definition forget {A} (x : rres A) : res unit A := map_err (fun _ => tt) x.
(* the outcome the specification prescribes *)
Definition expected {A} (o : option A) : res unit A :=
  match o with Some v => Ok v | None => Err tt end.

(* the Registers object over payload [d] starting at [start] with default order [dflt] *)
Definition regs_for (d : slice) (start dflt : N) : registers :=
  {| r_order := dflt; r_start := start; r_end := start + N.of_nat (slen d) / 2; r_data := d |}.

(* a response payload: a non-empty sequence of registers made of bytes *)
Definition payload_ok (l : list N) : Prop :=
  bytes_ok l /\ 2 <= N.of_nat (length l) /\ N.of_nat (length l) mod 2 = 0 /\ N.of_nat (length l) < 4294967296.

(* ---------- lists two elements at a time ---------- *)
Lemma list_ind2 {A} (P : list A -> Prop) :
  P [] -> (forall a, P [a]) -> (forall a b l, P l -> P (a :: b :: l)) -> forall l, P l.
Proof.
  intros H0 H1 H2. fix IH 1. intros [|a [|b l]]; [exact H0|apply H1|apply H2, IH].
Qed.

Lemma even_length_split : forall (k : nat) (l : list N), length l = (2 * k)%nat ->
  match k with O => l = [] | S k' => exists a b t, l = a :: b :: t /\ length t = (2 * k')%nat end.
Proof.
  intros [|k] l H.
  - destruct l; [reflexivity|discriminate].
  - destruct l as [|a [|b t]]; cbn in H; try lia. exists a, b, t. split; [reflexivity|lia].
Qed.

Lemma regs_of_len : forall (k : nat) l, length l = (2 * k)%nat -> length (regs_of l) = k.
Proof.
  induction k as [|k IH]; intros l H; pose proof (even_length_split _ _ H) as S; cbn in S.
  - subst l. reflexivity.
  - destruct S as (a & b & t & -> & Ht). cbn [regs_of length]. f_equal. apply IH. exact Ht.
Qed.

Lemma wire_regs_of : forall (k : nat) l, length l = (2 * k)%nat -> wire (regs_of l) = l.
Proof.
  induction k as [|k IH]; intros l H; pose proof (even_length_split _ _ H) as S; cbn in S.
  - subst l. reflexivity.
  - destruct S as (a & b & t & -> & Ht). cbn [regs_of wire flat_map reg_bytes fst snd app].
    f_equal. f_equal. apply IH. exact Ht.
Qed.

Lemma regs_of_app : forall (k : nat) a b, length a = (2 * k)%nat -> regs_of (a ++ b) = regs_of a ++ regs_of b.
Proof.
  induction k as [|k IH]; intros a b H; pose proof (even_length_split _ _ H) as S; cbn in S.
  - subst a. reflexivity.
  - destruct S as (x & y & t & -> & Ht). cbn [regs_of app]. f_equal. apply IH. exact Ht.
Qed.

Lemma regs_of_count l : N.of_nat (length (regs_of l)) = N.of_nat (length l) / 2.
Proof.
  induction l as [| |a b l IH] using list_ind2; [reflexivity|reflexivity|].
  cbn [regs_of length]. lia.
Qed.

(* ---------- the window, seen from the bytes ---------- *)
Lemma window_none payload start addr n :
  addr < start \/ start + N.of_nat (length payload) / 2 < addr + n ->
  window payload start addr n = None.
Proof.
  intros H. unfold window. rewrite regs_of_count.
  replace ((start <=? addr) && (addr + n <=? start + N.of_nat (length payload) / 2)) with false by lia.
  reflexivity.
Qed.

Lemma window_some payload start addr n :
  N.of_nat (length payload) mod 2 = 0 ->
  start <= addr -> addr + n <= start + N.of_nat (length payload) / 2 ->
  exists pre w post, payload = pre ++ w ++ post /\
    length pre = (2 * N.to_nat (addr - start))%nat /\ length w = (2 * N.to_nat n)%nat /\
    window payload start addr n = Some (regs_of w).
Proof.
  intros Hev H1 H2.
  set (i := N.to_nat (addr - start)). set (m := N.to_nat n).
  exists (firstn (2 * i) payload), (firstn (2 * m) (skipn (2 * i) payload)), (skipn (2 * m) (skipn (2 * i) payload)).
  assert (Hlp : length (firstn (2 * i) payload) = (2 * i)%nat) by (apply firstn_length_le; lia).
  assert (Hlw : length (firstn (2 * m) (skipn (2 * i) payload)) = (2 * m)%nat)
    by (apply firstn_length_le; rewrite skipn_length; lia).
  split; [rewrite (firstn_skipn (2 * m)), (firstn_skipn (2 * i)); reflexivity|].
  split; [exact Hlp|]. split; [exact Hlw|].
  unfold window. rewrite regs_of_count.
  replace ((start <=? addr) && (addr + n <=? start + N.of_nat (length payload) / 2)) with true by lia.
  f_equal. fold i. fold m.
  rewrite <- (firstn_skipn (2 * i) payload) at 1.
  rewrite (regs_of_app i) by exact Hlp.
  rewrite skipn_app, (regs_of_len i) by exact Hlp.
  rewrite skipn_all2 by (rewrite (regs_of_len i) by exact Hlp; lia).
  rewrite Nat.sub_diag. cbn [skipn app].
  rewrite <- (firstn_skipn (2 * m) (skipn (2 * i) payload)) at 1.
  rewrite (regs_of_app m) by exact Hlw.
  rewrite firstn_app, (regs_of_len m) by exact Hlw.
  rewrite Nat.sub_diag, firstn_O, app_nil_r.
  apply firstn_all2. rewrite (regs_of_len m) by exact Hlw. lia.
Qed.

(* ---------- slices over a decomposed payload ---------- *)
Lemma sub_window {E} d pre w post : vis d = pre ++ w ++ post ->
  @sub E d (length pre) (length pre + length w) = Ok w.
Proof.
  intros H. rewrite sub_in by (unfold slen; rewrite ?H, ?app_length; lia).
  f_equal. rewrite H. rewrite skipn_app, skipn_all, Nat.sub_diag. cbn [skipn app].
  replace (length pre + length w - length pre)%nat with (length w) by lia.
  rewrite firstn_app, firstn_all, Nat.sub_diag, firstn_O, app_nil_r. reflexivity.
Qed.

Lemma idx_window {E} d pre w post k x : vis d = pre ++ w ++ post ->
  nth_error w k = Some x -> @idx E d (length pre + k) = Ok x.
Proof.
  intros H Hk. unfold idx. rewrite H.
  rewrite nth_error_app2 by lia. replace (length pre + k - length pre)%nat with k by lia.
  rewrite nth_error_app1 by (apply nth_error_Some; rewrite Hk; discriminate).
  rewrite Hk. reflexivity.
Qed.
Lemma idx_window0 {E} d pre w post x : vis d = pre ++ w ++ post ->
  nth_error w 0 = Some x -> @idx E d (length pre) = Ok x.
Proof. intros H Hk. rewrite <- (Nat.add_0_r (length pre)). eapply idx_window; eassumption. Qed.

(* ---------- the flags: the model's masks are the specification's bits ---------- *)
Lemma land_pow2 b k : N.land b (2 ^ k) = if N.testbit b k then 2 ^ k else 0.
Proof.
  apply N.bits_inj. intros m. rewrite N.land_spec, N.pow2_bits_eqb.
  destruct (N.eqb_spec k m) as [->|Hne].
  - rewrite andb_true_r. destruct (N.testbit b m) eqn:E.
    + rewrite N.pow2_bits_true. reflexivity.
    + rewrite N.bits_0. reflexivity.
  - rewrite andb_false_r. destruct (N.testbit b k).
    + rewrite N.pow2_bits_false by congruence. reflexivity.
    + rewrite N.bits_0. reflexivity.
Qed.
Lemma mask_is_bit b k : negb (N.land b (2 ^ k) =? 0) = N.testbit b k.
Proof.
  rewrite land_pow2. destruct (N.testbit b k); [|reflexivity].
  pose proof (N.pow_nonzero 2 k). destruct (2 ^ k =? 0) eqn:E; [lia|reflexivity].
Qed.
Lemma has_big bo : has bo BigEndian = big_endian bo.
Proof. exact (mask_is_bit bo 0). Qed.
Lemma has_little bo : has bo LittleEndian = little_endian bo.
Proof. exact (mask_is_bit bo 1). Qed.
Lemma has_lwf bo : has bo LowWordFirst = low_word_first bo.
Proof. exact (mask_is_bit bo 2). Qed.

(* ---------- register / doubleRegister / quadRegister return exactly the window ---------- *)
Ltac window_bytes Hpay Hp w :=
  let Hb := fresh "Hb" in
  assert (Hb : bytes_ok w)
    by (destruct Hpay as [Hb _]; rewrite Hp in Hb; apply bytes_ok_app in Hb; destruct Hb as [_ Hb];
        apply bytes_ok_app in Hb; exact (proj1 Hb));
  repeat (apply bytes_ok_cons in Hb; let B := fresh "B" in destruct Hb as [B Hb]).

Section Window.
Variables (d : slice) (start dflt addr : N).
Hypothesis Hpay : payload_ok (vis d).
Hypothesis Hstart : start < 65536.
Hypothesis Haddr : addr < 65536.
Local Notation r := (regs_for d start dflt).

Lemma register_cases :
  (exists e, register r addr = Err e /\ window (vis d) start addr 1 = None) \/
  (exists w0 w1, register r addr = Ok [w0; w1] /\
     window (vis d) start addr 1 = Some [(w0, w1)] /\ w0 < 256 /\ w1 < 256).
Proof.
  destruct Hpay as (Hbytes & Hlen & Heven & Hbig). unfold slen in *.
  unfold register, regs_for; cbn [r_start r_end r_data]. unfold slen.
  destruct (addr <? start) eqn:E1.
  { left. eexists. split; [reflexivity|]. apply window_none. lia. }
  destruct (start + N.of_nat (length (vis d)) / 2 <=? u32 addr) eqn:E2.
  { left. eexists. split; [reflexivity|]. apply window_none. unfold u32 in E2. lia. }
  right. unfold u32 in E2.
  destruct (window_some (vis d) start addr 1) as (pre & w & post & Hp & Hlp & Hlw & Hwin); [lia|lia|lia|].
  change (2 * N.to_nat 1)%nat with 2%nat in Hlw.
  destruct w as [|w0 [|w1 [|? ?]]]; try discriminate Hlw.
  exists w0, w1.
  replace (N.to_nat (sub16 addr start) * 2)%nat with (length pre) by (rewrite Hlp; unfold sub16, u16; lia).
  change (length pre + 2)%nat with (length pre + length [w0; w1])%nat.
  rewrite (sub_window d pre [w0; w1] post Hp).
  window_bytes Hpay Hp [w0; w1].
  split; [reflexivity|]. split; [exact Hwin|]. split; assumption.
Qed.

Lemma double_register_cases bo :
  (exists e, double_register r addr bo = Err e /\ window (vis d) start addr 2 = None) \/
  (exists w0 w1 w2 w3,
     double_register r addr bo = Ok (if low_word_first bo then [w2; w3; w0; w1] else [w0; w1; w2; w3]) /\
     window (vis d) start addr 2 = Some [(w0, w1); (w2, w3)] /\
     w0 < 256 /\ w1 < 256 /\ w2 < 256 /\ w3 < 256).
Proof.
  destruct Hpay as (Hbytes & Hlen & Heven & Hbig). unfold slen in *.
  unfold double_register, regs_for; cbn [r_start r_end r_data]. unfold slen.
  destruct (addr <? start) eqn:E1.
  { left. eexists. split; [reflexivity|]. apply window_none. lia. }
  destruct (start + N.of_nat (length (vis d)) / 2 <? u32 (u32 addr + 2)) eqn:E2.
  { left. eexists. split; [reflexivity|]. apply window_none. unfold u32 in E2. lia. }
  right. unfold u32 in E2.
  destruct (window_some (vis d) start addr 2) as (pre & w & post & Hp & Hlp & Hlw & Hwin); [lia|lia|lia|].
  change (2 * N.to_nat 2)%nat with 4%nat in Hlw.
  destruct w as [|w0 [|w1 [|w2 [|w3 [|? ?]]]]]; try discriminate Hlw.
  exists w0, w1, w2, w3.
  replace (N.to_nat (sub16 addr start) * 2)%nat with (length pre) by (rewrite Hlp; unfold sub16, u16; lia).
  window_bytes Hpay Hp [w0; w1; w2; w3].
  rewrite has_lwf. destruct (low_word_first bo).
  - rewrite (idx_window d pre [w0; w1; w2; w3] post 2 w2 Hp eq_refl).
    rewrite (idx_window d pre [w0; w1; w2; w3] post 3 w3 Hp eq_refl).
    rewrite (idx_window0 d pre [w0; w1; w2; w3] post w0 Hp eq_refl).
    rewrite (idx_window d pre [w0; w1; w2; w3] post 1 w1 Hp eq_refl).
    cbn [bind]. split; [reflexivity|]. split; [exact Hwin|]. repeat split; assumption.
  - change (length pre + 4)%nat with (length pre + length [w0; w1; w2; w3])%nat.
    rewrite (sub_window d pre [w0; w1; w2; w3] post Hp).
    split; [reflexivity|]. split; [exact Hwin|]. repeat split; assumption.
Qed.

Lemma quad_register_cases bo :
  (exists e, quad_register r addr bo = Err e /\ window (vis d) start addr 4 = None) \/
  (exists w0 w1 w2 w3 w4 w5 w6 w7,
     quad_register r addr bo = Ok (if low_word_first bo then [w6; w7; w4; w5; w2; w3; w0; w1]
                                   else [w0; w1; w2; w3; w4; w5; w6; w7]) /\
     window (vis d) start addr 4 = Some [(w0, w1); (w2, w3); (w4, w5); (w6, w7)] /\
     w0 < 256 /\ w1 < 256 /\ w2 < 256 /\ w3 < 256 /\ w4 < 256 /\ w5 < 256 /\ w6 < 256 /\ w7 < 256).
Proof.
  destruct Hpay as (Hbytes & Hlen & Heven & Hbig). unfold slen in *.
  unfold quad_register, regs_for; cbn [r_start r_end r_data]. unfold slen.
  destruct (addr <? start) eqn:E1.
  { left. eexists. split; [reflexivity|]. apply window_none. lia. }
  destruct (start + N.of_nat (length (vis d)) / 2 <? u32 (u32 addr + 4)) eqn:E2.
  { left. eexists. split; [reflexivity|]. apply window_none. unfold u32 in E2. lia. }
  right. unfold u32 in E2.
  destruct (window_some (vis d) start addr 4) as (pre & w & post & Hp & Hlp & Hlw & Hwin); [lia|lia|lia|].
  change (2 * N.to_nat 4)%nat with 8%nat in Hlw.
  destruct w as [|w0 [|w1 [|w2 [|w3 [|w4 [|w5 [|w6 [|w7 [|? ?]]]]]]]]]; try discriminate Hlw.
  exists w0, w1, w2, w3, w4, w5, w6, w7.
  replace (N.to_nat (sub16 addr start) * 2)%nat with (length pre) by (rewrite Hlp; unfold sub16, u16; lia).
  window_bytes Hpay Hp [w0; w1; w2; w3; w4; w5; w6; w7].
  rewrite has_lwf. destruct (low_word_first bo).
  - rewrite (idx_window d pre [w0; w1; w2; w3; w4; w5; w6; w7] post 6 w6 Hp eq_refl).
    rewrite (idx_window d pre [w0; w1; w2; w3; w4; w5; w6; w7] post 7 w7 Hp eq_refl).
    rewrite (idx_window d pre [w0; w1; w2; w3; w4; w5; w6; w7] post 4 w4 Hp eq_refl).
    rewrite (idx_window d pre [w0; w1; w2; w3; w4; w5; w6; w7] post 5 w5 Hp eq_refl).
    rewrite (idx_window d pre [w0; w1; w2; w3; w4; w5; w6; w7] post 2 w2 Hp eq_refl).
    rewrite (idx_window d pre [w0; w1; w2; w3; w4; w5; w6; w7] post 3 w3 Hp eq_refl).
    rewrite (idx_window0 d pre [w0; w1; w2; w3; w4; w5; w6; w7] post w0 Hp eq_refl).
    rewrite (idx_window d pre [w0; w1; w2; w3; w4; w5; w6; w7] post 1 w1 Hp eq_refl).
    cbn [bind]. split; [reflexivity|]. split; [exact Hwin|]. repeat split; assumption.
  - change (length pre + 8)%nat with (length pre + length [w0; w1; w2; w3; w4; w5; w6; w7])%nat.
    rewrite (sub_window d pre [w0; w1; w2; w3; w4; w5; w6; w7] post Hp).
    split; [reflexivity|]. split; [exact Hwin|]. repeat split; assumption.
Qed.

(* ---------- numbers ---------- *)
Lemma signed8 x : x < 256 -> to_signed 8 x = twos 8 x.
Proof.
  intros H. unfold to_signed, twos. change (2 ^ (8 - 1)) with 128. change (2 ^ 8) with 256.
  destruct (x <? 128) eqn:E; lia.
Qed.
Lemma signed16 x : x < 65536 -> to_signed 16 x = twos 16 x.
Proof.
  intros H. unfold to_signed, twos. change (2 ^ (16 - 1)) with 32768. change (2 ^ 16) with 65536.
  destruct (x <? 32768) eqn:E; lia.
Qed.
Lemma signed32 x : x < 4294967296 -> to_signed 32 x = twos 32 x.
Proof.
  intros H. unfold to_signed, twos. change (2 ^ (32 - 1)) with 2147483648. change (2 ^ 32) with 4294967296.
  destruct (x <? 2147483648) eqn:E; lia.
Qed.
Lemma signed64 x : x < 18446744073709551616 -> to_signed 64 x = twos 64 x.
Proof.
  intros H. unfold to_signed, twos. change (2 ^ (64 - 1)) with 9223372036854775808.
  change (2 ^ 64) with 18446744073709551616.
  destruct (x <? 9223372036854775808) eqn:E; lia.
Qed.

Ltac spec_none Hw :=
  cbn [bind vint vz vbytes map_ok forget map_err fst];
  unfold spec_access; cbn [well_formed size_of]; rewrite Hw; reflexivity.
Ltac spec_some Hw :=
  unfold spec_access; cbn [well_formed size_of]; rewrite Hw; cbn [option_map expected decode].
Ltac crunch :=
  cbn [bind lidx nth_error bin_le16 bin_be16 bin_le32 bin_be32 bin_le64 bin_be64 vint vz vbytes map_ok forget map_err fst];
  cbn [unsigned image reg_value rev app wire flat_map reg_bytes fst snd lsb_first msb_first fold_left].

(* one register *)
Lemma access_Register :
  forget (fst (access r ARegister addr)) = expected (spec_access (vis d) start dflt ARegister addr).
Proof.
  cbn [access fst]. unfold Register.
  destruct register_cases as [(e & -> & Hw)|(w0 & w1 & -> & Hw & B0 & B1)]; [spec_none Hw|].
  spec_some Hw. crunch. reflexivity.
Qed.

Lemma access_Uint8 hi :
  forget (fst (access r (AUint8 hi) addr)) = expected (spec_access (vis d) start dflt (AUint8 hi) addr).
Proof.
  cbn [access fst]. unfold Uint8.
  destruct register_cases as [(e & -> & Hw)|(w0 & w1 & -> & Hw & B0 & B1)]; [spec_none Hw|].
  spec_some Hw. destruct hi; crunch; do 3 f_equal; lia.
Qed.

Lemma access_Byte hi :
  forget (fst (access r (AByte hi) addr)) = expected (spec_access (vis d) start dflt (AByte hi) addr).
Proof. exact (access_Uint8 hi). Qed.

Lemma access_Int8 hi :
  forget (fst (access r (AInt8 hi) addr)) = expected (spec_access (vis d) start dflt (AInt8 hi) addr).
Proof.
  cbn [access fst]. unfold Int8.
  destruct register_cases as [(e & -> & Hw)|(w0 & w1 & -> & Hw & B0 & B1)]; [spec_none Hw|].
  spec_some Hw. destruct hi; crunch; do 2 f_equal.
  - rewrite signed8 by lia. f_equal. lia.
  - rewrite signed8 by lia. f_equal. lia.
Qed.

Lemma access_Uint16 :
  forget (fst (access r AUint16 addr)) = expected (spec_access (vis d) start dflt AUint16 addr).
Proof.
  cbn [access fst]. unfold Uint16.
  destruct register_cases as [(e & -> & Hw)|(w0 & w1 & -> & Hw & B0 & B1)]; [spec_none Hw|].
  spec_some Hw. cbn [r_order regs_for]. rewrite has_little.
  unfold unsigned, image. destruct (low_word_first dflt), (little_endian dflt); crunch; do 3 f_equal; lia.
Qed.

Lemma access_Int16 :
  forget (fst (access r AInt16 addr)) = expected (spec_access (vis d) start dflt AInt16 addr).
Proof.
  cbn [access fst]. unfold Int16.
  destruct register_cases as [(e & -> & Hw)|(w0 & w1 & -> & Hw & B0 & B1)]; [spec_none Hw|].
  spec_some Hw. cbn [r_order regs_for]. rewrite has_little.
  unfold unsigned, image. destruct (low_word_first dflt), (little_endian dflt); crunch; do 2 f_equal;
    rewrite signed16 by lia; f_equal; lia.
Qed.

Lemma access_Bit bit :
  forget (fst (access r (ABit bit) addr)) = expected (spec_access (vis d) start dflt (ABit bit) addr).
Proof.
  cbn [access fst]. unfold Bit, spec_access. cbn [well_formed size_of].
  destruct (15 <? bit) eqn:E15.
  { replace (bit <=? 15) with false by lia. reflexivity. }
  replace (bit <=? 15) with true by lia.
  destruct register_cases as [(e & -> & Hw)|(w0 & w1 & -> & Hw & B0 & B1)].
  { rewrite Hw. reflexivity. }
  rewrite Hw. cbn [option_map expected decode bind]. crunch.
  assert (Hv : 0 * 256 + w0 = w0) by lia. 
  destruct (7 <? bit) eqn:E7; cbn [lidx nth_error bind map_ok forget map_err]; do 2 f_equal.
  - (* high byte *)
    assert (Hs : sub8 bit 8 = bit - 8) by (unfold sub8, u8; lia). rewrite Hs.
    rewrite N.shiftl_1_l.
    assert (Hp : 2 ^ (bit - 8) < 2 ^ 8) by (apply N.pow_lt_mono_r; lia). change (2 ^ 8) with 256 in Hp.
    unfold u8. rewrite N.mod_small by exact Hp. rewrite mask_is_bit.
    replace bit with ((bit - 8) + 8) at 2 by lia. rewrite <- N.div_pow2_bits.
    f_equal. change (2 ^ 8) with 256. lia.
  - (* low byte *)
    rewrite N.shiftl_1_l.
    assert (Hp : 2 ^ bit < 2 ^ 8) by (apply N.pow_lt_mono_r; lia). change (2 ^ 8) with 256 in Hp.
    unfold u8. rewrite N.mod_small by exact Hp. rewrite mask_is_bit.
    rewrite <- (N.mod_pow2_bits_low ((0 * 256 + w0) * 256 + w1) 8 bit) by lia.
    f_equal. change (2 ^ 8) with 256. lia.
Qed.

(* two registers *)
Lemma uint32_with_order o :
  forget (let* b := double_register r addr o in
          if has o LittleEndian then bin_le32 b else bin_be32 b) =
  expected (option_map (unsigned o) (window (vis d) start addr 2)) /\
  (forall x, (let* b := double_register r addr o in
              if has o LittleEndian then bin_le32 b else bin_be32 b) = Ok x -> x < 4294967296).
Proof.
  destruct (double_register_cases o) as [(e & -> & Hw)|(w0 & w1 & w2 & w3 & -> & Hw & B0 & B1 & B2 & B3)].
  { rewrite Hw. split; [reflexivity|]. intros x Hx. discriminate Hx. }
  rewrite Hw, has_little. cbn [option_map expected]. unfold unsigned, image.
  destruct (low_word_first o), (little_endian o); crunch;
    (split; [do 2 f_equal; lia|intros x Hx; injection Hx as <-; lia]).
Qed.

Lemma uint64_with_order o :
  forget (let* b := quad_register r addr o in
          if has o LittleEndian then bin_le64 b else bin_be64 b) =
  expected (option_map (unsigned o) (window (vis d) start addr 4)) /\
  (forall x, (let* b := quad_register r addr o in
              if has o LittleEndian then bin_le64 b else bin_be64 b) = Ok x -> x < 18446744073709551616).
Proof.
  destruct (quad_register_cases o)
    as [(e & -> & Hw)|(w0 & w1 & w2 & w3 & w4 & w5 & w6 & w7 & -> & Hw & B0 & B1 & B2 & B3 & B4 & B5 & B6 & B7)].
  { rewrite Hw. split; [reflexivity|]. intros x Hx. discriminate Hx. }
  rewrite Hw, has_little. cbn [option_map expected]. unfold unsigned, image.
  destruct (low_word_first o), (little_endian o); crunch;
    (split; [do 2 f_equal; lia|intros x Hx; injection Hx as <-; lia]).
Qed.

Lemma lift_access {A} (x : rres A) (W : option (list (N * N))) (u : list (N * N) -> A)
      (f : A -> aval) (g : list (N * N) -> aval) :
  forget x = expected (option_map u W) ->
  (forall regs, W = Some regs -> x = Ok (u regs) -> f (u regs) = g regs) ->
  forget (map_ok f x) = expected (option_map g W).
Proof.
  intros H Hf. destruct W as [regs|], x as [v|e|]; cbn in *; try discriminate; try reflexivity.
  injection H as ->. rewrite (Hf regs eq_refl eq_refl). reflexivity.
Qed.
Lemma map_ok_bind_ok {A B C} (g : B -> C) (f : A -> B) (x : rres A) :
  map_ok g (let* v := x in Ok (f v)) = map_ok (fun v => g (f v)) x.
Proof. destruct x; reflexivity. Qed.

Ltac open_spec := unfold spec_access; cbn [well_formed size_of access fst].

Lemma access_u32 o (a : accessor) :
  size_of a = 2 -> well_formed a = true ->
  (forall regs, decode dflt a regs = VInt (Z.of_N (unsigned o regs))) ->
  forget (vint (let* b := double_register r addr o in
                if has o LittleEndian then bin_le32 b else bin_be32 b)) =
  expected (spec_access (vis d) start dflt a addr).
Proof.
  intros Hs Hwf Hdec. unfold spec_access. rewrite Hs, Hwf. unfold vint.
  apply (lift_access _ _ (unsigned o)); [exact (proj1 (uint32_with_order o))|].
  intros regs _ _. rewrite Hdec. reflexivity.
Qed.
Lemma access_i32 o (a : accessor) :
  size_of a = 2 -> well_formed a = true ->
  (forall regs, decode dflt a regs = VInt (twos 32 (unsigned o regs))) ->
  forget (vz (let* x := (let* b := double_register r addr o in
                         if has o LittleEndian then bin_le32 b else bin_be32 b) in Ok (to_signed 32 x))) =
  expected (spec_access (vis d) start dflt a addr).
Proof.
  intros Hs Hwf Hdec. unfold spec_access. rewrite Hs, Hwf. unfold vz. rewrite map_ok_bind_ok.
  apply (lift_access _ _ (unsigned o)); [exact (proj1 (uint32_with_order o))|].
  intros regs _ Hx. rewrite Hdec. rewrite signed32; [reflexivity|].
  exact (proj2 (uint32_with_order o) _ Hx).
Qed.
Lemma access_u64 o (a : accessor) :
  size_of a = 4 -> well_formed a = true ->
  (forall regs, decode dflt a regs = VInt (Z.of_N (unsigned o regs))) ->
  forget (vint (let* b := quad_register r addr o in
                if has o LittleEndian then bin_le64 b else bin_be64 b)) =
  expected (spec_access (vis d) start dflt a addr).
Proof.
  intros Hs Hwf Hdec. unfold spec_access. rewrite Hs, Hwf. unfold vint.
  apply (lift_access _ _ (unsigned o)); [exact (proj1 (uint64_with_order o))|].
  intros regs _ _. rewrite Hdec. reflexivity.
Qed.
Lemma access_i64 o (a : accessor) :
  size_of a = 4 -> well_formed a = true ->
  (forall regs, decode dflt a regs = VInt (twos 64 (unsigned o regs))) ->
  forget (vz (let* x := (let* b := quad_register r addr o in
                         if has o LittleEndian then bin_le64 b else bin_be64 b) in Ok (to_signed 64 x))) =
  expected (spec_access (vis d) start dflt a addr).
Proof.
  intros Hs Hwf Hdec. unfold spec_access. rewrite Hs, Hwf. unfold vz. rewrite map_ok_bind_ok.
  apply (lift_access _ _ (unsigned o)); [exact (proj1 (uint64_with_order o))|].
  intros regs _ Hx. rewrite Hdec. rewrite signed64; [reflexivity|].
  exact (proj2 (uint64_with_order o) _ Hx).
Qed.

(* the raw multi-register accessors *)
Lemma access_DoubleRegister bo :
  forget (fst (access r (ADoubleRegister bo) addr)) =
  expected (spec_access (vis d) start dflt (ADoubleRegister bo) addr).
Proof.
  open_spec. unfold DoubleRegister.
  destruct (double_register_cases bo) as [(e & -> & Hw)|(w0 & w1 & w2 & w3 & -> & Hw & _)].
  { rewrite Hw. reflexivity. }
  rewrite Hw. cbn [option_map expected decode]. unfold image.
  destruct (low_word_first bo); crunch; reflexivity.
Qed.
Lemma access_QuadRegister bo :
  forget (fst (access r (AQuadRegister bo) addr)) =
  expected (spec_access (vis d) start dflt (AQuadRegister bo) addr).
Proof.
  open_spec. unfold QuadRegister.
  destruct (quad_register_cases bo) as [(e & -> & Hw)|(w0 & w1 & w2 & w3 & w4 & w5 & w6 & w7 & -> & Hw & _)].
  { rewrite Hw. reflexivity. }
  rewrite Hw. cbn [option_map expected decode]. unfold image.
  destruct (low_word_first bo); crunch; reflexivity.
Qed.

(* ---------- strings ---------- *)
(* the swap loop of StringWithByteOrder exchanges the two bytes of every register *)
Fixpoint swap_pairs (l : list N) : list N :=
  match l with a :: b :: t => b :: a :: swap_pairs t | _ => l end.

Lemma swap_loop_S fuel i raw :
  swap_loop (S fuel) i raw =
  if (i <? length raw)%nat then
    swap_loop fuel (S i)
      (if Nat.odd i then set_nth (set_nth raw (i - 1) (nth i raw 0)) i (nth (i - 1) raw 0) else raw)
  else raw.
Proof. reflexivity. Qed.

Lemma swap_step : forall pre a b t,
  set_nth (set_nth (pre ++ a :: b :: t) (length pre) (nth (S (length pre)) (pre ++ a :: b :: t) 0))
          (S (length pre)) (nth (length pre) (pre ++ a :: b :: t) 0) = pre ++ b :: a :: t.
Proof.
  induction pre as [|x pre IH]; intros a b t; [reflexivity|].
  cbn [app length nth set_nth]. f_equal. apply IH.
Qed.

Lemma swap_loop_pairs : forall rest pre fuel,
  Nat.even (length pre) = true -> (length rest <= fuel)%nat ->
  swap_loop fuel (S (length pre)) (pre ++ rest) = pre ++ swap_pairs rest.
Proof.
  induction rest as [| a |a b t IH] using list_ind2; intros pre fuel He Hf.
  - cbn [swap_pairs]. destruct fuel; [reflexivity|]. rewrite swap_loop_S, app_nil_r.
    replace (S (length pre) <? length pre)%nat with false by lia. reflexivity.
  - destruct fuel; [reflexivity|]. rewrite swap_loop_S, app_length. cbn [length].
    replace (S (length pre) <? length pre + 1)%nat with false by lia. reflexivity.
  - destruct fuel as [|[|f]]; cbn [length] in Hf; try lia.
    rewrite swap_loop_S.
    replace (S (length pre) <? length (pre ++ a :: b :: t))%nat with true
      by (rewrite app_length; cbn [length]; lia).
    rewrite Nat.odd_succ, He.
    replace (S (length pre) - 1)%nat with (length pre) by lia.
    rewrite swap_step.
    rewrite swap_loop_S.
    destruct (S (S (length pre)) <? length (pre ++ b :: a :: t))%nat eqn:Ec.
    + rewrite Nat.odd_succ, Nat.even_succ, <- Nat.negb_even, He. cbn [negb].
      replace (pre ++ b :: a :: t) with ((pre ++ [b; a]) ++ t) by (rewrite <- app_assoc; reflexivity).
      replace (S (S (S (length pre)))) with (S (length (pre ++ [b; a])))
        by (rewrite app_length; cbn [length]; lia).
      rewrite IH.
      * rewrite <- app_assoc. reflexivity.
      * rewrite app_length, Nat.even_add, He. reflexivity.
      * lia.
    + rewrite app_length in Ec. cbn [length] in Ec.
      destruct t as [|c t]; [reflexivity|cbn [length] in Ec; lia].
Qed.

Lemma swap_loop_is_swap_pairs w : swap_loop (length w) 1 w = swap_pairs w.
Proof. exact (swap_loop_pairs w [] (length w) eq_refl (le_n _)). Qed.

Lemma swap_pairs_length : forall l, length (swap_pairs l) = length l.
Proof.
  induction l as [| a |a b t IH] using list_ind2; [reflexivity|reflexivity|].
  cbn [swap_pairs length]. rewrite IH. reflexivity.
Qed.
Lemma swap_pairs_ok : forall l, bytes_ok l -> bytes_ok (swap_pairs l).
Proof.
  induction l as [| a |a b t IH] using list_ind2; intros H; [exact H|exact H|].
  cbn [swap_pairs]. apply bytes_ok_cons in H. destruct H as [Ha H].
  apply bytes_ok_cons in H. destruct H as [Hb H].
  apply bytes_ok_cons. split; [exact Hb|]. apply bytes_ok_cons. split; [exact Ha|]. apply IH. exact H.
Qed.
Lemma swap_pairs_chars : forall (k : nat) w, length w = (2 * k)%nat ->
  swap_pairs w = flat_map (fun r : N * N => [snd r; fst r]) (regs_of w).
Proof.
  induction k as [|k IH]; intros w H; pose proof (even_length_split _ _ H) as S; cbn in S.
  - subst w. reflexivity.
  - destruct S as (a & b & t & -> & Ht). cbn [swap_pairs regs_of flat_map fst snd app].
    f_equal. f_equal. apply IH. exact Ht.
Qed.

(* fmt's %c of a byte is the UTF-8 encoding of that code point *)
Lemma rune_sweep : forallb (fun b => list_eqb (append_rune b) (utf8 b)) (seqN 256) = true.
Proof. vm_compute. reflexivity. Qed.
Lemma append_rune_utf8 b : b < 256 -> append_rune b = utf8 b.
Proof.
  intros H. apply list_eqb_eq.
  exact (proj1 (forallb_forall _ _) rune_sweep b (in_seqN _ _ H)).
Qed.
Lemma build_string_text : forall l, bytes_ok l -> build_string l = flat_map utf8 (until_nul l).
Proof.
  induction l as [|c t IH]; intros H; [reflexivity|].
  apply bytes_ok_cons in H. destruct H as [Hc Ht].
  cbn [build_string until_nul]. destruct (c =? 0); [reflexivity|].
  cbn [flat_map]. rewrite append_rune_utf8 by exact Hc. rewrite IH by exact Ht. reflexivity.
Qed.

Lemma string_keeps_data rr a len bo : snd (StringWithByteOrder rr a len bo) = r_data rr.
Proof.
  unfold StringWithByteOrder.
  destruct (a <? r_start rr); [reflexivity|].
  match goal with |- context [if ?c then (Err EDataBounds, _) else _] => destruct c end; [reflexivity|].
  match goal with |- context [@sub ?E ?dd ?i ?j] => destruct (@sub E dd i j) end; try reflexivity.
  match goal with |- context [if ?c then (Panic, _) else _] => destruct c end; reflexivity.
Qed.

Lemma string_with_order len bo :
  forget (fst (StringWithByteOrder r addr len bo)) =
  expected (option_map (text (effective dflt bo) len) (window (vis d) start addr ((len + 1) / 2))).
Proof.
  destruct Hpay as (Hbytes & Hlen & Heven & Hbig).
  unfold StringWithByteOrder. cbn [r_data r_start r_order regs_for].
  change (if bo =? 0 then dflt else bo) with (effective dflt bo). set (o := effective dflt bo).
  destruct (addr <? start) eqn:E1.
  { rewrite window_none by lia. reflexivity. }
  set (ei := if negb (len mod 2 =? 0) then sub16 addr start * 2 + len + 1 else sub16 addr start * 2 + len).
  assert (Hei : ei = (addr - start) * 2 + 2 * ((len + 1) / 2)).
  { unfold ei, sub16, u16. destruct (negb (len mod 2 =? 0)) eqn:Eodd; lia. }
  unfold slen. destruct (N.of_nat (length (vis d)) <? ei) eqn:E2.
  { rewrite window_none by lia. reflexivity. }
  destruct (window_some (vis d) start addr ((len + 1) / 2)) as (pre & w & post & Hp & Hlp & Hlw & Hwin); [lia|lia|lia|].
  rewrite Hwin. cbn [option_map expected].
  replace (N.to_nat (sub16 addr start * 2)) with (length pre) by (rewrite Hlp; unfold sub16, u16; lia).
  replace (N.to_nat ei) with (length pre + length w)%nat by (rewrite Hlp, Hlw, Hei; lia).
  rewrite (sub_window d pre w post Hp).
  assert (Hbw : bytes_ok w).
  { rewrite Hp in Hbytes. apply bytes_ok_app in Hbytes. destruct Hbytes as [_ Hb].
    apply bytes_ok_app in Hb. exact (proj1 Hb). }
  rewrite has_big. unfold text, chars. destruct (big_endian o).
  - rewrite swap_loop_is_swap_pairs, swap_pairs_length.
    replace (length w <? N.to_nat len)%nat with false by lia.
    cbn [fst forget map_err]. do 1 f_equal.
    rewrite build_string_text by (apply bytes_ok_firstn, swap_pairs_ok; exact Hbw).
    rewrite (swap_pairs_chars _ w Hlw). reflexivity.
  - replace (length w <? N.to_nat len)%nat with false by lia.
    cbn [fst forget map_err]. do 1 f_equal.
    rewrite build_string_text by (apply bytes_ok_firstn; exact Hbw).
    change (flat_map (fun r0 : N * N => [fst r0; snd r0]) (regs_of w)) with (wire (regs_of w)).
    rewrite (wire_regs_of _ w Hlw). reflexivity.
Qed.

Lemma fst_let {A B C} (p : A * C) (f : A -> B) : fst (let '(x, dd) := p in (f x, dd)) = f (fst p).
Proof. destruct p; reflexivity. Qed.
Lemma snd_let {A B C} (p : A * C) (f : A -> B) : snd (let '(x, dd) := p in (f x, dd)) = snd p.
Proof. destruct p; reflexivity. Qed.

(* ---------- C04: every accessor returns the specified value of the addressed registers, or an
   error when one of them is outside the window ---------- *)
Theorem access_value a :
  forget (fst (access r a addr)) = expected (spec_access (vis d) start dflt a addr).
Proof.
  destruct a.
  - apply access_Bit.
  - apply access_Byte.
  - apply access_Uint8.
  - apply access_Int8.
  - apply access_Uint16.
  - apply access_Int16.
  - cbn [access fst]. unfold Uint32. cbn [r_order regs_for].
    apply access_u32; [reflexivity|reflexivity|intros; reflexivity].
  - cbn [access fst]. unfold Uint32WithByteOrder. cbn [r_order regs_for].
    change (if bo =? 0 then dflt else bo) with (effective dflt bo).
    apply access_u32; [reflexivity|reflexivity|intros; reflexivity].
  - cbn [access fst]. unfold Int32, Uint32. cbn [r_order regs_for].
    apply access_i32; [reflexivity|reflexivity|intros; reflexivity].
  - cbn [access fst]. unfold Int32WithByteOrder, Uint32WithByteOrder. cbn [r_order regs_for].
    change (if bo =? 0 then dflt else bo) with (effective dflt bo).
    apply access_i32; [reflexivity|reflexivity|intros; reflexivity].
  - cbn [access fst]. unfold Uint64. cbn [r_order regs_for].
    apply access_u64; [reflexivity|reflexivity|intros; reflexivity].
  - cbn [access fst]. unfold Uint64WithByteOrder. cbn [r_order regs_for].
    change (if bo =? 0 then dflt else bo) with (effective dflt bo).
    apply access_u64; [reflexivity|reflexivity|intros; reflexivity].
  - cbn [access fst]. unfold Int64, Uint64. cbn [r_order regs_for].
    apply access_i64; [reflexivity|reflexivity|intros; reflexivity].
  - cbn [access fst]. unfold Int64WithByteOrder, Uint64WithByteOrder. cbn [r_order regs_for].
    change (if bo =? 0 then dflt else bo) with (effective dflt bo).
    apply access_i64; [reflexivity|reflexivity|intros; reflexivity].
  - cbn [access fst]. unfold Float32, Uint32. cbn [r_order regs_for].
    apply access_u32; [reflexivity|reflexivity|intros; reflexivity].
  - cbn [access fst]. unfold Float32WithByteOrder, Uint32WithByteOrder. cbn [r_order regs_for].
    change (if bo =? 0 then dflt else bo) with (effective dflt bo).
    apply access_u32; [reflexivity|reflexivity|intros; reflexivity].
  - cbn [access fst]. unfold Float64, Uint64. cbn [r_order regs_for].
    apply access_u64; [reflexivity|reflexivity|intros; reflexivity].
  - cbn [access fst]. unfold Float64WithByteOrder, Uint64WithByteOrder. cbn [r_order regs_for].
    change (if bo =? 0 then dflt else bo) with (effective dflt bo).
    apply access_u64; [reflexivity|reflexivity|intros; reflexivity].
  - cbn [access]. rewrite fst_let. unfold String_, vbytes, spec_access. cbn [well_formed size_of].
    apply (lift_access _ _ (text dflt len)); [exact (string_with_order len 0)|intros; reflexivity].
  - cbn [access]. rewrite fst_let. unfold vbytes, spec_access. cbn [well_formed size_of].
    apply (lift_access _ _ (text (effective dflt bo) len)); [exact (string_with_order len bo)|intros; reflexivity].
  - apply access_Register.
  - apply access_DoubleRegister.
  - apply access_QuadRegister.
Qed.
End Window.

(* ---------- NewRegisters ---------- *)
Lemma new_registers_ok d start : payload_ok (vis d) -> start < 65536 ->
  new_registers d start = Ok (regs_for d start 9).
Proof.
  intros (Hbytes & Hlen & Heven & Hbig) Hs. unfold new_registers, regs_for, slen in *.
  replace (N.of_nat (length (vis d)) <? 2) with false by lia.
  replace (negb (N.of_nat (length (vis d)) mod 2 =? 0)) with false by lia.
  f_equal. f_equal. unfold u32. lia.
Qed.

Lemma new_registers_accepts d start :
  forget (map_ok (fun _ => tt) (new_registers d start)) =
  if spec_payload_ok (vis d) then Ok tt else Err tt.
Proof.
  unfold new_registers, spec_payload_ok, slen.
  pose proof (regs_of_count (vis d)) as Hc.
  destruct (N.of_nat (length (vis d)) <? 2) eqn:E1.
  { replace (1 <=? length (regs_of (vis d)))%nat with false by lia. reflexivity. }
  replace (1 <=? length (regs_of (vis d)))%nat with true by lia.
  destruct (N.of_nat (length (vis d)) mod 2 =? 0); reflexivity.
Qed.

Lemma with_byte_order_for d start o bo : with_byte_order (regs_for d start o) bo = regs_for d start bo.
Proof. reflexivity. Qed.

(* ---------- C13: no accessor writes to the payload ---------- *)
Lemma access_keeps_data r a addr : snd (access r a addr) = r_data r.
Proof.
  destruct a; try reflexivity.
  - cbn [access]. rewrite snd_let. apply string_keeps_data.
  - cbn [access]. rewrite snd_let. apply string_keeps_data.
Qed.

Lemma set_data_same r : set_data r (r_data r) = r.
Proof. destruct r; reflexivity. Qed.

Definition fresh_result (r : registers) (c : call) : rres aval := fst (access r (fst c) (snd c)).

Theorem run_calls_pure : forall cs r, run_calls r cs = (map (fresh_result r) cs, r).
Proof.
  induction cs as [|[a addr] cs IH]; intros r; [reflexivity|].
  cbn [run_calls map]. unfold fresh_result at 1. cbn [fst snd].
  pose proof (access_keeps_data r a addr) as K.
  destruct (access r a addr) as [x dd]. cbn [snd fst] in *. subst dd.
  rewrite set_data_same, IH. reflexivity.
Qed.

Corollary run_calls_payload r cs : r_data (snd (run_calls r cs)) = r_data r.
Proof. rewrite run_calls_pure. reflexivity. Qed.
Corollary run_calls_results r cs : fst (run_calls r cs) = map (fresh_result r) cs.
Proof. rewrite run_calls_pure. reflexivity. Qed.
Corollary run_calls_permutation r cs cs' : Permutation cs cs' ->
  Permutation (fst (run_calls r cs)) (fst (run_calls r cs')).
Proof. intros H. rewrite !run_calls_results. apply Permutation_map. exact H. Qed.
Corollary run_calls_app r cs1 cs2 :
  fst (run_calls r (cs1 ++ cs2)) = fst (run_calls r cs1) ++ fst (run_calls r cs2).
Proof. rewrite !run_calls_results. apply map_app. Qed.

(* ---------- C04 in final form ---------- *)
Theorem access_is_spec d start r dflt a addr :
  payload_ok (vis d) -> start < 65536 -> addr < 65536 ->
  new_registers d start = Ok r ->
  forget (fst (access r a addr)) = expected (spec_access (vis d) start 9 a addr) /\
  forget (fst (access (with_byte_order r dflt) a addr)) = expected (spec_access (vis d) start dflt a addr).
Proof.
  intros Hp Hs Ha Hnew. rewrite (new_registers_ok d start Hp Hs) in Hnew. injection Hnew as <-.
  split.
  - apply access_value; assumption.
  - rewrite with_byte_order_for. apply access_value; assumption.
Qed.

Lemma payload_ok_of_window l start :
  bytes_ok l -> 2 <= N.of_nat (length l) -> N.of_nat (length l) mod 2 = 0 ->
  start + N.of_nat (length l) / 2 <= 65536 -> payload_ok l /\ start < 65536.
Proof. intros Hb H2 He Hw. unfold payload_ok. repeat split; try assumption; lia. Qed.

(* the statement with the guards of the property text: a window inside the 16 bit address space *)
Theorem access_is_spec_in_address_space d start r dflt a addr :
  bytes_ok (vis d) -> 2 <= N.of_nat (slen d) -> N.of_nat (slen d) mod 2 = 0 ->
  start + N.of_nat (slen d) / 2 <= 65536 -> addr < 65536 ->
  new_registers d start = Ok r ->
  forget (fst (access r a addr)) = expected (spec_access (vis d) start 9 a addr) /\
  forget (fst (access (with_byte_order r dflt) a addr)) = expected (spec_access (vis d) start dflt a addr).
Proof.
  intros Hb H2 He Hw Ha Hnew. destruct (payload_ok_of_window (vis d) start Hb H2 He Hw) as [Hp Hs].
  apply access_is_spec; assumption.
Qed.

Lemma expected_not_panic {A} (x : rres A) o : forget x = expected o -> x <> Panic.
Proof. intros H ->. destruct o; discriminate H. Qed.

Corollary access_never_panics d start r dflt a addr :
  payload_ok (vis d) -> start < 65536 -> addr < 65536 -> new_registers d start = Ok r ->
  fst (access r a addr) <> Panic /\ fst (access (with_byte_order r dflt) a addr) <> Panic.
Proof.
  intros Hp Hs Ha Hnew. destruct (access_is_spec d start r dflt a addr Hp Hs Ha Hnew) as [H1 H2].
  split; eapply expected_not_panic; eassumption.
Qed.

(* whatever lies in the spare capacity behind the payload has no influence *)
Corollary access_ignores_spare v s1 s2 start r1 r2 dflt a addr :
  payload_ok v -> start < 65536 -> addr < 65536 ->
  new_registers {| vis := v; spare := s1 |} start = Ok r1 ->
  new_registers {| vis := v; spare := s2 |} start = Ok r2 ->
  forget (fst (access r1 a addr)) = forget (fst (access r2 a addr)) /\
  forget (fst (access (with_byte_order r1 dflt) a addr)) = forget (fst (access (with_byte_order r2 dflt) a addr)).
Proof.
  intros Hp Hs Ha H1 H2.
  destruct (access_is_spec {| vis := v; spare := s1 |} start r1 dflt a addr Hp Hs Ha H1) as [A1 B1].
  destruct (access_is_spec {| vis := v; spare := s2 |} start r2 dflt a addr Hp Hs Ha H2) as [A2 B2].
  cbn [vis] in *. split; congruence.
Qed.

(* the generic window statement for the three raw readers (used by the builder layer) *)
Theorem raw_registers_window d start dflt addr :
  payload_ok (vis d) -> start < 65536 -> addr < 65536 ->
  forget (register (regs_for d start dflt) addr) = expected (option_map wire (window (vis d) start addr 1)) /\
  (forall bo, forget (double_register (regs_for d start dflt) addr bo) =
              expected (option_map (image bo) (window (vis d) start addr 2))) /\
  (forall bo, forget (quad_register (regs_for d start dflt) addr bo) =
              expected (option_map (image bo) (window (vis d) start addr 4))).
Proof.
  intros Hp Hs Ha. split; [|split; intros bo].
  - destruct (register_cases d start dflt addr Hp Hs Ha) as [(e & -> & ->)|(w0 & w1 & -> & -> & _)]; reflexivity.
  - destruct (double_register_cases d start dflt addr Hp Hs Ha bo)
      as [(e & -> & ->)|(w0 & w1 & w2 & w3 & -> & -> & _)]; [reflexivity|].
    cbn [option_map expected forget map_err]. unfold image. destruct (low_word_first bo); reflexivity.
  - destruct (quad_register_cases d start dflt addr Hp Hs Ha bo)
      as [(e & -> & ->)|(w0 & w1 & w2 & w3 & w4 & w5 & w6 & w7 & -> & -> & _)]; [reflexivity|].
    cbn [option_map expected forget map_err]. unfold image. destruct (low_word_first bo); reflexivity.
Qed.

(* for the examples: NewRegisters on visible bytes [v] with spare capacity [s], then one call *)
Definition try_access (v s : list N) (start dflt : N) (a : accessor) (addr : N) : res unit aval :=
  match new_registers {| vis := v; spare := s |} start with
  | Ok r => forget (fst (access (with_byte_order r dflt) a addr))
  | Err _ => Err tt
  | Panic => Panic
  end.

(* ---------- C13 with re-configuration: WithByteOrder inside the history ---------- *)
(* WithByteOrder: the last call wins (whatever the values, 0 included), nothing else changes *)
Lemma with_byte_order_order r bo : r_order (with_byte_order r bo) = bo.
Proof. reflexivity. Qed.
Lemma with_byte_order_last r a b : with_byte_order (with_byte_order r a) b = with_byte_order r b.
Proof. reflexivity. Qed.
Lemma with_byte_order_keeps r bo :
  r_data (with_byte_order r bo) = r_data r /\ r_start (with_byte_order r bo) = r_start r /\
  r_end (with_byte_order r bo) = r_end r.
Proof. repeat split. Qed.
Lemma with_byte_order_same r : with_byte_order r (r_order r) = r.
Proof. destruct r; reflexivity. Qed.

(* the order in force after a history that started with order [cur] *)
Fixpoint last_order (cur : N) (os : list op) : N :=
  match os with
  | [] => cur
  | OpOrder bo :: rest => last_order bo rest
  | OpRead _ _ :: rest => last_order cur rest
  end.
(* every read evaluated on a fresh copy [r0] of the object: WithByteOrder(the last order set before
   the read, or the order the object started with), then the read *)
Fixpoint fresh_ops (r0 : registers) (cur : N) (os : list op) : list (rres aval) :=
  match os with
  | [] => []
  | OpOrder bo :: rest => fresh_ops r0 bo rest
  | OpRead a addr :: rest => fst (access (with_byte_order r0 cur) a addr) :: fresh_ops r0 cur rest
  end.

Lemma fresh_ops_base : forall os r b cur, fresh_ops (with_byte_order r b) cur os = fresh_ops r cur os.
Proof.
  induction os as [|[a addr|bo] os IH]; intros r b cur; [reflexivity| |].
  - cbn [fresh_ops]. rewrite with_byte_order_last, IH. reflexivity.
  - cbn [fresh_ops]. apply IH.
Qed.

Theorem run_ops_pure : forall os r,
  run_ops r os = (fresh_ops r (r_order r) os, with_byte_order r (last_order (r_order r) os)).
Proof.
  induction os as [|[a addr|bo] os IH]; intros r.
  - cbn [run_ops fresh_ops last_order]. rewrite with_byte_order_same. reflexivity.
  - cbn [run_ops fresh_ops last_order].
    pose proof (access_keeps_data r a addr) as K.
    rewrite with_byte_order_same.
    destruct (access r a addr) as [x dd]. cbn [snd fst] in *. subst dd.
    rewrite set_data_same, IH. reflexivity.
  - cbn [run_ops fresh_ops last_order]. rewrite IH, with_byte_order_order, with_byte_order_last, fresh_ops_base.
    reflexivity.
Qed.

Corollary run_ops_payload r os :
  r_data (snd (run_ops r os)) = r_data r /\ r_start (snd (run_ops r os)) = r_start r /\
  r_end (snd (run_ops r os)) = r_end r /\ r_order (snd (run_ops r os)) = last_order (r_order r) os.
Proof. rewrite run_ops_pure. repeat split. Qed.
Corollary run_ops_results r os : fst (run_ops r os) = fresh_ops r (r_order r) os.
Proof. rewrite run_ops_pure. reflexivity. Qed.
(* without re-configuration this is the earlier statement *)
Lemma run_ops_reads r cs :
  run_ops r (map (fun c : call => OpRead (fst c) (snd c)) cs) = run_calls r cs.
Proof.
  revert r. induction cs as [|[a addr] cs IH]; intros r; [reflexivity|].
  cbn [map run_ops run_calls fst snd]. destruct (access r a addr) as [x dd]. rewrite IH. reflexivity.
Qed.
