(* C19, projections of the exact hook trace: with hooks installed, the transport calls alone are
   the transport calls of the hook-free run (hooks never add, drop or reorder I/O), and the hook
   calls alone are one BeforeWrite per Write / one AfterEachRead per Read of that run, in order,
   followed by at most one BeforeParse, which is the last hook call. *)
Require Import MB.GoSem MB.CrcModel MB.PacketModel MB.ClientModel.
Require Import MB.proofs.ClientProofs MB.proofs.ClientC07 MB.proofs.ClientC07Inst MB.proofs.ClientInv.
Open Scope N_scope.

Definition not_hook (x : ev) : bool := negb (is_hook x).

Lemma filter_app_ev (f : ev -> bool) a b : filter f (a ++ b) = filter f a ++ filter f b.
Proof. induction a as [|x a IH]; [reflexivity|]. cbn [app filter]. destruct (f x); rewrite IH; reflexivity. Qed.

Lemma transport_of_add_hooks t : forallb not_hook t = true -> filter not_hook (add_hooks t) = t.
Proof.
  induction t as [|x t IH]; [reflexivity|]. cbn [forallb]. intros H.
  apply andb_prop in H. destruct H as [Hx Ht]. specialize (IH Ht).
  destruct x; cbn [add_hooks filter not_hook is_hook negb] in *; try discriminate; rewrite IH; reflexivity.
Qed.

Lemma hook_free_run cfg sc r :
  forallb not_hook (snd (client_do (set_hooks cfg false) sc r)) = true.
Proof.
  destruct r as [q|]; [|reflexivity].
  exact (proj1 (no_hooks_no_calls (set_hooks cfg false) sc q eq_refl)).
Qed.

Theorem hooks_transport_projection cfg sc r :
  filter not_hook (snd (client_do (set_hooks cfg true) sc r)) = snd (client_do (set_hooks cfg false) sc r).
Proof.
  rewrite (proj2 (client_hooks cfg sc r)), filter_app_ev, transport_of_add_hooks by apply hook_free_run.
  destruct (parser_input (set_hooks cfg false) sc r); cbn [filter not_hook is_hook negb]; apply app_nil_r.
Qed.

Theorem hooks_hook_projection cfg sc r :
  filter is_hook (snd (client_do (set_hooks cfg true) sc r)) =
    flat_map hook_of (snd (client_do (set_hooks cfg false) sc r)) ++
    match parser_input (set_hooks cfg false) sc r with Some b => [HBeforeParse b] | None => [] end.
Proof.
  rewrite (proj2 (client_hooks cfg sc r)), filter_app_ev.
  rewrite (hooks_of_add_hooks _ (hook_free_run cfg sc r)).
  destruct (parser_input (set_hooks cfg false) sc r); reflexivity.
Qed.

(* counting: as many BeforeWrite calls as Writes (0 or 1), as many AfterEachRead calls as Reads *)
Definition count (f : ev -> bool) (t : list ev) : nat := length (filter f t).
Definition is_bw (x : ev) := match x with HBeforeWrite _ => true | _ => false end.
Definition is_ar (x : ev) := match x with HAfterRead _ _ _ => true | _ => false end.
Definition is_bp (x : ev) := match x with HBeforeParse _ => true | _ => false end.
Definition is_wr (x : ev) := match x with TWrite _ => true | _ => false end.
Definition is_rd (x : ev) := match x with TRead _ _ => true | _ => false end.

Lemma count_app f a b : count f (a ++ b) = (count f a + count f b)%nat.
Proof. unfold count. rewrite filter_app_ev, app_length. reflexivity. Qed.

Lemma count_add_hooks t : forallb not_hook t = true ->
  count is_bw (add_hooks t) = count is_wr t /\ count is_ar (add_hooks t) = count is_rd t /\
  count is_bp (add_hooks t) = 0%nat /\ count is_wr (add_hooks t) = count is_wr t /\
  count is_rd (add_hooks t) = count is_rd t.
Proof.
  unfold count. induction t as [|x t IH]; [repeat split; reflexivity|]. cbn [forallb]. intros H.
  apply andb_prop in H. destruct H as [Hx Ht]. destruct (IH Ht) as (I1 & I2 & I3 & I4 & I5).
  destruct x; cbn [not_hook is_hook negb] in Hx; try discriminate;
    cbn [add_hooks filter is_bw is_ar is_bp is_wr is_rd length]; rewrite ?I1, ?I2, ?I3, ?I4, ?I5;
    repeat split; reflexivity.
Qed.

Theorem hooks_counts cfg sc r :
  let th := snd (client_do (set_hooks cfg true) sc r) in
  count is_bw th = count is_wr th /\ count is_ar th = count is_rd th /\
  count is_bp th = (match parser_input (set_hooks cfg false) sc r with Some _ => 1 | None => 0 end)%nat.
Proof.
  cbn zeta. rewrite (proj2 (client_hooks cfg sc r)), !count_app.
  destruct (count_add_hooks _ (hook_free_run cfg sc r)) as (I1 & I2 & I3 & I4 & I5).
  rewrite I1, I2, I3, I4, I5.
  destruct (parser_input (set_hooks cfg false) sc r); cbn; repeat split; rewrite ?Nat.add_0_r; reflexivity.
Qed.

(* BeforeParse, when it happens, is the last event of the call *)
Theorem before_parse_is_last cfg sc r b :
  In (HBeforeParse b) (snd (client_do (set_hooks cfg true) sc r)) ->
  exists t, snd (client_do (set_hooks cfg true) sc r) = t ++ [HBeforeParse b] /\
            parser_input (set_hooks cfg false) sc r = Some b.
Proof.
  rewrite (proj2 (client_hooks cfg sc r)). intros H. apply in_app_or in H. destruct H as [H|H].
  - exfalso. pose proof (count_add_hooks _ (hook_free_run cfg sc r)) as (_ & _ & I3 & _).
    unfold count in I3. apply length_zero_iff_nil in I3.
    assert (Hin : In (HBeforeParse b) (filter is_bp (add_hooks (snd (client_do (set_hooks cfg false) sc r))))).
    { apply filter_In. split; [exact H|reflexivity]. }
    rewrite I3 in Hin. exact Hin.
  - destruct (parser_input (set_hooks cfg false) sc r) as [b'|]; [|destruct H].
    destruct H as [H|[]]. injection H as ->. eexists. split; reflexivity.
Qed.
