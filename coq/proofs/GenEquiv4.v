(* GenEquiv4.v -- the definitions that /verif/gotrans regenerates from /repo/builder.go and
   /repo/splitter.go (gen/BuilderGen.v) equal the hand-written model coq/BuilderModel.v.

   * registerSize, Validate: case analysis.
   * builderSlots.IndexOf is characterised by its two defining equations ([IndexOf_nil],
     [IndexOf_cons]); AddField (IndexOf, then append or replace element i) is the model's one-pass
     [add_field], by induction over the slots ([AddField_slots]).
   * sort_by with the comparator of slotsSorter.Less is the model's insertion sort ([sort_eq]).
   * batchToRequests: both loops are fold_left in the generated code and structural recursion
     with accumulators in the model; [fold_as_rec] turns "the fold equals the recursion" into one
     step obligation per loop, in which the generated loop body is found by unification (it is not
     quoted, so a harmless rewrite of the body does not touch the statement).
   * ExtractFrom: per field type, the accessor lemma of GenEquiv3 and [via_eq]. *)
From Coq Require Import ZifyBool ZifyN ZifyNat.
Require Import MB.GoSem MB.CrcModel MB.PacketModel MB.RegistersSpec MB.RegistersModel MB.BuilderSpec MB.BuilderModel.
Require Import MB.GenPrelude MB.GenPrelude2 MB.GenPrelude3 MB.GenPrelude4 MB.gen.RegistersGen MB.gen.BuilderGen.
Require Import MB.proofs.GenEquiv3.
Open Scope N_scope.
Ltac Zify.zify_post_hook ::= Z.to_euclidean_division_equations.

Ltac ifs := repeat match goal with |- context [if ?c then _ else _] => destruct c eqn:? end.

(* ---------- (a) the per-field functions ---------- *)
Lemma registerSize_eq f : f_len f < 65536 -> g_Field_registerSize f = register_size f.
Proof.
  intros H. unfold g_Field_registerSize, register_size. cbv zeta.
  unfold u16. rewrite (N.mod_small _ _ H). reflexivity.
Qed.

Lemma Validate_eq f : g_Field_Validate f = refusal (validate f).
Proof.
  unfold g_Field_Validate, validate, refusal, llen.
  ifs; try reflexivity; exfalso; lia.
Qed.

(* builderSlots.IndexOf: the first slot with that address, or -1 *)
Definition canon {A} (g : A -> bool) : Z -> A -> option Z := fun i x => if g x then Some i else None.
Lemma find_canon {A} (g : A -> bool) l : forall i,
  find_from (canon g) i l = match find_from (canon g) 0 l with Some k => Some (i + k)%Z | None => None end.
Proof.
  induction l as [|x l IH]; intros i; cbn [find_from]; [reflexivity|]. unfold canon at 1 3.
  destruct (g x); [f_equal; lia|].
  rewrite (IH (i + 1)%Z), (IH (0 + 1)%Z). destruct (find_from (canon g) 0 l); [f_equal; lia|reflexivity].
Qed.
Lemma find_canon_nonneg {A} (g : A -> bool) l k : find_from (canon g) 0 l = Some k -> (0 <= k)%Z.
Proof.
  revert k. induction l as [|x l IH]; intros k; cbn [find_from]; [discriminate|]. unfold canon at 1.
  destruct (g x); [intros H; injection H as <-; lia|].
  rewrite find_canon. destruct (find_from (canon g) 0 l) eqn:E; [|discriminate].
  intros H. specialize (IH _ eq_refl). assert (k = (0 + 1 + z)%Z) by congruence. lia.
Qed.

Lemma IndexOf_nil a : g_builderSlots_IndexOf [] a = (-1)%Z.
Proof. reflexivity. Qed.
Lemma IndexOf_canon l a :
  g_builderSlots_IndexOf l a = match find_from (canon (fun b => s_addr b =? a)) 0 l with Some r => r | None => (-1)%Z end.
Proof. reflexivity. Qed.
Lemma IndexOf_cons s l a :
  g_builderSlots_IndexOf (s :: l) a =
  if s_addr s =? a then 0%Z
  else let k := g_builderSlots_IndexOf l a in if (k =? -1)%Z then (-1)%Z else (k + 1)%Z.
Proof.
  rewrite !IndexOf_canon. cbn [find_from]. unfold canon at 1. destruct (s_addr s =? a); [reflexivity|].
  rewrite find_canon. cbv zeta. destruct (find_from _ 0 l) as [k|] eqn:E; [|reflexivity].
  pose proof (find_canon_nonneg _ _ _ E). replace (k =? -1)%Z with false by lia. lia.
Qed.
Lemma IndexOf_range l a : (-1 <= g_builderSlots_IndexOf l a < Z.of_nat (length l))%Z.
Proof.
  induction l as [|s l IH]; [cbn; lia|]. rewrite IndexOf_cons. cbn [length]. cbv zeta.
  destruct (s_addr s =? a); [lia|]. destruct (_ =? -1)%Z eqn:E; lia.
Qed.

Lemma upd_cons_S {A} (x : A) l k v : upd (x :: l) (S k) v = x :: upd l k v.
Proof. reflexivity. Qed.

(* ---------- (b) AddField ---------- *)
Lemma AddField_slots f : f_len f < 65536 -> forall slots,
  let i := g_builderSlots_IndexOf slots (f_addr f) in
  (i = (-1)%Z -> add_field slots f = slots ++ [Build_slot (f_addr f) (register_size f) [f]]) /\
  (i <> (-1)%Z -> exists s, nth_error slots (Z.to_nat i) = Some s /\
     add_field slots f = upd slots (Z.to_nat i)
       (Build_slot (s_addr s) (if s_size s <? register_size f then register_size f else s_size s) (s_fields s ++ [f]))).
Proof.
  intros Hl. induction slots as [|s slots IH]; cbv zeta.
  - split; [reflexivity|]. rewrite IndexOf_nil. congruence.
  - rewrite IndexOf_cons. cbn [add_field]. cbv zeta. destruct (s_addr s =? f_addr f) eqn:E.
    + split; [lia|]. intros _. exists s. split; reflexivity.
    + pose proof (IndexOf_range slots (f_addr f)) as R. cbv zeta in IH. destruct IH as [IH1 IH2].
      destruct (g_builderSlots_IndexOf slots (f_addr f) =? -1)%Z eqn:E2.
      * split; [|congruence]. intros _. rewrite IH1 by lia. reflexivity.
      * split; [lia|]. intros _. destruct IH2 as [s' [Hn Ha]]; [lia|]. exists s'.
        replace (Z.to_nat (g_builderSlots_IndexOf slots (f_addr f) + 1)) with (S (Z.to_nat (g_builderSlots_IndexOf slots (f_addr f)))) by lia.
        split; [exact Hn|]. rewrite upd_cons_S, Ha. reflexivity.
Qed.

Lemma AddField_eq g f : f_len f < 65536 ->
  g_builderSlotGroup_AddField g f = Ok (Build_sgroup (g_server g) (g_unit g) (g_coils g) (add_field (g_slots g) f)).
Proof.
  intros Hl. unfold g_builderSlotGroup_AddField. cbv zeta. rewrite registerSize_eq by exact Hl.
  destruct (AddField_slots f Hl (g_slots g)) as [H1 H2]. cbv zeta in H1, H2.
  pose proof (IndexOf_range (g_slots g) (f_addr f)) as R.
  destruct (g_builderSlots_IndexOf (g_slots g) (f_addr f) =? -1)%Z eqn:E.
  - rewrite H1 by lia. reflexivity.
  - destruct H2 as [s [Hn Ha]]; [lia|].
    unfold lget. replace (g_builderSlots_IndexOf (g_slots g) (f_addr f) <? 0)%Z with false by lia. rewrite Hn. cbn [bind].
    assert (Hs : forall (c : bool) (a b : slot), (if c then Ok a else @Ok perr slot b) = Ok (if c then a else b)) by (intros [] ? ?; reflexivity).
    rewrite Hs. cbn [bind s_addr s_size s_fields].
    unfold lset, llen. replace ((_ <? 0) || (_ <=? _))%Z with false by lia. cbn [bind].
    rewrite Ha. do 3 f_equal. destruct (s_size s <? register_size f); reflexivity.
Qed.

(* ---------- sort.Sort(slotsSorter(..)) and slotsSorter.Less ---------- *)
Lemma ins_insert s l : ins_by (fun a b => s_addr a <? s_addr b) s l = insert_slot s l.
Proof.
  induction l as [|x l IH]; cbn [ins_by insert_slot]; [reflexivity|].
  destruct (s_addr x <? s_addr s) eqn:E1; destruct (s_addr s <=? s_addr x) eqn:E2; try lia; [|reflexivity].
  rewrite IH. reflexivity.
Qed.
Lemma sort_eq l : sort_by (fun a b => s_addr a <? s_addr b) l = sort_slots l.
Proof. induction l as [|s l IH]; cbn [sort_by sort_slots]; [reflexivity|]. rewrite IH. apply ins_insert. Qed.

(* Less(i, j) is the negation of the test insert_slot makes between element j and element i *)
Lemma Less_eq a i j x y : @lget perr slot a i = Ok x -> @lget perr slot a j = Ok y ->
  g_slotsSorter_Less a i j = Ok (negb (s_addr y <=? s_addr x)).
Proof.
  intros Hx Hy. unfold g_slotsSorter_Less. rewrite Hx, Hy. cbn [bind]. f_equal.
  destruct (s_addr x <? s_addr y) eqn:E1; destruct (s_addr y <=? s_addr x) eqn:E2; try lia; reflexivity.
Qed.

(* ---------- batchToRequests ---------- *)
(* a fold_left is a structural recursion on the list with the state as accumulator *)
Lemma fold_as_rec {S A B} (F : S -> A -> S) (G : list A -> S -> B) (out : S -> B)
      (Inv : S -> Prop) (Px : A -> Prop) :
  (forall st, G [] st = out st) ->
  (forall x l st, Inv st -> Px x -> G (x :: l) st = G l (F st x) /\ Inv (F st x)) ->
  forall l st, Inv st -> Forall Px l -> out (fold_left F l st) = G l st.
Proof.
  intros H0 HS. induction l as [|x l IH]; intros st Hi Hl; cbn [fold_left]; [symmetry; apply H0|].
  destruct (HS x l st Hi (Forall_inv Hl)) as [E Hi']. rewrite E. apply IH; [exact Hi'|exact (Forall_inv_tail Hl)].
Qed.

Lemma scan_acc limit server unit slots : forall seen first cur acc,
  scan limit server unit slots seen first cur acc = acc ++ scan limit server unit slots seen first cur [].
Proof.
  induction slots as [|s slots IH]; intros seen first cur acc; cbn [scan]; [reflexivity|]. cbv zeta.
  destruct (limit <? _).
  - rewrite IH, (IH _ _ _ ([] ++ _)). rewrite app_assoc. reflexivity.
  - apply IH.
Qed.


Lemma insert_ok s l : slot_ok s -> Forall slot_ok l -> Forall slot_ok (insert_slot s l).
Proof.
  intros Hs. induction l as [|x l IH]; intros Hl; cbn [insert_slot]; [constructor; auto|].
  destruct (_ <=? _); [constructor; assumption|]. constructor; [exact (Forall_inv Hl)|apply IH; exact (Forall_inv_tail Hl)].
Qed.
Lemma sort_ok l : Forall slot_ok l -> Forall slot_ok (sort_slots l).
Proof.
  induction l as [|s l IH]; intros H; cbn [sort_slots]; [constructor|].
  apply insert_ok; [exact (Forall_inv H)|apply IH; exact (Forall_inv_tail H)].
Qed.

Lemma batchToRequests_eq groups : Forall group_ok groups ->
  g_batchToRequests groups = Ok (batch_to_requests groups).
Proof.
  intros Hg. unfold g_batchToRequests, batch_to_requests. cbv zeta. f_equal.
  (* the outer loop: result so far ++ the batches of the remaining groups *)
  apply (fold_as_rec _ (fun l (acc : list batch) => acc ++ flat_map batches_of_group l) (fun acc => acc)
           (fun _ => True) group_ok); [intros; cbn; apply app_nil_r | | exact I | exact Hg].
  intros g l acc _ Hok. split; [|exact I]. cbn [flat_map]. rewrite app_assoc. f_equal.
  unfold batches_of_group. rewrite <- scan_acc. cbn [g_slots g_server g_unit g_coils]. rewrite sort_eq.
  (* the inner loop is scan *)
  match goal with |- context [fold_left ?FF ?ll ?st0] =>
    pose proof (fold_as_rec FF
      (fun sl (q : N * bool * batch * list batch) => let '(first, seen, cur, acc) := q in
         scan (address_limit (g_coils g)) (g_server g) (g_unit g) sl seen first cur acc)
      (fun q : N * bool * batch * list batch => let '(_, _, b, r) := q in r ++ [b])
      (fun q => let '(first, _, _, _) := q in first < 65536) slot_ok) as HF;
    specialize (fun H0 HS => HF H0 HS ll st0)
  end.
  symmetry. apply HF.
  - intros [[[first seen] cur] acc0]. reflexivity.
  - clear HF. intros s rest [[[first seen] cur] acc0] Hf Hs. unfold slot_ok in Hs. cbn [scan]. cbv zeta.
    unfold address_limit, add32.
    set (lim := if g_coils g then 2000 else 125).
    assert (Hsub : forall a b, b < 65536 -> sub32 a b = u32 (a + 4294967296 - b)).
    { intros a b Hb. unfold sub32. rewrite (N.mod_small b) by lia. reflexivity. }
    destruct seen; cbn [negb b_server b_unit b_start b_qty b_fields] in *;
      rewrite Hsub by assumption;
      repeat match goal with |- context [if ?c then _ else _] =>
        match c with context [N.ltb] => idtac end; destruct c eqn:? end;
      cbn [b_server b_unit b_start b_qty b_fields] in *;
      try (exfalso; lia);
      first [ solve [ (split; [|assumption || lia]); try reflexivity; repeat (f_equal; try lia) ]
            (* only reached after a rewrite of the Go arithmetic: compare the wrapped values themselves *)
            | solve [ exfalso; unfold u32, u16 in *; lia ]
            | solve [ unfold u32, u16 in *; (split; [|assumption || lia]); repeat (f_equal; try lia) ] ].
  - lia.
  - apply sort_ok. exact Hok.
Qed.

(* ---------- (c) Field.ExtractFrom: the dispatcher over the Registers accessors ---------- *)

Lemma via_eq {A} (W : A -> aval) (x : rres A) :
  map_ok W (plain x) = xplain (map_err XRegisters (map_ok W x)).
Proof. destruct x; reflexivity. Qed.

Lemma ExtractFrom_eq f bo st en d : f_addr f < 65536 -> f_len f < 256 -> bytes_slice d ->
  g_Field_ExtractFrom f bo st en d = xplain (fst (extract_from f (mk bo st en d))).
Proof.
  intros Ha Hl Hd. unfold g_Field_ExtractFrom, extract_from. cbv zeta.
  repeat match goal with |- context [if f_type f =? ?k then _ else _] => destruct (f_type f =? k) end;
    try reflexivity.
  all: unfold access, vint, vz, vbytes; cbn [fst].
  all: first [ rewrite Bit_eq by assumption | rewrite Byte_eq by assumption | rewrite Uint8_eq by assumption
             | rewrite Int8_eq by assumption | rewrite Uint16_eq by assumption | rewrite Int16_eq by assumption
             | rewrite Uint32WithByteOrder_eq by assumption | rewrite Int32WithByteOrder_eq by assumption
             | rewrite Uint64WithByteOrder_eq by assumption | rewrite Int64WithByteOrder_eq by assumption
             | rewrite Float32WithByteOrder_eq by assumption | rewrite Float64WithByteOrder_eq by assumption
             | rewrite StringWithByteOrder_eq by assumption ].
  all: try apply via_eq.
  destruct (StringWithByteOrder (mk bo st en d) (f_addr f) (f_len f) (f_order f)) as [x d']. cbn [fst]. apply via_eq.
Qed.
