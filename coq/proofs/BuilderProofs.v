(* BuilderProofs.v -- proofs for property C06 (batching): grouping is a partition by key, AddField
   keeps the slot invariants, insertion sort is a sorted permutation, the greedy scan of
   batchToRequests equals a ghost scan that remembers the member slots of each batch, and the
   clauses of C06 follow for every field list and every target. *)
From Coq Require Import ZifyBool ZifyN ZifyNat Permutation Sorted.
Require Import MB.GoSem MB.CrcModel MB.CrcSpec MB.Spec MB.PacketModel MB.BuilderSpec MB.BuilderModel.
Require Import MB.proofs.CrcProofs.
Open Scope N_scope.
Ltac Zify.zify_post_hook ::= Z.div_mod_to_equations.

(* the Go types of a Field's components (uint8 / uint16 / string) *)
Definition field_typed (f : field) : Prop :=
  bytes_ok (f_server f) /\ f_unit f < 256 /\ f_addr f < 65536 /\ f_type f < 256 /\ f_bit f < 256 /\
  f_len f < 256 /\ f_order f < 256.

(* ---------- generalities ---------- *)
Lemma Permutation_concat {A} (l l' : list (list A)) :
  Permutation l l' -> Permutation (concat l) (concat l').
Proof.
  induction 1; cbn [concat].
  - apply Permutation_refl.
  - apply Permutation_app_head. assumption.
  - rewrite !app_assoc. apply Permutation_app_tail. apply Permutation_app_comm.
  - eapply Permutation_trans; eassumption.
Qed.

Lemma bind_ok {E A B} (x : res E A) (f : A -> res E B) b :
  bind x f = Ok b -> exists a, x = Ok a /\ f a = Ok b.
Proof. destruct x; cbn; intros H; try discriminate. eauto. Qed.

(* ---------- registerSize = span ---------- *)
Lemma register_size_span f : f_len f < 256 -> register_size f = span f.
Proof.
  intros Hl. unfold register_size, span, T_UINT32, T_INT32, T_FLOAT32, T_UINT64, T_INT64, T_FLOAT64, T_STRING.
  destruct (f_type f =? 12) eqn:E12; destruct (f_type f =? 10) eqn:E10; destruct (f_type f =? 9) eqn:E9;
  destruct (f_type f =? 11) eqn:E11; destruct (f_type f =? 8) eqn:E8; destruct (f_type f =? 7) eqn:E7;
  destruct (f_type f =? 13) eqn:E13; cbn [orb]; try reflexivity; try lia.
  unfold add16, u16. destruct (f_len f mod 2 =? 0) eqn:Ev; lia.
Qed.

Lemma register_size_le f : f_len f < 256 -> register_size f <= 128.
Proof.
  intros Hl. rewrite register_size_span by assumption. unfold span.
  repeat match goal with |- context [if ?c then _ else _] => destruct c end; lia.
Qed.

(* ---------- members ---------- *)
Definition members_of_slots (slots : list slot) : list field := concat (map s_fields slots).
Definition members_of_group (g : sgroup) : list field := members_of_slots (g_slots g).
Definition members_of_groups (gs : list sgroup) : list field := concat (map members_of_group gs).

Lemma members_of_slots_app a b : members_of_slots (a ++ b) = members_of_slots a ++ members_of_slots b.
Proof. unfold members_of_slots. rewrite map_app, concat_app. reflexivity. Qed.

Lemma in_members_of_slots f slots :
  In f (members_of_slots slots) <-> exists s, In s slots /\ In f (s_fields s).
Proof.
  unfold members_of_slots. rewrite in_concat. split.
  - intros [l [Hl Hf]]. apply in_map_iff in Hl. destruct Hl as [s [<- Hs]]. eauto.
  - intros [s [Hs Hf]]. exists (s_fields s). split; [apply in_map; assumption|assumption].
Qed.

(* ---------- AddField ---------- *)
Lemma add_field_perm slots f :
  Permutation (members_of_slots (add_field slots f)) (f :: members_of_slots slots).
Proof.
  induction slots as [|s rest IH]; cbn [add_field].
  - cbn. apply Permutation_refl.
  - destruct (s_addr s =? f_addr f).
    + unfold members_of_slots. cbn [map concat s_fields].
      rewrite <- app_assoc. cbn [app].
      apply Permutation_sym. apply Permutation_middle.
    + unfold members_of_slots in *. cbn [map concat].
      eapply Permutation_trans; [apply Permutation_app_head; exact IH|].
      apply Permutation_sym. apply Permutation_middle.
Qed.

(* what is known of every slot of a group for (server, unit) *)
Definition slot_ok (srv : list N) (u : N) (s : slot) : Prop :=
  Forall (fun f => f_server f = srv /\ f_unit f = u /\ f_addr f = s_addr s /\ register_size f <= s_size s) (s_fields s)
  /\ Exists (fun f => register_size f = s_size s) (s_fields s).

Lemma slot_ok_nonempty srv u s : slot_ok srv u s -> s_fields s <> [].
Proof. intros [_ H] E. rewrite E in H. inversion H. Qed.

Lemma add_field_ok srv u slots f :
  f_server f = srv -> f_unit f = u ->
  Forall (slot_ok srv u) slots -> Forall (slot_ok srv u) (add_field slots f).
Proof.
  intros Hs Hu. induction slots as [|s rest IH]; intros Hall; cbn [add_field].
  - constructor; [|constructor]. split; cbn.
    + constructor; [|constructor]. repeat split; try assumption. lia.
    + constructor. reflexivity.
  - pose proof (Forall_inv Hall) as Hs0. pose proof (Forall_inv_tail Hall) as Hrest.
    destruct (s_addr s =? f_addr f) eqn:Ea.
    + constructor; [|assumption]. destruct Hs0 as [Hf He]. split; cbn [s_fields s_addr s_size].
      * apply Forall_app. split.
        -- eapply Forall_impl; [|exact Hf]. cbn. intros x [A [B [C D]]]. repeat split; try assumption.
           destruct (s_size s <? register_size f) eqn:El; lia.
        -- constructor; [|constructor]. repeat split; try assumption; [lia|].
           destruct (s_size s <? register_size f) eqn:El; lia.
      * apply Exists_app. destruct (s_size s <? register_size f) eqn:El.
        -- right. constructor. reflexivity.
        -- left. exact He.
    + constructor; [assumption|]. apply IH. assumption.
Qed.

Lemma add_field_addrs slots f a :
  In a (map s_addr (add_field slots f)) <-> In a (map s_addr slots) \/ a = f_addr f.
Proof.
  induction slots as [|s rest IH]; cbn [add_field].
  - cbn. intuition.
  - destruct (s_addr s =? f_addr f) eqn:Ea.
    + cbn [map s_addr In]. split; [intuition|]. intros [H|H]; [assumption|]. left. lia.
    + cbn [map In]. rewrite IH. intuition.
Qed.

Lemma add_field_nonempty slots f : add_field slots f <> [].
Proof. destruct slots; cbn [add_field]; [discriminate|]. destruct (_ =? _); discriminate. Qed.

(* ---------- grouping ---------- *)
Definition gkey (g : sgroup) : list N * N * bool := (g_server g, g_unit g, g_coils g).
Definition group_ok (g : sgroup) : Prop :=
  Forall (slot_ok (g_server g) (g_unit g)) (g_slots g) /\ g_slots g <> [].

Lemma key_eqb_true g f c :
  key_eqb g f c = true <-> gkey g = (f_server f, f_unit f, c).
Proof.
  unfold key_eqb, gkey. rewrite !andb_true_iff, list_eqb_eq, N.eqb_eq, eqb_true_iff. split.
  - intros [[A B] C]. congruence.
  - intros H. inversion H. auto.
Qed.

Lemma group_add_perm gs f c :
  Permutation (members_of_groups (group_add gs f c)) (f :: members_of_groups gs).
Proof.
  induction gs as [|g rest IH]; cbn [group_add].
  - unfold members_of_groups, members_of_group. cbn. apply Permutation_refl.
  - destruct (key_eqb g f c).
    + unfold members_of_groups, members_of_group. cbn [map concat g_slots].
      change (f :: ?a ++ ?b) with ((f :: a) ++ b). apply Permutation_app_tail. apply add_field_perm.
    + unfold members_of_groups in *. cbn [map concat].
      eapply Permutation_trans; [apply Permutation_app_head; exact IH|].
      apply Permutation_sym. apply Permutation_middle.
Qed.

Lemma group_add_ok gs f c :
  Forall group_ok gs -> Forall group_ok (group_add gs f c).
Proof.
  induction gs as [|g rest IH]; intros Hall; cbn [group_add].
  - constructor; [|constructor]. split; cbn [g_slots g_server g_unit].
    + apply (add_field_ok (f_server f) (f_unit f) [] f); auto.
    + apply add_field_nonempty.
  - pose proof (Forall_inv Hall) as Hg. pose proof (Forall_inv_tail Hall) as Hrest.
    destruct (key_eqb g f c) eqn:Ek.
    + constructor; [|assumption]. apply key_eqb_true in Ek. unfold gkey in Ek. inversion Ek as [[A B C]].
      destruct Hg as [Hs Hn]. split; cbn [g_slots g_server g_unit].
      * apply add_field_ok; auto.
      * apply add_field_nonempty.
    + constructor; [assumption|]. apply IH. assumption.
Qed.

Lemma group_add_keys gs f c k :
  In k (map gkey (group_add gs f c)) <-> In k (map gkey gs) \/ k = (f_server f, f_unit f, c).
Proof.
  induction gs as [|g rest IH]; cbn [group_add].
  - cbn. intuition.
  - destruct (key_eqb g f c) eqn:Ek.
    + apply key_eqb_true in Ek. cbn [map In]. unfold gkey at 1 3. cbn [g_server g_unit g_coils].
      fold (gkey g). split; [intuition|]. intros [H|H]; [assumption|]. left. congruence.
    + cbn [map In]. rewrite IH. intuition.
Qed.

Lemma group_add_nodup gs f c :
  NoDup (map gkey gs) -> NoDup (map gkey (group_add gs f c)).
Proof.
  induction gs as [|g rest IH]; intros Hnd; cbn [group_add].
  - cbn. constructor; [intros []|constructor].
  - destruct (key_eqb g f c) eqn:Ek.
    + exact Hnd.
    + cbn [map] in *. inversion Hnd as [|? ? Hni Hnd']. constructor; [|apply IH; assumption].
      rewrite group_add_keys. intros [Hin|Heq]; [contradiction|].
      assert (key_eqb g f c = true) by (apply key_eqb_true; assumption). congruence.
Qed.

Lemma group_add_coils gs f c :
  Forall (fun g => g_coils g = c) gs -> Forall (fun g => g_coils g = c) (group_add gs f c).
Proof.
  induction gs as [|g rest IH]; intros Hall; cbn [group_add].
  - constructor; [reflexivity|constructor].
  - pose proof (Forall_inv Hall) as Hg. pose proof (Forall_inv_tail Hall) as Hrest.
    destruct (key_eqb g f c); constructor; auto.
Qed.

(* the fields the loop keeps *)
Definition keeps (oc : bool) (f : field) : bool := Bool.eqb (f_type f =? 14) oc.

Lemma keeps_wanted t f : keeps (t <? 4) f = wanted t f.
Proof. reflexivity. Qed.

Lemma group_fields_spec fields oc : forall gs gs',
  group_fields fields oc gs = Ok gs' ->
  Permutation (members_of_groups gs') (members_of_groups gs ++ filter (keeps oc) fields) /\
  (Forall group_ok gs -> Forall group_ok gs') /\
  (NoDup (map gkey gs) -> NoDup (map gkey gs')) /\
  (Forall (fun g => g_coils g = oc) gs -> Forall (fun g => g_coils g = oc) gs').
Proof.
  induction fields as [|f rest IH]; intros gs gs' H; cbn [group_fields] in H.
  - inversion H. subst. cbn [filter]. rewrite app_nil_r. repeat split; auto.
  - apply bind_ok in H. destruct H as [[] [_ H]].
    cbn [filter]. unfold keeps at 1.
    destruct oc; destruct (f_type f =? 14) eqn:Et; cbn [andb negb Bool.eqb] in *.
    + apply IH in H. destruct H as [P [A [B C]]]. repeat split.
      * eapply Permutation_trans; [exact P|].
        eapply Permutation_trans; [apply Permutation_app_tail; apply group_add_perm|].
        cbn [app]. apply Permutation_middle.
      * intros X. apply A. apply group_add_ok. assumption.
      * intros X. apply B. apply group_add_nodup. assumption.
      * intros X. apply C. apply group_add_coils. assumption.
    + apply IH in H. exact H.
    + apply IH in H. exact H.
    + apply IH in H. destruct H as [P [A [B C]]]. repeat split.
      * eapply Permutation_trans; [exact P|].
        eapply Permutation_trans; [apply Permutation_app_tail; apply group_add_perm|].
        cbn [app]. apply Permutation_middle.
      * intros X. apply A. apply group_add_ok. assumption.
      * intros X. apply B. apply group_add_nodup. assumption.
      * intros X. apply C. apply group_add_coils. assumption.
Qed.

Lemma group_fields_no_panic fields oc : forall gs, group_fields fields oc gs <> Panic.
Proof.
  induction fields as [|f rest IH]; intros gs; cbn [group_fields]; [discriminate|].
  unfold validate.
  repeat match goal with |- context [if ?c then _ else _] => destruct c end; cbn [bind]; try discriminate; apply IH.
Qed.

(* ---------- sort.Sort: a sorted permutation ---------- *)
Definition addr_le (a b : slot) : Prop := s_addr a <= s_addr b.

Lemma insert_slot_perm s l : Permutation (insert_slot s l) (s :: l).
Proof.
  induction l as [|x r IH]; cbn [insert_slot]; [apply Permutation_refl|].
  destruct (s_addr s <=? s_addr x); [apply Permutation_refl|].
  eapply Permutation_trans; [apply perm_skip; exact IH|]. apply perm_swap.
Qed.
Lemma sort_slots_perm l : Permutation (sort_slots l) l.
Proof.
  induction l as [|s r IH]; cbn [sort_slots]; [apply Permutation_refl|].
  eapply Permutation_trans; [apply insert_slot_perm|]. apply perm_skip. exact IH.
Qed.
Lemma insert_slot_sorted s l : StronglySorted addr_le l -> StronglySorted addr_le (insert_slot s l).
Proof.
  induction l as [|x r IH]; intros H; cbn [insert_slot].
  - constructor; constructor.
  - inversion H as [|? ? Hr Hx]. destruct (s_addr s <=? s_addr x) eqn:E.
    + constructor; [assumption|]. constructor; [unfold addr_le; lia|].
      eapply Forall_impl; [|exact Hx]. unfold addr_le. intros; lia.
    + constructor; [apply IH; assumption|].
      eapply Permutation_Forall; [apply Permutation_sym; apply insert_slot_perm|].
      constructor; [unfold addr_le; lia|assumption].
Qed.
Lemma sort_slots_sorted l : StronglySorted addr_le (sort_slots l).
Proof. induction l; cbn [sort_slots]; [constructor|apply insert_slot_sorted; assumption]. Qed.

(* ---------- the greedy scan and its ghost ---------- *)
(* end - first as the code computes it, and exactly *)
Definition diffm (first : N) (s : slot) : N :=
  u16 (N.min (u32 (u32 (s_addr s + s_size s) + 4294967296 - first)) 65535).
Definition ediff (first : N) (s : slot) : N := s_addr s + s_size s - first.

Lemma diffm_eq first s :
  s_addr s < 65536 -> s_size s < 65536 -> first <= s_addr s -> diffm first s = N.min (ediff first s) 65535.
Proof. unfold diffm, ediff, u16, u32. intros. lia. Qed.

Definition mk_batch (srv : list N) (u start qty : N) (fs : list field) : batch :=
  {| b_server := srv; b_unit := u; b_start := start; b_qty := qty; b_fields := fs |}.

Lemma scan_seen_S limit srv u s rest first cur acc :
  scan limit srv u (s :: rest) true first cur acc =
  if limit <? diffm first s
  then scan limit srv u rest true (s_addr s)
         (mk_batch srv u (s_addr s) (if 0 <? s_size s then s_size s else 0) (s_fields s)) (acc ++ [cur])
  else scan limit srv u rest true first
         (mk_batch (b_server cur) (b_unit cur) (b_start cur)
                   (if b_qty cur <? diffm first s then diffm first s else b_qty cur) (b_fields cur ++ s_fields s)) acc.
Proof. reflexivity. Qed.

Lemma scan_unseen limit srv u s rest first cur acc :
  scan limit srv u (s :: rest) false first cur acc =
  scan limit srv u (s :: rest) true (s_addr s) (mk_batch srv u (s_addr s) (b_qty cur) (b_fields cur)) acc.
Proof. reflexivity. Qed.

Definition ggroup := (N * list slot)%type.       (* window start, member slots *)
Fixpoint gscan (limit : N) (slots : list slot) (first : N) (cur : list slot) (acc : list ggroup) : list ggroup :=
  match slots with
  | [] => acc ++ [(first, cur)]
  | s :: rest =>
      if limit <? diffm first s then gscan limit rest (s_addr s) [s] (acc ++ [(first, cur)])
      else gscan limit rest first (cur ++ [s]) acc
  end.
Definition qty_of (first : N) (g : list slot) : N := fold_left (fun q s => N.max q (ediff first s)) g 0.
Definition batch_of (srv : list N) (u : N) (g : ggroup) : batch :=
  mk_batch srv u (fst g) (qty_of (fst g) (snd g)) (members_of_slots (snd g)).

Lemma qty_of_app first g s : qty_of first (g ++ [s]) = N.max (qty_of first g) (ediff first s).
Proof. unfold qty_of. rewrite fold_left_app. reflexivity. Qed.

Lemma sorted_head_le s rest :
  StronglySorted addr_le (s :: rest) -> Forall (fun x => s_addr s <= s_addr x) rest.
Proof. intros H. inversion H as [|? ? _ Hall]. exact Hall. Qed.

Lemma scan_gscan limit srv u slots : forall first gcur gacc,
  limit < 65535 ->
  Forall (fun s => s_addr s < 65536 /\ s_size s < 65536) slots ->
  Forall (fun s => first <= s_addr s) slots ->
  StronglySorted addr_le slots ->
  scan limit srv u slots true first (batch_of srv u (first, gcur)) (map (batch_of srv u) gacc) =
  map (batch_of srv u) (gscan limit slots first gcur gacc).
Proof.
  induction slots as [|s rest IH]; intros first gcur gacc Hlim Hty Hge Hsort.
  - cbn [scan gscan]. rewrite map_app. reflexivity.
  - rewrite scan_seen_S. cbn [gscan].
    pose proof (Forall_inv Hty) as [Ha Hs]. pose proof (Forall_inv_tail Hty) as Hty'.
    pose proof (Forall_inv Hge) as Hf. pose proof (Forall_inv_tail Hge) as Hge'.
    pose proof (sorted_head_le _ _ Hsort) as Hhd.
    assert (Hsort' : StronglySorted addr_le rest) by (inversion Hsort; assumption).
    pose proof (diffm_eq first s Ha Hs Hf) as Hd.
    destruct (limit <? diffm first s) eqn:E.
    + rewrite <- IH by assumption. rewrite map_app. cbn [map]. f_equal.
      unfold batch_of, mk_batch. cbn [fst snd]. f_equal.
      * unfold qty_of, ediff. cbn [fold_left]. destruct (0 <? s_size s) eqn:Z; lia.
      * unfold members_of_slots. cbn [map concat]. rewrite app_nil_r. reflexivity.
    + rewrite <- IH by assumption. f_equal.
      unfold batch_of, mk_batch. cbn [fst snd b_server b_unit b_start b_qty b_fields]. f_equal.
      * rewrite qty_of_app.
        destruct (qty_of first gcur <? diffm first s) eqn:Z; lia.
      * rewrite members_of_slots_app. unfold members_of_slots at 3. cbn [map concat].
        rewrite app_nil_r. reflexivity.
Qed.

(* ---- facts about the ghost partition ---- *)
Lemma gscan_concat limit slots : forall first cur acc,
  concat (map snd (gscan limit slots first cur acc)) = concat (map snd acc) ++ cur ++ slots.
Proof.
  induction slots as [|s rest IH]; intros first cur acc; cbn [gscan].
  - rewrite map_app, concat_app. cbn. rewrite !app_nil_r. reflexivity.
  - destruct (limit <? diffm first s).
    + rewrite IH, map_app, concat_app. cbn. rewrite app_nil_r, <- app_assoc. reflexivity.
    + rewrite IH, <- app_assoc. reflexivity.
Qed.

(* the window start of a non-empty group is the address of its first member, and all members are
   at or above it *)
Definition anchored (g : ggroup) : Prop :=
  match snd g with [] => True | s :: _ => fst g = s_addr s end /\ Forall (fun s => fst g <= s_addr s) (snd g).

Lemma gscan_anchored limit slots : forall first cur acc,
  StronglySorted addr_le slots ->
  Forall (fun s => first <= s_addr s) slots ->
  Forall anchored acc -> anchored (first, cur) ->
  (cur = [] -> match slots with s :: _ => first = s_addr s | [] => True end) ->
  Forall anchored (gscan limit slots first cur acc).
Proof.
  induction slots as [|s rest IH]; intros first cur acc Hsort Hge Hacc Hcur Hempty; cbn [gscan].
  - apply Forall_app. split; auto.
  - pose proof (sorted_head_le _ _ Hsort) as Hhd.
    assert (Hsort' : StronglySorted addr_le rest) by (inversion Hsort; assumption).
    pose proof (Forall_inv Hge) as Hs. pose proof (Forall_inv_tail Hge) as Hge'.
    destruct (limit <? diffm first s) eqn:E.
    + apply IH; auto.
      * apply Forall_app. split; auto.
      * split; cbn [fst snd]; [reflexivity|]. constructor; [lia|constructor].
      * discriminate.
    + apply IH; auto.
      * destruct Hcur as [Hh Hall]. cbn [fst snd] in *. split; cbn [fst snd].
        -- destruct cur as [|c0 cr]; cbn [app] in *; [apply Hempty; reflexivity|assumption].
        -- apply Forall_app. split; [assumption|]. constructor; [assumption|constructor].
      * intros Hn. destruct cur; discriminate.
Qed.

Lemma qty_of_ge first g : forall s, In s g -> ediff first s <= qty_of first g.
Proof.
  unfold qty_of. induction g as [|a g IH] using rev_ind; intros s Hin; [contradiction|].
  rewrite fold_left_app. cbn [fold_left]. apply in_app_or in Hin. destruct Hin as [Hin|[->|[]]].
  - specialize (IH s Hin). lia.
  - lia.
Qed.

Lemma qty_of_attained first g : g <> [] -> exists s, In s g /\ ediff first s = qty_of first g.
Proof.
  unfold qty_of. induction g as [|a g IH] using rev_ind; intros Hne; [contradiction|].
  rewrite fold_left_app. cbn [fold_left].
  destruct g as [|b g'].
  - exists a. split; [left; reflexivity|]. cbn. lia.
  - destruct IH as [s [Hin He]]; [discriminate|].
    destruct (N.max_spec (fold_left (fun q s0 => N.max q (ediff first s0)) (b :: g') 0) (ediff first a)) as [[Hlt Hm]|[Hlt Hm]].
    + exists a. split; [apply in_or_app; right; left; reflexivity|]. lia.
    + exists s. split; [apply in_or_app; left; assumption|]. lia.
Qed.

(* never split when everything fits *)
Lemma gscan_nosplit limit slots : forall first cur acc,
  Forall (fun s => diffm first s <= limit) slots ->
  gscan limit slots first cur acc = acc ++ [(first, cur ++ slots)].
Proof.
  induction slots as [|s rest IH]; intros first cur acc Hfit; cbn [gscan].
  - rewrite app_nil_r. reflexivity.
  - pose proof (Forall_inv Hfit) as Hs. pose proof (Forall_inv_tail Hfit) as Hrest. cbn beta in Hs.
    replace (limit <? diffm first s) with false by lia.
    rewrite IH by assumption. rewrite <- app_assoc. reflexivity.
Qed.

(* ---------- the batches of one group ---------- *)
Definition slot_typed (s : slot) : Prop := s_addr s < 65536 /\ s_size s < 65536.

Lemma slot_typed_of srv u s :
  slot_ok srv u s -> Forall field_typed (s_fields s) -> slot_typed s.
Proof.
  intros [Hall Hex] Hty. apply Exists_exists in Hex. destruct Hex as [f [Hin Hsz]].
  rewrite Forall_forall in Hall, Hty. specialize (Hall f Hin). specialize (Hty f Hin).
  destruct Hall as [_ [_ [Ha _]]]. destruct Hty as [_ [_ [Hlt [_ [_ [Hl _]]]]]].
  pose proof (register_size_le f Hl). split; lia.
Qed.

Lemma address_limit_small c : address_limit c < 65535.
Proof. destruct c; cbn; lia. Qed.

Lemma batches_of_group_ghost g s0 rest :
  sort_slots (g_slots g) = s0 :: rest ->
  Forall slot_typed (g_slots g) ->
  batches_of_group g =
  map (batch_of (g_server g) (g_unit g)) (gscan (address_limit (g_coils g)) (s0 :: rest) (s_addr s0) [] []).
Proof.
  intros Hs Hty. unfold batches_of_group. rewrite Hs, scan_unseen.
  assert (Hsorted : StronglySorted addr_le (s0 :: rest)) by (rewrite <- Hs; apply sort_slots_sorted).
  refine (scan_gscan (address_limit (g_coils g)) (g_server g) (g_unit g) (s0 :: rest) (s_addr s0) [] []
            (address_limit_small _) _ _ Hsorted).
  - rewrite <- Hs. eapply Permutation_Forall; [apply Permutation_sym; apply sort_slots_perm|]. exact Hty.
  - constructor; [lia|]. apply sorted_head_le. exact Hsorted.
Qed.

Lemma sort_slots_nonempty l : l <> [] -> exists s0 rest, sort_slots l = s0 :: rest.
Proof.
  intros Hne. destruct (sort_slots l) as [|s0 rest] eqn:E; [|eauto].
  exfalso. apply Hne. apply Permutation_nil. rewrite <- E. apply sort_slots_perm.
Qed.

(* what is known of every batch of a group *)
Definition batch_good (g : sgroup) (b : batch) : Prop :=
  exists first ms,
    b = batch_of (g_server g) (g_unit g) (first, ms) /\ anchored (first, ms) /\
    (forall s, In s ms -> In s (g_slots g)).

Lemma b_fields_ghost srv u (G : list ggroup) :
  concat (map b_fields (map (batch_of srv u) G)) = members_of_slots (concat (map snd G)).
Proof.
  induction G as [|g G IH]; [reflexivity|]. cbn [map concat]. rewrite members_of_slots_app, IH. reflexivity.
Qed.

Lemma batches_of_group_good g :
  group_ok g -> Forall slot_typed (g_slots g) ->
  Forall (batch_good g) (batches_of_group g) /\
  concat (map b_fields (batches_of_group g)) = members_of_slots (sort_slots (g_slots g)).
Proof.
  intros [Hok Hne] Hty. destruct (sort_slots_nonempty _ Hne) as [s0 [rest Hs]].
  rewrite (batches_of_group_ghost g s0 rest Hs Hty).
  assert (Hsorted : StronglySorted addr_le (s0 :: rest)) by (rewrite <- Hs; apply sort_slots_sorted).
  split.
  - assert (Hanch : Forall anchored (gscan (address_limit (g_coils g)) (s0 :: rest) (s_addr s0) [] [])).
    { apply gscan_anchored; auto.
      - constructor; [lia|]. apply sorted_head_le. exact Hsorted.
      - split; cbn; auto. }
    apply Forall_forall. intros b Hb. apply in_map_iff in Hb. destruct Hb as [[first ms] [<- Hin]].
    exists first, ms. split; [reflexivity|]. split.
    + rewrite Forall_forall in Hanch. apply Hanch. exact Hin.
    + intros s Hs'. apply (Permutation_in s (sort_slots_perm (g_slots g))). rewrite Hs.
      assert (Hc : In s (concat (map snd (gscan (address_limit (g_coils g)) (s0 :: rest) (s_addr s0) [] [])))).
      { apply in_concat. exists ms. split; [|exact Hs']. apply (in_map snd _ _ Hin). }
      rewrite gscan_concat in Hc. exact Hc.
  - rewrite b_fields_ghost, gscan_concat, Hs. reflexivity.
Qed.

Lemma qty_of_nil first : qty_of first [] = 0.
Proof. reflexivity. Qed.

(* the clauses of C06 for one batch, in terms of its member fields *)
Lemma batch_good_props g b :
  group_ok g -> Forall field_typed (members_of_group g) -> batch_good g b -> 1 <= b_qty b ->
  b_server b = g_server g /\ b_unit b = g_unit g /\
  b_fields b <> [] /\
  Forall (fun f => f_server f = b_server b /\ f_unit f = b_unit b) (b_fields b) /\
  Forall (fun f => b_start b <= f_addr f /\ f_end f <= b_start b + b_qty b) (b_fields b) /\
  Exists (fun f => f_addr f = b_start b) (b_fields b) /\
  Exists (fun f => f_end f = b_start b + b_qty b) (b_fields b).
Proof.
  intros [Hok Hne] Hty [first [ms [-> [[Hhd Hge] Hsub]]]] Hq.
  unfold batch_of, mk_batch in *. cbn [fst snd b_server b_unit b_start b_qty b_fields] in *.
  rewrite Forall_forall in Hok.
  assert (Hlen : forall s f, In s ms -> In f (s_fields s) -> f_len f < 256).
  { intros s f Hs Hf. rewrite Forall_forall in Hty. 
    assert (Hm : In f (members_of_group g)).
    { apply in_members_of_slots. exists s. split; [apply Hsub; assumption|assumption]. }
    specialize (Hty f Hm). destruct Hty as [_ [_ [_ [_ [_ [Hl _]]]]]]. exact Hl. }
  destruct ms as [|s1 mr]; [rewrite qty_of_nil in Hq; lia|].
  assert (Hs1 : slot_ok (g_server g) (g_unit g) s1) by (apply Hok, Hsub; left; reflexivity).
  split; [reflexivity|]. split; [reflexivity|].
  rewrite Forall_forall in Hge.
  split; [|split; [|split; [|split]]].
  - pose proof (slot_ok_nonempty _ _ _ Hs1) as Hn. unfold members_of_slots. cbn [map concat].
    destruct (s_fields s1); [contradiction|discriminate].
  - apply Forall_forall. intros f Hf. apply in_members_of_slots in Hf. destruct Hf as [s [Hs Hf]].
    destruct (Hok s (Hsub s Hs)) as [Hall _]. rewrite Forall_forall in Hall.
    destruct (Hall f Hf) as [A [B _]]. auto.
  - apply Forall_forall. intros f Hf. apply in_members_of_slots in Hf. destruct Hf as [s [Hs Hf]].
    destruct (Hok s (Hsub s Hs)) as [Hall _]. rewrite Forall_forall in Hall.
    destruct (Hall f Hf) as [_ [_ [Ha Hsz]]].
    pose proof (Hge s Hs) as Hfs. pose proof (qty_of_ge first (s1 :: mr) s Hs) as Hqs.
    unfold f_end. rewrite <- (register_size_span f (Hlen s f Hs Hf)). unfold ediff in Hqs. lia.
  - destruct Hs1 as [Hall Hex]. apply Exists_exists in Hex. destruct Hex as [f [Hf _]].
    apply Exists_exists. exists f. split.
    + apply in_members_of_slots. exists s1. split; [left; reflexivity|assumption].
    + rewrite Forall_forall in Hall. destruct (Hall f Hf) as [_ [_ [Ha _]]]. cbn [snd fst] in Hhd. lia.
  - destruct (qty_of_attained first (s1 :: mr)) as [s [Hs He]]; [discriminate|].
    destruct (Hok s (Hsub s Hs)) as [Hall Hex]. apply Exists_exists in Hex. destruct Hex as [f [Hf Hsz]].
    apply Exists_exists. exists f. split.
    + apply in_members_of_slots. exists s. split; assumption.
    + rewrite Forall_forall in Hall. destruct (Hall f Hf) as [_ [_ [Ha _]]].
      pose proof (Hge s Hs) as Hfs.
      unfold f_end. rewrite <- (register_size_span f (Hlen s f Hs Hf)). unfold ediff in He. lia.
Qed.

(* ---------- from batches to requests ---------- *)
Definition mk_request (t : N) (b : batch) : breq :=
  {| br_req := RRead (t / 2 + 1) (b_unit b) (b_start b) (b_qty b); br_tcp := (t mod 2 =? 0);
     br_server := b_server b; br_unit := b_unit b; br_start := b_start b; br_fields := b_fields b |}.

Lemma request_of_batch_ok t b r :
  request_of_batch t b = Ok r ->
  r = mk_request t b /\ 1 <= b_qty b <= max_read (t / 2 + 1).
Proof.
  unfold request_of_batch, new_read. intros H.
  destruct ((b_qty b =? 0) || (max_read (t / 2 + 1) <? b_qty b)) eqn:E; cbn [bind] in H; [discriminate|].
  inversion H. split; [reflexivity|lia].
Qed.

Lemma requests_of_batches_ok t : forall bs rs,
  requests_of_batches t bs = Ok rs ->
  rs = map (mk_request t) bs /\ Forall (fun b => 1 <= b_qty b <= max_read (t / 2 + 1)) bs.
Proof.
  induction bs as [|b rest IH]; intros rs H; cbn [requests_of_batches] in H.
  - inversion H. split; [reflexivity|constructor].
  - apply bind_ok in H. destruct H as [r [Hr H]]. apply bind_ok in H. destruct H as [rs' [Hrs H]].
    inversion H. apply request_of_batch_ok in Hr. destruct Hr as [-> Hq].
    destruct (IH rs' Hrs) as [-> Hall]. split; [reflexivity|constructor; assumption].
Qed.

Lemma requests_of_batches_no_panic t bs : requests_of_batches t bs <> Panic.
Proof.
  induction bs as [|b rest IH]; cbn [requests_of_batches]; [discriminate|].
  unfold request_of_batch, new_read.
  destruct ((b_qty b =? 0) || (max_read (t / 2 + 1) <? b_qty b)); cbn [bind]; [discriminate|].
  destruct (requests_of_batches t rest); cbn [bind]; try discriminate. contradiction.
Qed.

Lemma max_read_target t : t < 8 -> max_read (t / 2 + 1) = kind_limit (target_coils t).
Proof.
  intros H. unfold max_read, kind_limit, target_coils.
  assert (C : t = 0 \/ t = 1 \/ t = 2 \/ t = 3 \/ t = 4 \/ t = 5 \/ t = 6 \/ t = 7) by lia.
  repeat (destruct C as [->|C]; [reflexivity|]). subst t. reflexivity.
Qed.

(* ---------- the encoded packet is the specified ADU (clause 6) ---------- *)
Lemma read_bytes_tcp tid fc u s q :
  req_bytes_tcp tid (RRead fc u s q) = request_adu_tcp tid (SRead fc u s q).
Proof. reflexivity. Qed.

Lemma read_bytes_rtu fc u s q :
  fc < 256 -> u < 256 -> s < 65536 -> q < 65536 ->
  req_bytes_rtu (RRead fc u s q) = request_adu_rtu (SRead fc u s q).
Proof.
  intros Hf Hu Hs Hq. unfold req_bytes_rtu, with_crc, request_adu_rtu, adu_rtu.
  cbn [req_body sreq_unit pdu]. rewrite trailer_is_spec; [reflexivity|].
  unfold put16. cbn [app]. repeat constructor; lia.
Qed.

(* ---------- clause 8: the groups that fit are not split ---------- *)
Definition dev_batch (srv : list N) (u : N) (b : batch) : bool := list_eqb (b_server b) srv && (b_unit b =? u).
Definition dev_req (srv : list N) (u : N) (r : breq) : bool := list_eqb (br_server r) srv && (br_unit r =? u).

Lemma filter_none {A} (p : A -> bool) l : Forall (fun x => p x = false) l -> filter p l = [].
Proof. induction 1 as [|x l Hx _ IH]; cbn [filter]; [reflexivity|]. rewrite Hx. exact IH. Qed.

Lemma filter_length_le' {A} (p : A -> bool) l : (length (filter p l) <= length l)%nat.
Proof. induction l as [|x l IH]; cbn [filter length]; [lia|]. destruct (p x); cbn [length]; lia. Qed.

Lemma filter_dev_map t srv u bs :
  length (filter (dev_req srv u) (map (mk_request t) bs)) = length (filter (dev_batch srv u) bs).
Proof.
  induction bs as [|b rest IH]; [reflexivity|]. cbn [map filter].
  change (dev_req srv u (mk_request t b)) with (dev_batch srv u b).
  destruct (dev_batch srv u b); cbn [length]; rewrite IH; reflexivity.
Qed.

Lemma batches_server_unit g :
  group_ok g -> Forall slot_typed (g_slots g) ->
  Forall (fun b => b_server b = g_server g /\ b_unit b = g_unit g) (batches_of_group g).
Proof.
  intros Hok Hty. destruct (batches_of_group_good g Hok Hty) as [Hgood _].
  eapply Forall_impl; [|exact Hgood]. intros b [first [ms [-> _]]]. split; reflexivity.
Qed.

Lemma dev_batch_false srv u g b :
  (g_server g, g_unit g) <> (srv, u) -> b_server b = g_server g -> b_unit b = g_unit g ->
  dev_batch srv u b = false.
Proof.
  intros Hne Hs Hu. unfold dev_batch. destruct (list_eqb (b_server b) srv) eqn:E1; [|reflexivity].
  apply list_eqb_eq in E1. destruct (b_unit b =? u) eqn:E2; [|reflexivity].
  apply N.eqb_eq in E2. exfalso. apply Hne. congruence.
Qed.

Lemma nosplit_groups srv u oc : forall groups,
  Forall group_ok groups -> Forall (fun g => Forall slot_typed (g_slots g)) groups ->
  NoDup (map gkey groups) -> Forall (fun g => g_coils g = oc) groups ->
  (forall g, In g groups -> (g_server g, g_unit g) = (srv, u) -> (length (batches_of_group g) <= 1)%nat) ->
  (length (filter (dev_batch srv u) (flat_map batches_of_group groups)) <= 1)%nat.
Proof.
  induction groups as [|g gs IH]; intros Hok Hty Hnd Hco Hone; [cbn; lia|].
  cbn [flat_map]. rewrite filter_app, app_length.
  pose proof (Forall_inv Hok) as Hg. pose proof (Forall_inv_tail Hok) as Hok'.
  pose proof (Forall_inv Hty) as Htg. pose proof (Forall_inv_tail Hty) as Hty'.
  pose proof (Forall_inv Hco) as Hcg. pose proof (Forall_inv_tail Hco) as Hco'.
  cbn [map] in Hnd. inversion Hnd as [|? ? Hni Hnd'].
  pose proof (batches_server_unit g Hg Htg) as Hsu.
  destruct (list_eqb (g_server g) srv && (g_unit g =? u)) eqn:Em.
  - apply andb_prop in Em. destruct Em as [E1 E2]. apply list_eqb_eq in E1. apply N.eqb_eq in E2.
    assert (Hrest : filter (dev_batch srv u) (flat_map batches_of_group gs) = []).
    { apply filter_none. apply Forall_forall. intros b Hb. apply in_flat_map in Hb.
      destruct Hb as [g' [Hg' Hb]].
      assert (Hok1 : group_ok g') by (rewrite Forall_forall in Hok'; apply Hok'; assumption).
      assert (Hty1 : Forall slot_typed (g_slots g')) by (rewrite Forall_forall in Hty'; apply (Hty' g'); assumption).
      pose proof (batches_server_unit g' Hok1 Hty1) as Hsu'. rewrite Forall_forall in Hsu'.
      destruct (Hsu' b Hb) as [A B]. apply (dev_batch_false srv u g' b); auto.
      intros Heq. apply Hni. apply in_map_iff. exists g'. split; [|assumption].
      unfold gkey. rewrite Forall_forall in Hco'. rewrite (Hco' g' Hg'), Hcg. inversion Heq. congruence. }
    rewrite Hrest. cbn [length]. rewrite Nat.add_0_r.
    assert (Hl : (length (batches_of_group g) <= 1)%nat) by (apply Hone; [left; reflexivity|congruence]).
    pose proof (filter_length_le' (dev_batch srv u) (batches_of_group g)). lia.
  - assert (Hnone : filter (dev_batch srv u) (batches_of_group g) = []).
    { apply filter_none. eapply Forall_impl; [|exact Hsu]. intros b [A B].
      apply (dev_batch_false srv u g b); auto. intros Heq. inversion Heq as [[E1 E2]].
      rewrite (proj2 (list_eqb_eq _ _) E1), (proj2 (N.eqb_eq _ _) E2) in Em. discriminate. }
    rewrite Hnone. cbn [length]. apply IH; auto. intros g' Hg'. apply Hone. right. assumption.
Qed.

Lemma group_fits_one_batch g :
  group_ok g -> Forall slot_typed (g_slots g) ->
  (forall s s', In s (g_slots g) -> In s' (g_slots g) ->
     s_addr s' + s_size s' <= s_addr s + address_limit (g_coils g)) ->
  length (batches_of_group g) = 1%nat.
Proof.
  intros [Hok Hne] Hty Hfit. destruct (sort_slots_nonempty _ Hne) as [s0 [rest Hs]].
  rewrite (batches_of_group_ghost g s0 rest Hs Hty).
  assert (Hsorted : StronglySorted addr_le (s0 :: rest)) by (rewrite <- Hs; apply sort_slots_sorted).
  assert (Hin : forall s, In s (s0 :: rest) -> In s (g_slots g)).
  { intros s Hi. apply (Permutation_in s (sort_slots_perm (g_slots g))). rewrite Hs. exact Hi. }
  rewrite gscan_nosplit; [reflexivity|].
  apply Forall_forall. intros s Hi.
  assert (Hge : s_addr s0 <= s_addr s).
  { destruct Hi as [->|Hi]; [lia|]. pose proof (sorted_head_le _ _ Hsorted) as Hh.
    rewrite Forall_forall in Hh. apply Hh. exact Hi. }
  rewrite Forall_forall in Hty. destruct (Hty s (Hin s Hi)) as [Ha Hz].
  rewrite diffm_eq by assumption.
  pose proof (Hfit s0 s (Hin s0 (or_introl eq_refl)) (Hin s Hi)) as Hf. unfold ediff. lia.
Qed.

Lemma batch_good_members g b f : batch_good g b -> In f (b_fields b) -> In f (members_of_group g).
Proof.
  intros [first [ms [-> [_ Hsub]]]] Hf. cbn [batch_of mk_batch b_fields snd] in Hf.
  apply in_members_of_slots in Hf. destruct Hf as [s [Hs Hf]].
  apply in_members_of_slots. exists s. split; [apply Hsub; assumption|assumption].
Qed.

Lemma batches_fields_perm groups :
  Forall group_ok groups -> Forall (fun g => Forall slot_typed (g_slots g)) groups ->
  Permutation (concat (map b_fields (flat_map batches_of_group groups))) (members_of_groups groups).
Proof.
  induction groups as [|g gs IH]; intros Hok Hty; [apply Permutation_refl|].
  cbn [flat_map]. rewrite map_app, concat_app. unfold members_of_groups. cbn [map concat].
  apply Permutation_app.
  - destruct (batches_of_group_good g (Forall_inv Hok) (Forall_inv Hty)) as [_ E]. rewrite E.
    unfold members_of_group, members_of_slots. apply Permutation_concat. apply Permutation_map.
    apply sort_slots_perm.
  - apply IH; [exact (Forall_inv_tail Hok)|exact (Forall_inv_tail Hty)].
Qed.

Lemma members_of_groups_in gs g f : In g gs -> In f (members_of_group g) -> In f (members_of_groups gs).
Proof. intros Hg Hf. unfold members_of_groups. apply in_concat. exists (members_of_group g). split; [apply in_map; assumption|assumption]. Qed.

(* ---------- the statement of C06 for one request ---------- *)
Definition request_ok (t : N) (r : breq) : Prop :=
  exists q,
    br_req r = RRead (target_fc t) (br_unit r) (br_start r) q /\ br_tcp r = target_tcp t /\
    br_fields r <> [] /\
    Forall (fun f => f_server f = br_server r /\ f_unit f = br_unit r) (br_fields r) /\
    Forall (fun f => (Z.of_N (br_start r) <= Z.of_N (f_addr f) /\
                      Z.of_N (f_addr f) + Z.of_N (span f) <= Z.of_N (br_start r) + Z.of_N q)%Z) (br_fields r) /\
    Exists (fun f => f_addr f = br_start r) (br_fields r) /\
    Exists (fun f => f_end f = br_start r + q) (br_fields r) /\
    1 <= q <= kind_limit (target_coils t) /\
    (forall tid, breq_bytes tid r =
                 if target_tcp t then request_adu_tcp tid (SRead (target_fc t) (br_unit r) (br_start r) q)
                 else request_adu_rtu (SRead (target_fc t) (br_unit r) (br_start r) q)).

Definition fits_one_request (t : N) (fields : list field) (srv : list N) (u : N) : Prop :=
  forall f f', In f fields -> In f' fields -> wanted t f = true -> wanted t f' = true ->
               same_dev srv u f = true -> same_dev srv u f' = true ->
               f_end f' <= f_addr f + kind_limit (target_coils t).

Theorem split_c06 fields t : t < 8 -> Forall field_typed fields ->
  match split fields t with
  | Panic => False
  | Err _ => True
  | Ok reqs =>
      Permutation (concat (map br_fields reqs)) (filter (wanted t) fields) /\
      Forall (request_ok t) reqs /\
      (forall srv u, fits_one_request t fields srv u -> (length (filter (dev_req srv u) reqs) <= 1)%nat)
  end.
Proof.
  intros Ht Hty. unfold split, group_for_single_connection.
  destruct (group_fields fields (t <? 4) []) as [groups|e|] eqn:G; cbn [bind]; [|exact I|].
  2:{ exact (group_fields_no_panic _ _ _ G). }
  destruct (requests_of_batches t (batch_to_requests groups)) as [reqs|e|] eqn:R; [|exact I|].
  2:{ exact (requests_of_batches_no_panic _ _ R). }
  destruct (group_fields_spec _ _ _ _ G) as [P [A [B C]]].
  cbn [members_of_groups map concat app] in P.
  assert (Hok : Forall group_ok groups) by (apply A; constructor).
  assert (Hnd : NoDup (map gkey groups)) by (apply B; constructor).
  assert (Hco : Forall (fun g => g_coils g = (t <? 4)) groups) by (apply C; constructor).
  assert (Hmty : Forall field_typed (members_of_groups groups)).
  { eapply Permutation_Forall; [apply Permutation_sym; exact P|].
    apply Forall_forall. intros f Hf. apply filter_In in Hf. rewrite Forall_forall in Hty. apply Hty. tauto. }
  assert (Hgty : forall g, In g groups -> Forall field_typed (members_of_group g)).
  { intros g Hg. apply Forall_forall. intros f Hf. rewrite Forall_forall in Hmty. apply Hmty.
    eapply members_of_groups_in; eassumption. }
  assert (Hsty : Forall (fun g => Forall slot_typed (g_slots g)) groups).
  { apply Forall_forall. intros g Hg. apply Forall_forall. intros s Hs.
    rewrite Forall_forall in Hok. destruct (Hok g Hg) as [Hsl _]. rewrite Forall_forall in Hsl.
    apply (slot_typed_of _ _ _ (Hsl s Hs)). apply Forall_forall. intros f Hf.
    pose proof (Hgty g Hg) as Hall. rewrite Forall_forall in Hall. apply Hall.
    apply in_members_of_slots. exists s. split; assumption. }
  destruct (requests_of_batches_ok _ _ _ R) as [-> Hq]. unfold batch_to_requests in *.
  split; [|split].
  - (* clause 1 *)
    rewrite map_map. cbn [mk_request br_fields].
    eapply Permutation_trans; [apply batches_fields_perm; assumption|]. exact P.
  - (* clauses 2-7 *)
    apply Forall_forall. intros r Hr. apply in_map_iff in Hr. destruct Hr as [b [<- Hb]].
    rewrite Forall_forall in Hq. pose proof (Hq b Hb) as Hqb.
    apply in_flat_map in Hb. destruct Hb as [g [Hg Hb]].
    assert (Hokg : group_ok g) by (rewrite Forall_forall in Hok; apply Hok; assumption).
    assert (Hstg : Forall slot_typed (g_slots g)) by (rewrite Forall_forall in Hsty; apply (Hsty g); assumption).
    destruct (batches_of_group_good g Hokg Hstg) as [Hgood _]. rewrite Forall_forall in Hgood.
    pose proof (Hgood b Hb) as Hbg.
    destruct (batch_good_props g b Hokg (Hgty g Hg) Hbg (proj1 Hqb)) as [Hsv [Hun [Hne [Hdev [Hcont [Hlo Hhi]]]]]].
    assert (Hfty : forall f, In f (b_fields b) -> field_typed f).
    { intros f Hf. pose proof (Hgty g Hg) as Hall. rewrite Forall_forall in Hall. apply Hall.
      eapply batch_good_members; eassumption. }
    rewrite max_read_target in Hqb by assumption.
    exists (b_qty b). cbn [mk_request br_req br_tcp br_server br_unit br_start br_fields].
    split; [reflexivity|]. split; [reflexivity|]. split; [assumption|]. split; [assumption|].
    split; [|split; [assumption|split; [assumption|split; [assumption|]]]].
    + eapply Forall_impl; [|exact Hcont]. unfold f_end. cbn beta. intros f [X Y]. lia.
    + intros tid. unfold breq_bytes, target_tcp, target_fc. cbn [mk_request br_req br_tcp].
      destruct (t mod 2 =? 0); [apply read_bytes_tcp|].
      apply Exists_exists in Hlo. destruct Hlo as [f [Hf Ha]].
      rewrite Forall_forall in Hdev. destruct (Hdev f Hf) as [_ Hu].
      destruct (Hfty f Hf) as [_ [Hu8 [Ha16 _]]].
      assert (kind_limit (target_coils t) <= 2000) by (unfold kind_limit; destruct (target_coils t); lia).
      apply read_bytes_rtu; lia.
  - (* clause 8 *)
    intros srv u Hfit. rewrite filter_dev_map.
    apply (nosplit_groups srv u (t <? 4)); auto.
    intros g Hg Hkey. inversion Hkey as [[Ks Ku]].
    assert (Hokg : group_ok g) by (rewrite Forall_forall in Hok; apply Hok; assumption).
    assert (Hstg : Forall slot_typed (g_slots g)) by (rewrite Forall_forall in Hsty; apply (Hsty g); assumption).
    rewrite (group_fits_one_batch g Hokg Hstg); [lia|].
    intros s s' Hs Hs'. destruct Hokg as [Hsl _]. rewrite Forall_forall in Hsl.
    destruct (Hsl s Hs) as [Hall Hex]. destruct (Hsl s' Hs') as [Hall' Hex'].
    apply Exists_exists in Hex. destruct Hex as [f [Hf _]].
    apply Exists_exists in Hex'. destruct Hex' as [f' [Hf' Hsz']].
    rewrite Forall_forall in Hall, Hall'.
    destruct (Hall f Hf) as [Fs [Fu [Fa _]]]. destruct (Hall' f' Hf') as [Fs' [Fu' [Fa' _]]].
    assert (Hin : forall s1 f1, In s1 (g_slots g) -> In f1 (s_fields s1) ->
                  In f1 fields /\ wanted t f1 = true /\ field_typed f1).
    { intros s1 f1 H1 H2.
      assert (Hm : In f1 (members_of_groups groups)).
      { eapply members_of_groups_in; [exact Hg|]. apply in_members_of_slots. exists s1. split; assumption. }
      pose proof (Permutation_in f1 P Hm) as Hfl. apply filter_In in Hfl. destruct Hfl as [X Y].
      rewrite Forall_forall in Hty. split; [exact X|]. split; [exact Y|]. apply Hty. exact X. }
    destruct (Hin s f Hs Hf) as [I1 [W1 _]]. destruct (Hin s' f' Hs' Hf') as [I2 [W2 T2]].
    assert (D1 : same_dev srv u f = true).
    { unfold same_dev. rewrite (proj2 (list_eqb_eq _ _)) by congruence. rewrite (proj2 (N.eqb_eq _ _)) by congruence. reflexivity. }
    assert (D2 : same_dev srv u f' = true).
    { unfold same_dev. rewrite (proj2 (list_eqb_eq _ _)) by congruence. rewrite (proj2 (N.eqb_eq _ _)) by congruence. reflexivity. }
    pose proof (Hfit f f' I1 I2 W1 W2 D1 D2) as Hle.
    rewrite Forall_forall in Hco. rewrite (Hco g Hg).
    unfold f_end in Hle. destruct T2 as [_ [_ [_ [_ [_ [Hl _]]]]]].
    rewrite <- (register_size_span f' Hl) in Hle.
    change (address_limit (t <? 4)) with (kind_limit (target_coils t)). lia.
Qed.

(* clause 6, read off the bytes: the frame of a read request carries unit / function / start /
   quantity at the offsets of the Modbus layout *)
Lemma adu_tcp_read_decode tid fc u s q :
  u < 256 -> s < 65536 -> q < 65536 ->
  let b := request_adu_tcp tid (SRead fc u s q) in
  nth 6 b 0 = u /\ nth 7 b 0 = fc /\ be16 [nth 8 b 0; nth 9 b 0] = s /\ be16 [nth 10 b 0; nth 11 b 0] = q.
Proof. intros Hu Hs Hq. cbn. unfold hi, lo. repeat split; lia. Qed.
Lemma adu_rtu_read_decode fc u s q :
  u < 256 -> s < 65536 -> q < 65536 ->
  let b := request_adu_rtu (SRead fc u s q) in
  nth 0 b 0 = u /\ nth 1 b 0 = fc /\ be16 [nth 2 b 0; nth 3 b 0] = s /\ be16 [nth 4 b 0; nth 5 b 0] = q.
Proof.
  intros Hu Hs Hq. unfold request_adu_rtu, adu_rtu. cbn [sreq_unit pdu app w16 nth be16]. unfold hi, lo.
  repeat split; lia.
Qed.

(* ---------- the map key "%v_%v_%v" determines (server, unit, isCoil) ---------- *)
Definition dec_u8 (u : N) : list N :=
  if u <? 10 then [48 + u]
  else if u <? 100 then [48 + u / 10; 48 + u mod 10]
  else [48 + u / 100; 48 + (u / 10) mod 10; 48 + u mod 10].
Definition bool_str (b : bool) : list N :=
  if b then [116; 114; 117; 101] else [102; 97; 108; 115; 101].      (* "true" / "false" *)
Definition group_key_string (srv : list N) (u : N) (c : bool) : list N :=
  srv ++ [95] ++ dec_u8 u ++ [95] ++ bool_str c.                     (* 95 = '_' *)

Definition undec (l : list N) : N := fold_left (fun a d => 10 * a + (d - 48)) l 0.
Definition dec_pred (u : N) : bool := (undec (dec_u8 u) =? u) && negb (existsb (N.eqb 95) (dec_u8 u)).
Lemma dec_sweep : forallb dec_pred (seqN 256) = true. Proof. vm_compute. reflexivity. Qed.
Lemma dec_u8_props u : u < 256 -> undec (dec_u8 u) = u /\ ~ In 95 (dec_u8 u).
Proof.
  intros H. pose proof (proj1 (forallb_forall _ _) dec_sweep u (in_seqN _ _ H)) as S.
  unfold dec_pred in S. apply andb_prop in S. destruct S as [A B]. split; [apply N.eqb_eq; exact A|].
  intros Hin. apply negb_true_iff in B.
  assert (existsb (N.eqb 95) (dec_u8 u) = true); [|congruence].
  apply existsb_exists. exists 95. split; [assumption|apply N.eqb_refl].
Qed.

Lemma split_first_sep {A} (x : A) : forall p p' q q',
  ~ In x p -> ~ In x p' -> p ++ x :: q = p' ++ x :: q' -> p = p' /\ q = q'.
Proof.
  induction p as [|a p IH]; intros [|a' p'] q q' H1 H2 E; cbn [app] in E.
  - inversion E. auto.
  - inversion E. subst. exfalso. apply H2. left. reflexivity.
  - inversion E. subst. exfalso. apply H1. left. reflexivity.
  - inversion E. subst. destruct (IH p' q q') as [X Y]; auto.
    + intros Hi. apply H1. right. assumption.
    + intros Hi. apply H2. right. assumption.
    + split; congruence.
Qed.
Lemma split_last_sep {A} (x : A) a a' b b' :
  ~ In x b -> ~ In x b' -> a ++ x :: b = a' ++ x :: b' -> a = a' /\ b = b'.
Proof.
  intros H1 H2 E. apply (f_equal (@rev A)) in E. rewrite !rev_app_distr in E. cbn [rev] in E.
  rewrite <- !app_assoc in E. cbn [app] in E.
  destruct (split_first_sep x (rev b) (rev b') (rev a) (rev a')) as [X Y]; auto.
  - rewrite <- in_rev. assumption.
  - rewrite <- in_rev. assumption.
  - split; [rewrite <- (rev_involutive a), <- (rev_involutive a'), Y|rewrite <- (rev_involutive b), <- (rev_involutive b'), X]; reflexivity.
Qed.

Theorem group_key_injective s1 u1 c1 s2 u2 c2 :
  u1 < 256 -> u2 < 256 ->
  group_key_string s1 u1 c1 = group_key_string s2 u2 c2 -> s1 = s2 /\ u1 = u2 /\ c1 = c2.
Proof.
  intros H1 H2 E.
  assert (K : forall s u c, group_key_string s u c = (s ++ 95 :: dec_u8 u) ++ 95 :: bool_str c).
  { intros s u c. unfold group_key_string. rewrite <- app_assoc. reflexivity. }
  rewrite !K in E.
  apply split_last_sep in E.
  - destruct E as [E1 E2].
    destruct (dec_u8_props u1 H1) as [D1 N1]. destruct (dec_u8_props u2 H2) as [D2 N2].
    apply (split_last_sep 95 s1 s2 (dec_u8 u1) (dec_u8 u2) N1 N2) in E1. destruct E1 as [Es Ed].
    split; [assumption|]. split; [congruence|].
    destruct c1, c2; cbn in E2; try reflexivity; discriminate.
  - destruct c1; cbn; intuition discriminate.
  - destruct c2; cbn; intuition discriminate.
Qed.

(* ---------- the order produced by any correct sort is the model's ---------- *)
Lemma sorted_perm_unique : forall l1 l2,
  Permutation l1 l2 -> StronglySorted addr_le l1 -> StronglySorted addr_le l2 ->
  NoDup (map s_addr l1) -> l1 = l2.
Proof.
  induction l1 as [|x r1 IH]; intros l2 P S1 S2 Hnd.
  - apply Permutation_nil in P. congruence.
  - destruct l2 as [|y r2]; [apply Permutation_sym, Permutation_nil in P; discriminate|].
    assert (Exy : x = y).
    { pose proof (Permutation_in x P (or_introl eq_refl)) as Hx.
      pose proof (Permutation_in y (Permutation_sym P) (or_introl eq_refl)) as Hy.
      destruct Hx as [Hx|Hx]; [congruence|]. destruct Hy as [Hy|Hy]; [congruence|].
      exfalso. pose proof (sorted_head_le _ _ S1) as L1. pose proof (sorted_head_le _ _ S2) as L2.
      rewrite Forall_forall in L1, L2. pose proof (L1 y Hy). pose proof (L2 x Hx).
      cbn [map] in Hnd. inversion Hnd as [|? ? Hni _]. apply Hni.
      replace (s_addr x) with (s_addr y) by lia. apply in_map. assumption. }
    subst y. f_equal. apply IH.
    + eapply Permutation_cons_inv. exact P.
    + inversion S1; assumption.
    + inversion S2; assumption.
    + cbn [map] in Hnd. inversion Hnd; assumption.
Qed.

Lemma add_field_nodup slots f : NoDup (map s_addr slots) -> NoDup (map s_addr (add_field slots f)).
Proof.
  induction slots as [|s rest IH]; intros Hnd; cbn [add_field].
  - cbn. constructor; [intros []|constructor].
  - destruct (s_addr s =? f_addr f) eqn:E; [exact Hnd|].
    cbn [map] in *. inversion Hnd as [|? ? Hni Hnd']. constructor; [|apply IH; assumption].
    rewrite add_field_addrs. intros [Hin|Heq]; [contradiction|lia].
Qed.
Lemma group_add_slots_nodup gs f c :
  Forall (fun g => NoDup (map s_addr (g_slots g))) gs ->
  Forall (fun g => NoDup (map s_addr (g_slots g))) (group_add gs f c).
Proof.
  induction gs as [|g rest IH]; intros Hall; cbn [group_add].
  - constructor; [|constructor]. cbn. constructor; [intros []|constructor].
  - pose proof (Forall_inv Hall) as Hg. pose proof (Forall_inv_tail Hall) as Hrest.
    destruct (key_eqb g f c).
    + constructor; [|assumption]. cbn [g_slots]. apply add_field_nodup. assumption.
    + constructor; [assumption|]. apply IH. assumption.
Qed.
Lemma group_fields_slots_nodup fields oc : forall gs gs',
  group_fields fields oc gs = Ok gs' ->
  Forall (fun g => NoDup (map s_addr (g_slots g))) gs ->
  Forall (fun g => NoDup (map s_addr (g_slots g))) gs'.
Proof.
  induction fields as [|f rest IH]; intros gs gs' H Hall; cbn [group_fields] in H.
  - inversion H. subst. assumption.
  - apply bind_ok in H. destruct H as [[] [_ H]].
    destruct (oc && negb (f_type f =? 14)); [eapply IH; eassumption|].
    destruct (negb oc && (f_type f =? 14)); [eapply IH; eassumption|].
    eapply IH; [eassumption|]. apply group_add_slots_nodup. assumption.
Qed.

(* sort.Sort returns a sorted permutation of the slots; whatever algorithm it uses, that is the list
   the model's insertion sort returns, because the slot addresses of a group are distinct *)
Theorem sort_model_canonical fields oc groups g l :
  group_for_single_connection fields oc = Ok groups -> In g groups ->
  Permutation l (g_slots g) -> StronglySorted addr_le l -> l = sort_slots (g_slots g).
Proof.
  intros G Hg P S. unfold group_for_single_connection in G.
  pose proof (group_fields_slots_nodup _ _ _ _ G (Forall_nil _)) as Hnd.
  rewrite Forall_forall in Hnd. specialize (Hnd g Hg).
  apply sorted_perm_unique; auto.
  - eapply Permutation_trans; [exact P|]. apply Permutation_sym. apply sort_slots_perm.
  - apply sort_slots_sorted.
  - eapply Permutation_NoDup; [|exact Hnd]. apply Permutation_map. apply Permutation_sym. exact P.
Qed.

(* ---------- a successful split has validated every field ---------- *)
Lemma group_fields_valid fields oc : forall gs gs',
  group_fields fields oc gs = Ok gs' -> Forall (fun f => validate f = Ok tt) fields.
Proof.
  induction fields as [|f rest IH]; intros gs gs' H; [constructor|].
  cbn [group_fields] in H. apply bind_ok in H. destruct H as [[] [Hv H]].
  constructor; [exact Hv|].
  destruct (oc && negb (f_type f =? 14)); [eapply IH; eassumption|].
  destruct (negb oc && (f_type f =? 14)); eapply IH; eassumption.
Qed.

Lemma split_ok_valid fields t reqs : split fields t = Ok reqs -> Forall (fun f => validate f = Ok tt) fields.
Proof.
  unfold split, group_for_single_connection. intros H. apply bind_ok in H. destruct H as [gs [G _]].
  eapply group_fields_valid. exact G.
Qed.

Lemma validate_ok f : validate f = Ok tt ->
  f_server f <> [] /\ 1 <= f_type f <= 14 /\ f_bit f <= 15 /\ (f_type f = 13 -> 1 <= f_len f).
Proof.
  unfold validate. intros H.
  destruct (length (f_server f) =? 0)%nat eqn:E1; [discriminate|].
  destruct (f_type f =? 0) eqn:E2; [discriminate|].
  destruct (14 <? f_type f) eqn:E3; [discriminate|].
  destruct (15 <? f_bit f) eqn:E4; [discriminate|].
  destruct ((f_type f =? 13) && (f_len f =? 0)) eqn:E5; [discriminate|].
  repeat split; try lia.
  intros E. rewrite E in E1. discriminate.
Qed.

(* ---------- when the builder does not refuse ---------- *)
(* C06 allows an error; this section says when there is none: every definition valid and no
   requested field wider than one request.  (Conversely, by [split_c06] there is no panic, so an
   error means an invalid definition or such a field.) *)
Lemma group_fields_total fields oc : forall gs,
  Forall (fun f => validate f = Ok tt) fields -> exists gs', group_fields fields oc gs = Ok gs'.
Proof.
  induction fields as [|f rest IH]; intros gs Hv; [eexists; reflexivity|].
  cbn [group_fields]. rewrite (Forall_inv Hv). cbn [bind].
  destruct (oc && negb (f_type f =? 14)); [apply IH; exact (Forall_inv_tail Hv)|].
  destruct (negb oc && (f_type f =? 14)); apply IH; exact (Forall_inv_tail Hv).
Qed.

Lemma requests_of_batches_total t bs :
  Forall (fun b => 1 <= b_qty b <= max_read (t / 2 + 1)) bs -> exists rs, requests_of_batches t bs = Ok rs.
Proof.
  induction bs as [|b rest IH]; intros H; [eexists; reflexivity|].
  cbn [requests_of_batches]. unfold request_of_batch, new_read.
  pose proof (Forall_inv H) as Hb. cbn beta in Hb.
  replace ((b_qty b =? 0) || (max_read (t / 2 + 1) <? b_qty b)) with false by lia. cbn [bind].
  destruct (IH (Forall_inv_tail H)) as [rs ->]. cbn [bind]. eexists. reflexivity.
Qed.

Definition fine (limit : N) (g : ggroup) : Prop :=
  snd g <> [] /\ Forall (fun s => ediff (fst g) s <= limit /\ fst g <= s_addr s /\ 1 <= s_size s) (snd g).

Lemma fine_qty limit g : fine limit g -> 1 <= qty_of (fst g) (snd g) <= limit.
Proof.
  intros [Hne Hall]. split.
  - destruct (snd g) as [|s0 r] eqn:E; [contradiction|].
    pose proof (qty_of_ge (fst g) (s0 :: r) s0 (or_introl eq_refl)) as Hge.
    pose proof (Forall_inv Hall) as H0. cbn beta in H0. unfold ediff in *. lia.
  - clear Hne. unfold qty_of.
    assert (G : forall l acc, acc <= limit ->
              Forall (fun s => ediff (fst g) s <= limit /\ fst g <= s_addr s /\ 1 <= s_size s) l ->
              fold_left (fun q s => N.max q (ediff (fst g) s)) l acc <= limit).
    { induction l as [|x l IH]; intros acc Ha Hl; [exact Ha|]. cbn [fold_left]. apply IH.
      - pose proof (Forall_inv Hl) as Hx. cbn beta in Hx. lia.
      - exact (Forall_inv_tail Hl). }
    apply G; [lia|exact Hall].
Qed.

Lemma gscan_fine limit slots : forall first cur acc,
  limit < 65535 ->
  Forall (fun s => slot_typed s /\ 1 <= s_size s <= limit) slots ->
  StronglySorted addr_le slots ->
  Forall (fun s => first <= s_addr s) slots ->
  Forall (fine limit) acc ->
  Forall (fun s => ediff first s <= limit /\ first <= s_addr s /\ 1 <= s_size s) cur ->
  (cur = [] -> exists s rest, slots = s :: rest /\ first = s_addr s) ->
  Forall (fine limit) (gscan limit slots first cur acc).
Proof.
  induction slots as [|s rest IH]; intros first cur acc Hlim Hsl Hsort Hge Hacc Hcur Hempty; cbn [gscan].
  - apply Forall_app. split; [exact Hacc|]. constructor; [|constructor]. split; [|exact Hcur].
    cbn [snd]. intros E. destruct (Hempty E) as [s [r [X _]]]. discriminate.
  - pose proof (Forall_inv Hsl) as [[Ha Hz] Hsz]. pose proof (Forall_inv_tail Hsl) as Hsl'.
    pose proof (Forall_inv Hge) as Hf. pose proof (Forall_inv_tail Hge) as Hge'.
    pose proof (sorted_head_le _ _ Hsort) as Hhd.
    assert (Hsort' : StronglySorted addr_le rest) by (inversion Hsort; assumption).
    pose proof (diffm_eq first s Ha Hz Hf) as Hd.
    destruct (limit <? diffm first s) eqn:E.
    + apply IH; auto.
      * apply Forall_app. split; [exact Hacc|]. constructor; [|constructor]. split; [|exact Hcur].
        cbn [snd]. intros Ec. destruct (Hempty Ec) as [s' [r' [X Y]]]. inversion X. subst s' r'.
        unfold ediff in Hd. lia.
      * constructor; [|constructor]. unfold ediff. lia.
      * discriminate.
    + apply IH; auto.
      * apply Forall_app. split; [exact Hcur|]. constructor; [|constructor]. unfold ediff in *. lia.
      * intros Ec. destruct cur; discriminate.
Qed.

Lemma batches_of_group_qty g :
  group_ok g -> Forall slot_typed (g_slots g) ->
  Forall (fun s => 1 <= s_size s <= address_limit (g_coils g)) (g_slots g) ->
  Forall (fun b => 1 <= b_qty b <= address_limit (g_coils g)) (batches_of_group g).
Proof.
  intros [Hok Hne] Hty Hsz. destruct (sort_slots_nonempty _ Hne) as [s0 [rest Hs]].
  rewrite (batches_of_group_ghost g s0 rest Hs Hty).
  assert (Hsorted : StronglySorted addr_le (s0 :: rest)) by (rewrite <- Hs; apply sort_slots_sorted).
  assert (Hfine : Forall (fine (address_limit (g_coils g)))
                    (gscan (address_limit (g_coils g)) (s0 :: rest) (s_addr s0) [] [])).
  { apply gscan_fine; auto.
    - apply address_limit_small.
    - rewrite <- Hs. eapply Permutation_Forall; [apply Permutation_sym; apply sort_slots_perm|].
      apply Forall_forall. intros s Hin. rewrite Forall_forall in Hty, Hsz. split; [apply Hty|apply Hsz]; exact Hin.
    - constructor; [lia|]. apply sorted_head_le. exact Hsorted.
    - intros _. eauto. }
  apply Forall_forall. intros b Hb. apply in_map_iff in Hb. destruct Hb as [gg [<- Hin]].
  rewrite Forall_forall in Hfine. apply (fine_qty _ gg (Hfine gg Hin)).
Qed.

Lemma span_ge1 f : validate f = Ok tt -> 1 <= span f.
Proof.
  intros Hv. destruct (validate_ok f Hv) as [_ [_ [_ Hl]]]. unfold span, T_UINT32, T_INT32, T_FLOAT32, T_UINT64, T_INT64, T_FLOAT64, T_STRING.
  repeat match goal with |- context [if ?c then _ else _] => destruct c eqn:? end; try lia.
Qed.

Theorem split_succeeds fields t : t < 8 -> Forall field_typed fields ->
  Forall (fun f => validate f = Ok tt) fields ->
  Forall (fun f => wanted t f = true -> span f <= kind_limit (target_coils t)) fields ->
  exists reqs, split fields t = Ok reqs.
Proof.
  intros Ht Hty Hv Hw. unfold split, group_for_single_connection.
  destruct (group_fields_total fields (t <? 4) [] Hv) as [groups G]. rewrite G. cbn [bind].
  destruct (group_fields_spec _ _ _ _ G) as [P [A [B C]]].
  cbn [members_of_groups map concat app] in P.
  assert (Hok : Forall group_ok groups) by (apply A; constructor).
  assert (Hco : Forall (fun g => g_coils g = (t <? 4)) groups) by (apply C; constructor).
  assert (Hin : forall g s f, In g groups -> In s (g_slots g) -> In f (s_fields s) ->
                In f fields /\ wanted t f = true).
  { intros g s f Hg Hs Hf.
    assert (Hm : In f (members_of_groups groups)).
    { eapply members_of_groups_in; [exact Hg|]. apply in_members_of_slots. exists s. split; assumption. }
    pose proof (Permutation_in f P Hm) as Hfl. apply filter_In in Hfl. exact Hfl. }
  apply requests_of_batches_total. unfold batch_to_requests.
  apply Forall_forall. intros b Hb. apply in_flat_map in Hb. destruct Hb as [g [Hg Hb]].
  rewrite max_read_target by assumption.
  rewrite Forall_forall in Hok, Hco, Hty, Hv, Hw. pose proof (Hok g Hg) as Hokg. pose proof (Hco g Hg) as Hcg.
  assert (Hslots : forall s, In s (g_slots g) -> slot_typed s /\ 1 <= s_size s <= address_limit (g_coils g)).
  { intros s Hs. destruct Hokg as [Hsl _]. rewrite Forall_forall in Hsl. pose proof (Hsl s Hs) as Hso.
    split.
    - apply (slot_typed_of _ _ _ Hso). apply Forall_forall. intros f Hf. apply Hty. apply (Hin g s f Hg Hs Hf).
    - destruct Hso as [_ Hex]. apply Exists_exists in Hex. destruct Hex as [f [Hf Hsz]].
      destruct (Hin g s f Hg Hs Hf) as [I W].
      destruct (Hty f I) as [_ [_ [_ [_ [_ [Hl _]]]]]].
      rewrite <- Hsz, (register_size_span f Hl). rewrite Hcg.
      change (address_limit (t <? 4)) with (kind_limit (target_coils t)).
      split; [apply span_ge1; apply Hv; exact I|apply Hw; assumption]. }
  assert (Hq : Forall (fun b => 1 <= b_qty b <= address_limit (g_coils g)) (batches_of_group g)).
  { apply batches_of_group_qty; [exact Hokg| |]; apply Forall_forall; intros s Hs; apply Hslots; exact Hs. }
  rewrite Forall_forall in Hq. specialize (Hq b Hb). rewrite Hcg in Hq. exact Hq.
Qed.

(* ---------- successive builds on one Builder ---------- *)
Theorem builder_builds_map : forall targets b,
  builder_builds b targets = (b, map (split (bd_fields b)) targets).
Proof.
  induction targets as [|t rest IH]; intros b; [reflexivity|].
  cbn [builder_builds builder_build map]. rewrite IH. reflexivity.
Qed.

Corollary builder_builds_c06 b targets :
  Forall field_typed (bd_fields b) -> Forall (fun t => t < 8) targets ->
  fst (builder_builds b targets) = b /\
  Forall2 (fun t out =>
             out = split (bd_fields b) t /\
             match out with
             | Panic => False
             | Err _ => True
             | Ok reqs =>
                 Permutation (concat (map br_fields reqs)) (filter (wanted t) (bd_fields b)) /\
                 Forall (request_ok t) reqs /\
                 (forall srv u, fits_one_request t (bd_fields b) srv u ->
                                (length (filter (dev_req srv u) reqs) <= 1)%nat)
             end) targets (snd (builder_builds b targets)).
Proof.
  intros Hty Hts. rewrite builder_builds_map. cbn [fst snd]. split; [reflexivity|].
  induction targets as [|t rest IH]; [constructor|].
  cbn [map]. constructor.
  - split; [reflexivity|]. apply split_c06; [exact (Forall_inv Hts)|exact Hty].
  - apply IH. exact (Forall_inv_tail Hts).
Qed.
