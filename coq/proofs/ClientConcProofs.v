(* ClientConcProofs.v -- C14, wire-level consequence: for EVERY schedule of any number of callers
   sharing one client, the transport sees whole request frames, one after the other, in the order
   in which the mutex was acquired, and every caller gets the reply to its own request.
   The mutual-exclusion invariant of LockProofs (inv_complete, preserved by every step through
   lstep_inv_complete) is what excludes a second caller inside the exchange. *)
Require Import MB.LockModel MB.proofs.LockProofs MB.ClientConcModel.
From Coq Require Import List NArith Bool Arith Lia.
Import ListNotations.

Lemma set_caller_same f i c : set_caller f i c i = c.
Proof. unfold set_caller. rewrite Nat.eqb_refl. reflexivity. Qed.
Lemma set_caller_other f i c j : j <> i -> set_caller f i c j = f j.
Proof. unfold set_caller. intros H. apply Nat.eqb_neq in H. rewrite H. reflexivity. Qed.

Lemma run_uses n t : run true (repeat EUse n ++ t) = run true t.
Proof. induction n as [|n IH]; cbn; auto. Qed.

Lemma run_calls cs : run false (flat_map call_events cs) = Some false.
Proof.
  induction cs as [|c cs IH]; [reflexivity|].
  cbn [flat_map]. destruct c as [f| |f]; cbn [call_events].
  - cbn [app run]. rewrite <- app_assoc, run_uses. cbn [app run]. exact IH.
  - cbn [app run]. exact IH.
  - cbn [app run]. rewrite <- app_assoc, run_uses. cbn [app run]. exact IH.
Qed.

Lemma acq_order_snoc l i a :
  acq_order (l ++ [(i, a)]) = acq_order l ++ match a with AAcq c => [(i, c)] | _ => [] end.
Proof.
  unfold acq_order. rewrite flat_map_app. cbn [flat_map]. rewrite app_nil_r. reflexivity.
Qed.
Lemma frames_of_snoc log i c :
  frames_of (log ++ [(i, c)]) = frames_of log ++ match c with CDo f => [f] | CCtl => [] | CAb f => [f] end.
Proof.
  unfold frames_of. rewrite flat_map_app. cbn [flat_map]. rewrite app_nil_r. reflexivity.
Qed.
Lemma concat_snoc (fs : list frm) f : concat (fs ++ [f]) = concat fs ++ f.
Proof. rewrite concat_app. cbn. rewrite app_nil_r. reflexivity. Qed.

Definition ev_of (a : action) : event :=
  match a with AAcq _ => EAcq | ARel => ERel | _ => EUse end.

Section Proofs.
  Variable reply_of : frm -> frm.
  Variable decode : list N -> list frm.
  Variable wf : frm -> Prop.
  (* the framing is self-delimiting on the well-formed request frames *)
  Hypothesis decode_concat : forall fs, Forall wf fs -> decode (concat fs) = fs.

  Notation cstep := (cstep reply_of decode).
  Notation creach := (creach reply_of decode).
  Notation kth_reply := (kth_reply reply_of decode).

  (* projection to the global lock model of LockProofs *)
  Definition proj (s : cst) : gst :=
    {| owner := c_owner s; todo := fun i => caller_events (callers s i) |}.
  Definition Linv (s : cst) : Prop := inv_complete (proj s).

  Lemma cstep_lstep s i a s' : cstep s i a s' -> lstep (proj s) i (ev_of a) (proj s').
  Proof.
    intros H. unfold lstep, proj. cbn [owner todo].
    inversion H; subst; cbn [c_owner callers ev_of];
      match goal with |- exists r, _ /\ caller_events (set_caller _ _ ?c _) = r /\ _ =>
        exists (caller_events c) end;
      (split; [|split; [rewrite set_caller_same; reflexivity|
                split; [intros j Hj; rewrite set_caller_other by exact Hj; reflexivity|auto]]]);
      unfold caller_events; cbn [ph pending];
      repeat match goal with E : ph _ = _ |- _ => rewrite E; clear E end;
      repeat match goal with E : pending _ = _ |- _ => rewrite E; clear E end;
      cbn [phase_events flat_map call_events app length repeat]; reflexivity.
  Qed.

  Lemma Linv_step s i a s' : Linv s -> cstep s i a s' ->
    Linv s' /\ match a with AAcq _ => c_owner s = None | _ => c_owner s = Some i end.
  Proof.
    intros HL Hst. destruct (lstep_inv_complete _ _ _ _ HL (cstep_lstep _ _ _ _ Hst)) as [HL' He].
    split; [exact HL'|]. destruct a; exact He.
  Qed.

  Lemma Linv_init reqs : Linv (cinit reqs).
  Proof. intros i. unfold owns, proj, caller_events. cbn. apply run_calls. Qed.

  (* a caller that is inside a call holds the mutex, and the holder is inside a call *)
  Lemma busy_owner s i : Linv s -> ph (callers s i) <> PIdle -> c_owner s = Some i.
  Proof.
    intros HL Hp. specialize (HL i). unfold proj in HL. cbn [todo] in HL.
    destruct (owns {| owner := c_owner s; todo := fun i0 => caller_events (callers s i0) |} i) eqn:Eo.
    - apply owns_true in Eo. exact Eo.
    - exfalso. unfold caller_events in HL. destruct (ph (callers s i)) as [|f rest|f r|[|]|f rest]; try congruence.
      + destruct rest; cbn in HL; discriminate.
      + cbn in HL. discriminate.
      + cbn in HL. discriminate.
      + cbn in HL. discriminate.
      + destruct rest; cbn in HL; discriminate.
  Qed.

  Lemma owner_busy s i : Linv s -> c_owner s = Some i -> ph (callers s i) <> PIdle.
  Proof.
    intros HL Ho Hp. specialize (HL i). unfold proj, owns in HL. cbn [owner todo] in HL.
    rewrite Ho, Nat.eqb_refl in HL. unfold caller_events in HL. rewrite Hp in HL. cbn [phase_events app] in HL.
    destruct (pending (callers s i)) as [|c cs]; cbn in HL; [discriminate|].
    destruct c; cbn in HL; discriminate.
  Qed.

  (* ---- the invariant ---- *)
  Definition results_ok (c : caller) : Prop :=
    Forall (fun x => snd x = Some (reply_of (fst x))) (results c).
  Definition own_calls (reqs : nat -> list call) (s : cst) (i : nat) : Prop :=
    do_frames (reqs i) =
    map fst (results (callers s i)) ++ cur_frame (ph (callers s i)) ++ do_frames (pending (callers s i)).
  Definition wf_todo (c : caller) : Prop := Forall wf (cur_frame (ph c) ++ do_frames (pending c)).
  (* the caller neither is inside an abandoned call nor has one ahead *)
  Definition no_ab (c : caller) : Prop :=
    no_abandon (pending c) = true /\ match ph c with PAbWriting _ _ => False | _ => True end.

  Definition holder_ok (l : list (nat * action)) (s : cst) (i : nat) : Prop :=
    exists log',
      match ph (callers s i) with
      | PWriting f rest => exists written,
          acq_order l = log' ++ [(i, CDo f)] /\ f = written ++ rest /\
          wire s = concat (frames_of log') ++ written /\ reads s = length (frames_of log')
      | PGot f r =>
          acq_order l = log' ++ [(i, CDo f)] /\ wire s = concat (frames_of log') ++ f /\
          reads s = S (length (frames_of log')) /\ r = Some (reply_of f)
      | PCtl _ =>
          acq_order l = log' ++ [(i, CCtl)] /\ wire s = concat (frames_of log') /\
          reads s = length (frames_of log')
      | PIdle => False
      | PAbWriting _ _ => False
      end.

  Definition Winv (reqs : nat -> list call) (l : list (nat * action)) (s : cst) : Prop :=
    Linv s /\
    (forall i, results_ok (callers s i)) /\
    (forall i, own_calls reqs s i) /\
    (forall i, wf_todo (callers s i)) /\
    (forall i, no_ab (callers s i)) /\
    Forall wf (frames_of (acq_order l)) /\
    match c_owner s with
    | None => wire s = concat (frames_of (acq_order l)) /\ reads s = length (frames_of (acq_order l))
    | Some i => holder_ok l s i
    end.

  Lemma kth_reply_last fs f :
    Forall wf (fs ++ [f]) -> kth_reply (concat fs ++ f) (length fs) = Some (reply_of f).
  Proof.
    intros H. unfold ClientConcModel.kth_reply. rewrite <- concat_snoc, (decode_concat _ H).
    rewrite nth_error_app2 by lia. rewrite Nat.sub_diag. reflexivity.
  Qed.

  Ltac per_thread H i :=
    let j := fresh "j" in let Hne := fresh "Hne" in
    intros j; unfold results_ok, own_calls, wf_todo, no_ab; cbn [callers];
    destruct (Nat.eq_dec j i) as [->|Hne];
    [rewrite !set_caller_same; cbn [ph pending results]
    |rewrite !set_caller_other by exact Hne; exact (H j)].

  Lemma Winv_step reqs l s i a s' : Winv reqs l s -> cstep s i a s' -> Winv reqs (l ++ [(i, a)]) s'.
  Proof.
    intros (HL & HR & HO & HWF & HNA & HLOG & HM) Hst.
    destruct (Linv_step _ _ _ _ HL Hst) as [HL' Hown].
    unfold Winv. split; [exact HL'|]. clear HL'.
    rewrite acq_order_snoc.
    pose proof (HR i) as HRi. pose proof (HO i) as HOi. pose proof (HWF i) as HWFi. pose proof (HNA i) as HNAi.
    unfold results_ok, own_calls, wf_todo, no_ab in HRi, HOi, HWFi, HNAi.
    inversion Hst; subst; cbn [c_owner wire reads];
      match goal with E : ph (callers s i) = _ |- _ => rewrite E in HOi, HWFi, HNAi end;
      try match goal with E : pending (callers s i) = _ |- _ => rewrite E in HOi, HWFi, HNAi end;
      (* the steps of an abandoned call cannot happen *)
      try (exfalso; destruct HNAi as [Hp Hph]; first [exact Hph | cbn in Hp; discriminate]).
    - (* acquire for a request *)
      rewrite Hown in HM. destruct HM as [Hw Hr].
      assert (Hf : wf f) by (cbn in HWFi; exact (Forall_inv HWFi)).
      split; [per_thread HR i; exact HRi|].
      split; [per_thread HO i; exact HOi|].
      split; [per_thread HWF i; exact HWFi|].
      split; [per_thread HNA i; destruct HNAi as [Hp _]; split; [first [exact Hp | cbn in Hp; exact Hp]|exact I]|].
      split; [rewrite frames_of_snoc; apply Forall_app; split; [exact HLOG|constructor; [exact Hf|constructor]]|].
      unfold holder_ok. rewrite acq_order_snoc. cbn [callers wire reads]. rewrite set_caller_same. cbn [ph].
      exists (acq_order l), []. rewrite app_nil_r. auto.
    - (* acquire for Close / Connect *)
      rewrite Hown in HM. destruct HM as [Hw Hr].
      split; [per_thread HR i; exact HRi|].
      split; [per_thread HO i; exact HOi|].
      split; [per_thread HWF i; exact HWFi|].
      split; [per_thread HNA i; destruct HNAi as [Hp _]; split; [first [exact Hp | cbn in Hp; exact Hp]|exact I]|].
      split; [rewrite frames_of_snoc, app_nil_r; exact HLOG|].
      unfold holder_ok. rewrite acq_order_snoc. cbn [callers wire reads]. rewrite set_caller_same. cbn [ph].
      exists (acq_order l). auto.
    - (* write one byte *)
      rewrite app_nil_r. rewrite Hown in HM |- *. unfold holder_ok in HM.
      match goal with E : ph (callers s i) = _ |- _ => rewrite E in HM end.
      destruct HM as (log' & written & Ha & Hf & Hw & Hr).
      split; [per_thread HR i; exact HRi|].
      split; [per_thread HO i; exact HOi|].
      split; [per_thread HWF i; exact HWFi|].
      split; [per_thread HNA i; destruct HNAi as [Hp _]; split; [first [exact Hp | cbn in Hp; exact Hp]|exact I]|].
      split; [exact HLOG|].
      unfold holder_ok. rewrite acq_order_snoc, app_nil_r. cbn [callers wire reads]. rewrite set_caller_same. cbn [ph].
      exists log', (written ++ [b]). repeat split; auto.
      + rewrite <- app_assoc. exact Hf.
      + rewrite Hw, app_assoc. reflexivity.
    - (* read the reply *)
      rewrite app_nil_r. rewrite Hown in HM |- *. unfold holder_ok in HM.
      match goal with E : ph (callers s i) = _ |- _ => rewrite E in HM end.
      destruct HM as (log' & written & Ha & Hf & Hw & Hr). rewrite app_nil_r in Hf. subst written.
      split; [per_thread HR i; exact HRi|].
      split; [per_thread HO i; exact HOi|].
      split; [per_thread HWF i; exact HWFi|].
      split; [per_thread HNA i; destruct HNAi as [Hp _]; split; [first [exact Hp | cbn in Hp; exact Hp]|exact I]|].
      split; [exact HLOG|].
      unfold holder_ok. rewrite acq_order_snoc, app_nil_r. cbn [callers wire reads]. rewrite set_caller_same. cbn [ph].
      exists log'. repeat split; auto.
      rewrite Hw, Hr. apply kth_reply_last.
      rewrite Ha, frames_of_snoc in HLOG. exact HLOG.
    - (* touch conn inside Close / Connect *)
      rewrite app_nil_r. rewrite Hown in HM |- *. unfold holder_ok in HM.
      match goal with E : ph (callers s i) = _ |- _ => rewrite E in HM end.
      destruct HM as (log' & Ha & Hw & Hr).
      split; [per_thread HR i; exact HRi|].
      split; [per_thread HO i; exact HOi|].
      split; [per_thread HWF i; exact HWFi|].
      split; [per_thread HNA i; destruct HNAi as [Hp _]; split; [first [exact Hp | cbn in Hp; exact Hp]|exact I]|].
      split; [exact HLOG|].
      unfold holder_ok. rewrite acq_order_snoc, app_nil_r. cbn [callers wire reads]. rewrite set_caller_same. cbn [ph].
      exists log'. auto.
    - (* release after a request *)
      rewrite app_nil_r. rewrite Hown in HM. unfold holder_ok in HM.
      match goal with E : ph (callers s i) = _ |- _ => rewrite E in HM end.
      destruct HM as (log' & Ha & Hw & Hr & Hrep).
      split; [per_thread HR i; apply Forall_app; split;
              [exact HRi|constructor; [exact Hrep|constructor]]|].
      split; [per_thread HO i; cbn [cur_frame];
              rewrite map_app, <- app_assoc; exact HOi|].
      split; [per_thread HWF i; cbn [cur_frame app]; cbn [cur_frame app] in HWFi;
              exact (Forall_inv_tail HWFi)|].
      split; [per_thread HNA i; destruct HNAi as [Hp _]; split; [first [exact Hp | cbn in Hp; exact Hp]|exact I]|].
      split; [exact HLOG|].
      rewrite Ha, frames_of_snoc, concat_snoc, app_length. cbn [length]. split; [exact Hw|lia].
    - (* release after Close / Connect *)
      rewrite app_nil_r. rewrite Hown in HM. unfold holder_ok in HM.
      match goal with E : ph (callers s i) = _ |- _ => rewrite E in HM end.
      destruct HM as (log' & Ha & Hw & Hr).
      split; [per_thread HR i; exact HRi|].
      split; [per_thread HO i; cbn [cur_frame];
              exact HOi|].
      split; [per_thread HWF i; cbn [cur_frame app]; exact HWFi|].
      split; [per_thread HNA i; destruct HNAi as [Hp _]; split; [first [exact Hp | cbn in Hp; exact Hp]|exact I]|].
      split; [exact HLOG|].
      rewrite Ha, frames_of_snoc, app_nil_r. auto.
  Qed.

  Definition wf_reqs (reqs : nat -> list call) : Prop := forall i, Forall wf (do_frames (reqs i)).

  (* nobody abandons a call *)
  Definition na_reqs (reqs : nat -> list call) : Prop := forall i, no_abandon (reqs i) = true.

  Lemma creach_Winv reqs l s : wf_reqs reqs -> na_reqs reqs -> creach reqs l s -> Winv reqs l s.
  Proof.
    intros Hwf Hna Hr. induction Hr as [|l s i a s' Hr IH Hst].
    - unfold Winv. split; [apply Linv_init|].
      split; [intros i; constructor|].
      split; [intros i; unfold own_calls; reflexivity|].
      split; [intros i; exact (Hwf i)|].
      split; [intros i; split; [exact (Hna i)|exact I]|].
      split; [constructor|]. cbn. auto.
    - eapply Winv_step; eauto.
  Qed.

  (* ------------------------------------------------------------------------------------------ *)
  (* the theorems: EVERY schedule l (any number of callers, any number of calls each)            *)

  (* every write, read and release is made by the caller that holds the mutex, and the mutex is
     free whenever it is acquired (the LockProofs invariant, for this system) *)
  Theorem steps_by_holder reqs l s i a s' : creach reqs l s -> cstep s i a s' ->
    match a with AAcq _ => c_owner s = None | _ => c_owner s = Some i end.
  Proof.
    intros Hr Hst.
    assert (HL : Linv s).
    { clear Hst. induction Hr as [|l s j b s1 Hr IH Hst1]; [apply Linv_init|].
      exact (proj1 (Linv_step _ _ _ _ IH Hst1)). }
    exact (proj2 (Linv_step _ _ _ _ HL Hst)).
  Qed.

  (* one at a time: while a caller is inside Do, Close or Connect (holds the mutex), every step
     that is taken at all -- a write, a read, the transport call of Close / Connect, the release --
     is taken by that caller; nobody else's transport call can fall between its steps *)
  Theorem only_holder_steps reqs l s i j a s' : creach reqs l s -> c_owner s = Some i ->
    cstep s j a s' -> j = i /\ match a with AAcq _ => False | _ => True end.
  Proof.
    intros Hr Ho Hst. pose proof (steps_by_holder _ _ _ _ _ _ Hr Hst) as H.
    destruct a; rewrite Ho in H; inversion H; subst; auto.
  Qed.

  (* whenever the mutex is free, the wire log is exactly the concatenation of the whole request
     frames, in the order in which the mutex was acquired, and the transport decodes it so *)
  Theorem wire_whole_frames_in_lock_order reqs l s : wf_reqs reqs -> na_reqs reqs -> creach reqs l s ->
    c_owner s = None ->
    wire s = concat (frames_of (acq_order l)) /\ decode (wire s) = frames_of (acq_order l).
  Proof.
    intros Hwf Hna Hr Ho. destruct (creach_Winv _ _ _ Hwf Hna Hr) as (_ & _ & _ & _ & _ & HLOG & HM).
    rewrite Ho in HM. destruct HM as [Hw _]. split; [exact Hw|].
    rewrite Hw. apply decode_concat. exact HLOG.
  Qed.

  (* while a caller holds the mutex: all earlier frames are on the wire whole and in lock order,
     followed by a prefix of the holder's own frame and nothing else *)
  Theorem wire_never_interleaved reqs l s i : wf_reqs reqs -> na_reqs reqs -> creach reqs l s ->
    c_owner s = Some i ->
    exists log' c written rest,
      acq_order l = log' ++ [(i, c)] /\
      wire s = concat (frames_of log') ++ written /\
      match c with CDo f => f = written ++ rest | CCtl => written = [] | CAb _ => False end.
  Proof.
    intros Hwf Hna Hr Ho. destruct (creach_Winv _ _ _ Hwf Hna Hr) as (_ & _ & _ & _ & _ & _ & HM).
    rewrite Ho in HM. destruct HM as (log' & HM).
    destruct (ph (callers s i)) as [|f rest|f r|b|f rest].
    - contradiction.
    - destruct HM as (written & Ha & Hf & Hw & _). exists log', (CDo f), written, rest. auto.
    - destruct HM as (Ha & Hw & _). exists log', (CDo f), f, []. rewrite app_nil_r. auto.
    - destruct HM as (Ha & Hw & _). exists log', CCtl, [], []. rewrite app_nil_r. auto.
    - contradiction.
  Qed.

  (* every caller receives the reply to its own request; its completed calls are its own requests
     in its own order *)
  Theorem every_caller_gets_own_reply reqs l s i : wf_reqs reqs -> na_reqs reqs -> creach reqs l s ->
    (forall f r, In (f, r) (results (callers s i)) -> r = Some (reply_of f)) /\
    exists later, do_frames (reqs i) = map fst (results (callers s i)) ++ later.
  Proof.
    intros Hwf Hna Hr. destruct (creach_Winv _ _ _ Hwf Hna Hr) as (_ & HR & HO & _). split.
    - intros f r Hin. specialize (HR i). unfold results_ok in HR. rewrite Forall_forall in HR.
      exact (HR _ Hin).
    - eexists. exact (HO i).
  Qed.

  (* ---- the executable scheduler only takes steps of the relation ---- *)
  Lemma step_fun_sound s i a s' : step_fun reply_of decode s i = Some (a, s') -> cstep s i a s'.
  Proof.
    unfold step_fun. destruct (ph (callers s i)) as [|f rest|f r|b|f rest] eqn:Ep.
    - destruct (pending (callers s i)) as [|c rs] eqn:Eq; [discriminate|].
      destruct c as [f| |f]; destruct (c_owner s) eqn:Eo; try discriminate; intros H; inversion H; subst.
      + apply c_acq_do; auto.
      + apply c_acq_ctl; auto.
      + apply c_acq_ab; auto.
    - destruct rest as [|b rest]; intros H; inversion H; subst.
      + apply c_read; auto.
      + eapply c_write; eauto.
    - intros H; inversion H; subst. eapply c_rel_do; eauto.
    - destruct b; intros H; inversion H; subst.
      + apply c_rel_ctl; auto.
      + apply c_touch; auto.
    - destruct rest as [|b rest]; intros H; inversion H; subst.
      + eapply c_ab_rel; eauto.
      + eapply c_ab_write; eauto.
  Qed.

  Lemma run_schedule_reach reqs sched : forall l s, creach reqs l s ->
    exists l', creach reqs (l ++ l') (run_schedule reply_of decode sched s).
  Proof.
    induction sched as [|i sched IH]; intros l s Hr; cbn [run_schedule].
    - exists []. rewrite app_nil_r. exact Hr.
    - destruct (step_fun reply_of decode s i) as [[a s']|] eqn:E.
      + apply step_fun_sound in E.
        destruct (IH _ _ (cr_step _ _ _ _ _ _ _ _ Hr E)) as [l' Hl'].
        exists ((i, a) :: l'). rewrite <- app_assoc in Hl'. exact Hl'.
      + apply IH. exact Hr.
  Qed.
End Proofs.

(* ---- the length-prefixed framing satisfies the hypothesis (non-vacuity) ---- *)
Definition wf_lp (f : frm) : Prop := exists payload, f = lp_frame payload.

Lemma take_frames_concat : forall fs fuel, Forall wf_lp fs -> length (concat fs) <= fuel ->
  take_frames fuel (concat fs) = fs.
Proof.
  induction fs as [|f fs IH]; intros fuel Hwf Hlen.
  - destruct fuel; reflexivity.
  - pose proof (Forall_inv Hwf) as [p Hp]. pose proof (Forall_inv_tail Hwf) as Hwf'. subst f.
    cbn [concat] in Hlen |- *. unfold lp_frame in Hlen |- *. cbn [app length] in Hlen |- *.
    destruct fuel as [|fuel]; [lia|]. cbn [take_frames]. rewrite Nat2N.id.
    rewrite app_length in Hlen |- *.
    assert (E : (length p + length (concat fs) <? length p) = false) by (apply Nat.ltb_ge; lia).
    rewrite E.
    rewrite firstn_app, Nat.sub_diag, firstn_all. cbn [firstn]. rewrite app_nil_r.
    rewrite skipn_app, Nat.sub_diag, skipn_all. cbn [skipn app].
    rewrite IH; [reflexivity|exact Hwf'|lia].
Qed.

Theorem decode_lp_concat fs : Forall wf_lp fs -> decode_lp (concat fs) = fs.
Proof. intros H. unfold decode_lp. apply take_frames_concat; [exact H|lia]. Qed.
