(* BuilderC05.v -- proofs for property C05: composing split -> encode -> conforming device ->
   response dispatcher -> ExtractFields yields, for every member field of every request, exactly
   the direct decoding of the device's memory at the field's address; with a reply truncated to k
   registers exactly the unreachable members fail (lenient) or the whole extraction fails (strict).

   Composition of C06 (BuilderProofs: window containment, encoded packet = specified ADU), C02
   (RespProofs via BuilderDeps: the specified reply is parsed back) and C04/C13 (RegistersProofs
   via BuilderDeps: typed access = specification, payload untouched). *)
From Coq Require Import ZifyBool ZifyN ZifyNat Permutation.
Require Import MB.GoSem MB.CrcModel MB.CrcSpec MB.Spec MB.PacketModel MB.RegistersSpec MB.RegistersModel.
Require Import MB.BuilderSpec MB.BuilderModel MB.proofs.BuilderProofs MB.proofs.BuilderDeps.
Open Scope N_scope.
Ltac Zify.zify_post_hook ::= Z.div_mod_to_equations.

(* ---------- the registers of a memory image and their wire bytes ---------- *)
Definition reg_of_word (w : N) : N * N := (w / 256, w mod 256).
Definition payload_of (mem : N -> N) (s k : N) : list N :=
  flat_map (fun i => let w := mem (s + i) in [N.shiftr w 8; N.land w 255]) (seqN k).

Lemma shiftr8 w : N.shiftr w 8 = w / 256.
Proof. rewrite N.shiftr_div_pow2. reflexivity. Qed.
Lemma land255 w : N.land w 255 = w mod 256.
Proof. change 255 with (N.ones 8). rewrite N.land_ones. reflexivity. Qed.

Lemma map_seqN_shift {A} (h : N -> A) a m : forall j,
  map (fun i => h (a + i)) (seqN_from m j) = map h (seqN_from m (a + j)).
Proof.
  induction m as [|m IH]; intros j; [reflexivity|].
  cbn [seqN_from map]. f_equal. rewrite IH. f_equal. f_equal. lia.
Qed.
Lemma mem_regs_from mem a n :
  mem_regs mem a n = map (fun i => reg_of_word (mem i)) (seqN_from (N.to_nat n) a).
Proof.
  pose proof (map_seqN_shift (fun x => reg_of_word (mem x)) a (N.to_nat n) 0) as H.
  rewrite N.add_0_r in H. exact H.
Qed.

Lemma payload_wire mem s k : payload_of mem s k = wire (mem_regs mem s k).
Proof.
  unfold payload_of, mem_regs, wire. induction (seqN k) as [|i l IH]; [reflexivity|].
  cbn [flat_map map]. rewrite IH. cbn [reg_bytes fst snd]. rewrite shiftr8, land255. reflexivity.
Qed.

Lemma regs_of_wire regs : regs_of (wire regs) = regs.
Proof.
  unfold wire. induction regs as [|[a b] r IH]; [reflexivity|].
  cbn [flat_map reg_bytes fst snd app regs_of]. rewrite IH. reflexivity.
Qed.

Lemma seqN_from_length n : forall a, length (seqN_from n a) = n.
Proof. induction n as [|n IH]; intros a; [reflexivity|]. cbn [seqN_from length]. rewrite IH. reflexivity. Qed.

Lemma mem_regs_length mem a n : length (mem_regs mem a n) = N.to_nat n.
Proof. rewrite mem_regs_from, map_length, seqN_from_length. reflexivity. Qed.

Lemma wire_length regs : length (wire regs) = (2 * length regs)%nat.
Proof.
  unfold wire. induction regs as [|r l IH]; [reflexivity|].
  cbn [flat_map reg_bytes app length]. rewrite IH. lia.
Qed.

Lemma payload_length mem s k : length (payload_of mem s k) = (2 * N.to_nat k)%nat.
Proof. rewrite payload_wire, wire_length, mem_regs_length. reflexivity. Qed.

Lemma payload_bytes_ok mem s k : (forall a, mem a < 65536) -> bytes_ok (payload_of mem s k).
Proof.
  intros Hm. unfold payload_of. induction (seqN k) as [|i l IH]; [constructor|].
  cbn [flat_map]. apply bytes_ok_app. split; [|exact IH].
  rewrite shiftr8, land255. pose proof (Hm (s + i)). repeat constructor; lia.
Qed.

Lemma seqN_from_skipn j : forall m a, (j <= m)%nat ->
  skipn j (seqN_from m a) = seqN_from (m - j) (a + N.of_nat j).
Proof.
  induction j as [|j IH]; intros m a H.
  - cbn [skipn]. rewrite Nat.sub_0_r. f_equal. lia.
  - destruct m as [|m]; [lia|]. cbn [seqN_from skipn]. rewrite IH by lia.
    replace (S m - S j)%nat with (m - j)%nat by lia. f_equal. lia.
Qed.
Lemma seqN_from_firstn n : forall m a, (n <= m)%nat -> firstn n (seqN_from m a) = seqN_from n a.
Proof.
  induction n as [|n IH]; intros m a H; [reflexivity|].
  destruct m as [|m]; [lia|]. cbn [seqN_from firstn]. rewrite IH by lia. reflexivity.
Qed.

(* the registers an access addresses inside a (possibly truncated) reply are the registers of the
   memory at that address *)
Lemma window_of_memory mem s k addr n :
  window (payload_of mem s k) s addr n =
  if (s <=? addr) && (addr + n <=? s + k) then Some (mem_regs mem addr n) else None.
Proof.
  unfold window. rewrite payload_wire, regs_of_wire, mem_regs_length, N2Nat.id.
  destruct ((s <=? addr) && (addr + n <=? s + k)) eqn:E; [|reflexivity].
  f_equal. rewrite !mem_regs_from, skipn_map, firstn_map. f_equal.
  rewrite seqN_from_skipn by lia. rewrite seqN_from_firstn by lia. f_equal. lia.
Qed.

(* ---------- one field ---------- *)
Lemma field_accessor_some f :
  validate f = Ok tt -> f_type f <> 14 ->
  exists a, field_accessor f = Some a /\ well_formed a = true /\ size_of a = span f.
Proof.
  intros Hv Hn. destruct (validate_ok f Hv) as [_ [Ht [Hb _]]].
  assert (C : f_type f = 1 \/ f_type f = 2 \/ f_type f = 3 \/ f_type f = 4 \/ f_type f = 5 \/ f_type f = 6 \/
              f_type f = 7 \/ f_type f = 8 \/ f_type f = 9 \/ f_type f = 10 \/ f_type f = 11 \/
              f_type f = 12 \/ f_type f = 13) by lia.
  unfold field_accessor, span, T_BIT, T_BYTE, T_UINT8, T_INT8, T_UINT16, T_INT16, T_UINT32, T_INT32,
    T_UINT64, T_INT64, T_FLOAT32, T_FLOAT64, T_STRING.
  repeat (destruct C as [C|C]; [rewrite C; cbn [N.eqb Pos.eqb orb]; eexists; split; [reflexivity|split; [|reflexivity]]; cbn [well_formed]; try reflexivity; lia|]).
  rewrite C; cbn [N.eqb Pos.eqb orb]; eexists; split; [reflexivity|split; reflexivity].
Qed.

Lemma extract_from_accessor f regs :
  extract_from f regs =
  match field_accessor f with
  | Some a => let '(x, d) := access regs a (f_addr f) in (map_err XRegisters x, d)
  | None => (Err XUnknownType, r_data regs)
  end.
Proof.
  unfold extract_from, field_accessor, T_BIT, T_BYTE, T_UINT8, T_INT8, T_UINT16, T_INT16, T_UINT32, T_INT32,
    T_UINT64, T_INT64, T_FLOAT32, T_FLOAT64, T_STRING.
  repeat (match goal with |- context [if ?c then _ else _] => destruct c; [reflexivity|] end).
  reflexivity.
Qed.

Lemma spec_access_memory mem s k f a :
  field_accessor f = Some a -> well_formed a = true -> size_of a = span f ->
  spec_access (payload_of mem s k) s 9 a (f_addr f) =
  if reachable s k f then direct_value mem f else None.
Proof.
  intros Ha Hw Hs. unfold spec_access. rewrite Hw, window_of_memory, Hs.
  unfold reachable, f_end, direct_value, DEFAULT_ORDER. rewrite Ha, Hw, Hs.
  destruct ((s <=? f_addr f) && (f_addr f + span f <=? s + k)); reflexivity.
Qed.

(* what ExtractFields reports for a member of a request whose reply holds the first k registers of
   the window starting at s *)
Definition field_result (mem : N -> N) (s k : N) (f : field) : fvalue :=
  if reachable s k f then match direct_value mem f with Some v => FVal v | None => FErr end else FErr.

Section OneReply.
Variables (mem : N -> N) (s k : N) (sp : list N).
Hypothesis Hmem : forall a, mem a < 65536.
Hypothesis Hk1 : 1 <= k.
Hypothesis Hend : s + k <= 65536.
Let d : slice := {| vis := payload_of mem s k; spare := sp |}.
Let regs : registers := dep_regs d s.

Lemma payload_facts :
  bytes_ok (vis d) /\ 2 <= N.of_nat (slen d) /\ N.of_nat (slen d) mod 2 = 0 /\ s + N.of_nat (slen d) / 2 <= 65536.
Proof.
  unfold d, slen. cbn [vis]. rewrite payload_length. split; [apply payload_bytes_ok; exact Hmem|]. lia.
Qed.

Lemma new_registers_memory : new_registers d s = Ok regs.
Proof. destruct payload_facts as [A [B [C D]]]. apply dep_new_registers; assumption. Qed.

Lemma extract_from_memory f :
  field_typed f -> validate f = Ok tt -> f_type f <> 14 ->
  snd (extract_from f regs) = d /\
  if reachable s k f
  then exists v, direct_value mem f = Some v /\ fst (extract_from f regs) = Ok v
  else exists e, fst (extract_from f regs) = Err e.
Proof.
  intros Hty Hv Hn. destruct (field_accessor_some f Hv Hn) as [a [Ha [Hw Hs]]].
  rewrite extract_from_accessor, Ha.
  destruct payload_facts as [A [B [C D]]].
  destruct Hty as [_ [_ [Haddr _]]].
  destruct (dep_access d s a (f_addr f) A B C D Haddr) as [Hval Hdata].
  fold regs in Hval, Hdata.
  destruct (access regs a (f_addr f)) as [x dd] eqn:E. cbn [fst snd] in *.
  split; [exact Hdata|].
  change (vis d) with (payload_of mem s k) in Hval.
  rewrite (spec_access_memory mem s k f a Ha Hw Hs) in Hval.
  destruct (reachable s k f).
  - destruct (direct_value mem f) as [v|] eqn:Ed.
    + exists v. split; [reflexivity|]. rewrite Hval. reflexivity.
    + exfalso. unfold direct_value in Ed. rewrite Ha, Hw in Ed. discriminate.
  - destruct Hval as [e ->]. eexists. reflexivity.
Qed.

Definition member_ok (f : field) : Prop := field_typed f /\ validate f = Ok tt /\ f_type f <> 14.

Lemma set_data_regs : set_data regs d = regs.
Proof. reflexivity. Qed.

Lemma loop_lenient fs : forall had acc, Forall member_ok fs ->
  extract_register_loop fs regs true had acc =
  Ok (had || negb (forallb (reachable s k) fs), acc ++ map (fun f => (f, field_result mem s k f)) fs).
Proof.
  induction fs as [|f rest IH]; intros had acc Hall.
  - cbn [extract_register_loop forallb map negb]. rewrite orb_false_r, app_nil_r. reflexivity.
  - pose proof (Forall_inv Hall) as [Hty [Hv Hn]]. pose proof (Forall_inv_tail Hall) as Hrest.
    cbn [extract_register_loop forallb map].
    destruct (extract_from_memory f Hty Hv Hn) as [Hd Hx].
    destruct (extract_from f regs) as [x dd] eqn:E. cbn [fst snd] in Hd, Hx. subst dd.
    unfold field_result at 1.
    destruct (reachable s k f) eqn:Er.
    + destruct Hx as [v [Hdv ->]]. rewrite Hdv, set_data_regs, IH by assumption.
      cbn [andb]. rewrite <- app_assoc. reflexivity.
    + destruct Hx as [e ->]. cbn [negb]. rewrite set_data_regs, IH by assumption.
      cbn [andb negb]. rewrite orb_true_r. rewrite <- app_assoc. reflexivity.
Qed.

Lemma loop_strict fs : forall had acc, Forall member_ok fs ->
  if forallb (reachable s k) fs
  then extract_register_loop fs regs false had acc =
       Ok (had, acc ++ map (fun f => (f, field_result mem s k f)) fs)
  else exists e, extract_register_loop fs regs false had acc = Err e.
Proof.
  induction fs as [|f rest IH]; intros had acc Hall.
  - cbn [extract_register_loop forallb map]. rewrite app_nil_r. reflexivity.
  - pose proof (Forall_inv Hall) as [Hty [Hv Hn]]. pose proof (Forall_inv_tail Hall) as Hrest.
    cbn [extract_register_loop forallb map].
    destruct (extract_from_memory f Hty Hv Hn) as [Hd Hx].
    destruct (extract_from f regs) as [x dd] eqn:E. cbn [fst snd] in Hd, Hx. subst dd.
    unfold field_result at 1.
    destruct (reachable s k f) eqn:Er.
    + destruct Hx as [v [Hdv ->]]. rewrite Hdv, set_data_regs. cbn [andb].
      specialize (IH had (acc ++ [(f, FVal v)]) Hrest).
      destruct (forallb (reachable s k) rest).
      * rewrite IH, <- app_assoc. reflexivity.
      * exact IH.
    + destruct Hx as [e ->]. cbn [andb negb]. eexists. reflexivity.
Qed.
End OneReply.

(* ---------- one request: encode, device, dispatcher, ExtractFields ---------- *)
(* [memw] is the memory of the device the request is sent to; [trunc = Some k] makes the device
   answer with the first k registers only *)
Definition exchange (memw : N -> N) (tid : N) (trunc : option N) (cont : bool) (r : breq) : xres :=
  let reply := device_reply (br_tcp r) memw (fun _ => false) (breq_bytes tid r) trunc in
  let spare := if br_tcp r then [] else skipn (length reply - 2) reply in
  match (if br_tcp r then map_ok snd (parse_tcp_response (exact reply))
         else parse_rtu_response_crc (exact reply)) with
  | Ok p => extract_fields r p spare cont
  | Err _ => Err XUnsupported
  | Panic => Panic
  end.

Definition reply_count (trunc : option N) (q : N) : N :=
  match trunc with Some k => N.min k q | None => q end.

Lemma read_adu_tcp_bytes tid fc u s q :
  request_adu_tcp tid (SRead fc u s q) =
  [tid / 256; tid mod 256; 0; 0; 0; 6; u; fc; s / 256; s mod 256; q / 256; q mod 256].
Proof. reflexivity. Qed.
Lemma read_adu_rtu_bytes fc u s q :
  request_adu_rtu (SRead fc u s q) =
  [u; fc; s / 256; s mod 256; q / 256; q mod 256] ++ CrcSpec.spec_trailer [u; fc; s / 256; s mod 256; q / 256; q mod 256].
Proof. reflexivity. Qed.

Lemma device_reply_tcp memw memc tid fc u s q trunc :
  (fc = 3 \/ fc = 4) -> s + q <= 65536 ->
  device_reply true memw memc (request_adu_tcp tid (SRead fc u s q)) trunc =
  adu_tcp tid u (rpdu (SPBytes fc u (payload_of memw s (reply_count trunc q)))).
Proof.
  intros Hfc Hend. rewrite read_adu_tcp_bytes. unfold device_reply, fld16. cbn [nth Nat.add].
  replace (tid / 256 * 256 + tid mod 256) with tid by lia.
  replace (s / 256 * 256 + s mod 256) with s by lia.
  replace (q / 256 * 256 + q mod 256) with q by lia.
  replace (65536 <? s + q) with false by lia.
  destruct Hfc as [-> | ->]; reflexivity.
Qed.

Lemma device_reply_rtu memw memc fc u s q trunc :
  (fc = 3 \/ fc = 4) -> s + q <= 65536 ->
  device_reply false memw memc (request_adu_rtu (SRead fc u s q)) trunc =
  adu_rtu u (rpdu (SPBytes fc u (payload_of memw s (reply_count trunc q)))).
Proof.
  intros Hfc Hend. rewrite read_adu_rtu_bytes. unfold device_reply, fld16. cbn [nth Nat.add app].
  replace (s / 256 * 256 + s mod 256) with s by lia.
  replace (q / 256 * 256 + q mod 256) with q by lia.
  replace (65536 <? s + q) with false by lia.
  destruct Hfc as [-> | ->]; reflexivity.
Qed.

Definition results (memw : N -> N) (s k : N) (fs : list field) : list (field * fvalue) :=
  map (fun f => (f, field_result memw s k f)) fs.

Lemma exchange_request memw tid trunc r fc q :
  (fc = 3 \/ fc = 4) ->
  br_req r = RRead fc (br_unit r) (br_start r) q ->
  (forall tid', breq_bytes tid' r =
                if br_tcp r then request_adu_tcp tid' (SRead fc (br_unit r) (br_start r) q)
                else request_adu_rtu (SRead fc (br_unit r) (br_start r) q)) ->
  q <= 125 -> br_unit r < 256 -> br_start r + q <= 65536 -> tid < 65536 ->
  (forall a, memw a < 65536) -> Forall member_ok (br_fields r) ->
  1 <= reply_count trunc q ->
  let k := reply_count trunc q in
  exchange memw tid trunc true r =
    Ok (negb (forallb (reachable (br_start r) k) (br_fields r)), results memw (br_start r) k (br_fields r)) /\
  (if forallb (reachable (br_start r) k) (br_fields r)
   then exchange memw tid trunc false r = Ok (false, results memw (br_start r) k (br_fields r))
   else exists e, exchange memw tid trunc false r = Err e).
Proof.
  intros Hfc Hreq Hbytes Hq Hu Hend Htid Hmem Hmem_ok Hk1 k.
  assert (Hkq : k <= q) by (unfold k, reply_count; destruct trunc; lia).
  assert (Hlen : length (payload_of memw (br_start r) k) = (2 * N.to_nat k)%nat) by apply payload_length.
  assert (Hbo : bytes_ok (payload_of memw (br_start r) k)) by (apply payload_bytes_ok; exact Hmem).
  assert (Hfcc : is_coil_fc fc = false) by (destruct Hfc as [-> | ->]; reflexivity).
  assert (Hkend : br_start r + k <= 65536) by lia.
  assert (Hex : forall cont,
    exchange memw tid trunc cont r =
    extract_register_loop (br_fields r)
      (dep_regs {| vis := payload_of memw (br_start r) k;
                   spare := (if br_tcp r then [] else
                               skipn (length (adu_rtu (br_unit r) (rpdu (SPBytes fc (br_unit r) (payload_of memw (br_start r) k)))) - 2)
                                     (adu_rtu (br_unit r) (rpdu (SPBytes fc (br_unit r) (payload_of memw (br_start r) k))))) |}
                (br_start r)) cont false []).
  { intros cont. unfold exchange. rewrite Hbytes. destruct (br_tcp r).
    - rewrite device_reply_tcp by assumption. fold k.
      rewrite dep_parse_reply_tcp by (try assumption; rewrite Hlen; lia).
      cbn [map_ok snd extract_fields]. rewrite Hfcc. unfold extract_register_fields.
      rewrite (new_registers_memory memw (br_start r) k [] Hmem Hk1 Hkend). reflexivity.
    - rewrite device_reply_rtu by assumption. fold k.
      rewrite dep_parse_reply_rtu by (try assumption; rewrite Hlen; lia).
      cbn [extract_fields]. rewrite Hfcc. unfold extract_register_fields.
      rewrite (new_registers_memory memw (br_start r) k _ Hmem Hk1 Hkend). reflexivity. }
  split.
  - rewrite Hex. rewrite (loop_lenient memw (br_start r) k _ Hmem Hk1 Hkend) by assumption. reflexivity.
  - pose proof (loop_strict memw (br_start r) k
                  (if br_tcp r then [] else
                     skipn (length (adu_rtu (br_unit r) (rpdu (SPBytes fc (br_unit r) (payload_of memw (br_start r) k)))) - 2)
                           (adu_rtu (br_unit r) (rpdu (SPBytes fc (br_unit r) (payload_of memw (br_start r) k)))))
                  Hmem Hk1 Hkend (br_fields r) false [] Hmem_ok) as Hs.
    rewrite <- (Hex false) in Hs. exact Hs.
Qed.

(* ---------- all requests of a split ---------- *)
Lemma direct_value_some memw f : validate f = Ok tt -> f_type f <> 14 -> exists v, direct_value memw f = Some v.
Proof.
  intros Hv Hn. destruct (field_accessor_some f Hv Hn) as [a [Ha [Hw _]]].
  unfold direct_value. rewrite Ha, Hw. eauto.
Qed.

(* how a member field is reported when the reply holds the first k registers of the window at s *)
Definition reported_within (mem : list N -> N -> N -> N) (s k : N) (f : field) (fv : field * fvalue) : Prop :=
  fst fv = f /\
  if reachable s k f
  then exists v, direct_value (mem (f_server f) (f_unit f)) f = Some v /\ snd fv = FVal v
  else snd fv = FErr.
(* ... and when the reply is complete *)
Definition reported (mem : list N -> N -> N -> N) (f : field) (fv : field * fvalue) : Prop :=
  fst fv = f /\ exists v, direct_value (mem (f_server f) (f_unit f)) f = Some v /\ snd fv = FVal v.

Lemma results_reported mem srv u s k fs :
  Forall member_ok fs -> Forall (fun f => f_server f = srv /\ f_unit f = u) fs ->
  Forall2 (reported_within mem s k) fs (results (mem srv u) s k fs).
Proof.
  induction fs as [|f rest IH]; intros Hok Hdev; [constructor|].
  pose proof (Forall_inv Hok) as [_ [Hv Hn]]. pose proof (Forall_inv Hdev) as [Hs Hu].
  cbn [results map]. constructor.
  - split; [reflexivity|]. cbn [fst snd]. unfold field_result. rewrite Hs, Hu.
    destruct (reachable s k f); [|reflexivity].
    destruct (direct_value_some (mem srv u) f Hv Hn) as [v Hd]. rewrite Hd. eauto.
  - apply IH; [exact (Forall_inv_tail Hok)|exact (Forall_inv_tail Hdev)].
Qed.

Lemma reported_within_all mem s k fs vals :
  forallb (reachable s k) fs = true ->
  Forall2 (reported_within mem s k) fs vals -> Forall2 (reported mem) fs vals.
Proof.
  intros Hall H. induction H as [|f fv fs vals Hf _ IH]; [constructor|].
  cbn [forallb] in Hall. apply andb_prop in Hall. destruct Hall as [Hr Hrest].
  constructor; [|apply IH; exact Hrest].
  destruct Hf as [A B]. rewrite Hr in B. split; assumption.
Qed.

Theorem split_extract_c05 fields t (mem : list N -> N -> N -> N) :
  4 <= t < 8 -> Forall field_typed fields -> (forall srv u a, mem srv u a < 65536) ->
  Forall (fun f => wanted t f = true -> f_end f <= 65536) fields ->
  forall reqs, split fields t = Ok reqs ->
  Permutation (concat (map br_fields reqs)) (filter (wanted t) fields) /\
  Forall (fun r =>
    forall tid, tid < 65536 ->
    let memw := mem (br_server r) (br_unit r) in
    exists q, br_req r = RRead (target_fc t) (br_unit r) (br_start r) q /\
      (forall cont, exists vals,
         exchange memw tid None cont r = Ok (false, vals) /\ Forall2 (reported mem) (br_fields r) vals) /\
      (forall k, 1 <= k < q -> exists vals,
         Forall2 (reported_within mem (br_start r) k) (br_fields r) vals /\
         exchange memw tid (Some k) true r = Ok (negb (forallb (reachable (br_start r) k) (br_fields r)), vals) /\
         (if forallb (reachable (br_start r) k) (br_fields r)
          then exchange memw tid (Some k) false r = Ok (false, vals)
          else exists e, exchange memw tid (Some k) false r = Err e))) reqs.
Proof.
  intros Ht Hty Hmem Hspan reqs Hsplit.
  pose proof (split_c06 fields t (proj2 Ht) Hty) as H6. rewrite Hsplit in H6.
  destruct H6 as [P [Hreqs _]]. split; [exact P|].
  pose proof (split_ok_valid _ _ _ Hsplit) as Hvalid.
  apply Forall_forall. intros r Hr tid Htid memw.
  rewrite Forall_forall in Hreqs. destruct (Hreqs r Hr) as [q [Hreq [Htcp [Hne [Hdev [Hcont [Hlo [Hhi [Hq Hbytes]]]]]]]]].
  (* every member is a typed, validated register field of the input *)
  assert (Hmember : forall f, In f (br_fields r) -> In f fields /\ wanted t f = true).
  { intros f Hf.
    assert (Hc : In f (concat (map br_fields reqs))).
    { apply in_concat. exists (br_fields r). split; [apply in_map; exact Hr|exact Hf]. }
    pose proof (Permutation_in f P Hc) as Hfl. apply filter_In in Hfl. exact Hfl. }
  assert (Hcoils : target_coils t = false) by (unfold target_coils; lia).
  assert (Hmok : Forall member_ok (br_fields r)).
  { apply Forall_forall. intros f Hf. destruct (Hmember f Hf) as [Hin Hw].
    rewrite Forall_forall in Hty, Hvalid. split; [apply Hty; exact Hin|]. split; [apply Hvalid; exact Hin|].
    unfold wanted, is_coil, T_COIL in Hw. rewrite Hcoils in Hw. intros E. rewrite E in Hw. discriminate. }
  assert (Hfc : target_fc t = 3 \/ target_fc t = 4) by (unfold target_fc; lia).
  assert (Hq125 : q <= 125) by (rewrite Hcoils in Hq; cbn [kind_limit] in Hq; lia).
  assert (Hu : br_unit r < 256).
  { apply Exists_exists in Hlo. destruct Hlo as [f [Hf _]].
    rewrite Forall_forall in Hdev. destruct (Hdev f Hf) as [_ <-].
    rewrite Forall_forall in Hty. destruct (Hty f (proj1 (Hmember f Hf))) as [_ [X _]]. exact X. }
  assert (Hend : br_start r + q <= 65536).
  { apply Exists_exists in Hhi. destruct Hhi as [f [Hf He]]. rewrite <- He.
    destruct (Hmember f Hf) as [Hin Hw]. rewrite Forall_forall in Hspan. apply Hspan; assumption. }
  assert (Hb : forall tid', breq_bytes tid' r =
                 if br_tcp r then request_adu_tcp tid' (SRead (target_fc t) (br_unit r) (br_start r) q)
                 else request_adu_rtu (SRead (target_fc t) (br_unit r) (br_start r) q))
    by (intros tid'; rewrite Htcp; apply Hbytes).
  assert (Hfull : forallb (reachable (br_start r) q) (br_fields r) = true).
  { apply forallb_forall. intros f Hf. rewrite Forall_forall in Hcont. specialize (Hcont f Hf).
    unfold reachable, f_end. lia. }
  exists q. split; [exact Hreq|]. split.
  - intros cont. exists (results memw (br_start r) q (br_fields r)).
    destruct (exchange_request memw tid None r (target_fc t) q Hfc Hreq Hb Hq125 Hu Hend Htid (Hmem _ _) Hmok)
      as [Hl Hs]; [cbn [reply_count]; lia|].
    cbn [reply_count] in Hl, Hs. rewrite Hfull in Hl, Hs. cbn [negb] in Hl.
    split; [destruct cont; assumption|].
    apply (reported_within_all mem (br_start r) q); [exact Hfull|].
    apply results_reported; assumption.
  - intros k Hk. exists (results memw (br_start r) k (br_fields r)).
    destruct (exchange_request memw tid (Some k) r (target_fc t) q Hfc Hreq Hb Hq125 Hu Hend Htid (Hmem _ _) Hmok)
      as [Hl Hs]; [cbn [reply_count]; lia|].
    cbn [reply_count] in Hl, Hs. replace (N.min k q) with k in Hl, Hs by lia.
    split; [apply results_reported; assumption|]. split; assumption.
Qed.
