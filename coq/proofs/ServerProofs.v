(* ServerProofs.v -- proofs of C15 and C16 for ServerModel.v.
   The concrete drain loop refines the abstract one of ServerAbstract.v for the classifier
   PacketModel.looks_like (whose three facts are discharged here) and the frame handler built from
   PacketModel.parse_tcp_request and the user's handler; the abstract theorems are transported. *)
Require Import MB.GoSem MB.CrcModel MB.PacketModel MB.Spec MB.ServerModel.
Require Import MB.proofs.ServerAbstract MB.proofs.ServerPacketFacts.
From Coq Require Import ZifyBool ZifyN ZifyNat.
Open Scope N_scope.

(* ---------- the classifier as the drain loop reads it ---------- *)
Definition wire_of (e : option perr) : option (list N) :=
  match e with Some e' => err_wire_tcp e' | None => None end.
Definition is_too_short (e : option perr) : bool :=
  match e with Some ETooShortTCP => true | _ => false end.

Definition looks_c (b : list N) : averdict :=
  match looks_like (exact b) false with
  | Ok (n, e) =>
      if is_too_short e then AShort else
      if n =? 0 then AStop (wire_of e) else AFrame (N.to_nat n)
  | _ => ABroken
  end.

Lemma looks_c_short b : (length b < 8)%nat -> looks_c b = AShort.
Proof. intros H. unfold looks_c. rewrite looks_exact_short by exact H. reflexivity. Qed.
Lemma looks_c_prefix b c : (8 <= length b)%nat -> looks_c (b ++ c) = looks_c b.
Proof. intros H. unfold looks_c. rewrite looks_exact_prefix by exact H. reflexivity. Qed.

(* the verdicts of the classifier, as seen through looks_c *)
Lemma looks_c_cases b : (8 <= length b)%nat ->
  looks_c b = AStop (Some (exc_bytes_tcp (mk_exc 0 0 0 0))) \/
  exists n, looks_c b = AFrame (N.to_nat n) /\ frame_header_ok b n /\
    ((looks_like (exact b) false = Ok (n, None) /\ is_supported (fc_of b) = true) \/
     (looks_like (exact b) false = Ok (n, Some (err_tcp (tid_of b) (unit_of b) (fc_of b) 1)) /\
      is_supported (fc_of b) = false)).
Proof.
  intros H. unfold looks_c.
  destruct (looks_exact_cases b H) as [E|[(n & E & Hh & Hs)|(n & E & Hh & Hs)]]; rewrite E.
  - left. reflexivity.
  - right. exists n. pose proof Hh as (_ & _ & _ & Hn & _). cbn [is_too_short].
    replace (n =? 0) with false by lia. split; [reflexivity|]. split; [exact Hh|]. left. auto.
  - right. exists n. pose proof Hh as (_ & _ & _ & Hn & _). cbn [is_too_short err_tcp].
    replace (n =? 0) with false by lia. split; [reflexivity|]. split; [exact Hh|]. right. auto.
Qed.

Lemma looks_c_min b n : looks_c b = AFrame n -> (8 <= n)%nat.
Proof.
  intros H. destruct (Nat.lt_ge_cases (length b) 8) as [Hs|Hs].
  - rewrite looks_c_short in H by exact Hs. discriminate.
  - destruct (looks_c_cases b Hs) as [E|(m & E & (_ & _ & _ & Hm & _) & _)]; rewrite E in H; [discriminate|].
    injection H as <-. lia.
Qed.
Lemma looks_c_not_broken b : looks_c b <> ABroken.
Proof.
  destruct (Nat.lt_ge_cases (length b) 8) as [Hs|Hs].
  - rewrite looks_c_short by exact Hs. discriminate.
  - destruct (looks_c_cases b Hs) as [E|(m & E & _)]; rewrite E; discriminate.
Qed.
Lemma looks_c_not_stop_none b : looks_c b <> AStop None.
Proof.
  destruct (Nat.lt_ge_cases (length b) 8) as [Hs|Hs].
  - rewrite looks_c_short by exact Hs. discriminate.
  - destruct (looks_c_cases b Hs) as [E|(m & E & _)]; rewrite E; discriminate.
Qed.

Ltac facts := first [exact looks_c_short | exact looks_c_prefix | exact looks_c_min
                    | exact looks_c_not_broken | exact looks_c_not_stop_none].

Section Inst.
Variable handler : N * req -> handler_result.

(* the reply to one delimited frame: the exception 01 of the classifier for an unsupported
   function, otherwise parse + handler + encode; None = the call panics *)
Definition handle_c (f : list N) : option (list N) :=
  match looks_like (exact f) false with
  | Ok (_, Some e) => err_wire_tcp e
  | Ok (_, None) => match handle handler (exact f) with Ok w => Some w | _ => None end
  | _ => None
  end.

(* the frame is a re-slice of the buffer: what follows it in the buffer is irrelevant *)
Lemma handle_cap_indep v s : handle handler {| vis := v; spare := s |} = handle handler (exact v).
Proof.
  unfold handle. rewrite parse_tcp_request_cap_indep.
  destruct (parse_tcp_request (exact v)) as [p| |] eqn:Ep; try reflexivity.
  pose proof (parse_ok_len _ _ Ep) as H8. change (slen (exact v)) with (length v) in H8.
  destruct (handler p); try reflexivity;
    rewrite !(@sub_in perr {| vis := v; spare := s |} 0 2), !(@sub_in perr (exact v) 0 2)
      by (unfold slen, exact; cbn [vis]; lia); reflexivity.
Qed.

Theorem drain_refines : forall fuel b out, drain handler fuel b out = adrain looks_c handle_c fuel b out.
Proof.
  induction fuel as [|fuel IH]; intros b out; [reflexivity|].
  rewrite adrain_S. cbn [drain]. unfold looks_c.
  destruct (looks_like (exact b) false) as [[n e]| |] eqn:El; try reflexivity.
  destruct (Nat.lt_ge_cases (length b) 8) as [Hs|Hs].
  { rewrite looks_exact_short in El by exact Hs. injection El as <- <-. reflexivity. }
  assert (Hcases : is_too_short e = false /\
            (n =? 0 = false ->
             (8 <= n)%N /\ looks_like (exact (firstn (N.to_nat n) b)) false = Ok (n, e))).
  { destruct (looks_exact_cases b Hs) as [E|[(m & E & Hh & _)|(m & E & Hh & _)]];
      rewrite E in El; injection El as <- <-; (split; [reflexivity|]); intros Hn; try discriminate;
      pose proof Hh as (_ & _ & _ & Hm & _); (split; [exact Hm|]).
    - destruct (N.le_gt_cases m (N.of_nat (length b))) as [Hle|Hgt].
      + destruct (header_ok_frame b m Hs Hh Hle) as (_ & _ & _ & _ & Hl). rewrite Hl. exact E.
      + rewrite firstn_all2 by lia. exact E.
    - destruct (N.le_gt_cases m (N.of_nat (length b))) as [Hle|Hgt].
      + destruct (header_ok_frame b m Hs Hh Hle) as (_ & _ & _ & _ & Hl). rewrite Hl. exact E.
      + rewrite firstn_all2 by lia. exact E. }
  destruct Hcases as [Hts Hfr]. rewrite Hts.
  assert (Hmatch : forall (A : Type) (x y : A),
            match e with Some ETooShortTCP => x | _ => y end = y).
  { intros A x y. destruct e as [[]|]; try reflexivity. discriminate Hts. }
  rewrite Hmatch.
  destruct (n =? 0) eqn:En.
  - destruct e as [e'|]; cbn [wire_of]; [destruct (err_wire_tcp e')|]; reflexivity.
  - destruct (Hfr eq_refl) as [Hn8 Hlf].
    replace (length b <? N.to_nat n)%nat with (N.of_nat (length b) <? n) by lia.
    destruct (N.of_nat (length b) <? n) eqn:Elt; [reflexivity|].
    unfold handle_c, answer. rewrite Hlf.
    destruct e as [e'|].
    + destruct (err_wire_tcp e'); [apply IH|reflexivity].
    + rewrite handle_cap_indep.
      destruct (handle handler (exact (firstn (N.to_nat n) b))); try reflexivity. apply IH.
Qed.

Lemma receive_refines buf chunk : receive_read handler buf chunk = areceive looks_c handle_c buf chunk.
Proof. unfold receive_read, areceive. cbn zeta. apply drain_refines. Qed.
Lemma asm_read_refines c chunk : asm_read handler c chunk = aasm_read looks_c handle_c c chunk.
Proof. unfold asm_read, aasm_read, gen_read. rewrite receive_refines. reflexivity. Qed.
Lemma conn_read_refines c chunk : conn_read handler c chunk = aconn_read looks_c handle_c c chunk.
Proof. unfold conn_read, aconn_read. destruct chunk; [reflexivity|apply asm_read_refines]. Qed.
Lemma conn_run_refines chunks : conn_run handler chunks = aconn_run looks_c handle_c chunks.
Proof.
  unfold conn_run, aconn_run. generalize conn_init.
  induction chunks as [|ch chunks IH]; intros c; cbn [fold_left]; [reflexivity|].
  rewrite conn_read_refines. apply IH.
Qed.

(* a fresh connection whose first read delivers all the bytes *)
Definition whole (bytes : list N) : conn := asm_read handler conn_init bytes.
Lemma whole_refines bytes : whole bytes = awhole looks_c handle_c bytes.
Proof. apply asm_read_refines. Qed.

(* ---------- C15 (i) ---------- *)
Theorem fuel_irrelevant f1 f2 b out :
  (length b < f1)%nat -> (length b < f2)%nat -> drain handler f1 b out = drain handler f2 b out.
Proof. intros H1 H2. rewrite !drain_refines. apply adrain_fuel; solve [facts | assumption]. Qed.

Theorem fuel_sufficient buf chunk : r_status (receive_read handler buf chunk) <> OutOfFuel.
Proof. rewrite receive_refines. unfold areceive. cbn zeta. apply adrain_enough; solve [facts | lia]. Qed.

Theorem seg_independent chunks :
  c_status (whole (concat chunks)) <> Panicked -> conn_run handler chunks = whole (concat chunks).
Proof.
  rewrite conn_run_refines, whole_refines.
  apply segmentation_independent; facts.
Qed.
Theorem seg_independent_run chunks :
  c_status (conn_run handler chunks) <> Panicked -> conn_run handler chunks = whole (concat chunks).
Proof.
  rewrite conn_run_refines, whole_refines.
  apply segmentation_independent_run; facts.
Qed.

(* ---------- replies to delimited frames (C16) ---------- *)
Definition exc_for (f : list N) (code : N) : list N := exc_bytes_tcp (mk_exc (tid_of f) (unit_of f) (fc_of f) code).

(* what handle returns for a delimited frame of a supported function *)
Inductive handled (f : list N) : pres (list N) -> Prop :=
| H_refused : parse_tcp_request (exact f) = Err (err_tcp (tid_of f) (unit_of f) (fc_of f) 3) -> handled f (Ok (exc_for f 3))
| H_resp t r w : parse_tcp_request (exact f) = Ok (t, r) -> t = tid_of f -> req_unit r = unit_of f ->
    req_fc r = fc_of f -> handler (t, r) = HResp w -> handled f (Ok w)
| H_typed t r c : parse_tcp_request (exact f) = Ok (t, r) -> handler (t, r) = HErrTyped c -> handled f (Ok (exc_for f c))
| H_generic t r : parse_tcp_request (exact f) = Ok (t, r) -> handler (t, r) = HErrGeneric -> handled f (Ok (exc_for f 0))
| H_panic t r : parse_tcp_request (exact f) = Ok (t, r) -> handler (t, r) = HPanic -> handled f Panic.

Lemma nth_error_of_nth (l : list N) i : (i < length l)%nat -> nth_error l i = Some (nth i l 0).
Proof. intros H. apply nth_error_nth'. exact H. Qed.

Theorem handle_delimited f :
  delimited_frame f -> is_supported (fc_of f) = true -> handled f (handle handler (exact f)).
Proof.
  intros Hd Hs. pose proof (parse_delimited f [] Hd Hs) as Hp. pose proof Hd as (H8 & _).
  change {| vis := f; spare := [] |} with (exact f) in Hp.
  unfold handle. destruct (parse_tcp_request (exact f)) as [[t r]| |] eqn:Ep; cbn [parse_shape] in Hp.
  - destruct Hp as (Ht & Hu & Hf).
    assert (Hsub : @sub perr (exact f) 0 2 = Ok (firstn 2 f)).
    { rewrite sub_in by (unfold slen; cbn [vis exact]; lia). reflexivity. }
    assert (H6 : @idx perr (exact f) 6 = Ok (unit_of f)).
    { unfold idx, exact, unit_of. cbn [vis]. rewrite nth_error_of_nth by lia. reflexivity. }
    assert (H7 : @idx perr (exact f) 7 = Ok (fc_of f)).
    { unfold idx, exact, fc_of. cbn [vis]. rewrite nth_error_of_nth by lia. reflexivity. }
    destruct (handler (t, r)) as [w|c| |] eqn:Eh.
    + eapply H_resp; eauto.
    + rewrite Hsub, H6, H7. cbn [bind]. eapply H_typed; eauto.
    + rewrite Hsub, H6, H7. cbn [bind]. eapply H_generic; eauto.
    + eapply H_panic; eauto.
  - subst e. cbn [err_wire_tcp err_tcp]. apply H_refused. exact Ep.
  - contradiction.
Qed.

Lemma handled_ok_inv f w : handled f (Ok w) ->
  (parse_tcp_request (exact f) = Err (err_tcp (tid_of f) (unit_of f) (fc_of f) 3) /\ w = exc_for f 3) \/
  exists t r, parse_tcp_request (exact f) = Ok (t, r) /\
    match handler (t, r) with
    | HResp w' => w = w'
    | HErrTyped c => w = exc_for f c
    | HErrGeneric => w = exc_for f 0
    | HPanic => False
    end.
Proof.
  intros H. remember (Ok w) as x eqn:Ex. destruct H as [Ep|t r w' Ep _ _ _ Eh|t r c Ep Eh|t r Ep Eh|t r Ep Eh].
  - injection Ex as <-. left. auto.
  - injection Ex as <-. right. exists t, r. rewrite Eh. auto.
  - injection Ex as <-. right. exists t, r. rewrite Eh. auto.
  - injection Ex as <-. right. exists t, r. rewrite Eh. auto.
  - discriminate Ex.
Qed.

(* every reply to a frame the classifier delimits *)
Inductive replied (f : list N) : option (list N) -> Prop :=
| R_unsupported : is_supported (fc_of f) = false -> replied f (Some (exc_for f 1))
| R_supported x : is_supported (fc_of f) = true -> handled f x ->
    replied f (match x with Ok w => Some w | _ => None end).

Theorem handle_c_delimited b n :
  (8 <= length b)%nat -> looks_c b = AFrame n -> (n <= length b)%nat ->
  let f := firstn n b in
  delimited_frame f /\ tid_of f = tid_of b /\ unit_of f = unit_of b /\ fc_of f = fc_of b /\ replied f (handle_c f).
Proof.
  intros H8 Hl Hle f.
  destruct (looks_c_cases b H8) as [E|(m & E & Hh & Hc)]; rewrite E in Hl; [discriminate|].
  injection Hl as <-.
  destruct (header_ok_frame b m H8 Hh) as (Hd & Ht & Hu & Hf & Hlk); [lia|].
  fold f in Hd, Ht, Hu, Hf, Hlk.
  repeat (split; [assumption|]).
  unfold handle_c. rewrite Hlk.
  destruct Hc as [[Ec Hs]|[Ec Hs]]; rewrite Ec.
  - apply R_supported; [rewrite Hf; exact Hs|]. apply handle_delimited; [exact Hd|rewrite Hf; exact Hs].
  - cbn [err_tcp err_wire_tcp]. rewrite <- Ht, <- Hu, <- Hf. apply R_unsupported. rewrite Hf. exact Hs.
Qed.

(* the exception packet of the model is the exception ADU of the specification *)
Lemma exc_bytes_spec t u fc code : fc < 128 -> exc_bytes_tcp (mk_exc t u fc code) = exception_adu_tcp t u fc code.
Proof.
  intros H. unfold exc_bytes_tcp, exception_adu_tcp, adu_tcp, exception_pdu, w16, hi, lo, put16, add8, u8, mk_exc.
  cbn [x_tid x_unit x_fc x_code app].
  change (N.of_nat (length [fc + 128; code])) with 2.
  change (0 / 256) with 0. change (0 mod 256) with 0.
  change ((1 + 2) / 256) with 0. change ((1 + 2) mod 256) with 3.
  replace ((fc + 128) mod 256) with (fc + 128) by lia. reflexivity.
Qed.

(* ---------- no panic with a total handler ---------- *)
Hypothesis handler_total : forall p, handler p <> HPanic.

Lemma handle_c_total b n : looks_c b = AFrame n -> (n <= length b)%nat -> handle_c (firstn n b) <> None.
Proof.
  intros Hl Hle. pose proof (looks_c_min _ _ Hl) as Hn.
  destruct (handle_c_delimited b n) as (_ & _ & _ & _ & Hr); [lia|exact Hl|exact Hle|].
  inversion Hr as [Hs Heq|x Hs Hx Heq]; [discriminate|].
  destruct Hx; try discriminate.
  exfalso. eapply handler_total. eassumption.
Qed.

Theorem whole_no_panic bytes : c_status (whole bytes) <> Panicked.
Proof.
  rewrite whole_refines.
  apply awhole_no_panic; solve [facts | exact handle_c_total].
Qed.

Theorem seg_independent_total chunks : conn_run handler chunks = whole (concat chunks).
Proof. apply seg_independent. apply whole_no_panic. Qed.

(* ---------- C15 (ii) and combined: streams of the library's own request frames ---------- *)
Definition reply_of (f : list N) : list N := match handle handler (exact f) with Ok w => w | _ => [] end.
Definition frame_of (tr : N * req) : list N := req_bytes_tcp (fst tr) (snd tr).

Lemma encoder_frame_delimited tr :
  encodable (snd tr) ->
  delimited looks_c (frame_of tr) /\ handle_c (frame_of tr) <> None /\
  areply handle_c (frame_of tr) = reply_of (frame_of tr).
Proof.
  intros He. destruct tr as [tid r]. unfold frame_of. cbn [fst snd] in *.
  destruct (req_frame_looks tid r [] He) as [Hl H8]. rewrite app_nil_r in Hl.
  set (f := req_bytes_tcp tid r) in *.
  assert (Hd : delimited looks_c f).
  { unfold delimited, looks_c. rewrite Hl. cbn [is_too_short].
    replace (N.of_nat (length f) =? 0) with false by lia. rewrite Nat2N.id. reflexivity. }
  split; [exact Hd|].
  assert (Hn : handle_c f <> None).
  { pose proof (handle_c_total f (length f) Hd (Nat.le_refl _)) as H. rewrite firstn_all in H. exact H. }
  split; [exact Hn|].
  unfold areply, reply_of, handle_c in *. rewrite Hl in *.
  destruct (handle handler (exact f)); try reflexivity; congruence.
Qed.

Theorem whole_frames reqs partial :
  Forall (fun tr => encodable (snd tr)) reqs ->
  (partial = [] \/ exists tr rest, encodable (snd tr) /\ partial ++ rest = frame_of tr /\ rest <> []) ->
  whole (concat (map frame_of reqs) ++ partial) =
    {| c_buf := partial; c_written := concat (map reply_of (map frame_of reqs)); c_status := Open |}.
Proof.
  intros HF Hp. rewrite whole_refines.
  rewrite (awhole_frames looks_c handle_c looks_c_short looks_c_prefix looks_c_min (map frame_of reqs) partial).
  - f_equal. f_equal. rewrite !map_map. apply map_ext_in. intros tr Hin.
    rewrite Forall_forall in HF. apply (encoder_frame_delimited tr (HF tr Hin)).
  - apply Forall_forall. intros f Hin. apply in_map_iff in Hin. destruct Hin as (tr & <- & Hin).
    rewrite Forall_forall in HF. destruct (encoder_frame_delimited tr (HF tr Hin)) as (A & B & _). auto.
  - destruct Hp as [->|(tr & rest & He & Hr & Hne)].
    + apply nil_incomplete. exact looks_c_short.
    + destruct (encoder_frame_delimited tr He) as (A & _).
      exact (proper_prefix_incomplete looks_c handle_c looks_c_short looks_c_prefix looks_c_min (frame_of tr) partial rest A Hr Hne).
Qed.

Theorem replies_after_each_read reqs chunks k :
  Forall (fun tr => encodable (snd tr)) reqs ->
  concat chunks = concat (map frame_of reqs) ->
  let frames := map frame_of reqs in
  let seen := concat (firstn k chunks) in
  let j := count_complete frames (length seen) in
  exists partial,
    seen = concat (firstn j frames) ++ partial /\
    conn_run handler (firstn k chunks) =
      {| c_buf := partial; c_written := concat (map reply_of (firstn j frames)); c_status := Open |}.
Proof.
  intros HF Hc frames seen j.
  assert (HF' : Forall (fun f => delimited looks_c f /\ handle_c f <> None) frames).
  { apply Forall_forall. intros f Hin. apply in_map_iff in Hin. destruct Hin as (tr & <- & Hin).
    rewrite Forall_forall in HF. destruct (encoder_frame_delimited tr (HF tr Hin)) as (A & B & _). auto. }
  destruct (run_prefix_replies looks_c handle_c looks_c_short looks_c_prefix looks_c_min frames chunks k HF' Hc)
    as (partial & P1 & P2).
  exists partial. split; [exact P1|]. rewrite conn_run_refines, P2. f_equal. f_equal.
  apply map_ext_in. intros f Hin.
  assert (Hin' : In f frames).
  { rewrite <- (firstn_skipn (count_complete frames (length (concat (firstn k chunks)))) frames). apply in_or_app. left. exact Hin. }
  apply in_map_iff in Hin'. destruct Hin' as (tr & <- & Hin').
  rewrite Forall_forall in HF. apply (encoder_frame_delimited tr (HF tr Hin')).
Qed.

End Inst.

(* ---------- several connections: a read on one leaves the others untouched ---------- *)
Lemma server_read_other handler : forall conns i chunk j, i <> j ->
  nth_error (server_read handler conns i chunk) j = nth_error conns j.
Proof.
  induction conns as [|c conns IH]; intros i chunk j Hne; [destruct i; reflexivity|].
  destruct i as [|i]; destruct j as [|j]; cbn [server_read nth_error]; try reflexivity; try congruence.
  apply IH. congruence.
Qed.
Lemma server_read_same handler : forall conns i chunk c,
  nth_error conns i = Some c -> nth_error (server_read handler conns i chunk) i = Some (conn_read handler c chunk).
Proof.
  induction conns as [|c0 conns IH]; intros i chunk c H; [destruct i; discriminate|].
  destruct i as [|i]; cbn [server_read nth_error] in *; [congruence|]. apply IH. exact H.
Qed.

(* ---------- C16 in the vocabulary of the specification (ServerSpec.v) ---------- *)
Require Import MB.ServerSpec.

Lemma spec_fields f : (8 <= length f)%nat -> a_tid f = tid_of f /\ a_unit f = unit_of f /\ a_fc f = fc_of f.
Proof.
  intros H. destruct (eight_or_more f H) as (h0 & h1 & h2 & h3 & h4 & h5 & h6 & h7 & rest & ->).
  unfold a_tid, a_unit, a_fc, fld16, byte_at, tid_of, unit_of, fc_of, be16. cbn [nth firstn]. auto.
Qed.

Lemma exc_for_spec f code : (8 <= length f)%nat -> fc_of f < 128 -> exc_for f code = exception_for f code.
Proof.
  intros H8 Hfc. unfold exc_for, exception_for. destruct (spec_fields f H8) as (-> & -> & ->).
  apply exc_bytes_spec. exact Hfc.
Qed.

(* an exception ADU is well formed, 9 bytes long and carries the ids it was built from *)
Lemma exception_adu_wf t u fc c :
  wf_adu (exception_adu_tcp t u fc c) = true /\ length (exception_adu_tcp t u fc c) = 9%nat /\
  a_tid (exception_adu_tcp t u fc c) = t /\ a_unit (exception_adu_tcp t u fc c) = u /\
  a_fc (exception_adu_tcp t u fc c) = fc + 128 /\ nth 8 (exception_adu_tcp t u fc c) 0 = c.
Proof.
  unfold exception_adu_tcp, adu_tcp, exception_pdu, w16, hi, lo, wf_adu, a_proto, a_len, a_tid, a_unit, a_fc, fld16, byte_at.
  cbn [app length nth]. repeat split; try reflexivity. lia.
Qed.

Lemma supported_lt_128 fc : is_supported fc = true -> fc < 128.
Proof. unfold is_supported, supported_fcs. cbn [existsb]. lia. Qed.

Definition frame_at (b : list N) (n : N) : slice :=
  {| vis := firstn (N.to_nat n) b; spare := skipn (N.to_nat n) b |}.

Section C16.
Variable handler : N * req -> handler_result.

(* every way the drain loop answers a frame it has cut off *)
Theorem answer_cases b n e :
  looks_like (exact b) false = Ok (n, e) -> is_too_short e = false -> n <> 0 -> n <= N.of_nat (length b) ->
  delimited_frame (firstn (N.to_nat n) b) /\ N.of_nat (length (firstn (N.to_nat n) b)) = n /\
  ((is_supported (fc_of (firstn (N.to_nat n) b)) = false /\
      answer handler (frame_at b n) e = Ok (exc_for (firstn (N.to_nat n) b) 1)) \/
   (is_supported (fc_of (firstn (N.to_nat n) b)) = true /\
      handled handler (firstn (N.to_nat n) b) (answer handler (frame_at b n) e))).
Proof.
  intros Hl Hts Hn Hle. unfold frame_at.
  destruct (Nat.lt_ge_cases (length b) 8) as [Hs|Hs].
  { rewrite looks_exact_short in Hl by exact Hs. injection Hl as <- <-. discriminate Hts. }
  destruct (looks_exact_cases b Hs) as [E|[(m & E & Hh & Hsup)|(m & E & Hh & Hsup)]];
    rewrite E in Hl; injection Hl as <- <-; try congruence;
    destruct (header_ok_frame b m Hs Hh Hle) as (Hd & Ht & Hu & Hf & _);
    remember (firstn (N.to_nat m) b) as f eqn:Ef;
    assert (Hlen : N.of_nat (length f) = m) by (subst f; rewrite firstn_length; lia);
    (split; [exact Hd|]); (split; [exact Hlen|]).
  - right. rewrite Hf. split; [exact Hsup|].
    unfold answer. rewrite handle_cap_indep. apply handle_delimited; [exact Hd|rewrite Hf; exact Hsup].
  - left. rewrite Hf. split; [exact Hsup|].
    unfold answer, exc_for. cbn [err_tcp err_wire_tcp]. rewrite Ht, Hu, Hf. reflexivity.
Qed.

(* C16: exception replies.  [f] is the frame, [w] the reply. *)
Theorem exception_replies b n e w :
  looks_like (exact b) false = Ok (n, e) -> is_too_short e = false -> n <> 0 -> n <= N.of_nat (length b) ->
  answer handler (frame_at b n) e = Ok w ->
  let f := firstn (N.to_nat n) b in
  (* unsupported function code 1..127: illegal function *)
  (is_supported (a_fc f) = false -> a_fc f < 128 -> w = exception_for f ILLEGAL_FUNCTION) /\
  (* supported function: whatever the parser refuses is answered with illegal data value ... *)
  (is_supported (a_fc f) = true ->
     (forall x, parse_tcp_request (exact f) = Err x -> w = exception_for f ILLEGAL_DATA_VALUE) /\
     (* ... a parsed request carries the frame's ids and is answered by the handler's packet or
        by an exception with the handler's code (0 for an untyped error) ... *)
     (forall t r, parse_tcp_request (exact f) = Ok (t, r) ->
        t = a_tid f /\ req_unit r = a_unit f /\ req_fc r = a_fc f /\
        match handler (t, r) with
        | HResp w' => w = w'
        | HErrTyped c => w = exception_for f c
        | HErrGeneric => w = exception_for f 0
        | HPanic => False
        end) /\
     (* ... and the parser never panics on it *)
     parse_tcp_request (exact f) <> Panic).
Proof.
  intros Hl Hts Hn Hle Hw. cbn zeta.
  destruct (answer_cases b n e Hl Hts Hn Hle) as (Hd & _ & Hc).
  remember (firstn (N.to_nat n) b) as f eqn:Ef.
  pose proof Hd as (H8 & _).
  destruct (spec_fields f H8) as (Et & Eu & Efc). rewrite Efc.
  split.
  - intros Hns Hlt. destruct Hc as [[_ Ha]|[Hs _]]; [|congruence].
    rewrite Ha in Hw. injection Hw as <-. apply exc_for_spec; assumption.
  - intros Hs. destruct Hc as [[Hns _]|[_ Hh]]; [congruence|].
    pose proof (supported_lt_128 _ Hs) as Hlt.
    pose proof (fun c => exc_for_spec f c H8 Hlt) as Hx.
    pose proof (parse_delimited f [] Hd Hs) as Hp. change {| vis := f; spare := [] |} with (exact f) in Hp.
    rewrite Hw in Hh. apply handled_ok_inv in Hh.
    split; [|split].
    + intros x Ex. destruct Hh as [[_ ->]|(t & r & Ep & _)]; [apply Hx|congruence].
    + intros t r Ep. rewrite Ep in Hp. cbn [parse_shape] in Hp. destruct Hp as (A & B & C).
      rewrite Et, Eu. repeat (split; [assumption|]).
      destruct Hh as [[Ee _]|(t' & r' & Ep' & Hm)]; [congruence|].
      rewrite Ep in Ep'. injection Ep' as <- <-.
      destruct (handler (t, r)); try rewrite <- !Hx; exact Hm.
    + intros Epanic. rewrite Epanic in Hp. exact Hp.
Qed.

(* C16: every reply is a well-formed ADU addressed to its request.  Premise: the packets the
   handler returns are well-formed ADUs that echo transaction id and unit id of the request they
   were given (the handler's contract) *)
Definition handler_echoes : Prop :=
  forall t r w, handler (t, r) = HResp w -> wf_adu w = true /\ a_tid w = t /\ a_unit w = req_unit r.

Theorem reply_addressed b n e w :
  handler_echoes ->
  looks_like (exact b) false = Ok (n, e) -> is_too_short e = false -> n <> 0 -> n <= N.of_nat (length b) ->
  answer handler (frame_at b n) e = Ok w ->
  let f := firstn (N.to_nat n) b in
  wf_adu w = true /\ addressed_to f w = true.
Proof.
  intros Hecho Hl Hts Hn Hle Hw. cbn zeta.
  destruct (answer_cases b n e Hl Hts Hn Hle) as (Hd & _ & Hc).
  remember (firstn (N.to_nat n) b) as f eqn:Ef.
  pose proof Hd as (H8 & _).
  destruct (spec_fields f H8) as (Et & Eu & Efc).
  assert (Hexc : forall c, wf_adu (exc_for f c) = true /\ addressed_to f (exc_for f c) = true).
  { intros c. unfold exc_for, exc_bytes_tcp, wf_adu, addressed_to, a_proto, a_len, a_tid, a_unit, fld16, byte_at, put16, mk_exc.
    cbn [x_tid x_unit x_fc x_code app length nth]. rewrite <- Et, <- Eu.
    unfold a_tid, a_unit, fld16, byte_at. split; [reflexivity|]. lia. }
  destruct Hc as [[_ Ha]|[Hs Hh]].
  - rewrite Ha in Hw. injection Hw as <-. apply Hexc.
  - rewrite Hw in Hh. apply handled_ok_inv in Hh.
    destruct Hh as [[_ ->]|(t & r & Ep & Hm)]; [apply Hexc|].
    pose proof (parse_delimited f [] Hd Hs) as Hp. change {| vis := f; spare := [] |} with (exact f) in Hp.
    rewrite Ep in Hp. cbn [parse_shape] in Hp. destruct Hp as (A & B & _).
    destruct (handler (t, r)) as [w'|c| |] eqn:Eh; try (subst w; apply Hexc); [|contradiction].
    subst w'. destruct (Hecho t r w Eh) as (Hwf & Htid & Hunit).
    split; [exact Hwf|]. unfold addressed_to. rewrite Htid, Hunit, Et, Eu, A, B. rewrite !N.eqb_refl. reflexivity.
Qed.

(* a handler panic is the only way the answer to a delimited frame can panic *)
Theorem answer_panic_only_from_handler b n e :
  looks_like (exact b) false = Ok (n, e) -> is_too_short e = false -> n <> 0 -> n <= N.of_nat (length b) ->
  answer handler (frame_at b n) e = Panic ->
  exists t r, parse_tcp_request (exact (firstn (N.to_nat n) b)) = Ok (t, r) /\ handler (t, r) = HPanic.
Proof.
  intros Hl Hts Hn Hle Hp.
  destruct (answer_cases b n e Hl Hts Hn Hle) as (_ & _ & [[_ Ha]|[_ Hh]]); [congruence|].
  rewrite Hp in Hh. remember Panic as x eqn:Ex.
  destruct Hh as [Ep|t r w' Ep _ _ _ Eh|t r c Ep Eh|t r Ep Eh|t r Ep Eh]; try discriminate Ex. eauto.
Qed.
End C16.

(* ---------- faults end one connection and nothing else ---------- *)
Section Faults.
Variable handler : N * req -> handler_result.

(* a panic while handling a read: nothing of that read is written, the connection is over *)
Theorem conn_read_panic c chunk :
  c_status c = Open -> chunk <> [] ->
  r_status (receive_read handler (c_buf c) chunk) = Panicked ->
  c_status (conn_read handler c chunk) = Panicked /\ c_written (conn_read handler c chunk) = c_written c.
Proof.
  intros Ho Hne Hp. unfold conn_read, asm_read. destruct chunk; [congruence|].
  rewrite Ho, Hp. cbn. auto.
Qed.

(* a connection that is closed or has panicked never does anything again *)
Theorem conn_read_over c chunk : c_status c <> Open -> conn_read handler c chunk = c.
Proof. intros H. rewrite conn_read_refines. apply aconn_read_done. exact H. Qed.

(* the frame at the head of the buffer makes the handler panic: the call panics *)
Theorem drain_head_panic b n e fuel out :
  looks_like (exact b) false = Ok (n, e) -> is_too_short e = false -> n <> 0 -> n <= N.of_nat (length b) ->
  answer handler (frame_at b n) e = Panic ->
  r_status (drain handler (S fuel) b out) = Panicked /\ r_out (drain handler (S fuel) b out) = [].
Proof.
  intros Hl Hts Hn Hle Hp. cbn [drain]. rewrite Hl.
  assert (Hmatch : forall (A : Type) (x y : A), match e with Some ETooShortTCP => x | _ => y end = y).
  { intros A x y. destruct e as [[]|]; try reflexivity. discriminate Hts. }
  rewrite Hmatch. replace (n =? 0) with false by lia.
  replace (N.of_nat (length b) <? n) with false by lia.
  unfold frame_at in Hp. rewrite Hp. cbn. auto.
Qed.

(* non-Modbus bytes at the head of the buffer: the farewell exception is returned, the buffer is
   dropped and the connection is to be closed *)
Theorem drain_head_not_modbus b fuel out :
  looks_like (exact b) false = Ok (0, Some ENotTCP) ->
  drain handler (S fuel) b out =
    {| r_buf := []; r_out := out ++ exc_bytes_tcp (mk_exc 0 0 0 0); r_status := Closed |}.
Proof. intros Hl. cbn [drain]. rewrite Hl. reflexivity. Qed.

(* the frame lemma: a read on connection i changes connection i only *)
Lemma server_read_at : forall conns i chunk,
  nth_error (server_read handler conns i chunk) i = option_map (fun c => conn_read handler c chunk) (nth_error conns i).
Proof.
  induction conns as [|c conns IH]; intros i chunk; [destruct i; reflexivity|].
  destruct i as [|i]; cbn [server_read nth_error option_map]; [reflexivity|apply IH].
Qed.

Definition reads_of (j : nat) (events : list (nat * list N)) : list (list N) :=
  map snd (filter (fun ev => Nat.eqb (fst ev) j) events).

(* whatever happens on the other connections -- garbage, panics, closes -- the state of
   connection j after any interleaving is the state it reaches on its own reads alone *)
Theorem server_run_isolated : forall events conns j,
  nth_error (server_run handler conns events) j =
  option_map (fun c => fold_left (conn_read handler) (reads_of j events) c) (nth_error conns j).
Proof.
  unfold server_run.
  induction events as [|[i chunk] events IH]; intros conns j; cbn [fold_left reads_of filter map fst snd].
  - destruct (nth_error conns j); reflexivity.
  - rewrite IH. fold (reads_of j events).
    destruct (Nat.eqb i j) eqn:Eij.
    + apply Nat.eqb_eq in Eij. subst i. rewrite server_read_at.
      cbn [map snd fold_left]. destruct (nth_error conns j); reflexivity.
    + apply Nat.eqb_neq in Eij. rewrite server_read_other by exact Eij. reflexivity.
Qed.
End Faults.

(* ---------- bytes returned together with a deadline error are bytes ---------- *)
Theorem conn_run_ev_eq handler events : conn_run_ev handler events = conn_run handler (map fst events).
Proof.
  unfold conn_run_ev, conn_run. generalize conn_init.
  induction events as [|ev events IH]; intros c; cbn [fold_left map]; [reflexivity|]. apply IH.
Qed.
