(* CrcProofs.v -- the model of packet.CRC16 equals the bit-vector specification for every byte
   string.  Induction over the bytes; the bit step is compared for all 2^16 register values by a
   finite sweep ([forallb ... (seqN 65536) = true] by vm_compute, lifted with forallb_forall). *)
From Coq Require Import ZifyBool ZifyN ZifyNat.
Require Import MB.GoSem MB.CrcModel MB.CrcSpec.
Open Scope N_scope.
Ltac Zify.zify_post_hook ::= Z.div_mod_to_equations.

Definition sweep_pred (c : N) : bool :=
  (N.eqb (N_of_bv (spec_bit_step (bv_of_N 16 c))) (bit_step c)) && (bit_step c <? 65536).
Lemma sweep_bit_ok : forallb sweep_pred (seqN 65536) = true. Proof. vm_compute. reflexivity. Qed.

Lemma bit_step_spec c : c < 65536 ->
  N_of_bv (spec_bit_step (bv_of_N 16 c)) = bit_step c /\ bit_step c < 65536.
Proof.
  intros H. pose proof (proj1 (forallb_forall _ _) sweep_bit_ok c (in_seqN _ _ H)) as S.
  unfold sweep_pred in S.
  apply andb_prop in S. destruct S as [A B]. split; [apply N.eqb_eq in A; exact A|lia].
Qed.

Lemma bv_canonical : forall v, bv_of_N (length v) (N_of_bv v) = v.
Proof.
  induction v as [|b v IH]; [reflexivity|]. cbn [length bv_of_N N_of_bv].
  assert (Ho : N.odd ((if b then 1 else 0) + 2 * N_of_bv v) = b).
  { rewrite N.odd_add_mul_2. destruct b; reflexivity. }
  assert (Hd : N.div2 ((if b then 1 else 0) + 2 * N_of_bv v) = N_of_bv v).
  { rewrite N.div2_div. destruct b; [|rewrite N.add_0_l, N.mul_comm; apply N.div_mul; lia].
    rewrite N.add_comm, N.mul_comm. rewrite N.div_add_l by lia. cbn. lia. }
  rewrite Ho, Hd, IH. reflexivity.
Qed.

Lemma bv_of_N_length w : forall n, length (bv_of_N w n) = w.
Proof. induction w as [|w IH]; intros n; cbn; [reflexivity|rewrite IH; reflexivity]. Qed.

Lemma N_of_bv_bound : forall v, N_of_bv v < 2 ^ N.of_nat (length v).
Proof.
  induction v as [|b v IH]; [cbn; lia|]. cbn [length N_of_bv].
  rewrite Nat2N.inj_succ, N.pow_succ_r by lia. destruct b; lia.
Qed.

Lemma spec_bit_step_length r : length r = 16%nat -> length (spec_bit_step r) = 16%nat.
Proof.
  intros H. destruct r as [|b r]; [discriminate|]. cbn in H. cbn [spec_bit_step].
  assert (Hs : length (r ++ [false]) = 16%nat) by (rewrite app_length; cbn; lia).
  destruct b; [|exact Hs].
  remember (r ++ [false]) as sh. clear - Hs.
  do 17 (destruct sh as [|? sh]; [try discriminate|]); try discriminate. reflexivity.
Qed.

Lemma bit_step_bv r : length r = 16%nat -> N_of_bv (spec_bit_step r) = bit_step (N_of_bv r).
Proof.
  intros H. pose proof (N_of_bv_bound r) as Hb. rewrite H in Hb. change (2 ^ N.of_nat 16) with 65536 in Hb.
  destruct (bit_step_spec _ Hb) as [A _]. rewrite <- A.
  rewrite <- H at 1. rewrite bv_canonical. reflexivity.
Qed.

Lemma iter_bit_steps n : forall r, length r = 16%nat ->
  N_of_bv (iter n spec_bit_step r) = iter n bit_step (N_of_bv r) /\ length (iter n spec_bit_step r) = 16%nat.
Proof.
  induction n as [|n IH]; intros r H; cbn [iter]; [auto|].
  destruct (IH (spec_bit_step r) (spec_bit_step_length r H)) as [A B].
  rewrite A, bit_step_bv by exact H. auto.
Qed.

Lemma N_of_bv_xorv : forall a b, (length b <= length a)%nat ->
  N_of_bv (xorv a b) = N.lxor (N_of_bv a) (N_of_bv b).
Proof.
  induction a as [|x a IH]; intros b Hl.
  - destruct b; [reflexivity|cbn in Hl; lia].
  - destruct b as [|y b]; [cbn [xorv N_of_bv]; rewrite N.lxor_0_r; reflexivity|].
    cbn [xorv N_of_bv]. cbn in Hl. rewrite IH by lia.
    apply N.bits_inj. intros k.
    rewrite N.lxor_spec.
    destruct (N.eq_dec k 0) as [->|Hk].
    + rewrite !N.bit0_odd. rewrite !N.odd_add_mul_2.
      destruct x, y; reflexivity.
    + replace k with (N.succ (N.pred k)) by lia.
      assert (T : forall (c : bool) z, N.testbit ((if c then 1 else 0) + 2 * z) (N.succ (N.pred k)) = N.testbit z (N.pred k)).
      { intros c z. destruct c.
        - rewrite N.add_comm. apply (N.testbit_succ_r z true).
        - rewrite N.add_0_l. apply N.double_bits_succ. }
      rewrite !T, N.lxor_spec. reflexivity.
Qed.
Lemma xorv_length : forall a b, length (xorv a b) = length a.
Proof. induction a as [|x a IH]; intros [|y b]; cbn; auto. Qed.

Lemma byte_step_bv r b : length r = 16%nat -> (length b <= 16)%nat ->
  N_of_bv (spec_byte_step r b) = byte_step (N_of_bv r) (N_of_bv b) /\ length (spec_byte_step r b) = 16%nat.
Proof.
  intros Hr Hb. unfold spec_byte_step, byte_step.
  destruct (iter_bit_steps 8 (xorv r b)) as [A B]; [rewrite xorv_length; exact Hr|].
  rewrite A, N_of_bv_xorv by lia. auto.
Qed.

Definition bits8_pred (c : N) : bool := N.eqb (N_of_bv (bv_of_N 8 c)) c.
Lemma bits8_sweep : forallb bits8_pred (seqN 256) = true. Proof. vm_compute. reflexivity. Qed.
Lemma N_of_bits8 b : b < 256 -> N_of_bv (bits8 b) = b.
Proof.
  intros H. unfold bits8. apply N.eqb_eq.
  exact (proj1 (forallb_forall _ _) bits8_sweep b (in_seqN _ _ H)).
Qed.

Lemma spec_crc_fold : forall (l : list N) r, bytes_ok l -> length r = 16%nat ->
     fold_left byte_step l (N_of_bv r) = N_of_bv (fold_left spec_byte_step (map bits8 l) r)
     /\ length (fold_left spec_byte_step (map bits8 l) r) = 16%nat.
Proof.
  induction l as [|b l IH]; intros r Hl Hr; cbn [fold_left map]; [auto|].
  pose proof (Forall_inv Hl) as Hb. pose proof (Forall_inv_tail Hl) as Hl'.
  destruct (byte_step_bv r (bits8 b) Hr) as [A B]; [unfold bits8; rewrite bv_of_N_length; lia|].
  rewrite N_of_bits8 in A by exact Hb. rewrite <- A. apply IH; assumption.
Qed.

Lemma spec_crc_length l : bytes_ok l -> length (spec_crc (map bits8 l)) = 16%nat.
Proof. intros Hl. unfold spec_crc. exact (proj2 (spec_crc_fold l (repeat true 16) Hl eq_refl)). Qed.

Theorem crc16_is_spec : forall l, bytes_ok l -> crc16 l = spec_crc16 l /\ crc16 l < 65536.
Proof.
  intros l Hl. unfold crc16, spec_crc16, spec_crc.
  destruct (spec_crc_fold l (repeat true 16) Hl eq_refl) as [A B].
  change (N_of_bv (repeat true 16)) with 65535 in A. change 0xFFFF with 65535.
  rewrite A. split; [reflexivity|].
  pose proof (N_of_bv_bound (fold_left spec_byte_step (map bits8 l) (repeat true 16))) as Hb.
  rewrite B in Hb. exact Hb.
Qed.

Lemma crc16_lt l : bytes_ok l -> crc16 l < 65536.
Proof. intros H. exact (proj2 (crc16_is_spec l H)). Qed.

(* low byte / high byte of a 16-bit vector *)
Lemma N_of_bv_app : forall a b, N_of_bv (a ++ b) = N_of_bv a + 2 ^ N.of_nat (length a) * N_of_bv b.
Proof.
  induction a as [|x a IH]; intros b; cbn [app N_of_bv length].
  - change (2 ^ N.of_nat 0) with 1. lia.
  - rewrite IH, Nat2N.inj_succ, N.pow_succ_r by lia. set (p := 2 ^ N.of_nat (length a)). destruct x; lia.
Qed.

Theorem trailer_is_spec : forall l, bytes_ok l -> crc_trailer l = spec_trailer l.
Proof.
  intros l Hl. unfold crc_trailer, spec_trailer, crc_lo, crc_hi.
  destruct (crc16_is_spec l Hl) as [E Hlt]. rewrite E. unfold spec_crc16.
  pose proof (spec_crc_length l Hl) as Hlen.
  set (c := spec_crc (map bits8 l)) in *.
  set (lo := firstn 8 c). set (hi := skipn 8 c).
  assert (Hc : N_of_bv c = N_of_bv lo + 256 * N_of_bv hi).
  { rewrite <- (firstn_skipn 8 c) at 1. fold lo. fold hi. rewrite N_of_bv_app.
    replace (length lo) with 8%nat by (unfold lo; rewrite firstn_length; lia). reflexivity. }
  assert (H8 : length lo = 8%nat) by (unfold lo; rewrite firstn_length; lia).
  assert (H8' : length hi = 8%nat) by (unfold hi; rewrite skipn_length; lia).
  pose proof (N_of_bv_bound lo) as B1. rewrite H8 in B1. change (2 ^ N.of_nat 8) with 256 in B1.
  pose proof (N_of_bv_bound hi) as B2. rewrite H8' in B2. change (2 ^ N.of_nat 8) with 256 in B2.
  rewrite Hc.
  f_equal; [lia|f_equal; lia].
Qed.

Lemma crc_trailer_ok l : bytes_ok l -> bytes_ok (crc_trailer l).
Proof. intros H. unfold crc_trailer, crc_lo, crc_hi. repeat constructor; lia. Qed.

(* the trailer determines the CRC: two frames' trailers agree iff their CRCs agree *)
Lemma trailer_inj c1 c2 : c1 < 65536 -> c2 < 65536 ->
  [crc_lo c1; crc_hi c1] = [crc_lo c2; crc_hi c2] -> c1 = c2.
Proof. unfold crc_lo, crc_hi. intros H1 H2 H. inversion H. lia. Qed.
