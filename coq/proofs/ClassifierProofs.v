(* ClassifierProofs.v -- C18: LooksLikeModbusTCP (the server's stream classifier) agrees with the
   request encoders and with ParseTCPRequest.

   (1) on every prefix of every frame the constructors + Bytes() can produce it answers "too short"
       below 8 bytes and, from 8 bytes on, "no error, expected length = the frame's length
       = 6 + MBAP length field";
   (2) whatever it accepts with expected length n is, cut to n bytes, either parsed by
       ParseTCPRequest or refused with an *ErrorParseTCP whose Bytes() is the illegal-data-value
       exception ADU addressed to the request (its transaction id, unit id and function code);
   (3) a frame with an unsupported function code is classified with the illegal-function exception
       carrying the header's transaction id, unit id and function code.

   All statements quantify over every header (every length field, function code, protocol id,
   transaction id, unit id) -- proofs by case analysis on the classifier's tests, no enumeration. *)
From Coq Require Import ZifyBool ZifyN ZifyNat.
Require Import MB.GoSem MB.CrcModel MB.PacketModel MB.proofs.PacketSafety.
Require MB.Spec.
Open Scope N_scope.
Ltac Zify.zify_post_hook ::= Z.div_mod_to_equations.

(* ---------- the fields of an MBAP header + unit id + function code, read off a byte string ---------- *)
Definition hdr_tid (l : list N) : N := be16 (firstn 2 l).
Definition hdr_proto (l : list N) : N := be16 (firstn 2 (skipn 2 l)).
Definition hdr_len (l : list N) : N := be16 (firstn 2 (skipn 4 l)).
Definition hdr_unit (l : list N) : N := nth 6 l 0.
Definition hdr_fc (l : list N) : N := nth 7 l 0.

(* a 9-byte Modbus TCP exception ADU: protocol id 0, length field 3, function byte with the MSB set *)
Definition is_exception_adu_tcp (w : list N) : bool :=
  match w with
  | [t0; t1; p0; p1; l0; l1; u; f; c] =>
      (p0 =? 0) && (p1 =? 0) && (l0 =? 0) && (l1 =? 3) && (128 <=? f) && (f <? 256)
  | _ => false
  end.

(* ---------- what the constructors produce ---------- *)
Definition read_fc (fc : N) : bool := (fc =? 1) || (fc =? 2) || (fc =? 3) || (fc =? 4).

(* well-formedness of a request value: exactly what New...Request{TCP,RTU} establish (the limits
   are the library's: 124 registers for FC16/FC23, see D12a).  Unit ids, addresses and the FC6
   value bytes are uint8/uint16 in Go and unconstrained here: none of the C18 statements depends
   on them. *)
Definition req_wf (r : req) : bool :=
  match r with
  | RRead fc _ _ q => read_fc fc && (1 <=? q) && (q <=? max_read fc)
  | RWCoil _ _ _ => true
  | RWReg _ _ _ _ => true
  | RWCoils _ _ count data =>
      (1 <=? count) && (count <=? 1968) && (length data =? byte_count (N.to_nat count))%nat
  | RWRegs _ _ count data =>
      (1 <=? count) && (count <=? 124) && (N.of_nat (length data) =? 2 * count)
  | RSrvId _ => true
  | RRW _ _ rq _ wq data =>
      (1 <=? rq) && (rq <=? 124) && (1 <=? wq) && (wq <=? 124) && (N.of_nat (length data) =? 2 * wq)
  end.

Lemma update_length l : forall k v, length (update l k v) = length l.
Proof. induction l as [|x l IH]; intros [|k] v; cbn [update length]; auto. Qed.

Lemma set_bits_length coils : forall i acc, length (set_bits coils i acc) = length acc.
Proof.
  induction coils as [|c r IH]; intros i acc; cbn [set_bits]; [reflexivity|].
  rewrite IH. destruct c; [apply update_length|reflexivity].
Qed.

Lemma coils_to_bytes_length coils : length (coils_to_bytes coils) = byte_count (length coils).
Proof. unfold coils_to_bytes. rewrite set_bits_length, repeat_length. reflexivity. Qed.

Lemma byte_count_le n : (byte_count n <= n)%nat.
Proof. unfold byte_count. destruct (n mod 8 =? 0)%nat eqn:E; lia. Qed.

Lemma new_read_wf fc u s q r : read_fc fc = true -> new_read fc u s q = Ok r -> req_wf r = true.
Proof.
  unfold new_read. intros Hfc. destruct ((q =? 0) || (max_read fc <? q)) eqn:E; intros H; [discriminate H|].
  injection H as <-. cbn [req_wf]. rewrite Hfc. lia.
Qed.
Lemma new_wcoil_wf u a st r : new_wcoil u a st = Ok r -> req_wf r = true.
Proof. unfold new_wcoil. intros H. injection H as <-. reflexivity. Qed.
Lemma new_wreg_wf u a data r : new_wreg u a data = Ok r -> req_wf r = true.
Proof. unfold new_wreg. intros H. injection H as <-. reflexivity. Qed.
Lemma new_srvid_wf u r : new_srvid u = Ok r -> req_wf r = true.
Proof. unfold new_srvid. intros H. injection H as <-. reflexivity. Qed.
Lemma new_wcoils_wf u s coils r : new_wcoils u s coils = Ok r -> req_wf r = true.
Proof.
  unfold new_wcoils. cbv zeta.
  destruct ((length coils =? 0)%nat || (1968 <? length coils)%nat) eqn:E; intros H; [discriminate H|].
  injection H as <-. cbn [req_wf]. rewrite coils_to_bytes_length.
  replace (u16 (N.of_nat (length coils))) with (N.of_nat (length coils)) by (unfold u16; lia).
  rewrite Nat2N.id, Nat.eqb_refl. lia.
Qed.
Lemma new_wregs_wf u s data r : new_wregs u s data = Ok r -> req_wf r = true.
Proof.
  unfold new_wregs. cbv zeta.
  destruct (negb (length data mod 2 =? 0)%nat) eqn:E1; intros H; [discriminate H|].
  destruct ((length data =? 0)%nat || (248 <? length data)%nat) eqn:E2; [discriminate H|].
  injection H as <-. cbn [req_wf].
  change (fst (Nat.divmod (length data) 1 0 1)) with (length data / 2)%nat. unfold u16. lia.
Qed.
Lemma new_rw_wf u rs rq ws data r : new_rw u rs rq ws data = Ok r -> req_wf r = true.
Proof.
  unfold new_rw. cbv zeta.
  destruct ((rq =? 0) || (124 <? rq)) eqn:E0; intros H; [discriminate H|].
  destruct (negb (length data mod 2 =? 0)%nat) eqn:E1; [discriminate H|].
  destruct ((length data =? 0)%nat || (248 <? length data)%nat) eqn:E2; [discriminate H|].
  injection H as <-. cbn [req_wf].
  change (fst (Nat.divmod (length data) 1 0 1)) with (length data / 2)%nat. unfold u16. lia.
Qed.

(* every constructor result is well-formed (one statement over all seven constructor shapes) *)
Lemma constructors_wf : forall r,
  (forall fc u s q, read_fc fc = true -> new_read fc u s q = Ok r -> req_wf r = true) /\
  (forall u a st, new_wcoil u a st = Ok r -> req_wf r = true) /\
  (forall u a data, new_wreg u a data = Ok r -> req_wf r = true) /\
  (forall u s coils, new_wcoils u s coils = Ok r -> req_wf r = true) /\
  (forall u s data, new_wregs u s data = Ok r -> req_wf r = true) /\
  (forall u, new_srvid u = Ok r -> req_wf r = true) /\
  (forall u rs rq ws data, new_rw u rs rq ws data = Ok r -> req_wf r = true).
Proof.
  intros r. repeat apply conj; intros.
  - eapply new_read_wf; eassumption.
  - eapply new_wcoil_wf; eassumption.
  - eapply new_wreg_wf; eassumption.
  - eapply new_wcoils_wf; eassumption.
  - eapply new_wregs_wf; eassumption.
  - eapply new_srvid_wf; eassumption.
  - eapply new_rw_wf; eassumption.
Qed.

(* ---------- the classifier and the header parser on a frame of at least 8 bytes ---------- *)
Lemma be16_pair a b : be16 [a; b] = a * 256 + b. Proof. reflexivity. Qed.

Lemma looks_like_cons8 a b p2 p3 c e u fc tl allow :
  looks_like (exact (a :: b :: p2 :: p3 :: c :: e :: u :: fc :: tl)) allow =
  if negb ((p2 =? 0) && (p3 =? 0)) then Ok (0, Some ENotTCP) else
  if (c * 256 + e <? 3) && negb ((c * 256 + e =? 2) && (fc =? 17)) then Ok (0, Some ENotTCP) else
  if fc =? 0 then Ok (0, Some ENotTCP) else
  if allow then Ok (c * 256 + e + 6, None) else
  if is_supported fc then Ok (c * 256 + e + 6, None) else
  Ok (c * 256 + e + 6, Some (err_tcp (a * 256 + b) u fc 1)).
Proof. reflexivity. Qed.

Lemma parse_mbap_cons8 a b p2 p3 c e u fc tl :
  parse_mbap (exact (a :: b :: p2 :: p3 :: c :: e :: u :: fc :: tl)) =
  if negb (p2 =? 0) || negb (p3 =? 0) then Err (new_err_tcp 4) else
  if c * 256 + e =? 0 then Err (new_err_tcp 4) else
  if negb (N.of_nat (8 + length tl) =? 6 + (c * 256 + e)) then Err (new_err_tcp 4) else
  Ok (a * 256 + b).
Proof. reflexivity. Qed.

Lemma looks_like_short d allow : (slen d < 8)%nat -> looks_like d allow = Ok (0, Some ETooShortTCP).
Proof. intros H. unfold looks_like. replace (slen d <? 8)%nat with true by lia. reflexivity. Qed.

Lemma looks_like_trim d allow : looks_like d allow = looks_like (exact (vis d)) allow.
Proof. exact (proj2 (looks_like_safe allow d)). Qed.

Lemma list_cons8 (l : list N) : (8 <= length l)%nat ->
  exists a b p2 p3 c e u fc tl, l = a :: b :: p2 :: p3 :: c :: e :: u :: fc :: tl.
Proof.
  intros H. do 8 (destruct l as [|? l]; [cbn [length] in H; lia|]).
  do 9 eexists. reflexivity.
Qed.

Lemma firstn_cons8 {A} k (a b c d e f g h : A) tl :
  firstn (8 + k) (a :: b :: c :: d :: e :: f :: g :: h :: tl) = a :: b :: c :: d :: e :: f :: g :: h :: firstn k tl.
Proof. reflexivity. Qed.

Ltac split_ifs := repeat match goal with |- context [if ?c then _ else _] => destruct c eqn:? end.

(* ---------- (1) the classifier on the encoders' output ---------- *)
Lemma req_frame_shape tid r : exists tl,
  req_bytes_tcp tid r =
  (tid / 256) :: (tid mod 256) :: 0 :: 0 :: (req_len16 r / 256) :: (req_len16 r mod 256)
  :: req_unit r :: req_fc r :: tl.
Proof. destruct r; eexists; reflexivity. Qed.

Lemma req_frame_length tid r : length (req_bytes_tcp tid r) = (6 + length (req_body r))%nat.
Proof. unfold req_bytes_tcp. rewrite app_length. reflexivity. Qed.

Lemma is_supported_unfold fc :
  is_supported fc = (fc =? 1) || ((fc =? 2) || ((fc =? 3) || ((fc =? 4) || ((fc =? 5) || ((fc =? 6)
                    || ((fc =? 15) || ((fc =? 16) || ((fc =? 17) || ((fc =? 23) || false))))))))).
Proof. reflexivity. Qed.

Lemma req_wf_facts r : req_wf r = true ->
  N.of_nat (length (req_body r)) = req_len16 r /\ req_len16 r < 65536 /\
  (3 <= req_len16 r \/ (req_len16 r = 2 /\ req_fc r = 17)) /\ is_supported (req_fc r) = true.
Proof.
  destruct r as [fc u s q|u a st|u a d0 d1|u s c data|u s c data|u|u rs rq ws wq data];
  cbn [req_wf req_body req_len16 req_fc]; unfold put16; cbn [app length]; intros H;
  rewrite is_supported_unfold.
  - unfold read_fc in H. lia.
  - lia.
  - lia.
  - pose proof (byte_count_le (N.to_nat c)). unfold u16. lia.
  - unfold u16. lia.
  - lia.
  - unfold u16. lia.
Qed.

Lemma looks_like_prefix_short tid r k allow : (k < 8)%nat ->
  looks_like (exact (firstn k (req_bytes_tcp tid r))) allow = Ok (0, Some ETooShortTCP).
Proof.
  intros Hk. apply looks_like_short. unfold slen. cbn [vis exact]. rewrite firstn_length. lia.
Qed.

Lemma looks_like_prefix_ok tid r k allow : req_wf r = true ->
  (8 <= k <= length (req_bytes_tcp tid r))%nat ->
  looks_like (exact (firstn k (req_bytes_tcp tid r))) allow
  = Ok (N.of_nat (length (req_bytes_tcp tid r)), None).
Proof.
  intros Hwf Hk. destruct (req_wf_facts r Hwf) as (Hlen & Hlt & Hmin & Hsup).
  rewrite is_supported_unfold in Hsup.
  rewrite req_frame_length in *.
  destruct (req_frame_shape tid r) as [tl Hsh]. rewrite Hsh.
  replace k with (8 + (k - 8))%nat by lia. rewrite firstn_cons8, looks_like_cons8.
  rewrite is_supported_unfold.
  replace (req_len16 r / 256 * 256 + req_len16 r mod 256) with (req_len16 r) by lia.
  split_ifs; try (exfalso; lia); do 2 f_equal; lia.
Qed.

Lemma frame_length_is_header_length tid r : req_wf r = true ->
  N.of_nat (length (req_bytes_tcp tid r)) = 6 + hdr_len (req_bytes_tcp tid r).
Proof.
  intros Hwf. destruct (req_wf_facts r Hwf) as (Hlen & Hlt & Hmin & Hsup).
  rewrite req_frame_length.
  destruct (req_frame_shape tid r) as [tl Hsh]. rewrite Hsh.
  unfold hdr_len. cbn [skipn firstn]. rewrite be16_pair. lia.
Qed.

(* the whole frame, and the frame followed by the beginning of the next one (what a server's
   read buffer holds), are classified the same *)
Lemma looks_like_frame_then_more tid r more sp allow : req_wf r = true ->
  looks_like {| vis := req_bytes_tcp tid r ++ more; spare := sp |} allow
  = Ok (N.of_nat (length (req_bytes_tcp tid r)), None).
Proof.
  intros Hwf. rewrite looks_like_trim. cbn [vis].
  rewrite <- (looks_like_prefix_ok tid r (length (req_bytes_tcp tid r)) allow Hwf).
  - rewrite firstn_all.
    destruct (req_wf_facts r Hwf) as (Hlen & Hlt & Hmin & Hsup).
    destruct (req_frame_shape tid r) as [tl Hsh]. rewrite Hsh. cbn [app].
    rewrite !looks_like_cons8. reflexivity.
  - rewrite req_frame_length. destruct (req_frame_shape tid r) as [tl Hsh].
    pose proof (req_frame_length tid r) as Hl. rewrite Hsh in Hl. cbn [length] in Hl. lia.
Qed.

(* ---------- (3) unsupported function codes ---------- *)
Lemma looks_like_unsupported d :
  (8 <= slen d)%nat -> hdr_proto (vis d) = 0 -> 3 <= hdr_len (vis d) ->
  hdr_fc (vis d) <> 0 -> is_supported (hdr_fc (vis d)) = false ->
  looks_like d false
  = Ok (6 + hdr_len (vis d), Some (err_tcp (hdr_tid (vis d)) (hdr_unit (vis d)) (hdr_fc (vis d)) 1)).
Proof.
  intros H8 Hp Hl Hfc Hs. rewrite looks_like_trim.
  destruct (list_cons8 (vis d) H8) as (a & b & p2 & p3 & c & e & u & fc & tl & Hv).
  rewrite Hv in *. clear Hv.
  unfold hdr_proto, hdr_len, hdr_fc, hdr_tid, hdr_unit in *. cbn [skipn firstn nth] in *.
  rewrite !be16_pair in *.
  rewrite looks_like_cons8, Hs.
  split_ifs; try (exfalso; lia). do 2 f_equal. lia.
Qed.

(* the error's Bytes() is the specification's exception ADU for (tid, unit, fc, code) as long as
   fc < 128; for fc >= 128 the uint8 addition fc+128 wraps and clears the MSB *)
Lemma err_wire_is_spec_exception tid u fc code : fc < 128 ->
  err_wire_tcp (err_tcp tid u fc code) = Some (Spec.exception_adu_tcp tid u fc code).
Proof.
  intros H. cbn [err_wire_tcp err_tcp].
  unfold exc_bytes_tcp, Spec.exception_adu_tcp, Spec.adu_tcp, Spec.exception_pdu, Spec.w16, Spec.hi, Spec.lo,
         put16, mk_exc. cbn [x_tid x_unit x_fc x_code].
  replace (add8 fc 128) with (fc + 128) by (unfold add8, u8; lia). reflexivity.
Qed.

Lemma err_wire_is_exception_adu tid u fc code : fc < 128 ->
  exists w, err_wire_tcp (err_tcp tid u fc code) = Some w /\ is_exception_adu_tcp w = true.
Proof.
  intros H. eexists. split; [reflexivity|].
  unfold exc_bytes_tcp, put16, mk_exc. cbn [x_tid x_unit x_fc x_code app is_exception_adu_tcp].
  unfold add8, u8. lia.
Qed.

(* ---------- (2) accepted by the classifier => parsed, or refused with the addressed exception ---------- *)
(* the outcome of a request parser on [d] is "addressed" to the request in [d]: a packet with the
   frame's transaction id, unit id and function code, or the illegal-data-value error carrying them *)
Definition addressed (d : slice) (fc : N) (r : pres (N * req)) : Prop :=
  match r with
  | Ok (t, q) => parse_mbap d = Ok t /\ req_fc q = fc /\ nth_error (vis d) 6 = Some (req_unit q)
  | Err e => exists t u, parse_mbap d = Ok t /\ nth_error (vis d) 6 = Some u /\ e = err_tcp t u fc 3
  | Panic => False
  end.

Ltac addr_leaf :=
  cbn [bind addressed req_fc req_unit];
  first [ exfalso; lia
        | split; [eassumption | split; [reflexivity | eassumption]]
        | do 2 eexists; split; [eassumption | split; [eassumption | reflexivity]] ].

(* [Hm : parse_mbap d = Ok t], [H7 : nth_error (vis d) 7 = Some fc] *)
Ltac addr_body d Hm H7 :=
  let Hi7 := fresh "Hi7" in let H8 := fresh "H8" in
  rewrite Hm; cbn [bind];
  pose proof (mbap_ok_len _ _ Hm);
  assert (H8 : (7 < slen d)%nat) by (unfold slen; apply nth_error_Some; rewrite H7; discriminate);
  assert (Hi7 : @idx perr d 7 = Ok _) by (unfold idx; rewrite H7; reflexivity);
  rewrite ?Hi7; cbn [bind]; rewrite ?N.eqb_refl; cbn [negb];
  repeat go_step; addr_leaf.

Lemma read_req_tcp_addressed fc d t : parse_mbap d = Ok t -> nth_error (vis d) 7 = Some fc ->
  addressed d fc (parse_read_req_tcp fc d).
Proof. intros Hm H7. unfold parse_read_req_tcp. addr_body d Hm H7. Qed.
Lemma wcoil_req_tcp_addressed d t : parse_mbap d = Ok t -> nth_error (vis d) 7 = Some 5 ->
  addressed d 5 (parse_wcoil_req_tcp d).
Proof. intros Hm H7. unfold parse_wcoil_req_tcp. addr_body d Hm H7. Qed.
Lemma wreg_req_tcp_addressed d t : parse_mbap d = Ok t -> nth_error (vis d) 7 = Some 6 ->
  addressed d 6 (parse_wreg_req_tcp d).
Proof. intros Hm H7. unfold parse_wreg_req_tcp. addr_body d Hm H7. Qed.
Lemma wcoils_req_tcp_addressed d t : parse_mbap d = Ok t -> nth_error (vis d) 7 = Some 15 ->
  addressed d 15 (parse_wcoils_req_tcp d).
Proof. intros Hm H7. unfold parse_wcoils_req_tcp. addr_body d Hm H7. Qed.
Lemma wregs_req_tcp_addressed d t : parse_mbap d = Ok t -> nth_error (vis d) 7 = Some 16 ->
  addressed d 16 (parse_wregs_req_tcp d).
Proof. intros Hm H7. unfold parse_wregs_req_tcp. addr_body d Hm H7. Qed.
Lemma srvid_req_tcp_addressed d t : parse_mbap d = Ok t -> nth_error (vis d) 7 = Some 17 ->
  addressed d 17 (parse_srvid_req_tcp d).
Proof. intros Hm H7. unfold parse_srvid_req_tcp. addr_body d Hm H7. Qed.
Lemma rw_req_tcp_addressed d t : parse_mbap d = Ok t -> nth_error (vis d) 7 = Some 23 ->
  addressed d 23 (parse_rw_req_tcp d).
Proof. intros Hm H7. unfold parse_rw_req_tcp. addr_body d Hm H7. Qed.

Lemma tcp_request_addressed d t fc :
  parse_mbap d = Ok t -> nth_error (vis d) 7 = Some fc -> is_supported fc = true ->
  addressed d fc (parse_tcp_request d).
Proof.
  intros Hm H7 Hs. unfold parse_tcp_request.
  assert (H8 : (7 < slen d)%nat) by (unfold slen; apply nth_error_Some; rewrite H7; discriminate).
  assert (Hi7 : @idx perr d 7 = Ok fc) by (unfold idx; rewrite H7; reflexivity).
  replace (slen d <? 8)%nat with false by lia. rewrite Hi7. cbn [bind].
  rewrite is_supported_unfold in Hs.
  destruct ((fc =? 1) || (fc =? 2) || (fc =? 3) || (fc =? 4)) eqn:E1;
    [eapply read_req_tcp_addressed; eassumption|].
  destruct (fc =? 5) eqn:E5;
    [assert (fc = 5) by lia; subst fc; eapply wcoil_req_tcp_addressed; eassumption|].
  destruct (fc =? 6) eqn:E6;
    [assert (fc = 6) by lia; subst fc; eapply wreg_req_tcp_addressed; eassumption|].
  destruct (fc =? 15) eqn:E15;
    [assert (fc = 15) by lia; subst fc; eapply wcoils_req_tcp_addressed; eassumption|].
  destruct (fc =? 16) eqn:E16;
    [assert (fc = 16) by lia; subst fc; eapply wregs_req_tcp_addressed; eassumption|].
  destruct (fc =? 17) eqn:E17;
    [assert (fc = 17) by lia; subst fc; eapply srvid_req_tcp_addressed; eassumption|].
  destruct (fc =? 23) eqn:E23;
    [assert (fc = 23) by lia; subst fc; eapply rw_req_tcp_addressed; eassumption|].
  exfalso. lia.
Qed.

(* the facts the classifier's "accepted, expected length n" verdict gives about the first n bytes *)
Lemma accepted_frame d n :
  looks_like d false = Ok (n, None) -> n <= N.of_nat (slen d) ->
  let f := firstn (N.to_nat n) (vis d) in
  N.of_nat (length f) = n /\ 8 <= n /\ n = 6 + hdr_len f /\ hdr_proto f = 0 /\
  is_supported (hdr_fc f) = true /\
  parse_mbap (exact f) = Ok (hdr_tid f) /\
  nth_error f 6 = Some (hdr_unit f) /\ nth_error f 7 = Some (hdr_fc f).
Proof.
  intros H Hn. rewrite looks_like_trim in H.
  destruct (Nat.ltb_spec (slen d) 8) as [Hs|Hs].
  { rewrite looks_like_short in H by exact Hs. discriminate H. }
  unfold slen in Hs, Hn.
  destruct (list_cons8 (vis d) Hs) as (a & b & p2 & p3 & c & e & u & fc & tl & Hv).
  rewrite Hv in *. clear Hv. cbn [length] in Hn.
  rewrite looks_like_cons8 in H.
  destruct (negb ((p2 =? 0) && (p3 =? 0))) eqn:E1; [discriminate H|].
  destruct ((c * 256 + e <? 3) && negb ((c * 256 + e =? 2) && (fc =? 17))) eqn:E2; [discriminate H|].
  destruct (fc =? 0) eqn:E3; [discriminate H|].
  destruct (is_supported fc) eqn:E4; [|discriminate H].
  injection H as Hn'. subst n.
  assert (p2 = 0) by lia. assert (p3 = 0) by lia. subst p2 p3.
  replace (N.to_nat (c * 256 + e + 6)) with (8 + (N.to_nat (c * 256 + e + 6) - 8))%nat by lia.
  rewrite firstn_cons8. cbv zeta.
  remember (firstn (N.to_nat (c * 256 + e + 6) - 8) tl) as tl' eqn:Etl.
  assert (Hl : length tl' = (N.to_nat (c * 256 + e + 6) - 8)%nat)
    by (subst tl'; apply firstn_length_le; lia).
  unfold hdr_len, hdr_proto, hdr_fc, hdr_tid, hdr_unit. cbn [skipn firstn nth nth_error length].
  rewrite !be16_pair, parse_mbap_cons8.
  repeat apply conj; try reflexivity; try lia; try exact E4.
  split_ifs; try (exfalso; lia). reflexivity.
Qed.

Lemma accepted_parsed_or_refused d n :
  looks_like d false = Ok (n, None) -> n <= N.of_nat (slen d) ->
  let f := firstn (N.to_nat n) (vis d) in
  (exists r, parse_tcp_request (exact f) = Ok (hdr_tid f, r)
             /\ req_fc r = hdr_fc f /\ req_unit r = hdr_unit f)
  \/ (parse_tcp_request (exact f) = Err (err_tcp (hdr_tid f) (hdr_unit f) (hdr_fc f) 3)
      /\ err_wire_tcp (err_tcp (hdr_tid f) (hdr_unit f) (hdr_fc f) 3)
         = Some (Spec.exception_adu_tcp (hdr_tid f) (hdr_unit f) (hdr_fc f) 3)).
Proof.
  intros H Hn. destruct (accepted_frame d n H Hn) as (_ & _ & _ & _ & Hsup & Hm & H6 & H7).
  cbv zeta. remember (firstn (N.to_nat n) (vis d)) as f eqn:Ef. clear Ef H Hn.
  pose proof (tcp_request_addressed (exact f) _ _ Hm H7 Hsup) as Ha.
  destruct (parse_tcp_request (exact f)) as [[t q]|e|]; cbn [addressed] in Ha.
  - left. destruct Ha as (Ht & Hq & Hu). exists q. cbn [vis exact] in Hu.
    rewrite Hm in Ht. injection Ht as <-. rewrite H6 in Hu. injection Hu as Hu.
    repeat apply conj; [reflexivity | exact Hq | symmetry; exact Hu].
  - right. destruct Ha as (t & u & Ht & Hu & He). cbn [vis exact] in Hu.
    rewrite Hm in Ht. injection Ht as <-. rewrite H6 in Hu. injection Hu as <-.
    split; [rewrite He; reflexivity|].
    apply err_wire_is_spec_exception. rewrite is_supported_unfold in Hsup. lia.
  - contradiction.
Qed.

(* the same in the weaker form of the property text: Ok, or an error that encodes to a 9-byte exception ADU *)
Lemma accepted_parsed_or_exception d n :
  looks_like d false = Ok (n, None) -> n <= N.of_nat (slen d) ->
  let f := firstn (N.to_nat n) (vis d) in
  (exists tr, parse_tcp_request (exact f) = Ok tr)
  \/ (exists e w, parse_tcp_request (exact f) = Err e /\ err_wire_tcp e = Some w
                  /\ is_exception_adu_tcp w = true).
Proof.
  intros H Hn. cbv zeta.
  destruct (accepted_frame d n H Hn) as (_ & _ & _ & _ & Hsup & _).
  destruct (accepted_parsed_or_refused d n H Hn) as [(r & Hr & _)|(He & _)].
  - left. eexists. exact Hr.
  - right. cbv zeta in He.
    destruct (err_wire_is_exception_adu (hdr_tid (firstn (N.to_nat n) (vis d)))
               (hdr_unit (firstn (N.to_nat n) (vis d))) (hdr_fc (firstn (N.to_nat n) (vis d))) 3) as (w & Hw & Hx).
    { rewrite is_supported_unfold in Hsup. cbv zeta in Hsup. lia. }
    exists (err_tcp (hdr_tid (firstn (N.to_nat n) (vis d))) (hdr_unit (firstn (N.to_nat n) (vis d)))
                    (hdr_fc (firstn (N.to_nat n) (vis d))) 3), w.
    repeat apply conj; assumption.
Qed.

(* (3) in one statement: classification plus the wire form of the attached error *)
Lemma unsupported_classified d :
  (8 <= slen d)%nat -> hdr_proto (vis d) = 0 -> 3 <= hdr_len (vis d) ->
  1 <= hdr_fc (vis d) < 128 -> is_supported (hdr_fc (vis d)) = false ->
  let e := err_tcp (hdr_tid (vis d)) (hdr_unit (vis d)) (hdr_fc (vis d)) 1 in
  looks_like d false = Ok (6 + hdr_len (vis d), Some e) /\
  err_wire_tcp e = Some (Spec.exception_adu_tcp (hdr_tid (vis d)) (hdr_unit (vis d)) (hdr_fc (vis d)) 1).
Proof.
  intros H8 Hp Hl Hfc Hs. cbv zeta. split.
  - apply looks_like_unsupported; try assumption. lia.
  - apply err_wire_is_spec_exception. lia.
Qed.
