(* PacketSafety.v -- C10: every parsing entry point of PacketModel, on every slice (any visible
   bytes, any spare capacity, no length bound, bytes not even required to be < 256),
     * never panics, and
     * returns the same result as on the slice with the spare capacity cut off ([trim]).
   One tactic ([safe_body]: symbolic execution with [go_step], every index / re-slice guard
   discharged by [lia] from the length tests met on the way) proves all leaf parsers; dispatchers
   reuse the lemmas of the parsers they call. *)
From Coq Require Import ZifyBool ZifyN ZifyNat.
Require Import MB.GoSem MB.CrcModel MB.PacketModel.
Open Scope N_scope.
Ltac Zify.zify_post_hook ::= Z.div_mod_to_equations.

(* the C10 statement for one entry point *)
Definition safe {A} (p : slice -> pres A) : Prop :=
  forall d, p d <> Panic /\ p d = p (trim d).

Ltac fin := cbn [bind]; split; [discriminate | reflexivity].
Ltac safe_body := cbv zeta; rewrite ?slen_trim; repeat go_step; fin.

(* use the safety lemma [L] of a callee whose result is bound in the goal *)
Ltac call_safe L d :=
  let Hp := fresh "Hp" in let He := fresh "He" in
  destruct (L d) as [Hp He]; rewrite <- He; clear He; revert Hp.

(* ---------- exception recognisers ---------- *)
Lemma as_tcp_error_safe : safe as_tcp_error.
Proof. intros d. unfold as_tcp_error. safe_body. Qed.

Lemma as_rtu_error_safe : safe as_rtu_error.
Proof. intros d. unfold as_rtu_error. safe_body. Qed.

Lemma as_rtu_error_crc_safe : safe as_rtu_error_crc.
Proof.
  intros d. unfold as_rtu_error_crc. cbv zeta. rewrite ?slen_trim.
  repeat go_step; try fin; exact (as_rtu_error_safe d).
Qed.

(* ---------- header, classifier ---------- *)
Lemma mbap_safe : safe parse_mbap.
Proof. intros d. unfold parse_mbap. safe_body. Qed.

Lemma mbap_ok_len d t : parse_mbap d = Ok t -> (7 <= slen d)%nat.
Proof.
  unfold parse_mbap. repeat go_step; intros H; try discriminate H. lia.
Qed.

Lemma looks_like_safe allow : safe (fun d => looks_like d allow).
Proof. intros d. unfold looks_like. safe_body. Qed.

(* ---------- request parsers, TCP ---------- *)
(* after [with_mbap]: the header parsed, so the frame has at least 7 bytes *)
Ltac with_mbap d :=
  let Hp := fresh "Hp" in let Emb := fresh "Emb" in let tid := fresh "tid" in
  call_safe mbap_safe d;
  destruct (parse_mbap d) as [tid| |] eqn:Emb; intros Hp; cbn [bind];
  [ pose proof (mbap_ok_len _ _ Emb) | fin | congruence ].

Ltac req_tcp d := cbv zeta; rewrite ?slen_trim; with_mbap d; repeat go_step; fin.

Lemma read_req_tcp_safe fc : safe (parse_read_req_tcp fc).
Proof. intros d. unfold parse_read_req_tcp. req_tcp d. Qed.
Lemma wcoil_req_tcp_safe : safe parse_wcoil_req_tcp.
Proof. intros d. unfold parse_wcoil_req_tcp. req_tcp d. Qed.
Lemma wreg_req_tcp_safe : safe parse_wreg_req_tcp.
Proof. intros d. unfold parse_wreg_req_tcp. req_tcp d. Qed.
Lemma wcoils_req_tcp_safe : safe parse_wcoils_req_tcp.
Proof. intros d. unfold parse_wcoils_req_tcp. req_tcp d. Qed.
Lemma wregs_req_tcp_safe : safe parse_wregs_req_tcp.
Proof. intros d. unfold parse_wregs_req_tcp. req_tcp d. Qed.
Lemma srvid_req_tcp_safe : safe parse_srvid_req_tcp.
Proof. intros d. unfold parse_srvid_req_tcp. req_tcp d. Qed.
Lemma rw_req_tcp_safe : safe parse_rw_req_tcp.
Proof. intros d. unfold parse_rw_req_tcp. req_tcp d. Qed.

Lemma tcp_request_safe : safe parse_tcp_request.
Proof.
  intros d. unfold parse_tcp_request. rewrite ?slen_trim.
  repeat go_step;
  first [ exact (read_req_tcp_safe _ d) | exact (wcoil_req_tcp_safe d) | exact (wreg_req_tcp_safe d)
        | exact (wcoils_req_tcp_safe d) | exact (wregs_req_tcp_safe d) | exact (srvid_req_tcp_safe d)
        | exact (rw_req_tcp_safe d) | fin ].
Qed.

(* ---------- request parsers, RTU ---------- *)
Lemma read_req_rtu_safe fc : safe (parse_read_req_rtu fc).
Proof. intros d. unfold parse_read_req_rtu. safe_body. Qed.
Lemma wcoil_req_rtu_safe : safe parse_wcoil_req_rtu.
Proof. intros d. unfold parse_wcoil_req_rtu. safe_body. Qed.
Lemma wreg_req_rtu_safe : safe parse_wreg_req_rtu.
Proof. intros d. unfold parse_wreg_req_rtu. safe_body. Qed.
Lemma wcoils_req_rtu_safe : safe parse_wcoils_req_rtu.
Proof. intros d. unfold parse_wcoils_req_rtu. safe_body. Qed.
Lemma wregs_req_rtu_safe : safe parse_wregs_req_rtu.
Proof. intros d. unfold parse_wregs_req_rtu. safe_body. Qed.
Lemma srvid_req_rtu_safe : safe parse_srvid_req_rtu.
Proof. intros d. unfold parse_srvid_req_rtu. safe_body. Qed.
Lemma rw_req_rtu_safe : safe parse_rw_req_rtu.
Proof. intros d. unfold parse_rw_req_rtu. safe_body. Qed.

Lemma rtu_request_safe : safe parse_rtu_request.
Proof.
  intros d. unfold parse_rtu_request. rewrite ?slen_trim.
  repeat go_step;
  first [ exact (read_req_rtu_safe _ d) | exact (wcoil_req_rtu_safe d) | exact (wreg_req_rtu_safe d)
        | exact (wcoils_req_rtu_safe d) | exact (wregs_req_rtu_safe d) | exact (srvid_req_rtu_safe d)
        | exact (rw_req_rtu_safe d) | fin ].
Qed.

(* the CRC gate: data[n-2:] and data[:n-2] are inside the visible bytes once n >= 4 *)
Lemma crc_gate_safe {A} (k : slice -> pres A) : safe k -> safe (fun d => crc_gate d k).
Proof.
  intros Hk d. unfold crc_gate. cbv zeta. rewrite ?slen_trim.
  repeat go_step; try fin. exact (Hk d).
Qed.

Lemma rtu_request_crc_safe : safe parse_rtu_request_crc.
Proof. exact (crc_gate_safe _ rtu_request_safe). Qed.

(* ---------- response parsers ---------- *)
Lemma bytes_resp_tcp_safe fc : safe (parse_bytes_resp_tcp fc).
Proof. intros d. unfold parse_bytes_resp_tcp. destruct (is_coil_fc fc); safe_body. Qed.
Lemma bytes_resp_rtu_safe fc : safe (parse_bytes_resp_rtu fc).
Proof. intros d. unfold parse_bytes_resp_rtu. destruct (is_coil_fc fc); safe_body. Qed.

Lemma fixed_guard_tcp_safe : safe fixed_resp_guard_tcp.
Proof. intros d. unfold fixed_resp_guard_tcp. safe_body. Qed.
Lemma fixed_guard_tcp_len d t : fixed_resp_guard_tcp d = Ok t -> (12 <= slen d)%nat.
Proof. unfold fixed_resp_guard_tcp. repeat go_step; intros H; try discriminate H. lia. Qed.
Lemma fixed_guard_rtu_safe : safe fixed_resp_guard_rtu.
Proof. intros d. unfold fixed_resp_guard_rtu. safe_body. Qed.
Lemma fixed_guard_rtu_len d t : fixed_resp_guard_rtu d = Ok t -> slen d = 8%nat.
Proof. unfold fixed_resp_guard_rtu. repeat go_step; intros H; try discriminate H. lia. Qed.

(* the fixed-size responses: after the guard the frame has 12 (TCP) / exactly 8 (RTU) bytes *)
Ltac fixed_resp G Gsafe Glen d :=
  let Hp := fresh "Hp" in let Eg := fresh "Eg" in let g := fresh "g" in
  call_safe Gsafe d;
  destruct (G d) as [g| |] eqn:Eg; intros Hp; cbn [bind];
  [ pose proof (Glen _ _ Eg); repeat go_step; fin | fin | congruence ].
Ltac fixed_tcp d := fixed_resp fixed_resp_guard_tcp fixed_guard_tcp_safe fixed_guard_tcp_len d.
Ltac fixed_rtu d := fixed_resp fixed_resp_guard_rtu fixed_guard_rtu_safe fixed_guard_rtu_len d.

Lemma wcoil_resp_tcp_safe : safe parse_wcoil_resp_tcp.
Proof. intros d. unfold parse_wcoil_resp_tcp. fixed_tcp d. Qed.
Lemma wreg_resp_tcp_safe : safe parse_wreg_resp_tcp.
Proof. intros d. unfold parse_wreg_resp_tcp. fixed_tcp d. Qed.
Lemma wmulti_resp_tcp_safe fc : safe (parse_wmulti_resp_tcp fc).
Proof. intros d. unfold parse_wmulti_resp_tcp. fixed_tcp d. Qed.
Lemma wcoil_resp_rtu_safe : safe parse_wcoil_resp_rtu.
Proof. intros d. unfold parse_wcoil_resp_rtu. fixed_rtu d. Qed.
Lemma wreg_resp_rtu_safe : safe parse_wreg_resp_rtu.
Proof. intros d. unfold parse_wreg_resp_rtu. fixed_rtu d. Qed.
Lemma wmulti_resp_rtu_safe fc : safe (parse_wmulti_resp_rtu fc).
Proof. intros d. unfold parse_wmulti_resp_rtu. fixed_rtu d. Qed.

Lemma srvid_resp_tcp_safe : safe parse_srvid_resp_tcp.
Proof. intros d. unfold parse_srvid_resp_tcp. safe_body. Qed.
Lemma srvid_resp_rtu_safe : safe parse_srvid_resp_rtu.
Proof. intros d. unfold parse_srvid_resp_rtu. safe_body. Qed.

Lemma tcp_response_safe : safe parse_tcp_response.
Proof.
  intros d. unfold parse_tcp_response. rewrite ?slen_trim.
  destruct (slen d <? 8)%nat eqn:E8; [fin|].
  call_safe as_tcp_error_safe d.
  destruct (as_tcp_error d) as [[x|]| |]; intros Hp; cbn [bind]; [fin| |fin|congruence].
  repeat go_step;
  first [ exact (bytes_resp_tcp_safe _ d) | exact (wcoil_resp_tcp_safe d) | exact (wreg_resp_tcp_safe d)
        | exact (wmulti_resp_tcp_safe _ d) | exact (srvid_resp_tcp_safe d) | fin ].
Qed.

Lemma rtu_response_safe : safe parse_rtu_response.
Proof.
  intros d. unfold parse_rtu_response. rewrite ?slen_trim.
  destruct (slen d <? 4)%nat eqn:E4; [fin|].
  call_safe as_rtu_error_safe d.
  destruct (as_rtu_error d) as [[[[u f] c]|]| |]; intros Hp; cbn [bind]; [fin| |fin|congruence].
  repeat go_step;
  first [ exact (bytes_resp_rtu_safe _ d) | exact (wcoil_resp_rtu_safe d) | exact (wreg_resp_rtu_safe d)
        | exact (wmulti_resp_rtu_safe _ d) | exact (srvid_resp_rtu_safe d) | fin ].
Qed.

Lemma rtu_response_crc_safe : safe parse_rtu_response_crc.
Proof. exact (crc_gate_safe _ rtu_response_safe). Qed.

(* ---------- capacity independence in the two-spares form ---------- *)
Lemma safe_spare_indep {A} (p : slice -> pres A) : safe p ->
  forall v s1 s2, p {| vis := v; spare := s1 |} = p {| vis := v; spare := s2 |}.
Proof.
  intros H v s1 s2.
  rewrite (proj2 (H {| vis := v; spare := s1 |})), (proj2 (H {| vis := v; spare := s2 |})). reflexivity.
Qed.

(* ---------- all entry points at once ---------- *)
(* the parsers return values of different types; [pout] is their disjoint union so that one
   statement can range over all of them (the injections are constructors, hence lose nothing) *)
Inductive pout :=
| OReqT (x : N * req) | OReq (r : req) | ORespT (x : N * resp) | OResp (p : resp)
| OTid (t : N) | OLooks (x : N * option perr) | OExcT (x : option exc) | OExcR (x : option (N * N * N)).

Inductive entry_point :=
(* request parsers TCP: Parse{ReadCoils,ReadDiscreteInputs,ReadHoldingRegisters,ReadInputRegisters}RequestTCP
   are [EP_read_req_tcp 1..4] *)
| EP_read_req_tcp (fc : N) | EP_wcoil_req_tcp | EP_wreg_req_tcp | EP_wcoils_req_tcp | EP_wregs_req_tcp
| EP_srvid_req_tcp | EP_rw_req_tcp | EP_tcp_request
| EP_read_req_rtu (fc : N) | EP_wcoil_req_rtu | EP_wreg_req_rtu | EP_wcoils_req_rtu | EP_wregs_req_rtu
| EP_srvid_req_rtu | EP_rw_req_rtu | EP_rtu_request | EP_rtu_request_crc
(* response parsers: FC1,2,3,4,23 are [EP_bytes_resp_* fc]; FC15,16 are [EP_wmulti_resp_* fc] *)
| EP_bytes_resp_tcp (fc : N) | EP_wcoil_resp_tcp | EP_wreg_resp_tcp | EP_wmulti_resp_tcp (fc : N)
| EP_srvid_resp_tcp | EP_tcp_response
| EP_bytes_resp_rtu (fc : N) | EP_wcoil_resp_rtu | EP_wreg_resp_rtu | EP_wmulti_resp_rtu (fc : N)
| EP_srvid_resp_rtu | EP_rtu_response | EP_rtu_response_crc
| EP_mbap | EP_looks_like (allow_unsupported : bool)
| EP_as_tcp_error | EP_as_rtu_error | EP_as_rtu_error_crc.

Definition run_ep (e : entry_point) (d : slice) : pres pout :=
  match e with
  | EP_read_req_tcp fc => map_ok OReqT (parse_read_req_tcp fc d)
  | EP_wcoil_req_tcp => map_ok OReqT (parse_wcoil_req_tcp d)
  | EP_wreg_req_tcp => map_ok OReqT (parse_wreg_req_tcp d)
  | EP_wcoils_req_tcp => map_ok OReqT (parse_wcoils_req_tcp d)
  | EP_wregs_req_tcp => map_ok OReqT (parse_wregs_req_tcp d)
  | EP_srvid_req_tcp => map_ok OReqT (parse_srvid_req_tcp d)
  | EP_rw_req_tcp => map_ok OReqT (parse_rw_req_tcp d)
  | EP_tcp_request => map_ok OReqT (parse_tcp_request d)
  | EP_read_req_rtu fc => map_ok OReq (parse_read_req_rtu fc d)
  | EP_wcoil_req_rtu => map_ok OReq (parse_wcoil_req_rtu d)
  | EP_wreg_req_rtu => map_ok OReq (parse_wreg_req_rtu d)
  | EP_wcoils_req_rtu => map_ok OReq (parse_wcoils_req_rtu d)
  | EP_wregs_req_rtu => map_ok OReq (parse_wregs_req_rtu d)
  | EP_srvid_req_rtu => map_ok OReq (parse_srvid_req_rtu d)
  | EP_rw_req_rtu => map_ok OReq (parse_rw_req_rtu d)
  | EP_rtu_request => map_ok OReq (parse_rtu_request d)
  | EP_rtu_request_crc => map_ok OReq (parse_rtu_request_crc d)
  | EP_bytes_resp_tcp fc => map_ok ORespT (parse_bytes_resp_tcp fc d)
  | EP_wcoil_resp_tcp => map_ok ORespT (parse_wcoil_resp_tcp d)
  | EP_wreg_resp_tcp => map_ok ORespT (parse_wreg_resp_tcp d)
  | EP_wmulti_resp_tcp fc => map_ok ORespT (parse_wmulti_resp_tcp fc d)
  | EP_srvid_resp_tcp => map_ok ORespT (parse_srvid_resp_tcp d)
  | EP_tcp_response => map_ok ORespT (parse_tcp_response d)
  | EP_bytes_resp_rtu fc => map_ok OResp (parse_bytes_resp_rtu fc d)
  | EP_wcoil_resp_rtu => map_ok OResp (parse_wcoil_resp_rtu d)
  | EP_wreg_resp_rtu => map_ok OResp (parse_wreg_resp_rtu d)
  | EP_wmulti_resp_rtu fc => map_ok OResp (parse_wmulti_resp_rtu fc d)
  | EP_srvid_resp_rtu => map_ok OResp (parse_srvid_resp_rtu d)
  | EP_rtu_response => map_ok OResp (parse_rtu_response d)
  | EP_rtu_response_crc => map_ok OResp (parse_rtu_response_crc d)
  | EP_mbap => map_ok OTid (parse_mbap d)
  | EP_looks_like allow => map_ok OLooks (looks_like d allow)
  | EP_as_tcp_error => map_ok OExcT (as_tcp_error d)
  | EP_as_rtu_error => map_ok OExcR (as_rtu_error d)
  | EP_as_rtu_error_crc => map_ok OExcR (as_rtu_error_crc d)
  end.

Lemma safe_map_ok {A B} (f : A -> B) (p : slice -> pres A) : safe p -> safe (fun d => map_ok f (p d)).
Proof.
  intros H d. destruct (H d) as [Hp He]. rewrite <- He.
  destruct (p d); cbn [map_ok]; split; try discriminate; try reflexivity. congruence.
Qed.

Theorem all_entry_points_safe : forall e, safe (run_ep e).
Proof.
  intros e; destruct e; cbn [run_ep]; apply safe_map_ok;
  first [ exact (read_req_tcp_safe _) | exact wcoil_req_tcp_safe | exact wreg_req_tcp_safe
        | exact wcoils_req_tcp_safe | exact wregs_req_tcp_safe | exact srvid_req_tcp_safe
        | exact rw_req_tcp_safe | exact tcp_request_safe
        | exact (read_req_rtu_safe _) | exact wcoil_req_rtu_safe | exact wreg_req_rtu_safe
        | exact wcoils_req_rtu_safe | exact wregs_req_rtu_safe | exact srvid_req_rtu_safe
        | exact rw_req_rtu_safe | exact rtu_request_safe | exact rtu_request_crc_safe
        | exact (bytes_resp_tcp_safe _) | exact wcoil_resp_tcp_safe | exact wreg_resp_tcp_safe
        | exact (wmulti_resp_tcp_safe _) | exact srvid_resp_tcp_safe | exact tcp_response_safe
        | exact (bytes_resp_rtu_safe _) | exact wcoil_resp_rtu_safe | exact wreg_resp_rtu_safe
        | exact (wmulti_resp_rtu_safe _) | exact srvid_resp_rtu_safe | exact rtu_response_safe
        | exact rtu_response_crc_safe
        | exact mbap_safe | exact (looks_like_safe _) | exact as_tcp_error_safe
        | exact as_rtu_error_safe | exact as_rtu_error_crc_safe ].
Qed.

Lemma all_entry_points_spare_indep : forall e v s1 s2,
  run_ep e {| vis := v; spare := s1 |} = run_ep e {| vis := v; spare := s2 |}.
Proof. intros e. exact (safe_spare_indep _ (all_entry_points_safe e)). Qed.

(* [run_ep] loses nothing: a result of the union type determines the parser's own result *)
Lemma map_ok_inj {A B} (f : A -> B) (Hf : forall x y, f x = f y -> x = y) (a b : pres A) :
  map_ok f a = map_ok f b -> a = b.
Proof.
  destruct a, b; cbn [map_ok]; intros H; try discriminate H; try reflexivity.
  - f_equal. apply Hf. congruence.
  - congruence.
Qed.

(* ---------- the families, as stated in Properties/C10.v ---------- *)
Lemma request_parsers_tcp_safe : forall fc,
  safe (parse_read_req_tcp fc) /\ safe parse_wcoil_req_tcp /\ safe parse_wreg_req_tcp /\
  safe parse_wcoils_req_tcp /\ safe parse_wregs_req_tcp /\ safe parse_srvid_req_tcp /\
  safe parse_rw_req_tcp.
Proof.
  intros fc.
  exact (conj (read_req_tcp_safe fc) (conj wcoil_req_tcp_safe (conj wreg_req_tcp_safe (conj wcoils_req_tcp_safe (conj wregs_req_tcp_safe (conj srvid_req_tcp_safe rw_req_tcp_safe)))))).
Qed.

Lemma request_parsers_rtu_safe : forall fc,
  safe (parse_read_req_rtu fc) /\ safe parse_wcoil_req_rtu /\ safe parse_wreg_req_rtu /\
  safe parse_wcoils_req_rtu /\ safe parse_wregs_req_rtu /\ safe parse_srvid_req_rtu /\
  safe parse_rw_req_rtu.
Proof.
  intros fc.
  exact (conj (read_req_rtu_safe fc) (conj wcoil_req_rtu_safe (conj wreg_req_rtu_safe (conj wcoils_req_rtu_safe (conj wregs_req_rtu_safe (conj srvid_req_rtu_safe rw_req_rtu_safe)))))).
Qed.

Lemma request_dispatchers_safe :
  safe parse_tcp_request /\ safe parse_rtu_request /\ safe parse_rtu_request_crc.
Proof. exact (conj tcp_request_safe (conj rtu_request_safe rtu_request_crc_safe)). Qed.

Lemma response_parsers_tcp_safe : forall fc,
  safe (parse_bytes_resp_tcp fc) /\ safe parse_wcoil_resp_tcp /\ safe parse_wreg_resp_tcp /\
  safe (parse_wmulti_resp_tcp fc) /\ safe parse_srvid_resp_tcp.
Proof.
  intros fc.
  exact (conj (bytes_resp_tcp_safe fc) (conj wcoil_resp_tcp_safe (conj wreg_resp_tcp_safe (conj (wmulti_resp_tcp_safe fc) srvid_resp_tcp_safe)))).
Qed.

Lemma response_parsers_rtu_safe : forall fc,
  safe (parse_bytes_resp_rtu fc) /\ safe parse_wcoil_resp_rtu /\ safe parse_wreg_resp_rtu /\
  safe (parse_wmulti_resp_rtu fc) /\ safe parse_srvid_resp_rtu.
Proof.
  intros fc.
  exact (conj (bytes_resp_rtu_safe fc) (conj wcoil_resp_rtu_safe (conj wreg_resp_rtu_safe (conj (wmulti_resp_rtu_safe fc) srvid_resp_rtu_safe)))).
Qed.

Lemma response_dispatchers_safe :
  safe parse_tcp_response /\ safe parse_rtu_response /\ safe parse_rtu_response_crc.
Proof. exact (conj tcp_response_safe (conj rtu_response_safe rtu_response_crc_safe)). Qed.

Lemma header_and_classifier_safe :
  safe parse_mbap /\ (forall allow, safe (fun d => looks_like d allow)).
Proof. exact (conj mbap_safe looks_like_safe). Qed.

Lemma exception_recognisers_safe :
  safe as_tcp_error /\ safe as_rtu_error /\ safe as_rtu_error_crc.
Proof. exact (conj as_tcp_error_safe (conj as_rtu_error_safe as_rtu_error_crc_safe)). Qed.

(* ---------- the exported Go functions and the model entry point each one is an instance of ---------- *)
From Coq Require Import String.
Open Scope string_scope.
Definition go_entry_points : list (string * entry_point) :=
  [ ("ParseReadCoilsRequestTCP", EP_read_req_tcp 1); ("ParseReadDiscreteInputsRequestTCP", EP_read_req_tcp 2);
    ("ParseReadHoldingRegistersRequestTCP", EP_read_req_tcp 3); ("ParseReadInputRegistersRequestTCP", EP_read_req_tcp 4);
    ("ParseWriteSingleCoilRequestTCP", EP_wcoil_req_tcp); ("ParseWriteSingleRegisterRequestTCP", EP_wreg_req_tcp);
    ("ParseWriteMultipleCoilsRequestTCP", EP_wcoils_req_tcp); ("ParseWriteMultipleRegistersRequestTCP", EP_wregs_req_tcp);
    ("ParseReadServerIDRequestTCP", EP_srvid_req_tcp); ("ParseReadWriteMultipleRegistersRequestTCP", EP_rw_req_tcp);
    ("ParseTCPRequest", EP_tcp_request);
    ("ParseReadCoilsRequestRTU", EP_read_req_rtu 1); ("ParseReadDiscreteInputsRequestRTU", EP_read_req_rtu 2);
    ("ParseReadHoldingRegistersRequestRTU", EP_read_req_rtu 3); ("ParseReadInputRegistersRequestRTU", EP_read_req_rtu 4);
    ("ParseWriteSingleCoilRequestRTU", EP_wcoil_req_rtu); ("ParseWriteSingleRegisterRequestRTU", EP_wreg_req_rtu);
    ("ParseWriteMultipleCoilsRequestRTU", EP_wcoils_req_rtu); ("ParseWriteMultipleRegistersRequestRTU", EP_wregs_req_rtu);
    ("ParseReadServerIDRequestRTU", EP_srvid_req_rtu); ("ParseReadWriteMultipleRegistersRequestRTU", EP_rw_req_rtu);
    ("ParseRTURequest", EP_rtu_request); ("ParseRTURequestWithCRC", EP_rtu_request_crc);
    ("ParseReadCoilsResponseTCP", EP_bytes_resp_tcp 1); ("ParseReadDiscreteInputsResponseTCP", EP_bytes_resp_tcp 2);
    ("ParseReadHoldingRegistersResponseTCP", EP_bytes_resp_tcp 3); ("ParseReadInputRegistersResponseTCP", EP_bytes_resp_tcp 4);
    ("ParseWriteSingleCoilResponseTCP", EP_wcoil_resp_tcp); ("ParseWriteSingleRegisterResponseTCP", EP_wreg_resp_tcp);
    ("ParseWriteMultipleCoilsResponseTCP", EP_wmulti_resp_tcp 15); ("ParseWriteMultipleRegistersResponseTCP", EP_wmulti_resp_tcp 16);
    ("ParseReadServerIDResponseTCP", EP_srvid_resp_tcp); ("ParseReadWriteMultipleRegistersResponseTCP", EP_bytes_resp_tcp 23);
    ("ParseTCPResponse", EP_tcp_response);
    ("ParseReadCoilsResponseRTU", EP_bytes_resp_rtu 1); ("ParseReadDiscreteInputsResponseRTU", EP_bytes_resp_rtu 2);
    ("ParseReadHoldingRegistersResponseRTU", EP_bytes_resp_rtu 3); ("ParseReadInputRegistersResponseRTU", EP_bytes_resp_rtu 4);
    ("ParseWriteSingleCoilResponseRTU", EP_wcoil_resp_rtu); ("ParseWriteSingleRegisterResponseRTU", EP_wreg_resp_rtu);
    ("ParseWriteMultipleCoilsResponseRTU", EP_wmulti_resp_rtu 15); ("ParseWriteMultipleRegistersResponseRTU", EP_wmulti_resp_rtu 16);
    ("ParseReadServerIDResponseRTU", EP_srvid_resp_rtu); ("ParseReadWriteMultipleRegistersResponseRTU", EP_bytes_resp_rtu 23);
    ("ParseRTUResponse", EP_rtu_response); ("ParseRTUResponseWithCRC", EP_rtu_response_crc);
    ("ParseMBAPHeader", EP_mbap);
    ("LooksLikeModbusTCP(_, false)", EP_looks_like false); ("LooksLikeModbusTCP(_, true)", EP_looks_like true);
    ("AsTCPErrorPacket", EP_as_tcp_error); ("AsRTUErrorPacket", EP_as_rtu_error);
    ("AsRTUErrorPacketWithCRC", EP_as_rtu_error_crc) ].
Close Scope string_scope.

Lemma go_entry_points_safe : Forall (fun ne => safe (run_ep (snd ne))) go_entry_points.
Proof. apply Forall_forall. intros ne _. apply all_entry_points_safe. Qed.
