(* RespProofs.v -- proofs for C02: responses decode to exactly what was sent; exceptions become
   typed errors; a frame whose length disagrees with its byte-count field is rejected.

   Contents (all statements are about every value / every slice, any spare capacity):
     1. [resp_wf]: well-formed response values; [sresp_of]/[spec_pdu]: their specification view;
        the encoders produce the specified ADUs (TCP and RTU);
     2. symbolic execution of the ten per-function parsers on frames given as explicit lists;
     3. the exception recognisers and the three dispatchers on ANY slice, given its function byte;
        the CRC gate;
     4. (a) encode -> parse = identity, per-function parsers and dispatchers;
     5. (b) exception frames -> typed error; high bit set -> never a response;
     6. inversion: what a successful parse says about the frame (no assumption on the slice);
     7. (a) converse: parse -> encode reproduces a well-formed frame byte for byte; exactly what
        holds for the RTU parsers that do not look at the trailer;
     8. (c) frame length = header + byte count; disagreement -> error; fixed-layout lengths;
     9. FC17: every frame in the specification's layout is rejected (D14);
    10. encoder outputs satisfy the frame well-formedness used in 7; FC17 library layout.

   Proof style: [fstep] computes a parser on a slice whose visible bytes are an explicit list
   (index tests by [lia]); [istep]/[istep2] do the same under a hypothesis [parse d = Ok _] after
   the slice has been split into its first bytes; [go_step] (GoSem) is used on abstract slices. *)
From Coq Require Import ZifyBool ZifyN ZifyNat.
Require Import MB.GoSem MB.CrcModel MB.CrcSpec MB.Spec MB.PacketModel MB.proofs.CrcProofs.
Open Scope N_scope.
Ltac Zify.zify_post_hook ::= Z.div_mod_to_equations.

(* ====================================================================================== *)
(* 1. well-formed response values and their specification view                             *)
(* ====================================================================================== *)
Definition is_bytes_fc (fc : N) : bool := (fc =? 1) || (fc =? 2) || (fc =? 3) || (fc =? 4) || (fc =? 23).
Definition is_multi_fc (fc : N) : bool := (fc =? 15) || (fc =? 16).

Definition resp_wf (p : resp) : bool :=
  match p with
  | PBytes fc u bl data =>
      is_bytes_fc fc && (u <? 256) && bytes_okb data && (bl =? N.of_nat (length data))
      && (length data <=? 255)%nat
      && (if is_coil_fc fc then (1 <=? length data)%nat
          else (2 <=? length data)%nat && Spec.even (length data))
  | PWCoil u a _ => (u <? 256) && (a <? 65536)
  | PWReg u a d0 d1 => (u <? 256) && (a <? 65536) && (d0 <? 256) && (d1 <? 256)
  | PWMulti fc u s c => is_multi_fc fc && (u <? 256) && (s <? 65536) && (c <? 65536)
  | PSrvId u st id add =>
      (u <? 256) && (st <? 256) && bytes_okb id && bytes_okb add
      && (1 <=? length id)%nat && (length id <=? 255)%nat
      && (N.of_nat (length id) + N.of_nat (length add) <? 65532)
  end.

Definition sresp_of (p : resp) : sresp :=
  match p with
  | PBytes fc u _ data => SPBytes fc u data
  | PWCoil u a st => SPWCoil u a st
  | PWReg u a d0 d1 => SPWReg u a d0 d1
  | PWMulti fc u s c => SPWMulti fc u s c
  | PSrvId u st id add => SPSrvId u id st add
  end.
Definition spec_pdu (p : resp) : list N :=
  match p with
  | PSrvId _ st id add => rpdu_library_fc17 id st add
  | _ => rpdu (sresp_of p)
  end.

Lemma bytes_okb_true l : bytes_okb l = true -> bytes_ok l. Proof. apply bytes_okb_spec. Qed.
Ltac split_wf H :=
  repeat (let H' := fresh "W" in apply andb_prop in H; destruct H as [H H']);
  repeat match goal with
         | H1 : bytes_okb _ = true |- _ => apply bytes_okb_true in H1
         | H1 : (?x =? N.of_nat _) = true |- _ => apply N.eqb_eq in H1; subst x
         end.

Lemma u8_small x : x < 256 -> u8 x = x. Proof. unfold u8. intros. lia. Qed.
Lemma u16_small x : x < 65536 -> u16 x = x. Proof. unfold u16. intros. lia. Qed.
Lemma firstn_app_len {A} (a b : list A) : firstn (length a) (a ++ b) = a.
Proof. rewrite firstn_app, Nat.sub_diag, firstn_O, app_nil_r. apply firstn_all. Qed.
Lemma nth_error_app_len {A} (a b : list A) x : nth_error (a ++ x :: b) (length a) = Some x.
Proof. rewrite nth_error_app2 by lia. rewrite Nat.sub_diag. reflexivity. Qed.
Lemma skipn_app_len {A} (a b : list A) : skipn (length a) (a ++ b) = b.
Proof. rewrite skipn_app, Nat.sub_diag, skipn_all. reflexivity. Qed.

(* the body (unit id + PDU) the encoder writes is the unit id followed by the specified PDU *)
Lemma resp_body_spec p : resp_wf p = true -> resp_body p = resp_unit p :: spec_pdu p.
Proof.
  destruct p as [fc u bl data|u a st|u a d0 d1|fc u s c|u st id add]; intros H;
    cbn [resp_wf] in H; cbn [resp_body resp_unit spec_pdu sresp_of rpdu rpdu_library_fc17].
  - split_wf H.
    destruct (is_coil_fc fc).
    + rewrite u8_small by lia. reflexivity.
    + rewrite Nat2N.id, firstn_app_len. reflexivity.
  - destruct st; reflexivity.
  - reflexivity.
  - reflexivity.
  - split_wf H. rewrite u8_small by lia. reflexivity.
Qed.

Lemma spec_pdu_length p : resp_wf p = true -> N.of_nat (length (spec_pdu p)) < 65535.
Proof.
  destruct p as [fc u bl data|u a st|u a d0 d1|fc u s c|u st id add]; intros H;
    cbn [resp_wf] in H; cbn [spec_pdu sresp_of rpdu rpdu_library_fc17].
  - split_wf H. cbn [app length]. lia.
  - destruct st; cbn; lia.
  - cbn; lia.
  - cbn; lia.
  - split_wf H. unfold rpdu_library_fc17. cbn [app length]. rewrite app_length. cbn [length]. lia.
Qed.

Lemma w16_put16 x : w16 x = put16 x. Proof. reflexivity. Qed.

Lemma resp_bytes_tcp_spec p tid : resp_wf p = true ->
  resp_bytes_tcp tid p = adu_tcp tid (resp_unit p) (spec_pdu p).
Proof.
  intros H. unfold resp_bytes_tcp, resp_len16, adu_tcp, mbap_bytes. rewrite resp_body_spec by exact H.
  pose proof (spec_pdu_length p H) as L.
  cbn [length]. rewrite u16_small by lia.
  replace (N.of_nat (S (length (spec_pdu p)))) with (1 + N.of_nat (length (spec_pdu p))) by lia.
  reflexivity.
Qed.

Lemma resp_body_ok p : resp_wf p = true -> bytes_ok (resp_body p).
Proof.
  intros H. rewrite resp_body_spec by exact H.
  destruct p as [fc u bl data|u a st|u a d0 d1|fc u s c|u st id add];
    cbn [resp_wf] in H; cbn [resp_unit spec_pdu sresp_of rpdu rpdu_library_fc17]; split_wf H.
  - unfold is_bytes_fc in H.
    apply bytes_ok_cons. split; [lia|]. apply bytes_ok_app. split; [|assumption].
    repeat constructor; lia.
  - apply bytes_ok_cons. split; [lia|]. unfold w16, hi, lo. destruct st; repeat constructor; lia.
  - unfold w16, hi, lo. repeat constructor; lia.
  - unfold is_multi_fc in H. unfold w16, hi, lo. repeat constructor; lia.
  - unfold rpdu_library_fc17.
    apply bytes_ok_cons. split; [lia|]. apply bytes_ok_app. split; [repeat constructor; lia|].
    apply bytes_ok_app. split; [assumption|]. apply bytes_ok_app. split; [repeat constructor; lia|assumption].
Qed.

Lemma resp_bytes_rtu_spec p : resp_wf p = true ->
  resp_bytes_rtu p = adu_rtu (resp_unit p) (spec_pdu p).
Proof.
  intros H. unfold resp_bytes_rtu, adu_rtu, with_crc.
  rewrite trailer_is_spec by (apply resp_body_ok; exact H).
  rewrite resp_body_spec by exact H. reflexivity.
Qed.

(* ====================================================================================== *)
(* 2. symbolic execution of the parsers on frames given as explicit lists                  *)
(* ====================================================================================== *)
Ltac lens := cbn [slen vis length be16]; repeat (rewrite app_length; cbn [length]); lia.
Ltac fstep :=
  match goal with
  | |- context [@idx ?E ?d ?i] =>
      let r := eval cbn [idx vis nth_error] in (@idx E d i) in
      match r with Ok _ => change (@idx E d i) with r; cbn [bind] end
  | |- context [@sub ?E ?d ?i ?j] =>
      rewrite (@sub_in E d i j) by lens; cbn [vis firstn skipn Nat.sub Nat.add bind]
  | |- context [if ?c then _ else _] =>
      first [ replace c with true by lens | replace c with false by lens ]; cbn [negb]
  end.

Definition min_data (fc : N) : nat := if is_coil_fc fc then 1%nat else 2%nat.

Lemma bytes_tcp_frame fc t0 t1 x2 x3 x4 x5 u f data s :
  (min_data fc <= length data)%nat -> (length data <= 255)%nat ->
  parse_bytes_resp_tcp fc {| vis := t0::t1::x2::x3::x4::x5::u::f::N.of_nat (length data)::data; spare := s |}
  = Ok (be16 [t0;t1], PBytes fc u (N.of_nat (length data)) data).
Proof.
  unfold min_data. intros Hmin Hmax. unfold parse_bytes_resp_tcp.
  destruct (is_coil_fc fc); repeat fstep; rewrite Nat2N.id, Nat.sub_0_r, firstn_all; reflexivity.
Qed.

Lemma bytes_rtu_frame fc u f data c0 c1 s :
  (min_data fc <= length data)%nat -> (length data <= 255)%nat ->
  parse_bytes_resp_rtu fc {| vis := u::f::N.of_nat (length data)::data ++ [c0;c1]; spare := s |}
  = Ok (PBytes fc u (N.of_nat (length data)) data).
Proof.
  unfold min_data. intros Hmin Hmax. unfold parse_bytes_resp_rtu.
  destruct (is_coil_fc fc); repeat fstep; rewrite Nat2N.id, Nat.sub_0_r, firstn_app_len; reflexivity.
Qed.

Lemma wcoil_tcp_frame t0 t1 x2 x3 l0 l1 u f a0 a1 v0 v1 s : l0 * 256 + l1 = 6 ->
  parse_wcoil_resp_tcp {| vis := [t0;t1;x2;x3;l0;l1;u;f;a0;a1;v0;v1]; spare := s |}
  = Ok (be16 [t0;t1], PWCoil u (be16 [a0;a1]) (be16 [v0;v1] =? 0xFF00)).
Proof. intros Hl. unfold parse_wcoil_resp_tcp, fixed_resp_guard_tcp. repeat fstep. reflexivity. Qed.
Lemma wreg_tcp_frame t0 t1 x2 x3 l0 l1 u f a0 a1 v0 v1 s : l0 * 256 + l1 = 6 ->
  parse_wreg_resp_tcp {| vis := [t0;t1;x2;x3;l0;l1;u;f;a0;a1;v0;v1]; spare := s |}
  = Ok (be16 [t0;t1], PWReg u (be16 [a0;a1]) v0 v1).
Proof. intros Hl. unfold parse_wreg_resp_tcp, fixed_resp_guard_tcp. repeat fstep. reflexivity. Qed.
Lemma wmulti_tcp_frame fc t0 t1 x2 x3 l0 l1 u f a0 a1 v0 v1 s : l0 * 256 + l1 = 6 ->
  parse_wmulti_resp_tcp fc {| vis := [t0;t1;x2;x3;l0;l1;u;f;a0;a1;v0;v1]; spare := s |}
  = Ok (be16 [t0;t1], PWMulti fc u (be16 [a0;a1]) (be16 [v0;v1])).
Proof. intros Hl. unfold parse_wmulti_resp_tcp, fixed_resp_guard_tcp. repeat fstep. reflexivity. Qed.

Lemma wcoil_rtu_frame u f a0 a1 v0 v1 c0 c1 s :
  parse_wcoil_resp_rtu {| vis := [u;f;a0;a1;v0;v1;c0;c1]; spare := s |}
  = Ok (PWCoil u (be16 [a0;a1]) (be16 [v0;v1] =? 0xFF00)).
Proof. unfold parse_wcoil_resp_rtu, fixed_resp_guard_rtu. repeat fstep. reflexivity. Qed.
Lemma wreg_rtu_frame u f a0 a1 v0 v1 c0 c1 s :
  parse_wreg_resp_rtu {| vis := [u;f;a0;a1;v0;v1;c0;c1]; spare := s |} = Ok (PWReg u (be16 [a0;a1]) v0 v1).
Proof. unfold parse_wreg_resp_rtu, fixed_resp_guard_rtu. repeat fstep. reflexivity. Qed.
Lemma wmulti_rtu_frame fc u f a0 a1 v0 v1 c0 c1 s :
  parse_wmulti_resp_rtu fc {| vis := [u;f;a0;a1;v0;v1;c0;c1]; spare := s |}
  = Ok (PWMulti fc u (be16 [a0;a1]) (be16 [v0;v1])).
Proof. unfold parse_wmulti_resp_rtu, fixed_resp_guard_rtu. repeat fstep. reflexivity. Qed.

Lemma skipn_cons {A} n (x : A) l : skipn (S n) (x :: l) = skipn n l. Proof. reflexivity. Qed.
Lemma idx_eq {E} d i x : nth_error (vis d) i = Some x -> @idx E d i = Ok x.
Proof. unfold idx. intros ->. reflexivity. Qed.

Lemma srvid_tcp_frame t0 t1 x2 x3 x4 x5 u f id st add s :
  (1 <= length id <= 255)%nat ->
  parse_srvid_resp_tcp {| vis := t0::t1::x2::x3::x4::x5::u::f::N.of_nat (length id)::id ++ st :: add; spare := s |}
  = Ok (be16 [t0;t1], PSrvId u st id add).
Proof.
  intros Hid. unfold parse_srvid_resp_tcp.
  do 2 fstep. cbv zeta. rewrite !Nat2N.id. repeat fstep.
  replace (length id + 1 + 1)%nat with (S (S (length id))) by lia.
  replace (length id + 1)%nat with (S (length id)) by lia.
  rewrite Nat.sub_0_r, firstn_app_len.
  rewrite (idx_eq _ _ st) by (cbn [vis nth_error]; apply nth_error_app_len).
  cbn [bind].
  destruct add as [|a add].
  - fstep. reflexivity.
  - fstep. rewrite from_in by lens. cbn [vis bind]. rewrite !skipn_cons.
    replace (id ++ st :: a :: add) with ((id ++ [st]) ++ a :: add) by (rewrite <- app_assoc; reflexivity).
    replace (S (length id)) with (length (id ++ [st])) by (rewrite app_length; cbn [length]; lia).
    rewrite skipn_app_len. reflexivity.
Qed.

Lemma srvid_rtu_frame u f id st add c0 c1 s :
  (1 <= length id <= 255)%nat ->
  parse_srvid_resp_rtu {| vis := u::f::N.of_nat (length id)::id ++ st :: add ++ [c0;c1]; spare := s |}
  = Ok (PSrvId u st id add).
Proof.
  intros Hid. unfold parse_srvid_resp_rtu.
  do 2 fstep. cbv zeta. rewrite !Nat2N.id. repeat fstep.
  replace (length id + 1 + 1)%nat with (S (S (length id))) by lia.
  replace (length id + 1)%nat with (S (length id)) by lia.
  rewrite Nat.sub_0_r, firstn_app_len.
  rewrite (idx_eq _ _ st) by (cbn [vis nth_error]; apply nth_error_app_len).
  cbn [bind]. rewrite skipn_cons.
  replace (_ - _ - _)%nat with (length add) by lens.
  replace (id ++ st :: add ++ [c0; c1]) with ((id ++ [st]) ++ add ++ [c0;c1]) by (rewrite <- app_assoc; reflexivity).
  replace (S (length id)) with (length (id ++ [st])) by (rewrite app_length; cbn [length]; lia).
  rewrite skipn_app_len.
  rewrite firstn_app_len. reflexivity.
Qed.

(* ====================================================================================== *)
(* 3. exception recognisers, dispatch, CRC gate                                            *)
(* ====================================================================================== *)
Definition land128_pred (f : N) : bool := Bool.eqb (N.land f 128 =? 0) (f <? 128).
Lemma land128_sweep : forallb land128_pred (seqN 256) = true. Proof. vm_compute. reflexivity. Qed.
Lemma land128 f : f < 256 -> (N.land f 128 =? 0) = (f <? 128).
Proof.
  intros H. pose proof (proj1 (forallb_forall _ _) land128_sweep f (in_seqN _ _ H)) as S.
  unfold land128_pred in S. apply Bool.eqb_prop in S. exact S.
Qed.
Lemma sub8_128 f : 128 <= f -> f < 256 -> sub8 f 128 = f - 128.
Proof. unfold sub8, u8. intros. lia. Qed.

Lemma idx_nth {E} d i : (i < slen d)%nat -> @idx E d i = Ok (nth i (vis d) 0).
Proof. intros H. apply idx_eq. apply nth_error_nth'. exact H. Qed.
Lemma nth_error_slen d i x : nth_error (vis d) i = Some x -> (i < slen d)%nat.
Proof. intros H. unfold slen. apply nth_error_Some. rewrite H. discriminate. Qed.
Lemma nth_of_nth_error (l : list N) i x : nth_error l i = Some x -> nth i l 0 = x.
Proof. apply nth_error_nth. Qed.

(* AsTCPErrorPacket on any slice whose function byte is [f] *)
Lemma as_tcp_error_cases d f : nth_error (vis d) 7 = Some f -> f < 256 ->
  as_tcp_error d =
  Ok (if (slen d =? 9)%nat && (128 <=? f)
      then Some (mk_exc (be16 (firstn 2 (vis d))) (nth 6 (vis d) 0) (f - 128) (nth 8 (vis d) 0))
      else None).
Proof.
  intros Hf Hlt. pose proof (nth_error_slen _ _ _ Hf) as H8.
  unfold as_tcp_error. destruct (slen d =? 9)%nat eqn:E9; cbn [negb andb]; [|reflexivity].
  rewrite (idx_eq d 7 f Hf). cbn [bind]. rewrite land128 by exact Hlt.
  destruct (f <? 128) eqn:E; cbn [negb].
  - replace (128 <=? f) with false by lia. reflexivity.
  - replace (128 <=? f) with true by lia.
    rewrite sub_in by lia. rewrite !idx_nth by lia. cbn [bind skipn Nat.sub].
    rewrite sub8_128 by lia. reflexivity.
Qed.

(* AsRTUErrorPacket on any slice whose function byte is [f] *)
Lemma as_rtu_error_cases d f : nth_error (vis d) 1 = Some f -> f < 256 ->
  as_rtu_error d =
  Ok (if (slen d =? 5)%nat && (128 <=? f)
      then Some (nth 0 (vis d) 0, f - 128, nth 2 (vis d) 0)
      else None).
Proof.
  intros Hf Hlt. pose proof (nth_error_slen _ _ _ Hf) as H8.
  unfold as_rtu_error. destruct (slen d =? 5)%nat eqn:E9; cbn [negb andb]; [|reflexivity].
  rewrite (idx_eq d 1 f Hf). cbn [bind]. rewrite land128 by exact Hlt.
  destruct (f <? 128) eqn:E; cbn [negb].
  - replace (128 <=? f) with false by lia. reflexivity.
  - replace (128 <=? f) with true by lia.
    rewrite !idx_nth by lia. cbn [bind].
    rewrite sub8_128 by lia. reflexivity.
Qed.

(* the per-function parser selected by a function code (the switch of ParseTCPResponse / ParseRTUResponse) *)
Definition tcp_by_fc (fc : N) (d : slice) : pres (N * resp) :=
  if is_bytes_fc fc then parse_bytes_resp_tcp fc d else
  if fc =? 5 then parse_wcoil_resp_tcp d else
  if fc =? 6 then parse_wreg_resp_tcp d else
  if is_multi_fc fc then parse_wmulti_resp_tcp fc d else
  if fc =? 17 then parse_srvid_resp_tcp d else
  Err EPlain.
Definition rtu_by_fc (fc : N) (d : slice) : pres resp :=
  if is_bytes_fc fc then parse_bytes_resp_rtu fc d else
  if fc =? 5 then parse_wcoil_resp_rtu d else
  if fc =? 6 then parse_wreg_resp_rtu d else
  if is_multi_fc fc then parse_wmulti_resp_rtu fc d else
  if fc =? 17 then parse_srvid_resp_rtu d else
  Err EPlain.

(* the dispatchers on any slice, given its function byte *)
Lemma tcp_response_cases d f : nth_error (vis d) 7 = Some f -> f < 256 ->
  parse_tcp_response d =
  if (slen d =? 9)%nat && (128 <=? f)
  then Err (ERespTCP (mk_exc (be16 (firstn 2 (vis d))) (nth 6 (vis d) 0) (f - 128) (nth 8 (vis d) 0)))
  else tcp_by_fc f d.
Proof.
  intros Hf Hlt. pose proof (nth_error_slen _ _ _ Hf) as H8.
  unfold parse_tcp_response. replace (slen d <? 8)%nat with false by lia.
  rewrite (as_tcp_error_cases d f Hf Hlt). cbn [bind].
  destruct ((slen d =? 9)%nat && (128 <=? f)); [reflexivity|].
  rewrite (idx_eq d 7 f Hf). reflexivity.
Qed.
Lemma rtu_response_cases d f : (4 <= slen d)%nat -> nth_error (vis d) 1 = Some f -> f < 256 ->
  parse_rtu_response d =
  if (slen d =? 5)%nat && (128 <=? f)
  then Err (ERespRTU (nth 0 (vis d) 0) (f - 128) (nth 2 (vis d) 0))
  else rtu_by_fc f d.
Proof.
  intros H4 Hf Hlt.
  unfold parse_rtu_response. replace (slen d <? 4)%nat with false by lia.
  rewrite (as_rtu_error_cases d f Hf Hlt). cbn [bind].
  destruct ((slen d =? 5)%nat && (128 <=? f)); [reflexivity|].
  rewrite (idx_eq d 1 f Hf). reflexivity.
Qed.

(* function codes with the high bit set select no parser *)
Lemma tcp_by_fc_high f d : 128 <= f -> tcp_by_fc f d = Err EPlain.
Proof.
  intros H. unfold tcp_by_fc, is_bytes_fc, is_multi_fc.
  replace (f =? 1) with false by lia. replace (f =? 2) with false by lia. replace (f =? 3) with false by lia.
  replace (f =? 4) with false by lia. replace (f =? 23) with false by lia. replace (f =? 5) with false by lia.
  replace (f =? 6) with false by lia. replace (f =? 15) with false by lia. replace (f =? 16) with false by lia.
  replace (f =? 17) with false by lia. reflexivity.
Qed.
Lemma rtu_by_fc_high f d : 128 <= f -> rtu_by_fc f d = Err EPlain.
Proof.
  intros H. unfold rtu_by_fc, is_bytes_fc, is_multi_fc.
  replace (f =? 1) with false by lia. replace (f =? 2) with false by lia. replace (f =? 3) with false by lia.
  replace (f =? 4) with false by lia. replace (f =? 23) with false by lia. replace (f =? 5) with false by lia.
  replace (f =? 6) with false by lia. replace (f =? 15) with false by lia. replace (f =? 16) with false by lia.
  replace (f =? 17) with false by lia. reflexivity.
Qed.

(* an Ok of a dispatcher comes from the parser its function byte selects (no assumption on the bytes) *)
Lemma tcp_response_ok_inv d r : parse_tcp_response d = Ok r ->
  exists f, nth_error (vis d) 7 = Some f /\ tcp_by_fc f d = Ok r.
Proof.
  unfold parse_tcp_response. destruct (slen d <? 8)%nat eqn:E8; [discriminate|].
  destruct (as_tcp_error d) as [[x|]| |]; cbn [bind]; try discriminate.
  go_step. intros H. exists b. split; [exact Hn|exact H].
Qed.
Lemma rtu_response_ok_inv d r : parse_rtu_response d = Ok r ->
  (4 <= slen d)%nat /\ exists f, nth_error (vis d) 1 = Some f /\ rtu_by_fc f d = Ok r.
Proof.
  unfold parse_rtu_response. destruct (slen d <? 4)%nat eqn:E8; [discriminate|].
  destruct (as_rtu_error d) as [[[[u f] c]|]| |]; cbn [bind]; try discriminate.
  go_step. intros H. split; [lia|]. exists b. split; [exact Hn|exact H].
Qed.

(* the CRC gate: what it checks, on any slice *)
Lemma le16_trailer c : c < 65536 -> le16 [crc_lo c; crc_hi c] = c.
Proof. unfold le16, crc_lo, crc_hi. intros. lia. Qed.

Lemma crc_gate_cases {A} d (k : slice -> pres A) : (4 <= slen d)%nat ->
  crc_gate d k =
  if le16 (skipn (slen d - 2) (vis d)) =? crc16 (firstn (slen d - 2) (vis d)) then k d else Err EInvalidCRC.
Proof.
  intros H4. unfold crc_gate. replace (slen d <? 4)%nat with false by lia. cbv zeta.
  rewrite !sub_in by lia. cbn [bind skipn].
  replace (slen d - (slen d - 2))%nat with 2%nat by lia. rewrite Nat.sub_0_r.
  replace (firstn 2 (skipn (slen d - 2) (vis d))) with (skipn (slen d - 2) (vis d)).
  2:{ symmetry. apply firstn_all2. rewrite skipn_length. unfold slen in *. lia. }
  destruct (le16 _ =? _); reflexivity.
Qed.

Lemma crc_gate_with_crc {A} body s (k : slice -> pres A) : bytes_ok body -> (2 <= length body)%nat ->
  crc_gate {| vis := with_crc body; spare := s |} k = k {| vis := with_crc body; spare := s |}.
Proof.
  intros Hb Hl. rewrite crc_gate_cases by (unfold with_crc, crc_trailer; lens).
  unfold with_crc, slen. cbn [vis]. rewrite app_length. change (length (crc_trailer body)) with 2%nat.
  replace (length body + 2 - 2)%nat with (length body) by lia.
  rewrite skipn_app_len, firstn_app_len. unfold crc_trailer.
  rewrite le16_trailer by (apply crc16_lt; exact Hb). rewrite N.eqb_refl. reflexivity.
Qed.

(* a frame that passes the gate ends in the CRC of what precedes it *)
Lemma crc_gate_ok_inv {A} d (k : slice -> pres A) r : bytes_ok (vis d) -> crc_gate d k = Ok r ->
  (4 <= slen d)%nat /\ k d = Ok r /\ vis d = with_crc (firstn (slen d - 2) (vis d)).
Proof.
  intros Hb H. assert (H4 : (4 <= slen d)%nat).
  { unfold crc_gate in H. destruct (slen d <? 4)%nat eqn:E; [discriminate|lia]. }
  rewrite crc_gate_cases in H by exact H4.
  destruct (le16 _ =? _) eqn:E; [|discriminate]. split; [exact H4|]. split; [exact H|].
  apply N.eqb_eq in E. unfold with_crc.
  rewrite <- (firstn_skipn (slen d - 2) (vis d)) at 1. f_equal.
  set (body := firstn (slen d - 2) (vis d)) in *.
  assert (Ht : bytes_ok (skipn (slen d - 2) (vis d))) by (apply bytes_ok_skipn; exact Hb).
  assert (Hl : length (skipn (slen d - 2) (vis d)) = 2%nat) by (rewrite skipn_length; unfold slen in *; lia).
  revert E Ht Hl. generalize (skipn (slen d - 2) (vis d)). intros t E Ht Hl.
  destruct t as [|a [|b [|c r']]]; try discriminate Hl.
  apply bytes_ok_cons in Ht. destruct Ht as [Ha Ht]. apply bytes_ok_cons in Ht. destruct Ht as [Hb' _].
  unfold crc_trailer, crc_lo, crc_hi. rewrite <- E. unfold le16. f_equal; [lia|f_equal; lia].
Qed.

(* ====================================================================================== *)
(* 4. C02 (a): encode, then parse                                                          *)
(* ====================================================================================== *)
Definition parser_tcp_of (p : resp) : slice -> pres (N * resp) :=
  match p with
  | PBytes fc _ _ _ => parse_bytes_resp_tcp fc
  | PWCoil _ _ _ => parse_wcoil_resp_tcp
  | PWReg _ _ _ _ => parse_wreg_resp_tcp
  | PWMulti fc _ _ _ => parse_wmulti_resp_tcp fc
  | PSrvId _ _ _ _ => parse_srvid_resp_tcp
  end.
Definition parser_rtu_of (p : resp) : slice -> pres resp :=
  match p with
  | PBytes fc _ _ _ => parse_bytes_resp_rtu fc
  | PWCoil _ _ _ => parse_wcoil_resp_rtu
  | PWReg _ _ _ _ => parse_wreg_resp_rtu
  | PWMulti fc _ _ _ => parse_wmulti_resp_rtu fc
  | PSrvId _ _ _ _ => parse_srvid_resp_rtu
  end.

Lemma be16_hl a : a < 65536 -> be16 [a / 256; a mod 256] = a.
Proof. unfold be16. intros. lia. Qed.
Lemma be16_w16 a : a < 65536 -> be16 [hi a; lo a] = a.
Proof. apply be16_hl. Qed.

Lemma wf_min_data fc (data : list N) :
  (if is_coil_fc fc then (1 <=? length data)%nat else (2 <=? length data)%nat && Spec.even (length data)) = true ->
  (min_data fc <= length data)%nat.
Proof.
  unfold min_data. destruct (is_coil_fc fc); intros H; [lia|].
  apply andb_prop in H. destruct H as [H _]. lia.
Qed.

Theorem roundtrip_tcp_parser p tid s : resp_wf p = true -> tid < 65536 ->
  parser_tcp_of p {| vis := resp_bytes_tcp tid p; spare := s |} = Ok (tid, p).
Proof.
  intros H Ht. unfold resp_bytes_tcp, mbap_bytes, resp_len16. rewrite resp_body_spec by exact H.
  destruct p as [fc u bl data|u a st|u a d0 d1|fc u st c|u st id add];
    cbn [parser_tcp_of resp_unit spec_pdu sresp_of rpdu]; cbn [resp_wf] in H; split_wf H;
    unfold put16, w16, rpdu_library_fc17.
  - cbn [app]. rewrite bytes_tcp_frame by (first [apply wf_min_data; assumption | lia]).
    rewrite be16_hl by exact Ht. reflexivity.
  - destruct st; cbn [app length]; (rewrite wcoil_tcp_frame by reflexivity);
      rewrite be16_hl, be16_w16 by lia; reflexivity.
  - cbn [app length]. rewrite wreg_tcp_frame by reflexivity.
    rewrite be16_hl, be16_w16 by lia; reflexivity.
  - cbn [app length]. rewrite wmulti_tcp_frame by reflexivity.
    rewrite be16_hl, !be16_w16 by lia; reflexivity.
  - cbn [app]. rewrite srvid_tcp_frame by lia.
    rewrite be16_hl by exact Ht. reflexivity.
Qed.

Theorem roundtrip_rtu_parser p s : resp_wf p = true ->
  parser_rtu_of p {| vis := resp_bytes_rtu p; spare := s |} = Ok p.
Proof.
  intros H. unfold resp_bytes_rtu, with_crc, crc_trailer. rewrite resp_body_spec by exact H.
  destruct p as [fc u bl data|u a st|u a d0 d1|fc u st c|u st id add];
    cbn [parser_rtu_of resp_unit spec_pdu sresp_of rpdu]; cbn [resp_wf] in H; split_wf H;
    unfold w16, rpdu_library_fc17.
  - cbn [app]. rewrite bytes_rtu_frame by (first [apply wf_min_data; assumption | lia]). reflexivity.
  - destruct st; cbn [app]; rewrite wcoil_rtu_frame, be16_w16 by lia; reflexivity.
  - cbn [app]. rewrite wreg_rtu_frame, be16_w16 by lia; reflexivity.
  - cbn [app]. rewrite wmulti_rtu_frame, !be16_w16 by lia; reflexivity.
  - cbn [app]. rewrite <- !app_assoc. cbn [app]. rewrite srvid_rtu_frame by lia. reflexivity.
Qed.

Lemma resp_fc_lt128 p : resp_wf p = true -> resp_fc p < 128.
Proof.
  destruct p as [fc u bl data|u a st|u a d0 d1|fc u st c|u st id add]; cbn [resp_wf resp_fc]; intros H;
    try lia; split_wf H; unfold is_bytes_fc, is_multi_fc in H; lia.
Qed.

Lemma resp_body_head p : resp_wf p = true -> exists r, resp_body p = resp_unit p :: resp_fc p :: r.
Proof.
  intros H. rewrite resp_body_spec by exact H.
  destruct p as [fc u bl data|u a st|u a d0 d1|fc u st c|u st id add];
    cbn [resp_unit resp_fc spec_pdu sresp_of rpdu]; unfold rpdu_library_fc17; cbn [app]; eexists; reflexivity.
Qed.

Lemma tcp_by_fc_wf p d : resp_wf p = true -> tcp_by_fc (resp_fc p) d = parser_tcp_of p d.
Proof.
  destruct p as [fc u bl data|u a st|u a d0 d1|fc u st c|u st id add]; cbn [resp_wf resp_fc parser_tcp_of];
    intros H; try reflexivity; split_wf H; unfold tcp_by_fc.
  - rewrite H. reflexivity.
  - rewrite H. unfold is_multi_fc, is_bytes_fc in *.
    replace (fc =? 1) with false by lia. replace (fc =? 2) with false by lia. replace (fc =? 3) with false by lia.
    replace (fc =? 4) with false by lia. replace (fc =? 23) with false by lia. replace (fc =? 5) with false by lia.
    replace (fc =? 6) with false by lia. reflexivity.
Qed.
Lemma rtu_by_fc_wf p d : resp_wf p = true -> rtu_by_fc (resp_fc p) d = parser_rtu_of p d.
Proof.
  destruct p as [fc u bl data|u a st|u a d0 d1|fc u st c|u st id add]; cbn [resp_wf resp_fc parser_rtu_of];
    intros H; try reflexivity; split_wf H; unfold rtu_by_fc.
  - rewrite H. reflexivity.
  - rewrite H. unfold is_multi_fc, is_bytes_fc in *.
    replace (fc =? 1) with false by lia. replace (fc =? 2) with false by lia. replace (fc =? 3) with false by lia.
    replace (fc =? 4) with false by lia. replace (fc =? 23) with false by lia. replace (fc =? 5) with false by lia.
    replace (fc =? 6) with false by lia. reflexivity.
Qed.

Theorem roundtrip_tcp p tid s : resp_wf p = true -> tid < 65536 ->
  parse_tcp_response {| vis := resp_bytes_tcp tid p; spare := s |} = Ok (tid, p).
Proof.
  intros H Ht. pose proof (resp_fc_lt128 p H) as Hf.
  rewrite (tcp_response_cases _ (resp_fc p)); [| |lia].
  - replace (128 <=? resp_fc p) with false by lia. rewrite andb_false_r.
    rewrite tcp_by_fc_wf by exact H. apply roundtrip_tcp_parser; assumption.
  - cbn [vis]. unfold resp_bytes_tcp, mbap_bytes, put16.
    destruct (resp_body_head p H) as [r ->]. reflexivity.
Qed.

Theorem roundtrip_rtu p s : resp_wf p = true ->
  parse_rtu_response {| vis := resp_bytes_rtu p; spare := s |} = Ok p.
Proof.
  intros H. pose proof (resp_fc_lt128 p H) as Hf.
  assert (Hn : nth_error (resp_bytes_rtu p) 1 = Some (resp_fc p)).
  { unfold resp_bytes_rtu, with_crc. destruct (resp_body_head p H) as [r ->]. reflexivity. }
  rewrite (rtu_response_cases _ (resp_fc p)); [| |exact Hn|lia].
  - replace (128 <=? resp_fc p) with false by lia. rewrite andb_false_r.
    rewrite rtu_by_fc_wf by exact H. apply roundtrip_rtu_parser; assumption.
  - unfold resp_bytes_rtu, with_crc, crc_trailer. destruct (resp_body_head p H) as [r ->]. lens.
Qed.

Theorem roundtrip_rtu_crc p s : resp_wf p = true ->
  parse_rtu_response_crc {| vis := resp_bytes_rtu p; spare := s |} = Ok p.
Proof.
  intros H. unfold parse_rtu_response_crc, resp_bytes_rtu.
  rewrite crc_gate_with_crc.
  - apply roundtrip_rtu. exact H.
  - apply resp_body_ok. exact H.
  - destruct (resp_body_head p H) as [r ->]. cbn [length]. lia.
Qed.

(* ====================================================================================== *)
(* 5. C02 (b): exception frames                                                            *)
(* ====================================================================================== *)
Lemma add8_128 fc : fc < 128 -> add8 fc 128 = fc + 128.
Proof. unfold add8, u8. intros. lia. Qed.

(* the library's exception encoders produce the specified exception ADUs *)
Lemma exc_bytes_tcp_spec tid u fc code : fc < 128 ->
  exc_bytes_tcp (mk_exc tid u fc code) = exception_adu_tcp tid u fc code.
Proof. intros H. unfold exc_bytes_tcp. cbn [x_tid x_unit x_fc x_code mk_exc]. rewrite add8_128 by exact H. reflexivity. Qed.
Lemma exc_bytes_rtu_spec u fc code : u < 256 -> fc < 128 -> code < 256 ->
  exc_bytes_rtu u fc code = exception_adu_rtu u fc code.
Proof.
  intros Hu H Hc. unfold exc_bytes_rtu, exception_adu_rtu, adu_rtu, exception_pdu, with_crc.
  rewrite add8_128 by exact H. rewrite trailer_is_spec by (repeat constructor; lia). reflexivity.
Qed.

Theorem exception_tcp tid u fc code s : tid < 65536 -> fc < 128 ->
  parse_tcp_response {| vis := exception_adu_tcp tid u fc code; spare := s |}
  = Err (ERespTCP (mk_exc tid u fc code)).
Proof.
  intros Ht Hf. rewrite (tcp_response_cases _ (fc + 128)); [|reflexivity|lia].
  unfold exception_adu_tcp, adu_tcp, exception_pdu. cbn [slen vis app length w16 Nat.eqb andb firstn nth].
  replace (128 <=? fc + 128) with true by lia.
  rewrite be16_w16 by exact Ht. replace (fc + 128 - 128) with fc by lia. reflexivity.
Qed.

Theorem exception_rtu u fc code s : fc < 128 ->
  parse_rtu_response {| vis := exception_adu_rtu u fc code; spare := s |} = Err (ERespRTU u fc code).
Proof.
  intros Hf. rewrite (rtu_response_cases _ (fc + 128)); [| |reflexivity|lia].
  - unfold exception_adu_rtu, adu_rtu, exception_pdu, spec_trailer.
    cbn [slen vis app length Nat.eqb andb nth].
    replace (128 <=? fc + 128) with true by lia.
    replace (fc + 128 - 128) with fc by lia. reflexivity.
  - unfold exception_adu_rtu, adu_rtu, exception_pdu, spec_trailer. cbn [slen vis app length]. lia.
Qed.

Theorem exception_rtu_crc u fc code s : u < 256 -> fc < 128 -> code < 256 ->
  parse_rtu_response_crc {| vis := exception_adu_rtu u fc code; spare := s |} = Err (ERespRTU u fc code).
Proof.
  intros Hu Hf Hc. unfold parse_rtu_response_crc.
  assert (E : exception_adu_rtu u fc code = with_crc [u; fc + 128; code]).
  { unfold exception_adu_rtu, adu_rtu, exception_pdu, with_crc.
    rewrite trailer_is_spec by (repeat constructor; lia). reflexivity. }
  rewrite E. rewrite crc_gate_with_crc; [|repeat constructor; lia|cbn [length]; lia].
  rewrite <- E. apply exception_rtu. exact Hf.
Qed.

(* a frame whose function byte has the high bit set is never a response *)
Theorem high_bit_tcp d f : nth_error (vis d) 7 = Some f -> 128 <= f < 256 ->
  exists e, parse_tcp_response d = Err e.
Proof.
  intros Hn Hf. rewrite (tcp_response_cases d f Hn) by lia. rewrite tcp_by_fc_high by lia.
  destruct ((slen d =? 9)%nat && (128 <=? f)); eexists; reflexivity.
Qed.
Theorem high_bit_rtu d f : nth_error (vis d) 1 = Some f -> 128 <= f < 256 ->
  exists e, parse_rtu_response d = Err e.
Proof.
  intros Hn Hf. destruct (slen d <? 4)%nat eqn:E4.
  - unfold parse_rtu_response. rewrite E4. eexists; reflexivity.
  - rewrite (rtu_response_cases d f); [|lia|exact Hn|lia]. rewrite rtu_by_fc_high by lia.
    destruct ((slen d =? 5)%nat && (128 <=? f)); eexists; reflexivity.
Qed.
Theorem high_bit_rtu_crc d f : nth_error (vis d) 1 = Some f -> 128 <= f < 256 ->
  exists e, parse_rtu_response_crc d = Err e.
Proof.
  intros Hn Hf. unfold parse_rtu_response_crc. destruct (slen d <? 4)%nat eqn:E4.
  - unfold crc_gate. rewrite E4. eexists; reflexivity.
  - rewrite crc_gate_cases by lia. destruct (le16 _ =? _); [|eexists; reflexivity].
    apply (high_bit_rtu d f Hn Hf).
Qed.

(* ====================================================================================== *)
(* 6. what a successful parse says about the frame (no assumption on the slice)            *)
(* ====================================================================================== *)
Ltac hyps_norm :=
  repeat match goal with
         | H : context [slen _] |- _ => progress cbn [slen vis length be16] in H
         end.
Ltac ilens := hyps_norm; lens.
Ltac istep :=
  match goal with
  | |- Err _ = Ok _ -> _ => let H := fresh in intros H; discriminate H
  | |- context [@idx ?E ?d ?i] =>
      let r := eval cbn [idx vis nth_error] in (@idx E d i) in
      match r with Ok _ => change (@idx E d i) with r; cbn [bind] end
  | |- context [@sub ?E ?d ?i ?j] =>
      rewrite (@sub_in E d i j) by ilens; cbn [vis firstn skipn Nat.sub Nat.add bind]
  | |- context [if ?c then _ else _] => destruct c eqn:?; cbn [bind]
  end.
Ltac short_case := let H := fresh in cbn; intros H; discriminate H.

Lemma bytes_tcp_inv fc d tid p : parse_bytes_resp_tcp fc d = Ok (tid, p) ->
  exists t0 t1 x2 x3 x4 x5 u f bl data,
    vis d = t0::t1::x2::x3::x4::x5::u::f::bl::data /\ length data = N.to_nat bl /\
    (min_data fc <= length data)%nat /\ tid = be16 [t0;t1] /\ p = PBytes fc u bl data.
Proof.
  destruct d as [v s]. cbn [vis]. unfold parse_bytes_resp_tcp, min_data.
  destruct (is_coil_fc fc);
  (do 9 (destruct v as [|? v]; [short_case|])); repeat istep;
  (rewrite Nat.sub_0_r, firstn_all2 by ilens); intros H; injection H as <- <-;
  do 10 eexists; (split; [reflexivity|]); hyps_norm; repeat split; lia.
Qed.

Lemma bytes_rtu_inv fc d p : parse_bytes_resp_rtu fc d = Ok p ->
  exists u f bl data tr,
    vis d = u::f::bl::data ++ tr /\ length data = N.to_nat bl /\ length tr = 2%nat /\
    (min_data fc <= length data)%nat /\ p = PBytes fc u bl data.
Proof.
  destruct d as [v s]. cbn [vis]. unfold parse_bytes_resp_rtu, min_data.
  destruct (is_coil_fc fc);
  (do 3 (destruct v as [|? v]; [short_case|])); repeat istep;
  rewrite Nat.sub_0_r; intros H; injection H as <-;
  exists n, n0, n1, (firstn (N.to_nat n1) v), (skipn (N.to_nat n1) v);
  (split; [rewrite firstn_skipn; reflexivity|]); hyps_norm;
  rewrite firstn_length, skipn_length; repeat split; lia.
Qed.

Lemma wcoil_tcp_inv d tid p : parse_wcoil_resp_tcp d = Ok (tid, p) ->
  exists t0 t1 x2 x3 l0 l1 u f a0 a1 v0 v1 rest,
    vis d = [t0;t1;x2;x3;l0;l1;u;f;a0;a1;v0;v1] ++ rest /\
    l0 * 256 + l1 = 6 + N.of_nat (length rest) /\ tid = be16 [t0;t1] /\
    p = PWCoil u (be16 [a0;a1]) (be16 [v0;v1] =? 0xFF00).
Proof.
  destruct d as [v s]. cbn [vis]. unfold parse_wcoil_resp_tcp, fixed_resp_guard_tcp.
  (do 12 (destruct v as [|? v]; [short_case|])); repeat istep.
  intros H; injection H as <- <-.
  do 13 eexists. (split; [reflexivity|]); hyps_norm; repeat split; lia.
Qed.
Lemma wreg_tcp_inv d tid p : parse_wreg_resp_tcp d = Ok (tid, p) ->
  exists t0 t1 x2 x3 l0 l1 u f a0 a1 v0 v1 rest,
    vis d = [t0;t1;x2;x3;l0;l1;u;f;a0;a1;v0;v1] ++ rest /\
    l0 * 256 + l1 = 6 + N.of_nat (length rest) /\ tid = be16 [t0;t1] /\
    p = PWReg u (be16 [a0;a1]) v0 v1.
Proof.
  destruct d as [v s]. cbn [vis]. unfold parse_wreg_resp_tcp, fixed_resp_guard_tcp.
  (do 12 (destruct v as [|? v]; [short_case|])); repeat istep.
  intros H; injection H as <- <-.
  do 13 eexists. (split; [reflexivity|]); hyps_norm; repeat split; lia.
Qed.
Lemma wmulti_tcp_inv fc d tid p : parse_wmulti_resp_tcp fc d = Ok (tid, p) ->
  exists t0 t1 x2 x3 l0 l1 u f a0 a1 v0 v1 rest,
    vis d = [t0;t1;x2;x3;l0;l1;u;f;a0;a1;v0;v1] ++ rest /\
    l0 * 256 + l1 = 6 + N.of_nat (length rest) /\ tid = be16 [t0;t1] /\
    p = PWMulti fc u (be16 [a0;a1]) (be16 [v0;v1]).
Proof.
  destruct d as [v s]. cbn [vis]. unfold parse_wmulti_resp_tcp, fixed_resp_guard_tcp.
  (do 12 (destruct v as [|? v]; [short_case|])); repeat istep.
  intros H; injection H as <- <-.
  do 13 eexists. (split; [reflexivity|]); hyps_norm; repeat split; lia.
Qed.

Lemma wcoil_rtu_inv d p : parse_wcoil_resp_rtu d = Ok p ->
  exists u f a0 a1 v0 v1 c0 c1,
    vis d = [u;f;a0;a1;v0;v1;c0;c1] /\ p = PWCoil u (be16 [a0;a1]) (be16 [v0;v1] =? 0xFF00).
Proof.
  destruct d as [v s]. cbn [vis]. unfold parse_wcoil_resp_rtu, fixed_resp_guard_rtu.
  (do 8 (destruct v as [|? v]; [short_case|])). destruct v; [|short_case].
  repeat istep. intros H; injection H as <-. do 8 eexists. split; reflexivity.
Qed.
Lemma wreg_rtu_inv d p : parse_wreg_resp_rtu d = Ok p ->
  exists u f a0 a1 v0 v1 c0 c1,
    vis d = [u;f;a0;a1;v0;v1;c0;c1] /\ p = PWReg u (be16 [a0;a1]) v0 v1.
Proof.
  destruct d as [v s]. cbn [vis]. unfold parse_wreg_resp_rtu, fixed_resp_guard_rtu.
  (do 8 (destruct v as [|? v]; [short_case|])). destruct v; [|short_case].
  repeat istep. intros H; injection H as <-. do 8 eexists. split; reflexivity.
Qed.
Lemma wmulti_rtu_inv fc d p : parse_wmulti_resp_rtu fc d = Ok p ->
  exists u f a0 a1 v0 v1 c0 c1,
    vis d = [u;f;a0;a1;v0;v1;c0;c1] /\ p = PWMulti fc u (be16 [a0;a1]) (be16 [v0;v1]).
Proof.
  destruct d as [v s]. cbn [vis]. unfold parse_wmulti_resp_rtu, fixed_resp_guard_rtu.
  (do 8 (destruct v as [|? v]; [short_case|])). destruct v; [|short_case].
  repeat istep. intros H; injection H as <-. do 8 eexists. split; reflexivity.
Qed.

Lemma split_at {A} (l : list A) n x : nth_error l n = Some x -> l = firstn n l ++ x :: skipn (S n) l.
Proof.
  revert n. induction l as [|y l IH]; intros [|n] H; cbn in H; try discriminate.
  - injection H as ->. reflexivity.
  - cbn [firstn skipn app]. f_equal. apply IH. exact H.
Qed.

Ltac istep2 :=
  first [ istep
        | match goal with
          | |- context [@from ?E ?d ?i] => rewrite (@from_in E d i) by ilens; cbn [vis bind]
          | |- context [@idx ?E ?d ?i] =>
              let b := fresh "st" in let Hb := fresh "Hst" in let Hn := fresh "Hn" in
              destruct (@idx_lt E d i) as [b [Hb Hn]]; [ilens|]; rewrite Hb; cbn [bind]
          end ].

Lemma srvid_tcp_inv d tid p : parse_srvid_resp_tcp d = Ok (tid, p) ->
  exists t0 t1 x2 x3 x4 x5 u f il id st add,
    vis d = t0::t1::x2::x3::x4::x5::u::f::il::id ++ st :: add /\ length id = N.to_nat il /\
    (1 <= length id)%nat /\ tid = be16 [t0;t1] /\ p = PSrvId u st id add.
Proof.
  destruct d as [v s]. cbn [vis]. unfold parse_srvid_resp_tcp.
  (do 9 (destruct v as [|? v]; [short_case|])). cbv zeta. repeat istep2.
  all: cbn [vis] in Hn; replace (N.to_nat n7 + 1)%nat with (S (N.to_nat n7)) in Hn by lia;
    cbn [nth_error] in Hn; hyps_norm; rewrite Nat.sub_0_r;
    intros H; injection H as <- <-;
    exists n, n0, n1, n2, n3, n4, n5, n6, n7, (firstn (N.to_nat n7) v), st, (skipn (S (N.to_nat n7)) v);
    (split; [do 9 f_equal; apply split_at; exact Hn|]);
    (split; [rewrite firstn_length; lia|]); (split; [rewrite firstn_length; lia|]); (split; [reflexivity|]);
    f_equal.
  - replace (N.to_nat n7 + 1 + 1)%nat with (S (S (N.to_nat n7))) by lia. rewrite !skipn_cons. reflexivity.
  - symmetry. apply skipn_all2. lia.
Qed.

Lemma srvid_rtu_inv d p : parse_srvid_resp_rtu d = Ok p ->
  exists u f il id st add tr,
    vis d = u::f::il::id ++ st :: add ++ tr /\ length id = N.to_nat il /\
    (1 <= length id)%nat /\ length tr = 2%nat /\ p = PSrvId u st id add.
Proof.
  destruct d as [v s]. cbn [vis]. unfold parse_srvid_resp_rtu.
  (do 3 (destruct v as [|? v]; [short_case|])). cbv zeta. repeat istep2.
  all: cbn [vis] in Hn; replace (N.to_nat n1 + 1)%nat with (S (N.to_nat n1)) in Hn by lia;
    cbn [nth_error] in Hn; hyps_norm; try (exfalso; lia).
  rewrite Nat.sub_0_r. intros H; injection H as <-.
  set (k := (length v - 2 - S (N.to_nat n1))%nat).
  exists n, n0, n1, (firstn (N.to_nat n1) v), st, (firstn k (skipn (S (N.to_nat n1)) v)), (skipn k (skipn (S (N.to_nat n1)) v)).
  split; [do 3 f_equal; rewrite firstn_skipn; apply split_at; exact Hn|].
  split; [rewrite firstn_length; lia|]. split; [rewrite firstn_length; lia|].
  split; [rewrite !skipn_length; unfold k; lia|].
  f_equal. replace (N.to_nat n1 + 1 + 1)%nat with (S (S (N.to_nat n1))) by lia.
  rewrite !skipn_cons. cbn [slen vis length]. f_equal. unfold k. lia.
Qed.

(* ====================================================================================== *)
(* 7. C02 (a), converse: parse, then encode                                                *)
(* ====================================================================================== *)
(* MBAP header of a well-formed frame: protocol identifier 0, length = number of following bytes *)
Definition mbap_wfb (v : list N) : bool :=
  match v with
  | _ :: _ :: p0 :: p1 :: l0 :: l1 :: rest =>
      (p0 =? 0) && (p1 =? 0) && (l0 * 256 + l1 =? N.of_nat (length rest))
  | _ => false
  end.
(* PDU of a well-formed response of a fixed-layout function: function byte and exactly four more
   bytes; the value echoed by FC5 is FF00 or 0000 (MAP 6.5) *)
Definition pdu_wfb (pdu : list N) : bool :=
  match pdu with
  | fc :: rest =>
      if fc =? 5 then
        match rest with [_; _; v0; v1] => (be16 [v0; v1] =? 0xFF00) || (be16 [v0; v1] =? 0) | _ => false end
      else if (fc =? 6) || (fc =? 15) || (fc =? 16) then (length rest =? 4)%nat
      else true
  | [] => false
  end.
Definition frame_wf_tcp (v : list N) : bool := bytes_okb v && mbap_wfb v && pdu_wfb (skipn 7 v).
Definition frame_wf_rtu (v : list N) : bool := bytes_okb v && pdu_wfb (skipn 1 (firstn (length v - 2) v)).

Lemma body_bytes_canon fc u bl data : bl < 256 -> length data = N.to_nat bl ->
  resp_body (PBytes fc u bl data) = u :: fc :: bl :: data.
Proof.
  intros Hb Hl. cbn [resp_body]. destruct (is_coil_fc fc).
  - rewrite Hl, N2Nat.id, u8_small by exact Hb. reflexivity.
  - rewrite <- Hl, firstn_app_len. reflexivity.
Qed.
Lemma body_srvid_canon u st il id add : il < 256 -> length id = N.to_nat il ->
  resp_body (PSrvId u st id add) = u :: 17 :: il :: id ++ st :: add.
Proof. intros Hb Hl. cbn [resp_body]. rewrite Hl, N2Nat.id, u8_small by exact Hb. reflexivity. Qed.
Lemma body_wcoil_canon u a0 a1 v0 v1 : a0 < 256 -> a1 < 256 -> v0 < 256 -> v1 < 256 ->
  (be16 [v0; v1] =? 0xFF00) || (be16 [v0; v1] =? 0) = true ->
  resp_body (PWCoil u (be16 [a0; a1]) (be16 [v0; v1] =? 0xFF00)) = [u; 5; a0; a1; v0; v1].
Proof.
  intros H0 H1 H2 H3 Hv. cbn [resp_body]. rewrite put16_be16 by assumption.
  destruct (be16 [v0; v1] =? 0xFF00) eqn:E; cbn [orb] in Hv.
  - apply N.eqb_eq in E. rewrite <- E, put16_be16 by assumption. reflexivity.
  - apply N.eqb_eq in Hv. rewrite <- Hv, put16_be16 by assumption. reflexivity.
Qed.
Lemma body_wreg_canon u a0 a1 v0 v1 : a0 < 256 -> a1 < 256 ->
  resp_body (PWReg u (be16 [a0; a1]) v0 v1) = [u; 6; a0; a1; v0; v1].
Proof. intros H0 H1. cbn [resp_body]. rewrite put16_be16 by assumption. reflexivity. Qed.
Lemma body_wmulti_canon fc u a0 a1 v0 v1 : a0 < 256 -> a1 < 256 -> v0 < 256 -> v1 < 256 ->
  resp_body (PWMulti fc u (be16 [a0; a1]) (be16 [v0; v1])) = [u; fc; a0; a1; v0; v1].
Proof. intros H0 H1 H2 H3. cbn [resp_body]. rewrite !put16_be16 by assumption. reflexivity. Qed.

Lemma assemble_tcp t0 t1 x2 x3 l0 l1 body p :
  t0 < 256 -> t1 < 256 -> l0 < 256 -> l1 < 256 -> x2 = 0 -> x3 = 0 ->
  l0 * 256 + l1 = N.of_nat (length body) -> resp_body p = body ->
  resp_bytes_tcp (be16 [t0; t1]) p = t0 :: t1 :: x2 :: x3 :: l0 :: l1 :: body.
Proof.
  intros H0 H1 H2 H3 -> -> Hl Hb. unfold resp_bytes_tcp, resp_len16, mbap_bytes. rewrite Hb, <- Hl.
  rewrite u16_small by lia. rewrite put16_be16 by assumption.
  change (l0 * 256 + l1) with (be16 [l0; l1]). rewrite put16_be16 by assumption. reflexivity.
Qed.

Ltac ok_cons H :=
  repeat (let Hx := fresh "Hlt" in apply bytes_ok_cons in H; destruct H as [Hx H]).
Ltac split_frame_wf H Hok Hmb Hpdu :=
  unfold frame_wf_tcp in H; apply andb_prop in H; destruct H as [H Hpdu];
  apply andb_prop in H; destruct H as [Hok Hmb]; apply bytes_okb_true in Hok.

Theorem reencode_tcp_by_fc f d tid p :
  tcp_by_fc f d = Ok (tid, p) -> nth_error (vis d) 7 = Some f -> frame_wf_tcp (vis d) = true ->
  resp_bytes_tcp tid p = vis d.
Proof.
  unfold tcp_by_fc. intros H Hf Hwf. split_frame_wf Hwf Hok Hmb Hpdu.
  destruct (is_bytes_fc f) eqn:Eb; [|destruct (f =? 5) eqn:E5; [|destruct (f =? 6) eqn:E6;
    [|destruct (is_multi_fc f) eqn:Em; [|destruct (f =? 17) eqn:E17; [|discriminate H]]]]].
  - apply bytes_tcp_inv in H. destruct H as (t0&t1&x2&x3&x4&x5&u&f'&bl&data&Hv&Hl&Hm&->&->).
    rewrite Hv in *. cbn [nth_error] in Hf. injection Hf as ->. ok_cons Hok. cbn [mbap_wfb length] in Hmb.
    apply assemble_tcp; try (cbn [length]; lia). apply body_bytes_canon; lia.
  - apply wcoil_tcp_inv in H. destruct H as (t0&t1&x2&x3&l0&l1&u&f'&a0&a1&v0&v1&rest&Hv&Hl&->&->).
    rewrite Hv in *. cbn [nth_error app] in Hf. injection Hf as ->. cbn [app] in Hok. ok_cons Hok.
    cbn [mbap_wfb length app] in Hmb. cbn [skipn app pdu_wfb] in Hpdu. rewrite E5 in Hpdu.
    destruct rest; [|discriminate Hpdu]. apply N.eqb_eq in E5. subst f.
    cbn [app length] in *. apply assemble_tcp; try (cbn [length]; lia). apply body_wcoil_canon; assumption.
  - apply wreg_tcp_inv in H. destruct H as (t0&t1&x2&x3&l0&l1&u&f'&a0&a1&v0&v1&rest&Hv&Hl&->&->).
    rewrite Hv in *. cbn [nth_error app] in Hf. injection Hf as ->. cbn [app] in Hok. ok_cons Hok.
    cbn [mbap_wfb length app] in Hmb. cbn [skipn app pdu_wfb] in Hpdu. rewrite E5, E6 in Hpdu.
    cbn [orb length] in Hpdu. destruct rest; [|cbn [length] in Hpdu; lia]. apply N.eqb_eq in E6. subst f.
    cbn [app length] in *. apply assemble_tcp; try (cbn [length]; lia). apply body_wreg_canon; assumption.
  - apply wmulti_tcp_inv in H. destruct H as (t0&t1&x2&x3&l0&l1&u&f'&a0&a1&v0&v1&rest&Hv&Hl&->&->).
    rewrite Hv in *. cbn [nth_error app] in Hf. injection Hf as ->. cbn [app] in Hok. ok_cons Hok.
    cbn [mbap_wfb length app] in Hmb. cbn [skipn app pdu_wfb] in Hpdu. rewrite E5, E6 in Hpdu.
    unfold is_multi_fc in Em. cbn [orb] in Hpdu. rewrite Em in Hpdu.
    destruct rest; [|cbn [length] in Hpdu; lia].
    cbn [app length] in *. apply assemble_tcp; try (cbn [length]; lia). apply body_wmulti_canon; assumption.
  - apply srvid_tcp_inv in H. destruct H as (t0&t1&x2&x3&x4&x5&u&f'&il&id&st&add&Hv&Hl&Hm&->&->).
    rewrite Hv in *. cbn [nth_error] in Hf. injection Hf as ->. ok_cons Hok. cbn [mbap_wfb length] in Hmb.
    apply N.eqb_eq in E17. subst f.
    apply assemble_tcp; try (cbn [length]; lia). apply body_srvid_canon; lia.
Qed.

Lemma firstn_drop_tail {A} (a tr : list A) k : length tr = k -> firstn (length (a ++ tr) - k) (a ++ tr) = a.
Proof.
  intros <-. rewrite app_length. replace (length a + length tr - length tr)%nat with (length a) by lia.
  apply firstn_app_len.
Qed.

(* the non-checking RTU parsers: the parsed value re-encodes to the frame without its last two bytes *)
Theorem reencode_rtu_by_fc f d p :
  rtu_by_fc f d = Ok p -> nth_error (vis d) 1 = Some f -> frame_wf_rtu (vis d) = true ->
  resp_body p = firstn (slen d - 2) (vis d).
Proof.
  unfold rtu_by_fc, slen. intros H Hf Hwf.
  unfold frame_wf_rtu in Hwf. apply andb_prop in Hwf. destruct Hwf as [Hok Hpdu]. apply bytes_okb_true in Hok.
  destruct (is_bytes_fc f) eqn:Eb; [|destruct (f =? 5) eqn:E5; [|destruct (f =? 6) eqn:E6;
    [|destruct (is_multi_fc f) eqn:Em; [|destruct (f =? 17) eqn:E17; [|discriminate H]]]]].
  - apply bytes_rtu_inv in H. destruct H as (u&f'&bl&data&tr&Hv&Hl&Ht&Hm&->).
    rewrite Hv in *. cbn [nth_error] in Hf. injection Hf as ->. ok_cons Hok.
    change (u :: f :: bl :: data ++ tr) with ((u :: f :: bl :: data) ++ tr).
    rewrite (firstn_drop_tail _ tr 2 Ht). apply body_bytes_canon; lia.
  - apply wcoil_rtu_inv in H. destruct H as (u&f'&a0&a1&v0&v1&c0&c1&Hv&->).
    rewrite Hv in *. cbn [nth_error] in Hf. injection Hf as ->. ok_cons Hok.
    cbn [length Nat.sub firstn skipn pdu_wfb] in *. rewrite E5 in Hpdu.
    apply N.eqb_eq in E5. subst f. apply body_wcoil_canon; assumption.
  - apply wreg_rtu_inv in H. destruct H as (u&f'&a0&a1&v0&v1&c0&c1&Hv&->).
    rewrite Hv in *. cbn [nth_error] in Hf. injection Hf as ->. ok_cons Hok.
    cbn [length Nat.sub firstn]. apply N.eqb_eq in E6. subst f. apply body_wreg_canon; assumption.
  - apply wmulti_rtu_inv in H. destruct H as (u&f'&a0&a1&v0&v1&c0&c1&Hv&->).
    rewrite Hv in *. cbn [nth_error] in Hf. injection Hf as ->. ok_cons Hok.
    cbn [length Nat.sub firstn]. apply body_wmulti_canon; assumption.
  - apply srvid_rtu_inv in H. destruct H as (u&f'&il&id&st&add&tr&Hv&Hl&Hm&Ht&->).
    rewrite Hv in *. cbn [nth_error] in Hf. injection Hf as ->. ok_cons Hok.
    replace (u :: f :: il :: id ++ st :: add ++ tr) with ((u :: f :: il :: id ++ st :: add) ++ tr)
      by (cbn [app]; rewrite <- app_assoc; reflexivity).
    rewrite (firstn_drop_tail _ tr 2 Ht). apply N.eqb_eq in E17. subst f. apply body_srvid_canon; lia.
Qed.

Theorem reencode_tcp d tid p :
  parse_tcp_response d = Ok (tid, p) -> frame_wf_tcp (vis d) = true -> resp_bytes_tcp tid p = vis d.
Proof.
  intros H Hwf. apply tcp_response_ok_inv in H. destruct H as (f&Hf&H).
  exact (reencode_tcp_by_fc f d tid p H Hf Hwf).
Qed.

Theorem reencode_rtu_nocheck d p :
  parse_rtu_response d = Ok p -> frame_wf_rtu (vis d) = true ->
  resp_bytes_rtu p = with_crc (firstn (slen d - 2) (vis d)).
Proof.
  intros H Hwf. apply rtu_response_ok_inv in H. destruct H as (H4&f&Hf&H).
  unfold resp_bytes_rtu. rewrite (reencode_rtu_by_fc f d p H Hf Hwf). reflexivity.
Qed.

(* ... hence byte for byte exactly when the frame's last two bytes are the CRC of the rest *)
Theorem reencode_rtu_nocheck_iff d p :
  parse_rtu_response d = Ok p -> frame_wf_rtu (vis d) = true ->
  (resp_bytes_rtu p = vis d <-> skipn (slen d - 2) (vis d) = crc_trailer (firstn (slen d - 2) (vis d))).
Proof.
  intros H Hwf. rewrite (reencode_rtu_nocheck d p H Hwf). unfold with_crc.
  split; intros E.
  - rewrite <- (firstn_skipn (slen d - 2) (vis d)) in E at 3. apply app_inv_head in E. symmetry. exact E.
  - rewrite <- E. apply firstn_skipn.
Qed.

Theorem reencode_rtu_crc d p :
  parse_rtu_response_crc d = Ok p -> frame_wf_rtu (vis d) = true -> resp_bytes_rtu p = vis d.
Proof.
  intros H Hwf. unfold parse_rtu_response_crc in H.
  assert (Hok : bytes_ok (vis d)).
  { unfold frame_wf_rtu in Hwf. apply andb_prop in Hwf. destruct Hwf as [Hok _]. apply bytes_okb_true. exact Hok. }
  apply crc_gate_ok_inv in H; [|exact Hok]. destruct H as (H4&H&Hv).
  rewrite (reencode_rtu_nocheck d p H Hwf). symmetry. exact Hv.
Qed.

(* ====================================================================================== *)
(* 8. C02 (c): frame length against the byte-count field                                   *)
(* ====================================================================================== *)
Theorem bytecount_len_tcp fc d r : parse_bytes_resp_tcp fc d = Ok r ->
  exists bl, nth_error (vis d) 8 = Some bl /\ slen d = (9 + N.to_nat bl)%nat.
Proof.
  destruct r as [tid p]. intros H. apply bytes_tcp_inv in H.
  destruct H as (t0&t1&x2&x3&x4&x5&u&f'&bl&data&Hv&Hl&Hm&_&_).
  exists bl. unfold slen. rewrite Hv. split; [reflexivity|cbn [length]; lia].
Qed.
Theorem bytecount_len_rtu fc d p : parse_bytes_resp_rtu fc d = Ok p ->
  exists bl, nth_error (vis d) 2 = Some bl /\ slen d = (3 + N.to_nat bl + 2)%nat.
Proof.
  intros H. apply bytes_rtu_inv in H. destruct H as (u&f'&bl&data&tr&Hv&Hl&Ht&Hm&_).
  exists bl. unfold slen. rewrite Hv. split; [reflexivity|cbn [length]; rewrite app_length; lia].
Qed.

(* a frame whose length disagrees with its count field (or that has no count field) is an error *)
Theorem bytecount_mismatch_tcp fc d :
  (forall bl, nth_error (vis d) 8 = Some bl -> slen d <> (9 + N.to_nat bl)%nat) ->
  exists e, parse_bytes_resp_tcp fc d = Err e.
Proof.
  intros Hm. unfold parse_bytes_resp_tcp.
  destruct (slen d <? (if is_coil_fc fc then 10 else 11))%nat eqn:E; [eexists; reflexivity|].
  assert (H9 : (9 < slen d)%nat) by (destruct (is_coil_fc fc); lia).
  go_step. specialize (Hm b Hn).
  replace (negb (slen d =? 9 + N.to_nat b)%nat) with true by lia. eexists; reflexivity.
Qed.
Theorem bytecount_mismatch_rtu fc d :
  (forall bl, nth_error (vis d) 2 = Some bl -> slen d <> (3 + N.to_nat bl + 2)%nat) ->
  exists e, parse_bytes_resp_rtu fc d = Err e.
Proof.
  intros Hm. unfold parse_bytes_resp_rtu.
  destruct (slen d <? (if is_coil_fc fc then 6 else 7))%nat eqn:E; [eexists; reflexivity|].
  assert (H9 : (5 < slen d)%nat) by (destruct (is_coil_fc fc); lia).
  go_step. specialize (Hm b Hn).
  replace (negb (slen d =? 3 + N.to_nat b + 2)%nat) with true by lia. eexists; reflexivity.
Qed.

Lemma is_bytes_fc_lt fc : is_bytes_fc fc = true -> fc < 128.
Proof. unfold is_bytes_fc. lia. Qed.

(* the same through the dispatchers *)
Theorem bytecount_mismatch_tcp_dispatch d f :
  nth_error (vis d) 7 = Some f -> is_bytes_fc f = true ->
  (forall bl, nth_error (vis d) 8 = Some bl -> slen d <> (9 + N.to_nat bl)%nat) ->
  exists e, parse_tcp_response d = Err e.
Proof.
  intros Hf Hb Hm. pose proof (is_bytes_fc_lt f Hb) as Hlt.
  rewrite (tcp_response_cases d f Hf) by lia.
  replace (128 <=? f) with false by lia. rewrite andb_false_r.
  unfold tcp_by_fc. rewrite Hb. apply bytecount_mismatch_tcp. exact Hm.
Qed.
Theorem bytecount_mismatch_rtu_dispatch d f :
  nth_error (vis d) 1 = Some f -> is_bytes_fc f = true ->
  (forall bl, nth_error (vis d) 2 = Some bl -> slen d <> (3 + N.to_nat bl + 2)%nat) ->
  exists e, parse_rtu_response d = Err e.
Proof.
  intros Hf Hb Hm. pose proof (is_bytes_fc_lt f Hb) as Hlt.
  destruct (slen d <? 4)%nat eqn:E4.
  - unfold parse_rtu_response. rewrite E4. eexists; reflexivity.
  - rewrite (rtu_response_cases d f); [|lia|exact Hf|lia].
    replace (128 <=? f) with false by lia. rewrite andb_false_r.
    unfold rtu_by_fc. rewrite Hb. apply bytecount_mismatch_rtu. exact Hm.
Qed.
Theorem bytecount_mismatch_rtu_crc_dispatch d f :
  nth_error (vis d) 1 = Some f -> is_bytes_fc f = true ->
  (forall bl, nth_error (vis d) 2 = Some bl -> slen d <> (3 + N.to_nat bl + 2)%nat) ->
  exists e, parse_rtu_response_crc d = Err e.
Proof.
  intros Hf Hb Hm. unfold parse_rtu_response_crc. destruct (slen d <? 4)%nat eqn:E4.
  - unfold crc_gate. rewrite E4. eexists; reflexivity.
  - rewrite crc_gate_cases by lia. destruct (le16 _ =? _); [|eexists; reflexivity].
    apply (bytecount_mismatch_rtu_dispatch d f Hf Hb Hm).
Qed.

(* the fixed-layout functions: TCP checks the frame against the MBAP length field (and a minimum
   of 12 bytes), RTU accepts exactly 8 bytes *)
Definition is_fixed_fc (fc : N) : bool := (fc =? 5) || (fc =? 6) || (fc =? 15) || (fc =? 16).
Theorem fixed_len_tcp f d r : is_fixed_fc f = true -> tcp_by_fc f d = Ok r ->
  (12 <= slen d)%nat /\ N.of_nat (slen d) = 6 + be16 (firstn 2 (skipn 4 (vis d))).
Proof.
  unfold is_fixed_fc, tcp_by_fc. intros Hfx H. destruct r as [tid p].
  replace (is_bytes_fc f) with false in H by (unfold is_bytes_fc; lia).
  destruct (f =? 5) eqn:E5; [|destruct (f =? 6) eqn:E6; [|replace (is_multi_fc f) with true in H by (unfold is_multi_fc; lia)]].
  - apply wcoil_tcp_inv in H. destruct H as (t0&t1&x2&x3&l0&l1&u&f'&a0&a1&v0&v1&rest&Hv&Hl&_&_).
    unfold slen. rewrite Hv. cbn [app length skipn firstn be16]. lia.
  - apply wreg_tcp_inv in H. destruct H as (t0&t1&x2&x3&l0&l1&u&f'&a0&a1&v0&v1&rest&Hv&Hl&_&_).
    unfold slen. rewrite Hv. cbn [app length skipn firstn be16]. lia.
  - apply wmulti_tcp_inv in H. destruct H as (t0&t1&x2&x3&l0&l1&u&f'&a0&a1&v0&v1&rest&Hv&Hl&_&_).
    unfold slen. rewrite Hv. cbn [app length skipn firstn be16]. lia.
Qed.
Theorem fixed_len_rtu f d p : is_fixed_fc f = true -> rtu_by_fc f d = Ok p -> slen d = 8%nat.
Proof.
  unfold is_fixed_fc, rtu_by_fc. intros Hfx H.
  replace (is_bytes_fc f) with false in H by (unfold is_bytes_fc; lia).
  destruct (f =? 5) eqn:E5; [|destruct (f =? 6) eqn:E6; [|replace (is_multi_fc f) with true in H by (unfold is_multi_fc; lia)]].
  - apply wcoil_rtu_inv in H. destruct H as (u&f'&a0&a1&v0&v1&c0&c1&Hv&_). unfold slen. rewrite Hv. reflexivity.
  - apply wreg_rtu_inv in H. destruct H as (u&f'&a0&a1&v0&v1&c0&c1&Hv&_). unfold slen. rewrite Hv. reflexivity.
  - apply wmulti_rtu_inv in H. destruct H as (u&f'&a0&a1&v0&v1&c0&c1&Hv&_). unfold slen. rewrite Hv. reflexivity.
Qed.

(* ====================================================================================== *)
(* 9. FC17: the specification's layout is rejected (D14)                                   *)
(* ====================================================================================== *)
(* every FC17 response laid out as MAP 6.13 prescribes (count covers id + run indicator +
   additional data) is refused: the library reads the count as the id length, so the status byte
   it looks for lies one past the end of the frame *)
Theorem fc17_spec_layout_rejected_tcp tid u id run add s :
  parse_tcp_response {| vis := adu_tcp tid u (rpdu (SPSrvId u id run add)); spare := s |} = Err EPlain.
Proof.
  rewrite (tcp_response_cases _ 17); [|reflexivity|lia].
  replace (128 <=? 17) with false by lia. rewrite andb_false_r.
  change (tcp_by_fc 17) with parse_srvid_resp_tcp. unfold parse_srvid_resp_tcp.
  unfold adu_tcp, rpdu, w16. cbn [app].
  destruct (slen _ <? 11)%nat eqn:E11; [reflexivity|].
  fstep. cbv zeta. rewrite Nat2N.id.
  destruct (N.of_nat _ =? 0); [reflexivity|].
  match goal with |- context [if ?c then _ else _] => replace c with true by lens end. reflexivity.
Qed.
Theorem fc17_spec_layout_rejected_rtu u id run add s :
  parse_rtu_response {| vis := adu_rtu u (rpdu (SPSrvId u id run add)); spare := s |} = Err EPlain.
Proof.
  rewrite (rtu_response_cases _ 17); [| |reflexivity|lia].
  2:{ unfold adu_rtu, rpdu, spec_trailer. lens. }
  replace (128 <=? 17) with false by lia. rewrite andb_false_r.
  change (rtu_by_fc 17) with parse_srvid_resp_rtu. unfold parse_srvid_resp_rtu.
  unfold adu_rtu, rpdu, spec_trailer. cbn [app].
  destruct (slen _ <? 7)%nat eqn:E11; [reflexivity|].
  fstep. cbv zeta. rewrite Nat2N.id.
  destruct (N.of_nat _ =? 0); [reflexivity|].
  match goal with |- context [if ?c then _ else _] => replace c with true by lens end. reflexivity.
Qed.
Theorem fc17_spec_layout_rejected_rtu_crc u id run add s :
  exists e, parse_rtu_response_crc {| vis := adu_rtu u (rpdu (SPSrvId u id run add)); spare := s |} = Err e.
Proof.
  unfold parse_rtu_response_crc. rewrite crc_gate_cases by (unfold adu_rtu, rpdu, spec_trailer; lens).
  destruct (le16 _ =? _); [|eexists; reflexivity].
  rewrite fc17_spec_layout_rejected_rtu. eexists; reflexivity.
Qed.

(* ====================================================================================== *)
(* 10. every encoder output is a well-formed frame in the sense of section 7               *)
(* ====================================================================================== *)
Lemma bytes_okb_of l : bytes_ok l -> bytes_okb l = true. Proof. apply bytes_okb_spec. Qed.

Lemma pdu_wfb_spec_pdu p : resp_wf p = true -> pdu_wfb (spec_pdu p) = true.
Proof.
  destruct p as [fc u bl data|u a st|u a d0 d1|fc u st c|u st id add]; intros H;
    cbn [resp_wf] in H; cbn [spec_pdu sresp_of rpdu]; try (split_wf H).
  - unfold is_bytes_fc in H. cbn [app pdu_wfb].
    replace (fc =? 5) with false by lia. replace (fc =? 6) with false by lia.
    replace (fc =? 15) with false by lia. replace (fc =? 16) with false by lia. reflexivity.
  - destruct st; reflexivity.
  - reflexivity.
  - unfold is_multi_fc in H. assert (Hc : fc = 15 \/ fc = 16) by lia. destruct Hc; subst fc; reflexivity.
  - reflexivity.
Qed.

Theorem encoded_frame_wf_tcp p tid : resp_wf p = true -> tid < 65536 ->
  frame_wf_tcp (resp_bytes_tcp tid p) = true.
Proof.
  intros H Ht. pose proof (resp_body_ok p H) as Hb. pose proof (spec_pdu_length p H) as Hl.
  unfold frame_wf_tcp, resp_bytes_tcp, resp_len16, mbap_bytes.
  rewrite resp_body_spec in * by exact H. cbn [length] in *.
  set (L := u16 (N.of_nat (S (length (spec_pdu p))))).
  assert (HL : L = N.of_nat (S (length (spec_pdu p)))) by (unfold L; apply u16_small; lia).
  apply andb_true_intro. split; [apply andb_true_intro; split|].
  - apply bytes_okb_of. apply bytes_ok_app. split; [|exact Hb].
    apply bytes_ok_app. split; [apply put16_ok; exact Ht|].
    apply bytes_ok_app. split; [repeat constructor; lia|apply put16_ok; lia].
  - unfold put16. cbn [app mbap_wfb length]. lia.
  - unfold put16. cbn [app skipn]. apply pdu_wfb_spec_pdu. exact H.
Qed.

Theorem encoded_frame_wf_rtu p : resp_wf p = true -> frame_wf_rtu (resp_bytes_rtu p) = true.
Proof.
  intros H. pose proof (resp_body_ok p H) as Hb.
  unfold frame_wf_rtu, resp_bytes_rtu, with_crc.
  apply andb_true_intro. split.
  - apply bytes_okb_of. apply bytes_ok_app. split; [exact Hb|apply crc_trailer_ok; exact Hb].
  - rewrite (firstn_drop_tail (resp_body p) (crc_trailer (resp_body p)) 2 eq_refl).
    rewrite resp_body_spec by exact H. cbn [skipn]. apply pdu_wfb_spec_pdu. exact H.
Qed.

(* FC17 in the layout the library documents: specified-by-the-library ADU, parse, re-encode *)
Theorem fc17_library_layout tid u st id add s :
  resp_wf (PSrvId u st id add) = true -> tid < 65536 ->
  resp_bytes_tcp tid (PSrvId u st id add) = adu_tcp tid u (rpdu_library_fc17 id st add) /\
  resp_bytes_rtu (PSrvId u st id add) = adu_rtu u (rpdu_library_fc17 id st add) /\
  parse_tcp_response {| vis := adu_tcp tid u (rpdu_library_fc17 id st add); spare := s |} = Ok (tid, PSrvId u st id add) /\
  parse_rtu_response {| vis := adu_rtu u (rpdu_library_fc17 id st add); spare := s |} = Ok (PSrvId u st id add) /\
  parse_rtu_response_crc {| vis := adu_rtu u (rpdu_library_fc17 id st add); spare := s |} = Ok (PSrvId u st id add).
Proof.
  intros H Ht.
  pose proof (resp_bytes_tcp_spec _ tid H) as E1. pose proof (resp_bytes_rtu_spec _ H) as E2.
  cbn [resp_unit spec_pdu] in E1, E2.
  split; [exact E1|]. split; [exact E2|]. rewrite <- E1, <- E2.
  split; [apply roundtrip_tcp; assumption|]. split; [apply roundtrip_rtu; assumption|apply roundtrip_rtu_crc; assumption].
Qed.

Lemma spec_pdu_not17 p : resp_fc p <> 17 -> spec_pdu p = rpdu (sresp_of p).
Proof. destruct p; intros H; try reflexivity. cbn [resp_fc] in H. congruence. Qed.

Theorem resp_bytes_tcp_spec9 p tid : resp_wf p = true -> resp_fc p <> 17 ->
  resp_bytes_tcp tid p = adu_tcp tid (resp_unit p) (rpdu (sresp_of p)).
Proof. intros H H17. rewrite <- spec_pdu_not17 by exact H17. apply resp_bytes_tcp_spec. exact H. Qed.
Theorem resp_bytes_rtu_spec9 p : resp_wf p = true -> resp_fc p <> 17 ->
  resp_bytes_rtu p = adu_rtu (resp_unit p) (rpdu (sresp_of p)).
Proof. intros H H17. rewrite <- spec_pdu_not17 by exact H17. apply resp_bytes_rtu_spec. exact H. Qed.

(* ====================================================================================== *)
(* 11. witnesses                                                                           *)
(* ====================================================================================== *)
(* the specification-layout FC17 frame with id "AB", run indicator FF is not decoded to its fields *)
Lemma fc17_spec_layout_refuted : exists tid u id run add,
  tid < 65536 /\ u < 256 /\ bytes_ok id /\ run < 256 /\ bytes_ok add /\ (1 <= length id)%nat /\
  parse_tcp_response (exact (adu_tcp tid u (rpdu (SPSrvId u id run add)))) <> Ok (tid, PSrvId u run id add).
Proof.
  exists 1, 1, [65; 66], 255, []. repeat split; try lia; try (repeat constructor; lia).
  vm_compute. discriminate.
Qed.

(* without the frame well-formedness of section 7 re-encoding need not reproduce the frame: a
   frame with protocol identifier 1 is accepted *)
Lemma reencode_unrestricted_refuted : exists d tid p,
  bytes_ok (vis d) /\ parse_tcp_response d = Ok (tid, p) /\ resp_bytes_tcp tid p <> vis d.
Proof.
  exists (exact [0;1; 0;1; 0;5; 1; 3; 2; 0xAB;0xCD]), 1, (PBytes 3 1 2 [0xAB;0xCD]).
  split; [repeat constructor; lia|]. split; [vm_compute; reflexivity|vm_compute; discriminate].
Qed.
