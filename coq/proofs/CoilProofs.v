(* CoilProofs.v -- proofs for C11: the coil lookup of FC1/FC2 responses ([is_bit_set], the model of
   packet.isBitSet to which IsCoilSet / IsInputSet and the builder's coil extraction delegate)
   against the bit layout of MAP 6.1/6.2/6.11 ([Spec.coil_at], [Spec.pack_coils]).

   Contents:
     1. the lookup, for every payload / start / address: the two error clauses and the exact value
        it returns -- coil i of the BYTE-REVERSED payload (defect D9);
     2. the specification-level read-back identity [coil_at (pack_coils coils) i = nth i coils];
        the write side ([coils_to_bytes] = [pack_coils]) is imported from EncodeProofs;
     3. write-multiple-coils -> conforming device -> read coils -> lookup: recovered unchanged for
        up to 8 coils, recovered through the byte-reversed view in general;
     4. the two refutations of the full statement. *)
From Coq Require Import ZifyBool ZifyN ZifyNat.
Require Import MB.GoSem MB.CrcModel MB.Spec MB.PacketModel MB.proofs.EncodeProofs.
Open Scope N_scope.
Ltac Zify.zify_post_hook ::= Z.div_mod_to_equations.

(* ====================================================================================== *)
(* 1. the lookup                                                                           *)
(* ====================================================================================== *)

(* bit - start evaluated in uint16 is the true difference whenever start <= bit *)
Lemma sub16_exact bit start : start <= bit -> bit < 65536 -> sub16 bit start = bit - start.
Proof. unfold sub16, u16. intros. lia. Qed.

(* addresses before the start address are refused (every payload, every start) *)
Lemma is_bit_set_before data start a : a < start -> is_bit_set data start a = None.
Proof. intros H. unfold is_bit_set. replace (a <? start) with true by lia. reflexivity. Qed.

(* addresses at or beyond start + 8*|payload| are refused *)
Lemma is_bit_set_beyond data start a :
  a < 65536 -> start <= a -> start + 8 * N.of_nat (length data) <= a ->
  is_bit_set data start a = None.
Proof.
  intros Ha Hs Hb. unfold is_bit_set. rewrite sub16_exact by lia.
  replace (a <? start) with false by lia.
  replace (N.of_nat (length data) * 8 <=? a - start) with true by lia. reflexivity.
Qed.

(* inside the window the lookup returns coil i of the byte-reversed payload *)
Lemma is_bit_set_reversed data start i :
  start + i < 65536 -> i < 8 * N.of_nat (length data) ->
  is_bit_set data start (start + i) = Some (coil_at (rev data) i).
Proof.
  intros Hs Hi. unfold is_bit_set, coil_at. rewrite sub16_exact by lia.
  replace (start + i - start) with i by lia.
  replace (start + i <? start) with false by lia.
  replace (N.of_nat (length data) * 8 <=? i) with false by lia.
  f_equal. f_equal.
  assert (Hlt : (N.to_nat (i / 8) < length data)%nat) by lia.
  rewrite rev_nth by exact Hlt. f_equal. lia.
Qed.

(* the complete behaviour of the lookup on uint16 arguments in one equation *)
Lemma is_bit_set_total data start a : start < 65536 -> a < 65536 ->
  is_bit_set data start a =
    if (a <? start) || (start + 8 * N.of_nat (length data) <=? a) then None
    else Some (coil_at (rev data) (a - start)).
Proof.
  intros Hs Ha. destruct (a <? start) eqn:E1; cbn [orb].
  - apply is_bit_set_before. lia.
  - destruct (start + 8 * N.of_nat (length data) <=? a) eqn:E2.
    + apply is_bit_set_beyond; lia.
    + replace a with (start + (a - start)) at 1 by lia. apply is_bit_set_reversed; lia.
Qed.

(* a successful lookup never comes from outside the window *)
Lemma is_bit_set_some data start a b : start < 65536 -> a < 65536 ->
  is_bit_set data start a = Some b -> start <= a < start + 8 * N.of_nat (length data).
Proof.
  intros Hs Ha H. rewrite is_bit_set_total in H by assumption.
  destruct ((a <? start) || (start + 8 * N.of_nat (length data) <=? a)) eqn:E; [discriminate|lia].
Qed.

(* the property's statement holds for payloads of one byte (up to 8 coils) ... *)
Lemma is_bit_set_one_byte b start i : start + i < 65536 -> i < 8 ->
  is_bit_set [b] start (start + i) = Some (coil_at [b] i).
Proof. intros Hs Hi. rewrite is_bit_set_reversed; [reflexivity|exact Hs|cbn [length]; lia]. Qed.

(* ... and more generally wherever reversing the payload changes nothing *)
Lemma is_bit_set_palindrome data start i : rev data = data ->
  start + i < 65536 -> i < 8 * N.of_nat (length data) ->
  is_bit_set data start (start + i) = Some (coil_at data i).
Proof. intros Hr Hs Hi. rewrite is_bit_set_reversed by assumption. rewrite Hr. reflexivity. Qed.

(* ... and false in general: payload 01 00, coil 0 *)
Lemma is_bit_set_byte_order_refuted : exists payload start i,
  i < 8 * N.of_nat (length payload) /\ start + i < 65536 /\
  is_bit_set payload start (start + i) <> Some (coil_at payload i).
Proof. exists [1; 0], 0, 0. split; [|split]; [reflexivity|reflexivity|vm_compute; discriminate]. Qed.

(* ====================================================================================== *)
(* 2. specification level: reading a packed pattern                                        *)
(* ====================================================================================== *)

(* MAP 6.1 read of MAP 6.11 packing: coil i of [pack_coils coils] is [coils[i]] (for every i; both
   sides are false beyond the pattern) *)
Lemma coil_at_pack_coils coils i : coil_at (pack_coils coils) i = nth (N.to_nat i) coils false.
Proof.
  unfold coil_at.
  destruct (Nat.lt_ge_cases (N.to_nat (i / 8)) (coil_bytes (length coils))) as [Hk|Hk].
  - rewrite nth_pack_coils by exact Hk. rewrite byte_of_bits_bit, nth_firstn_skipn.
    replace (N.to_nat (i mod 8) <? 8)%nat with true by lia.
    f_equal. lia.
  - rewrite nth_overflow by (rewrite pack_coils_length; exact Hk). rewrite N.bits_0.
    symmetry. apply nth_overflow. unfold coil_bytes in Hk. lia.
Qed.

Lemma coil_at_pack_coils_in coils i : i < N.of_nat (length coils) ->
  coil_at (pack_coils coils) i = nth (N.to_nat i) coils false.
Proof. intros _. apply coil_at_pack_coils. Qed.

(* a device that decodes the request data by the specification's layout stores the pattern *)
Lemma map_nth_seq {A} (l : list A) (d : A) : map (fun i => nth i l d) (seq 0 (length l)) = l.
Proof.
  apply (nth_ext _ _ d d).
  - rewrite map_length, seq_length. reflexivity.
  - intros n Hn. rewrite map_length, seq_length in Hn.
    rewrite (nth_indep _ d (nth 0 l d)) by (rewrite map_length, seq_length; exact Hn).
    rewrite (map_nth (fun i => nth i l d)). rewrite seq_nth by exact Hn. reflexivity.
Qed.

Definition device_store (data : list N) (n : nat) : list bool :=
  map (fun i => coil_at data (N.of_nat i)) (seq 0 n).

Lemma device_store_pack coils : device_store (pack_coils coils) (length coils) = coils.
Proof.
  unfold device_store.
  transitivity (map (fun i => nth i coils false) (seq 0 (length coils))); [|apply map_nth_seq].
  apply map_ext. intros i. rewrite coil_at_pack_coils, Nat2N.id. reflexivity.
Qed.

Lemma device_store_library coils : device_store (coils_to_bytes coils) (length coils) = coils.
Proof. rewrite coils_to_bytes_is_pack_coils. apply device_store_pack. Qed.

(* ====================================================================================== *)
(* 3. write-multiple-coils, conforming device, read coils, lookup                          *)
(* ====================================================================================== *)

(* The library builds the FC15 request for [coils] at [start]; the device stores the request data
   by the specification's layout and answers a read of the same window with the specification's
   packing; the library looks every coil up in that payload.  None = the constructor refused. *)
Definition readback (start : N) (coils : list bool) : option (list (option bool)) :=
  match new_wcoils 1 start coils with
  | Ok (RWCoils _ _ _ data) =>
      let mem := device_store data (length coils) in
      let payload := pack_coils mem in
      Some (map (fun i => is_bit_set payload start (start + N.of_nat i)) (seq 0 (length coils)))
  | _ => None
  end.

Lemma readback_eq start coils : (1 <= length coils <= 1968)%nat ->
  readback start coils =
  Some (map (fun i => is_bit_set (pack_coils coils) start (start + N.of_nat i)) (seq 0 (length coils))).
Proof.
  intros H. unfold readback, new_wcoils.
  replace ((length coils =? 0)%nat || (1968 <? length coils)%nat) with false by lia.
  cbv zeta. rewrite device_store_library. reflexivity.
Qed.

Lemma pack_coils_bits coils : (length coils <= 8 * length (pack_coils coils))%nat.
Proof. rewrite pack_coils_length. unfold coil_bytes. lia. Qed.

(* in general the pattern comes back through the byte-reversed view of the reply *)
Lemma readback_reversed start coils : (1 <= length coils <= 1968)%nat ->
  start + N.of_nat (length coils) <= 65536 ->
  readback start coils =
  Some (map (fun i => Some (coil_at (rev (pack_coils coils)) (N.of_nat i))) (seq 0 (length coils))).
Proof.
  intros Hl Hs. rewrite readback_eq by exact Hl. f_equal. apply map_ext_in. intros i Hi.
  apply in_seq in Hi. pose proof (pack_coils_bits coils) as Hb.
  apply is_bit_set_reversed; lia.
Qed.

(* up to 8 coils (one payload byte) the pattern is recovered unchanged *)
Lemma readback_le8 start coils : (1 <= length coils <= 8)%nat ->
  start + N.of_nat (length coils) <= 65536 ->
  readback start coils = Some (map Some coils).
Proof.
  intros Hl Hs. rewrite readback_reversed by lia. f_equal.
  assert (L1 : length (pack_coils coils) = 1%nat) by (rewrite pack_coils_length; unfold coil_bytes; lia).
  assert (Hr : rev (pack_coils coils) = pack_coils coils).
  { destruct (pack_coils coils) as [|b [|c r]]; try discriminate L1. reflexivity. }
  rewrite Hr.
  transitivity (map Some (map (fun i => nth i coils false) (seq 0 (length coils)))); [|rewrite map_nth_seq; reflexivity].
  rewrite map_map. apply map_ext. intros i. rewrite coil_at_pack_coils, Nat2N.id. reflexivity.
Qed.

(* with 9 coils it is not: coil 0 set, the others clear, reads back as coil 8 set *)
Lemma readback_refuted : exists start coils,
  length coils = 9%nat /\ start + N.of_nat (length coils) <= 65536 /\
  readback start coils <> Some (map Some coils).
Proof.
  exists 0, [true; false; false; false; false; false; false; false; false].
  split; [reflexivity|split; [vm_compute; discriminate|vm_compute; discriminate]].
Qed.
