(* CrcFrameProofs.v -- proofs for the frame-level parts of C03:
     (b) every RTU encoder of the model emits  body ++ CRC(body), low byte first;
     (c) the CRC-verifying entry points refuse a frame iff its last two bytes differ from the CRC
         of the rest, and otherwise behave exactly like the non-verifying entry point;
         AsRTUErrorPacketWithCRC recognises only CRC-correct 5-byte frames. *)
From Coq Require Import ZifyBool ZifyN ZifyNat.
Require Import MB.GoSem MB.CrcModel MB.CrcSpec MB.Spec MB.PacketModel MB.proofs.CrcProofs.
Open Scope N_scope.
Ltac Zify.zify_post_hook ::= Z.div_mod_to_equations.

(* ====================================================================================== *)
(* (b) encoders                                                                            *)
(* ====================================================================================== *)

Lemma with_crc_spec body : bytes_ok body -> with_crc body = body ++ spec_trailer body.
Proof. intros H. unfold with_crc. rewrite (trailer_is_spec _ H). reflexivity. Qed.

(* "ends in the CRC of the preceding bytes", on the frame itself *)
Definition ends_in_crc (f : list N) : Prop :=
  (2 <= length f)%nat /\
  skipn (length f - 2) f = spec_trailer (firstn (length f - 2) f).

Lemma ends_in_crc_app body : ends_in_crc (body ++ spec_trailer body).
Proof.
  unfold ends_in_crc. rewrite app_length. cbn [length spec_trailer].
  replace (length body + 2 - 2)%nat with (length body + 0)%nat by lia.
  split; [lia|].
  rewrite skipn_app, firstn_app. rewrite skipn_all2 by lia.
  replace (length body + 0 - length body)%nat with 0%nat by lia.
  rewrite firstn_O, app_nil_r, Nat.add_0_r, firstn_all. reflexivity.
Qed.

(* field-wise well-formedness of packets: the Go types uint8 / uint16 / []byte *)
Definition req_fields_ok (r : req) : Prop :=
  match r with
  | RRead fc u s q => fc < 256 /\ u < 256 /\ s < 65536 /\ q < 65536
  | RWCoil u a _ => u < 256 /\ a < 65536
  | RWReg u a d0 d1 => u < 256 /\ a < 65536 /\ d0 < 256 /\ d1 < 256
  | RWCoils u s c data => u < 256 /\ s < 65536 /\ c < 65536 /\ bytes_ok data
  | RWRegs u s c data => u < 256 /\ s < 65536 /\ c < 65536 /\ bytes_ok data
  | RSrvId u => u < 256
  | RRW u rs rq ws wq data =>
      u < 256 /\ rs < 65536 /\ rq < 65536 /\ ws < 65536 /\ wq < 65536 /\ bytes_ok data
  end.

Definition resp_fields_ok (p : resp) : Prop :=
  match p with
  | PBytes fc u blen data => fc < 256 /\ u < 256 /\ blen < 256 /\ bytes_ok data
  | PWCoil u a _ => u < 256 /\ a < 65536
  | PWReg u a d0 d1 => u < 256 /\ a < 65536 /\ d0 < 256 /\ d1 < 256
  | PWMulti fc u s c => fc < 256 /\ u < 256 /\ s < 65536 /\ c < 65536
  | PSrvId u st id add => u < 256 /\ st < 256 /\ bytes_ok id /\ bytes_ok add
  end.

Lemma repeat0_ok n : bytes_ok (repeat 0 n).
Proof. induction n as [|n IH]; cbn [repeat]; [constructor|apply bytes_ok_cons; split; [lia|exact IH]]. Qed.

Ltac ok_bytes :=
  unfold put16, u8;
  repeat first
    [ apply bytes_ok_nil
    | assumption
    | apply bytes_ok_firstn
    | apply repeat0_ok
    | apply bytes_ok_cons; split; [try lia|]
    | apply bytes_ok_app; split ].

Lemma req_body_ok r : req_fields_ok r -> bytes_ok (req_body r).
Proof.
  destruct r; cbn [req_fields_ok req_body app]; intros H; try (destruct state);
    repeat match goal with H : _ /\ _ |- _ => destruct H end; ok_bytes.
Qed.

Lemma resp_body_ok p : resp_fields_ok p -> bytes_ok (resp_body p).
Proof.
  destruct p; cbn [resp_fields_ok resp_body app]; intros H; try (destruct state);
    repeat match goal with H : _ /\ _ |- _ => destruct H end; try (destruct (is_coil_fc fc)); ok_bytes.
Qed.

Lemma exc_body_ok u f c : u < 256 -> c < 256 -> bytes_ok [u; add8 f 128; c].
Proof. intros Hu Hc. unfold add8. ok_bytes. Qed.

(* the three RTU encoders: body, then the CRC of the body, low byte first *)
Theorem req_rtu_crc r :
  req_bytes_rtu r = req_body r ++ [crc16 (req_body r) mod 256; (crc16 (req_body r) / 256) mod 256].
Proof. reflexivity. Qed.
Theorem resp_rtu_crc p :
  resp_bytes_rtu p = resp_body p ++ [crc16 (resp_body p) mod 256; (crc16 (resp_body p) / 256) mod 256].
Proof. reflexivity. Qed.
Theorem exc_rtu_crc u f c :
  exc_bytes_rtu u f c =
    [u; add8 f 128; c] ++ [crc16 [u; add8 f 128; c] mod 256; (crc16 [u; add8 f 128; c] / 256) mod 256].
Proof. reflexivity. Qed.

(* ... which is the trailer of the serial-line specification *)
Theorem req_rtu_spec_crc r : req_fields_ok r ->
  req_bytes_rtu r = req_body r ++ spec_trailer (req_body r) /\ ends_in_crc (req_bytes_rtu r).
Proof.
  intros H. assert (E : req_bytes_rtu r = req_body r ++ spec_trailer (req_body r)).
  { apply with_crc_spec, req_body_ok, H. }
  split; [exact E|]. rewrite E. apply ends_in_crc_app.
Qed.
Theorem resp_rtu_spec_crc p : resp_fields_ok p ->
  resp_bytes_rtu p = resp_body p ++ spec_trailer (resp_body p) /\ ends_in_crc (resp_bytes_rtu p).
Proof.
  intros H. assert (E : resp_bytes_rtu p = resp_body p ++ spec_trailer (resp_body p)).
  { apply with_crc_spec, resp_body_ok, H. }
  split; [exact E|]. rewrite E. apply ends_in_crc_app.
Qed.
Theorem exc_rtu_spec_crc u f c : u < 256 -> c < 256 ->
  exc_bytes_rtu u f c = [u; add8 f 128; c] ++ spec_trailer [u; add8 f 128; c] /\
  ends_in_crc (exc_bytes_rtu u f c).
Proof.
  intros Hu Hc.
  assert (E : exc_bytes_rtu u f c = [u; add8 f 128; c] ++ spec_trailer [u; add8 f 128; c]).
  { apply with_crc_spec, exc_body_ok; assumption. }
  split; [exact E|]. rewrite E. apply ends_in_crc_app.
Qed.
(* for f < 128 the exception function byte is the specification's fc + 128 *)
Theorem exc_rtu_is_spec u f c : u < 256 -> f < 128 -> c < 256 ->
  exc_bytes_rtu u f c = exception_adu_rtu u f c.
Proof.
  intros Hu Hf Hc. unfold exception_adu_rtu, adu_rtu, exception_pdu.
  destruct (exc_rtu_spec_crc u f c Hu Hc) as [E _]. rewrite E.
  replace (add8 f 128) with (f + 128) by (unfold add8, u8; lia). reflexivity.
Qed.

(* ====================================================================================== *)
(* (c) the CRC gate                                                                        *)
(* ====================================================================================== *)

(* the last two bytes / everything before them *)
Definition frame_trailer (d : slice) : list N := skipn (slen d - 2) (vis d).
Definition frame_front (d : slice) : list N := firstn (slen d - 2) (vis d).

Lemma le16_trailer t body : bytes_ok t -> length t = 2%nat -> bytes_ok body ->
  (le16 t =? crc16 body) = true <-> t = crc_trailer body.
Proof.
  intros Ht Hl Hb. pose proof (crc16_lt body Hb) as Hc.
  destruct t as [|a [|b [|x t]]]; try discriminate Hl.
  apply bytes_ok_cons in Ht. destruct Ht as [Ha Ht]. apply bytes_ok_cons in Ht. destruct Ht as [Hb' _].
  unfold crc_trailer, crc_lo, crc_hi, le16. split.
  - intros H. apply N.eqb_eq in H. f_equal; [lia|f_equal; lia].
  - intros H. apply N.eqb_eq. injection H as H1 H2. lia.
Qed.

Lemma crc_gate_cases {A} (d : slice) (k : slice -> pres A) :
  bytes_ok (vis d) -> (4 <= slen d)%nat ->
  (frame_trailer d = crc_trailer (frame_front d) -> crc_gate d k = k d) /\
  (frame_trailer d <> crc_trailer (frame_front d) -> crc_gate d k = Err EInvalidCRC).
Proof.
  intros Hok Hlen. unfold crc_gate, frame_trailer, frame_front.
  replace (slen d <? 4)%nat with false by lia.
  rewrite (@sub_in perr d (slen d - 2) (slen d)) by lia. cbn [bind].
  rewrite (@sub_in perr d 0 (slen d - 2)) by lia. cbn [bind skipn].
  rewrite Nat.sub_0_r.
  assert (L2 : length (skipn (slen d - 2) (vis d)) = 2%nat) by (rewrite skipn_length; unfold slen in *; lia).
  replace (slen d - (slen d - 2))%nat with 2%nat by lia.
  rewrite (firstn_all2 (n := 2)) by lia.
  pose proof (le16_trailer (skipn (slen d - 2) (vis d)) (firstn (slen d - 2) (vis d))
                (bytes_ok_skipn _ _ Hok) L2 (bytes_ok_firstn _ _ Hok)) as Hiff.
  destruct (le16 (skipn (slen d - 2) (vis d)) =? crc16 (firstn (slen d - 2) (vis d))) eqn:E; cbn [negb].
  - split; [reflexivity|]. intros Hne. exfalso. apply Hne. apply Hiff. reflexivity.
  - split; [|reflexivity]. intros He. apply Hiff in He. discriminate He.
Qed.

(* shorter than 4 bytes: refused with a plain error, never InvalidCRC, never a panic *)
Lemma crc_gate_short {A} (d : slice) (k : slice -> pres A) :
  (slen d < 4)%nat -> crc_gate d k = Err EPlain.
Proof. intros H. unfold crc_gate. replace (slen d <? 4)%nat with true by lia. reflexivity. Qed.

(* the non-verifying dispatchers never report InvalidCRC themselves *)
Lemma idx_cases {E} d i : (exists b, @idx E d i = Ok b) \/ @idx E d i = Panic.
Proof. unfold idx. destruct (nth_error (vis d) i); [left; eexists; reflexivity|right; reflexivity]. Qed.
Lemma sub_cases {E} d i j : (exists l, @sub E d i j = Ok l) \/ @sub E d i j = Panic.
Proof. unfold sub. destruct (_ && _); [left; eexists; reflexivity|right; reflexivity]. Qed.
Lemma from_cases {E} d i : (exists l, @from E d i = Ok l) \/ @from E d i = Panic.
Proof. unfold from. destruct (_ <=? _)%nat; [left; eexists; reflexivity|right; reflexivity]. Qed.

Ltac blind_step :=
  match goal with
  | |- bind (@idx ?E ?d ?i) _ <> _ =>
      let b := fresh "b" in let Hb := fresh "Hb" in
      destruct (@idx_cases E d i) as [[b Hb]|Hb]; rewrite Hb; cbn [bind]; try discriminate
  | |- bind (@sub ?E ?d ?i ?j) _ <> _ =>
      let b := fresh "l" in let Hb := fresh "Hb" in
      destruct (@sub_cases E d i j) as [[b Hb]|Hb]; rewrite Hb; cbn [bind]; try discriminate
  | |- bind (@from ?E ?d ?i) _ <> _ =>
      let b := fresh "l" in let Hb := fresh "Hb" in
      destruct (@from_cases E d i) as [[b Hb]|Hb]; rewrite Hb; cbn [bind]; try discriminate
  | |- bind (if ?c then _ else _) _ <> _ => destruct c; cbn [bind]; try discriminate
  | |- bind (Ok _) _ <> _ => cbn [bind]
  | |- (if ?c then _ else _) <> _ => destruct c; try discriminate
  | |- (match ?x with _ => _ end) <> _ => destruct x; try discriminate
  end.

Lemma parse_rtu_request_not_crc d : parse_rtu_request d <> Err EInvalidCRC.
Proof.
  unfold parse_rtu_request, parse_read_req_rtu, parse_wcoil_req_rtu, parse_wreg_req_rtu,
    parse_wcoils_req_rtu, parse_wregs_req_rtu, parse_srvid_req_rtu, parse_rw_req_rtu, new_err_rtu.
  repeat blind_step.
Qed.

Lemma as_rtu_error_not_err d e : as_rtu_error d <> Err e.
Proof. unfold as_rtu_error. repeat blind_step. Qed.

Lemma parse_rtu_response_not_crc d : parse_rtu_response d <> Err EInvalidCRC.
Proof.
  unfold parse_rtu_response, parse_bytes_resp_rtu, parse_wcoil_resp_rtu, parse_wreg_resp_rtu,
    parse_wmulti_resp_rtu, parse_srvid_resp_rtu, fixed_resp_guard_rtu.
  destruct (slen d <? 4)%nat; [discriminate|].
  destruct (as_rtu_error d) as [o|e|] eqn:Ea; cbn [bind];
    [|exfalso; exact (as_rtu_error_not_err d e Ea)|discriminate].
  repeat blind_step.
Qed.

Theorem request_crc_enforced d :
  bytes_ok (vis d) -> (4 <= slen d)%nat ->
  (parse_rtu_request_crc d = Err EInvalidCRC <-> frame_trailer d <> crc_trailer (frame_front d)) /\
  (frame_trailer d = crc_trailer (frame_front d) -> parse_rtu_request_crc d = parse_rtu_request d).
Proof.
  intros Hok Hlen. unfold parse_rtu_request_crc.
  destruct (crc_gate_cases d parse_rtu_request Hok Hlen) as [Heq Hne].
  split; [|exact Heq]. split; [|exact Hne].
  intros H He. rewrite (Heq He) in H. exact (parse_rtu_request_not_crc d H).
Qed.

Theorem response_crc_enforced d :
  bytes_ok (vis d) -> (4 <= slen d)%nat ->
  (parse_rtu_response_crc d = Err EInvalidCRC <-> frame_trailer d <> crc_trailer (frame_front d)) /\
  (frame_trailer d = crc_trailer (frame_front d) -> parse_rtu_response_crc d = parse_rtu_response d).
Proof.
  intros Hok Hlen. unfold parse_rtu_response_crc.
  destruct (crc_gate_cases d parse_rtu_response Hok Hlen) as [Heq Hne].
  split; [|exact Heq]. split; [|exact Hne].
  intros H He. rewrite (Heq He) in H. exact (parse_rtu_response_not_crc d H).
Qed.

(* the same in terms of the specification's trailer *)
Lemma crc_trailer_front_spec d : bytes_ok (vis d) -> crc_trailer (frame_front d) = spec_trailer (frame_front d).
Proof. intros H. apply trailer_is_spec. unfold frame_front. apply bytes_ok_firstn, H. Qed.

Theorem request_crc_enforced_spec d :
  bytes_ok (vis d) -> (4 <= slen d)%nat ->
  (parse_rtu_request_crc d = Err EInvalidCRC <-> frame_trailer d <> spec_trailer (frame_front d)) /\
  (frame_trailer d = spec_trailer (frame_front d) -> parse_rtu_request_crc d = parse_rtu_request d).
Proof. intros Hok Hlen. rewrite <- (crc_trailer_front_spec d Hok). exact (request_crc_enforced d Hok Hlen). Qed.

Theorem response_crc_enforced_spec d :
  bytes_ok (vis d) -> (4 <= slen d)%nat ->
  (parse_rtu_response_crc d = Err EInvalidCRC <-> frame_trailer d <> spec_trailer (frame_front d)) /\
  (frame_trailer d = spec_trailer (frame_front d) -> parse_rtu_response_crc d = parse_rtu_response d).
Proof. intros Hok Hlen. rewrite <- (crc_trailer_front_spec d Hok). exact (response_crc_enforced d Hok Hlen). Qed.

(* short frames *)
Theorem crc_entry_points_short d : (slen d < 4)%nat ->
  parse_rtu_request_crc d = Err EPlain /\ parse_rtu_response_crc d = Err EPlain.
Proof. intros H. split; apply crc_gate_short; exact H. Qed.

(* AsRTUErrorPacketWithCRC *)
Theorem as_rtu_error_crc_cases d :
  bytes_ok (vis d) ->
  (slen d <> 5%nat -> as_rtu_error_crc d = Ok None) /\
  (slen d = 5%nat -> frame_trailer d <> crc_trailer (frame_front d) -> as_rtu_error_crc d = Ok None) /\
  (slen d = 5%nat -> frame_trailer d = crc_trailer (frame_front d) -> as_rtu_error_crc d = as_rtu_error d).
Proof.
  intros Hok. unfold frame_trailer, frame_front.
  split; [intros H; unfold as_rtu_error_crc; replace (slen d =? 5)%nat with false by lia; reflexivity|].
  assert (G : slen d = 5%nat ->
    (skipn 3 (vis d) <> crc_trailer (firstn 3 (vis d)) -> as_rtu_error_crc d = Ok None) /\
    (skipn 3 (vis d) = crc_trailer (firstn 3 (vis d)) -> as_rtu_error_crc d = as_rtu_error d)).
  { intros H5. unfold as_rtu_error_crc. rewrite H5. cbn [Nat.eqb negb].
    rewrite (@sub_in perr d 3 5) by lia. cbn [bind].
    rewrite (@sub_in perr d 0 3) by lia. cbn [bind Nat.sub]. change (skipn 0 (vis d)) with (vis d).
    assert (L2 : length (skipn 3 (vis d)) = 2%nat) by (rewrite skipn_length; unfold slen in *; lia).
    rewrite (firstn_all2 (n := 2)) by lia.
    pose proof (le16_trailer (skipn 3 (vis d)) (firstn 3 (vis d))
                  (bytes_ok_skipn _ _ Hok) L2 (bytes_ok_firstn _ _ Hok)) as Hiff.
    destruct (le16 (skipn 3 (vis d)) =? crc16 (firstn 3 (vis d))) eqn:E; cbn [negb].
    - split; [|reflexivity]. intros Hne. exfalso. apply Hne. apply Hiff. reflexivity.
    - split; [reflexivity|]. intros He. apply Hiff in He. discriminate He. }
  split; intros H5; rewrite H5; cbn [Nat.sub]; [exact (proj1 (G H5))|exact (proj2 (G H5))].
Qed.

(* it recognises only CRC-correct 5-byte frames, and then exactly what AsRTUErrorPacket sees *)
Theorem as_rtu_error_crc_sound d x :
  bytes_ok (vis d) -> as_rtu_error_crc d = Ok (Some x) ->
  slen d = 5%nat /\ frame_trailer d = crc_trailer (frame_front d) /\ as_rtu_error d = Ok (Some x).
Proof.
  intros Hok H. destruct (as_rtu_error_crc_cases d Hok) as [A [B C]].
  destruct (Nat.eq_dec (slen d) 5) as [H5|H5]; [|rewrite (A H5) in H; discriminate H].
  split; [exact H5|].
  assert (Dec : frame_trailer d = crc_trailer (frame_front d) \/ frame_trailer d <> crc_trailer (frame_front d)).
  { destruct (list_eqb (frame_trailer d) (crc_trailer (frame_front d))) eqn:E.
    - left. apply list_eqb_eq. exact E.
    - right. intros He. apply list_eqb_eq in He. rewrite He in E. discriminate E. }
  destruct Dec as [He|Hne]; [|rewrite (B H5 Hne) in H; discriminate H].
  split; [exact He|]. rewrite <- (C H5 He). exact H.
Qed.

Theorem as_rtu_error_crc_no_panic d : bytes_ok (vis d) -> as_rtu_error_crc d <> Panic.
Proof.
  intros Hok. unfold as_rtu_error_crc.
  destruct (negb (slen d =? 5)%nat) eqn:E; [discriminate|].
  assert (H5 : slen d = 5%nat) by lia.
  rewrite (@sub_in perr d 3 5) by lia. cbn [bind].
  rewrite (@sub_in perr d 0 3) by lia. cbn [bind].
  match goal with |- (if ?c then _ else _) <> _ => destruct c end; [discriminate|].
  unfold as_rtu_error. rewrite H5. cbn [Nat.eqb negb].
  repeat go_step; discriminate.
Qed.
