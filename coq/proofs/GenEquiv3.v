(* GenEquiv3.v -- the definitions that /verif/gotrans regenerates from /repo/packet/registers.go
   (gen/RegistersGen.v) equal the hand-written model coq/RegistersModel.v, for every Registers value
   (any byte order field, start / end address, any payload slice with any spare capacity) and every
   argument in the range of its Go type (address < 65536, length < 256).  Errors are compared as
   "an error" ([plain]: the generated code has one value for errors.New).  The signed accessors
   agree with the model's [to_signed] when the payload consists of bytes ([bytes_slice]).

   Leaf functions (register, doubleRegister, quadRegister, NewRegisters) are compared by symbolic
   execution of both sides ([reg_body]: index arithmetic of the Go int side pushed to nat, equal
   reads identified, case split on every read outcome); callers rewrite their callee to the model
   first.  The two loops of StringWithByteOrder are related to the model's [swap_loop] and
   [build_string] by induction ([swap_mfold], [str_build]). *)
From Coq Require Import ZifyBool ZifyN ZifyNat.
Require Import MB.GoSem MB.CrcModel MB.PacketModel MB.RegistersSpec MB.RegistersModel.
Require Import MB.GenPrelude MB.GenPrelude2 MB.GenPrelude3 MB.gen.PacketGen MB.gen.RegistersGen.
Require Import MB.proofs.GenEquiv.
Open Scope N_scope.
Ltac Zify.zify_post_hook ::= Z.to_euclidean_division_equations.


Lemma plain_bind {A B} (x : rres A) (k : A -> rres B) :
  plain (bind x k) = bind (plain x) (fun a => plain (k a)).
Proof. destruct x; reflexivity. Qed.
Lemma plain_if {A} (c : bool) (a b : rres A) : plain (if c then a else b) = if c then plain a else plain b.
Proof. destruct c; reflexivity. Qed.
Lemma plain_sub d i j : plain (sub d i j) = sub d i j.
Proof. unfold plain, sub. destruct (_ && _); reflexivity. Qed.
Lemma plain_idx d i : plain (idx d i) = idx d i.
Proof. unfold plain, idx. destruct (nth_error _ _); reflexivity. Qed.
Lemma plain_lidx b i : plain (lidx b i) = lidx b i.
Proof. unfold plain, lidx. destruct (nth_error _ _); reflexivity. Qed.
Lemma plain_ok {A} (x : A) : plain (Ok x) = Ok x. Proof. reflexivity. Qed.
Lemma plain_err {A} e : @plain A (Err e) = Err EPlain. Proof. reflexivity. Qed.
Lemma lget_lidx {E} (b : list N) i : (0 <= i)%Z -> @lget E N b i = lidx b (Z.to_nat i).
Proof. intros H. unfold lget, lidx. replace (i <? 0)%Z with false by lia. reflexivity. Qed.

Ltac push_plain :=
  repeat first [ rewrite plain_bind | rewrite plain_if | rewrite plain_sub | rewrite plain_idx
               | rewrite plain_lidx | rewrite plain_ok | rewrite plain_err ].

Ltac rstep :=
  match goal with
  | |- context [@zidx ?E ?s ?i] => rewrite (@zidx_nat E s i) by lia; lit_nat
  | |- context [@zsub ?E ?s ?i ?j] => rewrite (@zsub_nat E s i j) by lia; lit_nat
  | |- context [@lget ?E N ?b ?i] => rewrite (@lget_lidx E b i) by lia; lit_nat
  | |- context [if ?c then _ else _] => decide_if c; cbn [bind]
  end.
Ltac reg_close :=
  first [ reflexivity | lia
        | progress (unfold add32, sub32, u32, u64, u32_of_Z, u64_of_Z, add16, sub16, u16, add8, sub8, u8); lia
        | progress f_equal; reg_close ].
Ltac rleaf := cbn [bind]; first [ reflexivity | exfalso; lia | same_bytes; reg_close ].
Lemma bind_ok_r {E A} (x : res E A) : bind x (fun a => Ok a) = x.
Proof. destruct x; reflexivity. Qed.
Ltac reg_body :=
  cbv zeta; push_plain; unfold zlen, add32, u32_of_Z, u32; rewrite ?bind_ok_r;
  repeat rstep; rewrite ?bind_ok_r; push_plain; rleaf.

Lemma NewRegisters_eq d s : g_NewRegisters d s = plain (new_registers d s).
Proof. unfold g_NewRegisters, new_registers. reg_body. Qed.

Lemma WithByteOrder_eq bo st en d b : g_Registers_WithByteOrder bo st en d b = with_byte_order (mk bo st en d) b.
Proof. reflexivity. Qed.

Lemma register_eq bo st en d a : a < 65536 ->
  g_Registers_register bo st en d a = plain (register (mk bo st en d) a).
Proof. intros. unfold g_Registers_register, register, mk. cbn [r_order r_start r_end r_data]. reg_body. Qed.

(* ---------- encoding/binary on lists: the model's functions at the error type of the generated code ---------- *)
Lemma plain_le16 b : plain (bin_le16 b) = zle16 b.
Proof. destruct b as [|x [|y t]]; reflexivity. Qed.
Lemma plain_be16 b : plain (bin_be16 b) = zbe16 b.
Proof. destruct b as [|x [|y t]]; reflexivity. Qed.
Lemma plain_le32 b : plain (bin_le32 b) = zle32 b.
Proof. destruct b as [|? [|? [|? [|? ?]]]]; reflexivity. Qed.
Lemma plain_be32 b : plain (bin_be32 b) = zbe32 b.
Proof. destruct b as [|? [|? [|? [|? ?]]]]; reflexivity. Qed.
Lemma plain_le64 b : plain (bin_le64 b) = zle64 b.
Proof. destruct b as [|? [|? [|? [|? [|? [|? [|? [|? ?]]]]]]]]; reflexivity. Qed.
Lemma plain_be64 b : plain (bin_be64 b) = zbe64 b.
Proof. destruct b as [|? [|? [|? [|? [|? [|? [|? [|? ?]]]]]]]]; reflexivity. Qed.

Ltac push_plain ::=
  repeat first [ rewrite plain_bind | rewrite plain_if | rewrite plain_sub | rewrite plain_idx
               | rewrite plain_lidx | rewrite plain_ok | rewrite plain_err
               | rewrite plain_le16 | rewrite plain_be16 | rewrite plain_le32 | rewrite plain_be32
               | rewrite plain_le64 | rewrite plain_be64 ].

(* a callee whose result is bound on both sides: split on its outcome *)
(* Z.to_nat pushed to the leaves, so that index terms of the generated code (Go int) and of the
   model (nat) become syntactically equal *)
Lemma to_nat_of_N n : Z.to_nat (Z.of_N n) = N.to_nat n. Proof. lia. Qed.
Ltac nat_norm :=
  repeat first [ rewrite Z2Nat.inj_add by lia | rewrite Z2Nat.inj_mul by lia | rewrite to_nat_of_N ];
  lit_nat.
Lemma idx_cases {E} d i : (exists b, @idx E d i = Ok b) \/ @idx E d i = Panic.
Proof. unfold idx. destruct (nth_error (vis d) i); eauto. Qed.
Lemma lidx_cases {E} b i : (exists x, @lidx E b i = Ok x) \/ @lidx E b i = Panic.
Proof. unfold lidx. destruct (nth_error b i); eauto. Qed.

Ltac callee_rw := fail.
Ltac rstep ::=
  match goal with
  | |- context [g_Registers_register] => callee_rw
  | |- context [g_Registers_doubleRegister] => callee_rw
  | |- context [g_Registers_quadRegister] => callee_rw
  | |- context [@zidx ?E ?s ?i] => rewrite (@zidx_nat E s i) by lia; nat_norm
  | |- context [@zsub ?E ?s ?i ?j] => rewrite (@zsub_nat E s i j) by lia; nat_norm
  | |- context [@lget ?E N ?b ?i] => rewrite (@lget_lidx E b i) by lia; nat_norm
  | |- context [if ?c then _ else _] => decide_if c; cbn [bind]; push_plain
  | |- context [bind (plain ?X) _] =>
      lazymatch X with
      | register _ _ => idtac | double_register _ _ _ => idtac | quad_register _ _ _ => idtac
      end;
      destruct X as [?b|?e|] eqn:?; cbn [plain map_err bind]; push_plain
  | Hx : @idx ?E ?d ?i = _ |- context [@idx ?E ?d ?i] => rewrite !Hx; cbn [bind]; push_plain
  | Hx : @lidx ?E ?b ?i = _ |- context [@lidx ?E ?b ?i] => rewrite !Hx; cbn [bind]; push_plain
  | |- context [bind (@idx ?E ?d ?i) _] =>
      let Hx := fresh "Hx" in
      destruct (@idx_cases E d i) as [[?x Hx]|Hx]; rewrite !Hx; cbn [bind]; push_plain
  | |- context [bind (@lidx ?E ?b ?i) _] =>
      let Hx := fresh "Hx" in
      destruct (@lidx_cases E b i) as [[?x Hx]|Hx]; rewrite !Hx; cbn [bind]; push_plain
  | |- context [if ?c then _ else _] => decide_if c; cbn [bind]; push_plain
  end.

Lemma doubleRegister_eq bo st en d a o : a < 65536 ->
  g_Registers_doubleRegister bo st en d a o = plain (double_register (mk bo st en d) a o).
Proof. intros. unfold g_Registers_doubleRegister, double_register, has, LowWordFirst, mk. cbn [r_order r_start r_end r_data]. reg_body. Qed.
Lemma quadRegister_eq bo st en d a o : a < 65536 ->
  g_Registers_quadRegister bo st en d a o = plain (quad_register (mk bo st en d) a o).
Proof. intros. unfold g_Registers_quadRegister, quad_register, has, LowWordFirst, mk. cbn [r_order r_start r_end r_data]. reg_body. Qed.

Ltac callee_rw ::=
  first [ rewrite register_eq by assumption | rewrite doubleRegister_eq by assumption
        | rewrite quadRegister_eq by assumption ]; push_plain.
Ltac callers :=
  rewrite ?register_eq, ?doubleRegister_eq, ?quadRegister_eq by assumption;
  unfold has, LittleEndian, BigEndian, LowWordFirst; cbn [r_order r_start r_end r_data mk].

Lemma Register_eq bo st en d a : a < 65536 ->
  g_Registers_Register bo st en d a = plain (Register (mk bo st en d) a).
Proof. intros. unfold g_Registers_Register, Register. callers. reg_body. Qed.
Lemma DoubleRegister_eq bo st en d a o : a < 65536 ->
  g_Registers_DoubleRegister bo st en d a o = plain (DoubleRegister (mk bo st en d) a o).
Proof. intros. unfold g_Registers_DoubleRegister, DoubleRegister. callers. reg_body. Qed.
Lemma QuadRegister_eq bo st en d a o : a < 65536 ->
  g_Registers_QuadRegister bo st en d a o = plain (QuadRegister (mk bo st en d) a o).
Proof. intros. unfold g_Registers_QuadRegister, QuadRegister. callers. reg_body. Qed.
Lemma Uint8_eq bo st en d a hi : a < 65536 ->
  g_Registers_Uint8 bo st en d a hi = plain (Uint8 (mk bo st en d) a hi).
Proof. intros. unfold g_Registers_Uint8, Uint8. callers. reg_body. Qed.
Lemma Byte_eq bo st en d a hi : a < 65536 ->
  g_Registers_Byte bo st en d a hi = plain (Byte (mk bo st en d) a hi).
Proof. intros. unfold g_Registers_Byte, Byte. apply Uint8_eq. assumption. Qed.
Lemma Bit_eq bo st en d a bit : a < 65536 ->
  g_Registers_Bit bo st en d a bit = plain (Bit (mk bo st en d) a bit).
Proof. intros. unfold g_Registers_Bit, Bit. callers. reg_body. Qed.
Lemma Uint16_eq bo st en d a : a < 65536 ->
  g_Registers_Uint16 bo st en d a = plain (Uint16 (mk bo st en d) a).
Proof. intros. unfold g_Registers_Uint16, Uint16. callers. reg_body. Qed.
Lemma Uint32_eq bo st en d a : a < 65536 ->
  g_Registers_Uint32 bo st en d a = plain (Uint32 (mk bo st en d) a).
Proof. intros. unfold g_Registers_Uint32, Uint32. callers. reg_body. Qed.
Lemma Uint32WithByteOrder_eq bo st en d a o : a < 65536 ->
  g_Registers_Uint32WithByteOrder bo st en d a o = plain (Uint32WithByteOrder (mk bo st en d) a o).
Proof. intros. unfold g_Registers_Uint32WithByteOrder, Uint32WithByteOrder. callers. reg_body. Qed.
Lemma Uint64_eq bo st en d a : a < 65536 ->
  g_Registers_Uint64 bo st en d a = plain (Uint64 (mk bo st en d) a).
Proof. intros. unfold g_Registers_Uint64, Uint64. callers. reg_body. Qed.
Lemma Uint64WithByteOrder_eq bo st en d a o : a < 65536 ->
  g_Registers_Uint64WithByteOrder bo st en d a o = plain (Uint64WithByteOrder (mk bo st en d) a o).
Proof. intros. unfold g_Registers_Uint64WithByteOrder, Uint64WithByteOrder. callers. reg_body. Qed.
Lemma Float32_eq bo st en d a : a < 65536 ->
  g_Registers_Float32 bo st en d a = plain (Float32 (mk bo st en d) a).
Proof. intros. unfold g_Registers_Float32, Float32, Uint32. callers. reg_body. Qed.
Lemma Float32WithByteOrder_eq bo st en d a o : a < 65536 ->
  g_Registers_Float32WithByteOrder bo st en d a o = plain (Float32WithByteOrder (mk bo st en d) a o).
Proof. intros. unfold g_Registers_Float32WithByteOrder, Float32WithByteOrder, Uint32WithByteOrder. callers. reg_body. Qed.
Lemma Float64_eq bo st en d a : a < 65536 ->
  g_Registers_Float64 bo st en d a = plain (Float64 (mk bo st en d) a).
Proof. intros. unfold g_Registers_Float64, Float64, Uint64. callers. reg_body. Qed.
Lemma Float64WithByteOrder_eq bo st en d a o : a < 65536 ->
  g_Registers_Float64WithByteOrder bo st en d a o = plain (Float64WithByteOrder (mk bo st en d) a o).
Proof. intros. unfold g_Registers_Float64WithByteOrder, Float64WithByteOrder, Uint64WithByteOrder. callers. reg_body. Qed.

(* ---------- signed accessors: int8(b) ... agree with the model's to_signed on bit patterns in range,
   i.e. when the payload consists of bytes ---------- *)
Lemma sint8_signed x : x < 256 -> sint 8 (Z.of_N x) = to_signed 8 x.
Proof.
  intros H. unfold sint, to_signed. change (2 ^ (8 - 1)) with 128. change (2 ^ 8) with 256.
  change (2 ^ (8 - 1))%Z with 128%Z. change (2 ^ 8)%Z with 256%Z. destruct (x <? 128) eqn:E; lia.
Qed.
Lemma sint16_signed x : x < 65536 -> sint 16 (Z.of_N x) = to_signed 16 x.
Proof.
  intros H. unfold sint, to_signed. change (2 ^ (16 - 1)) with 32768. change (2 ^ 16) with 65536.
  change (2 ^ (16 - 1))%Z with 32768%Z. change (2 ^ 16)%Z with 65536%Z. destruct (x <? 32768) eqn:E; lia.
Qed.
Lemma sint32_signed x : x < 4294967296 -> sint 32 (Z.of_N x) = to_signed 32 x.
Proof.
  intros H. unfold sint, to_signed. change (2 ^ (32 - 1)) with 2147483648. change (2 ^ 32) with 4294967296.
  change (2 ^ (32 - 1))%Z with 2147483648%Z. change (2 ^ 32)%Z with 4294967296%Z. destruct (x <? 2147483648) eqn:E; lia.
Qed.
Lemma sint64_signed x : x < 18446744073709551616 -> sint 64 (Z.of_N x) = to_signed 64 x.
Proof.
  intros H. unfold sint, to_signed. change (2 ^ (64 - 1)) with 9223372036854775808. change (2 ^ 64) with 18446744073709551616.
  change (2 ^ (64 - 1))%Z with 9223372036854775808%Z. change (2 ^ 64)%Z with 18446744073709551616%Z.
  destruct (x <? 9223372036854775808) eqn:E; lia.
Qed.


Lemma sub_bytes {E} d i j b : @sub E d i j = Ok b -> bytes_slice d -> bytes_ok b.
Proof.
  unfold sub. destruct (_ && _); [|discriminate]. intros H [Hv Hs]. injection H as <-.
  apply bytes_ok_firstn, bytes_ok_skipn, bytes_ok_app. split; assumption.
Qed.
Lemma idx_bytes {E} d i x : @idx E d i = Ok x -> bytes_slice d -> x < 256.
Proof.
  unfold idx. destruct (nth_error (vis d) i) eqn:Hn; [|discriminate]. intros H [Hv _]. injection H as <-.
  eapply nth_error_bytes_ok; eassumption.
Qed.
Lemma lidx_bytes {E} b i x : @lidx E b i = Ok x -> bytes_ok b -> x < 256.
Proof.
  unfold lidx. destruct (nth_error b i) eqn:Hn; [|discriminate]. intros H Hb. injection H as <-.
  eapply nth_error_bytes_ok; eassumption.
Qed.
Lemma cons_bytes x l : x < 256 -> bytes_ok l -> bytes_ok (x :: l).
Proof. intros. apply bytes_ok_cons. split; assumption. Qed.

Lemma register_bytes r a b : register r a = Ok b -> bytes_slice (r_data r) -> bytes_ok b.
Proof.
  unfold register. cbv zeta. repeat (destruct (_ : bool); try discriminate). apply sub_bytes.
Qed.
Lemma double_register_bytes r a o b : double_register r a o = Ok b -> bytes_slice (r_data r) -> bytes_ok b.
Proof.
  unfold double_register. cbv zeta. intros H0 Hd. revert H0.
  repeat (match goal with |- context [if ?c then _ else _] => destruct c end; try discriminate);
    [|intros H; exact (sub_bytes _ _ _ _ H Hd)].
  repeat match goal with |- context [@idx ?E ?d ?i] =>
    let Hx := fresh "Hx" in destruct (@idx E d i) as [?x|?e|] eqn:Hx; cbn [bind]; try discriminate;
    pose proof (idx_bytes _ _ _ Hx Hd) end.
  intros Hfin. injection Hfin as <-. repeat apply cons_bytes; try assumption. apply bytes_ok_nil.
Qed.
Lemma quad_register_bytes r a o b : quad_register r a o = Ok b -> bytes_slice (r_data r) -> bytes_ok b.
Proof.
  unfold quad_register. cbv zeta. intros H0 Hd. revert H0.
  repeat (match goal with |- context [if ?c then _ else _] => destruct c end; try discriminate);
    [|intros H; exact (sub_bytes _ _ _ _ H Hd)].
  repeat match goal with |- context [@idx ?E ?d ?i] =>
    let Hx := fresh "Hx" in destruct (@idx E d i) as [?x|?e|] eqn:Hx; cbn [bind]; try discriminate;
    pose proof (idx_bytes _ _ _ Hx Hd) end.
  intros Hfin. injection Hfin as <-. repeat apply cons_bytes; try assumption. apply bytes_ok_nil.
Qed.

(* the value combined from bytes is in the range of its type *)
Ltac byte_facts :=
  repeat match goal with H : bytes_ok (_ :: _) |- _ => apply bytes_ok_cons in H; destruct H end.
Lemma z16_bound {E} (f : list N -> res E N) b x :
  (f = @zle16 E \/ f = @zbe16 E) -> f b = Ok x -> bytes_ok b -> x < 65536.
Proof.
  intros [->| ->] H Hb; destruct b as [|b0 [|b1 t]]; try discriminate H; cbn in H; injection H as <-;
    byte_facts; lia.
Qed.
Lemma z32_bound {E} (f : list N -> res E N) b x :
  (f = @zle32 E \/ f = @zbe32 E) -> f b = Ok x -> bytes_ok b -> x < 4294967296.
Proof.
  intros [->| ->] H Hb; destruct b as [|b0 [|b1 [|b2 [|b3 t]]]]; try discriminate H; cbn in H; injection H as <-;
    byte_facts; lia.
Qed.
Lemma z64_bound {E} (f : list N -> res E N) b x :
  (f = @zle64 E \/ f = @zbe64 E) -> f b = Ok x -> bytes_ok b -> x < 18446744073709551616.
Proof.
  intros [->| ->] H Hb; destruct b as [|b0 [|b1 [|b2 [|b3 [|b4 [|b5 [|b6 [|b7 t]]]]]]]]; try discriminate H;
    cbn in H; injection H as <-; byte_facts; lia.
Qed.

(* split on the outcome of a decoder applied to the register bytes, remembering the equation *)
Ltac rstep_bin :=
  match goal with
  | |- context [bind (?f ?b) _] =>
      lazymatch f with
      | @zle16 _ => idtac | @zbe16 _ => idtac | @zle32 _ => idtac | @zbe32 _ => idtac
      | @zle64 _ => idtac | @zbe64 _ => idtac
      end;
      let Hz := fresh "Hz" in destruct (f b) as [?x|?e|] eqn:Hz; cbn [bind]; push_plain
  end.
Ltac signed_leaf Hd :=
  cbn [bind]; try reflexivity;
  repeat match goal with
  | H : register ?r ?a = Ok ?b |- _ =>
      lazymatch goal with Hb : bytes_ok b |- _ => fail | _ => pose proof (register_bytes r a b H Hd) end
  | H : double_register ?r ?a ?o = Ok ?b |- _ =>
      lazymatch goal with Hb : bytes_ok b |- _ => fail | _ => pose proof (double_register_bytes r a o b H Hd) end
  | H : quad_register ?r ?a ?o = Ok ?b |- _ =>
      lazymatch goal with Hb : bytes_ok b |- _ => fail | _ => pose proof (quad_register_bytes r a o b H Hd) end
  end;
  f_equal;
  first [ apply sint8_signed; eapply lidx_bytes; eassumption
        | apply sint16_signed; eapply z16_bound; [|eassumption|eassumption]; auto
        | apply sint32_signed; eapply z32_bound; [|eassumption|eassumption]; auto
        | apply sint64_signed; eapply z64_bound; [|eassumption|eassumption]; auto ].
Ltac signed_body Hd :=
  cbv zeta; push_plain; unfold zlen, add32, u32_of_Z, u32; rewrite ?bind_ok_r;
  repeat first [ rstep | rstep_bin ]; push_plain; signed_leaf Hd.

Lemma Int8_eq bo st en d a hi : a < 65536 -> bytes_slice d ->
  g_Registers_Int8 bo st en d a hi = plain (Int8 (mk bo st en d) a hi).
Proof. intros H Hd. unfold g_Registers_Int8, Int8. callers. signed_body Hd. Qed.
Lemma Int16_eq bo st en d a : a < 65536 -> bytes_slice d ->
  g_Registers_Int16 bo st en d a = plain (Int16 (mk bo st en d) a).
Proof. intros H Hd. unfold g_Registers_Int16, Int16. callers. signed_body Hd. Qed.
Lemma Int32_eq bo st en d a : a < 65536 -> bytes_slice d ->
  g_Registers_Int32 bo st en d a = plain (Int32 (mk bo st en d) a).
Proof. intros H Hd. unfold g_Registers_Int32, Int32, Uint32. callers. signed_body Hd. Qed.
Lemma Int32WithByteOrder_eq bo st en d a o : a < 65536 -> bytes_slice d ->
  g_Registers_Int32WithByteOrder bo st en d a o = plain (Int32WithByteOrder (mk bo st en d) a o).
Proof. intros H Hd. unfold g_Registers_Int32WithByteOrder, Int32WithByteOrder, Uint32WithByteOrder. callers. signed_body Hd. Qed.
Lemma Int64_eq bo st en d a : a < 65536 -> bytes_slice d ->
  g_Registers_Int64 bo st en d a = plain (Int64 (mk bo st en d) a).
Proof. intros H Hd. unfold g_Registers_Int64, Int64, Uint64. callers. signed_body Hd. Qed.
Lemma Int64WithByteOrder_eq bo st en d a o : a < 65536 -> bytes_slice d ->
  g_Registers_Int64WithByteOrder bo st en d a o = plain (Int64WithByteOrder (mk bo st en d) a o).
Proof. intros H Hd. unfold g_Registers_Int64WithByteOrder, Int64WithByteOrder, Uint64WithByteOrder. callers. signed_body Hd. Qed.

(* ---------- StringWithByteOrder ---------- *)
Lemma upd_set_nth (l : list N) k v : upd l k v = set_nth l k v.
Proof. revert k. induction l as [|x l IH]; intros [|k]; cbn; try reflexivity. f_equal. apply IH. Qed.
Lemma set_nth_length (l : list N) k v : length (set_nth l k v) = length l.
Proof. rewrite <- upd_set_nth. apply upd_length. Qed.
Lemma lget_nth {E} (l : list N) i : (0 <= i < Z.of_nat (length l))%Z -> @lget E N l i = Ok (nth (Z.to_nat i) l 0).
Proof.
  intros H. unfold lget. replace (i <? 0)%Z with false by lia.
  destruct (nth_error l (Z.to_nat i)) eqn:Hn.
  - rewrite (nth_error_nth l (Z.to_nat i) 0 Hn). reflexivity.
  - apply nth_error_None in Hn. lia.
Qed.
Lemma lset_upd {E} (l : list N) i v : (0 <= i < Z.of_nat (length l))%Z -> @lset E N l i v = Ok (upd l (Z.to_nat i) v).
Proof. intros H. unfold lset, llen. replace ((i <? 0) || (Z.of_nat (length l) <=? i))%Z with false by lia. reflexivity. Qed.
Lemma odd_rem i : negb (Z.rem (Z.of_nat i) 2 =? 0)%Z = Nat.odd i.
Proof.
  destruct (Nat.Even_or_Odd i) as [[k ->]|[k ->]].
  - rewrite Nat.odd_mul. cbn [Nat.odd andb]. replace (Z.rem (Z.of_nat (2 * k)) 2 =? 0)%Z with true by lia. reflexivity.
  - replace (2 * k + 1)%nat with (1 + 2 * k)%nat by lia. rewrite Nat.odd_add_mul_2. cbn [Nat.odd Nat.even].
    replace (Z.rem (Z.of_nat (1 + 2 * k)) 2 =? 0)%Z with false by lia. reflexivity.
Qed.

(* the swap loop of the generated code (for i := 1; i < len(rawBytes); i++) is the model's swap_loop *)
Lemma swap_mfold :
  forall n i (l : list N) fuel, (1 <= i)%nat -> (i + n = length l)%nat -> (n <= fuel)%nat ->
    mfold (E := perr)
      (fun (v_rawBytes_3 : list N) (v_i : Z) =>
         let* v_rawBytes_6 :=
           (if negb (Z.rem v_i 2 =? 0)%Z
            then let* t3 := lget v_rawBytes_3 (v_i - 1) in
                 let* t4 := lget v_rawBytes_3 v_i in
                 let* v_rawBytes_4 := lset v_rawBytes_3 (v_i - 1) t4 in
                 let* v_rawBytes_5 := lset v_rawBytes_4 v_i t3 in Ok v_rawBytes_5
            else Ok v_rawBytes_3) in
         Ok v_rawBytes_6)
      (Z.of_nat i) n l
    = Ok (swap_loop fuel i l).
Proof.
  induction n as [|n IH]; intros i l fuel Hi Hn Hf.
  - cbn [mfold]. destruct fuel; cbn [swap_loop]; [reflexivity|].
    replace (i <? length l)%nat with false by lia. reflexivity.
  - destruct fuel as [|fuel]; [lia|]. cbn [mfold swap_loop].
    replace (i <? length l)%nat with true by lia. rewrite odd_rem.
    replace (Z.of_nat i + 1)%Z with (Z.of_nat (S i)) by lia.
    destruct (Nat.odd i).
    + rewrite (lget_nth l (Z.of_nat i - 1)) by lia. cbn [bind].
      rewrite (lget_nth l (Z.of_nat i)) by lia. cbn [bind].
      rewrite lset_upd by lia. cbn [bind].
      rewrite lset_upd by (rewrite upd_length; lia). cbn [bind].
      rewrite !upd_set_nth. rewrite Nat2Z.id. replace (Z.to_nat (Z.of_nat i - 1)) with (i - 1)%nat by lia.
      apply IH; try lia. rewrite !set_nth_length. lia.
    + cbn [bind]. apply IH; lia.
Qed.

Lemma swap_zfor (l : list N) :
  zfor (E := perr)
      (fun (v_rawBytes_3 : list N) (v_i : Z) =>
         let* v_rawBytes_6 :=
           (if negb (Z.rem v_i 2 =? 0)%Z
            then let* t3 := lget v_rawBytes_3 (v_i - 1) in
                 let* t4 := lget v_rawBytes_3 v_i in
                 let* v_rawBytes_4 := lset v_rawBytes_3 (v_i - 1) t4 in
                 let* v_rawBytes_5 := lset v_rawBytes_4 v_i t3 in Ok v_rawBytes_5
            else Ok v_rawBytes_3) in
         Ok v_rawBytes_6)
      1 (Z.of_nat (length l)) l
  = Ok (swap_loop (length l) 1 l).
Proof.
  unfold zfor. destruct l as [|x l].
  - reflexivity.
  - change 1%Z with (Z.of_nat 1). apply swap_mfold; cbn [length]; lia.
Qed.

(* the loop that builds the string: stop at the first NUL *)
Definition str_step : bool * list N -> N -> bool * list N :=
  fun '(stop, v_builder_2) v_b =>
    if (stop : bool) then (stop, v_builder_2)
    else if v_b =? 0 then (true, v_builder_2) else (false, v_builder_2 ++ utf8_rune v_b).
Lemma str_stopped l acc : fold_left str_step l (true, acc) = (true, acc).
Proof. induction l as [|b l IH]; [reflexivity|]. cbn [fold_left str_step]. apply IH. Qed.
Lemma str_build l : forall acc, snd (fold_left str_step l (false, acc)) = acc ++ build_string l.
Proof.
  induction l as [|b l IH]; intros acc; cbn [fold_left build_string str_step].
  - rewrite app_nil_r. reflexivity.
  - destruct (b =? 0).
    + rewrite str_stopped, app_nil_r. reflexivity.
    + rewrite IH, <- app_assoc. reflexivity.
Qed.

Lemma StringWithByteOrder_eq bo st en d a len o : a < 65536 -> len < 256 ->
  g_Registers_StringWithByteOrder bo st en d a len o = plain (fst (StringWithByteOrder (mk bo st en d) a len o)).
Proof.
  intros Ha Hl. unfold g_Registers_StringWithByteOrder, StringWithByteOrder, has, BigEndian.
  cbn [r_order r_start r_end r_data mk]. unfold zlen, llen. cbv zeta.
  repeat gstep; cbn [fst plain map_err]; try reflexivity.
  all: rewrite ?swap_zfor; cbn [bind];
       unfold zgrow; replace (Z.of_N len <? 0)%Z with false by lia; cbn [bind].
  all: unfold lsub, llen.
  all: match goal with
       | |- context [if ?c then Panic else _] => destruct c eqn:Hc; cbn [bind]
       end.
  all: try (exfalso; lia); try reflexivity.
  all: change (fun '(stop, v_builder_2) (v_b : N) =>
                 if (stop : bool) then (stop, v_builder_2)
                 else if v_b =? 0 then (true, v_builder_2) else (false, v_builder_2 ++ utf8_rune v_b))
         with str_step.
  all: match goal with |- context [fold_left str_step ?l (false, [])] =>
         pose proof (str_build l []) as Hs; destruct (fold_left str_step l (false, [])) as [s1 s2];
         cbn [snd] in Hs; subst s2 end.
  all: cbn [app]; rewrite ?Z.sub_0_r; change (Z.to_nat 0) with 0%nat; cbn [skipn]; rewrite ?to_nat_of_N, ?firstn_firstn; reflexivity.
Qed.

Lemma String_eq bo st en d a len : a < 65536 -> len < 256 ->
  g_Registers_String bo st en d a len = plain (fst (String_ (mk bo st en d) a len)).
Proof. intros. unfold g_Registers_String, String_. apply StringWithByteOrder_eq; assumption. Qed.
