(* ClientRoundTrip.v -- the response parsers on the encoded replies of the nine request types with
   an exact ExpectedResponseLength: parse (bytes p) = p.  With ClientC07Inst.exact_types_complete
   this gives C07 in the property's words: the client returns exactly that reply, parsed. *)
From Coq Require Import ZifyBool ZifyN ZifyNat.
Require Import MB.GoSem MB.CrcModel MB.PacketModel MB.ClientModel.
Require Import MB.proofs.CrcProofs MB.proofs.ClientProofs MB.proofs.ClientC07 MB.proofs.ClientC07Inst.
Open Scope N_scope.
Ltac Zify.zify_post_hook ::= Z.div_mod_to_equations.

Lemma idx_exact {E} l i : (i < length l)%nat -> @idx E (exact l) i = Ok (nth i l 0).
Proof.
  intros H. unfold idx. cbn [vis exact]. destruct (nth_error l i) eqn:E1.
  - rewrite (nth_error_nth _ _ 0 E1). reflexivity.
  - apply nth_error_None in E1. lia.
Qed.
Lemma sub_exact {E} l i j : (i <= j)%nat -> (j <= length l)%nat ->
  @sub E (exact l) i j = Ok (firstn (j - i) (skipn i l)).
Proof. intros. apply sub_in; assumption. Qed.

(* ---------- TCP ---------- *)
Lemma rt_wmulti_tcp tid fc u s c : tid < 65536 -> s < 65536 -> c < 65536 -> (fc = 15 \/ fc = 16) ->
  parse_tcp_response (exact (resp_bytes_tcp tid (PWMulti fc u s c))) = Ok (tid, PWMulti fc u s c).
Proof.
  intros Ht Hs Hc Hfc.
  unfold resp_bytes_tcp, mbap_bytes, resp_len16, resp_body, put16. cbn [app length].
  change (u16 (N.of_nat 6)) with 6. change (6 / 256) with 0. change (6 mod 256) with 6.
  unfold parse_tcp_response. cbn [slen exact vis length Nat.ltb Nat.leb].
  unfold as_tcp_error. cbn [slen exact vis length Nat.eqb negb bind].
  rewrite idx_exact by (cbn; lia). cbn [nth bind].
  assert (F : (fc =? 1) || (fc =? 2) || (fc =? 3) || (fc =? 4) || (fc =? 23) = false) by (destruct Hfc; subst; reflexivity).
  rewrite F. assert (F5 : (fc =? 5) = false) by (destruct Hfc; subst; reflexivity). rewrite F5.
  assert (F6 : (fc =? 6) = false) by (destruct Hfc; subst; reflexivity). rewrite F6.
  assert (F15 : (fc =? 15) || (fc =? 16) = true) by (destruct Hfc; subst; reflexivity). rewrite F15.
  unfold parse_wmulti_resp_tcp, fixed_resp_guard_tcp. cbn [slen exact vis length Nat.ltb Nat.leb].
  rewrite !sub_exact by (cbn; lia). cbn [bind skipn firstn Nat.sub].
  rewrite !idx_exact by (cbn; lia). cbn [nth bind be16].
  replace (N.of_nat 12 =? 6 + (0 * 256 + 6)) with true by reflexivity. cbn [negb bind].
  f_equal. f_equal; [lia|f_equal; lia].
Qed.

Lemma rt_wreg_tcp tid u a d0 d1 : tid < 65536 -> a < 65536 ->
  parse_tcp_response (exact (resp_bytes_tcp tid (PWReg u a d0 d1))) = Ok (tid, PWReg u a d0 d1).
Proof.
  intros Ht Ha.
  unfold resp_bytes_tcp, mbap_bytes, resp_len16, resp_body, put16. cbn [app length].
  change (u16 (N.of_nat 6)) with 6. change (6 / 256) with 0. change (6 mod 256) with 6.
  unfold parse_tcp_response. cbn [slen exact vis length Nat.ltb Nat.leb].
  unfold as_tcp_error. cbn [slen exact vis length Nat.eqb negb bind].
  rewrite idx_exact by (cbn; lia). cbn [nth bind].
  change ((6 =? 1) || (6 =? 2) || (6 =? 3) || (6 =? 4) || (6 =? 23)) with false.
  change (6 =? 5) with false. change (6 =? 6) with true. cbn iota.
  unfold parse_wreg_resp_tcp, fixed_resp_guard_tcp. cbn [slen exact vis length Nat.ltb Nat.leb].
  rewrite !sub_exact by (cbn; lia). cbn [bind skipn firstn Nat.sub].
  rewrite !idx_exact by (cbn; lia). cbn [nth bind be16].
  replace (N.of_nat 12 =? 6 + (0 * 256 + 6)) with true by reflexivity. cbn [negb bind].
  f_equal. f_equal; [lia|f_equal; lia].
Qed.

Lemma rt_bytes_tcp tid fc u data :
  tid < 65536 -> (fc = 1 \/ fc = 2 \/ fc = 3 \/ fc = 4) ->
  (length data < 256)%nat -> ((if is_coil_fc fc then 1 else 2) <= length data)%nat ->
  parse_tcp_response (exact (resp_bytes_tcp tid (PBytes fc u (N.of_nat (length data)) data)))
  = Ok (tid, PBytes fc u (N.of_nat (length data)) data).
Proof.
  intros Ht Hfc Hl Hmin.
  assert (Hbody : resp_body (PBytes fc u (N.of_nat (length data)) data) = [u; fc; N.of_nat (length data)] ++ data).
  { cbn [resp_body]. destruct (is_coil_fc fc).
    - unfold u8. rewrite N.mod_small by lia. reflexivity.
    - rewrite Nat2N.id, firstn_app, firstn_all, Nat.sub_diag, firstn_O, app_nil_r. reflexivity. }
  unfold resp_bytes_tcp, mbap_bytes, resp_len16. rewrite Hbody. unfold put16. cbn [app].
  set (len := u16 (N.of_nat (length (u :: fc :: N.of_nat (length data) :: data)))).
  assert (Hlen : len = 3 + N.of_nat (length data)).
  { unfold len, u16. cbn [length]. rewrite N.mod_small by lia. lia. }
  unfold parse_tcp_response. cbn [slen exact vis length].
  replace (S (S (S (S (S (S (S (S (S (length data))))))))) <? 8)%nat with false by lia.
  unfold as_tcp_error. cbn [slen exact vis length].
  destruct (negb (S (S (S (S (S (S (S (S (S (length data))))))))) =? 9)%nat) eqn:E9.
  2:{ exfalso. destruct (is_coil_fc fc); lia. }
  cbn [bind]. rewrite idx_exact by (cbn; lia). cbn [nth bind].
  assert (F : (fc =? 1) || (fc =? 2) || (fc =? 3) || (fc =? 4) || (fc =? 23) = true)
    by (destruct Hfc as [-> | [-> | [-> | ->]]]; reflexivity).
  rewrite F.
  unfold parse_bytes_resp_tcp. cbn [slen exact vis length].
  replace (S (S (S (S (S (S (S (S (S (length data))))))))) <? (if is_coil_fc fc then 10 else 11))%nat
    with false by (destruct (is_coil_fc fc); lia).
  rewrite idx_exact by (cbn; lia). cbn [nth bind].
  replace (S (S (S (S (S (S (S (S (S (length data))))))))) =? 9 + N.to_nat (N.of_nat (length data)))%nat
    with true by lia.
  cbn [negb]. rewrite !sub_exact by (cbn [length]; lia). cbn [bind skipn].
  rewrite !idx_exact by (cbn; lia). cbn [nth bind].
  replace (9 + N.to_nat (N.of_nat (length data)) - 9)%nat with (length data) by lia.
  rewrite firstn_all. cbn [Nat.sub firstn be16].
  f_equal. f_equal. lia.
Qed.

(* ---------- RTU ---------- *)
Lemma le16_trailer body : bytes_ok body -> le16 (crc_trailer body) = crc16 body.
Proof. intros H. pose proof (crc16_lt body H). unfold le16, crc_trailer, crc_lo, crc_hi. lia. Qed.

Lemma rt_wmulti_rtu fc u s c : u < 256 -> s < 65536 -> c < 65536 -> (fc = 15 \/ fc = 16) ->
  parse_rtu_response_crc (exact (resp_bytes_rtu (PWMulti fc u s c))) = Ok (PWMulti fc u s c).
Proof.
  intros Hu Hs Hc Hfc.
  assert (Hok : bytes_ok (resp_body (PWMulti fc u s c))).
  { cbn [resp_body]. unfold put16. cbn [app]. repeat constructor; destruct Hfc; subst; lia. }
  unfold parse_rtu_response_crc, crc_gate, resp_bytes_rtu, with_crc.
  pose proof (le16_trailer _ Hok) as Hle. revert Hle.
  unfold crc_trailer. cbn [resp_body]. unfold put16. cbn [app]. intros Hle.
  cbn [slen exact vis length Nat.ltb Nat.leb].
  rewrite !sub_exact by (cbn; lia). cbn [bind skipn firstn Nat.sub].
  rewrite Hle, N.eqb_refl. cbn [negb].
  unfold parse_rtu_response. cbn [slen exact vis length Nat.ltb Nat.leb].
  unfold as_rtu_error. cbn [slen exact vis length Nat.eqb negb bind].
  rewrite idx_exact by (cbn; lia). cbn [nth bind].
  assert (F : (fc =? 1) || (fc =? 2) || (fc =? 3) || (fc =? 4) || (fc =? 23) = false) by (destruct Hfc; subst; reflexivity).
  rewrite F. assert (F5 : (fc =? 5) = false) by (destruct Hfc; subst; reflexivity). rewrite F5.
  assert (F6 : (fc =? 6) = false) by (destruct Hfc; subst; reflexivity). rewrite F6.
  assert (F15 : (fc =? 15) || (fc =? 16) = true) by (destruct Hfc; subst; reflexivity). rewrite F15.
  unfold parse_wmulti_resp_rtu, fixed_resp_guard_rtu. cbn [slen exact vis length Nat.ltb Nat.leb bind].
  rewrite !idx_exact by (cbn; lia). rewrite !sub_exact by (cbn; lia). cbn [nth bind skipn firstn Nat.sub be16].
  f_equal. f_equal; lia.
Qed.

(* ---------- the replies of the exact types ---------- *)
(* field ranges of the request (what the constructors guarantee) *)
Definition req_in_range (q : creq) : Prop :=
  q_tid q < 65536 /\
  match q_req q with
  | RRead fc u s n => (fc = 1 \/ fc = 2 \/ fc = 3 \/ fc = 4) /\ u < 256 /\ 1 <= n
  | RWReg u a _ _ => u < 256 /\ a < 65536
  | RWCoils u s c _ | RWRegs u s c _ => u < 256 /\ s < 65536 /\ c < 65536
  | _ => True
  end.

Theorem exact_types_round_trip k q p :
  framing_ok k q -> exact_formula q = true -> resp_matches (q_req q) p -> req_in_range q ->
  outcome_of_parse k (reply_bytes q p) = OResp (if q_rtu q then 0 else q_tid q) p.
Proof.
  unfold framing_ok, exact_formula, req_in_range, outcome_of_parse, reply_bytes, parse_resp.
  destruct q as [rtu tid r]. cbn [q_rtu q_tid q_req]. intros Hfr Hex Hm [Ht Hr].
  destruct r, p; cbn [resp_matches] in Hm; try contradiction; try discriminate.
  - (* FC1-4, TCP *)
    destruct rtu; [discriminate|]. destruct k; try discriminate.
    destruct Hm as (-> & -> & -> & Hbl & Hl). destruct Hr as (Hfc & Hu & Hn).
    rewrite rt_bytes_tcp; [reflexivity|exact Ht|exact Hfc|lia|].
    unfold coil_byte_len in Hl. destruct (is_coil_fc fc); lia.
  - (* FC6, TCP *)
    destruct rtu; [discriminate|]. destruct k; try discriminate.
    destruct Hm as (-> & -> & -> & ->). destruct Hr as (Hu & Ha).
    rewrite rt_wreg_tcp by assumption. reflexivity.
  - (* FC15 *)
    destruct Hm as (-> & -> & -> & ->). destruct Hr as (Hu & Hs & Hc).
    destruct rtu.
    + assert (Hk : parse_resp k (exact (resp_bytes_rtu (PWMulti 15 u start count))) = Ok (0, PWMulti 15 u start count)).
      { destruct k; [discriminate| |]; unfold parse_resp; rewrite rt_wmulti_rtu by (auto; lia); reflexivity. }
      unfold parse_resp in Hk. rewrite Hk. reflexivity.
    + destruct k; try discriminate. rewrite rt_wmulti_tcp by (auto; lia). reflexivity.
  - (* FC16 *)
    destruct Hm as (-> & -> & -> & ->). destruct Hr as (Hu & Hs & Hc).
    destruct rtu.
    + assert (Hk : parse_resp k (exact (resp_bytes_rtu (PWMulti 16 u start count))) = Ok (0, PWMulti 16 u start count)).
      { destruct k; [discriminate| |]; unfold parse_resp; rewrite rt_wmulti_rtu by (auto; lia); reflexivity. }
      unfold parse_resp in Hk. rewrite Hk. reflexivity.
    + destruct k; try discriminate. rewrite rt_wmulti_tcp by (auto; lia). reflexivity.
Qed.

Lemma req_in_range_fc q : exact_formula q = true -> req_in_range q -> req_fc (q_req q) < 128.
Proof.
  unfold exact_formula, req_in_range. intros He [_ H]. destruct (q_req q); try discriminate; cbn [req_fc]; lia.
Qed.

(* C07 for the nine exact request types, in the property's words *)
Theorem exact_types_return_reply cfg sc q p chunks tail :
  framing_ok (c_kind cfg) q -> exact_formula q = true ->
  resp_matches (q_req q) p -> req_in_range q ->
  (length (reply_bytes q p) <= max_len (c_kind cfg))%nat ->
  c_connected cfg = true -> writes_ok sc -> flush_ok cfg sc ->
  sc_steps sc = script_of chunks ++ tail ->
  chunks_nonempty chunks -> payload chunks = reply_bytes q p ->
  fst (client_do cfg sc (Some q)) = OResp (if q_rtu q then 0 else q_tid q) p.
Proof.
  intros Hfr Hex Hm Hr Hmax Hc Hw Hf Hs Hn Hp.
  rewrite (exact_types_complete cfg sc q p chunks tail Hfr Hex Hm (req_in_range_fc q Hex Hr) Hmax Hc Hw Hf Hs Hn Hp).
  cbn [fst]. apply exact_types_round_trip; assumption.
Qed.
