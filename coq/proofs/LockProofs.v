(* LockProofs.v -- soundness of the lock-discipline checker (thread-local part) and mutual
   exclusion for any number of disciplined threads under every schedule (global part).
   Ported from design-notes/prototypes/LockChecker.v and Interleave.v, extended to calls (frames),
   deferred unlocks performed by the semantics, break / continue. *)
Require Import MB.LockModel.
From Coq Require Import List String Bool Arith Lia.
Import ListNotations.

Definition b2n (b : bool) : nat := if b then 1 else 0.

(* ============================================================================================ *)
(* Part 1: thread-local soundness of [chk]                                                      *)

Lemma safe_n_le n n' c d k x o : n' <= n -> safe_n n c d k x o -> safe_n n' c d k x o.
Proof. intros Hle H m t st Hm. apply H. lia. Qed.

Lemma ok_stop x o : ok_end x o [] Stopped.
Proof. unfold ok_end. cbn. auto. Qed.

Lemma to_again_code a r : to_again (code a ++ r) = to_again r.
Proof. induction a as [|c a IH]; cbn; auto. Qed.

Lemma code_cons c s r : code (c :: s) ++ r = IStmt c :: (code s ++ r).
Proof. reflexivity. Qed.

Lemma code_app a s r : code a ++ code s ++ r = code (a ++ s) ++ r.
Proof. unfold code. rewrite map_app, app_assoc. reflexivity. Qed.

(* what the checker's result promises about the continuation *)
Definition cont_ok (n : nat) (res : option st2) (r : list item) (k : list frame) (X : bool) : Prop :=
  match res with None => True | Some (o', d') => safe_n n r (b2n d') k X o' end.
(* where break and continue lead, seen from the continuation r *)
Definition jump_ok (n : nat) (lp : option st2) (r : list item) (k : list frame) (X : bool) : Prop :=
  match lp with
  | None => True
  | Some (o0, d0) => exists body r', to_again r = IAgain body :: r' /\
       safe_n n (IAgain body :: r') (b2n d0) k X o0 /\ safe_n n r' (b2n d0) k X o0
  end.

Lemma cont_ok_le n n' res r k X : n' <= n -> cont_ok n res r k X -> cont_ok n' res r k X.
Proof. destruct res as [[o d]|]; cbn; auto. intros. eapply safe_n_le; eauto. Qed.
Lemma jump_ok_le n n' lp r k X : n' <= n -> jump_ok n lp r k X -> jump_ok n' lp r k X.
Proof.
  destruct lp as [[o d]|]; cbn; auto. intros Hle (b & r' & E & H1 & H2).
  exists b, r'. repeat split; auto; eapply safe_n_le; eauto.
Qed.

(* returning: the deferred unlock (if any) is performed, then the caller goes on *)
Lemma ret_safe n o d x k X :
  ret_ok o d x = true -> safe_n n [] 0 k X x -> safe_n n [] (b2n d) k X o.
Proof.
  unfold ret_ok. intros Hr Hx. destruct d; cbn [b2n].
  - apply andb_prop in Hr. destruct Hr as [Ho Hnx]. destruct o; [|discriminate]. destruct x; [discriminate|].
    intros m t st Hm Ht. inversion Ht; subst; [apply ok_stop|].
    unfold ok_end. cbn [run].
    match goal with H : tr _ [] 0 _ _ _ |- _ => exact (Hx _ _ _ Hm H) end.
  - apply eqb_prop in Hr. subst. exact Hx.
Qed.

(* a loop whose body preserves the state at its head *)
Lemma again_safe body kont d k X o : forall n,
  (forall n', n' <= n -> safe_n n' (IAgain body :: kont) d k X o ->
              safe_n n' (code body ++ IAgain body :: kont) d k X o) ->
  safe_n n kont d k X o -> safe_n n (IAgain body :: kont) d k X o.
Proof.
  induction n as [|n IHn]; intros Hb Hk m t st Hm Ht.
  - inversion Ht; subst; [apply ok_stop| |lia].
    eapply Hk; [|eassumption]. lia.
  - inversion Ht; subst; [apply ok_stop| |].
    + eapply Hk; [|eassumption]. lia.
    + assert (Hin : safe_n n (IAgain body :: kont) d k X o).
      { apply IHn.
        - intros n' Hle. apply Hb. lia.
        - eapply safe_n_le; [|exact Hk]. lia. }
      match goal with H : tr ?n0 (code body ++ _) _ _ _ _ |- _ =>
        assert (Hle : n0 <= n) by lia;
        pose proof (Hb n0 ltac:(lia) (safe_n_le _ _ _ _ _ _ _ Hle Hin)) as Hs;
        eapply Hs; [|exact H]; lia
      end.
Qed.

Lemma merge_cont n xa xb res r k X :
  merge xa xb = Some res -> cont_ok n res r k X -> cont_ok n xa r k X /\ cont_ok n xb r k X.
Proof.
  destruct xa as [[oa da]|]; destruct xb as [[ob db]|]; cbn; intros Hm Hc.
  - destruct (Bool.eqb oa ob && Bool.eqb da db) eqn:Eq; [|discriminate].
    inversion Hm; subst. apply andb_prop in Eq. destruct Eq as [E1 E2].
    apply eqb_prop in E1. apply eqb_prop in E2. subst. cbn in Hc. auto.
  - inversion Hm; subst. cbn in Hc. auto.
  - inversion Hm; subst. cbn in Hc. auto.
  - auto.
Qed.

Lemma chk_sound fuel : forall s x lp o d res n r k X,
  chk fuel s x lp o d = Some res ->
  cont_ok n res r k X ->
  jump_ok n lp r k X ->
  safe_n n [] 0 k X x ->
  safe_n n (code s ++ r) (b2n d) k X o.
Proof.
  induction fuel as [|fuel IH]; intros s x lp o d res n r k X Hc Hr Hj Hx; [discriminate|].
  destruct s as [|c0 s]; cbn [chk] in Hc.
  - inversion Hc; subst. exact Hr.
  - rewrite code_cons. destruct c0.
    + (* lock *)
      destruct o; [discriminate|]. intros m t st Hm Ht.
      inversion Ht; subst; [apply ok_stop|]. unfold ok_end. cbn [run].
      match goal with H : tr _ (code s ++ r) _ _ _ _ |- _ =>
        exact (IH _ _ _ _ _ _ _ _ _ _ Hc Hr Hj Hx _ _ _ Hm H) end.
    + (* unlock *)
      destruct (o && negb d) eqn:E; [|discriminate].
      apply andb_prop in E. destruct E as [Eo Ed]. destruct o; [|discriminate].
      intros m t st Hm Ht.
      inversion Ht; subst; [apply ok_stop|]. unfold ok_end. cbn [run].
      match goal with H : tr _ (code s ++ r) _ _ _ _ |- _ =>
        exact (IH _ _ _ _ _ _ _ _ _ _ Hc Hr Hj Hx _ _ _ Hm H) end.
    + (* defer unlock *)
      destruct (o && negb d) eqn:E; [|discriminate].
      apply andb_prop in E. destruct E as [Eo Ed]. destruct d; [discriminate|].
      intros m t st Hm Ht.
      inversion Ht; subst; [apply ok_stop|].
      match goal with H : tr _ (code s ++ r) _ _ _ _ |- _ =>
        exact (IH _ _ _ _ true _ _ _ _ _ Hc Hr Hj Hx _ _ _ Hm H) end.
    + (* use *)
      destruct o; [|discriminate]. intros m t st Hm Ht.
      inversion Ht; subst; [apply ok_stop|]. unfold ok_end. cbn [run].
      match goal with H : tr _ (code s ++ r) _ _ _ _ |- _ =>
        exact (IH _ _ _ _ _ _ _ _ _ _ Hc Hr Hj Hx _ _ _ Hm H) end.
    + (* branch *)
      destruct (chk fuel a x lp o d) as [xa|] eqn:Ea; [|discriminate].
      destruct (chk fuel b x lp o d) as [xb|] eqn:Eb; [|discriminate].
      assert (Hboth : cont_ok n xa (code s ++ r) k X /\ cont_ok n xb (code s ++ r) k X).
      { destruct (merge xa xb) as [[[o' d']|]|] eqn:Em; [| |discriminate].
        - eapply merge_cont; [exact Em|]. cbn [cont_ok]. eapply IH; eauto.
        - eapply merge_cont; [exact Em|]. exact I. }
      destruct Hboth as [Ha Hb].
      assert (Hj' : jump_ok n lp (code s ++ r) k X).
      { destruct lp as [[o0 d0]|]; cbn [jump_ok] in *; [|exact I]. rewrite to_again_code. exact Hj. }
      intros m t st Hm Ht. inversion Ht; subst; [apply ok_stop| |].
      * match goal with H : tr _ (code a ++ _) _ _ _ _ |- _ =>
          exact (IH _ _ _ _ _ _ _ _ _ _ Ea Ha Hj' Hx _ _ _ Hm H) end.
      * match goal with H : tr _ (code b ++ _) _ _ _ _ |- _ =>
          exact (IH _ _ _ _ _ _ _ _ _ _ Eb Hb Hj' Hx _ _ _ Hm H) end.
    + (* loop *)
      destruct (chk fuel body x (Some (o, d)) o d) as [xb|] eqn:Eb; [|discriminate].
      assert (Hk : safe_n n (code s ++ r) (b2n d) k X o).
      { destruct xb as [[o' d']|].
        - destruct (Bool.eqb o o' && Bool.eqb d d'); [|discriminate]. eapply IH; eauto.
        - eapply IH; eauto. }
      assert (Hag : safe_n n (IAgain body :: code s ++ r) (b2n d) k X o).
      { apply again_safe; [|exact Hk].
        intros n' Hle Hag'. eapply IH; [exact Eb| | |].
        - destruct xb as [[o' d']|]; cbn [cont_ok]; [|exact I].
          destruct (Bool.eqb o o' && Bool.eqb d d') eqn:Eq; [|discriminate].
          apply andb_prop in Eq. destruct Eq as [E1 E2].
          apply eqb_prop in E1. apply eqb_prop in E2. subst. exact Hag'.
        - cbn [jump_ok to_again]. exists body, (code s ++ r). repeat split; auto.
          eapply safe_n_le; eauto.
        - eapply safe_n_le; eauto. }
      intros m t st Hm Ht. inversion Ht; subst; [apply ok_stop|].
      match goal with H : tr _ (IAgain body :: _) _ _ _ _ |- _ => exact (Hag _ _ _ Hm H) end.
    + (* break *)
      destruct lp as [[o0 d0]|]; [|discriminate].
      destruct (Bool.eqb o o0 && Bool.eqb d d0) eqn:Eq; [|discriminate].
      apply andb_prop in Eq. destruct Eq as [E1 E2].
      apply eqb_prop in E1. apply eqb_prop in E2. subst o0 d0.
      cbn [jump_ok] in Hj. destruct Hj as (body & r' & Hta & Hag & Hbr).
      intros m t st Hm Ht. inversion Ht; subst; [apply ok_stop|].
      match goal with H : to_again (code s ++ r) = _ |- _ =>
        rewrite to_again_code, Hta in H; inversion H; subst end.
      match goal with H : tr _ _ _ _ t st |- _ => exact (Hbr _ _ _ Hm H) end.
    + (* continue *)
      destruct lp as [[o0 d0]|]; [|discriminate].
      destruct (Bool.eqb o o0 && Bool.eqb d d0) eqn:Eq; [|discriminate].
      apply andb_prop in Eq. destruct Eq as [E1 E2].
      apply eqb_prop in E1. apply eqb_prop in E2. subst o0 d0.
      cbn [jump_ok] in Hj. destruct Hj as (body & r' & Hta & Hag & Hbr).
      intros m t st Hm Ht. inversion Ht; subst; [apply ok_stop|].
      match goal with H : to_again (code s ++ r) = _ |- _ =>
        rewrite to_again_code, Hta in H; inversion H; subst end.
      match goal with H : tr _ _ _ _ t st |- _ => exact (Hag _ _ _ Hm H) end.
    + (* return *)
      destruct (ret_ok o d x) eqn:E; [|discriminate].
      intros m t st Hm Ht. inversion Ht; subst; [apply ok_stop|].
      match goal with H : tr _ [] _ _ _ _ |- _ => exact (ret_safe _ _ _ _ _ _ E Hx _ _ _ Hm H) end.
    + (* call: new frame *)
      destruct (chk fuel body o None o false) as [xb|] eqn:Eb; [|discriminate].
      assert (Hk : safe_n n (code s ++ r) (b2n d) k X o).
      { destruct xb as [[o' d']|].
        - destruct (ret_ok o' d' o); [|discriminate]. eapply IH; eauto.
        - eapply IH; eauto. }
      (* coming back into this frame with ownership o *)
      assert (Hback : safe_n n [] 0 ((code s ++ r, b2n d) :: k) X o).
      { intros m t st Hm Ht. inversion Ht; subst; [apply ok_stop|].
        match goal with H : tr _ (code s ++ r) _ _ _ _ |- _ => exact (Hk _ _ _ Hm H) end. }
      intros m t st Hm Ht. inversion Ht; subst; [apply ok_stop|].
      match goal with H : tr _ (code body) 0 _ _ _ |- _ =>
        rewrite <- (app_nil_r (code body)) in H;
        refine (IH _ _ _ _ false _ _ _ _ _ Eb _ I Hback _ _ _ Hm H) end.
      destruct xb as [[o' d']|]; cbn [cont_ok]; [|exact I].
      destruct (ret_ok o' d' o) eqn:E; [|discriminate].
      eapply ret_safe; eauto.
Qed.

(* The checker is sound: a body accepted from ownership o has only disciplined partial
   executions, and its complete executions end with ownership o again. *)
Theorem chk_entry_sound o c : chk_entry o c = true -> safe_from o c.
Proof.
  unfold chk_entry. intros H t st [n Ht].
  destruct (chk _ c o None o false) as [res|] eqn:E; [|discriminate].
  assert (Hx : safe_n n [] 0 [] o o).
  { intros m t' st' _ Ht'. inversion Ht'; subst; unfold ok_end; cbn; auto. }
  rewrite <- (app_nil_r (code c)) in Ht.
  refine (chk_sound _ _ _ _ _ false _ n [] [] o E _ I Hx n t st (le_n _) Ht).
  destruct res as [[o' d']|]; cbn [cont_ok]; [|exact I].
  eapply ret_safe; eauto.
Qed.

(* ---- the discipline, event by event ---- *)
Lemma run_spec : forall t o o', run o t = Some o' -> disciplined o t /\ holds o t = o'.
Proof.
  induction t as [|e t IH]; intros o o' H.
  - cbn in H. inversion H; subst. split; [|reflexivity].
    intros pre e post Hl. destruct pre; discriminate.
  - assert (Hstep : exists o1, run o1 t = Some o' /\ holds o (e :: t) = holds o1 t /\
                               match e with EAcq => o = false | ERel => o = true | EUse => o = true end /\
                               holds o [e] = o1).
    { destruct e; cbn [run] in H; destruct o; try discriminate; eexists; repeat split; eauto. }
    destruct Hstep as (o1 & Hr & Hh & He & Ho1).
    destruct (IH _ _ Hr) as [Hd Hend]. split; [|rewrite Hh; exact Hend].
    intros pre e' post Hl. destruct pre as [|e0 pre].
    + cbn in Hl. inversion Hl; subst. cbn [holds]. exact He.
    + cbn in Hl. inversion Hl; subst e0 t.
      assert (Hp : holds o (e :: pre) = holds o1 pre).
      { cbn [holds] in Ho1 |- *. destruct e; subst; reflexivity. }
      rewrite Hp. exact (Hd _ _ _ eq_refl).
Qed.

Theorem safe_from_spec o c : safe_from o c ->
  forall t st, thread_trace c t st ->
    disciplined o t /\ (st = Done -> holds o t = o).
Proof.
  intros Hs t st Ht. specialize (Hs t st Ht). unfold ok_end in Hs.
  destruct (run o t) as [o'|] eqn:E; [|contradiction].
  destruct (run_spec _ _ _ E) as [Hd Hh]. split; [exact Hd|].
  intros ->. destruct Hs as [Hs|Hs]; [discriminate|]. congruence.
Qed.

(* ---- the obligation on a generated program ---- *)
Lemma entry_ok_sound p m o body : entry_ok p m o body = true ->
  exists c, elab p m body = Some c /\ safe_from o c.
Proof.
  unfold entry_ok. destruct (elab p m body) as [c|]; [|discriminate].
  intros H. exists c. split; [reflexivity|]. apply chk_entry_sound. exact H.
Qed.

(* every function has a definite entry mode, and is safe when entered that way *)
Theorem entry_mode_sound p m f o : entry_mode p m f = Some o ->
  exists c, elab p m (fn_body f) = Some c /\ safe_from o c.
Proof.
  unfold entry_mode. destruct (entry_ok p m false (fn_body f)) eqn:E0.
  - intros H. inversion H; subst. apply entry_ok_sound. exact E0.
  - destruct (negb (fn_exported f) && negb (any_list is_lock_op (fn_body f)) && entry_ok p m true (fn_body f)) eqn:E1;
      [|discriminate].
    intros H. inversion H; subst. apply andb_prop in E1. destruct E1 as [_ E1].
    apply entry_ok_sound. exact E1.
Qed.

(* THREAD-LOCAL SOUNDNESS.  If the regenerated obligation holds, then for every mutex and every
   body that runs as a thread (exported function or method, go statement): every partial
   execution -- any path, preempted anywhere -- acquires only when it does not own the lock,
   releases and touches guarded fields only while it owns it, and a complete execution ends with
   the lock released. *)
Theorem well_locked_sound p : well_locked p = true ->
  forall m body, In m all_mutexes -> In body (thread_bodies p) ->
  exists c, elab p m body = Some c /\
    forall t st, thread_trace c t st -> disciplined false t /\ (st = Done -> holds false t = false).
Proof.
  unfold well_locked, locks_ok. intros H m body Hm Hb.
  apply andb_prop in H. destruct H as [H _].
  apply andb_prop in H. destruct H as [_ H].
  rewrite forallb_forall in H. specialize (H m Hm). unfold mutex_ok in H.
  apply andb_prop in H. destruct H as [_ H].
  rewrite forallb_forall in H. specialize (H body Hb).
  destruct (entry_ok_sound _ _ _ _ H) as (c & Hc & Hs).
  exists c. split; [exact Hc|]. apply safe_from_spec. exact Hs.
Qed.

(* ============================================================================================ *)
(* Part 2: any number of disciplined threads, every schedule                                    *)

(* global state: who acquired the mutex last and has not released it (the semantics only tests
   whether this is None: sync.Mutex does not know its owner and lets anyone unlock), and what
   every thread is still going to do *)
Record gst := { owner : option nat; todo : nat -> list event }.
Definition upd (f : nat -> list event) (i : nat) (v : list event) : nat -> list event :=
  fun j => if Nat.eqb j i then v else f j.

(* one scheduling decision: thread i performs its next event; acquiring is enabled only when the
   mutex is free; releasing is not restricted *)
Inductive gstep : gst -> nat -> event -> gst -> Prop :=
| g_acq s i r : todo s i = EAcq :: r -> owner s = None ->
    gstep s i EAcq {| owner := Some i; todo := upd (todo s) i r |}
| g_rel s i r : todo s i = ERel :: r ->
    gstep s i ERel {| owner := None; todo := upd (todo s) i r |}
| g_use s i r : todo s i = EUse :: r ->
    gstep s i EUse {| owner := owner s; todo := upd (todo s) i r |}.

Inductive gexec : gst -> list (nat * event) -> gst -> Prop :=
| ge_nil s : gexec s [] s
| ge_cons s i e s' l s'' : gstep s i e s' -> gexec s' l s'' -> gexec s ((i, e) :: l) s''.

Definition owns (s : gst) (i : nat) : bool :=
  match owner s with Some j => Nat.eqb j i | None => false end.
(* every thread's remaining events are disciplined from its present ownership *)
Definition inv (s : gst) : Prop := forall i, run (owns s i) (todo s i) <> None.
(* ... and, run to their end, leave the lock released *)
Definition inv_complete (s : gst) : Prop := forall i, run (owns s i) (todo s i) = Some false.

Lemma upd_same f i v : upd f i v i = v.
Proof. unfold upd. rewrite Nat.eqb_refl. reflexivity. Qed.
Lemma upd_other f i v j : j <> i -> upd f i v j = f j.
Proof. unfold upd. intros H. apply Nat.eqb_neq in H. rewrite H. reflexivity. Qed.

Lemma owns_true s i : owns s i = true -> owner s = Some i.
Proof.
  unfold owns. destruct (owner s) as [j|]; [|discriminate].
  intros H. apply Nat.eqb_eq in H. subst. reflexivity.
Qed.

(* the same step seen abstractly (what refinements such as ClientConcProofs establish): thread i
   consumes its next event, the other threads' remaining events are unchanged, the owner field
   changes as the mutex prescribes *)
Definition lstep (s : gst) (i : nat) (e : event) (s' : gst) : Prop :=
  exists r, todo s i = e :: r /\ todo s' i = r /\ (forall j, j <> i -> todo s' j = todo s j) /\
    match e with
    | EAcq => owner s = None /\ owner s' = Some i
    | ERel => owner s' = None
    | EUse => owner s' = owner s
    end.

Lemma gstep_lstep s i e s' : gstep s i e s' -> lstep s i e s'.
Proof.
  intros H. inversion H; subst; eexists; (split; [eassumption|]); cbn [owner todo];
    (split; [apply upd_same|]); (split; [intros j Hj; apply upd_other; exact Hj|]); auto.
Qed.

Lemma lstep_run s i e s' : lstep s i e s' -> run (owns s i) (todo s i) <> None ->
  (forall j, run (owns s' j) (todo s' j) = run (owns s j) (todo s j)) /\
  match e with EAcq => owner s = None | ERel => owner s = Some i | EUse => owner s = Some i end.
Proof.
  intros (r & Ht & Ht' & Hoth & Hown) Hi. rewrite Ht in Hi.
  assert (Hne : forall j, j <> i -> Nat.eqb i j = false) by (intros j Hj; apply Nat.eqb_neq; congruence).
  destruct e; cbn [run] in Hi.
  - (* acquire *)
    destruct Hown as [Ho Ho']. split; [|exact Ho]. intros j. unfold owns. rewrite Ho, Ho'.
    destruct (Nat.eq_dec j i) as [->|Hj].
    + rewrite Nat.eqb_refl, Ht, Ht'. reflexivity.
    + rewrite (Hoth j Hj), (Hne j Hj). reflexivity.
  - (* release *)
    destruct (owns s i) eqn:Eo; [|congruence]. pose proof (owns_true _ _ Eo) as Ho.
    split; [|exact Ho]. intros j. unfold owns. rewrite Ho, Hown.
    destruct (Nat.eq_dec j i) as [->|Hj].
    + rewrite Nat.eqb_refl, Ht, Ht'. reflexivity.
    + rewrite (Hoth j Hj), (Hne j Hj). reflexivity.
  - (* guarded access *)
    destruct (owns s i) eqn:Eo; [|congruence]. pose proof (owns_true _ _ Eo) as Ho.
    split; [|exact Ho]. intros j. unfold owns. rewrite Hown, Ho.
    destruct (Nat.eq_dec j i) as [->|Hj].
    + rewrite Nat.eqb_refl, Ht, Ht'. reflexivity.
    + rewrite (Hoth j Hj). reflexivity.
Qed.

Lemma lstep_inv_complete s i e s' : inv_complete s -> lstep s i e s' ->
  inv_complete s' /\
  match e with EAcq => owner s = None | ERel => owner s = Some i | EUse => owner s = Some i end.
Proof.
  intros Hinv Hst.
  assert (Hi : run (owns s i) (todo s i) <> None) by (rewrite Hinv; discriminate).
  destruct (lstep_run _ _ _ _ Hst Hi) as [Hall He]. split; [|exact He].
  intros j. rewrite Hall. apply Hinv.
Qed.

Lemma step_run s i e s' : gstep s i e s' -> run (owns s i) (todo s i) <> None ->
  (forall j, run (owns s' j) (todo s' j) = run (owns s j) (todo s j)) /\
  match e with EAcq => owner s = None | ERel => owner s = Some i | EUse => owner s = Some i end.
Proof. intros H. apply lstep_run. apply gstep_lstep. exact H. Qed.

Lemma step_inv s i e s' : inv s -> gstep s i e s' ->
  inv s' /\ match e with EAcq => owner s = None | ERel => owner s = Some i | EUse => owner s = Some i end.
Proof.
  intros Hinv Hst. destruct (step_run _ _ _ _ Hst (Hinv i)) as [Hall He].
  split; [|exact He]. intros j. rewrite Hall. apply Hinv.
Qed.

Lemma step_inv_complete s i e s' : inv_complete s -> gstep s i e s' -> inv_complete s'.
Proof.
  intros Hinv Hst.
  assert (Hi : run (owns s i) (todo s i) <> None) by (rewrite Hinv; discriminate).
  destruct (step_run _ _ _ _ Hst Hi) as [Hall _]. intros j. rewrite Hall. apply Hinv.
Qed.

Lemma gstep_det s i e s1 s2 : gstep s i e s1 -> gstep s i e s2 -> s1 = s2.
Proof.
  intros H1 H2. inversion H1; subst; inversion H2; subst;
    repeat match goal with
           | A : todo ?s ?i = _, B : todo ?s ?i = _ |- _ => rewrite A in B; inversion B; subst; clear B
           end; reflexivity.
Qed.

(* GLOBAL THEOREM.  Every schedule of any number of disciplined threads: whenever a thread touches
   a guarded field it is the (one) holder of the mutex, only the holder releases, and the mutex is
   free whenever it is acquired. *)
Theorem mutual_exclusion : forall s l s',
  inv s -> gexec s l s' ->
  inv s' /\
  forall pre i e post s1, l = pre ++ (i, e) :: post -> gexec s pre s1 ->
    match e with EAcq => owner s1 = None | ERel => owner s1 = Some i | EUse => owner s1 = Some i end.
Proof.
  intros s l s' Hinv Hex. induction Hex as [s|s i e s1 l s2 Hst Hex IH].
  - split; [exact Hinv|]. intros pre i e post s1 Hl. destruct pre; discriminate.
  - destruct (step_inv _ _ _ _ Hinv Hst) as [Hinv1 He].
    destruct (IH Hinv1) as [Hinv2 Hrest]. split; [exact Hinv2|].
    intros pre j e' post s3 Hl Hpre.
    destruct pre as [|[i0 e0] pre].
    + cbn in Hl. inversion Hl; subst. inversion Hpre; subst. exact He.
    + cbn in Hl. inversion Hl; subst.
      inversion Hpre as [|? ? ? sx ? ? Hst' Hpre']; subst.
      assert (sx = s1) by (eapply gstep_det; eauto). subst sx.
      eapply Hrest; eauto.
Qed.

Lemma gexec_inv_complete s l s' : inv_complete s -> gexec s l s' -> inv_complete s'.
Proof.
  intros Hinv Hex. induction Hex as [s|s i e s1 l s2 Hst Hex IH]; [exact Hinv|].
  apply IH. eapply step_inv_complete; eauto.
Qed.

(* AT MOST ONE OWNER.  What a thread believes from its own history alone (it owns the lock iff its
   last lock event was an acquire) agrees with the global state, so two threads never both believe
   they hold the mutex. *)
Fixpoint local_owns (l : list (nat * event)) (i : nat) (o : bool) : bool :=
  match l with
  | [] => o
  | (j, e) :: r =>
      local_owns r i (if Nat.eqb j i then match e with EAcq => true | ERel => false | EUse => o end else o)
  end.

Theorem local_view : forall s l s', inv s -> gexec s l s' ->
  forall i, owns s' i = local_owns l i (owns s i).
Proof.
  intros s l s' Hinv Hex. induction Hex as [s|s j e s1 l s2 Hst Hex IH]; intros i; [reflexivity|].
  destruct (step_inv _ _ _ _ Hinv Hst) as [Hinv1 He].
  rewrite (IH Hinv1 i). cbn [local_owns]. f_equal.
  inversion Hst as [s0 i0 r Ht Ho | s0 i0 r Ht | s0 i0 r Ht]; subst; unfold owns; cbn [owner].
  - rewrite Ho. destruct (Nat.eqb j i); reflexivity.
  - rewrite He. destruct (Nat.eqb j i); reflexivity.
  - destruct (Nat.eqb j i); reflexivity.
Qed.

Corollary at_most_one_owner : forall s l s', inv s -> gexec s l s' ->
  forall i j, local_owns l i (owns s i) = true -> local_owns l j (owns s j) = true -> i = j.
Proof.
  intros s l s' Hinv Hex i j Hi Hj.
  rewrite <- (local_view _ _ _ Hinv Hex) in Hi, Hj.
  apply owns_true in Hi. apply owns_true in Hj. congruence.
Qed.

(* ---- from checked bodies to the global theorem ---- *)
(* any number of threads, thread i running any partial execution of a checked body *)
Lemma init_inv (bodies : nat -> list cstmt) (ts : nat -> list event) (sts : nat -> status) :
  (forall i, chk_entry false (bodies i) = true) ->
  (forall i, thread_trace (bodies i) (ts i) (sts i)) ->
  inv {| owner := None; todo := ts |}.
Proof.
  intros Hc Ht i. unfold owns. cbn [owner todo].
  pose proof (chk_entry_sound _ _ (Hc i) _ _ (Ht i)) as H. unfold ok_end in H.
  destruct (run false (ts i)); [discriminate|contradiction].
Qed.

Theorem checked_threads_mutual_exclusion (bodies : nat -> list cstmt) ts sts l s' :
  (forall i, chk_entry false (bodies i) = true) ->
  (forall i, thread_trace (bodies i) (ts i) (sts i)) ->
  gexec {| owner := None; todo := ts |} l s' ->
  (forall pre i e post s1, l = pre ++ (i, e) :: post -> gexec {| owner := None; todo := ts |} pre s1 ->
     match e with EAcq => owner s1 = None | ERel => owner s1 = Some i | EUse => owner s1 = Some i end) /\
  (forall i j, local_owns l i false = true -> local_owns l j false = true -> i = j).
Proof.
  intros Hc Ht Hex. pose proof (init_inv _ _ _ Hc Ht) as Hinv. split.
  - exact (proj2 (mutual_exclusion _ _ _ Hinv Hex)).
  - intros i j. exact (at_most_one_owner _ _ _ Hinv Hex i j).
Qed.

(* ============================================================================================ *)
(* Part 3: function values.  The translator cannot see where a closure, or a function or method
   used as a value, is called; the obligation therefore requires their (inlined) bodies to be
   neutral.  Neutral code performs no lock event at all, so calling it anywhere is harmless. *)

Lemma neutral_nl l :
  (fix nl (l : list cstmt) : bool := match l with [] => true | y :: r => neutral y && nl r end) l
  = forallb neutral l.
Proof. induction l as [|y l IH]; [reflexivity|]. cbn [forallb]. rewrite <- IH. reflexivity. Qed.

Lemma neutral_branch a b : neutral (CBranch a b) = forallb neutral a && forallb neutral b.
Proof. cbn [neutral]. rewrite !neutral_nl. reflexivity. Qed.
Lemma neutral_loop b : neutral (CLoop b) = forallb neutral b.
Proof. cbn [neutral]. rewrite neutral_nl. reflexivity. Qed.
Lemma neutral_scope b : neutral (CScope b) = forallb neutral b.
Proof. cbn [neutral]. rewrite neutral_nl. reflexivity. Qed.

Definition nitem (it : item) : bool :=
  match it with IStmt s => neutral s | IAgain b => forallb neutral b end.
Definition nitems (l : list item) : bool := forallb nitem l.
Definition nframes (k : list frame) : bool :=
  forallb (fun f => nitems (fst f) && Nat.eqb (snd f) 0) k.

Lemma nitems_code c : nitems (code c) = forallb neutral c.
Proof. unfold nitems, code. induction c as [|y c IH]; [reflexivity|]. cbn. rewrite IH. reflexivity. Qed.
Lemma nitems_app a b : nitems (a ++ b) = nitems a && nitems b.
Proof. unfold nitems. apply forallb_app. Qed.
Lemma nitems_to_again r : nitems r = true -> nitems (to_again r) = true.
Proof.
  induction r as [|it r IH]; [auto|]. destruct it; cbn [to_again].
  - intros H. apply IH. cbn in H. apply andb_prop in H. tauto.
  - auto.
Qed.

Lemma neutral_no_events n c d k t st :
  tr n c d k t st -> nitems c = true -> d = 0 -> nframes k = true -> t = [].
Proof.
  induction 1; intros Hc Hd Hk; try reflexivity; try discriminate;
    try (cbn in Hc; discriminate).
  - (* pop *)
    cbn in Hk. apply andb_prop in Hk. destruct Hk as [Hf Hk]. apply andb_prop in Hf. destruct Hf as [Hf1 Hf2].
    apply Nat.eqb_eq in Hf2. cbn in Hf1, Hf2. auto.
  - (* branch left *)
    cbn [nitems forallb nitem] in Hc. rewrite neutral_branch in Hc.
    apply andb_prop in Hc. destruct Hc as [Hab Hr]. apply andb_prop in Hab. destruct Hab as [Ha Hb].
    apply IHtr; auto. rewrite nitems_app, nitems_code, Ha. exact Hr.
  - (* branch right *)
    cbn [nitems forallb nitem] in Hc. rewrite neutral_branch in Hc.
    apply andb_prop in Hc. destruct Hc as [Hab Hr]. apply andb_prop in Hab. destruct Hab as [Ha Hb].
    apply IHtr; auto. rewrite nitems_app, nitems_code, Hb. exact Hr.
  - (* loop *)
    cbn [nitems forallb nitem] in Hc. rewrite neutral_loop in Hc.
    apply IHtr; auto.
  - (* leave the loop *)
    cbn [nitems forallb nitem] in Hc. apply andb_prop in Hc. destruct Hc as [_ Hr]. apply IHtr; auto.
  - (* one more iteration *)
    pose proof Hc as Hc'. cbn [nitems forallb nitem] in Hc'. apply andb_prop in Hc'. destruct Hc' as [Hb Hr].
    apply IHtr; auto. rewrite nitems_app, nitems_code, Hb. exact Hc.
  - (* break *)
    cbn [nitems forallb nitem] in Hc. apply andb_prop in Hc. destruct Hc as [_ Hr].
    apply nitems_to_again in Hr. rewrite H in Hr. cbn [nitems forallb] in Hr.
    apply andb_prop in Hr. destruct Hr as [_ Hr]. apply IHtr; auto.
  - (* continue *)
    cbn [nitems forallb nitem] in Hc. apply andb_prop in Hc. destruct Hc as [_ Hr].
    apply nitems_to_again in Hr. rewrite H in Hr. apply IHtr; auto.
  - (* return *)
    apply IHtr; auto.
  - (* call *)
    cbn [nitems forallb nitem] in Hc. rewrite neutral_scope in Hc.
    apply andb_prop in Hc. destruct Hc as [Hb Hr]. subst d.
    apply IHtr; auto.
    + rewrite nitems_code. exact Hb.
    + cbn [nframes forallb fst snd]. unfold nitems in Hr |- *. rewrite Hr. exact Hk.
Qed.

Theorem neutral_sound c : neutral_list c = true -> forall t st, thread_trace c t st -> t = [].
Proof.
  intros H t st [n Ht]. eapply neutral_no_events; eauto.
  rewrite nitems_code. exact H.
Qed.

(* under the regenerated obligation, everything callable through a function value is neutral *)
Theorem function_values_neutral p : well_locked p = true ->
  forall m f, In m all_mutexes -> In f (p_funcs p) ->
  fn_kind f = KClosure \/ mem (fn_name f) (p_values p) = true ->
  exists c, elab p m (fn_body f) = Some c /\ forall t st, thread_trace c t st -> t = [].
Proof.
  unfold well_locked, locks_ok. intros H m f Hm Hf Hv.
  apply andb_prop in H. destruct H as [H _].
  apply andb_prop in H. destruct H as [_ H].
  rewrite forallb_forall in H. specialize (H m Hm). unfold mutex_ok in H.
  apply andb_prop in H. destruct H as [H _].
  rewrite forallb_forall in H. specialize (H f Hf). unfold fn_ok in H.
  assert (Hn : neutral_ok p m (fn_body f) = true).
  { destruct Hv as [Hk|Hv].
    - rewrite Hk in H. exact H.
    - destruct (fn_kind f); [|exact H]. rewrite Hv in H. apply andb_prop in H. tauto. }
  unfold neutral_ok in Hn. destruct (elab p m (fn_body f)) as [c|]; [|discriminate].
  exists c. split; [reflexivity|]. apply neutral_sound. exact Hn.
Qed.
