(* ClientNoPanic.v -- Client.Do / SerialClient.Do never panic, whatever the transport delivers:
   neither the exception recognisers on the receive window nor the response parsers on the frame
   index outside their argument. *)
From Coq Require Import ZifyBool ZifyN ZifyNat.
Require Import MB.GoSem MB.CrcModel MB.PacketModel MB.ClientModel.
Require Import MB.proofs.ClientProofs MB.proofs.ClientC07 MB.proofs.ClientInv.
Open Scope N_scope.
Ltac Zify.zify_post_hook ::= Z.div_mod_to_equations.

Ltac hyp_if := match goal with H : context [if ?c then _ else _] |- _ => destruct c eqn:? end.
(* symbolic execution of a parser body: every index and re-slice is in range by the guards passed *)
Ltac np := repeat (cbn zeta; cbn [bind]; first [ discriminate | hyp_if | progress go_step ]).

Lemma as_tcp_error_np d : as_tcp_error d <> Panic.
Proof. unfold as_tcp_error. np. Qed.
Lemma as_rtu_error_np d : as_rtu_error d <> Panic.
Proof. unfold as_rtu_error. np. Qed.
Lemma as_rtu_error_crc_np d : as_rtu_error_crc d <> Panic.
Proof. unfold as_rtu_error_crc. np. apply as_rtu_error_np. Qed.

Lemma as_tcp_error_ne d : forall e, as_tcp_error d <> Err e.
Proof. intros e. unfold as_tcp_error. np. Qed.
Lemma as_rtu_error_ne d : forall e, as_rtu_error d <> Err e.
Proof. intros e. unfold as_rtu_error. np. Qed.
Lemma as_rtu_error_crc_ne d : forall e, as_rtu_error_crc d <> Err e.
Proof. intros e. unfold as_rtu_error_crc. np. apply as_rtu_error_ne. Qed.

Lemma recognise_no_panic k d : recognise k d <> RPanic.
Proof.
  destruct k; unfold recognise.
  - pose proof (as_tcp_error_np d). pose proof (as_tcp_error_ne d).
    destruct (as_tcp_error d) as [[x|]|e|]; try discriminate; [exfalso; eapply H0; reflexivity|congruence].
  - pose proof (as_rtu_error_crc_np d). pose proof (as_rtu_error_crc_ne d).
    destruct (as_rtu_error_crc d) as [[[[u f] c]|]|e|]; try discriminate; [exfalso; eapply H0; reflexivity|congruence].
  - pose proof (as_rtu_error_crc_np d). pose proof (as_rtu_error_crc_ne d).
    destruct (as_rtu_error_crc d) as [[[[u f] c]|]|e|]; try discriminate; [exfalso; eapply H0; reflexivity|congruence].
Qed.

(* ---------- the response parsers ---------- *)
Lemma parse_bytes_resp_tcp_np fc d : parse_bytes_resp_tcp fc d <> Panic.
Proof. unfold parse_bytes_resp_tcp. np. Qed.
Lemma parse_bytes_resp_rtu_np fc d : parse_bytes_resp_rtu fc d <> Panic.
Proof. unfold parse_bytes_resp_rtu. np. Qed.

Lemma fixed_tcp_len d t : fixed_resp_guard_tcp d = Ok t -> (12 <= slen d)%nat.
Proof. unfold fixed_resp_guard_tcp. destruct (slen d <? 12)%nat eqn:E; [discriminate|]. intros _. lia. Qed.
Lemma fixed_tcp_np d : fixed_resp_guard_tcp d <> Panic.
Proof. unfold fixed_resp_guard_tcp. np. Qed.
Lemma fixed_rtu_len d t : fixed_resp_guard_rtu d = Ok t -> (8 <= slen d)%nat.
Proof. unfold fixed_resp_guard_rtu. destruct (slen d <? 8)%nat eqn:E; [discriminate|]. intros _. lia. Qed.
Lemma fixed_rtu_np d : fixed_resp_guard_rtu d <> Panic.
Proof. unfold fixed_resp_guard_rtu. np. Qed.

Ltac fixed_tcp d :=
  destruct (fixed_resp_guard_tcp d) eqn:E; cbn [bind];
  [apply fixed_tcp_len in E; np|discriminate|exfalso; exact (fixed_tcp_np d E)].
Ltac fixed_rtu d :=
  destruct (fixed_resp_guard_rtu d) eqn:E; cbn [bind];
  [apply fixed_rtu_len in E; np|discriminate|exfalso; exact (fixed_rtu_np d E)].

Lemma parse_wcoil_resp_tcp_np d : parse_wcoil_resp_tcp d <> Panic.
Proof. unfold parse_wcoil_resp_tcp. fixed_tcp d. Qed.
Lemma parse_wreg_resp_tcp_np d : parse_wreg_resp_tcp d <> Panic.
Proof. unfold parse_wreg_resp_tcp. fixed_tcp d. Qed.
Lemma parse_wmulti_resp_tcp_np fc d : parse_wmulti_resp_tcp fc d <> Panic.
Proof. unfold parse_wmulti_resp_tcp. fixed_tcp d. Qed.
Lemma parse_wcoil_resp_rtu_np d : parse_wcoil_resp_rtu d <> Panic.
Proof. unfold parse_wcoil_resp_rtu. fixed_rtu d. Qed.
Lemma parse_wreg_resp_rtu_np d : parse_wreg_resp_rtu d <> Panic.
Proof. unfold parse_wreg_resp_rtu. fixed_rtu d. Qed.
Lemma parse_wmulti_resp_rtu_np fc d : parse_wmulti_resp_rtu fc d <> Panic.
Proof. unfold parse_wmulti_resp_rtu. fixed_rtu d. Qed.

Lemma parse_srvid_resp_tcp_np d : parse_srvid_resp_tcp d <> Panic.
Proof. unfold parse_srvid_resp_tcp. np. Qed.
Lemma parse_srvid_resp_rtu_np d : parse_srvid_resp_rtu d <> Panic.
Proof. unfold parse_srvid_resp_rtu. np. Qed.

Lemma parse_tcp_response_np d : parse_tcp_response d <> Panic.
Proof.
  unfold parse_tcp_response. destruct (slen d <? 8)%nat eqn:E8; [discriminate|].
  pose proof (as_tcp_error_np d). destruct (as_tcp_error d) as [[x|]| |]; cbn [bind]; try discriminate; [|congruence].
  go_step.
  repeat (match goal with |- context [if ?c then _ else _] => destruct c end);
    first [apply parse_bytes_resp_tcp_np|apply parse_wcoil_resp_tcp_np|apply parse_wreg_resp_tcp_np
          |apply parse_wmulti_resp_tcp_np|apply parse_srvid_resp_tcp_np|discriminate].
Qed.

Lemma parse_rtu_response_np d : parse_rtu_response d <> Panic.
Proof.
  unfold parse_rtu_response. destruct (slen d <? 4)%nat eqn:E4; [discriminate|].
  pose proof (as_rtu_error_np d). destruct (as_rtu_error d) as [[[[u f] c]|]| |]; cbn [bind]; try discriminate; [|congruence].
  go_step.
  repeat (match goal with |- context [if ?c then _ else _] => destruct c end);
    first [apply parse_bytes_resp_rtu_np|apply parse_wcoil_resp_rtu_np|apply parse_wreg_resp_rtu_np
          |apply parse_wmulti_resp_rtu_np|apply parse_srvid_resp_rtu_np|discriminate].
Qed.

Lemma parse_rtu_response_crc_np d : parse_rtu_response_crc d <> Panic.
Proof. unfold parse_rtu_response_crc, crc_gate. np. apply parse_rtu_response_np. Qed.

Lemma parse_resp_no_panic k d : parse_resp k d <> Panic.
Proof.
  destruct k; unfold parse_resp; [apply parse_tcp_response_np| |];
    (pose proof (parse_rtu_response_crc_np d); destruct (parse_rtu_response_crc d); cbn [bind]; [discriminate|discriminate|congruence]).
Qed.

(* ---------- the call ---------- *)
Lemma flush_then_no_panic cfg sc r : r <> DPanic -> fst (flush_then cfg sc r) <> DPanic.
Proof.
  intros H. destruct (flush_then_cases cfg sc r) as [[E|E] _]; rewrite E; [exact H|discriminate].
Qed.

Lemma loop_no_panic cfg sc e : forall steps acc, fst (loop cfg sc e steps acc) <> DPanic.
Proof.
  induction steps as [|st rest IH]; intros acc; [discriminate|].
  cbn [loop].
  destruct (s_ctx st && (s_pick st || negb (s_timer st))); [discriminate|].
  destruct (s_timer st); [discriminate|].
  rewrite with_trace_fst.
  destruct (_ =? 3); [apply flush_then_no_panic; discriminate|].
  destruct (_ <? _)%nat; [apply flush_then_no_panic; discriminate|].
  pose proof (recognise_no_panic (c_kind cfg)
                (window (c_kind cfg) (acc ++ fst (delivered (c_kind cfg) acc (s_rd st))))) as Hr.
  destruct (recognise _ _); [|apply flush_then_no_panic; discriminate|congruence].
  destruct (_ <=? _)%nat; [apply flush_then_no_panic; unfold finish; destruct (acc ++ _); discriminate|].
  destruct (_ && _); [unfold finish; destruct (acc ++ _); discriminate|]. apply IH.
Qed.

Theorem client_no_panic cfg sc r : fst (client_do cfg sc r) <> OPanic.
Proof.
  unfold client_do. destruct r as [q|]; [|discriminate].
  destruct (negb (c_connected cfg)); [destruct (c_kind cfg); discriminate|].
  assert (D : fst (do_ cfg sc (q_bytes q) (q_expected q)) <> DPanic).
  { unfold do_. destruct (c_kind cfg); rewrite ?with_trace_fst.
    - destruct (sc_swd_err sc); [discriminate|]. rewrite with_trace_fst.
      destruct (sc_write_err sc); [discriminate|apply loop_no_panic].
    - destruct (sc_swd_err sc); [discriminate|]. rewrite with_trace_fst.
      destruct (sc_write_err sc); [discriminate|apply loop_no_panic].
    - destruct (sc_write_err sc); [apply flush_then_no_panic; discriminate|apply loop_no_panic]. }
  destruct (fst (do_ cfg sc (q_bytes q) (q_expected q))); cbn [fst]; try discriminate; [|congruence].
  pose proof (parse_resp_no_panic (c_kind cfg) (exact b)) as P.
  destruct (parse_resp (c_kind cfg) (exact b)) as [[tid p]| |]; [discriminate|discriminate|congruence].
Qed.
